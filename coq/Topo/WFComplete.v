(* C01: completeness of the executable building blocks of the verified checker (Topo/WFCheck.v).  Topo/WF.v proves
   them SOUND (an empty violation list implies the Prop clause); here the converse: each test accepts every list that
   meets its clause, so the checker cannot raise the uniqueness, numbering or disjoint-union clauses on a topology
   that satisfies them.  (The ordering clauses are in Topo/MergeOrderLink.v.) *)
From Coq Require Import List NArith ZArith Bool Lia.
From HV Require Import Base.BSet Gen.Tables Topo.Dump Topo.WFCheck Topo.WF.
Import ListNotations.
Local Open Scope N_scope.

Theorem nodup_N_iff l : nodup_N l = true <-> NoDup l.
Proof.
  split; [apply nodup_N_spec|].
  induction l as [|x tl IH]; cbn [nodup_N]; intros H; [reflexivity|].
  inversion H as [|? ? Hnot Ht]; subst. apply andb_true_iff. split; [|now apply IH].
  apply negb_true_iff. destruct (existsb (N.eqb x) tl) eqn:E; [|reflexivity].
  apply existsb_exists in E. destruct E as (y & Hy & Exy). apply N.eqb_eq in Exy. subst y. contradiction.
Qed.

Theorem ids_sequential_iff l : forall k,
  ids_sequential l k = true <-> (forall i o, nth_error l i = Some o -> o_id o = k + N.of_nat i).
Proof.
  intros k. split; [apply ids_sequential_spec|]. revert k.
  induction l as [|x tl IH]; intros k H; cbn [ids_sequential]; [reflexivity|].
  apply andb_true_iff. split.
  - apply N.eqb_eq. rewrite (H 0%nat x eq_refl). cbn. lia.
  - apply IH. intros i o Hn. rewrite (H (S i) o Hn). lia.
Qed.

(* a list of sets pairwise disjoint and disjoint from the accumulator is accepted, and the result is the union *)
Theorem disjoint_union_complete l : forall acc,
  ForallOrdPairs (fun a b => forall i, mem i a = true -> mem i b = true -> False) l ->
  Forall (fun a => forall i, mem i acc = true -> mem i a = true -> False) l ->
  exists u, disjoint_union l acc = Some u /\ forall i, mem i u = mem i acc || existsb (mem i) l.
Proof.
  induction l as [|s tl IH]; intros acc Hp Ha; cbn [disjoint_union].
  - exists acc. split; [reflexivity|]. intros i. cbn. now rewrite orb_false_r.
  - inversion Hp as [|? ? Hs Hpt]; subst. inversion Ha as [|? ? Hacc Hat]; subst.
    destruct (bs_intersects acc s) eqn:E.
    + apply bs_intersects_spec in E. destruct E as (i & H1 & H2). exfalso. exact (Hacc i H1 H2).
    + destruct (IH (bs_union acc s) Hpt) as (u & Hu & Hm).
      * rewrite Forall_forall in *. intros x Hx i H1 H2. rewrite mem_union in H1.
        apply orb_true_iff in H1. destruct H1 as [H1|H1]; [exact (Hat x Hx i H1 H2)|exact (Hs x Hx i H1 H2)].
      * exists u. split; [exact Hu|]. intros i. rewrite Hm, mem_union. cbn [existsb]. now rewrite orb_assoc.
Qed.

Theorem disjoint_union_iff l acc :
  (exists u, disjoint_union l acc = Some u) <->
  ForallOrdPairs (fun a b => forall i, mem i a = true -> mem i b = true -> False) l /\
  Forall (fun a => forall i, mem i acc = true -> mem i a = true -> False) l.
Proof.
  split.
  - intros (u & H). apply disjoint_union_spec in H. destruct H as (_ & Hp & Ha). now split.
  - intros [Hp Ha]. destruct (disjoint_union_complete l acc Hp Ha) as (u & Hu & _). now exists u.
Qed.

(* the set-equality test (PU/NUMA sets = {os_index}, memory cpuset = parent's, allowed = root) is equality *)
Theorem opt_bset_eqb_iff a b : opt_bset_eqb a b = true <-> a = b.
Proof.
  split; [apply opt_bset_eqb_eq|]. intros <-. unfold opt_bset_eqb. destruct a as [x|]; [|reflexivity].
  now apply bs_eqb_spec.
Qed.

(* the inclusion test (set in complete set, set in the parent's set, allowed in root): when both sets are present it is
   inclusion, and it accepts every pair in inclusion *)
Theorem subset_opt_iff x y : subset_opt (Some x) (Some y) = true <-> forall i, mem i x = true -> mem i y = true.
Proof. unfold subset_opt. apply bs_subset_spec. Qed.

Theorem subset_opt_complete a b : (forall i, mem_o i a = true -> mem_o i b = true) -> subset_opt a b = true.
Proof.
  unfold subset_opt, mem_o. destruct a as [x|], b as [y|]; intros H; try reflexivity.
  cbn [oset] in H. now apply bs_subset_spec.
Qed.
