(* The topology as an inductive tree (the model-side representation) and the
   model of hwloc_connect_levels() / hwloc_list_special_objects()
   (hwloc/topology.c).  The node payload is the dump record [dobj]: its
   pointer-like fields (parent, siblings, cousins, depth, ranks, arities) are
   *derived* data, recomputed by the functions below; everything else (type,
   indexes, sets, attributes, memory) is carried as is. *)
From Coq Require Import List NArith ZArith Bool Lia.
From HV Require Import Base.BSet Gen.Tables Text.TypeOrder Topo.Dump.
Import ListNotations.
Local Open Scope N_scope.

Inductive obj := Obj (d : dobj) (nch mch ich xch : list obj).

Definition odata (o : obj) : dobj := match o with Obj d _ _ _ _ => d end.
Definition onch (o : obj) : list obj := match o with Obj _ n _ _ _ => n end.
Definition omch (o : obj) : list obj := match o with Obj _ _ m _ _ => m end.
Definition oich (o : obj) : list obj := match o with Obj _ _ _ i _ => i end.
Definition oxch (o : obj) : list obj := match o with Obj _ _ _ _ x => x end.
Definition otype (o : obj) : N := o_type (odata o).
Definition oid (o : obj) : N := o_id (odata o).

(* number of objects reachable through normal children only *)
Fixpoint nsize (o : obj) : nat :=
  match o with Obj _ n _ _ _ => S ((fix go (l : list obj) : nat := match l with [] => O | c :: tl => (nsize c + go tl)%nat end) n) end.
Definition nsizes (l : list obj) : nat := fold_right (fun c acc => nsize c + acc)%nat O l.

Lemma nsize_eq o : nsize o = S (nsizes (onch o)).
Proof.
  destruct o as [d n m i x]. reflexivity.
Qed.

(* all objects, DFS pre-order: normal, memory, io, misc children (the order of
   hwloc_list_special_objects and of the dump ids) *)
Fixpoint flatten (o : obj) : list obj :=
  match o with
  | Obj _ n m i x =>
      o :: (fix go (l : list obj) : list obj := match l with [] => [] | c :: tl => flatten c ++ go tl end) n
        ++ (fix go (l : list obj) : list obj := match l with [] => [] | c :: tl => flatten c ++ go tl end) m
        ++ (fix go (l : list obj) : list obj := match l with [] => [] | c :: tl => flatten c ++ go tl end) i
        ++ (fix go (l : list obj) : list obj := match l with [] => [] | c :: tl => flatten c ++ go tl end) x
  end.

(* objects reachable through normal children only, DFS pre-order *)
Fixpoint nflatten (o : obj) : list obj :=
  match o with
  | Obj _ n _ _ _ => o :: (fix go (l : list obj) : list obj := match l with [] => [] | c :: tl => nflatten c ++ go tl end) n
  end.
Definition nflattens (l : list obj) : list obj := flat_map nflatten l.

Lemma nflatten_eq o : nflatten o = o :: nflattens (onch o).
Proof.
  destruct o as [d n m i x]. reflexivity.
Qed.

(* ---------- hwloc_type_cmp == HWLOC_OBJ_EQUAL ---------- *)

Definition type_cmp_equal (a b : obj) : bool :=
  (compare_types (otype a) (otype b) =? 0)%Z &&
  (negb (otype a =? HWLOC_OBJ_GROUP) ||
   ((o_group_kind (odata a) =? o_group_kind (odata b))%Z && (o_group_subkind (odata a) =? o_group_subkind (odata b))%Z)).

(* find_same_type(root, obj): some strict normal descendant of root has the type of obj *)
Fixpoint find_same_type (root : obj) (x : obj) : bool :=
  match root with
  | Obj _ n _ _ _ =>
      (fix go (l : list obj) : bool :=
         match l with
         | [] => false
         | c :: tl => if type_cmp_equal c x then true else if find_same_type c x then true else go tl
         end) n
  end.

(* ---------- hwloc_connect_levels main loop ---------- *)

(* first non-PU object, else the first object *)
Definition initial_top (objs : list obj) (dflt : obj) : obj :=
  match find (fun o => negb (otype o =? HWLOC_OBJ_PU)) objs with
  | Some o => o
  | None => hd dflt objs
  end.

Definition refine_top (top : obj) (objs : list obj) : obj :=
  fold_left (fun top o => if negb (type_cmp_equal top o) && find_same_type o top then o else top) objs top.

(* one iteration: (taken, new_objs) *)
Definition take_level (top : obj) (objs : list obj) : list obj * list obj :=
  (filter (type_cmp_equal top) objs,
   flat_map (fun o => if type_cmp_equal top o then onch o else [o]) objs).

Fixpoint connect_levels (fuel : nat) (objs : list obj) : option (list (list obj)) :=
  match objs with
  | [] => Some []
  | o0 :: _ =>
      match fuel with
      | O => None      (* out of fuel: excluded by connect_levels_fuel *)
      | S f =>
          let top := refine_top (initial_top objs o0) objs in
          let '(taken, rest) := take_level top objs in
          match connect_levels f rest with
          | Some ls => Some (taken :: ls)
          | None => None
          end
      end
  end.

(* all normal levels of a tree: the root level, then the loop over its children *)
Definition levels_of (root : obj) : option (list (list obj)) :=
  match connect_levels (nsizes (onch root)) (onch root) with
  | Some ls => Some ([root] :: ls)
  | None => None
  end.

(* ---------- special levels: objects of one special type in DFS order ---------- *)

Definition special_level (root : obj) (ty : N) : list obj := filter (fun o => otype o =? ty) (flatten root).

(* ---------- rebuilding the tree from a dump (the C side's view) ---------- *)

Definition deref_all (d : dump) (l : list ptr) : option (list dobj) :=
  fold_right (fun p acc => match deref d p, acc with Some o, Some r => Some (o :: r) | _, _ => None end) (Some []) l.

Fixpoint tree_of (d : dump) (fuel : nat) (o : dobj) : option obj :=
  match fuel with
  | O => None
  | S f =>
      let sub (l : list ptr) : option (list obj) :=
        match deref_all d l with
        | None => None
        | Some os => fold_right (fun c acc => match tree_of d f c, acc with Some t, Some r => Some (t :: r) | _, _ => None end) (Some []) os
        end in
      match sub (o_nch o), sub (o_mch o), sub (o_ich o), sub (o_xch o) with
      | Some n, Some m, Some i, Some x => Some (Obj o n m i x)
      | _, _, _, _ => None
      end
  end.

Definition tree_of_dump (d : dump) : option obj :=
  match get d 0 with
  | Some r => tree_of d (S (List.length (t_objs d))) r
  | None => None
  end.

(* what the model predicts for the per-depth tables of a dump: ids of each
   normal level, in order, and of each special level *)
Definition model_levels (d : dump) : option (list (list N)) :=
  match tree_of_dump d with
  | Some root =>
      match levels_of root with
      | Some ls => Some (map (map oid) ls ++ map (fun sl => map oid (special_level root (snd sl)))
                          [(HWLOC_TYPE_DEPTH_NUMANODE, HWLOC_OBJ_NUMANODE); (HWLOC_TYPE_DEPTH_BRIDGE, HWLOC_OBJ_BRIDGE);
                           (HWLOC_TYPE_DEPTH_PCI_DEVICE, HWLOC_OBJ_PCI_DEVICE); (HWLOC_TYPE_DEPTH_OS_DEVICE, HWLOC_OBJ_OS_DEVICE);
                           (HWLOC_TYPE_DEPTH_MISC, HWLOC_OBJ_MISC); (HWLOC_TYPE_DEPTH_MEMCACHE, HWLOC_OBJ_MEMCACHE)])
      | None => None
      end
  | None => None
  end.

Definition ptr_ids (l : list ptr) : list N := flat_map (fun p => match p with PId i => [i] | _ => [] end) l.

Definition dump_levels (d : dump) : list (list N) := map (fun l => ptr_ids (l_ids l)) (t_levels d).

Fixpoint list_N_eqb (a b : list N) : bool :=
  match a, b with [], [] => true | x :: a', y :: b' => (x =? y) && list_N_eqb a' b' | _, _ => false end.
Fixpoint list_list_N_eqb (a b : list (list N)) : bool :=
  match a, b with [], [] => true | x :: a', y :: b' => list_N_eqb x y && list_list_N_eqb a' b' | _, _ => false end.

(* correspondence verdict for hwloc_connect_levels + special lists on one dump *)
Definition levels_agree (d : dump) : bool :=
  match model_levels d with
  | Some ls => list_list_N_eqb ls (dump_levels d)
  | None => false
  end.
