(* C12/C19 — generic heap model for the duplication of pointer structures.

   A structure in memory is a *tree of blocks*.  [tree] is its address-free
   abstraction (what the harness prints with hwv_ptree.h and what two
   topologies are compared by); [atree] is the same tree laid out at
   addresses; the heap maps addresses to blocks.  Duplicating = asking the
   allocator for one block per node (pre-order) and storing the blocks.

   Cells of a block, as the C dup treats the corresponding field:
     CV v      copied by value
     COwn t    pointer to a block owned by this one: allocated-and-copied
     CZ        pointer whose copy is a zero-byte allocation (never dereferenced)
     COpq tag  pointer copied verbatim (shared): userdata, callbacks
     CLink id  pointer to object #id of the same topology (parent, cousins,
               level arrays ...): rebuilt by the dup from indexes, never a
               pointer into the other topology
     CNull     NULL
     CUndef    never written by the dup (the copy holds whatever malloc returned) *)
From Coq Require Import List NArith Bool.
Import ListNotations.
Local Open Scope N_scope.

Inductive cell :=
| CV (v : N) | CNull | CZ | COpq (tag : N) | CLink (id : N) | CUndef | COwn (t : tree)
with tree := T (kind n : N) (cells : list cell).

(* what a heap block holds *)
Inductive hcell := HV (v : N) | HNull | HZ (a : N) | HOpq (tag : N) | HLink (id : N) | HUndef | HPtr (a : N).
Record hblock := HB { hb_kind : N; hb_n : N; hb_cells : list hcell }.
Definition heap := N -> option hblock.

(* a tree laid out at addresses *)
Inductive acell :=
| AV (v : N) | ANull | AZ (a : N) | AOpq (tag : N) | ALink (id : N) | AUndef | AOwn (t : atree)
with atree := AT (addr : N) (kind n : N) (cells : list acell).

Definition erase_cell (erase : atree -> tree) (c : acell) : cell :=
  match c with
  | AV v => CV v | ANull => CNull | AZ _ => CZ | AOpq g => COpq g | ALink i => CLink i | AUndef => CUndef
  | AOwn t => COwn (erase t)
  end.
Fixpoint erase (t : atree) : tree :=
  match t with AT _ k n cs => T k n (map (erase_cell erase) cs) end.

Definition at_addr (t : atree) : N := match t with AT a _ _ _ => a end.
Definition hcell_of (c : acell) : hcell :=
  match c with
  | AV v => HV v | ANull => HNull | AZ a => HZ a | AOpq g => HOpq g | ALink i => HLink i | AUndef => HUndef
  | AOwn t => HPtr (at_addr t)
  end.

(* every (address, block) of a laid-out tree, pre-order *)
Fixpoint nodes (t : atree) : list (N * hblock) :=
  match t with AT a k n cs =>
    (a, HB k n (map hcell_of cs)) ::
    flat_map (fun c => match c with AOwn t' => nodes t' | _ => [] end) cs
  end.
Definition addrs (t : atree) : list N := map fst (nodes t).

(* the tree is in the heap *)
Definition stored (h : heap) (t : atree) : Prop := forall a b, In (a, b) (nodes t) -> h a = Some b.

Definition upd (h : heap) (a : N) (b : option hblock) : heap := fun x => if N.eqb x a then b else h x.
Definition write_nodes (l : list (N * hblock)) (h : heap) : heap :=
  fold_left (fun h p => upd h (fst p) (Some (snd p))) l h.
Definition free_addrs (l : list N) (h : heap) : heap := fold_left (fun h a => upd h a None) l h.

(* pointers held by the blocks of a laid-out tree *)
Definition hptrs (b : hblock) : list N :=
  flat_map (fun c => match c with HPtr a => [a] | _ => [] end) (hb_cells b).
Definition shared_tags (b : hblock) : list N :=
  flat_map (fun c => match c with HOpq g => [g] | _ => [] end) (hb_cells b).

(* ---------------------------------------------------------------- allocator *)
Record allocator := { ast : Type; anext : ast -> N -> N * ast }.

Section Assign.
  Variable ksize : N -> N -> N.      (* bytes requested for a block of kind k with n elements *)
  Variable al : allocator.

  (* allocator state + log of (size, address) requests, most recent first *)
  Definition rstate := (ast al * list (N * N))%type.
  Definition alloc (n : N) (s : rstate) : N * rstate :=
    let '(a, st') := anext al (fst s) n in (a, (st', (n, a) :: snd s)).

  (* one allocation per node, in pre-order; a CZ cell is a zero-byte request *)
  Fixpoint assign (t : tree) (s : rstate) : atree * rstate :=
    match t with T k n cs =>
      let '(a, s1) := alloc (ksize k n) s in
      let '(acs, s2) :=
        (fix go (cs : list cell) (s : rstate) : list acell * rstate :=
           match cs with
           | [] => ([], s)
           | c :: r =>
             let '(ac, s') :=
               match c with
               | CV v => (AV v, s) | CNull => (ANull, s) | COpq g => (AOpq g, s) | CLink i => (ALink i, s) | CUndef => (AUndef, s)
               | CZ => let '(a0, s0) := alloc 0 s in (AZ a0, s0)
               | COwn t' => let '(t1, s1') := assign t' s in (AOwn t1, s1')
               end in
             let '(acs, s'') := go r s' in (ac :: acs, s'')
           end) cs s1 in
      (AT a k n acs, s2)
    end.

  (* the sizes the duplication of [t] requests, as a function of [t] alone *)
  Fixpoint sizes (t : tree) : list N :=
    match t with T k n cs =>
      ksize k n ::
      (fix go (cs : list cell) : list N :=
         match cs with
         | [] => []
         | c :: r => (match c with COwn t' => sizes t' | CZ => [0] | _ => [] end) ++ go r
         end) cs
    end.

  Definition trace (s : rstate) : list N := rev (map fst (snd s)).

  (* the duplication: lay out the (normalised) tree and store every block *)
  Definition dup_run (t : tree) (h : heap) (s : rstate) : atree * heap * rstate :=
    let '(t', s') := assign t s in (t', write_nodes (nodes t') h, s').

  (* owned blocks have a positive size (a zero-byte block is a CZ cell) *)
  Fixpoint wf_tree (t : tree) : bool :=
    match t with T k n cs =>
      N.ltb 0 (ksize k n) &&
      (fix go (cs : list cell) : bool :=
         match cs with [] => true | c :: r => (match c with COwn t' => wf_tree t' | _ => true end) && go r end) cs
    end.
End Assign.

(* a bump allocator with alignment [A] (shmem.c) — also the concrete allocator of the non-vacuity examples *)
Definition align_up (A n : N) : N := ((n + A - 1) / A) * A.
Definition bump (A : N) : allocator := {| ast := N; anext := fun c n => (c, c + align_up A n) |}.

(* the allocator contract: an address handed out for a non-empty request was not
   in use before and is in use afterwards; nothing in use is ever handed out again *)
Record alloc_spec (al : allocator) (owns : ast al -> N -> Prop) : Prop := {
  spec_fresh : forall s n a s', anext al s n = (a, s') -> 0 < n -> ~ owns s a /\ owns s' a;
  spec_mono : forall s n a s' x, anext al s n = (a, s') -> owns s x -> owns s' x
}.

(* executable equality of trees (the driver compares the model's copy with the one the harness printed) *)
Fixpoint tree_eqb (t u : tree) : bool :=
  match t, u with T k n cs, T k' n' cs' =>
    N.eqb k k' && N.eqb n n' &&
    (fix go (cs cs' : list cell) : bool :=
       match cs, cs' with
       | [], [] => true
       | c :: r, c' :: r' =>
         (match c, c' with
          | CV v, CV v' => N.eqb v v' | CNull, CNull => true | CZ, CZ => true
          | COpq g, COpq g' => N.eqb g g' | CLink i, CLink i' => N.eqb i i'
          | CUndef, _ => true        (* an unwritten field matches anything *)
          | COwn t', COwn u' => tree_eqb t' u'
          | _, _ => false
          end) && go r r'
       | _, _ => false
       end) cs cs'
  end.

(* path (list of cell indexes) of the first difference, for diagnostics *)
Fixpoint tree_diff (t u : tree) : option (list N) :=
  match t, u with T k n cs, T k' n' cs' =>
    if negb (N.eqb k k' && N.eqb n n') then Some [] else
    (fix go (i : N) (cs cs' : list cell) : option (list N) :=
       match cs, cs' with
       | [], [] => None
       | c :: r, c' :: r' =>
         match (match c, c' with
                | CV v, CV v' => if N.eqb v v' then None else Some [i]
                | CNull, CNull => None | CZ, CZ => None
                | COpq g, COpq g' => if N.eqb g g' then None else Some [i]
                | CLink a, CLink b => if N.eqb a b then None else Some [i]
                | CUndef, _ => None
                | COwn t', COwn u' => match tree_diff t' u' with None => None | Some p => Some (i :: p) end
                | _, _ => Some [i]
                end) with
         | Some p => Some p
         | None => go (i + 1) r r'
         end
       | _, _ => Some [i]
       end) 0 cs cs'
  end.
