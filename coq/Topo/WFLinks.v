(* The link clauses of C01 as Props over the flat dump - parent/child/sibling pointers, sibling ranks, first/last
   child, the children array, cousins, logical indexes, depth and per-depth level membership - and soundness of
   the executable checker for them: wf_check d = [] -> WFLinks d.  Together with Topo/WF.v (sets, uniqueness,
   totals, filters, level lookup) this states in mathematical form what a clean run of the checker establishes. *)
From Coq Require Import List NArith ZArith Bool Lia String.
From HV Require Import Base.BSet Gen.Tables Text.TypeOrder Topo.Dump Topo.WFCheck Topo.WF.
Import ListNotations.
Local Open Scope N_scope.

Lemma ptr_eqb_eq a b : ptr_eqb a b = true -> a = b.
Proof. destruct a, b; cbn; try discriminate; [reflexivity|]. intros H. apply N.eqb_eq in H. now subst. Qed.

(* the four children lists of an object *)
Definition chain_of (k : ckind) (o : dobj) : list ptr :=
  match k with KNormal => o_nch o | KMemory => o_mch o | KIo => o_ich o | KMisc => o_xch o end.
Definition arity_of_kind (k : ckind) (o : dobj) : N :=
  match k with KNormal => o_arity o | KMemory => o_marity o | KIo => o_iarity o | KMisc => o_xarity o end.

Definition prev_in (chain : list ptr) (i : nat) : ptr := match i with O => PNull | S j => nth_ptr chain j end.

Record WFLinks (d : dump) : Prop := {
  (* the i-th entry of a children list is an object whose parent pointer, sibling rank, previous and next
     sibling say exactly that, and whose type has the kind of the list *)
  wl_child : forall o k i c, In o (t_objs d) -> nth_error (chain_of k o) i = Some c ->
      exists co, deref d c = Some co /\
        o_parent co = PId (o_id o) /\ o_rank co = N.of_nat i /\
        o_prev_sib co = prev_in (chain_of k o) i /\ o_next_sib co = nth_ptr (chain_of k o) (S i) /\
        kind_ok k (o_type co) = true /\
        (k = KNormal -> (o_depth o < o_depth co)%Z);
  (* arities are the lengths of the lists; first_child, last_child and children[] describe the normal list *)
  wl_arity : forall o k, In o (t_objs d) -> N.of_nat (List.length (chain_of k o)) = arity_of_kind k o;
  wl_first_last : forall o, In o (t_objs d) ->
      o_first o = nth_ptr (o_nch o) 0 /\ o_last o = last (o_nch o) PNull /\
      match o_carray o with
      | None => o_nch o = []
      | Some a => o_nch o <> [] /\ List.length a = List.length (o_nch o) /\ forall i, nth_ptr a i = nth_ptr (o_nch o) i
      end;
  (* the j-th entry of a level is an object of that depth and type whose logical index is j and whose cousins
     are the neighbouring entries; entries appear in DFS (dump id) order *)
  wl_level : forall l j p, In l (t_levels d) -> nth_error (l_ids l) j = Some p ->
      exists o, deref d p = Some o /\
        o_depth o = l_depth l /\ o_lidx o = N.of_nat j /\ Z.of_N (o_type o) = l_type l /\
        o_prev_cousin o = prev_in (l_ids l) j /\ o_next_cousin o = nth_ptr (l_ids l) (S j);
  wl_level_width : forall l, In l (t_levels d) -> N.of_nat (List.length (l_ids l)) = l_width l
}.

(* ---------- soundness ---------- *)

Lemma check_chain_from_nil d p k chain : forall rest i,
  check_chain_from d p k chain rest i = [] ->
  forall n c, nth_error rest n = Some c -> check_child d p k chain (i + n) c = [].
Proof.
  induction rest as [|c0 tl IH]; intros i H n c Hn; [destruct n; discriminate|].
  cbn [check_chain_from] in H. apply app_nil_inv in H as [H1 H2].
  destruct n as [|n]; cbn in Hn.
  - injection Hn as <-. now rewrite Nat.add_0_r.
  - replace (i + S n)%nat with (S i + n)%nat by lia. apply (IH (S i) H2 n c Hn).
Qed.

Lemma ptr_list_eqb_spec a b : ptr_list_eqb a b = true ->
  List.length a = List.length b /\ forall i, nth_ptr a i = nth_ptr b i.
Proof.
  unfold ptr_list_eqb. intros H. apply andb_true_iff in H as [Hl Hf]. apply Nat.eqb_eq in Hl. split; [exact Hl|].
  revert b Hl Hf. induction a as [|x a IH]; intros [|y b] Hl Hf i; cbn in Hl; try discriminate.
  - reflexivity.
  - cbn [combine forallb fst snd] in Hf. apply andb_true_iff in Hf as [H1 H2]. apply ptr_eqb_eq in H1. subst y.
    destruct i as [|i]; [reflexivity|]. unfold nth_ptr in *. cbn [nth]. apply IH; [now injection Hl|exact H2].
Qed.

Lemma check_level_from_nil d l : forall rest first j prev,
  check_level_from d l first rest j prev = [] ->
  forall n p, nth_error rest n = Some p ->
    exists o, deref d p = Some o /\
      o_depth o = l_depth l /\ o_lidx o = N.of_nat (j + n) /\ Z.of_N (o_type o) = l_type l /\
      o_prev_cousin o = (match n with O => prev | S m => nth_ptr rest m end) /\ o_next_cousin o = nth_ptr rest (S n).
Proof.
  induction rest as [|p0 tl IH]; intros first j prev H n p Hn; [destruct n; discriminate|].
  cbn [check_level_from] in H. destruct (deref d p0) as [o0|] eqn:E0; [|discriminate].
  brk.
  destruct n as [|n]; cbn in Hn.
  - injection Hn as <-. exists o0. split; [exact E0|].
    got "level-depth"%string. got "logical-index"%string. got "prev-cousin"%string. got "next-cousin"%string. got "level-type"%string.
    repeat split.
    + now apply Z.eqb_eq.
    + rewrite Nat.add_0_r. now apply N.eqb_eq.
    + now apply Z.eqb_eq.
    + now apply ptr_eqb_eq.
    + unfold nth_ptr in *. cbn [nth]. now apply ptr_eqb_eq.
  - match goal with H : check_level_from _ _ _ tl _ _ = [] |- _ => destruct (IH _ _ _ H n p Hn) as (o & A1 & A2 & A3 & A4 & A5 & A6) end.
    exists o. split; [exact A1|]. split; [exact A2|]. split; [rewrite A3; f_equal; lia|]. split; [exact A4|]. split.
    + rewrite A5. destruct n; reflexivity.
    + rewrite A6. reflexivity.
Qed.

Section Sound.
Variable d : dump.
Hypothesis Hall : wf_check d = [].

Lemma chain_check o k : In o (t_objs d) -> check_chain d o k (chain_of k o) (arity_of_kind k o) = [].
Proof.
  intros Hin. destruct (check_obj_nil d o Hin Hall) as (Hc & _ & _). unfold check_children in Hc. brk.
  destruct k; assumption.
Qed.

Lemma sound_child o k i c : In o (t_objs d) -> nth_error (chain_of k o) i = Some c ->
      exists co, deref d c = Some co /\
        o_parent co = PId (o_id o) /\ o_rank co = N.of_nat i /\
        o_prev_sib co = prev_in (chain_of k o) i /\ o_next_sib co = nth_ptr (chain_of k o) (S i) /\
        kind_ok k (o_type co) = true /\
        (k = KNormal -> (o_depth o < o_depth co)%Z).
Proof.
  intros Hin Hn. pose proof (chain_check o k Hin) as Hc. unfold check_chain in Hc. apply app_nil_inv in Hc as [_ Hc].
  pose proof (check_chain_from_nil d o k _ _ 0%nat Hc i c Hn) as H. cbn [Nat.add] in H.
  unfold check_child in H. destruct (deref d c) as [co|]; [|discriminate]. brk.
  exists co. split; [reflexivity|].
  got "child-parent"%string. got "sibling-rank"%string. got "prev-sibling"%string. got "next-sibling"%string. got "child-kind"%string.
  split; [now apply ptr_eqb_eq|]. split; [now apply N.eqb_eq|]. split; [now apply ptr_eqb_eq|]. split; [now apply ptr_eqb_eq|].
  split; [assumption|]. intros ->.
  match goal with H : chk _ "child-depth"%string _ = [] |- _ => apply chk_nil in H; now apply Z.ltb_lt in H end.
Qed.

Lemma sound_arity_kind o k : In o (t_objs d) -> N.of_nat (List.length (chain_of k o)) = arity_of_kind k o.
Proof.
  intros Hin. pose proof (chain_check o k Hin) as Hc. unfold check_chain in Hc. apply app_nil_inv in Hc as [Hc _].
  apply chk_nil in Hc. now apply N.eqb_eq.
Qed.

Lemma sound_first_last o : In o (t_objs d) ->
      o_first o = nth_ptr (o_nch o) 0 /\ o_last o = last (o_nch o) PNull /\
      match o_carray o with
      | None => o_nch o = []
      | Some a => o_nch o <> [] /\ List.length a = List.length (o_nch o) /\ forall i, nth_ptr a i = nth_ptr (o_nch o) i
      end.
Proof.
  intros Hin. destruct (check_obj_nil d o Hin Hall) as (Hc & _ & _). unfold check_children in Hc. brk.
  got "first-child"%string. got "last-child"%string. got "children-array"%string.
  split; [now apply ptr_eqb_eq|]. split; [now apply ptr_eqb_eq|].
  destruct (o_carray o) as [a|].
  - destruct (o_nch o) as [|c0 tl] eqn:En; [discriminate|]. split; [discriminate|].
    match goal with H : ptr_list_eqb _ _ = true |- _ => apply ptr_list_eqb_spec in H; exact H end.
  - destruct (o_nch o); [reflexivity|discriminate].
Qed.

Lemma level_check l : In l (t_levels d) -> check_level d l = [].
Proof.
  intros Hin. unfold wf_check in Hall. apply app_nil_inv in Hall as [_ H]. apply app_nil_inv in H as [H _].
  exact (flat_map_nil _ _ H l Hin).
Qed.

Lemma sound_level l j p : In l (t_levels d) -> nth_error (l_ids l) j = Some p ->
      exists o, deref d p = Some o /\
        o_depth o = l_depth l /\ o_lidx o = N.of_nat j /\ Z.of_N (o_type o) = l_type l /\
        o_prev_cousin o = prev_in (l_ids l) j /\ o_next_cousin o = nth_ptr (l_ids l) (S j).
Proof.
  intros Hin Hn. pose proof (level_check l Hin) as Hc. unfold check_level in Hc. brk.
  match goal with H : check_level_from _ _ _ _ _ _ = [] |- _ =>
    destruct (check_level_from_nil d l _ _ _ _ H j p Hn) as (o & A1 & A2 & A3 & A4 & A5 & A6) end.
  exists o. repeat split; assumption.
Qed.

Lemma sound_level_width l : In l (t_levels d) -> N.of_nat (List.length (l_ids l)) = l_width l.
Proof.
  intros Hin. pose proof (level_check l Hin) as Hc. unfold check_level in Hc. brk.
  got "level-width"%string. now apply N.eqb_eq.
Qed.

Theorem wf_check_sound_links : WFLinks d.
Proof.
  constructor.
  - intros o k i c. apply sound_child.
  - intros o k. apply sound_arity_kind.
  - apply sound_first_last.
  - apply sound_level.
  - apply sound_level_width.
Qed.
End Sound.
