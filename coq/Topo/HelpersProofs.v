(* C09 - proofs about the helper models of Topo/Helpers.v. *)
From Coq Require Import List NArith ZArith Bool Lia.
From HV Require Import Base.BSet Gen.Tables Text.TypeOrder Topo.Dump Topo.Obj Topo.Helpers.
Import ListNotations.
Local Open Scope N_scope.

(* ---------- induction over normal children ---------- *)

Lemma obj_nind (P : obj -> Prop) :
  (forall d n m i x, Forall P n -> P (Obj d n m i x)) -> forall o, P o.
Proof.
  intros H. fix IH 1. intros [d n m i x]. apply H.
  induction n as [|c tl IHn]; constructor; [apply IH | exact IHn].
Qed.

(* ---------- sets ---------- *)

Lemma subset_refl s : bs_subset s s = true.
Proof. apply bs_subset_spec. auto. Qed.
Lemma subset_trans a b c : bs_subset a b = true -> bs_subset b c = true -> bs_subset a c = true.
Proof. rewrite !bs_subset_spec. auto. Qed.
Lemma subset_empty s : bs_subset bs_empty s = true.
Proof. apply bs_subset_spec. intros i. rewrite mem_empty. discriminate. Qed.
Lemma subset_antisym a b : bs_subset a b = true -> bs_subset b a = true -> a = b.
Proof.
  rewrite !bs_subset_spec. intros H1 H2. apply bs_ext. intros i.
  destruct (mem i a) eqn:Ea, (mem i b) eqn:Eb; auto.
  - apply H1 in Ea. congruence.
  - apply H2 in Eb. congruence.
Qed.
Lemma intersects_false a b : bs_intersects a b = false <-> forall i, mem i a = true -> mem i b = false.
Proof.
  split.
  - intros H i Ha. destruct (mem i b) eqn:Eb; auto.
    assert (bs_intersects a b = true) by (apply bs_intersects_spec; eauto). congruence.
  - intros H. destruct (bs_intersects a b) eqn:E; auto.
    apply bs_intersects_spec in E as [i [Ha Hb]]. rewrite (H i Ha) in Hb. discriminate.
Qed.
Lemma intersects_sym a b : bs_intersects a b = bs_intersects b a.
Proof.
  destruct (bs_intersects a b) eqn:E1, (bs_intersects b a) eqn:E2; auto.
  - apply bs_intersects_spec in E1 as [i [Ha Hb]].
    assert (bs_intersects b a = true) by (apply bs_intersects_spec; eauto). congruence.
  - apply bs_intersects_spec in E2 as [i [Ha Hb]].
    assert (bs_intersects a b = true) by (apply bs_intersects_spec; eauto). congruence.
Qed.
Lemma nonempty_mem s : s <> bs_empty -> exists i, mem i s = true.
Proof.
  intros H. destruct (bs_intersects s s) eqn:E.
  - apply bs_intersects_spec in E as [i [Hi _]]. eauto.
  - exfalso. apply H. apply bs_ext. intros i. rewrite mem_empty.
    destruct (mem i s) eqn:Ei; auto. rewrite intersects_false in E. rewrite (E i Ei) in Ei. discriminate.
Qed.
Lemma is_empty_false s : bs_is_empty s = false <-> s <> bs_empty.
Proof.
  split.
  - intros H E. apply bs_is_empty_spec in E. congruence.
  - intros H. destruct (bs_is_empty s) eqn:E; auto. apply bs_is_empty_spec in E. contradiction.
Qed.

Lemma mem_union_list i l : mem i (union_list l) = existsb (mem i) l.
Proof.
  induction l as [|s tl IH]; simpl.
  - apply mem_empty.
  - now rewrite mem_union, IH.
Qed.

Lemma union_list_app a b : union_list (a ++ b) = bs_union (union_list a) (union_list b).
Proof.
  apply bs_ext. intros i. rewrite mem_union, !mem_union_list, existsb_app. reflexivity.
Qed.

(* ---------- the cpuset structure of a tree (facts established by wf_check:
   "cpuset-not-disjoint-union-of-children", "pu-cpuset", "arity") ---------- *)

(* empty or a singleton *)
Definition atom (s : bset) : bool :=
  match bs_first s with None => true | Some k => bs_eqb s (bs_single k) end.

Fixpoint tree_wf (o : obj) : bool :=
  match o with
  | Obj d n _ _ _ =>
      (fix go (l : list obj) : bool := match l with [] => true | c :: tl => tree_wf c && go tl end) n &&
      pairwise_disjoint (map cs n) &&
      (o_arity d =? N.of_nat (List.length n)) &&
      match n with
      | [] => atom (dcs d)
      | _ => bs_eqb (dcs d) (union_list (map cs n))
      end
  end.

Lemma tree_wf_eq o :
  tree_wf o = forallb tree_wf (onch o) && pairwise_disjoint (map cs (onch o)) &&
              (o_arity (odata o) =? N.of_nat (List.length (onch o))) &&
              match onch o with [] => atom (cs o) | _ => bs_eqb (cs o) (union_list (map cs (onch o))) end.
Proof.
  destruct o as [d n m i x]. unfold cs. cbn [tree_wf onch odata].
  assert (E : (fix go (l : list obj) : bool := match l with [] => true | c :: tl => tree_wf c && go tl end) n = forallb tree_wf n).
  { induction n as [|c tl IH]; cbn [forallb]; [reflexivity|]. now rewrite IH. }
  rewrite E. reflexivity.
Qed.

Lemma tree_wf_inv o :
  tree_wf o = true ->
  Forall (fun c => tree_wf c = true) (onch o) /\
  pairwise_disjoint (map cs (onch o)) = true /\
  o_arity (odata o) = N.of_nat (List.length (onch o)) /\
  (onch o = [] -> atom (cs o) = true) /\
  (onch o <> [] -> cs o = union_list (map cs (onch o))).
Proof.
  rewrite tree_wf_eq. intros H.
  apply andb_true_iff in H as [H H4]. apply andb_true_iff in H as [H H3]. apply andb_true_iff in H as [H1 H2].
  split; [|split; [exact H2|split; [now apply N.eqb_eq|split]]].
  - apply Forall_forall. intros c Hc. rewrite forallb_forall in H1. auto.
  - intros E. now rewrite E in H4.
  - intros NE. destruct (onch o); [contradiction|]. now apply bs_eqb_spec.
Qed.

Lemma atom_subset s t : atom s = true -> bs_subset t s = true -> t = bs_empty \/ t = s.
Proof.
  unfold atom. intros Ha Hs. destruct (bs_first s) as [k|] eqn:E.
  - apply bs_eqb_spec in Ha. subst s. destruct (mem k t) eqn:Ek.
    + right. apply bs_ext. intros i. rewrite mem_single.
      destruct (N.eqb_spec i k) as [->|NE]; [exact Ek|].
      destruct (mem i t) eqn:Ei; auto. rewrite bs_subset_spec in Hs. apply Hs in Ei.
      rewrite mem_single in Ei. apply N.eqb_eq in Ei. contradiction.
    + left. apply bs_ext. intros i. rewrite mem_empty. destruct (mem i t) eqn:Ei; auto.
      rewrite bs_subset_spec in Hs. pose proof (Hs i Ei) as Hm. rewrite mem_single in Hm.
      apply N.eqb_eq in Hm. subst i. congruence.
  - apply bs_first_none in E. subst s. left. apply subset_antisym; [exact Hs|apply subset_empty].
Qed.

(* pairwise disjointness, by membership *)
Lemma pairwise_disjoint_in l a b :
  pairwise_disjoint (map cs l) = true -> In a l -> In b l -> a = b \/ bs_intersects (cs a) (cs b) = false.
Proof.
  induction l as [|c tl IH]; simpl; [contradiction|].
  intros H Ha Hb. apply andb_true_iff in H as [H1 H2]. rewrite forallb_forall in H1.
  destruct Ha as [<-|Ha], Hb as [<-|Hb]; auto.
  - right. apply negb_true_iff. apply H1. now apply in_map.
  - right. rewrite intersects_sym. apply negb_true_iff. apply H1. now apply in_map.
Qed.

Lemma pairwise_disjoint_app a b :
  pairwise_disjoint a = true -> pairwise_disjoint b = true ->
  (forall s t, In s a -> In t b -> bs_intersects s t = false) -> pairwise_disjoint (a ++ b) = true.
Proof.
  induction a as [|s tl IH]; simpl; intros Ha Hb Hab; [exact Hb|].
  apply andb_true_iff in Ha as [H1 H2]. apply andb_true_iff. split.
  - rewrite forallb_app. apply andb_true_iff. split; [exact H1|].
    apply forallb_forall. intros t Ht. apply negb_true_iff. apply Hab; auto.
  - apply IH; auto.
Qed.

Lemma in_nflatten_self o : In o (nflatten o).
Proof. rewrite nflatten_eq. now left. Qed.

Lemma in_nflatten_child o c x : In c (onch o) -> In x (nflatten c) -> In x (nflatten o).
Proof.
  intros Hc Hx. rewrite nflatten_eq. right. unfold nflattens. apply in_flat_map. eauto.
Qed.

Lemma in_nflatten_inv o x : In x (nflatten o) -> x = o \/ exists c, In c (onch o) /\ In x (nflatten c).
Proof.
  rewrite nflatten_eq. intros [<-|H]; auto. right. unfold nflattens in H. apply in_flat_map in H. exact H.
Qed.

Lemma in_nflatten_trans : forall o a x, In a (nflatten o) -> In x (nflatten a) -> In x (nflatten o).
Proof.
  intros o. pattern o. apply obj_nind. clear o. intros d n m i x IH a y Ha Hy.
  apply in_nflatten_inv in Ha as [-> | [c [Hc Ha]]]; [exact Hy|].
  simpl in Hc. rewrite Forall_forall in IH. eapply in_nflatten_child; [exact Hc|]. eapply IH; eauto.
Qed.

(* a descendant's cpuset is inside its ancestor's *)
Lemma child_subset o c : tree_wf o = true -> In c (onch o) -> bs_subset (cs c) (cs o) = true.
Proof.
  intros W Hc. apply tree_wf_inv in W as (_ & _ & _ & _ & HU).
  rewrite HU by (intros E; rewrite E in Hc; contradiction).
  apply bs_subset_spec. intros i Hi. rewrite mem_union_list. apply existsb_exists.
  exists (cs c). split; [now apply in_map|exact Hi].
Qed.

Lemma desc_subset : forall o, tree_wf o = true -> forall a, In a (nflatten o) -> bs_subset (cs a) (cs o) = true /\ tree_wf a = true.
Proof.
  intros o. pattern o. apply obj_nind. clear o. intros d n m i x IH W a Ha.
  apply in_nflatten_inv in Ha as [-> | [c [Hc Ha]]]; [split; [apply subset_refl|exact W]|].
  pose proof (tree_wf_inv _ W) as (WC & _). rewrite Forall_forall in WC, IH. simpl in Hc, WC.
  destruct (IH c Hc (WC c Hc) a Ha) as [H1 H2]. split; [|exact H2].
  eapply subset_trans; [exact H1|]. apply child_subset; auto.
Qed.

(* ================================================================== *)
(* hwloc_get_obj_covering_cpuset                                       *)

Lemma child_covers_subset set c : set <> bs_empty -> child_covers set c = bs_subset set (cs c).
Proof.
  intros NE. unfold child_covers, cs, dcs. destruct (o_cs (odata c)); [reflexivity|].
  symmetry. destruct (bs_subset set bs_empty) eqn:E; auto.
  exfalso. apply NE. apply subset_antisym; [exact E|apply subset_empty].
Qed.

Lemma cover_descend_eq set o :
  cover_descend set o = match find (child_covers set) (onch o) with Some c => cover_descend set c | None => o end.
Proof.
  destruct o as [d n m i x]. cbn [cover_descend onch].
  generalize (Obj d n m i x) as o0. intros o0.
  induction n as [|c tl IH]; cbn [find]; [reflexivity|].
  destruct (child_covers set c); [reflexivity|exact IH].
Qed.

Lemma cover_descend_spec set : set <> bs_empty ->
  forall o, tree_wf o = true -> bs_subset set (cs o) = true ->
  In (cover_descend set o) (nflatten o) /\ bs_subset set (cs (cover_descend set o)) = true /\
  forall a, In a (nflatten o) -> bs_subset set (cs a) = true -> In (cover_descend set o) (nflatten a).
Proof.
  intros NE o. pattern o. apply obj_nind. clear o. intros d n m i x IH W Hs.
  set (o := Obj d n m i x) in *.
  pose proof (tree_wf_inv _ W) as (WC & WD & _ & _ & _). rewrite Forall_forall in WC, IH.
  change (onch o) with n in *.
  rewrite cover_descend_eq. change (onch o) with n.
  destruct (find (child_covers set) n) as [c|] eqn:F.
  - apply find_some in F as [Hc Hcov]. rewrite child_covers_subset in Hcov by exact NE.
    destruct (IH c Hc (WC c Hc) Hcov) as (R1 & R2 & R3).
    split; [eapply in_nflatten_child; eauto|]. split; [exact R2|].
    intros a Ha Hsa. apply in_nflatten_inv in Ha as [-> | [c' [Hc' Ha]]].
    + eapply in_nflatten_child; eauto.
    + destruct (pairwise_disjoint_in n c c' WD Hc Hc') as [<-|Dj]; [now apply R3|].
      exfalso. destruct (nonempty_mem _ NE) as [k Hk].
      destruct (desc_subset c' (WC c' Hc') a Ha) as [Sa _].
      rewrite intersects_false in Dj. rewrite bs_subset_spec in Hcov, Hsa, Sa.
      specialize (Dj k (Hcov k Hk)). rewrite (Sa k (Hsa k Hk)) in Dj. discriminate.
  - split; [apply in_nflatten_self|]. split; [exact Hs|].
    intros a Ha Hsa. apply in_nflatten_inv in Ha as [-> | [c' [Hc' Ha]]]; [apply in_nflatten_self|].
    exfalso. pose proof (find_none _ _ F c' Hc') as Hn. rewrite child_covers_subset in Hn by exact NE.
    destruct (desc_subset c' (WC c' Hc') a Ha) as [Sa _].
    rewrite (subset_trans _ _ _ Hsa Sa) in Hn. discriminate.
Qed.

(* the result is the deepest object including the set: every object including it is an ancestor-or-self of the result *)
Lemma covering_is_deepest_including_l root set :
  tree_wf root = true ->
  match get_obj_covering_cpuset root set with
  | Some o => set <> bs_empty /\ In o (nflatten root) /\ bs_subset set (cs o) = true /\
              (forall a, In a (nflatten root) -> bs_subset set (cs a) = true -> In o (nflatten a))
  | None => set = bs_empty \/ (forall a, In a (nflatten root) -> bs_subset set (cs a) = false)
  end.
Proof.
  intros W. unfold get_obj_covering_cpuset.
  destruct (bs_is_empty set) eqn:E; cbn [orb].
  - left. now apply bs_is_empty_spec.
  - apply is_empty_false in E. destruct (bs_subset set (cs root)) eqn:S; cbn [negb].
    + destruct (cover_descend_spec set E root W S) as (R1 & R2 & R3). auto.
    + right. intros a Ha. destruct (bs_subset set (cs a)) eqn:Sa; auto.
      destruct (desc_subset root W a Ha) as [Sr _]. rewrite (subset_trans _ _ _ Sa Sr) in S. discriminate.
Qed.

(* hwloc_get_child_covering_cpuset: the first child including the set *)
Lemma child_covering_first set parent :
  match get_child_covering_cpuset set parent with
  | Some c => set <> bs_empty /\ bs_subset set (cs c) = true /\
              exists l1 l2, onch parent = l1 ++ c :: l2 /\ forall c', In c' l1 -> bs_subset set (cs c') = false
  | None => set = bs_empty \/ forall c, In c (onch parent) -> bs_subset set (cs c) = false
  end.
Proof.
  unfold get_child_covering_cpuset. destruct (bs_is_empty set) eqn:E.
  - left. now apply bs_is_empty_spec.
  - apply is_empty_false in E.
    assert (G : forall l, match find (child_covers set) l with
              | Some c => bs_subset set (cs c) = true /\ exists l1 l2, l = l1 ++ c :: l2 /\ forall c', In c' l1 -> bs_subset set (cs c') = false
              | None => forall c, In c l -> bs_subset set (cs c) = false end).
    { induction l as [|c tl IH]; cbn [find]; [intros c []|].
      destruct (child_covers set c) eqn:Ec; rewrite child_covers_subset in Ec by exact E.
      - split; [exact Ec|]. exists [], tl. split; [reflexivity|intros c' []].
      - destruct (find (child_covers set) tl) as [c2|].
        + destruct IH as (I1 & l1 & l2 & -> & I2). split; [exact I1|]. exists (c :: l1), l2. split; [reflexivity|].
          intros c' [<-|Hc']; auto.
        + intros c' [<-|Hc']; auto. }
    specialize (G (onch parent)). destruct (find (child_covers set) (onch parent)); [|now right].
    destruct G as [G1 G2]. auto.
Qed.

(* ================================================================== *)
(* hwloc_get_largest_objs_inside_cpuset                                *)

Definition largest_kids (set : bset) (l : list obj) : list obj :=
  flat_map (fun c => if bs_intersects set (cs c) then largest_all c (bs_inter set (cs c)) else []) l.

Lemma largest_all_eq o set :
  largest_all o set = if bs_eqb (cs o) set then [o] else largest_kids set (onch o).
Proof.
  destruct o as [d n m i x]. cbn [largest_all onch]. destruct (bs_eqb _ set); [reflexivity|].
  unfold largest_kids. induction n as [|c tl IH]; cbn [flat_map]; [reflexivity|]. now rewrite IH.
Qed.

(* the bounded search stores the first [max] objects of the unbounded one *)
Lemma largest_rec_prefix : forall o set max,
  largest_rec o set max = (firstn max (largest_all o set), (max - List.length (firstn max (largest_all o set)))%nat).
Proof.
  intros o. pattern o. apply obj_nind. clear o. intros d n m i x IH set max.
  rewrite largest_all_eq. cbn [onch].
  destruct max as [|mx]; [reflexivity|].
  cbn [largest_rec].
  destruct (bs_eqb (cs (Obj d n m i x)) set); [cbn [firstn]; rewrite firstn_nil; cbn [List.length]; f_equal; lia|].
  generalize (S mx) as max. clear mx.
  induction IH as [|c tl IHc _ IHtl]; intros max.
  - cbn [largest_kids flat_map]. rewrite firstn_nil. cbn [List.length]. f_equal. lia.
  - unfold largest_kids. cbn [flat_map]. fold (largest_kids set tl).
    destruct (bs_intersects set (cs c)).
    + rewrite IHc. set (A := largest_all c (bs_inter set (cs c))).
      pose proof (firstn_length max A) as LA.
      rewrite firstn_app.
      destruct (max - List.length (firstn max A))%nat as [|k] eqn:Em.
      * assert (E0 : (max - List.length A = 0)%nat) by lia. rewrite E0. cbn [firstn]. rewrite app_nil_r.
        f_equal. lia.
      * rewrite IHtl. assert (EA : firstn max A = A) by (apply firstn_all2; lia).
        rewrite EA in *. rewrite <- Em. f_equal. rewrite app_length. lia.
    + cbn [app]. apply IHtl.
Qed.

Lemma in_largest_kids set l x :
  In x (largest_kids set l) <-> exists c, In c l /\ bs_intersects set (cs c) = true /\ In x (largest_all c (bs_inter set (cs c))).
Proof.
  unfold largest_kids. rewrite in_flat_map. split.
  - intros [c [Hc Hx]]. exists c. destruct (bs_intersects set (cs c)); [auto|contradiction].
  - intros [c [Hc [Hi Hx]]]. exists c. rewrite Hi. auto.
Qed.

Lemma inter_nonempty a b : bs_intersects a b = true -> bs_inter a b <> bs_empty.
Proof.
  intros H E. apply bs_intersects_spec in H as [i [Ha Hb]].
  assert (M : mem i (bs_inter a b) = true) by (rewrite mem_inter, Ha, Hb; reflexivity).
  rewrite E, mem_empty in M. discriminate.
Qed.
Lemma inter_subset_l a b : bs_subset (bs_inter a b) a = true.
Proof. apply bs_subset_spec. intros i. rewrite mem_inter. intros H. now apply andb_true_iff in H. Qed.
Lemma inter_subset_r a b : bs_subset (bs_inter a b) b = true.
Proof. apply bs_subset_spec. intros i. rewrite mem_inter. intros H. now apply andb_true_iff in H. Qed.

(* every reported object is in the tree, inside the set, and non-empty when the set is *)
Lemma largest_all_in : forall o set x, In x (largest_all o set) ->
  In x (nflatten o) /\ bs_subset (cs x) set = true /\ (set <> bs_empty -> cs x <> bs_empty).
Proof.
  intros o. pattern o. apply obj_nind. clear o. intros d n m i x0 IH set x Hx.
  rewrite largest_all_eq in Hx. cbn [onch] in Hx.
  destruct (bs_eqb (cs (Obj d n m i x0)) set) eqn:E.
  - apply bs_eqb_spec in E. destruct Hx as [<- | []]. split; [apply in_nflatten_self|].
    rewrite E. split; [apply subset_refl|auto].
  - apply in_largest_kids in Hx as [c [Hc [Hi Hx]]]. rewrite Forall_forall in IH.
    destruct (IH c Hc _ _ Hx) as (R1 & R2 & R3).
    split; [eapply in_nflatten_child; eauto|]. split.
    + eapply subset_trans; [exact R2|apply inter_subset_l].
    + intros _. apply R3. now apply inter_nonempty.
Qed.

(* the reported cpusets union to the set *)
Lemma largest_all_union : forall o, tree_wf o = true -> forall set, bs_subset set (cs o) = true ->
  union_list (map cs (largest_all o set)) = set.
Proof.
  intros o. pattern o. apply obj_nind. clear o. intros d n m i x0 IH W set Hs.
  set (o := Obj d n m i x0) in *.
  pose proof (tree_wf_inv _ W) as (WC & _ & _ & WA & WU). change (onch o) with n in *.
  rewrite Forall_forall in WC, IH.
  rewrite largest_all_eq. change (onch o) with n.
  destruct (bs_eqb (cs o) set) eqn:E.
  - apply bs_eqb_spec in E. cbn [map union_list fold_right]. rewrite E.
    apply bs_ext. intros k. now rewrite mem_union, mem_empty, orb_false_r.
  - destruct n as [|c0 tl0] eqn:En.
    + destruct (atom_subset _ _ (WA eq_refl) Hs) as [-> | ->]; [reflexivity|].
      rewrite (proj2 (bs_eqb_spec _ _) eq_refl) in E. discriminate.
    + rewrite <- En in *. assert (NE : n <> []) by (rewrite En; discriminate). specialize (WU NE).
      apply bs_ext. intros k. rewrite mem_union_list.
      destruct (mem k set) eqn:Ek.
      * (* k is in some child, which then intersects the set *)
        rewrite bs_subset_spec in Hs. pose proof (Hs k Ek) as Hko. rewrite WU, mem_union_list in Hko.
        apply existsb_exists in Hko as [s [Hs1 Hs2]]. apply in_map_iff in Hs1 as [c [<- Hc]].
        assert (Hi : bs_intersects set (cs c) = true) by (apply bs_intersects_spec; eauto).
        assert (U := IH c Hc (WC c Hc) (bs_inter set (cs c)) (inter_subset_r _ _)).
        assert (M : mem k (union_list (map cs (largest_all c (bs_inter set (cs c))))) = true)
          by (rewrite U, mem_inter, Ek, Hs2; reflexivity).
        rewrite mem_union_list in M. apply existsb_exists in M as [s [M1 M2]].
        apply existsb_exists. exists s. split; [|exact M2].
        apply in_map_iff in M1 as [y [<- Hy]]. apply in_map. apply in_largest_kids. eauto.
      * apply not_true_iff_false. intros M. apply existsb_exists in M as [s [M1 M2]].
        apply in_map_iff in M1 as [y [<- Hy]]. apply in_largest_kids in Hy as [c [Hc [Hi Hy]]].
        destruct (largest_all_in _ _ _ Hy) as (_ & R2 & _).
        rewrite bs_subset_spec in R2. specialize (R2 k M2). rewrite mem_inter, Ek in R2. discriminate.
Qed.

(* the reported cpusets are pairwise disjoint *)
Lemma largest_all_disjoint : forall o, tree_wf o = true -> forall set,
  pairwise_disjoint (map cs (largest_all o set)) = true.
Proof.
  intros o. pattern o. apply obj_nind. clear o. intros d n m i x0 IH W set.
  set (o := Obj d n m i x0) in *.
  pose proof (tree_wf_inv _ W) as (WC & WD & _). change (onch o) with n in *.
  rewrite largest_all_eq. change (onch o) with n.
  destruct (bs_eqb (cs o) set); [reflexivity|].
  clear W. induction n as [|c tl IHn]; [reflexivity|].
  unfold largest_kids. cbn [flat_map]. fold (largest_kids set tl). rewrite map_app.
  inversion IH as [|? ? IHc IHtl]; subst. inversion WC as [|? ? WCc WCtl]; subst.
  cbn [map pairwise_disjoint] in WD. apply andb_true_iff in WD as [WD1 WD2].
  apply pairwise_disjoint_app.
  - destruct (bs_intersects set (cs c)); [apply IHc; exact WCc|reflexivity].
  - apply IHn; auto.
  - intros s t Hs Ht. apply in_map_iff in Hs as [y [<- Hy]]. apply in_map_iff in Ht as [z [<- Hz]].
    destruct (bs_intersects set (cs c)); [|contradiction].
    apply in_largest_kids in Hz as [c' [Hc' [_ Hz]]].
    destruct (largest_all_in _ _ _ Hy) as (_ & Sy & _). destruct (largest_all_in _ _ _ Hz) as (_ & Sz & _).
    rewrite forallb_forall in WD1. pose proof (WD1 (cs c') (in_map cs _ _ Hc')) as Dj. apply negb_true_iff in Dj.
    rewrite intersects_false in *. intros k Hk.
    rewrite bs_subset_spec in Sy, Sz. pose proof (Sy k Hk) as Hk1. rewrite mem_inter in Hk1. apply andb_true_iff in Hk1 as [_ Hk1].
    destruct (mem k (cs z)) eqn:Ez; auto. pose proof (Sz k Ez) as Hk2. rewrite mem_inter in Hk2. apply andb_true_iff in Hk2 as [_ Hk2].
    rewrite (Dj k Hk1) in Hk2. discriminate.
Qed.

Lemma nsize_in_nflatten : forall o x, In x (nflatten o) -> (nsize x <= nsize o)%nat.
Proof.
  intros o. pattern o. apply obj_nind. clear o. intros d n m i x0 IH x Hx.
  apply in_nflatten_inv in Hx as [-> | [c [Hc Hx]]]; [lia|].
  rewrite Forall_forall in IH. specialize (IH c Hc x Hx). cbn [onch] in Hc.
  rewrite (nsize_eq (Obj d n m i x0)). cbn [onch].
  assert (nsize c <= nsizes n)%nat.
  { clear -Hc. induction n as [|c' tl IHn]; [contradiction|]. cbn [nsizes fold_right]. destruct Hc as [->|Hc]; [lia|].
    specialize (IHn Hc). unfold nsizes in IHn. lia. }
  lia.
Qed.

(* maximality: no strict ancestor of a reported object is included in the set *)
Lemma largest_all_maximal : forall o, tree_wf o = true -> forall set, bs_subset set (cs o) = true ->
  forall x, In x (largest_all o set) ->
  forall a, In a (nflatten o) -> In x (nflattens (onch a)) -> bs_subset (cs a) set = false.
Proof.
  intros o. pattern o. apply obj_nind. clear o. intros d n m i x0 IH W set Hs x Hx a Ha Hxa.
  set (o := Obj d n m i x0) in *.
  pose proof (tree_wf_inv _ W) as (WC & WD & _). change (onch o) with n in *.
  rewrite Forall_forall in WC, IH.
  rewrite largest_all_eq in Hx. change (onch o) with n in Hx.
  destruct (bs_eqb (cs o) set) eqn:E.
  - destruct Hx as [<- | []]. exfalso.
    assert (In o (nflatten a)) by (rewrite nflatten_eq; now right).
    apply nsize_in_nflatten in Ha.
    assert (nsize o < nsize a)%nat.
    { rewrite (nsize_eq a). unfold nflattens in Hxa. apply in_flat_map in Hxa as [c [Hc Hoc]].
      apply nsize_in_nflatten in Hoc.
      assert (nsize c <= nsizes (onch a))%nat.
      { clear -Hc. induction (onch a) as [|c' tl IHn]; [contradiction|]. cbn [nsizes fold_right]. destruct Hc as [->|Hc]; [lia|].
        specialize (IHn Hc). unfold nsizes in IHn. lia. }
      lia. }
    lia.
  - apply in_largest_kids in Hx as [c [Hc [Hi Hx]]].
    apply in_nflatten_inv in Ha as [-> | [c' [Hc' Ha]]].
    + (* a = o: cs o is not included in the set, since set is strictly inside cs o *)
      destruct (bs_subset (cs o) set) eqn:So; auto.
      rewrite (subset_antisym _ _ So Hs) in E. rewrite (proj2 (bs_eqb_spec _ _) eq_refl) in E. discriminate.
    + change (onch o) with n in Hc'.
      destruct (pairwise_disjoint_in n c c' WD Hc Hc') as [<-|Dj].
      * assert (R := IH c Hc (WC c Hc) (bs_inter set (cs c)) (inter_subset_r _ _) x Hx a Ha Hxa).
        destruct (bs_subset (cs a) set) eqn:Sa; auto.
        destruct (desc_subset c (WC c Hc) a Ha) as [Sac _].
        assert (bs_subset (cs a) (bs_inter set (cs c)) = true).
        { apply bs_subset_spec. intros k Hk. rewrite mem_inter. rewrite bs_subset_spec in Sa, Sac.
          now rewrite (Sa k Hk), (Sac k Hk). }
        congruence.
      * exfalso. destruct (largest_all_in _ _ _ Hx) as (_ & Sx & NEx).
        specialize (NEx (inter_nonempty _ _ Hi)). destruct (nonempty_mem _ NEx) as [k Hk].
        assert (Hxc' : In x (nflatten c')).
        { eapply in_nflatten_trans; [exact Ha|]. rewrite nflatten_eq. now right. }
        destruct (desc_subset c' (WC c' Hc') x Hxc') as [Sxc' _].
        rewrite bs_subset_spec in Sx, Sxc'. pose proof (Sx k Hk) as K1. rewrite mem_inter in K1.
        apply andb_true_iff in K1 as [_ K1]. rewrite intersects_false in Dj.
        pose proof (Sxc' k Hk) as K2. rewrite (Dj k K1) in K2. discriminate.
Qed.

Lemma in_firstn {A} k (l : list A) x : In x (firstn k l) -> In x l.
Proof. intros H. rewrite <- (firstn_skipn k l). apply in_or_app. now left. Qed.

Lemma forallb_firstn {A} (f : A -> bool) k l : forallb f l = true -> forallb f (firstn k l) = true.
Proof.
  intros H. apply forallb_forall. intros x Hx. rewrite forallb_forall in H. apply H. eapply in_firstn; eauto.
Qed.

Lemma pairwise_disjoint_firstn k : forall l, pairwise_disjoint l = true -> pairwise_disjoint (firstn k l) = true.
Proof.
  induction k as [|k IH]; intros l H; [reflexivity|].
  destruct l as [|s tl]; [reflexivity|]. cbn [firstn pairwise_disjoint] in *.
  apply andb_true_iff in H as [H1 H2]. apply andb_true_iff. split; [now apply forallb_firstn|now apply IH].
Qed.

(* rc = -1 iff the set is not inside the root; otherwise the array holds the
   first max objects of the unbounded search, which are in the tree, inside
   the set, pairwise disjoint, maximal, and union to the set whenever the
   array was not filled up *)
Lemma largest_objs_partition_l root set max :
  tree_wf root = true ->
  let rc := fst (get_largest_objs_inside_cpuset root set max) in
  let objs := snd (get_largest_objs_inside_cpuset root set max) in
  (rc = (-1)%Z <-> bs_subset set (cs root) = false) /\
  (bs_subset set (cs root) = true ->
     rc = Z.of_nat (List.length objs) /\ (max <= 0 -> rc = 0)%Z /\ (0 < max -> rc <= max)%Z /\
     objs = firstn (Z.to_nat max) (largest_all root set) /\
     pairwise_disjoint (map cs objs) = true /\
     (forall x, In x objs ->
        In x (nflatten root) /\ bs_subset (cs x) set = true /\
        forall a, In a (nflatten root) -> In x (nflattens (onch a)) -> bs_subset (cs a) set = false) /\
     bs_subset (union_list (map cs objs)) set = true /\
     ((rc < max)%Z -> union_list (map cs objs) = set)).
Proof.
  intros W rc objs. subst rc objs. unfold get_largest_objs_inside_cpuset.
  destruct (bs_subset set (cs root)) eqn:S; cbn [negb].
  2:{ cbn [fst snd]. split; [tauto|discriminate]. }
  destruct (Z.leb_spec max 0) as [Hm|Hm].
  - cbn [fst snd]. split; [split; discriminate|]. intros _.
    replace (Z.to_nat max) with 0%nat by lia. cbn [firstn List.length map pairwise_disjoint union_list fold_right].
    repeat split; try reflexivity; try lia; try contradiction. apply subset_empty.
  - rewrite largest_rec_prefix. cbn [fst snd].
    set (L := largest_all root set). set (k := Z.to_nat max).
    pose proof (firstn_length k L) as FL.
    split; [split; [lia|discriminate]|]. intros _.
    pose proof (largest_all_union root W set S) as U. fold L in U.
    pose proof (largest_all_disjoint root W set) as D. fold L in D.
    split; [reflexivity|]. split; [lia|]. split; [lia|]. split; [reflexivity|].
    split; [rewrite <- firstn_map; now apply pairwise_disjoint_firstn|].
    split.
    { intros x Hx. apply in_firstn in Hx. destruct (largest_all_in _ _ _ Hx) as (R1 & R2 & _).
      split; [exact R1|]. split; [exact R2|]. intros a Ha Hxa. eapply largest_all_maximal; eauto. }
    split.
    { apply bs_subset_spec. intros j Hj. rewrite mem_union_list in Hj. apply existsb_exists in Hj as [s [H1 H2]].
      apply in_map_iff in H1 as [y [<- Hy]]. apply in_firstn in Hy.
      destruct (largest_all_in _ _ _ Hy) as (_ & R2 & _). rewrite bs_subset_spec in R2. auto. }
    intros Hlt. assert (E : firstn k L = L) by (apply firstn_all2; lia). rewrite E. exact U.
Qed.

(* ================================================================== *)
(* cousin iterators                                                    *)

(* a level: every object carries the level's depth and its position as logical index *)
Fixpoint level_ok (depth : Z) (lv : list dobj) (pos : nat) : bool :=
  match lv with
  | [] => true
  | o :: tl => (o_depth o =? depth)%Z && (o_lidx o =? N.of_nat pos) && level_ok depth tl (S pos)
  end.

Lemma iterate_find (p : dobj -> bool) depth : forall sfx pre fuel,
  level_ok depth sfx (List.length pre) = true -> (List.length sfx < fuel)%nat ->
  forall prev, next_by_depth (pre ++ sfx) depth prev = sfx ->
  iterate (fun prev => find p (next_by_depth (pre ++ sfx) depth prev)) fuel prev = filter p sfx.
Proof.
  induction sfx as [|o tl IH]; intros pre fuel Hl Hf prev Hn.
  - destruct fuel; [reflexivity|]. cbn [iterate]. rewrite Hn. reflexivity.
  - destruct fuel as [|f]; [cbn [List.length] in Hf; lia|]. cbn [iterate]. rewrite Hn. cbn [find filter].
    cbn [level_ok] in Hl. apply andb_true_iff in Hl as [Hl Hl3]. apply andb_true_iff in Hl as [Hl1 Hl2].
    apply Z.eqb_eq in Hl1. apply N.eqb_eq in Hl2.
    assert (Hnext : next_by_depth (pre ++ o :: tl) depth (Some o) = tl).
    { unfold next_by_depth. rewrite Hl1, Z.eqb_refl, Hl2, Nat2N.id.
      replace (S (List.length pre)) with (List.length (pre ++ [o])) by (rewrite app_length; cbn; lia).
      change (pre ++ o :: tl) with (pre ++ [o] ++ tl). rewrite app_assoc. rewrite skipn_app, skipn_all, Nat.sub_diag. reflexivity. }
    destruct (p o) eqn:Ep.
    + f_equal. change (pre ++ o :: tl) with (pre ++ [o] ++ tl). rewrite app_assoc.
      apply IH.
      * rewrite app_length. cbn [List.length]. replace (List.length pre + 1)%nat with (S (List.length pre)) by lia. exact Hl3.
      * cbn [List.length] in Hf. lia.
      * rewrite <- app_assoc. exact Hnext.
    + (* the skipping loop walks on: find over the tail, which is what the next call sees from o *)
      destruct (find p tl) as [o'|] eqn:Ef.
      * (* general case handled by re-running the lemma from prev := Some o *)
        assert (G := IH (pre ++ [o]) (S f)).
        rewrite app_length in G. cbn [List.length] in G. replace (List.length pre + 1)%nat with (S (List.length pre)) in G by lia.
        specialize (G Hl3). cbn [List.length] in Hf. specialize (G ltac:(lia) (Some o)).
        rewrite <- app_assoc in G. specialize (G Hnext). cbn [iterate] in G.
        change ((pre ++ [o] ++ tl)) with (pre ++ o :: tl) in G. rewrite Hnext, Ef in G. exact G.
      * assert (G : filter p tl = []).
        { clear -Ef. induction tl as [|y tl IHt]; [reflexivity|]. cbn [find] in Ef. cbn [filter].
          destruct (p y); [discriminate|auto]. }
        now rewrite G.
Qed.

Lemma inside_iter_exact_l lv depth set :
  level_ok depth lv 0 = true -> iter_inside lv depth set = filter (inside_pred set) lv.
Proof.
  intros H. unfold iter_inside, get_next_obj_inside_cpuset_by_depth.
  apply (iterate_find (inside_pred set) depth lv [] (S (List.length lv)) H); [lia|reflexivity].
Qed.

Lemma covering_iter_exact_l lv depth set :
  level_ok depth lv 0 = true -> iter_covering lv depth set = filter (covering_pred set) lv.
Proof.
  intros H. unfold iter_covering, get_next_obj_covering_cpuset_by_depth.
  apply (iterate_find (covering_pred set) depth lv [] (S (List.length lv)) H); [lia|reflexivity].
Qed.

(* ================================================================== *)
(* cpuset <-> nodeset                                                  *)

Lemma fold_add_mem (l : list dobj) : forall acc i,
  mem i (fold_left (fun acc o => bs_add (o_os o) acc) l acc) = mem i acc || existsb (fun o => o_os o =? i) l.
Proof.
  induction l as [|o tl IH]; intros acc i; cbn [fold_left existsb]; [now rewrite orb_false_r|].
  rewrite IH, mem_add. rewrite (N.eqb_sym i (o_os o)).
  destruct (mem i acc), (o_os o =? i); reflexivity.
Qed.

(* i is in the nodeset iff some NUMA node with os_index i has a cpuset meeting the given cpuset *)
Lemma cpuset_to_nodeset_locality nl cpuset i :
  level_ok HWLOC_TYPE_DEPTH_NUMANODE nl 0 = true ->
  mem i (cpuset_to_nodeset nl cpuset) = existsb (fun o => (o_os o =? i) && bs_intersects cpuset (dcs o)) nl.
Proof.
  intros H. unfold cpuset_to_nodeset. rewrite (covering_iter_exact_l _ _ _ H), fold_add_mem, mem_empty. cbn [orb].
  clear H. induction nl as [|o tl IH]; [reflexivity|]. cbn [filter existsb]. unfold covering_pred at 1.
  destruct (bs_intersects cpuset (dcs o)); cbn [existsb]; rewrite IH; [now rewrite andb_true_r|].
  now rewrite andb_false_r.
Qed.

Lemma fold_union_mem nodeset (l : list dobj) : forall acc j,
  mem j (fold_left (fun acc o => if mem (o_os o) nodeset then bs_union acc (dcs o) else acc) l acc)
  = mem j acc || existsb (fun o => mem (o_os o) nodeset && mem j (dcs o)) l.
Proof.
  induction l as [|o tl IH]; intros acc j; cbn [fold_left existsb]; [now rewrite orb_false_r|].
  rewrite IH. destruct (mem (o_os o) nodeset); cbn [andb orb]; [|reflexivity].
  rewrite mem_union. now rewrite orb_assoc.
Qed.

(* j is in the cpuset iff some NUMA node whose os_index is in the nodeset has j in its cpuset *)
Lemma cpuset_from_nodeset_locality nl nodeset j :
  mem j (cpuset_from_nodeset nl nodeset) = existsb (fun o => mem (o_os o) nodeset && mem j (dcs o)) nl.
Proof. unfold cpuset_from_nodeset. now rewrite fold_union_mem, mem_empty. Qed.

(* ================================================================== *)
(* hwloc_get_common_ancestor_obj, all objects                          *)

(* x is o or an ancestor of o, through parent pointers *)
Inductive anc (d : dump) : dobj -> dobj -> Prop :=
| anc_self o : anc d o o
| anc_up x o p : deref d (o_parent o) = Some p -> anc d x p -> anc d x o.

(* facts wf_check establishes ("ids-not-sequential", "child-parent", "child-depth",
   "parent-pointer", "root-level"; ids are DFS pre-order numbers, so a parent's id is smaller) *)
Record parents_ok (d : dump) : Prop := {
  po_id : forall o, In o (t_objs d) -> get d (o_id o) = Some o;
  po_lt : forall o p, In o (t_objs d) -> deref d (o_parent o) = Some p -> In p (t_objs d) /\ o_id p < o_id o;
  po_one_root : forall o o', In o (t_objs d) -> In o' (t_objs d) ->
                  deref d (o_parent o) = None -> deref d (o_parent o') = None -> o_id o = o_id o';
  po_in : forall o p, In o (t_objs d) -> (0 <= o_depth o)%Z -> deref d (o_parent o) = Some p ->
                      (0 <= o_depth p < o_depth o)%Z;
  po_par : forall o, In o (t_objs d) -> (0 < o_depth o)%Z -> deref d (o_parent o) <> None;
  po_root : forall o o', In o (t_objs d) -> In o' (t_objs d) -> o_depth o = 0%Z -> o_depth o' = 0%Z -> o_id o = o_id o'
}.

Lemma same_id d : parents_ok d -> forall a b, In a (t_objs d) -> In b (t_objs d) -> o_id a = o_id b -> a = b.
Proof.
  intros P a b Ha Hb E. pose proof (po_id d P a Ha) as G1. pose proof (po_id d P b Hb) as G2.
  rewrite E in G1. congruence.
Qed.

Lemma anc_inv d x o : anc d x o -> x = o \/ exists p, deref d (o_parent o) = Some p /\ anc d x p.
Proof. intros H. inversion H; subst; eauto. Qed.

Lemma anc_trans d x y z : anc d x y -> anc d y z -> anc d x z.
Proof. intros H1 H2. induction H2 as [o|y o p Hp Ha IH]; [exact H1|]. eapply anc_up; eauto. Qed.

Lemma anc_depth d : parents_ok d -> forall x o, anc d x o -> In o (t_objs d) -> (0 <= o_depth o)%Z ->
  In x (t_objs d) /\ (0 <= o_depth x <= o_depth o)%Z /\ (o_depth x = o_depth o -> x = o).
Proof.
  intros P x o H. induction H as [o|x o p Hp Ha IH]; intros Hi Hd.
  - split; [exact Hi|]. split; [lia|reflexivity].
  - destruct (po_lt d P o p Hi Hp) as [Hpi _]. pose proof (po_in d P o p Hi Hd Hp) as Hpd.
    destruct (IH Hpi ltac:(lia)) as (I1 & I2 & _).
    split; [exact I1|]. split; [lia|]. intros E. lia.
Qed.

(* ---- numbers of ancestors ---- *)

Definition hfuel (d : dump) : nat := S (List.length (t_objs d)).
Definition H (d : dump) (o : dobj) : nat := height d (hfuel d) o.

Lemma id_lt_len d : parents_ok d -> forall o, In o (t_objs d) -> (N.to_nat (o_id o) < List.length (t_objs d))%nat.
Proof.
  intros P o Ho. pose proof (po_id d P o Ho) as G. unfold get in G. apply nth_error_Some. congruence.
Qed.

Lemma height_le_id d : parents_ok d -> forall fuel o, In o (t_objs d) -> (height d fuel o <= N.to_nat (o_id o))%nat.
Proof.
  intros P. induction fuel as [|f IH]; intros o Ho; cbn [height]; [lia|].
  destruct (deref d (o_parent o)) as [p|] eqn:E; [|lia].
  destruct (po_lt d P o p Ho E) as [Hp Hlt]. specialize (IH p Hp). lia.
Qed.

Lemma height_indep d : parents_ok d -> forall f1 f2 o, In o (t_objs d) ->
  (N.to_nat (o_id o) < f1)%nat -> (N.to_nat (o_id o) < f2)%nat -> height d f1 o = height d f2 o.
Proof.
  intros P. induction f1 as [|f1 IH]; intros f2 o Ho H1 H2; [lia|]. destruct f2 as [|f2]; [lia|].
  cbn [height]. destruct (deref d (o_parent o)) as [p|] eqn:E; [|reflexivity].
  destruct (po_lt d P o p Ho E) as [Hp Hlt]. f_equal. apply IH; [exact Hp|lia|lia].
Qed.

Lemma H_step d : parents_ok d -> forall o p, In o (t_objs d) -> deref d (o_parent o) = Some p -> H d o = S (H d p).
Proof.
  intros P o p Ho E. unfold H, hfuel.
  change (height d (S (List.length (t_objs d))) o) with
    (match deref d (o_parent o) with Some p => S (height d (List.length (t_objs d)) p) | None => O end).
  rewrite E. f_equal.
  destruct (po_lt d P o p Ho E) as [Hp _]. pose proof (id_lt_len d P p Hp).
  apply height_indep; auto.
Qed.

Lemma H_root d o : deref d (o_parent o) = None -> H d o = 0%nat.
Proof. intros E. unfold H, hfuel. cbn [height]. now rewrite E. Qed.

Lemma H_lt_fuel d : parents_ok d -> forall o, In o (t_objs d) -> (H d o < hfuel d)%nat.
Proof.
  intros P o Ho. pose proof (height_le_id d P (hfuel d) o Ho). pose proof (id_lt_len d P o Ho). unfold H, hfuel in *. lia.
Qed.

Lemma anc_H d : parents_ok d -> forall x o, anc d x o -> In o (t_objs d) ->
  In x (t_objs d) /\ (H d x <= H d o)%nat /\ (H d x = H d o -> x = o).
Proof.
  intros P x o A. induction A as [o|x o p Hp Ha IH]; intros Hi.
  - split; [exact Hi|]. split; [lia|reflexivity].
  - destruct (po_lt d P o p Hi Hp) as [Hpi _]. destruct (IH Hpi) as (I1 & I2 & _).
    rewrite (H_step d P o p Hi Hp). split; [exact I1|]. split; [lia|]. intros E. lia.
Qed.

Lemma climb_spec d : parents_ok d -> forall k o, In o (t_objs d) -> (k <= H d o)%nat ->
  exists o', climb d k o = Some o' /\ In o' (t_objs d) /\ anc d o' o /\ H d o' = (H d o - k)%nat /\
             forall x, anc d x o -> (H d x <= H d o - k)%nat -> anc d x o'.
Proof.
  intros P. induction k as [|k IH]; intros o Ho Hk; cbn [climb].
  - exists o. split; [reflexivity|]. split; [exact Ho|]. split; [constructor|]. split; [lia|auto].
  - destruct (deref d (o_parent o)) as [p|] eqn:E.
    2:{ rewrite (H_root d o E) in Hk. lia. }
    destruct (po_lt d P o p Ho E) as [Hp _]. pose proof (H_step d P o p Ho E) as Hs.
    destruct (IH p Hp ltac:(lia)) as (o' & C1 & C2 & C3 & C4 & C5).
    exists o'. split; [exact C1|]. split; [exact C2|]. split; [eapply anc_up; eauto|]. split; [lia|].
    intros x Xa Xh. apply C5; [|lia]. apply anc_inv in Xa as [-> | [p' [Hp' Xp]]]; [lia|].
    rewrite E in Hp'. now inversion Hp'; subst.
Qed.

Lemma climb_both_spec d : parents_ok d -> forall fuel a b, In a (t_objs d) -> In b (t_objs d) ->
  H d a = H d b -> (H d a < fuel)%nat ->
  exists r, climb_both d fuel a b = CA_obj (o_id r) /\ anc d r a /\ anc d r b /\
            forall x, anc d x a -> anc d x b -> anc d x r.
Proof.
  intros P. induction fuel as [|f IH]; intros a b Ha Hb Eh Hf; [lia|]. cbn [climb_both].
  destruct (N.eqb_spec (o_id a) (o_id b)) as [E|NE].
  - pose proof (same_id d P a b Ha Hb E) as ->. exists b. repeat split; try constructor. auto.
  - destruct (deref d (o_parent a)) as [pa|] eqn:Epa.
    + pose proof (H_step d P a pa Ha Epa) as Sa.
      destruct (deref d (o_parent b)) as [pb|] eqn:Epb.
      2:{ rewrite (H_root d b Epb) in Eh. lia. }
      pose proof (H_step d P b pb Hb Epb) as Sb.
      destruct (po_lt d P a pa Ha Epa) as [Hpa _]. destruct (po_lt d P b pb Hb Epb) as [Hpb _].
      destruct (IH pa pb Hpa Hpb ltac:(lia) ltac:(lia)) as (r & R1 & R2 & R3 & R4).
      exists r. split; [exact R1|]. split; [eapply anc_up; eauto|]. split; [eapply anc_up; eauto|].
      intros x Xa Xb. apply R4.
      * apply anc_inv in Xa as [-> | [p [Hp Xp]]].
        -- exfalso. destruct (anc_H d P _ _ Xb Hb) as (_ & _ & I3). apply NE. now rewrite (I3 Eh).
        -- rewrite Epa in Hp. now inversion Hp; subst.
      * apply anc_inv in Xb as [-> | [p [Hp Xp]]].
        -- exfalso. destruct (anc_H d P _ _ Xa Ha) as (_ & _ & I3). apply NE. now rewrite (I3 (eq_sym Eh)).
        -- rewrite Epb in Hp. now inversion Hp; subst.
    + exfalso. destruct (deref d (o_parent b)) as [pb|] eqn:Epb.
      * rewrite (H_root d a Epa), (H_step d P b pb Hb Epb) in Eh. lia.
      * apply NE. apply (po_one_root d P a b Ha Hb Epa Epb).
Qed.

Lemma ca_by_height_spec d : parents_ok d -> forall a b, In a (t_objs d) -> In b (t_objs d) ->
  exists r, ca_by_height d a b = CA_obj (o_id r) /\ anc d r a /\ anc d r b /\
            forall x, anc d x a -> anc d x b -> anc d x r.
Proof.
  intros P a b Ha Hb. unfold ca_by_height. fold (hfuel d). fold (H d a) (H d b).
  destruct (Nat.le_gt_cases (H d b) (H d a)) as [L|L].
  - destruct (climb_spec d P (H d a - H d b) a Ha ltac:(lia)) as (a' & C1 & C2 & C3 & C4 & C5).
    rewrite C1. replace (H d b - H d a)%nat with 0%nat by lia. cbn [climb].
    destruct (climb_both_spec d P (hfuel d) a' b C2 Hb ltac:(lia) (H_lt_fuel d P a' C2)) as (r & R1 & R2 & R3 & R4).
    exists r. split; [exact R1|]. split; [exact (anc_trans d r a' a R2 C3)|]. split; [exact R3|].
    intros x Xa Xb. apply R4; [|exact Xb]. apply C5; [exact Xa|].
    destruct (anc_H d P _ _ Xb Hb) as (_ & I2 & _). lia.
  - destruct (climb_spec d P (H d b - H d a) b Hb ltac:(lia)) as (b' & C1 & C2 & C3 & C4 & C5).
    rewrite C1. replace (H d a - H d b)%nat with 0%nat by lia. cbn [climb].
    destruct (climb_both_spec d P (hfuel d) a b' Ha C2 ltac:(lia) (H_lt_fuel d P a Ha)) as (r & R1 & R2 & R3 & R4).
    exists r. split; [exact R1|]. split; [exact R2|]. split; [exact (anc_trans d r b' b R3 C3)|].
    intros x Xa Xb. apply R4; [exact Xa|]. apply C5; [exact Xb|].
    destruct (anc_H d P _ _ Xa Ha) as (_ & I2 & _). lia.
Qed.

(* for ALL objects: termination (fuel depth a + depth b + 1 for normal objects), no NULL
   dereference, and the answer is the deepest common ancestor: an ancestor-or-self of both,
   of which every common ancestor-or-self is an ancestor-or-self *)
Lemma common_ancestor_deepest_l d : parents_ok d -> forall fuel a b,
  In a (t_objs d) -> In b (t_objs d) ->
  (Z.to_nat (o_depth a) + Z.to_nat (o_depth b) < fuel)%nat ->
  exists r, common_ancestor d fuel a b = CA_obj (o_id r) /\ anc d r a /\ anc d r b /\
            forall x, anc d x a -> anc d x b -> anc d x r.
Proof.
  intros P. induction fuel as [|f IH]; intros a b Ha Hb Hf; [lia|].
  cbn [common_ancestor].
  destruct (N.eqb_spec (o_id a) (o_id b)) as [E|NE].
  - pose proof (same_id d P a b Ha Hb E) as ->. exists b. repeat split; try constructor. auto.
  - destruct ((o_depth a <? 0)%Z || (o_depth b <? 0)%Z) eqn:Eneg; [now apply ca_by_height_spec|].
    apply orb_false_iff in Eneg as [Da Db]. apply Z.ltb_ge in Da, Db.
    destruct (Z.ltb_spec (o_depth b) (o_depth a)) as [L1|L1].
    + destruct (deref d (o_parent a)) as [pa|] eqn:Epa; [|exfalso; apply (po_par d P a Ha ltac:(lia)); exact Epa].
      destruct (po_lt d P a pa Ha Epa) as [Hpi _]. pose proof (po_in d P a pa Ha Da Epa) as Hpd.
      destruct (IH pa b Hpi Hb ltac:(lia)) as (r & R1 & R2 & R3 & R4).
      exists r. split; [exact R1|]. split; [eapply anc_up; eauto|]. split; [exact R3|].
      intros x Xa Xb. apply R4; [|exact Xb]. apply anc_inv in Xa as [-> | [p [Hp Xp]]].
      * exfalso. destruct (anc_depth d P _ _ Xb Hb Db) as (_ & I2 & _). lia.
      * rewrite Epa in Hp. now inversion Hp; subst.
    + destruct (Z.ltb_spec (o_depth a) (o_depth b)) as [L2|L2].
      * destruct (deref d (o_parent b)) as [pb|] eqn:Epb; [|exfalso; apply (po_par d P b Hb ltac:(lia)); exact Epb].
        destruct (po_lt d P b pb Hb Epb) as [Hpi _]. pose proof (po_in d P b pb Hb Db Epb) as Hpd.
        destruct (IH a pb Ha Hpi ltac:(lia)) as (r & R1 & R2 & R3 & R4).
        exists r. split; [exact R1|]. split; [exact R2|]. split; [eapply anc_up; eauto|].
        intros x Xa Xb. apply R4; [exact Xa|]. apply anc_inv in Xb as [-> | [p [Hp Xp]]].
        -- exfalso. destruct (anc_depth d P _ _ Xa Ha Da) as (_ & I2 & _). lia.
        -- rewrite Epb in Hp. now inversion Hp; subst.
      * assert (Ed : o_depth a = o_depth b) by lia.
        assert (Dpos : (0 < o_depth a)%Z).
        { destruct (Z.eq_dec (o_depth a) 0) as [Z0|]; [|lia]. exfalso. apply NE. apply (po_root d P a b Ha Hb Z0). lia. }
        destruct (deref d (o_parent a)) as [pa|] eqn:Epa; [|exfalso; apply (po_par d P a Ha Dpos); exact Epa].
        destruct (deref d (o_parent b)) as [pb|] eqn:Epb; [|exfalso; apply (po_par d P b Hb ltac:(lia)); exact Epb].
        destruct (po_lt d P a pa Ha Epa) as [Hpia _]. destruct (po_lt d P b pb Hb Epb) as [Hpib _].
        pose proof (po_in d P a pa Ha Da Epa) as Hpda. pose proof (po_in d P b pb Hb Db Epb) as Hpdb.
        destruct (IH pa pb Hpia Hpib ltac:(lia)) as (r & R1 & R2 & R3 & R4).
        exists r. split; [exact R1|]. split; [eapply anc_up; eauto|]. split; [eapply anc_up; eauto|].
        intros x Xa Xb. apply R4.
        -- apply anc_inv in Xa as [-> | [p [Hp Xp]]].
           ++ exfalso. destruct (anc_depth d P _ _ Xb Hb Db) as (_ & _ & I3). apply NE. now rewrite (I3 Ed).
           ++ rewrite Epa in Hp. now inversion Hp; subst.
        -- apply anc_inv in Xb as [-> | [p [Hp Xp]]].
           ++ exfalso. destruct (anc_depth d P _ _ Xa Ha Da) as (_ & _ & I3). apply NE. now rewrite (I3 (eq_sym Ed)).
           ++ rewrite Epb in Hp. now inversion Hp; subst.
Qed.

(* hwloc_get_obj_with_same_locality between normal/memory types: what is returned has the requested
   sets and matches the subtype / name prefix; NULL means no object of the (single) level of that
   type does *)
Lemma same_locality_sound_complete_l d src ty mt :
  is_normal (o_type src) || is_memory (o_type src) = true -> is_normal ty || is_memory ty = true ->
  match get_obj_with_same_locality d src ty mt 0 with
  | (Some o, e) => e = E_OK /\ In o (level_objs d (get_type_depth d (Z.of_N ty))) /\
                   opt_bs_eqb (o_cs src) (o_cs o) = true /\ opt_bs_eqb (o_nds src) (o_nds o) = true /\ mt o = true
  | (None, e) => e = E_NOENT /\
                 (get_type_depth d (Z.of_N ty) = HWLOC_TYPE_DEPTH_UNKNOWN \/ get_type_depth d (Z.of_N ty) = HWLOC_TYPE_DEPTH_MULTIPLE \/
                  forall o, In o (level_objs d (get_type_depth d (Z.of_N ty))) ->
                            opt_bs_eqb (o_cs src) (o_cs o) && opt_bs_eqb (o_nds src) (o_nds o) && mt o = false)
  end.
Proof.
  intros Hs Ht. unfold get_obj_with_same_locality. cbn [N.eqb negb]. rewrite Hs.
  apply orb_true_iff in Ht. assert (E : negb (is_normal ty) && negb (is_memory ty) = false) by (destruct Ht as [-> | ->]; [reflexivity|apply andb_false_r]).
  rewrite E. set (dep := get_type_depth d (Z.of_N ty)).
  destruct (Z.eqb_spec dep HWLOC_TYPE_DEPTH_UNKNOWN) as [E1|N1]; cbn [orb]; [auto|].
  destruct (Z.eqb_spec dep HWLOC_TYPE_DEPTH_MULTIPLE) as [E2|N2]; [auto|].
  destruct (find _ (level_objs d dep)) as [o|] eqn:F.
  - apply find_some in F as [F1 F2]. apply andb_true_iff in F2 as [F2 F4]. apply andb_true_iff in F2 as [F2 F3]. auto.
  - split; [reflexivity|]. right. right. intros o Ho. exact (find_none _ _ F o Ho).
Qed.

(* ... between PCI / OS devices: with [pci] the first ancestor-or-self of src that is not an OS
   device, a PCI answer is pci itself (a matching PCI device), an OS-device answer is the first
   matching OS device among the I/O children of pci; NULL iff there is none; any non-zero flags,
   any other I/O type or a Misc source is EINVAL *)
Lemma same_locality_io_l d src ty mt :
  is_normal (o_type src) || is_memory (o_type src) = false ->
  (forall flags, flags <> 0 -> get_obj_with_same_locality d src ty mt flags = (None, E_INVAL)) /\
  (is_io (o_type src) = false -> get_obj_with_same_locality d src ty mt 0 = (None, E_INVAL)) /\
  (is_io (o_type src) = true ->
   (o_type src =? HWLOC_OBJ_OS_DEVICE) || (o_type src =? HWLOC_OBJ_PCI_DEVICE) = true ->
   forall pci, climb_osdev d (S (List.length (t_objs d))) src = Some pci ->
   (ty = HWLOC_OBJ_PCI_DEVICE ->
      get_obj_with_same_locality d src ty mt 0 =
      if (o_type pci =? HWLOC_OBJ_PCI_DEVICE) && mt pci then (Some pci, E_OK) else (None, E_NOENT)) /\
   (ty = HWLOC_OBJ_OS_DEVICE ->
      match get_obj_with_same_locality d src ty mt 0 with
      | (Some c, e) => e = E_OK /\ In c (io_children d pci) /\ o_type c = HWLOC_OBJ_OS_DEVICE /\ mt c = true
      | (None, e) => e = E_NOENT /\ forall c, In c (io_children d pci) -> (o_type c =? HWLOC_OBJ_OS_DEVICE) && mt c = false
      end)).
Proof.
  intros Hn. split; [|split].
  - intros flags Hf. unfold get_obj_with_same_locality. apply N.eqb_neq in Hf. now rewrite Hf.
  - intros Hio. unfold get_obj_with_same_locality. cbn [N.eqb negb]. now rewrite Hn, Hio.
  - intros Hio Hsrc pci Hc. split.
    + intros ->. unfold get_obj_with_same_locality. cbn [N.eqb negb]. rewrite Hn, Hio, Hsrc, Hc.
      rewrite (N.eqb_refl HWLOC_OBJ_PCI_DEVICE), orb_true_r. cbn [negb orb]. reflexivity.
    + intros ->. unfold get_obj_with_same_locality. cbn [N.eqb negb]. rewrite Hn, Hio, Hsrc, Hc.
      rewrite (N.eqb_refl HWLOC_OBJ_OS_DEVICE). cbn [negb orb].
      assert (E : (HWLOC_OBJ_OS_DEVICE =? HWLOC_OBJ_PCI_DEVICE) = false) by reflexivity. rewrite E.
      destruct (find _ (io_children d pci)) as [c|] eqn:F.
      * apply find_some in F as [F1 F2]. apply andb_true_iff in F2 as [F2 F3]. apply N.eqb_eq in F2. auto.
      * split; [reflexivity|]. intros c Hc'. exact (find_none _ _ F c Hc').
Qed.

(* hwloc_get_type_depth_with_attr: without a usable attribute it is hwloc_get_type_depth; for Groups
   at several depths and a group depth g it is the first level whose first object is a Group of
   depth g, UNKNOWN when there is none *)
Lemma type_depth_with_attr_l d ty gd :
  let r := get_type_depth_with_attr d ty gd in
  match gd with
  | None => r = get_type_depth d ty
  | Some g =>
      if (ty =? Z.of_N HWLOC_OBJ_GROUP)%Z && (get_type_depth d ty =? HWLOC_TYPE_DEPTH_MULTIPLE)%Z && negb (g =? Z.of_N UINT_MAX)%Z then
        (r = HWLOC_TYPE_DEPTH_UNKNOWN /\
         forall l, (l < Z.to_nat (t_depth d))%nat ->
           match level_first d (Z.of_nat l) with Some o => (o_type o =? HWLOC_OBJ_GROUP) && (o_group_depth o =? g)%Z | None => false end = false) \/
        (exists l o, r = Z.of_nat l /\ (l < Z.to_nat (t_depth d))%nat /\ level_first d r = Some o /\
                     o_type o = HWLOC_OBJ_GROUP /\ o_group_depth o = g /\
                     forall l', (l' < l)%nat ->
                       match level_first d (Z.of_nat l') with Some o => (o_type o =? HWLOC_OBJ_GROUP) && (o_group_depth o =? g)%Z | None => false end = false)
      else r = get_type_depth d ty
  end.
Proof.
  intros r. subst r. unfold get_type_depth_with_attr. destruct gd as [g|]; [|reflexivity].
  destruct (_ && _ && _); [|reflexivity].
  set (p := fun l : nat => match level_first d (Z.of_nat l) with Some o => (o_type o =? HWLOC_OBJ_GROUP) && (o_group_depth o =? g)%Z | None => false end).
  generalize (Z.to_nat (t_depth d)). intros n.
  assert (G : forall n start, match find p (seq start n) with
            | Some l => (start <= l < start + n)%nat /\ p l = true /\ forall l', (start <= l' < l)%nat -> p l' = false
            | None => forall l, (start <= l < start + n)%nat -> p l = false end).
  { induction n0 as [|k IH]; intros start; cbn [seq find]; [intros l Hl; lia|].
    destruct (p start) eqn:Ep.
    - split; [lia|]. split; [exact Ep|]. intros l' Hl'. lia.
    - specialize (IH (S start)). destruct (find p (seq (S start) k)) as [l|].
      + destruct IH as (I1 & I2 & I3). split; [lia|]. split; [exact I2|]. intros l' Hl'.
        destruct (Nat.eq_dec l' start) as [->|]; [exact Ep|apply I3; lia].
      + intros l Hl. destruct (Nat.eq_dec l start) as [->|]; [exact Ep|apply IH; lia]. }
  specialize (G n 0%nat). fold p. destruct (find p (seq 0 n)) as [l|].
  - right. destruct G as (G1 & G2 & G3). unfold p in G2. destruct (level_first d (Z.of_nat l)) as [o|] eqn:El; [|discriminate].
    apply andb_true_iff in G2 as [G2a G2b]. apply N.eqb_eq in G2a. apply Z.eqb_eq in G2b.
    exists l, o. split; [reflexivity|]. split; [lia|]. split; [first [exact El|reflexivity]|]. split; [exact G2a|]. split; [exact G2b|].
    intros l' Hl'. apply G3. lia.
  - left. split; [reflexivity|]. intros l Hl. apply G. lia.
Qed.

(* ================================================================== *)
(* hwloc_bitmap_singlify_per_core                                      *)

Lemma singlify_core_outside which s c i : mem i (dcs c) = false -> mem i (singlify_core which s c) = mem i s.
Proof.
  intros H. unfold singlify_core. destruct (covering_pred s c); [|reflexivity].
  destruct (nth_error _ _) as [pu|] eqn:E.
  - rewrite mem_add, mem_diff, H. cbn [negb]. rewrite andb_true_r.
    destruct (N.eqb_spec i pu) as [->|]; [|reflexivity].
    apply nth_error_In in E. unfold elements in E. destruct (bs_last _); [|contradiction].
    unfold bs_elements_below in E. apply filter_In in E as [_ E]. rewrite mem_inter, H in E. discriminate.
  - rewrite mem_diff, H. cbn [negb]. apply andb_true_r.
Qed.

Lemma singlify_core_inside which s c i j :
  mem i (singlify_core which s c) = true -> mem i (dcs c) = true ->
  mem j (singlify_core which s c) = true -> mem j (dcs c) = true -> i = j.
Proof.
  unfold singlify_core. destruct (covering_pred s c) eqn:Ec.
  - destruct (nth_error _ _) as [pu|].
    + rewrite !mem_add, !mem_diff. intros Hi Ci Hj Cj. rewrite Ci in Hi. rewrite Cj in Hj.
      cbn [negb] in *. rewrite andb_false_r, orb_false_r in Hi, Hj. apply N.eqb_eq in Hi, Hj. congruence.
    + rewrite !mem_diff. intros Hi Ci. rewrite Ci in Hi. cbn [negb] in Hi. rewrite andb_false_r in Hi. discriminate.
  - intros Hi Ci. exfalso. unfold covering_pred in Ec. rewrite intersects_false in Ec. rewrite (Ec i Hi) in Ci. discriminate.
Qed.

(* for ALL lists of cores with pairwise disjoint cpusets, ALL sets and ALL which:
   at most one PU of every core survives, and nothing outside the cores changes *)
Lemma singlify_per_core_at_most_one_l which : forall cores s,
  pairwise_disjoint (map dcs cores) = true ->
  (forall c i j, In c cores ->
     mem i (bitmap_singlify_per_core cores s which) = true -> mem i (dcs c) = true ->
     mem j (bitmap_singlify_per_core cores s which) = true -> mem j (dcs c) = true -> i = j) /\
  (forall i, (forall c, In c cores -> mem i (dcs c) = false) -> mem i (bitmap_singlify_per_core cores s which) = mem i s).
Proof.
  unfold bitmap_singlify_per_core.
  induction cores as [|c0 tl IH]; intros s PD; cbn [fold_left].
  - split; [intros c i j []|reflexivity].
  - cbn [map pairwise_disjoint] in PD. apply andb_true_iff in PD as [PD1 PD2].
    destruct (IH (singlify_core which s c0) PD2) as [IH1 IH2]. split.
    + intros c i j [<-|Hc] Hi Ci Hj Cj; [|eapply IH1; eauto].
      (* bits of c0 are not touched by the later cores *)
      assert (O : forall k, mem k (dcs c0) = true -> forall c', In c' tl -> mem k (dcs c') = false).
      { intros k Hk c' Hc'. rewrite forallb_forall in PD1. pose proof (PD1 (dcs c') (in_map dcs _ _ Hc')) as Dj.
        apply negb_true_iff in Dj. rewrite intersects_false in Dj. auto. }
      rewrite IH2 in Hi by (apply O; exact Ci). rewrite IH2 in Hj by (apply O; exact Cj).
      eapply singlify_core_inside; eauto.
    + intros i Hout. rewrite IH2 by (intros c Hc; apply Hout; now right).
      apply singlify_core_outside. apply Hout. now left.
Qed.

(* ================================================================== *)
(* hwloc_get_type_depth / hwloc_get_depth_type                         *)

(* facts wf_check establishes about the per-depth tables ("normal-level-depth-sequence",
   "depth-vs-levels", "empty-normal-level", "level-type", "type-depth-single", "type-depth-special"):
   every normal level sits at a depth below t_depth, is found by its depth, is non-empty and its
   first object has the level's type; a type whose depth is a normal depth names a level of that
   type; a special type has its fixed special depth *)
Record tables_ok (d : dump) : Prop := {
  tk_level : forall l, In l (t_levels d) -> (0 <= l_depth l)%Z ->
               (l_depth l < t_depth d)%Z /\ find_level d (l_depth l) = Some l /\
               exists o rest, level_objs d (l_depth l) = o :: rest /\ Z.of_N (o_type o) = l_type l;
  tk_covered : forall dep, (0 <= dep < t_depth d)%Z -> exists l, In l (t_levels d) /\ l_depth l = dep;
  tk_type : forall ty, ty < HWLOC_OBJ_TYPE_MAX -> (0 <= get_type_depth d (Z.of_N ty))%Z ->
               exists l, In l (t_levels d) /\ l_depth l = get_type_depth d (Z.of_N ty) /\ l_type l = Z.of_N ty;
  tk_special : forall ty sd, ty < HWLOC_OBJ_TYPE_MAX -> special_depth_of ty = Some sd -> get_type_depth d (Z.of_N ty) = sd;
  tk_single : forall l, In l (t_levels d) -> (0 <= l_depth l)%Z -> (0 <= l_type l < Z.of_N HWLOC_OBJ_TYPE_MAX)%Z ->
               get_type_depth d (l_type l) = l_depth l \/ get_type_depth d (l_type l) = HWLOC_TYPE_DEPTH_MULTIPLE;
  tk_depth : (0 <= t_depth d)%Z
}.

Lemma get_depth_type_level d l : tables_ok d -> In l (t_levels d) -> (0 <= l_depth l)%Z ->
  get_depth_type d (l_depth l) = l_type l.
Proof.
  intros T Hl Hd. destruct (tk_level d T l Hl Hd) as (H1 & _ & o & rest & H3 & H4).
  unfold get_depth_type. assert (E : ((0 <=? l_depth l) && (l_depth l <? t_depth d))%Z = true).
  { apply andb_true_iff. split; [now apply Z.leb_le|now apply Z.ltb_lt]. }
  rewrite E, H3. exact H4.
Qed.

Lemma special_depth_negative ty sd : special_depth_of ty = Some sd -> (sd < 0)%Z.
Proof.
  unfold special_depth_of. repeat (destruct (_ =? _); [intros E; inversion E; subst; reflexivity|]). discriminate.
Qed.

Lemma get_depth_type_special d ty sd : (0 <= t_depth d)%Z -> special_depth_of ty = Some sd -> get_depth_type d sd = Z.of_N ty.
Proof.
  intros Hd H. pose proof (special_depth_negative ty sd H) as Hneg. unfold get_depth_type.
  assert (E : (0 <=? sd)%Z = false) by (apply Z.leb_gt; exact Hneg). rewrite E. cbn [andb].
  revert H. unfold special_depth_of.
  destruct (N.eqb_spec ty HWLOC_OBJ_NUMANODE) as [->|_]; [intros X; inversion X; subst; reflexivity|].
  destruct (N.eqb_spec ty HWLOC_OBJ_MEMCACHE) as [->|_]; [intros X; inversion X; subst; reflexivity|].
  destruct (N.eqb_spec ty HWLOC_OBJ_BRIDGE) as [->|_]; [intros X; inversion X; subst; reflexivity|].
  destruct (N.eqb_spec ty HWLOC_OBJ_PCI_DEVICE) as [->|_]; [intros X; inversion X; subst; reflexivity|].
  destruct (N.eqb_spec ty HWLOC_OBJ_OS_DEVICE) as [->|_]; [intros X; inversion X; subst; reflexivity|].
  destruct (N.eqb_spec ty HWLOC_OBJ_MISC) as [->|_]; [intros X; inversion X; subst; reflexivity|].
  discriminate.
Qed.

(* the two lookups are mutually inverse wherever get_type_depth gives a depth, in both directions *)
Lemma type_depth_inverse_l d : tables_ok d ->
  (forall ty, ty < HWLOC_OBJ_TYPE_MAX ->
     let dep := get_type_depth d (Z.of_N ty) in
     (0 <= dep)%Z \/ special_depth_of ty = Some dep -> get_depth_type d dep = Z.of_N ty) /\
  (forall dep, (0 <= dep < t_depth d)%Z ->
     let ty := get_depth_type d dep in
     (0 <= ty < Z.of_N HWLOC_OBJ_TYPE_MAX)%Z -> get_type_depth d ty = dep \/ get_type_depth d ty = HWLOC_TYPE_DEPTH_MULTIPLE).
Proof.
  intros T. split.
  - intros ty Hty dep [Hd|Hs].
    + destruct (tk_type d T ty Hty Hd) as (l & Hl & E1 & E2). subst dep. rewrite <- E1, <- E2.
      apply get_depth_type_level; auto. rewrite E1. exact Hd.
    + apply get_depth_type_special; [exact (tk_depth d T)|exact Hs].
  - intros dep Hd ty Hty. destruct (tk_covered d T dep Hd) as (l & Hl & E). subst dep.
    assert (Ety : ty = l_type l) by (apply get_depth_type_level; auto; lia).
    rewrite Ety in *. apply (tk_single d T l Hl); [lia|exact Hty].
Qed.

(* ================================================================== *)
(* hwloc_get_closest_objs                                              *)

(* src and its ancestors, nearest first *)
Fixpoint up_chain (d : dump) (fuel : nat) (o : dobj) : list dobj :=
  o :: match fuel with
       | O => []
       | S f => match deref d (o_parent o) with Some p => up_chain d f p | None => [] end
       end.

(* objects of the level inside the ancestor q but not inside the previous one p, in logical order *)
Definition ring (lv : list dobj) (p q : dobj) : list dobj :=
  filter (fun o => bs_subset (dcs o) (dcs q) && negb (bs_subset (dcs o) (dcs p))) lv.

Definition rings (lv : list dobj) (chain : list dobj) : list dobj :=
  flat_map (fun pq => ring lv (fst pq) (snd pq)) (combine chain (tl chain)).

Lemma up_chain_cons d fuel o : up_chain d fuel o = o :: tl (up_chain d fuel o).
Proof. destruct fuel; reflexivity. Qed.

Lemma ring_same_cpuset lv p q : bs_eqb (dcs p) (dcs q) = true -> ring lv p q = [].
Proof.
  intros E. apply bs_eqb_spec in E. unfold ring. rewrite E.
  induction lv as [|o tl IH]; [reflexivity|]. cbn [filter]. now rewrite andb_negb_r.
Qed.

Lemma rings_cons lv p q rest : rings lv (p :: q :: rest) = ring lv p q ++ rings lv (q :: rest).
Proof. reflexivity. Qed.

Lemma closest_rec_rings d lv : forall fuel p max,
  closest_rec d fuel lv p max = firstn max (rings lv (up_chain d fuel p)).
Proof.
  induction fuel as [|f IH]; intros p max.
  - cbn [closest_rec up_chain]. unfold rings. cbn. now rewrite firstn_nil.
  - cbn [closest_rec]. destruct max as [|mx]; [reflexivity|].
    cbn [up_chain]. destruct (deref d (o_parent p)) as [np|] eqn:E.
    2:{ unfold rings. cbn. reflexivity. }
    rewrite (up_chain_cons d f np), rings_cons, <- (up_chain_cons d f np).
    destruct (bs_eqb (dcs p) (dcs np)) eqn:Eq.
    + rewrite (ring_same_cpuset lv p np Eq). cbn [app]. apply IH.
    + fold (ring lv p np). set (found := ring lv p np). rewrite IH, firstn_app.
      pose proof (firstn_length (S mx) found) as FL. f_equal.
      destruct (Nat.le_gt_cases (S mx) (List.length found)) as [L|L].
      * replace (S mx - List.length (firstn (S mx) found))%nat with 0%nat by lia.
        replace (S mx - List.length found)%nat with 0%nat by lia. reflexivity.
      * assert (E' : firstn (S mx) found = found) by (apply firstn_all2; lia). rewrite E'. reflexivity.
Qed.

(* with enough fuel the chain ends at the root *)
Lemma up_chain_reaches_root d : parents_ok d -> forall fuel o, In o (t_objs d) -> (H d o <= fuel)%nat ->
  deref d (o_parent (last (up_chain d fuel o) o)) = None.
Proof.
  intros P. induction fuel as [|f IH]; intros o Ho Hf.
  - cbn. destruct (deref d (o_parent o)) as [p|] eqn:E; [|reflexivity].
    rewrite (H_step d P o p Ho E) in Hf. lia.
  - cbn [up_chain]. destruct (deref d (o_parent o)) as [p|] eqn:E; [|cbn; exact E].
    destruct (po_lt d P o p Ho E) as [Hp _]. rewrite (H_step d P o p Ho E) in Hf.
    specialize (IH p Hp ltac:(lia)).
    assert (G : forall (l : list dobj) a b, l <> [] -> last l a = last l b).
    { induction l as [|z zs IHl]; intros a b Hne; [contradiction|]. destruct zs; [reflexivity|].
      change (last (z :: d0 :: zs) a) with (last (d0 :: zs) a). change (last (z :: d0 :: zs) b) with (last (d0 :: zs) b).
      apply IHl. discriminate. }
    rewrite (up_chain_cons d f p) in *.
    change (last (o :: p :: tl (up_chain d f p)) o) with (last (p :: tl (up_chain d f p)) o).
    rewrite (G _ o p) by discriminate. exact IH.
Qed.

(* the answer: ring after ring going up from src (objects inside ancestor j+1 and not inside
   ancestor j), each ring in logical order, cut at max; the chain goes up to the root *)
Lemma closest_sorted_by_ancestor_l d src max :
  o_cs src <> None ->
  let chain := up_chain d (S (List.length (t_objs d))) src in
  get_closest_objs d src max = firstn (N.to_nat max) (rings (level_objs d (o_depth src)) chain) /\
  (parents_ok d -> In src (t_objs d) -> deref d (o_parent (last chain src)) = None).
Proof.
  intros Hcs chain. split.
  - unfold get_closest_objs. destruct (o_cs src); [|contradiction]. apply closest_rec_rings.
  - intros P Hs. apply up_chain_reaches_root; auto. pose proof (H_lt_fuel d P src Hs). unfold hfuel in *. lia.
Qed.

(* ================================================================== *)
(* nbobjs / obj / index inside a cpuset                                *)

Lemma level_ok_nth depth : forall lv start i o,
  level_ok depth lv start = true -> nth_error lv i = Some o -> o_lidx o = N.of_nat (start + i).
Proof.
  induction lv as [|x tl IH]; intros start i o H E; [destruct i; discriminate|].
  cbn [level_ok] in H. apply andb_true_iff in H as [H H3]. apply andb_true_iff in H as [_ H2]. apply N.eqb_eq in H2.
  destruct i as [|i]; cbn [nth_error] in E.
  - inversion E; subst. rewrite H2. f_equal. lia.
  - rewrite (IH (S start) i o H3 E). f_equal. lia.
Qed.

(* for every object o of a level that the family counts (non-empty cpuset inside the set):
   index_inside(o) is its position k in the brute-force list and obj_inside(k) is o again;
   nbobjs is the length of that list; an object whose cpuset is not inside the set gets -1 *)
Lemma inside_index_roundtrip_l lv depth set :
  level_ok depth lv 0 = true ->
  get_nbobjs_inside_cpuset_by_depth lv set = N.of_nat (List.length (filter (inside_pred set) lv)) /\
  (forall o, In o lv -> inside_pred set o = true ->
     exists k, get_obj_index_inside_cpuset lv set o = Z.of_nat k /\ (k < List.length (filter (inside_pred set) lv))%nat /\
               get_obj_inside_cpuset_by_depth lv set (N.of_nat k) = Some o) /\
  (forall o, bs_subset (dcs o) set = false -> get_obj_index_inside_cpuset lv set o = (-1)%Z) /\
  (forall k o, get_obj_inside_cpuset_by_depth lv set k = Some o -> In o lv /\ inside_pred set o = true).
Proof.
  intros L. split; [reflexivity|]. split; [|split].
  - intros o Ho Hp. apply In_nth_error in Ho as [i Hi].
    pose proof (level_ok_nth depth lv 0 i o L Hi) as Hl. cbn [Nat.add] in Hl.
    destruct (nth_error_split lv i Hi) as (l1 & l2 & E & Len).
    exists (List.length (filter (inside_pred set) l1)).
    unfold get_obj_index_inside_cpuset, get_obj_inside_cpuset_by_depth.
    assert (Hs : bs_subset (dcs o) set = true) by (unfold inside_pred in Hp; now apply andb_true_iff in Hp).
    rewrite Hs, Hl, !Nat2N.id. cbn [negb].
    assert (F : firstn i lv = l1).
    { rewrite E, <- Len. rewrite firstn_app, Nat.sub_diag, firstn_all. cbn [firstn]. apply app_nil_r. }
    rewrite F. split; [reflexivity|].
    rewrite E, filter_app. cbn [filter]. rewrite Hp. split.
    + rewrite app_length. cbn [List.length]. lia.
    + rewrite nth_error_app2 by lia. rewrite Nat.sub_diag. reflexivity.
  - intros o Hs. unfold get_obj_index_inside_cpuset. now rewrite Hs.
  - intros k o E. unfold get_obj_inside_cpuset_by_depth in E. apply nth_error_In in E. apply filter_In in E. exact E.
Qed.
