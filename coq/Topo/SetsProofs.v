(* Theorems about the model of the set post-processing (Topo/Sets.v): what
   propagate_nodeset, fixup_sets, remove_unused_sets and
   propagate_total_memory establish, for every tree. *)
From Coq Require Import List NArith ZArith Bool Lia.
From HV Require Import Base.BSet Gen.Tables Text.TypeOrder Topo.Dump Topo.Obj Topo.Sets.
Import ListNotations.
Local Open Scope N_scope.

(* ---------- induction principle for the nested tree ---------- *)

Section ObjInd.
  Variable P : obj -> Prop.
  Hypothesis H : forall d n m i x, Forall P n -> Forall P m -> Forall P i -> Forall P x -> P (Obj d n m i x).
  Fixpoint obj_ind' (o : obj) : P o :=
    match o with
    | Obj d n m i x =>
        let fix go (l : list obj) : Forall P l :=
          match l with [] => Forall_nil P | c :: tl => Forall_cons c (obj_ind' c) (go tl) end in
        H d n m i x (go n) (go m) (go i) (go x)
    end.
End ObjInd.

(* ---------- sets as predicates ---------- *)

Definition sub (a b : bset) : Prop := forall i, mem i a = true -> mem i b = true.

Lemma sub_refl a : sub a a. Proof. intros i H; exact H. Qed.
Lemma sub_trans a b c : sub a b -> sub b c -> sub a c. Proof. intros H1 H2 i H. apply H2, H1, H. Qed.
Lemma sub_inter_l a b : sub (bs_inter a b) a.
Proof. intros i H. rewrite mem_inter in H. now apply andb_true_iff in H. Qed.
Lemma sub_inter_r a b : sub (bs_inter a b) b.
Proof. intros i H. rewrite mem_inter in H. now apply andb_true_iff in H. Qed.
Lemma sub_inter_mono a b c d : sub a c -> sub b d -> sub (bs_inter a b) (bs_inter c d).
Proof.
  intros H1 H2 i H. rewrite mem_inter in *. apply andb_true_iff in H as [A B].
  rewrite (H1 i A), (H2 i B). reflexivity.
Qed.
Lemma sub_union_l a b : sub a (bs_union a b).
Proof. intros i H. rewrite mem_union, H. reflexivity. Qed.

Lemma union_of_mem f l : forall acc i,
  mem i (union_of f l acc) = mem i acc || existsb (fun c => mem i (f c)) l.
Proof.
  unfold union_of. induction l as [|c tl IH]; intros acc i; cbn [fold_left existsb].
  - now rewrite orb_false_r.
  - rewrite IH, mem_union. now rewrite orb_assoc.
Qed.

Lemma union_of_acc f l acc : sub acc (union_of f l acc).
Proof. intros i H. rewrite union_of_mem, H. reflexivity. Qed.

Lemma union_of_elem f l acc c : In c l -> sub (f c) (union_of f l acc).
Proof.
  intros Hin i H. rewrite union_of_mem. apply orb_true_iff. right.
  apply existsb_exists. exists c. auto.
Qed.

(* ---------- payload accessors after the setters ---------- *)

Lemma nds_set_nodesets d a b : o_nds (set_nodesets d a b) = a. Proof. reflexivity. Qed.
Lemma type_set_nodesets d a b : o_type (set_nodesets d a b) = o_type d. Proof. reflexivity. Qed.

(* ---------- propagate_nodeset ---------- *)

(* [NodesetOK pn o]: o's nodeset is exactly the inherited set, plus its memory
   children's nodesets, plus its normal children's nodesets; and, recursively,
   every normal child inherits (inherited + local). *)
Inductive NodesetOK : bset -> obj -> Prop :=
| NodesetOK_intro pn d n m i x :
    o_nds d = Some (union_of onds n (union_of onds m pn)) ->
    Forall (NodesetOK (union_of onds m pn)) n ->
    NodesetOK pn (Obj d n m i x).

Theorem propagate_nodeset_ok : forall o pn, NodesetOK pn (propagate_nodeset pn o).
Proof.
  induction o as [d n m i x IHn _ _ _] using obj_ind'. intros pn.
  cbn [propagate_nodeset]. constructor.
  - reflexivity.
  - rewrite Forall_forall in *. intros c Hc. apply in_map_iff in Hc as (c0 & <- & Hc0). apply IHn, Hc0.
Qed.

(* consequences, in the vocabulary of the property: a child's nodeset is
   included in its parent's, contains everything the parent inherited or has
   locally attached; the parent's is exactly the union *)
Corollary nodeset_ok_child_in_parent pn d n m i x c :
  NodesetOK pn (Obj d n m i x) -> In c n -> sub (onds c) (oset (o_nds d)).
Proof.
  intros H Hc. inversion H as [? ? ? ? ? ? E _]; subst. rewrite E. cbn [oset].
  apply union_of_elem, Hc.
Qed.

Corollary nodeset_ok_memchild_in_parent pn d n m i x c :
  NodesetOK pn (Obj d n m i x) -> In c m -> sub (onds c) (oset (o_nds d)).
Proof.
  intros H Hc. inversion H as [? ? ? ? ? ? E _]; subst. rewrite E. cbn [oset].
  eapply sub_trans; [apply (union_of_elem onds m pn c Hc)|apply union_of_acc].
Qed.

Corollary nodeset_ok_inherited pn o : NodesetOK pn o -> sub pn (onds o).
Proof.
  intros H. inversion H as [? ? ? ? ? ? E _]; subst. unfold onds. cbn [odata]. rewrite E. cbn [oset].
  eapply sub_trans; apply union_of_acc.
Qed.

Corollary nodeset_ok_child_inherits pn d n m i x c :
  NodesetOK pn (Obj d n m i x) -> In c n -> sub (union_of onds m pn) (onds c).
Proof.
  intros H Hc. inversion H as [? ? ? ? ? ? _ F]; subst. rewrite Forall_forall in F.
  apply nodeset_ok_inherited, F, Hc.
Qed.

Corollary nodeset_ok_exact pn d n m i x j :
  NodesetOK pn (Obj d n m i x) ->
  mem j (oset (o_nds d)) = mem j pn || existsb (fun c => mem j (onds c)) m || existsb (fun c => mem j (onds c)) n.
Proof.
  intros H. inversion H as [? ? ? ? ? ? E _]; subst. rewrite E. cbn [oset].
  now rewrite !union_of_mem.
Qed.

(* ---------- fixup_sets ---------- *)

(* precondition on the input: where a complete set exists it contains the plain one *)
Inductive PreOK : obj -> Prop :=
| PreOK_intro d n m i x :
    (forall c, o_ccs d = Some c -> sub (oset (o_cs d)) c) ->
    (forall c, o_cnds d = Some c -> sub (oset (o_nds d)) c) ->
    Forall PreOK n -> Forall PreOK m ->
    PreOK (Obj d n m i x).

(* what holds afterwards, for an object whose parent has the sets pcs pccs pnds pcnds *)
Inductive FixOK : bset -> bset -> bset -> bset -> obj -> Prop :=
| FixOK_intro pcs pccs pnds pcnds d n m i x cs ccs nds cnds :
    o_cs d = Some cs -> o_ccs d = Some ccs -> o_nds d = Some nds -> o_cnds d = Some cnds ->
    sub cs pcs -> sub ccs pccs -> sub nds pnds -> sub cnds pcnds ->
    sub cs ccs -> sub nds cnds ->
    (is_memory (o_type d) = true -> cs = pcs /\ ccs = pccs) ->
    Forall (FixOK cs ccs nds cnds) n -> Forall (FixOK cs ccs nds cnds) m ->
    FixOK pcs pccs pnds pcnds (Obj d n m i x).

Theorem fixup_child_ok : forall o pcs pccs pnds pcnds,
  PreOK o -> sub pcs pccs -> sub pnds pcnds ->
  FixOK pcs pccs pnds pcnds (fixup_child pcs pccs pnds pcnds o).
Proof.
  induction o as [d n m i x IHn IHm _ _] using obj_ind'. intros pcs pccs pnds pcnds Hpre Hc Hn.
  inversion Hpre as [? ? ? ? ? Pc Pn Fn Fm]; subst.
  cbn [fixup_child].
  set (cs := bs_inter (oset (o_cs d)) pcs). set (nds := bs_inter (oset (o_nds d)) pnds).
  set (ccs := match o_ccs d with Some c => bs_inter c pccs | None => cs end).
  set (cnds := match o_cnds d with Some c => bs_inter c pcnds | None => nds end).
  assert (Hcs : sub cs pcs) by apply sub_inter_r.
  assert (Hnds : sub nds pnds) by apply sub_inter_r.
  assert (Hccs : sub ccs pccs).
  { unfold ccs. destruct (o_ccs d); [apply sub_inter_r|eapply sub_trans; [exact Hcs|exact Hc]]. }
  assert (Hcnds : sub cnds pcnds).
  { unfold cnds. destruct (o_cnds d); [apply sub_inter_r|eapply sub_trans; [exact Hnds|exact Hn]]. }
  assert (Hcc : sub cs ccs).
  { unfold ccs. destruct (o_ccs d) as [c|] eqn:E; [|apply sub_refl].
    apply sub_inter_mono; [apply (Pc c eq_refl)|exact Hc]. }
  assert (Hnn : sub nds cnds).
  { unfold cnds. destruct (o_cnds d) as [c|] eqn:E; [|apply sub_refl].
    apply sub_inter_mono; [apply (Pn c eq_refl)|exact Hn]. }
  rewrite Forall_forall in IHn, IHm, Fn, Fm.
  destruct (is_memory (o_type d)) eqn:Em.
  - eapply (FixOK_intro pcs pccs pnds pcnds _ _ _ i x pcs pccs nds cnds); try reflexivity;
      try apply sub_refl; try assumption.
    + intros _. split; reflexivity.
    + rewrite Forall_forall. intros c Hin. apply in_map_iff in Hin as (c0 & <- & Hc0).
      apply IHn; [exact Hc0|apply Fn, Hc0|exact Hc|exact Hnn].
    + rewrite Forall_forall. intros c Hin. apply in_map_iff in Hin as (c0 & <- & Hc0).
      apply IHm; [exact Hc0|apply Fm, Hc0|exact Hc|exact Hnn].
  - eapply (FixOK_intro pcs pccs pnds pcnds _ _ _ i x cs ccs nds cnds); try reflexivity; try assumption.
    + intros Hf. cbn [o_type set_sets] in Hf. rewrite Em in Hf. discriminate.
    + rewrite Forall_forall. intros c Hin. apply in_map_iff in Hin as (c0 & <- & Hc0).
      apply IHn; [exact Hc0|apply Fn, Hc0|exact Hcc|exact Hnn].
    + rewrite Forall_forall. intros c Hin. apply in_map_iff in Hin as (c0 & <- & Hc0).
      apply IHm; [exact Hc0|apply Fm, Hc0|exact Hcc|exact Hnn].
Qed.

(* the whole tree: every non-root object's four sets are included in its
   parent's, each set is included in its complete_ counterpart, and memory
   children carry their parent's cpusets *)
Theorem fixup_sets_ok d n m i x :
  PreOK (Obj d n m i x) -> sub (oset (o_cs d)) (oset (o_ccs d)) -> sub (oset (o_nds d)) (oset (o_cnds d)) ->
  match fixup_sets (Obj d n m i x) with
  | Obj d' n' m' _ _ =>
      d' = d /\
      Forall (FixOK (oset (o_cs d)) (oset (o_ccs d)) (oset (o_nds d)) (oset (o_cnds d))) n' /\
      Forall (FixOK (oset (o_cs d)) (oset (o_ccs d)) (oset (o_nds d)) (oset (o_cnds d))) m'
  end.
Proof.
  intros Hpre Hc Hn. inversion Hpre as [? ? ? ? ? _ _ Fn Fm]; subst. cbn [fixup_sets].
  rewrite Forall_forall in Fn, Fm.
  split; [reflexivity|]. split; rewrite Forall_forall; intros c Hin; apply in_map_iff in Hin as (c0 & <- & Hc0);
    apply fixup_child_ok; auto.
Qed.

(* ---------- remove_unused_sets ---------- *)

Inductive AllowedOK (acpu anode : bset) : obj -> Prop :=
| AllowedOK_intro d n m i x :
    sub (oset (o_cs d)) acpu -> sub (oset (o_nds d)) anode ->
    Forall (AllowedOK acpu anode) n -> Forall (AllowedOK acpu anode) m ->
    AllowedOK acpu anode (Obj d n m i x).

Theorem remove_unused_sets_ok acpu anode : forall o, AllowedOK acpu anode (remove_unused_sets acpu anode o).
Proof.
  induction o as [d n m i x IHn IHm _ _] using obj_ind'. cbn [remove_unused_sets].
  rewrite Forall_forall in IHn, IHm.
  constructor; cbn; try apply sub_inter_r;
    rewrite Forall_forall; intros c Hin; apply in_map_iff in Hin as (c0 & <- & Hc0); auto.
Qed.

(* removing disallowed bits keeps every inclusion established by fixup_sets
   for the plain sets (both sides are intersected with the same allowed set) *)
Lemma remove_unused_keeps_sub acpu a b : sub a b -> sub (bs_inter a acpu) (bs_inter b acpu).
Proof. intros H. apply sub_inter_mono; [exact H|apply sub_refl]. Qed.

(* ---------- propagate_total_memory ---------- *)

Definition sum_tm (l : list obj) (acc : N) : N := fold_left (fun a c => a + o_tm (odata c)) l acc.

Inductive TmOK : obj -> Prop :=
| TmOK_intro d n m i x :
    o_tm d = sum_tm m (sum_tm n 0) + (if o_type d =? HWLOC_OBJ_NUMANODE then o_lm d else 0) ->
    Forall TmOK n -> Forall TmOK m ->
    TmOK (Obj d n m i x).

Theorem propagate_total_memory_ok : forall o, TmOK (propagate_total_memory o).
Proof.
  induction o as [d n m i x IHn IHm _ _] using obj_ind'. cbn [propagate_total_memory].
  rewrite Forall_forall in IHn, IHm.
  constructor.
  - cbn. unfold sum_tm. destruct (o_type d =? HWLOC_OBJ_NUMANODE); lia.
  - rewrite Forall_forall. intros c Hin. apply in_map_iff in Hin as (c0 & <- & Hc0). auto.
  - rewrite Forall_forall. intros c Hin. apply in_map_iff in Hin as (c0 & <- & Hc0). auto.
Qed.

(* nothing but total_memory changes *)
Lemma propagate_total_memory_type o : otype (propagate_total_memory o) = otype o.
Proof. destruct o; reflexivity. Qed.
