(* Theorems about the model of memory-object insertion (Topo/MemAttach.v), for every tree and every
   new object: what hwloc___attach_memory_object_by_nodeset keeps and establishes. *)
From Coq Require Import List NArith ZArith Bool Lia Sorted Permutation.
From HV Require Import Base.BSet Gen.Tables Text.TypeOrder Topo.Dump Topo.WFCheck Topo.Obj Topo.Insert
  Topo.SetsProofs Topo.MemAttach.
Import ListNotations.
Local Open Scope N_scope.

Definition mfirst (c : obj) : N := first_u (o_nds (odata c)).
Definition mlt (a b : obj) : Prop := mfirst a < mfirst b.

(* the memory subtree below an object: siblings strictly sorted by the first index of their nodeset,
   at every level (what hwloc__check_memory_children and the nodeset clauses of C01 rely on) *)
Inductive MemOK : obj -> Prop :=
| MemOK_intro d n m i x : StronglySorted mlt m -> Forall MemOK m -> MemOK (Obj d n m i x).

Lemma MemOK_inv d n m i x : MemOK (Obj d n m i x) -> StronglySorted mlt m /\ Forall MemOK m.
Proof. intros H. inversion H; subst. split; assumption. Qed.

Lemma odata_with_mchildren_eq o m : odata (with_mchildren o m) = odata o.
Proof. destruct o; reflexivity. Qed.
Lemma mfirst_with_mchildren o m : mfirst (with_mchildren o m) = mfirst o.
Proof. unfold mfirst. now rewrite odata_with_mchildren_eq. Qed.

(* all memory objects below an object (its memory children, theirs, ...), pre-order *)
Fixpoint mflatten (o : obj) : list obj :=
  match o with
  | Obj _ _ m _ _ => (fix go (l : list obj) : list obj := match l with [] => [] | c :: tl => (c :: mflatten c) ++ go tl end) m
  end.
Definition mflattens (l : list obj) : list obj := flat_map (fun c => c :: mflatten c) l.
Lemma mflatten_eq o : mflatten o = mflattens (omch o).
Proof. destruct o as [d n m i x]. cbn [mflatten omch]. unfold mflattens. induction m as [|c tl IH]; [reflexivity|]. cbn [flat_map]. now rewrite <- IH. Qed.

Section Loop.
  Variable rec : obj -> obj -> obj * ares.
  Variable o : obj.
  Let f := mfirst o.

  Hypothesis rec_data : forall c, odata (fst (rec c o)) = odata c.

  (* one level: sortedness is kept, the firsts of the new list are those of the old one plus OBJ's *)
  Lemma att_loop_sorted : forall l,
    StronglySorted mlt l ->
    let '(l', r) := att_loop rec l o in
    StronglySorted mlt l' /\ (forall x, In x l' -> mfirst x = f \/ exists y, In y l /\ mfirst x = mfirst y).
  Proof.
    induction l as [|cur tl IH]; intros Hs.
    - cbn [att_loop]. split.
      + constructor; constructor.
      + intros x [<-|[]]. left. apply mfirst_with_mchildren.
    - inversion Hs as [|c0 l0 Hs' Hlt]; subst c0 l0.
      cbn [att_loop]. fold (mfirst o) (mfirst cur). fold f.
      destruct (f <? mfirst cur) eqn:E1.
      + (* insert before cur *)
        apply N.ltb_lt in E1. split.
        * constructor; [exact Hs|]. constructor.
          -- unfold mlt. rewrite mfirst_with_mchildren. exact E1.
          -- rewrite Forall_forall in *. intros y Hy. unfold mlt in *. rewrite mfirst_with_mchildren.
             specialize (Hlt y Hy). fold f. lia.
        * intros x [<-|Hx]; [left; apply mfirst_with_mchildren|right; exists x; split; [exact Hx|reflexivity]].
      + destruct (f =? mfirst cur) eqn:E2.
        * apply N.eqb_eq in E2.
          (* the four outcomes at an equal first index: every one keeps the first index of the slot *)
          assert (Hslot : forall c', mfirst c' = mfirst cur ->
                     StronglySorted mlt (c' :: tl) /\
                     (forall x, In x (c' :: tl) -> mfirst x = f \/ exists y, In y (cur :: tl) /\ mfirst x = mfirst y)).
          { intros c' Hc'. split.
            - constructor; [exact Hs'|]. rewrite Forall_forall in *. intros y Hy. unfold mlt in *. rewrite Hc'. apply Hlt, Hy.
            - intros x [<-|Hx]; right; [exists cur; split; [left; reflexivity|exact Hc']|exists x; split; [right; exact Hx|reflexivity]]. }
          assert (Hsame : StronglySorted mlt (cur :: tl) /\
                     (forall x, In x (cur :: tl) -> mfirst x = f \/ exists y, In y (cur :: tl) /\ mfirst x = mfirst y)).
          { apply Hslot. reflexivity. }
          assert (Hrec : mfirst (fst (rec cur o)) = mfirst cur) by (unfold mfirst; now rewrite rec_data).
          destruct (otype o =? HWLOC_OBJ_NUMANODE).
          -- destruct (otype cur =? HWLOC_OBJ_NUMANODE); [exact Hsame|].
             destruct (rec cur o) as [cur' r] eqn:R. cbn [fst] in Hrec. apply Hslot, Hrec.
          -- destruct ((otype cur =? HWLOC_OBJ_MEMCACHE) && (cdepth cur =? cdepth o)%Z); [exact Hsame|].
             destruct ((otype cur =? HWLOC_OBJ_MEMCACHE) && (cdepth o <? cdepth cur)%Z).
             ++ destruct (rec cur o) as [cur' r] eqn:R. cbn [fst] in Hrec. apply Hslot, Hrec.
             ++ apply Hslot. rewrite mfirst_with_mchildren. exact E2.
        * (* cur sorts before OBJ: go on *)
          apply N.ltb_ge in E1. apply N.eqb_neq in E2.
          specialize (IH Hs'). destruct (att_loop rec tl o) as [tl' r]. destruct IH as [IH1 IH2]. split.
          -- constructor; [exact IH1|]. rewrite Forall_forall in *. intros y Hy. unfold mlt.
             destruct (IH2 y Hy) as [Ey|(z & Hz & Ey)]; rewrite Ey; [lia|apply Hlt, Hz].
          -- intros x [<-|Hx]; [right; exists cur; split; [left; reflexivity|reflexivity]|].
             destruct (IH2 x Hx) as [Ex|(z & Hz & Ex)]; [left; exact Ex|right; exists z; split; [right; exact Hz|exact Ex]].
  Qed.

  (* one level: every object of the new list is well formed below *)
  Lemma att_loop_memok : forall l,
    Forall MemOK l -> Forall (fun c => MemOK c -> MemOK (fst (rec c o))) l ->
    Forall MemOK (fst (att_loop rec l o)).
  Proof.
    induction l as [|cur tl IH]; intros Hok Hrec.
    - cbn. constructor; [|constructor]. destruct o as [d n m i x]. cbn. constructor; constructor.
    - inversion Hok as [|c0 l0 Hc Htl]; subst c0 l0. inversion Hrec as [|c0 l0 Hrc Hrtl]; subst c0 l0.
      cbn [att_loop].
      assert (Ho : MemOK (with_mchildren o [])) by (destruct o as [d n m i x]; cbn; constructor; constructor).
      destruct (first_u (o_nds (odata o)) <? first_u (o_nds (odata cur))); [cbn; constructor; [exact Ho|exact Hok]|].
      destruct (first_u (o_nds (odata o)) =? first_u (o_nds (odata cur))).
      + destruct (otype o =? HWLOC_OBJ_NUMANODE).
        * destruct (otype cur =? HWLOC_OBJ_NUMANODE); [exact Hok|].
          destruct (rec cur o) as [cur' r] eqn:R. cbn. constructor; [|exact Htl]. specialize (Hrc Hc). try rewrite R in Hrc. exact Hrc.
        * destruct ((otype cur =? HWLOC_OBJ_MEMCACHE) && (cdepth cur =? cdepth o)%Z); [exact Hok|].
          destruct ((otype cur =? HWLOC_OBJ_MEMCACHE) && (cdepth o <? cdepth cur)%Z).
          -- destruct (rec cur o) as [cur' r] eqn:R. cbn. constructor; [|exact Htl]. specialize (Hrc Hc). try rewrite R in Hrc. exact Hrc.
          -- cbn. constructor; [|exact Htl]. destruct o as [d n m i x]. cbn. constructor; [repeat constructor|constructor; [exact Hc|constructor]].
      + specialize (IH Htl Hrtl). destruct (att_loop rec tl o) as [tl' r]. cbn in *. constructor; assumption.
  Qed.

  (* one level: a refusal changes nothing; a success adds exactly OBJ (without memory children of its own,
     or holding the one object whose place it takes) *)
  Lemma att_loop_null : forall l,
    Forall (fun c => snd (rec c o) = ANull -> fst (rec c o) = c) l ->
    snd (att_loop rec l o) = ANull -> fst (att_loop rec l o) = l.
  Proof.
    induction l as [|cur tl IH]; intros Hrec; [cbn; discriminate|].
    inversion Hrec as [|c0 l0 Hrc Hrtl]; subst c0 l0. cbn [att_loop].
    destruct (first_u (o_nds (odata o)) <? first_u (o_nds (odata cur))); [cbn; discriminate|].
    destruct (first_u (o_nds (odata o)) =? first_u (o_nds (odata cur))).
    - destruct (otype o =? HWLOC_OBJ_NUMANODE).
      + destruct (otype cur =? HWLOC_OBJ_NUMANODE); [reflexivity|].
        destruct (rec cur o) as [cur' r] eqn:R. cbn in *. intros ->. now rewrite (Hrc eq_refl).
      + destruct ((otype cur =? HWLOC_OBJ_MEMCACHE) && (cdepth cur =? cdepth o)%Z); [reflexivity|].
        destruct ((otype cur =? HWLOC_OBJ_MEMCACHE) && (cdepth o <? cdepth cur)%Z); [|cbn; discriminate].
        destruct (rec cur o) as [cur' r] eqn:R. cbn in *. intros ->. now rewrite (Hrc eq_refl).
    - specialize (IH Hrtl). destruct (att_loop rec tl o) as [tl' r]. cbn in *. intros ->. now rewrite (IH eq_refl).
  Qed.

  Lemma att_loop_ok_perm : forall l,
    Forall (fun c => snd (rec c o) = AOk -> Permutation (map odata (mflatten (fst (rec c o)))) (odata o :: map odata (mflatten c))) l ->
    snd (att_loop rec l o) = AOk ->
    Permutation (map odata (mflattens (fst (att_loop rec l o)))) (odata o :: map odata (mflattens l)).
  Proof.
    induction l as [|cur tl IH]; intros Hrec.
    - intros _. cbn. rewrite mflatten_eq. destruct o as [d n m i x]. cbn. reflexivity.
    - inversion Hrec as [|c0 l0 Hrc Hrtl]; subst c0 l0. cbn [att_loop].
      assert (Ho0 : map odata (with_mchildren o [] :: mflatten (with_mchildren o [])) = [odata o]).
      { rewrite mflatten_eq. destruct o as [d n m i x]. reflexivity. }
      destruct (first_u (o_nds (odata o)) <? first_u (o_nds (odata cur))).
      + intros _. cbn [fst]. unfold mflattens at 1. cbn [flat_map]. fold (mflattens (cur :: tl)).
        rewrite map_app, Ho0. reflexivity.
      + destruct (first_u (o_nds (odata o)) =? first_u (o_nds (odata cur))).
        * assert (Hr : forall cur' r, rec cur o = (cur', r) -> r = AOk ->
                    Permutation (map odata (mflattens (cur' :: tl))) (odata o :: map odata (mflattens (cur :: tl)))).
          { intros cur' r R ->. rewrite R in Hrc. cbn in Hrc. specialize (Hrc eq_refl).
            assert (Ed : odata cur' = odata cur) by (pose proof (rec_data cur) as Hd; now rewrite R in Hd).
            unfold mflattens. cbn [flat_map]. rewrite !map_app. cbn [map]. rewrite Ed.
            rewrite (Permutation_app_tail _ (perm_skip (odata cur) Hrc)). cbn [app]. apply perm_swap. }
          destruct (otype o =? HWLOC_OBJ_NUMANODE).
          -- destruct (otype cur =? HWLOC_OBJ_NUMANODE); [cbn; discriminate|].
             destruct (rec cur o) as [cur' r] eqn:R. cbn [fst snd]. intros E. eapply Hr; [reflexivity|exact E].
          -- destruct ((otype cur =? HWLOC_OBJ_MEMCACHE) && (cdepth cur =? cdepth o)%Z); [cbn; discriminate|].
             destruct ((otype cur =? HWLOC_OBJ_MEMCACHE) && (cdepth o <? cdepth cur)%Z).
             ++ destruct (rec cur o) as [cur' r] eqn:R. cbn [fst snd]. intros E. eapply Hr; [reflexivity|exact E].
             ++ intros _. cbn [fst]. unfold mflattens. cbn [flat_map]. rewrite (mflatten_eq (with_mchildren o [cur])).
                destruct o as [d n m i x]. cbn [with_mchildren omch odata]. unfold mflattens. cbn [flat_map]. rewrite app_nil_r. reflexivity.
        * specialize (IH Hrtl). destruct (att_loop rec tl o) as [tl' r]. cbn [fst snd] in *. intros E. specialize (IH E).
          unfold mflattens in *. cbn [flat_map]. rewrite !map_app. rewrite IH. cbn [map app].
          symmetry. apply (Permutation_middle (odata cur :: map odata (mflatten cur))).
  Qed.
End Loop.

Lemma attach_odata parent o : odata (fst (attach_by_nodeset parent o)) = odata parent.
Proof. destruct parent as [d n m i x]. cbn [attach_by_nodeset]. destruct (att_loop attach_by_nodeset m o). reflexivity. Qed.

(* the normal, I/O and Misc children of PARENT are not touched *)
Theorem attach_keeps_other_children parent o :
  let p' := fst (attach_by_nodeset parent o) in
  odata p' = odata parent /\ onch p' = onch parent /\ oich p' = oich parent /\ oxch p' = oxch parent.
Proof. destruct parent as [d n m i x]. cbn [attach_by_nodeset]. destruct (att_loop attach_by_nodeset m o). cbn. auto. Qed.

(* memory children stay strictly sorted by first nodeset index at every level *)
Theorem attach_keeps_memory_sorted : forall parent o, MemOK parent -> MemOK (fst (attach_by_nodeset parent o)).
Proof.
  induction parent as [d n m i x _ IHm _ _] using obj_ind'. intros o Hok.
  apply MemOK_inv in Hok as [Hs Hm]. cbn [attach_by_nodeset].
  pose proof (att_loop_sorted attach_by_nodeset o (fun c => attach_odata c o) m Hs) as H1.
  assert (H2 : Forall MemOK (fst (att_loop attach_by_nodeset m o))).
  { first [apply att_loop_memok; [exact Hm|] | apply (att_loop_memok attach_by_nodeset o (fun c => attach_odata c o)); [exact Hm|]].
    rewrite Forall_forall in *. intros c Hc. apply IHm, Hc. }
  destruct (att_loop attach_by_nodeset m o) as [m' r]. cbn [fst] in *. constructor; [apply H1|exact H2].
Qed.

(* a refused attachment (identical NUMA node, memory-side cache of the same depth) changes nothing *)
Theorem attach_null_is_identity : forall parent o, snd (attach_by_nodeset parent o) = ANull -> fst (attach_by_nodeset parent o) = parent.
Proof.
  induction parent as [d n m i x _ IHm _ _] using obj_ind'. intros o. cbn [attach_by_nodeset].
  pose proof (att_loop_null attach_by_nodeset o m) as H.
  destruct (att_loop attach_by_nodeset m o) as [m' r]. cbn [fst snd] in *. intros ->.
  rewrite H; [reflexivity|..]; try reflexivity; try (intros c; apply attach_odata).
  rewrite Forall_forall in *. intros c Hc. apply IHm, Hc.
Qed.

(* a successful attachment adds exactly the new object to the memory objects below PARENT: nothing is lost,
   nothing is duplicated, every existing payload is unchanged *)
Theorem attach_ok_adds_exactly_obj : forall parent o, snd (attach_by_nodeset parent o) = AOk ->
  Permutation (map odata (mflatten (fst (attach_by_nodeset parent o)))) (odata o :: map odata (mflatten parent)).
Proof.
  induction parent as [d n m i x _ IHm _ _] using obj_ind'. intros o. cbn [attach_by_nodeset].
  pose proof (att_loop_ok_perm attach_by_nodeset o (fun c => attach_odata c o) m) as H.
  destruct (att_loop attach_by_nodeset m o) as [m' r]. cbn [fst snd] in *. intros ->.
  rewrite !mflatten_eq. cbn [omch]. apply H; [|reflexivity].
  rewrite Forall_forall in *. intros c Hc. apply IHm, Hc.
Qed.

(* the new object ends up among the memory objects below PARENT with its own payload *)
Corollary attach_ok_obj_present parent o : snd (attach_by_nodeset parent o) = AOk ->
  In (odata o) (map odata (mflatten (fst (attach_by_nodeset parent o)))).
Proof.
  intros H. eapply Permutation_in; [symmetry; apply attach_ok_adds_exactly_obj, H|]. left. reflexivity.
Qed.

(* ---------- hwloc__find_obj_covering_memory_cpuset ---------- *)

(* the specification as a relation: from PARENT, go down through the FIRST normal child whose cpuset includes
   the set, until that child's cpuset equals the set or no child includes it *)
Inductive Cov (cs : bset) : obj -> obj -> Prop :=
| CovHere p : Forall (fun c => covers cs c = false) (onch p) -> Cov cs p p
| CovEq p pre c post : onch p = pre ++ c :: post -> Forall (fun c0 => covers cs c0 = false) pre ->
    covers cs c = true -> cs_equal cs c = true -> Cov cs p c
| CovDown p pre c post r : onch p = pre ++ c :: post -> Forall (fun c0 => covers cs c0 = false) pre ->
    covers cs c = true -> cs_equal cs c = false -> Cov cs c r -> Cov cs p r.

Theorem covering_spec : forall root up cs, bs_is_empty cs = false -> Cov cs root (fst (covering root up cs)).
Proof.
  induction root as [d n m i x IHn _ _ _] using obj_ind'. intros up cs E. cbn [covering]. rewrite E.
  set (parent := Obj d n m i x).
  set (go := fix go (l : list obj) : obj * option obj :=
         match l with
         | [] => (parent, up)
         | c :: tl => if covers cs c then (if cs_equal cs c then (c, Some parent) else covering c (Some parent) cs) else go tl
         end).
  change (Cov cs parent (fst (go n))).
  assert (G : forall l pre, n = pre ++ l -> Forall (fun c0 => covers cs c0 = false) pre -> Cov cs parent (fst (go l))).
  { induction l as [|c tl IHl]; intros pre En Hpre.
    - cbn [go fst]. apply CovHere. cbn [onch parent]. rewrite En, app_nil_r. exact Hpre.
    - cbn [go]. destruct (covers cs c) eqn:Cv.
      + destruct (cs_equal cs c) eqn:Ce.
        * cbn [fst]. eapply CovEq; [cbn [onch parent]; exact En|exact Hpre|exact Cv|exact Ce].
        * eapply CovDown; [cbn [onch parent]; exact En|exact Hpre|exact Cv|exact Ce|].
          rewrite Forall_forall in IHn. apply IHn; [rewrite En; apply in_or_app; right; left; reflexivity|exact E].
      + apply (IHl (pre ++ [c])); [rewrite <- app_assoc; exact En|].
        apply Forall_app. split; [exact Hpre|constructor; [exact Cv|constructor]]. }
  apply (G n []); [reflexivity|constructor].
Qed.

(* consequences: the result is PARENT itself or an object whose cpuset includes the set *)
Corollary covering_covers cs p r : Cov cs p r -> r = p \/ covers cs r = true.
Proof. induction 1 as [p H|p pre c post E Hp Cv Ce|p pre c post r E Hp Cv Ce Hr IH]; [left; reflexivity|right; exact Cv|right]. destruct IH as [->|IH]; assumption. Qed.

(* an empty set is attached at the starting object *)
Theorem covering_empty root up cs : bs_is_empty cs = true -> covering root up cs = (root, up).
Proof. intros E. destruct root as [d n m i x]. cbn [covering]. now rewrite E. Qed.

(* ---------- hwloc__find_insert_memory_parent ---------- *)

(* with Groups filtered out, no object is ever created: the tree is returned as it is *)
Theorem find_parent_without_groups_keeps_tree dms ggp root o :
  fst (find_insert_memory_parent false dms ggp root o) = root.
Proof.
  unfold find_insert_memory_parent.
  match goal with |- context [match ?r with Some _ => _ | None => _ end] => destruct r end; [reflexivity|].
  destruct (bs_is_empty _); [reflexivity|].
  destruct (covering root None _) as [p up]. cbn zeta.
  match goal with |- context [if ?b then _ else _] => destruct b end; reflexivity.
Qed.
