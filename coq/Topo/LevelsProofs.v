(* Theorems about the model of hwloc_connect_levels (Topo/Obj.v):
   termination (fuel = number of objects suffices), the levels partition the
   objects, every level is type-homogeneous, children are strictly deeper than
   their parent, and PUs (when they have no normal children) form exactly the
   last level. *)
From Coq Require Import List NArith ZArith Bool Lia Permutation.
From HV Require Import Base.BSet Gen.Tables Text.TypeOrder Topo.Dump Topo.Obj.
Import ListNotations.
Local Open Scope N_scope.

(* ---------- facts about compare_types over the regenerated tables ---------- *)

Lemma compare_types_zero_iff_b :
  forall a b, a < HWLOC_OBJ_TYPE_MAX -> b < HWLOC_OBJ_TYPE_MAX ->
  Bool.eqb (compare_types a b =? 0)%Z (a =? b) = true.
Proof. apply forall_types2. vm_compute. reflexivity. Qed.

Lemma compare_types_zero_iff a b :
  a < HWLOC_OBJ_TYPE_MAX -> b < HWLOC_OBJ_TYPE_MAX -> (compare_types a b = 0%Z <-> a = b).
Proof.
  intros Ha Hb. pose proof (compare_types_zero_iff_b a b Ha Hb) as H.
  apply Bool.eqb_prop in H. split; intros E.
  - apply N.eqb_eq. rewrite <- H. now apply Z.eqb_eq.
  - apply Z.eqb_eq. rewrite H. now apply N.eqb_eq.
Qed.

Definition types_ok (l : list obj) : Prop := Forall (fun o => otype o < HWLOC_OBJ_TYPE_MAX) l.

Lemma type_cmp_equal_refl o : otype o < HWLOC_OBJ_TYPE_MAX -> type_cmp_equal o o = true.
Proof.
  intros H. unfold type_cmp_equal.
  assert (E : compare_types (otype o) (otype o) = 0%Z) by (apply compare_types_zero_iff; auto).
  rewrite E. cbn [Z.eqb andb]. rewrite !Z.eqb_refl. cbn [andb]. apply orb_true_r.
Qed.

Lemma type_cmp_equal_type a b :
  otype a < HWLOC_OBJ_TYPE_MAX -> otype b < HWLOC_OBJ_TYPE_MAX ->
  type_cmp_equal a b = true -> otype a = otype b.
Proof.
  intros Ha Hb H. unfold type_cmp_equal in H. apply andb_true_iff in H as [H _].
  apply Z.eqb_eq in H. now apply compare_types_zero_iff in H.
Qed.

(* type_cmp_equal is an equivalence on (type, group kind, group subkind) *)
Lemma type_cmp_equal_sym a b :
  otype a < HWLOC_OBJ_TYPE_MAX -> otype b < HWLOC_OBJ_TYPE_MAX ->
  type_cmp_equal a b = true -> type_cmp_equal b a = true.
Proof.
  intros Ha Hb H. pose proof (type_cmp_equal_type a b Ha Hb H) as E.
  unfold type_cmp_equal in *. rewrite <- E. apply andb_true_iff in H as [H1 H2].
  assert (E0 : compare_types (otype a) (otype a) = 0%Z) by (apply compare_types_zero_iff; auto).
  rewrite E0. cbn [Z.eqb andb]. apply orb_true_iff in H2 as [H2|H2]; [now rewrite H2|].
  apply andb_true_iff in H2 as [K1 K2]. apply Z.eqb_eq in K1, K2. rewrite K1, K2, !Z.eqb_refl.
  apply orb_true_r.
Qed.

Lemma type_cmp_equal_trans a b c :
  otype a < HWLOC_OBJ_TYPE_MAX -> otype b < HWLOC_OBJ_TYPE_MAX -> otype c < HWLOC_OBJ_TYPE_MAX ->
  type_cmp_equal a b = true -> type_cmp_equal b c = true -> type_cmp_equal a c = true.
Proof.
  intros Ha Hb Hc H1 H2.
  pose proof (type_cmp_equal_type a b Ha Hb H1) as E1.
  pose proof (type_cmp_equal_type b c Hb Hc H2) as E2.
  unfold type_cmp_equal in *. rewrite <- E2, <- E1.
  assert (E0 : compare_types (otype a) (otype a) = 0%Z) by (apply compare_types_zero_iff; auto).
  rewrite E0. cbn [Z.eqb andb].
  apply andb_true_iff in H1 as [_ G1]. apply andb_true_iff in H2 as [_ G2].
  rewrite <- E1 in G2.
  destruct (otype a =? HWLOC_OBJ_GROUP); cbn [negb orb] in *; [|reflexivity].
  apply andb_true_iff in G1 as [A1 A2]. apply andb_true_iff in G2 as [B1 B2].
  apply Z.eqb_eq in A1, A2, B1, B2. rewrite A1, A2, B1, B2, !Z.eqb_refl. reflexivity.
Qed.

(* ---------- one iteration ---------- *)

Lemma initial_top_in objs o0 tl : objs = o0 :: tl -> In (initial_top objs o0) objs.
Proof.
  intros ->. unfold initial_top.
  destruct (find _ (o0 :: tl)) as [o|] eqn:E.
  - apply find_some in E. tauto.
  - left. reflexivity.
Qed.

Lemma refine_top_in top objs l : In top l -> incl objs l -> In (refine_top top objs) l.
Proof.
  unfold refine_top. revert top. induction objs as [|o tl IH]; intros top Ht Hi; cbn [fold_left]; [exact Ht|].
  apply IH.
  - destruct (negb (type_cmp_equal top o) && find_same_type o top); [apply Hi; left; reflexivity|exact Ht].
  - intros x Hx. apply Hi. right. exact Hx.
Qed.

Lemma nflattens_app a b : nflattens (a ++ b) = nflattens a ++ nflattens b.
Proof. unfold nflattens. apply flat_map_app. Qed.

Lemma nsizes_app a b : nsizes (a ++ b) = (nsizes a + nsizes b)%nat.
Proof. unfold nsizes. induction a as [|x a IH]; cbn [app fold_right]; [reflexivity|]. rewrite IH. lia. Qed.

Lemma take_level_perm (p : obj -> bool) objs :
  Permutation (nflattens objs)
    (filter p objs ++ nflattens (flat_map (fun o => if p o then onch o else [o]) objs)).
Proof.
  induction objs as [|o tl IH]; [constructor|].
  cbn [filter flat_map]. change (nflattens (o :: tl)) with (nflatten o ++ nflattens tl).
  rewrite nflattens_app. destruct (p o).
  - rewrite nflatten_eq. cbn [app]. constructor.
    eapply perm_trans; [apply Permutation_app_head; exact IH|].
    rewrite !app_assoc. apply Permutation_app_tail. apply Permutation_app_comm.
  - change (nflattens [o]) with (nflatten o ++ []). rewrite app_nil_r.
    eapply perm_trans; [apply Permutation_app_head; exact IH|].
    rewrite !app_assoc. apply Permutation_app_tail. apply Permutation_app_comm.
Qed.

Lemma take_level_size (p : obj -> bool) objs :
  nsizes objs = (List.length (filter p objs) + nsizes (flat_map (fun o => if p o then onch o else [o]) objs))%nat.
Proof.
  induction objs as [|o tl IH]; [reflexivity|].
  cbn [filter flat_map]. rewrite nsizes_app. change (nsizes (o :: tl)) with (nsize o + nsizes tl)%nat.
  rewrite IH. destruct (p o).
  - rewrite nsize_eq. cbn [List.length]. lia.
  - change (nsizes [o]) with (nsize o + 0)%nat. lia.
Qed.

(* ---------- termination: fuel = number of objects is enough ---------- *)

Lemma Forall_nflattens_rest (p : obj -> bool) objs (P : obj -> Prop) :
  Forall P (nflattens objs) -> Forall P (nflattens (flat_map (fun o => if p o then onch o else [o]) objs)).
Proof.
  intros H. rewrite Forall_forall in *. intros x Hx. apply H.
  eapply Permutation_in; [apply Permutation_sym, (take_level_perm p objs)|].
  apply in_or_app. right. exact Hx.
Qed.

Lemma in_nflattens_self o l : In o l -> In o (nflattens l).
Proof.
  intros H. unfold nflattens. apply in_flat_map. exists o. split; [exact H|].
  rewrite nflatten_eq. left. reflexivity.
Qed.

Theorem connect_levels_terminates fuel objs :
  types_ok (nflattens objs) -> (nsizes objs <= fuel)%nat -> exists ls, connect_levels fuel objs = Some ls.
Proof.
  revert objs. induction fuel as [|f IH]; intros objs Hok Hsz.
  - destruct objs as [|o0 tl]; [eexists; reflexivity|].
    exfalso. change (nsizes (o0 :: tl)) with (nsize o0 + nsizes tl)%nat in Hsz. rewrite nsize_eq in Hsz. lia.
  - destruct objs as [|o0 tl]; [eexists; reflexivity|].
    cbn [connect_levels]. remember (o0 :: tl) as objs eqn:Eobjs.
    set (top := refine_top (initial_top objs o0) objs).
    unfold take_level.
    assert (Hin : In top objs).
    { apply refine_top_in; [apply (initial_top_in objs o0 tl Eobjs)|apply incl_refl]. }
    assert (Htop : otype top < HWLOC_OBJ_TYPE_MAX).
    { unfold types_ok in Hok. rewrite Forall_forall in Hok. apply Hok, in_nflattens_self, Hin. }
    assert (Hne : (1 <= List.length (filter (type_cmp_equal top) objs))%nat).
    { assert (In top (filter (type_cmp_equal top) objs)) as Hf.
      { apply filter_In. split; [exact Hin|apply type_cmp_equal_refl, Htop]. }
      destruct (filter (type_cmp_equal top) objs); [destruct Hf|cbn; lia]. }
    pose proof (take_level_size (type_cmp_equal top) objs) as Hs.
    destruct (IH (flat_map (fun o => if type_cmp_equal top o then onch o else [o]) objs)) as [ls Hls].
    + apply Forall_nflattens_rest, Hok.
    + lia.
    + rewrite Hls. eexists; reflexivity.
Qed.

(* ---------- the levels partition the objects ---------- *)

Theorem connect_levels_partition fuel objs ls :
  connect_levels fuel objs = Some ls -> Permutation (concat ls) (nflattens objs).
Proof.
  revert objs ls. induction fuel as [|f IH]; intros objs ls H.
  - destruct objs; cbn in H; [injection H as <-; constructor|discriminate].
  - destruct objs as [|o0 tl]; [cbn in H; injection H as <-; constructor|].
    cbn [connect_levels] in H. remember (o0 :: tl) as objs eqn:Eobjs.
    set (top := refine_top (initial_top objs o0) objs) in *.
    unfold take_level in H.
    destruct (connect_levels f _) as [ls'|] eqn:E; [|discriminate].
    injection H as <-. cbn [concat].
    apply Permutation_sym. eapply perm_trans; [apply (take_level_perm (type_cmp_equal top))|].
    apply Permutation_app_head. apply Permutation_sym. apply IH, E.
Qed.

(* ---------- every level is non-empty and type-homogeneous ---------- *)

Definition homogeneous (lvl : list obj) : Prop :=
  exists top, In top lvl /\ forall o, In o lvl -> type_cmp_equal top o = true.

Theorem connect_levels_homogeneous fuel objs ls :
  types_ok (nflattens objs) ->
  connect_levels fuel objs = Some ls -> Forall homogeneous ls.
Proof.
  revert objs ls. induction fuel as [|f IH]; intros objs ls Hok H.
  - destruct objs; cbn in H; [injection H as <-; constructor|discriminate].
  - destruct objs as [|o0 tl]; [cbn in H; injection H as <-; constructor|].
    cbn [connect_levels] in H. remember (o0 :: tl) as objs eqn:Eobjs.
    set (top := refine_top (initial_top objs o0) objs) in *.
    unfold take_level in H.
    destruct (connect_levels f _) as [ls'|] eqn:E; [|discriminate].
    injection H as <-.
    assert (Hin : In top objs).
    { apply refine_top_in; [apply (initial_top_in objs o0 tl Eobjs)|apply incl_refl]. }
    assert (Htop : otype top < HWLOC_OBJ_TYPE_MAX).
    { unfold types_ok in Hok. rewrite Forall_forall in Hok. apply Hok, in_nflattens_self, Hin. }
    constructor.
    + exists top. split.
      * apply filter_In. split; [exact Hin|apply type_cmp_equal_refl, Htop].
      * intros o Ho. apply filter_In in Ho. tauto.
    + eapply IH; [|exact E]. apply Forall_nflattens_rest, Hok.
Qed.

(* ---------- children are strictly deeper than their parent ---------- *)

Lemma in_concat_nth {A} (ls : list (list A)) x :
  In x (concat ls) -> exists k lvl, nth_error ls k = Some lvl /\ In x lvl.
Proof.
  induction ls as [|l tl IH]; cbn [concat]; [intros []|].
  intros H. apply in_app_or in H as [H|H].
  - exists 0%nat, l. split; [reflexivity|exact H].
  - destruct (IH H) as (k & lvl & Hk & Hl). exists (S k), lvl. split; [exact Hk|exact Hl].
Qed.

Theorem connect_levels_child_deeper fuel objs ls :
  connect_levels fuel objs = Some ls ->
  forall k lvl o c, nth_error ls k = Some lvl -> In o lvl -> In c (onch o) ->
  exists k' lvl', (k < k')%nat /\ nth_error ls k' = Some lvl' /\ In c lvl'.
Proof.
  revert objs ls. induction fuel as [|f IH]; intros objs ls H k lvl o c Hk Ho Hc.
  - destruct objs; cbn in H; [injection H as <-; destruct k; discriminate|discriminate].
  - destruct objs as [|o0 tl]; [cbn in H; injection H as <-; destruct k; discriminate|].
    cbn [connect_levels] in H. remember (o0 :: tl) as objs eqn:Eobjs.
    set (top := refine_top (initial_top objs o0) objs) in *.
    unfold take_level in H.
    destruct (connect_levels f _) as [ls'|] eqn:E; [|discriminate].
    injection H as <-.
    destruct k as [|k].
    + cbn in Hk. injection Hk as <-. apply filter_In in Ho as [Ho Hp].
      assert (In c (concat ls')) as Hin.
      { eapply Permutation_in; [apply Permutation_sym, (connect_levels_partition _ _ _ E)|].
        apply in_nflattens_self. apply in_flat_map. exists o. split; [exact Ho|]. now rewrite Hp. }
      destruct (in_concat_nth _ _ Hin) as (k' & lvl' & Hk' & Hl').
      exists (S k'), lvl'. split; [lia|]. split; [exact Hk'|exact Hl'].
    + cbn in Hk. destruct (IH _ _ E k lvl o c Hk Ho Hc) as (k' & lvl' & Hlt & Hk' & Hl').
      exists (S k'), lvl'. split; [lia|]. split; [exact Hk'|exact Hl'].
Qed.

(* ---------- PUs form exactly the last level ---------- *)

Definition pus_are_leaves (l : list obj) : Prop :=
  Forall (fun o => otype o = HWLOC_OBJ_PU -> onch o = []) l.

Lemma find_same_type_leaf o x : onch o = [] -> find_same_type o x = false.
Proof. destruct o as [d n m i xx]. cbn [onch]. intros ->. reflexivity. Qed.

Lemma refine_top_not_pu top objs :
  pus_are_leaves objs -> otype top <> HWLOC_OBJ_PU -> otype (refine_top top objs) <> HWLOC_OBJ_PU.
Proof.
  unfold refine_top. revert top. induction objs as [|o tl IH]; intros top Hl Ht; cbn [fold_left]; [exact Ht|].
  inversion Hl as [|? ? Ho Htl]; subst. apply IH; [exact Htl|].
  destruct (negb (type_cmp_equal top o) && find_same_type o top) eqn:E; [|exact Ht].
  apply andb_true_iff in E as [_ E]. intros Hpu. rewrite (find_same_type_leaf o top (Ho Hpu)) in E. discriminate.
Qed.

Lemma initial_top_pu objs o0 tl :
  objs = o0 :: tl -> otype (initial_top objs o0) = HWLOC_OBJ_PU -> Forall (fun o => otype o = HWLOC_OBJ_PU) objs.
Proof.
  intros -> H. unfold initial_top in H.
  destruct (find _ (o0 :: tl)) as [o|] eqn:E.
  - apply find_some in E as [_ E]. apply negb_true_iff, N.eqb_neq in E. contradiction.
  - rewrite Forall_forall. intros x Hx. pose proof (find_none _ _ E x Hx) as Hn.
    apply negb_false_iff, N.eqb_eq in Hn. exact Hn.
Qed.

Lemma pus_are_leaves_sub l : pus_are_leaves (nflattens l) -> pus_are_leaves l.
Proof.
  unfold pus_are_leaves. rewrite !Forall_forall. intros H x Hx. apply H, in_nflattens_self, Hx.
Qed.

Theorem connect_levels_pu_last fuel objs ls :
  types_ok (nflattens objs) -> pus_are_leaves (nflattens objs) ->
  connect_levels fuel objs = Some ls ->
  forall k lvl o, nth_error ls k = Some lvl -> In o lvl -> otype o = HWLOC_OBJ_PU ->
  S k = List.length ls /\ forall o', In o' lvl -> otype o' = HWLOC_OBJ_PU.
Proof.
  revert objs ls. induction fuel as [|f IH]; intros objs ls Hok Hleaf H k lvl o Hk Ho Hpu.
  - destruct objs; cbn in H; [injection H as <-; destruct k; discriminate|discriminate].
  - destruct objs as [|o0 tl]; [cbn in H; injection H as <-; destruct k; discriminate|].
    cbn [connect_levels] in H. remember (o0 :: tl) as objs eqn:Eobjs.
    set (top := refine_top (initial_top objs o0) objs) in *.
    unfold take_level in H.
    destruct (connect_levels f _) as [ls'|] eqn:E; [|discriminate].
    injection H as <-.
    assert (Hin : In top objs).
    { apply refine_top_in; [apply (initial_top_in objs o0 tl Eobjs)|apply incl_refl]. }
    assert (HokF := Hok). unfold types_ok in HokF. rewrite Forall_forall in HokF.
    assert (Htop : otype top < HWLOC_OBJ_TYPE_MAX) by (apply HokF, in_nflattens_self, Hin).
    destruct k as [|k].
    + cbn in Hk. injection Hk as <-. apply filter_In in Ho as [Ho Hp].
      assert (Ho_ok : otype o < HWLOC_OBJ_TYPE_MAX) by (apply HokF, in_nflattens_self, Ho).
      pose proof (type_cmp_equal_type top o Htop Ho_ok Hp) as Et. rewrite Hpu in Et.
      (* top is a PU, hence the initial top was a PU, hence all objs are PUs *)
      assert (Hall : Forall (fun o => otype o = HWLOC_OBJ_PU) objs).
      { destruct (N.eq_dec (otype (initial_top objs o0)) HWLOC_OBJ_PU) as [Ei|Ni].
        - apply (initial_top_pu objs o0 tl Eobjs Ei).
        - exfalso. apply (refine_top_not_pu (initial_top objs o0) objs); [apply pus_are_leaves_sub, Hleaf|exact Ni|exact Et]. }
      rewrite Forall_forall in Hall.
      assert (Hrest : flat_map (fun o => if type_cmp_equal top o then onch o else [o]) objs = []).
      { assert (G : forall l, (forall x, In x l -> In x objs) -> flat_map (fun o => if type_cmp_equal top o then onch o else [o]) l = []).
        { induction l as [|x l IHl]; intros Hsub; [reflexivity|]. cbn [flat_map].
          rewrite IHl by (intros y Hy; apply Hsub; right; exact Hy). rewrite app_nil_r.
          assert (Hx : In x objs) by (apply Hsub; left; reflexivity).
          assert (Ex : type_cmp_equal top x = true).
          { unfold type_cmp_equal. rewrite Et, (Hall x Hx).
            assert (E0 : compare_types HWLOC_OBJ_PU HWLOC_OBJ_PU = 0%Z) by (vm_compute; reflexivity).
            rewrite E0. vm_compute. reflexivity. }
          rewrite Ex. unfold pus_are_leaves in Hleaf. rewrite Forall_forall in Hleaf.
          apply Hleaf; [apply in_nflattens_self, Hx|apply Hall, Hx]. }
        apply G. auto. }
      rewrite Hrest in E. destruct f; cbn in E; injection E as <-.
      * split; [reflexivity|]. intros o' Ho'. apply filter_In in Ho' as [Ho' _]. apply Hall, Ho'.
      * split; [reflexivity|]. intros o' Ho'. apply filter_In in Ho' as [Ho' _]. apply Hall, Ho'.
    + cbn in Hk.
      destruct (IH _ _ (Forall_nflattens_rest _ _ _ Hok) (Forall_nflattens_rest _ _ _ Hleaf) E k lvl o Hk Ho Hpu) as [Hlen Hall].
      split; [cbn [List.length]; lia|exact Hall].
Qed.

(* ---------- whole tree ---------- *)

Lemma nsizes_nflattens_root root : nflatten root = root :: nflattens (onch root).
Proof. apply nflatten_eq. Qed.

Theorem levels_of_terminates root :
  types_ok (nflatten root) -> exists ls, levels_of root = Some ls.
Proof.
  intros H. unfold levels_of. rewrite nflatten_eq in H. inversion H as [|? ? _ Hr]; subst.
  destruct (connect_levels_terminates (nsizes (onch root)) (onch root) Hr (le_n _)) as [ls E].
  rewrite E. eexists; reflexivity.
Qed.

Theorem levels_of_partition root ls :
  levels_of root = Some ls -> Permutation (concat ls) (nflatten root).
Proof.
  unfold levels_of. destruct (connect_levels _ _) as [ls'|] eqn:E; [|discriminate].
  intros H; injection H as <-. cbn [concat app]. rewrite nflatten_eq. constructor.
  apply (connect_levels_partition _ _ _ E).
Qed.

Theorem levels_of_homogeneous root ls :
  types_ok (nflatten root) -> levels_of root = Some ls -> Forall homogeneous ls.
Proof.
  intros Hok. unfold levels_of. destruct (connect_levels _ _) as [ls'|] eqn:E; [|discriminate].
  intros H; injection H as <-. rewrite nflatten_eq in Hok. inversion Hok as [|? ? H0 Hr]; subst.
  constructor.
  - exists root. split; [left; reflexivity|]. intros o [<-|[]]. apply type_cmp_equal_refl, H0.
  - apply (connect_levels_homogeneous _ _ _ Hr E).
Qed.

Theorem levels_of_child_deeper root ls :
  levels_of root = Some ls ->
  forall k lvl o c, nth_error ls k = Some lvl -> In o lvl -> In c (onch o) ->
  exists k' lvl', (k < k')%nat /\ nth_error ls k' = Some lvl' /\ In c lvl'.
Proof.
  unfold levels_of. destruct (connect_levels _ _) as [ls'|] eqn:E; [|discriminate].
  intros H; injection H as <-. intros k lvl o c Hk Ho Hc.
  destruct k as [|k].
  - cbn in Hk. injection Hk as <-. destruct Ho as [<-|[]].
    assert (In c (concat ls')) as Hin.
    { eapply Permutation_in; [apply Permutation_sym, (connect_levels_partition _ _ _ E)|].
      apply in_nflattens_self, Hc. }
    destruct (in_concat_nth _ _ Hin) as (k' & lvl' & Hk' & Hl').
    exists (S k'), lvl'. split; [lia|]. split; [exact Hk'|exact Hl'].
  - cbn in Hk. destruct (connect_levels_child_deeper _ _ _ E k lvl o c Hk Ho Hc) as (k' & lvl' & Hlt & Hk' & Hl').
    exists (S k'), lvl'. split; [lia|]. split; [exact Hk'|exact Hl'].
Qed.

(* when the root is not a PU and PUs have no normal children, every PU sits in
   the last level and the last level holds PUs only *)
Theorem levels_of_pu_last root ls :
  types_ok (nflatten root) -> pus_are_leaves (nflatten root) -> otype root <> HWLOC_OBJ_PU ->
  levels_of root = Some ls ->
  forall k lvl o, nth_error ls k = Some lvl -> In o lvl -> otype o = HWLOC_OBJ_PU ->
  S k = List.length ls /\ forall o', In o' lvl -> otype o' = HWLOC_OBJ_PU.
Proof.
  intros Hok Hleaf Hroot. unfold levels_of. destruct (connect_levels _ _) as [ls'|] eqn:E; [|discriminate].
  intros H; injection H as <-. intros k lvl o Hk Ho Hpu.
  rewrite nflatten_eq in Hok, Hleaf. inversion Hok as [|? ? _ Hr]; subst. inversion Hleaf as [|? ? _ Hl]; subst.
  destruct k as [|k].
  - cbn in Hk. injection Hk as <-. destruct Ho as [<-|[]]. contradiction.
  - cbn in Hk. destruct (connect_levels_pu_last _ _ _ Hr Hl E k lvl o Hk Ho Hpu) as [Hlen Hall].
    split; [cbn [List.length]; lia|exact Hall].
Qed.
