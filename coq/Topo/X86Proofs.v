(* C01/C18: facts about the model of the x86 backend's summarize() (Topo/X86.v), for every per-PU information:
   the grouping loop yields pairwise disjoint classes made of exactly the indexes that share the leader's ids;
   every PU that was looked at gets its PU request (a singleton), and nothing else does. *)
From Coq Require Import List NArith ZArith Bool Lia FinFun.
From HV Require Import Base.BSet Gen.Tables Text.TypeOrder Topo.LinuxCpu Topo.X86.
Import ListNotations.
Local Open Scope N_scope.

Definition disj (a b : bset) : Prop := forall i, mem i a = true -> mem i b = true -> False.

Section Classes.
  Variable skip : N -> bool.
  Variable same : N -> N -> bool.

  Lemma class_of_spec i : forall js acc j,
    mem j (fold_left (fun acc j => if skip j then acc else if same i j then bs_add j acc else acc) js acc) = true <->
    mem j acc = true \/ (In j js /\ skip j = false /\ same i j = true).
  Proof.
    induction js as [|k tl IH]; cbn [fold_left]; intros acc j.
    - split; [intros H; left; exact H|intros [H|[[] _]]; exact H].
    - rewrite IH. destruct (skip k) eqn:Sk.
      + split; intros [H|(H1 & H2 & H3)]; try (left; exact H).
        * right. split; [right; exact H1|split; assumption].
        * destruct H1 as [->|H1]; [congruence|]. right. split; [exact H1|split; assumption].
      + destruct (same i k) eqn:Sm.
        * rewrite mem_add. split.
          -- intros [H|(H1 & H2 & H3)].
             ++ apply orb_true_iff in H as [H|H]; [|left; exact H]. apply N.eqb_eq in H. subst j.
                right. split; [left; reflexivity|split; assumption].
             ++ right. split; [right; exact H1|split; assumption].
          -- intros [H|(H1 & H2 & H3)].
             ++ left. rewrite H. apply orb_true_r.
             ++ destruct H1 as [->|H1]; [left; rewrite N.eqb_refl; reflexivity|right; split; [exact H1|split; assumption]].
        * split; intros [H|(H1 & H2 & H3)]; try (left; exact H).
          -- right. split; [right; exact H1|split; assumption].
          -- destruct H1 as [->|H1]; [congruence|]. right. split; [exact H1|split; assumption].
  Qed.

  Lemma mem_class_of i js j : mem j (class_of skip same i js) = true <-> In j js /\ skip j = false /\ same i j = true.
  Proof.
    unfold class_of. rewrite class_of_spec. rewrite mem_empty. split; [intros [H|H]; [discriminate|exact H]|intros H; right; exact H].
  Qed.

  Lemma clear_after_spec i : forall js rem j,
    mem j (fold_left (fun acc j => if skip j then bs_remove j acc else if same i j then bs_remove j acc else acc) js rem) = true ->
    mem j rem = true /\ (In j js -> skip j = false /\ same i j = false).
  Proof.
    induction js as [|k tl IH]; cbn [fold_left]; intros rem j H; [split; [exact H|intros []]|].
    apply IH in H as [H1 H2].
    assert (G : mem j rem = true /\ (j = k -> skip k = false /\ same i k = false)).
    { destruct (skip k) eqn:Sk.
      - rewrite mem_remove in H1. apply andb_true_iff in H1 as [Hn H1]. split; [exact H1|]. intros ->. rewrite N.eqb_refl in Hn. discriminate.
      - destruct (same i k) eqn:Sm.
        + rewrite mem_remove in H1. apply andb_true_iff in H1 as [Hn H1]. split; [exact H1|]. intros ->. rewrite N.eqb_refl in Hn. discriminate.
        + split; [exact H1|]. intros _. split; reflexivity. }
    destruct G as [G1 G2]. split; [exact G1|]. intros [<-|Hin]; [apply G2; reflexivity|apply H2, Hin].
  Qed.

  Lemma mem_clear_after i js rem j : mem j (clear_after skip same i js rem) = true ->
    mem j rem = true /\ (In j js -> skip j = false /\ same i j = false).
  Proof. apply clear_after_spec. Qed.

  (* every class: its leader is a candidate still in the set, not skipped; its members are the later candidates
     that are not skipped and share the leader's key *)
  Lemma classes_sound : forall cands rem i s, In (i, s) (classes skip same cands rem) ->
    In i cands /\ mem i rem = true /\ skip i = false /\
    (forall j, mem j s = true -> In j cands /\ skip j = false /\ same i j = true).
  Proof.
    induction cands as [|c rest IH]; cbn [classes]; intros rem i s H; [contradiction|].
    destruct (mem c rem) eqn:Mc.
    - destruct (skip c) eqn:Sk.
      + apply IH in H as (H1 & H2 & H3 & H4). rewrite mem_remove in H2. apply andb_true_iff in H2 as [_ H2].
        split; [right; exact H1|]. split; [exact H2|]. split; [exact H3|]. intros j Hj. destruct (H4 j Hj) as (A & B & C).
        split; [right; exact A|split; assumption].
      + destruct H as [H|H].
        * injection H as <- <-. split; [left; reflexivity|]. split; [exact Mc|]. split; [exact Sk|].
          intros j Hj. apply mem_class_of in Hj. exact Hj.
        * apply IH in H as (H1 & H2 & H3 & H4). apply mem_clear_after in H2 as [H2 _].
          split; [right; exact H1|]. split; [exact H2|]. split; [exact H3|]. intros j Hj. destruct (H4 j Hj) as (A & B & C).
          split; [right; exact A|split; assumption].
    - apply IH in H as (H1 & H2 & H3 & H4). split; [right; exact H1|]. split; [exact H2|]. split; [exact H3|].
      intros j Hj. destruct (H4 j Hj) as (A & B & C). split; [right; exact A|split; assumption].
  Qed.

  Hypothesis same_sym : forall a b, same a b = same b a.
  Hypothesis same_trans : forall a b c, same a b = true -> same b c = true -> same a c = true.

  Theorem classes_disjoint : forall cands rem,
    ForallOrdPairs (fun p q => disj (snd p) (snd q)) (classes skip same cands rem).
  Proof.
    induction cands as [|c rest IH]; cbn [classes]; intros rem; [constructor|].
    destruct (mem c rem) eqn:Mc; [|apply IH].
    destruct (skip c) eqn:Sk; [apply IH|].
    constructor; [|apply IH].
    apply Forall_forall. intros [i2 s2] Hin. cbn [snd]. intros j J1 J2.
    apply mem_class_of in J1 as (_ & _ & S1).
    apply classes_sound in Hin as (I2 & M2 & K2 & Hmem).
    destruct (Hmem j J2) as (_ & _ & S2).
    assert (S12 : same c i2 = true) by (apply (same_trans c j i2 S1); rewrite same_sym; exact S2).
    apply mem_clear_after in M2 as [_ M2]. destruct (M2 (or_intror I2)) as [_ F]. congruence.
  Qed.

  (* nobody is forgotten: a candidate that is in the set and not skipped ends up in some class *)
  Hypothesis same_refl : forall a, same a a = true.

  Theorem classes_cover : forall cands rem i, NoDup cands -> In i cands -> mem i rem = true -> skip i = false ->
    exists l s, In (l, s) (classes skip same cands rem) /\ mem i s = true.
  Proof.
    induction cands as [|c rest IH]; intros rem i Hnd Hin Hm Hs; [contradiction|].
    inversion Hnd as [|c0 r0 Hnc Hnd']; subst c0 r0. cbn [classes].
    destruct Hin as [<-|Hin].
    - rewrite Hm, Hs. exists c, (class_of skip same c (c :: rest)). split; [left; reflexivity|].
      apply mem_class_of. split; [left; reflexivity|split; [exact Hs|apply same_refl]].
    - destruct (mem c rem) eqn:Mc.
      + destruct (skip c) eqn:Sk.
        * destruct (IH (bs_remove c rem) i Hnd' Hin) as (l & s & H1 & H2); [|exact Hs|exists l, s; split; [exact H1|exact H2]].
          rewrite mem_remove, Hm, andb_true_r. apply negb_true_iff, N.eqb_neq. intros ->. contradiction.
        * destruct (same c i) eqn:Sci.
          -- exists c, (class_of skip same c (c :: rest)). split; [left; reflexivity|].
             apply mem_class_of. split; [right; exact Hin|split; assumption].
          -- assert (Hm' : mem i (clear_after skip same c (c :: rest) rem) = true).
             { unfold clear_after. clear -Hm Hs Sci. revert rem Hm. generalize (c :: rest) as js.
               induction js as [|k tl IHj]; cbn [fold_left]; intros rem Hm; [exact Hm|]. apply IHj.
               destruct (skip k) eqn:Sk.
               - rewrite mem_remove, Hm, andb_true_r. apply negb_true_iff, N.eqb_neq. intros ->. congruence.
               - destruct (same c k) eqn:Sk2; [|exact Hm].
                 rewrite mem_remove, Hm, andb_true_r. apply negb_true_iff, N.eqb_neq. intros ->. congruence. }
             destruct (IH _ i Hnd' Hin Hm' Hs) as (l & s & H1 & H2). exists l, s. split; [right; exact H1|exact H2].
      + destruct (IH rem i Hnd' Hin Hm Hs) as (l & s & H1 & H2). exists l, s. split; [exact H1|exact H2].
  Qed.
End Classes.

(* ---------- the PUs ---------- *)

Lemma in_indexes v i : In i (indexes v) <-> i < nbprocs v.
Proof.
  unfold indexes, nbprocs. rewrite in_map_iff. split.
  - intros (k & <- & Hk). apply in_seq in Hk. lia.
  - intros H. exists (N.to_nat i). split; [apply N2Nat.id|]. apply in_seq. lia.
Qed.

Theorem x86_pu_requests keep v rs : x86_requests keep v = Some rs ->
  forall i, (In (simple_req HWLOC_OBJ_PU i (bs_single i)) rs <-> (i < nbprocs v /\ xp_present (proc v i) = true)) \/ rs = [].
Proof.
  unfold x86_requests. destruct (negb (x86_full v)); [discriminate|].
  destruct (last_present v) as [one|]; [|intros H; injection H as <-; intros i; right; reflexivity].
  intros H i. injection H as <-. left.
  set (pus := flat_map (fun i => if xp_present (proc v i) then [simple_req HWLOC_OBJ_PU i (bs_single i)] else []) (indexes v)).
  assert (Hpus : In (simple_req HWLOC_OBJ_PU i (bs_single i)) pus <-> (i < nbprocs v /\ xp_present (proc v i) = true)).
  { unfold pus. rewrite in_flat_map. split.
    - intros (k & Hk & Hin). destruct (xp_present (proc v k)) eqn:P; [|contradiction]. destruct Hin as [E|[]].
      assert (k = i) by (unfold simple_req in E; injection E as E _; exact E). subst k.
      split; [apply in_indexes, Hk|exact P].
    - intros [H1 H2]. exists i. split; [apply in_indexes, H1|]. rewrite H2. left; reflexivity. }
  rewrite <- Hpus. split.
  - (* a PU request can only come from the PU part: the other parts have other types *)
    intros Hin.
    repeat (apply in_app_or in Hin as [Hin|Hin]); try exact Hin; exfalso.
    + destruct (keep HWLOC_OBJ_PACKAGE); [|contradiction]. apply in_map_iff in Hin as ([l s] & E & _). discriminate E.
    + destruct (N.testbit (xv_flags v) 1); [|contradiction]. apply in_map_iff in Hin as ([l s] & E & _). discriminate E.
    + destruct (keep HWLOC_OBJ_GROUP); [|contradiction].
      repeat (apply in_app_or in Hin as [Hin|Hin]);
        try (destruct (xv_unit v), (xv_module v), (xv_tile v); try contradiction; unfold group_reqs in Hin;
             apply in_map_iff in Hin as ([l s] & E & _); discriminate E).
      unfold unknown_reqs in Hin. destruct (last_present v) as [o|]; [|contradiction]. destruct (xp_other (proc v o)) as [ol|]; [|contradiction].
      apply in_flat_map in Hin as (lv & _ & Hin). destruct (other_at (proc v o) lv) as [id|]; [|contradiction].
      destruct (id =? X86_UINT_MAX); [contradiction|]. apply in_map_iff in Hin as ([l s] & E & _). discriminate E.
    + destruct (xv_die v && keep HWLOC_OBJ_DIE); [|contradiction]. apply in_map_iff in Hin as ([l s] & E & _). discriminate E.
    + destruct (keep HWLOC_OBJ_CORE); [|contradiction]. apply in_map_iff in Hin as ([l s] & E & _). discriminate E.
    + unfold x86_cache_reqs in Hin. apply in_flat_map in Hin as (lv & _ & Hin). apply in_flat_map in Hin as (ty & _ & Hin).
      unfold cache_reqs_at in Hin. destruct (cache_otype lv ty) as [ot|] eqn:Eo; [|contradiction]. destruct (keep ot); [|contradiction].
      apply in_map_iff in Hin as ([l s] & E & _). pose proof (f_equal q_cdepth E) as E1. cbn in E1. subst lv.
      unfold cache_otype in Eo. destruct (ty =? HWLOC_OBJ_CACHE_INSTRUCTION); cbn in Eo; discriminate Eo.
  - intros Hin. do 5 (apply in_or_app; right). apply in_or_app. left. exact Hin.
Qed.

(* ---------- the classes of the x86 backend ---------- *)

Lemma eq_id_sym v k a b : eq_id v k a b = eq_id v k b a.
Proof. unfold eq_id. apply N.eqb_sym. Qed.
Lemma eq_id_trans v k a b c : eq_id v k a b = true -> eq_id v k b c = true -> eq_id v k a c = true.
Proof. unfold eq_id. rewrite !N.eqb_eq. congruence. Qed.
Lemma eq_id_refl v k a : eq_id v k a a = true.
Proof. unfold eq_id. apply N.eqb_refl. Qed.

Lemma NoDup_indexes v : NoDup (indexes v).
Proof.
  unfold indexes. apply FinFun.Injective_map_NoDup; [|apply seq_NoDup].
  intros a b H. apply Nat2N.inj, H.
Qed.

Lemma mem_complete v i : mem i (complete v) = true <-> i < nbprocs v /\ xp_present (proc v i) = true.
Proof.
  unfold complete.
  assert (G : forall l acc, mem i (fold_left (fun acc i => if xp_present (proc v i) then bs_add i acc else acc) l acc) = true <->
                            mem i acc = true \/ (In i l /\ xp_present (proc v i) = true)).
  { induction l as [|k tl IH]; cbn [fold_left]; intros acc.
    - split; [intros H; left; exact H|intros [H|[[] _]]; exact H].
    - rewrite IH. destruct (xp_present (proc v k)) eqn:P.
      + rewrite mem_add. split.
        * intros [H|[H1 H2]]; [|right; split; [right; exact H1|exact H2]].
          apply orb_true_iff in H as [H|H]; [|left; exact H]. apply N.eqb_eq in H. subst k. right. split; [left; reflexivity|exact P].
        * intros [H|[[<-|H1] H2]]; [left; rewrite H; apply orb_true_r|left; rewrite N.eqb_refl; reflexivity|right; split; assumption].
      + split; intros [H|[H1 H2]]; try (left; exact H).
        * right. split; [right; exact H1|exact H2].
        * destruct H1 as [->|H1]; [congruence|right; split; assumption]. }
  rewrite G, mem_empty, <- in_indexes. split; [intros [H|H]; [discriminate|exact H]|intros H; right; exact H].
Qed.

(* Packages: pairwise disjoint, and every PU that was looked at is in one *)
Theorem x86_package_sets_disjoint v :
  ForallOrdPairs (fun p q => disj (snd p) (snd q)) (by_ids v (fun _ => false) (eq_id v PKG)).
Proof. apply classes_disjoint; [apply eq_id_sym|apply eq_id_trans]. Qed.

Theorem x86_every_looked_at_pu_has_a_package v i : i < nbprocs v -> xp_present (proc v i) = true ->
  exists l s, In (l, s) (by_ids v (fun _ => false) (eq_id v PKG)) /\ mem i s = true.
Proof.
  intros H1 H2. apply classes_cover; [apply eq_id_refl|apply NoDup_indexes|apply in_indexes, H1|apply mem_complete; split; assumption|reflexivity].
Qed.

(* the same for the classes keyed by (package, id k) - Dies, NUMA nodes, the Group kinds - and by (package, node, core) *)
Theorem x86_keyed_sets_disjoint v k :
  ForallOrdPairs (fun p q => disj (snd p) (snd q)) (by_ids v (no_id v k) (fun i j => eq_id v PKG i j && eq_id v k i j)).
Proof.
  apply classes_disjoint.
  - intros a b. now rewrite (eq_id_sym v PKG a b), (eq_id_sym v k a b).
  - intros a b c H1 H2. apply andb_true_iff in H1 as [A1 A2]. apply andb_true_iff in H2 as [B1 B2].
    apply andb_true_iff. split; eapply eq_id_trans; eassumption.
Qed.

Theorem x86_core_sets_disjoint v :
  ForallOrdPairs (fun p q => disj (snd p) (snd q))
                 (by_ids v (no_id v CORE) (fun i j => eq_id v PKG i j && eq_id v NODE i j && eq_id v CORE i j)).
Proof.
  apply classes_disjoint.
  - intros a b. now rewrite (eq_id_sym v PKG a b), (eq_id_sym v NODE a b), (eq_id_sym v CORE a b).
  - intros a b c H1 H2. apply andb_true_iff in H1 as [A A3]. apply andb_true_iff in A as [A1 A2].
    apply andb_true_iff in H2 as [B B3]. apply andb_true_iff in B as [B1 B2].
    apply andb_true_iff. split; [apply andb_true_iff; split|]; eapply eq_id_trans; eassumption.
Qed.

(* members of a class share the leader's ids (so a Core class lies inside one Package class when the ids say so) *)
Theorem x86_class_members v skip same l s : In (l, s) (by_ids v skip same) ->
  l < nbprocs v /\ xp_present (proc v l) = true /\ skip l = false /\
  forall j, mem j s = true -> j < nbprocs v /\ skip j = false /\ same l j = true.
Proof.
  intros H. apply classes_sound in H as (H1 & H2 & H3 & H4).
  apply mem_complete in H2 as [H2a H2b]. split; [exact H2a|]. split; [exact H2b|]. split; [exact H3|].
  intros j Hj. destruct (H4 j Hj) as (A & B & C). split; [apply in_indexes, A|split; assumption].
Qed.

(* Non-vacuity: two packages of two cores of two threads; PU 5 was not looked at *)
Definition ex_proc (present : bool) (pkg core : N) : xproc :=
  mkXP present [pkg; core; X86_UINT_MAX; X86_UINT_MAX; X86_UINT_MAX; X86_UINT_MAX; X86_UINT_MAX; X86_UINT_MAX] 0 None
       [mkXC 1 1 core; mkXC 2 0 0].
Definition ex_xview : xview :=
  mkXV 1 false false false false false
       [ex_proc true 0 0; ex_proc true 0 0; ex_proc true 0 1; ex_proc true 0 1; ex_proc true 1 0; mkXP false (repeat X86_UINT_MAX 8) 0 None []; ex_proc true 1 1; ex_proc true 1 1].
Example x86_requests_example :
  match x86_requests (fun _ => true) ex_xview with
  | Some rs => map (fun r => (q_type r, q_os r, q_cs r)) rs =
      [(HWLOC_OBJ_PACKAGE, 0, bs_of_N 15); (HWLOC_OBJ_PACKAGE, 1, bs_of_N 208);
       (HWLOC_OBJ_CORE, 0, bs_of_N 3); (HWLOC_OBJ_CORE, 1, bs_of_N 12); (HWLOC_OBJ_CORE, 0, bs_of_N 16); (HWLOC_OBJ_CORE, 1, bs_of_N 192);
       (HWLOC_OBJ_PU, 0, bs_of_N 1); (HWLOC_OBJ_PU, 1, bs_of_N 2); (HWLOC_OBJ_PU, 2, bs_of_N 4); (HWLOC_OBJ_PU, 3, bs_of_N 8);
       (HWLOC_OBJ_PU, 4, bs_of_N 16); (HWLOC_OBJ_PU, 6, bs_of_N 64); (HWLOC_OBJ_PU, 7, bs_of_N 128);
       (HWLOC_OBJ_L2CACHE, X86_UNKNOWN_INDEX, bs_of_N 15); (HWLOC_OBJ_L2CACHE, X86_UNKNOWN_INDEX, bs_of_N 208);
       (HWLOC_OBJ_L1CACHE, X86_UNKNOWN_INDEX, bs_of_N 3); (HWLOC_OBJ_L1CACHE, X86_UNKNOWN_INDEX, bs_of_N 12);
       (HWLOC_OBJ_L1CACHE, X86_UNKNOWN_INDEX, bs_of_N 16); (HWLOC_OBJ_L1CACHE, X86_UNKNOWN_INDEX, bs_of_N 192)]
  | None => False
  end.
Proof. vm_compute. reflexivity. Qed.

(* ---------- every cpu of every requested cpuset is below nbprocs; when every PU was looked at, it is requested alone ---------- *)

Lemma by_ids_bits v skip same l s j : In (l, s) (by_ids v skip same) -> mem j s = true -> j < nbprocs v.
Proof. intros H Hj. apply x86_class_members in H as (_ & _ & _ & H). apply (H j Hj). Qed.

Lemma in_map_by_ids v skip same (f : N * bset -> lreq) r j :
  (forall p, q_cs (f p) = snd p) -> In r (map f (by_ids v skip same)) -> mem j (q_cs r) = true -> j < nbprocs v.
Proof.
  intros Hf Hin Hj. apply in_map_iff in Hin as ([l s] & <- & Hin). rewrite Hf in Hj. cbn [snd] in Hj.
  eapply by_ids_bits; eassumption.
Qed.

Theorem x86_request_bits_below_nbprocs keep v rs r j :
  x86_requests keep v = Some rs -> In r rs -> mem j (q_cs r) = true -> j < nbprocs v.
Proof.
  unfold x86_requests. destruct (negb (x86_full v)); [discriminate|].
  destruct (last_present v) as [one|]; [|intros H; injection H as <-; intros []].
  intros H Hin Hj. injection H as <-.
  repeat (apply in_app_or in Hin as [Hin|Hin]).
  - destruct (keep HWLOC_OBJ_PACKAGE); [|contradiction]. eapply in_map_by_ids; [|exact Hin|exact Hj]. intros [l s]; reflexivity.
  - destruct (N.testbit (xv_flags v) 1); [|contradiction]. eapply in_map_by_ids; [|exact Hin|exact Hj]. intros [l s]; reflexivity.
  - destruct (keep HWLOC_OBJ_GROUP); [|contradiction].
    repeat (apply in_app_or in Hin as [Hin|Hin]);
      try (destruct (xv_unit v), (xv_module v), (xv_tile v); try contradiction; unfold group_reqs in Hin;
           (eapply in_map_by_ids; [|exact Hin|exact Hj]); intros [l s]; reflexivity).
    unfold unknown_reqs in Hin. destruct (last_present v) as [o|]; [|contradiction]. destruct (xp_other (proc v o)) as [ol|]; [|contradiction].
    apply in_flat_map in Hin as (lv & _ & Hin). destruct (other_at (proc v o) lv) as [id|]; [|contradiction].
    destruct (id =? X86_UINT_MAX); [contradiction|]. eapply in_map_by_ids; [|exact Hin|exact Hj]. intros [l s]; reflexivity.
  - destruct (xv_die v && keep HWLOC_OBJ_DIE); [|contradiction]. eapply in_map_by_ids; [|exact Hin|exact Hj]. intros [l s]; reflexivity.
  - destruct (keep HWLOC_OBJ_CORE); [|contradiction]. eapply in_map_by_ids; [|exact Hin|exact Hj]. intros [l s]; reflexivity.
  - apply in_flat_map in Hin as (k & Hk & Hin). destruct (xp_present (proc v k)); [|contradiction]. destruct Hin as [ <- | [] ].
    cbn in Hj. rewrite mem_single in Hj. apply N.eqb_eq in Hj. subst j. apply in_indexes, Hk.
  - unfold x86_cache_reqs in Hin. apply in_flat_map in Hin as (lv & _ & Hin). apply in_flat_map in Hin as (ty & _ & Hin).
    unfold cache_reqs_at in Hin. destruct (cache_otype lv ty) as [ot|]; [|contradiction]. destruct (keep ot); [|contradiction].
    eapply in_map_by_ids; [|exact Hin|exact Hj]. intros [l s]; reflexivity.
Qed.

(* the hypothesis of DiscPresenceProofs.discovery_covers, when no PU was skipped (no restriction to a binding, every
   dump file readable) *)
Theorem x86_requests_have_singletons keep v rs :
  x86_requests keep v = Some rs -> (forall i, i < nbprocs v -> xp_present (proc v i) = true) ->
  forall r j, In r rs -> mem j (q_cs r) = true ->
  exists r', In r' rs /\ q_cs r' = bs_single j /\ q_type r' = HWLOC_OBJ_PU.
Proof.
  intros E Hall r j Hr Hj.
  pose proof (x86_request_bits_below_nbprocs keep v rs r j E Hr Hj) as Hlt.
  destruct (x86_pu_requests keep v rs E j) as [H | -> ]; [|contradiction].
  exists (simple_req HWLOC_OBJ_PU j (bs_single j)). split; [apply H; split; [exact Hlt|apply Hall, Hlt]|split; reflexivity].
Qed.
