(* C02: model of the public modifying calls whose logic is self-contained
   (hwloc/topology.c): hwloc_topology_insert_misc_object, hwloc_obj_add_info /
   hwloc_modify_infos / hwloc_obj_set_subtype, hwloc_topology_allow,
   hwloc_topology_alloc_group_object + hwloc_topology_insert_group_object /
   hwloc_topology_free_group_object, as  step : topo -> call -> topo * result.
   restrict (C08), distances (C13), memattrs (C14), cpukinds (C15) are other
   models; histories that contain them are decided on the C side by the
   executable invariants at the end of this file ([hist_check], [ud_check]) and
   by wf_check.  No proofs here (Topo/ApiProofs.v). *)
From Coq Require Import List NArith ZArith Bool String.
From HV Require Import Base.BSet Gen.Tables Text.TypeOrder Topo.Dump Topo.WFCheck Topo.Obj Topo.Insert.
Import ListNotations.
Local Open Scope N_scope.

(* ------------------------------------------------------------------ *)
(* state                                                               *)

(* what the dump payload [dobj] does not carry, keyed by gp_index *)
Record extra := mkExtra {
  x_name : option string;
  x_subtype : option string;
  x_infos : list (string * string);
  x_ud : bool;                 (* userdata != NULL *)
  x_dm : bool                  (* attr->group.dont_merge *)
}.
Definition extra0 : extra := mkExtra None None [] false false.

Record topo := mkTopo {
  m_root : obj;
  m_flags : N;                 (* topology->flags *)
  m_filters : list N;          (* topology->type_filter[] *)
  m_acpu : bset;               (* topology->allowed_cpuset *)
  m_anode : bset;              (* topology->allowed_nodeset *)
  m_next_gp : N;               (* topology->next_gp_index *)
  m_thissystem : bool;         (* state & IS_THISSYSTEM *)
  m_tinfos : list (string * string);   (* topology->infos *)
  m_extra : list (N * extra)
}.

Definition set_root (t : topo) (r : obj) : topo :=
  mkTopo r (m_flags t) (m_filters t) (m_acpu t) (m_anode t) (m_next_gp t) (m_thissystem t) (m_tinfos t) (m_extra t).
Definition set_allowed (t : topo) (c n : bset) : topo :=
  mkTopo (m_root t) (m_flags t) (m_filters t) c n (m_next_gp t) (m_thissystem t) (m_tinfos t) (m_extra t).
Definition set_next_gp (t : topo) (g : N) : topo :=
  mkTopo (m_root t) (m_flags t) (m_filters t) (m_acpu t) (m_anode t) g (m_thissystem t) (m_tinfos t) (m_extra t).
Definition set_tinfos (t : topo) (l : list (string * string)) : topo :=
  mkTopo (m_root t) (m_flags t) (m_filters t) (m_acpu t) (m_anode t) (m_next_gp t) (m_thissystem t) l (m_extra t).
Definition set_extra (t : topo) (e : list (N * extra)) : topo :=
  mkTopo (m_root t) (m_flags t) (m_filters t) (m_acpu t) (m_anode t) (m_next_gp t) (m_thissystem t) (m_tinfos t) e.

Definition get_extra (e : list (N * extra)) (g : N) : extra :=
  match find (fun p => fst p =? g) e with Some p => snd p | None => extra0 end.
Definition put_extra (e : list (N * extra)) (g : N) (x : extra) : list (N * extra) :=
  (g, x) :: filter (fun p => negb (fst p =? g)) e.
Definition del_extra (e : list (N * extra)) (g : N) : list (N * extra) :=
  filter (fun p => negb (fst p =? g)) e.

Definition dms_of (e : list (N * extra)) : list N := map fst (filter (fun p => x_dm (snd p)) e).

Definition has_gp (g : N) (o : obj) : bool := match o_gp (odata o) with Some x => x =? g | None => false end.
Definition find_obj (t : topo) (g : N) : option obj := find (has_gp g) (flatten (m_root t)).
Definition gps (o : obj) : list N := flat_map (fun c => match o_gp (odata c) with Some g => [g] | None => [] end) (flatten o).

Definition filter_is_none (t : topo) (ty : N) : bool :=
  nthN (m_filters t) ty HWLOC_TYPE_FILTER_KEEP_NONE =? HWLOC_TYPE_FILTER_KEEP_NONE.

(* ------------------------------------------------------------------ *)
(* calls and results                                                   *)

Inductive errno := EINVAL | ENOSYS.

Record gspec := mkG {
  g_cs : option bset; g_ccs : option bset; g_nds : option bset; g_cnds : option bset;
  g_dm : bool; g_kind : N; g_subkind : N; g_ud : bool; g_subtype : option string
}.

Inductive call :=
| CMisc (parent : N) (name : option string)             (* hwloc_topology_insert_misc_object(parent by gp_index, name) *)
| CInfoAdd (g : N) (name value : option string)         (* hwloc_obj_add_info *)
| CInfoMod (g : N) (op : N) (name value : option string)(* hwloc_modify_infos(&obj->infos, ...) *)
| CTInfoMod (op : N) (name value : option string)       (* hwloc_modify_infos(hwloc_topology_get_infos(), ...) *)
| CSubtype (g : N) (st : option string)                 (* hwloc_obj_set_subtype *)
| CAllow (flags : N) (cpuset nodeset : option bset)     (* hwloc_topology_allow *)
| CGroup (g : gspec)                                    (* alloc_group_object; fill; insert_group_object *)
| CGroupFree (g : gspec).                               (* alloc_group_object; fill; free_group_object *)

Inductive result :=
| RInt (v : Z)                       (* return value of an int function that succeeded *)
| RErr (e : errno)                   (* -1 / NULL with this errno *)
| RNull                              (* NULL without a documented errno (conflicting Group) *)
| RObj (g : option N) (is_new : bool)(* object returned: its gp_index; is_new = the object passed in *)
| RNoObj                             (* the object reference does not name an object of the topology: call not made *)
| RUnmodelled.                       (* outcome depends on the OS binding hooks *)

(* ------------------------------------------------------------------ *)
(* tree updates                                                        *)

(* apply f to the object whose gp_index is g (objects are unique by gp_index under Inv) *)
Fixpoint map_gp (g : N) (f : obj -> obj) (o : obj) : obj :=
  match o with
  | Obj d n m i x =>
      let o' := Obj d
        ((fix go (l : list obj) : list obj := match l with [] => [] | c :: tl => map_gp g f c :: go tl end) n)
        ((fix go (l : list obj) : list obj := match l with [] => [] | c :: tl => map_gp g f c :: go tl end) m)
        ((fix go (l : list obj) : list obj := match l with [] => [] | c :: tl => map_gp g f c :: go tl end) i)
        ((fix go (l : list obj) : list obj := match l with [] => [] | c :: tl => map_gp g f c :: go tl end) x) in
      if has_gp g o then f o' else o'
  end.

Definition set_sets (d : dobj) (cs ccs nds cnds : option bset) : dobj :=
  mkDobj (o_id d) (o_type d) (o_depth d) (o_os d) (o_gp d) (o_parent d) (o_first d) (o_last d)
         (o_prev_sib d) (o_next_sib d) (o_prev_cousin d) (o_next_cousin d)
         (o_arity d) (o_marity d) (o_iarity d) (o_xarity d) (o_rank d) (o_lidx d) (o_carray d)
         (o_nch d) (o_mch d) (o_ich d) (o_xch d) cs ccs nds cnds (o_tm d) (o_lm d)
         (o_cache_depth d) (o_cache_type d) (o_group_depth d) (o_group_kind d) (o_group_subkind d)
         (o_pci_class d) (o_os_types d).
Definition set_gp (d : dobj) (g : option N) : dobj :=
  mkDobj (o_id d) (o_type d) (o_depth d) (o_os d) g (o_parent d) (o_first d) (o_last d)
         (o_prev_sib d) (o_next_sib d) (o_prev_cousin d) (o_next_cousin d)
         (o_arity d) (o_marity d) (o_iarity d) (o_xarity d) (o_rank d) (o_lidx d) (o_carray d)
         (o_nch d) (o_mch d) (o_ich d) (o_xch d) (o_cs d) (o_ccs d) (o_nds d) (o_cnds d) (o_tm d) (o_lm d)
         (o_cache_depth d) (o_cache_type d) (o_group_depth d) (o_group_kind d) (o_group_subkind d)
         (o_pci_class d) (o_os_types d).
Definition set_tm (d : dobj) (tm : N) : dobj :=
  mkDobj (o_id d) (o_type d) (o_depth d) (o_os d) (o_gp d) (o_parent d) (o_first d) (o_last d)
         (o_prev_sib d) (o_next_sib d) (o_prev_cousin d) (o_next_cousin d)
         (o_arity d) (o_marity d) (o_iarity d) (o_xarity d) (o_rank d) (o_lidx d) (o_carray d)
         (o_nch d) (o_mch d) (o_ich d) (o_xch d) (o_cs d) (o_ccs d) (o_nds d) (o_cnds d) tm (o_lm d)
         (o_cache_depth d) (o_cache_type d) (o_group_depth d) (o_group_kind d) (o_group_subkind d)
         (o_pci_class d) (o_os_types d).

(* a freshly allocated object: hwloc_alloc_setup_object(type, HWLOC_UNKNOWN_INDEX), gp_index = next_gp_index++ ;
   pointer-like fields are derived data (recomputed by the dump), left null here *)
Definition fresh_dobj (ty gp : N) (cs ccs nds cnds : option bset) (gkind gsub : Z) : dobj :=
  mkDobj 0 ty 0%Z HWLOC_UNKNOWN_INDEX (Some gp) PNull PNull PNull PNull PNull PNull PNull
         0 0 0 0 0 0 None [] [] [] [] cs ccs nds cnds 0 0
         (-1)%Z (-1)%Z (if ty =? HWLOC_OBJ_GROUP then 0%Z else (-1)%Z) gkind gsub (-1)%Z (-1)%Z.

(* ------------------------------------------------------------------ *)
(* hwloc_topology_insert_misc_object (topology.c:2192)                 *)

Definition step_misc (t : topo) (parent : N) (name : option string) : topo * result :=
  if filter_is_none t HWLOC_OBJ_MISC then (t, RErr EINVAL)
  else match find_obj t parent with
       | None => (t, RNoObj)
       | Some _ =>
           let g := m_next_gp t in
           let mo := Obj (fresh_dobj HWLOC_OBJ_MISC g None None None None (-1)%Z (-1)%Z) [] [] [] [] in
           (* hwloc_insert_object_by_parent: appended to the end of the Misc list *)
           let r := map_gp parent (fun p => match p with Obj d n m i x => Obj d n m i (x ++ [mo]) end) (m_root t) in
           let t1 := set_next_gp (set_root t r) (g + 1) in
           (set_extra t1 (put_extra (m_extra t1) g (mkExtra name None [] false false)), RObj (Some g) true)
       end.

(* ------------------------------------------------------------------ *)
(* infos (topology.c:446-600)                                          *)

Definition str_eqb (a b : string) : bool := if string_dec a b then true else false.

Definition infos_add (l : list (string * string)) (n v : string) := l ++ [(n, v)].
Definition infos_has (l : list (string * string)) (n v : string) : bool :=
  existsb (fun p => str_eqb (fst p) n && str_eqb (snd p) v) l.
(* hwloc__replace_infos: first match gets the value, later matches are removed *)
Fixpoint infos_replace (l : list (string * string)) (n v : string) (found : bool) : list (string * string) :=
  match l with
  | [] => []
  | p :: tl => if str_eqb (fst p) n
               then (if found then infos_replace tl n v true else (n, v) :: infos_replace tl n v true)
               else p :: infos_replace tl n v found
  end.
Definition infos_count (l : list (string * string)) (n : string) : nat :=
  List.length (filter (fun p => str_eqb (fst p) n) l).
Definition infos_match (n v : option string) (p : string * string) : bool :=
  (match n with Some a => str_eqb (fst p) a | None => true end) &&
  (match v with Some b => str_eqb (snd p) b | None => true end).

(* hwloc_modify_infos: returns (new infos, result) *)
Definition modify_infos (l : list (string * string)) (op : N) (n v : option string)
  : list (string * string) * result :=
  if op =? HWLOC_MODIFY_INFOS_OP_ADD then
    match n, v with Some a, Some b => (infos_add l a b, RInt 1) | _, _ => (l, RErr EINVAL) end
  else if op =? HWLOC_MODIFY_INFOS_OP_ADD_UNIQUE then
    match n, v with
    | Some a, Some b => if infos_has l a b then (l, RInt 0) else (infos_add l a b, RInt 1)
    | _, _ => (l, RErr EINVAL) end
  else if op =? HWLOC_MODIFY_INFOS_OP_REPLACE then
    match n, v with
    | Some a, Some b =>
        match infos_count l a with
        | O => (infos_add l a b, RInt 1)
        | k => (infos_replace l a b false, RInt (1 + Z.of_nat k))
        end
    | _, _ => (l, RErr EINVAL) end
  else if op =? HWLOC_MODIFY_INFOS_OP_REMOVE then
    let keep := filter (fun p => negb (infos_match n v p)) l in
    (keep, RInt (Z.of_nat (List.length l - List.length keep)))
  else (l, RErr EINVAL).

Definition set_infos (x : extra) (l : list (string * string)) : extra :=
  mkExtra (x_name x) (x_subtype x) l (x_ud x) (x_dm x).
Definition set_subtype (x : extra) (s : option string) : extra :=
  mkExtra (x_name x) s (x_infos x) (x_ud x) (x_dm x).

Definition step_info_mod (t : topo) (g : N) (op : N) (n v : option string) : topo * result :=
  match find_obj t g with
  | None => (t, RNoObj)
  | Some _ =>
      let x := get_extra (m_extra t) g in
      match modify_infos (x_infos x) op n v with
      | (_, RErr e) => (t, RErr e)
      | (l, r) => (set_extra t (put_extra (m_extra t) g (set_infos x l)), r)
      end
  end.

Definition step_subtype (t : topo) (g : N) (s : option string) : topo * result :=
  match find_obj t g with
  | None => (t, RNoObj)
  | Some _ =>
      let x := get_extra (m_extra t) g in
      (set_extra t (put_extra (m_extra t) g (set_subtype x s)), RInt 0)
  end.

(* ------------------------------------------------------------------ *)
(* hwloc_topology_allow (topology.c:4578)                              *)

Definition ALLOW_ALLFLAGS : N := N.lor HWLOC_ALLOW_FLAG_ALL (N.lor HWLOC_ALLOW_FLAG_LOCAL_RESTRICTIONS HWLOC_ALLOW_FLAG_CUSTOM).

Definition root_set (t : topo) (f : dobj -> option bset) : bset := oset (f (odata (m_root t))).

Definition step_allow (t : topo) (flags : N) (cpuset nodeset : option bset) : topo * result :=
  if N.land (m_flags t) HWLOC_TOPOLOGY_FLAG_INCLUDE_DISALLOWED =? 0 then (t, RErr EINVAL)
  else if negb (N.ldiff flags ALLOW_ALLFLAGS =? 0) then (t, RErr EINVAL)
  else if flags =? HWLOC_ALLOW_FLAG_ALL then
    match cpuset, nodeset with
    | None, None => (set_allowed t (root_set t o_cs) (root_set t o_nds), RInt 0)
    | _, _ => (t, RErr EINVAL)
    end
  else if flags =? HWLOC_ALLOW_FLAG_LOCAL_RESTRICTIONS then
    match cpuset, nodeset with
    | None, None => if m_thissystem t then (t, RUnmodelled) else (t, RErr EINVAL)
    | _, _ => (t, RErr EINVAL)
    end
  else if flags =? HWLOC_ALLOW_FLAG_CUSTOM then
    (* both sets are checked before anything is modified *)
    let cpu_ok := match cpuset with Some c => bs_intersects (root_set t o_cs) c | None => true end in
    let node_ok := match nodeset with Some nd => bs_intersects (root_set t o_nds) nd | None => true end in
    if cpu_ok && node_ok then
      (set_allowed t (match cpuset with Some c => bs_inter (root_set t o_cs) c | None => m_acpu t end)
                     (match nodeset with Some nd => bs_inter (root_set t o_nds) nd | None => m_anode t end), RInt 0)
    else (t, RErr EINVAL)
  else (t, RErr EINVAL).

(* ------------------------------------------------------------------ *)
(* Groups (topology.c:1994-2190)                                       *)

Definition oand (a : option bset) (b : option bset) : option bset :=
  match a with Some s => Some (bs_inter s (oset b)) | None => None end.
Definition none_or_empty (a : option bset) : bool :=
  match a with Some s => bs_is_empty s | None => true end.

(* objects of the NUMA level: DFS order, as hwloc_get_next_obj_by_type walks the special level *)
Definition numa_nodes (r : obj) : list obj := special_level r HWLOC_OBJ_NUMANODE.

(* hwloc_obj_add_children_sets: OR every normal child's defined sets into the object's *)
Definition add_set (dst src : option bset) : option bset :=
  match src with
  | Some s => Some (bs_union (oset dst) s)
  | None => dst
  end.
Definition add_children_sets (o : obj) : obj :=
  match o with
  | Obj d n m i x =>
      let d' := fold_left (fun acc c =>
                  set_sets acc (add_set (o_cs acc) (o_cs (odata c))) (add_set (o_ccs acc) (o_ccs (odata c)))
                               (add_set (o_nds acc) (o_nds (odata c))) (add_set (o_cnds acc) (o_cnds (odata c)))) n d in
      Obj d' n m i x
  end.
(* propagate_total_memory (topology.c): every object's total_memory recomputed bottom-up from the NUMA
   nodes' local_memory, through normal and memory children (nothing under I/O or Misc) *)
Fixpoint propagate_tm (o : obj) : obj :=
  match o with
  | Obj d n m i x =>
      let n' := (fix go (l : list obj) : list obj := match l with [] => [] | c :: tl => propagate_tm c :: go tl end) n in
      let m' := (fix go (l : list obj) : list obj := match l with [] => [] | c :: tl => propagate_tm c :: go tl end) m in
      Obj (set_tm d (sum_N (map (fun c => o_tm (odata c)) n') + sum_N (map (fun c => o_tm (odata c)) m')
                     + (if o_type d =? HWLOC_OBJ_NUMANODE then o_lm d else 0))) n' m' i x
  end.

Definition group_dobj (t : topo) (g : gspec) (cs ccs nds cnds : option bset) : dobj :=
  fresh_dobj HWLOC_OBJ_GROUP (m_next_gp t) cs ccs nds cnds (Z.of_N (g_kind g)) (Z.of_N (g_subkind g)).

Definition gextra (g : gspec) : extra := mkExtra None (g_subtype g) [] (g_ud g) (g_dm g).

(* post-insertion fix-up of the returned object (topology.c:2166-2182) *)
Definition finish_group (r : obj) (res : N) : obj :=
  propagate_tm (map_gp res add_children_sets r).

Definition step_group (t : topo) (g : gspec) : topo * result :=
  (* alloc consumed one gp_index whatever happens next *)
  let t1 := set_next_gp t (m_next_gp t + 1) in
  if filter_is_none t HWLOC_OBJ_GROUP then (t1, RErr EINVAL)
  else
    let rd := odata (m_root t) in
    (* clipping to the root sets *)
    let cs := oand (g_cs g) (o_cs rd) in
    let ccs := oand (g_ccs g) (o_ccs rd) in
    let nds := oand (g_nds g) (o_nds rd) in
    let cnds := oand (g_cnds g) (o_cnds rd) in
    let build :=
      if none_or_empty cs && none_or_empty ccs then
        (* build the cpuset from the nodeset *)
        if none_or_empty nds && none_or_empty cnds then None
        else
          let nodeset := match nds with Some s => s | None => oset cnds end in
          Some (Some (fold_left (fun acc nu => if mem (o_os (odata nu)) nodeset then bs_union acc (oset (o_cs (odata nu))) else acc)
                                (numa_nodes (m_root t)) (oset cs)))
      else Some cs in
    match build with
    | None => (t1, RErr EINVAL)
    | Some cs' =>
        let d := group_dobj t g cs' ccs nds cnds in
        let newo := Obj d [] [] [] [] in
        match cmp_sets d rd with
        | INCLUDED =>
            let '(r', out) := insert_by_cpuset (dms_of (m_extra t)) (g_dm g) (m_root t) newo in
            match out with
            | OFail => (set_root t1 r', RNull)
            | OInserted =>
                let t2 := set_root t1 (finish_group r' (m_next_gp t)) in
                (set_extra t2 (put_extra (m_extra t2) (m_next_gp t) (gextra g)), RObj (Some (m_next_gp t)) true)
            | OMergedKeep into | OMergedEqual into =>
                (* merged: fix-up only when the survivor is a Group *)
                match into with
                | Some ig =>
                    match find_obj t ig with
                    | Some old => if otype old =? HWLOC_OBJ_GROUP
                                  then (set_root t1 (finish_group r' ig), RObj into false)
                                  else (set_root t1 r', RObj into false)
                    | None => (set_root t1 r', RObj into false)
                    end
                | None => (set_root t1 r', RObj into false)
                end
            | OReplaced =>
                (* hwloc_replace_linked_object since 6dba2e5: the linked object keeps its gp_index but now carries
                   everything else of the new Group (kind, subkind, dont_merge, userdata, subtype, infos); it is
                   returned.  Insert.replace_payload gives the node the whole payload of the new Group (gp_index
                   m_next_gp t): the old gp_index, the one that is in the tree before and not after, is put back here *)
                let ng := m_next_gp t in
                match find (fun g0 => negb (existsb (N.eqb g0) (gps r'))) (gps (m_root t)) with
                | Some ig =>
                    let r2 := map_gp ng (fun o => match o with Obj d n m i x => Obj (set_gp d (Some ig)) n m i x end) r' in
                    let t2 := set_root t1 (finish_group r2 ig) in
                    (set_extra t2 (put_extra (m_extra t2) ig (gextra g)), RObj (Some ig) false)
                | None => (set_root t1 r', RObj None false)
                end
            end
        | _ => (* just merge root *) (t1, RObj (o_gp rd) false)
        end
    end.

Definition step_group_free (t : topo) (g : gspec) : topo * result :=
  (set_next_gp t (m_next_gp t + 1), RInt 0).

(* ------------------------------------------------------------------ *)
(* step                                                                *)

Definition step (t : topo) (c : call) : topo * result :=
  match c with
  | CMisc p name => step_misc t p name
  | CInfoAdd g n v => step_info_mod t g HWLOC_MODIFY_INFOS_OP_ADD n v
      (* the inline hwloc_obj_add_info returns hwloc_modify_infos(..., OP_ADD, ...) unchanged: 1 on success
         (its documentation says 0) *)
  | CInfoMod g op n v => step_info_mod t g op n v
  | CTInfoMod op n v => match modify_infos (m_tinfos t) op n v with
                        | (_, RErr e) => (t, RErr e)
                        | (l, r) => (set_tinfos t l, r)
                        end
  | CSubtype g s => step_subtype t g s
  | CAllow f c n => step_allow t f c n
  | CGroup g => step_group t g
  | CGroupFree g => step_group_free t g
  end.

Definition run (t : topo) (cs : list call) : topo := fold_left (fun t c => fst (step t c)) cs t.

(* ------------------------------------------------------------------ *)
(* executable history invariants over two consecutive dumps of the C side *)

Definition find_by_gp (d : dump) (g : N) : option dobj :=
  find (fun o => match o_gp o with Some x => x =? g | None => false end) (t_objs d).
Definition dump_gps (d : dump) : list N :=
  flat_map (fun o => match o_gp o with Some g => [g] | None => [] end) (t_objs d).
Definition max_gp (d : dump) : N := fold_left N.max (dump_gps d) 0.

(* [may_remove] = the call is a successful hwloc_topology_restrict (the only call that removes objects) *)
Definition hist_check (before after : dump) (may_remove : bool) : list viol :=
  (* an object keeps its identity: same gp_index => same type and os_index *)
  flat_map (fun o => match o_gp o with
                     | Some g => match find_by_gp before g with
                                 | Some o' => chk ((o_type o =? o_type o') && (o_os o =? o_os o')) "gp-index-moved-to-other-object" g
                                 | None => chk (max_gp before <? g) "new-object-gp-index-not-fresh" g
                                 end
                     | None => [] end) (t_objs after) ++
  (* objects only disappear through restrict *)
  (if may_remove then [] else
   flat_map (fun g => chk (match find_by_gp after g with Some _ => true | None => false end) "object-vanished-without-restrict" g)
            (dump_gps before)).

(* a dont_merge Group is never merged away (the keep-structure pass of restrict must skip it): it is a
   violation when such a Group vanished although one of its normal children survives *)
Definition dm_vanish_check (before after : dump) (dms : list N) : list viol :=
  flat_map (fun o => match o_gp o, deref before (o_parent o) with
                     | Some g, Some p =>
                         match o_gp p with
                         | Some pg =>
                             chk (negb ((o_type p =? HWLOC_OBJ_GROUP) && existsb (N.eqb pg) dms && is_normal (o_type o)
                                        && is_some (find_by_gp after g) && negb (is_some (find_by_gp after pg))))
                                 "dontmerge-group-merged-away" pg
                         | None => []
                         end
                     | _, _ => []
                     end) (t_objs before).

(* attr->group.depth as hwloc_set_group_depth() assigns it: the k-th normal level made of Groups has depth k
   (hwloc_get_type_depth_with_attr relies on it) *)
Definition group_depth_check (d : dump) : list viol :=
  let glevels := filter (fun l => (l_type l =? Z.of_N HWLOC_OBJ_GROUP)%Z) (normal_levels d) in
  flat_map (fun p => flat_map (fun o => chk (o_group_depth o =? Z.of_nat (fst p))%Z "group-depth-stale" (o_id o))
                              (derefs d (l_ids (snd p))))
           (combine (seq 0 (List.length glevels)) glevels).

(* userdata presence per gp_index before/after *)
Definition ud_check (before after : list (N * bool)) : list viol :=
  flat_map (fun p => match find (fun q => fst q =? fst p) before with
                     | Some q => chk (Bool.eqb (snd q) (snd p)) "userdata-changed" (fst p)
                     | None => []
                     end) after.

(* ------------------------------------------------------------------ *)
(* correspondence: what the model predicts for the C after-dump        *)

(* (gp, parent gp, type, cpuset, complete_cpuset, nodeset, complete_nodeset) in DFS order *)
Definition orow := (option N * option N * N * option bset * option bset * option bset * option bset)%type.

Fixpoint rows (parent : option N) (o : obj) : list orow :=
  match o with
  | Obj d n m i x =>
      (o_gp d, parent, o_type d, o_cs d, o_ccs d, o_nds d, o_cnds d) ::
      (fix go (l : list obj) : list orow := match l with [] => [] | c :: tl => rows (o_gp d) c ++ go tl end) n ++
      (fix go (l : list obj) : list orow := match l with [] => [] | c :: tl => rows (o_gp d) c ++ go tl end) m ++
      (fix go (l : list obj) : list orow := match l with [] => [] | c :: tl => rows (o_gp d) c ++ go tl end) i ++
      (fix go (l : list obj) : list orow := match l with [] => [] | c :: tl => rows (o_gp d) c ++ go tl end) x
  end.

Definition opt_N_eqb (a b : option N) : bool :=
  match a, b with Some x, Some y => x =? y | None, None => true | _, _ => false end.
Definition orow_eqb (a b : orow) : bool :=
  match a, b with
  | (g1, p1, t1, a1, b1, c1, d1), (g2, p2, t2, a2, b2, c2, d2) =>
      opt_N_eqb g1 g2 && opt_N_eqb p1 p2 && (t1 =? t2) && opt_bset_eqb a1 a2 && opt_bset_eqb b1 b2
      && opt_bset_eqb c1 c2 && opt_bset_eqb d1 d2
  end.
Fixpoint rows_diff (a b : list orow) (k : N) : option N :=
  match a, b with
  | [], [] => None
  | x :: a', y :: b' => if orow_eqb x y then rows_diff a' b' (k + 1) else Some k
  | _, _ => Some k
  end.

Definition topo_of_dump (d : dump) (next_gp : N) (thissystem : bool) (tinfos : list (string * string))
                        (ex : list (N * extra)) : option topo :=
  match tree_of_dump d with
  | Some r => Some (mkTopo r (t_flags d) (t_filters d) (oset (t_acpu d)) (oset (t_anode d)) next_gp thissystem tinfos ex)
  | None => None
  end.

(* first differing DFS position between the model state and the C dump: tree rows, then allowed sets (position 1000000/1000001) *)
Definition compare_with_dump (t : topo) (d : dump) : option N :=
  match tree_of_dump d with
  | None => Some 999999
  | Some r =>
      match rows_diff (rows None (m_root t)) (rows None r) 0 with
      | Some k => Some k
      | None => if negb (opt_bset_eqb (Some (m_acpu t)) (t_acpu d)) then Some 1000000
                else if negb (opt_bset_eqb (Some (m_anode t)) (t_anode d)) then Some 1000001
                else None
      end
  end.

Definition tm_of (t : topo) (g : N) : option N :=
  match find_obj t g with Some o => Some (o_tm (odata o)) | None => None end.
