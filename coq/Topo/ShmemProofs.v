(* C19 — lemmas about Topo/Shmem.v *)
From Coq Require Import List NArith Bool Lia.
From HV Require Import Gen.Tables Topo.Heap Topo.Dup Topo.DupProofs Topo.Shmem.
Import ListNotations.
Local Open Scope N_scope.

(* any property of the allocation state preserved by one request is preserved by the whole duplication *)
Lemma assign_preserves ksz al (I : rstate al -> Prop) :
  (forall n s a s', alloc al n s = (a, s') -> I s -> I s') ->
  forall t s, I s -> I (snd (assign ksz al t s)).
Proof.
  intros Hstep t. induction t as [k n cs IH] using tree_ind2. intros s Hs.
  rewrite assign_unfold. destruct (alloc al (ksz k n) s) as [a s1] eqn:Ea.
  assert (H1 : I s1) by (eapply Hstep; eauto). clear Ea Hs.
  destruct (assign_cells ksz al cs s1) as [acs s2] eqn:Ec. simpl.
  revert s1 acs s2 Ec H1. induction cs as [|c r IHr]; intros s1 acs s2 Ec H1.
  - simpl in Ec. inversion Ec; subst. exact H1.
  - inversion IH as [|? ? Hc Hr]; subst. simpl in Ec.
    destruct (assign_cell ksz al c s1) as [ac sa] eqn:E1. destruct (assign_cells ksz al r sa) as [acs' sb] eqn:E2.
    inversion Ec; subst; clear Ec. eapply (IHr Hr); [exact E2|].
    destruct c; simpl in E1; try (inversion E1; subst; exact H1).
    + destruct (alloc al 0 s1) as [a0 s0] eqn:E0. inversion E1; subst. eapply Hstep; eauto.
    + destruct (assign ksz al t s1) as [t1 s1'] eqn:E0. inversion E1; subst. unfold Pc in Hc.
      specialize (Hc s1 H1). rewrite E0 in Hc. exact Hc.
Qed.

Lemma sumf_rev f l : sumf f (rev l) = sumf f l.
Proof. induction l as [|x r IH]; [reflexivity|]. simpl. rewrite sumf_app, IH. simpl. lia. Qed.

Lemma sum_aligned_sumf l : sum_aligned l = sumf align l.
Proof. reflexivity. Qed.

Lemma align_ge n : n <= align n.
Proof. apply align_up_ge. vm_compute. reflexivity. Qed.

(* one request of the write allocator *)
Lemma write_alloc_inv n (s : rstate write_allocator) a s' :
  alloc write_allocator n s = (a, s') -> a = fst s /\ fst s' = fst s + align n /\ snd s' = (n, a) :: snd s.
Proof. unfold alloc. simpl. intro H. inversion H; subst. simpl. auto. Qed.

Lemma write_chain lo t s : chain lo (snd s) (fst s) -> let s' := snd (assign ksize write_allocator t s) in chain lo (snd s') (fst s').
Proof.
  intro H. apply (assign_preserves ksize write_allocator (fun s => chain lo (snd s) (fst s))); [|exact H].
  intros n s0 a s0' E H0. apply write_alloc_inv in E. destruct E as (-> & E2 & E3). rewrite E2, E3. simpl. split; [lia|exact H0].
Qed.

Lemma write_cursor c0 t s :
  fst s = c0 + sum_aligned (map fst (snd s)) ->
  let s' := snd (assign ksize write_allocator t s) in fst s' = c0 + sum_aligned (map fst (snd s')).
Proof.
  intro H. apply (assign_preserves ksize write_allocator (fun s => fst s = c0 + sum_aligned (map fst (snd s)))); [|exact H].
  intros n s0 a s0' E H0. apply write_alloc_inv in E. destruct E as (-> & E2 & E3). rewrite E2, E3, H0. simpl. lia.
Qed.

Lemma chain_bounds lo l : forall c, chain lo l c -> lo <= c /\ forall n a, In (n, a) l -> lo <= a /\ a + n <= c.
Proof.
  induction l as [|[n0 a0] r IH]; intros c H; simpl in H.
  - split; [exact H|intros ? ? []].
  - destruct H as [H1 H2]. destruct (IH _ H2) as [L B]. pose proof (align_ge n0). split; [lia|].
    intros n a [E|I]; [inversion E; subst; lia|]. destruct (B _ _ I). lia.
Qed.

(* the cursor after writing [t] at [base]: header_length + the aligned sizes of [sizes t] *)
Lemma cursor_end_eq t base : cursor_end t base = base + SHMEM_HEADER_LENGTH + sum_aligned (sizes ksize t).
Proof.
  unfold cursor_end, write_run.
  pose proof (write_cursor (base + SHMEM_HEADER_LENGTH) t (write_start base)) as H. cbv zeta in H.
  rewrite H by (unfold write_start; simpl; lia).
  destruct (assign ksize write_allocator t (write_start base)) as [t' s'] eqn:E. simpl.
  apply assign_erase_trace in E. destruct E as [_ E]. unfold log_sizes in E. simpl in E. rewrite E, app_nil_r.
  rewrite !sum_aligned_sumf, sumf_rev. reflexivity.
Qed.

Lemma header_length_is_sizeof : SHMEM_HEADER_LENGTH = SIZEOF_STRUCT_HWLOC_SHMEM_HEADER.
Proof. vm_compute. reflexivity. Qed.

Lemma get_length_ge sizes : SHMEM_HEADER_LENGTH + sum_aligned sizes <= get_length sizes.
Proof. unfold get_length. rewrite header_length_is_sizeof. apply align_up_ge. vm_compute. reflexivity. Qed.

(* length_suffices: with the length computed from the same tree (any allocator in the counting pass requests the same
   sizes: alloc_sequence_parametric), every block written lies inside [base + header_length, base + length) and the
   blocks follow each other without overlap *)
Lemma hw_length_suffices t base :
  let s' := snd (write_run t base) in
  cursor_end t base <= base + get_length (sizes ksize t) /\
  chain (base + SHMEM_HEADER_LENGTH) (snd s') (fst s') /\
  (forall n a, In (n, a) (snd s') -> base + SHMEM_HEADER_LENGTH <= a /\ a + n <= base + get_length (sizes ksize t)).
Proof.
  intro s'. pose proof (get_length_ge (sizes ksize t)) as G. pose proof (cursor_end_eq t base) as C.
  assert (CH : chain (base + SHMEM_HEADER_LENGTH) (snd s') (fst s')).
  { apply (write_chain (base + SHMEM_HEADER_LENGTH) t (write_start base)). unfold write_start. cbn [fst snd chain]. apply N.le_refl. }
  split; [lia|split; [exact CH|]].
  intros n a I. destruct (chain_bounds _ _ _ CH) as [_ B]. destruct (B _ _ I) as [B1 B2].
  assert (C' : fst s' = base + SHMEM_HEADER_LENGTH + sum_aligned (sizes ksize t)) by exact C.
  split; [exact B1|lia].
Qed.

(* exact byte counts: what write() uses, and get_length as the page round-up of exactly that *)
Lemma align_up_lt A n : 0 < A -> align_up A n < n + A.
Proof.
  intro HA. unfold align_up. pose proof (N.div_mod (n + A - 1) A ltac:(lia)) as D.
  pose proof (N.mod_lt (n + A - 1) A ltac:(lia)) as M.
  remember ((n + A - 1) / A) as q. remember ((n + A - 1) mod A) as r. clear Heqq Heqr. nia.
Qed.
Lemma align_up_mult A n : 0 < A -> align_up A n mod A = 0.
Proof. intro HA. unfold align_up. apply N.mod_mul. lia. Qed.
Lemma hw_write_used_exact t base :
  cursor_end t base - base = SHMEM_HEADER_LENGTH + sum_aligned (sizes ksize t).
Proof. rewrite cursor_end_eq. lia. Qed.
Lemma hw_get_length_exact sizes :
  let need := SIZEOF_STRUCT_HWLOC_SHMEM_HEADER + sum_aligned sizes in
  get_length sizes = align_up SHMEM_PAGESIZE need /\
  need <= get_length sizes < need + SHMEM_PAGESIZE /\ get_length sizes mod SHMEM_PAGESIZE = 0 /\
  need = SHMEM_HEADER_LENGTH + sum_aligned sizes.
Proof.
  intro need. assert (HP : 0 < SHMEM_PAGESIZE) by (vm_compute; reflexivity).
  unfold get_length. fold need. split; [reflexivity|]. split; [split; [apply align_up_ge; exact HP|apply align_up_lt; exact HP]|].
  split; [apply align_up_mult; exact HP|]. unfold need. rewrite header_length_is_sizeof. reflexivity.
Qed.

(* the counting pass: whatever allocator hands out the blocks, the length accumulated is sum_aligned (sizes t) *)
Lemma hw_counting_pass al t (s : rstate al) :
  sum_aligned (trace al (snd (assign ksize al t s))) = sum_aligned (trace al s) + sum_aligned (sizes ksize t).
Proof.
  destruct (assign ksize al t s) as [t' s'] eqn:E. simpl. rewrite (trace_assign _ _ _ _ _ _ E).
  rewrite !sum_aligned_sumf, sumf_app. reflexivity.
Qed.

Lemma hw_align_table : align_table_ok = true.
Proof. vm_compute. reflexivity. Qed.

(* ---------------------------------------------------------------- adoption *)
Lemma hw_adopt_accepts addr len :
  adopt_check 0 (write_header addr len) addr len (Some addr) HWLOC_TOPOLOGY_ABI = AdoptOk.
Proof. unfold adopt_check, write_header. simpl. rewrite !N.eqb_refl. reflexivity. Qed.

Lemma hw_adopt_rejects flags hdr addr len res abi :
  (flags <> 0 -> adopt_check flags hdr addr len res abi = AdoptErr EINVAL_) /\
  (flags = 0 -> (h_version hdr <> HWLOC_SHMEM_HEADER_VERSION \/ h_length hdr <> SHMEM_HEADER_LENGTH \/ h_address hdr <> addr \/ h_mmap_length hdr <> len) ->
     adopt_check flags hdr addr len res abi = AdoptErr EINVAL_) /\
  (flags = 0 -> hdr = write_header addr len -> forall a, res = Some a -> a <> addr -> adopt_check flags hdr addr len res abi = AdoptErr EBUSY_) /\
  (flags = 0 -> hdr = write_header addr len -> res = Some addr -> abi <> HWLOC_TOPOLOGY_ABI -> adopt_check flags hdr addr len res abi = AdoptErr EINVAL_) /\
  (adopt_check flags hdr addr len res abi = AdoptOk ->
     flags = 0 /\ hdr = write_header addr len /\ res = Some addr /\ abi = HWLOC_TOPOLOGY_ABI).
Proof.
  unfold adopt_check. repeat split.
  - intro H. apply N.eqb_neq in H. rewrite H. reflexivity.
  - intros -> H. simpl.
    destruct (N.eqb_spec (h_version hdr) HWLOC_SHMEM_HEADER_VERSION), (N.eqb_spec (h_length hdr) SHMEM_HEADER_LENGTH),
             (N.eqb_spec (h_address hdr) addr), (N.eqb_spec (h_mmap_length hdr) len); simpl; try reflexivity. tauto.
  - intros -> -> a -> Ha. simpl. rewrite !N.eqb_refl. simpl. apply N.eqb_neq in Ha. rewrite Ha. reflexivity.
  - intros -> -> -> Ha. simpl. rewrite !N.eqb_refl. simpl. apply N.eqb_neq in Ha. rewrite Ha. reflexivity.
  - destruct (N.eqb_spec flags 0); [assumption|discriminate].
  - destruct (N.eqb_spec flags 0); [|discriminate]. simpl in H.
    destruct (N.eqb_spec (h_version hdr) HWLOC_SHMEM_HEADER_VERSION), (N.eqb_spec (h_length hdr) SHMEM_HEADER_LENGTH),
             (N.eqb_spec (h_address hdr) addr), (N.eqb_spec (h_mmap_length hdr) len); simpl in H; try discriminate.
    destruct hdr; simpl in *; subst. reflexivity.
  - destruct (N.eqb_spec flags 0); [|discriminate]. simpl in H.
    destruct ((h_version hdr =? HWLOC_SHMEM_HEADER_VERSION) && (h_length hdr =? SHMEM_HEADER_LENGTH) && (h_address hdr =? addr) && (h_mmap_length hdr =? len)); simpl in H; [|discriminate].
    destruct res as [a|]; [|discriminate]. destruct (N.eqb_spec a addr); simpl in H; [subst; reflexivity|discriminate].
  - destruct (N.eqb_spec flags 0); [|discriminate]. simpl in H.
    destruct ((h_version hdr =? HWLOC_SHMEM_HEADER_VERSION) && (h_length hdr =? SHMEM_HEADER_LENGTH) && (h_address hdr =? addr) && (h_mmap_length hdr =? len)); simpl in H; [|discriminate].
    destruct res as [a|]; [|discriminate]. destruct (a =? addr); simpl in H; [|discriminate].
    destruct (N.eqb_spec abi HWLOC_TOPOLOGY_ABI); [assumption|discriminate].
Qed.

(* ---------------------------------------------------------------- calls on the adopted copy *)
(* guarded modifiers: EPERM, nothing written *)
Lemma hw_adopted_modifiers_eperm_identity inc c :
  has_guard c = true -> adopted_call inc c = Refused EPERM_ /\ call_kind c = Modifier.
Proof. destruct c; simpl; intro H; try discriminate; split; reflexivity. Qed.

(* every structure-modifying call that receives the topology is refused with EPERM *)
Lemma hw_adopted_modifiers_eperm_partial inc c :
  call_kind c = Modifier -> c <> CObjAddInfo -> adopted_call inc c = Refused EPERM_.
Proof. destruct c; simpl; intros H1 H2; try discriminate; try reflexivity. exfalso; apply H2; reflexivity. Qed.
(* REFUTED for the one modifier that has no topology argument: hwloc_obj_add_info reallocs the mapped infos array *)
Lemma hw_adopted_modifiers_refuted :
  exists c, call_kind c = Modifier /\ adopted_call true c = Fault.
Proof. exists CObjAddInfo. split; reflexivity. Qed.

(* no consulting or permitted call writes into the read-only mapping: each one works, or (allow without
   INCLUDE_DISALLOWED in the original) is refused with EINVAL *)
Lemma hw_adopted_no_fault inc c :
  call_kind c <> Modifier ->
  adopted_call inc c = Ok \/ (c = CAllow /\ inc = false /\ adopted_call inc c = Refused EINVAL_).
Proof. destruct c, inc; simpl; intro H; try (left; reflexivity); try (exfalso; apply H; reflexivity); right; repeat split. Qed.
Lemma hw_allow_works : adopted_call true CAllow = Ok /\ writes true CAllow = Some Private.
Proof. split; reflexivity. Qed.

(* C12's dup theorem instantiated with the write allocator: the copy in the mapping erases to dup_tree of the original *)
Lemma write_allocator_spec : alloc_spec write_allocator (fun c x => x < c).
Proof. apply bump_spec. vm_compute. reflexivity. Qed.
Lemma hw_adopt_equal :
  forall h at0 base, stored h at0 -> (forall x, In x (addrs at0) -> x < base + SHMEM_HEADER_LENGTH) ->
    model_wf (dup_tree (erase at0)) = true ->
    forall at1 h1 s1, dup_run ksize write_allocator (dup_tree (erase at0)) h (write_start base) = (at1, h1, s1) ->
      erase at1 = dup_tree (erase at0) /\ stored h1 at1 /\ stored h1 at0.
Proof.
  intros h at0 base Hst Hown. apply (hw_dup_abs_equal write_allocator _ write_allocator_spec h at0 (write_start base) Hst). exact Hown.
Qed.

(* the image written does not depend on what the target held before: the blocks laid out, their addresses and their whole
   content are a function of the tree and of the start address; every block is stored entirely (a calloc()ed block is
   zero wherever the duplication stores nothing, whatever the mapping contained); everything else keeps its content *)
Lemma hw_image_independent t base (h h' : heap) :
  model_wf t = true ->
  let r := dup_run ksize write_allocator t h (write_start base) in
  let r' := dup_run ksize write_allocator t h' (write_start base) in
  fst (fst r) = fst (fst r') /\ snd r = snd r' /\
  (forall a, In a (addrs (fst (fst r))) -> snd (fst r) a = snd (fst r') a /\ exists b, snd (fst r) a = Some b /\ In (a, b) (nodes (fst (fst r)))) /\
  (forall a, ~ In a (addrs (fst (fst r))) -> snd (fst r) a = h a /\ snd (fst r') a = h' a).
Proof.
  intro W. unfold dup_run. destruct (assign ksize write_allocator t (write_start base)) as [at1 s1] eqn:E. simpl.
  assert (ND : NoDup (addrs at1)).
  { pose proof (assign_fresh ksize write_allocator _ write_allocator_spec t _ _ _ W E) as (_ & _ & ND). exact ND. }
  split; [reflexivity|split; [reflexivity|split]].
  - intros a Ha. unfold addrs in Ha. apply in_map_iff in Ha. destruct Ha as ([a0 b] & Ea & Hin). simpl in Ea. subst a0.
    rewrite (write_nodes_in _ h a b ND Hin), (write_nodes_in _ h' a b ND Hin). split; [reflexivity|]. exists b. auto.
  - intros a Ha. split; apply write_nodes_other; exact Ha.
Qed.

(* every single-bit flip of a stored header field or of the stored ABI (and the neighbouring ABI values) is refused with
   EINVAL, for every address and length: a flipped value differs from the expected one *)
Lemma lxor_pow2_neq v k : N.lxor v (2 ^ k) <> v.
Proof.
  intro H. assert (E : N.lxor v (N.lxor v (2 ^ k)) = 0) by (rewrite H; apply N.lxor_nilpotent).
  rewrite <- N.lxor_assoc, N.lxor_nilpotent, N.lxor_0_l in E.
  pose proof (N.pow_nonzero 2 k ltac:(discriminate)). contradiction.
Qed.
Lemma hw_corrupted_abis_refused addr len :
  forallb (fun a => is_einval (adopt_check 0 (write_header addr len) addr len (Some addr) a)) corrupted_abis = true.
Proof.
  apply forallb_forall. intros a Ha.
  assert (Hne : a <> HWLOC_TOPOLOGY_ABI).
  { unfold corrupted_abis in Ha. apply in_app_or in Ha. destruct Ha as [Ha|Ha].
    - unfold flips in Ha. apply in_map_iff in Ha. destruct Ha as (k & <- & _). apply lxor_pow2_neq.
    - simpl in Ha. repeat (destruct Ha as [<-|Ha]; [vm_compute; discriminate|]). destruct Ha. }
  destruct (hw_adopt_rejects 0 (write_header addr len) addr len (Some addr) a) as (_ & _ & _ & H & _).
  rewrite (H eq_refl eq_refl eq_refl Hne). unfold is_einval. apply N.eqb_refl.
Qed.
Lemma hw_corrupted_headers_refused addr len :
  forallb (fun h => is_einval (adopt_check 0 h addr len (Some addr) HWLOC_TOPOLOGY_ABI)) (corrupted_headers addr len) = true.
Proof.
  apply forallb_forall. intros h Hh.
  destruct (hw_adopt_rejects 0 h addr len (Some addr) HWLOC_TOPOLOGY_ABI) as (_ & H & _).
  rewrite (H eq_refl); [unfold is_einval; apply N.eqb_refl|].
  unfold corrupted_headers in Hh. repeat (apply in_app_or in Hh; destruct Hh as [Hh|Hh]);
    unfold flips in Hh; rewrite map_map in Hh; apply in_map_iff in Hh; destruct Hh as (k & <- & _); cbn [h_version h_length h_address h_mmap_length].
  - left. apply lxor_pow2_neq.
  - right; left. apply lxor_pow2_neq.
  - right; right; left. apply lxor_pow2_neq.
  - right; right; right. apply lxor_pow2_neq.
Qed.
Lemma hw_corruption_table addr len : corruption_table_ok addr len = true.
Proof. unfold corruption_table_ok. rewrite hw_corrupted_abis_refused, hw_corrupted_headers_refused. reflexivity. Qed.

(* the stored copy is self-contained: every block of the tree laid out by the writer starts inside the mapping, after the
   header and before the end of the get_length bytes; together with C12 nodes_closed (every pointer held by a block of
   the copy is the address of a block of the copy) no pointer of the stored image leaves the mapping, except the cells
   declared shared (object userdata) *)
Lemma hw_stored_copy_self_contained t base :
  model_wf t = true ->
  let at1 := fst (write_run t base) in
  (forall a, In a (addrs at1) -> base + SHMEM_HEADER_LENGTH <= a < base + get_length (sizes ksize t)) /\
  (forall a b p, In (a, b) (nodes at1) -> In p (hptrs b) -> In p (addrs at1)).
Proof.
  intros W at1. split; [|intros a b p; apply nodes_closed].
  intros a Ha. unfold at1, write_run in *.
  destruct (assign ksize write_allocator t (write_start base)) as [t1 s1] eqn:E. simpl in Ha.
  pose proof (assign_fresh ksize write_allocator _ write_allocator_spec t _ _ _ W E) as (_ & F & _).
  destruct (F a Ha) as [F1 F2]. simpl in F1, F2.
  pose proof (hw_length_suffices t base) as (L & _ & _). unfold cursor_end, write_run in L. rewrite E in L. simpl in L.
  unfold write_start in F1. simpl in F1. lia.
Qed.
