(* C01/C08: the KEEP_STRUCTURE level merge (hwloc_filter_levels_keep_structure, model Restrict.merge_tree /
   merge_step / keep_structure) loses nothing and invents nothing: the payloads of the tree before the merge are,
   as a multiset, the payloads of the tree after it plus one dropped payload per merged (parent, single child)
   pair - the parent's when the parent level is removed, the child's when the child level is removed.  In
   particular every memory, I/O and Misc object of both levels survives exactly once. *)
From Coq Require Import List NArith ZArith Bool Lia Permutation.
From HV Require Import Base.BSet Gen.Tables Text.TypeOrder Topo.Dump Topo.Obj Topo.Api Topo.ApiProofs Topo.Restrict.
Import ListNotations.
Local Open Scope N_scope.

(* ---------- rearrangement of concatenations ---------- *)

Lemma perm_pull {T} (A L pre post : list T) : Permutation L (pre ++ post) -> Permutation (A ++ L) (pre ++ A ++ post).
Proof.
  intros H. rewrite H. rewrite !app_assoc. apply Permutation_app_tail. apply Permutation_app_comm.
Qed.

Ltac split_at A r :=
  lazymatch r with
  | A ++ ?post => let T := lazymatch type of A with list ?T => T end in constr:((@nil T, post))
  | ?B ++ ?rest =>
      let p := split_at A rest in
      lazymatch p with
      | (?pre, ?post) => constr:((B ++ pre, post))
      end
  end.
Ltac perm_norm :=
  repeat match goal with
         | |- context [?x :: ?l] => lazymatch l with [] => fail | _ => change (x :: l) with ([x] ++ l) end
         end;
  rewrite <- ?app_assoc, ?app_nil_r.
Ltac perm_loop :=
  lazymatch goal with
  | |- Permutation [] [] => constructor
  | |- Permutation (?A ++ ?L) ?R =>
      let p := split_at A R in
      lazymatch p with
      | (?pre, ?post) =>
          let E := fresh "E" in
          assert (E : R = pre ++ A ++ post) by (rewrite <- ?app_assoc, ?app_nil_l; reflexivity);
          rewrite E; clear E; apply (perm_pull A L pre post); rewrite <- ?app_assoc, ?app_nil_l; perm_loop
      end
  end.
Ltac perm_solve :=
  perm_norm;
  match goal with
  | |- Permutation ?L ?R =>
      let E1 := fresh "E1" in let E2 := fresh "E2" in
      assert (E1 : L = L ++ []) by (now rewrite app_nil_r);
      assert (E2 : R = R ++ []) by (now rewrite app_nil_r);
      rewrite E1, E2; clear E1 E2; rewrite <- ?app_assoc; perm_loop
  end.

(* ---------- payloads ---------- *)

Definition pays (o : obj) : list dobj := map odata (flatten o).
Definition paysl (l : list obj) : list dobj := flat_map pays l.

Lemma map_flat_map' {A B C} (f : B -> C) (g : A -> list B) l : map f (flat_map g l) = flat_map (fun a => map f (g a)) l.
Proof. induction l as [|a tl IH]; [reflexivity|]. cbn [flat_map]. now rewrite map_app, IH. Qed.

Lemma pays_eq d n m i x : pays (Obj d n m i x) = d :: paysl n ++ paysl m ++ paysl i ++ paysl x.
Proof.
  unfold pays at 1. rewrite flatten_eq. cbn [map odata]. rewrite !map_app, !map_flat_map'. reflexivity.
Qed.

Lemma paysl_app a b : paysl (a ++ b) = paysl a ++ paysl b.
Proof. apply flat_map_app. Qed.

Lemma paysl_perm a b : Permutation a b -> Permutation (paysl a) (paysl b).
Proof. intros H. unfold paysl. now rewrite H. Qed.

(* ---------- the memory lists ---------- *)

Lemma insert_mem_child_perm c l : Permutation (insert_mem_child c l) (c :: l).
Proof.
  induction l as [|e tl IH]; cbn [insert_mem_child]; [reflexivity|].
  destruct (mem_first_ge c e); [|reflexivity].
  rewrite IH. apply perm_swap.
Qed.

Lemma reorder_memory_children_perm l : Permutation (reorder_memory_children l) l.
Proof.
  unfold reorder_memory_children.
  enough (G : forall acc, Permutation (fold_left (fun acc c => insert_mem_child c acc) l acc) (acc ++ l))
    by (apply (G [])).
  induction l as [|c tl IH]; intros acc; cbn [fold_left].
  - now rewrite app_nil_r.
  - rewrite IH, insert_mem_child_perm. cbn [app]. apply Permutation_middle.
Qed.

Lemma merge_memory_perm a b : Permutation (merge_memory a b) (a ++ b).
Proof.
  unfold merge_memory. destruct a as [|x a]; [reflexivity|]. destruct b as [|y b]; [reflexivity|].
  apply reorder_memory_children_perm.
Qed.

(* ---------- merge_tree ---------- *)

Lemma merge_tree_eq ids rc d n m i x :
  merge_tree ids rc (Obj d n m i x) =
  if memN (o_id d) ids then
    match map (merge_tree ids rc) n with
    | [Obj dc cn cm ci cx] => Obj (if rc then d else dc) cn (merge_memory m cm) (i ++ ci) (x ++ cx)
    | _ => Obj d (map (merge_tree ids rc) n) m i x
    end
  else Obj d (map (merge_tree ids rc) n) m i x.
Proof. reflexivity. Qed.

(* the payload that disappears at each merged pair *)
Fixpoint dropped (ids : list N) (rc : bool) (o : obj) : list dobj :=
  match o with
  | Obj d n m i x =>
      let dn := (fix go (l : list obj) : list dobj := match l with [] => [] | c :: tl => dropped ids rc c ++ go tl end) n in
      if memN (o_id d) ids then
        match n with
        | [c] => dn ++ [if rc then odata (merge_tree ids rc c) else d]
        | _ => dn
        end
      else dn
  end.

Lemma dropped_eq ids rc d n m i x :
  dropped ids rc (Obj d n m i x) =
  if memN (o_id d) ids then
    match n with
    | [c] => flat_map (dropped ids rc) n ++ [if rc then odata (merge_tree ids rc c) else d]
    | _ => flat_map (dropped ids rc) n
    end
  else flat_map (dropped ids rc) n.
Proof. reflexivity. Qed.

(* removing the child level keeps the payload of every root *)
Lemma merge_tree_replacechild_root ids o : odata (merge_tree ids true o) = odata o.
Proof.
  destruct o as [d n m i x]. rewrite merge_tree_eq.
  destruct (memN (o_id d) ids); [|reflexivity].
  destruct (map (merge_tree ids true) n) as [|[dc cn cm ci cx] [|? ?]]; reflexivity.
Qed.

Lemma paysl_merge ids rc n :
  Forall (fun c => Permutation (pays c) (pays (merge_tree ids rc c) ++ dropped ids rc c)) n ->
  Permutation (paysl n) (paysl (map (merge_tree ids rc) n) ++ flat_map (dropped ids rc) n).
Proof.
  induction 1 as [|c tl Hc _ IH]; [constructor|].
  cbn [map paysl flat_map]. fold (paysl tl). fold (paysl (map (merge_tree ids rc) tl)).
  rewrite Hc, IH. perm_solve.
Qed.

Theorem merge_tree_payloads ids rc o :
  Permutation (pays o) (pays (merge_tree ids rc o) ++ dropped ids rc o).
Proof.
  induction o as [d n m i x Hn _ _ _] using obj_ind4.
  pose proof (paysl_merge ids rc n Hn) as Pn.
  rewrite merge_tree_eq, dropped_eq.
  assert (Plain : Permutation (pays (Obj d n m i x))
                              (pays (Obj d (map (merge_tree ids rc) n) m i x) ++ flat_map (dropped ids rc) n)).
  { rewrite !pays_eq, Pn. perm_solve. }
  destruct (memN (o_id d) ids); [|exact Plain].
  destruct n as [|c [|c2 tl]].
  - exact Plain.
  - cbn [map] in *. destruct (merge_tree ids rc c) as [dc cn cm ci cx] eqn:Ec.
    cbn [odata].
    inversion Hn as [|? ? Hc _]; subst.
    rewrite Ec in Hc. rewrite pays_eq in Hc.
    rewrite !pays_eq. cbn [paysl flat_map]. rewrite !app_nil_r.
    rewrite Hc, !paysl_app, (paysl_perm _ _ (merge_memory_perm m cm)), paysl_app.
    destruct rc; perm_solve.
  - cbn [map] in *. destruct (merge_tree ids rc c) as [dc cn cm ci cx]. exact Plain.
Qed.

(* which payloads are dropped *)
Theorem dropped_replaceparent ids o : Forall (fun d => memN (o_id d) ids = true) (dropped ids false o).
Proof.
  induction o as [d n m i x Hn _ _ _] using obj_ind4.
  assert (Hl : Forall (fun d => memN (o_id d) ids = true) (flat_map (dropped ids false) n)).
  { induction Hn as [|c tl Hc _ IH]; [constructor|]. cbn [flat_map]. apply Forall_app. now split. }
  rewrite dropped_eq. destruct (memN (o_id d) ids) eqn:M; [|exact Hl].
  destruct n as [|c [|c2 tl]]; try exact Hl.
  apply Forall_app. split; [exact Hl|]. constructor; [exact M|constructor].
Qed.

(* child level removed: each dropped payload is that of the only normal child of a listed object *)
Definition only_child_of_listed (ids : list N) (o : obj) (d : dobj) : Prop :=
  exists p c, In p (nflatten o) /\ memN (oid p) ids = true /\ onch p = [c] /\ d = odata c.

Theorem dropped_replacechild ids o : Forall (only_child_of_listed ids o) (dropped ids true o).
Proof.
  induction o as [d n m i x Hn _ _ _] using obj_ind4.
  assert (Hl : Forall (only_child_of_listed ids (Obj d n m i x)) (flat_map (dropped ids true) n)).
  { rewrite Forall_forall. intros q Hq. apply in_flat_map in Hq. destruct Hq as [c [Hc Hq]].
    rewrite Forall_forall in Hn. specialize (Hn c Hc). rewrite Forall_forall in Hn.
    destruct (Hn q Hq) as [p [c' [Hp [Hm [Ho Hd]]]]].
    exists p, c'. repeat split; try assumption.
    rewrite nflatten_eq. right. cbn [onch]. unfold nflattens. apply in_flat_map. now exists c. }
  rewrite dropped_eq. destruct (memN (o_id d) ids) eqn:M; [|exact Hl].
  destruct n as [|c [|c2 tl]]; try exact Hl.
  apply Forall_app. split; [exact Hl|]. constructor; [|constructor].
  exists (Obj d [c] m i x), c. repeat split.
  - rewrite nflatten_eq. now left.
  - exact M.
  - apply merge_tree_replacechild_root.
Qed.

(* one payload per merged pair: the number of objects decreases by the number of dropped payloads *)
Corollary merge_tree_count ids rc o :
  List.length (pays o) = (List.length (pays (merge_tree ids rc o)) + List.length (dropped ids rc o))%nat.
Proof. rewrite (Permutation_length (merge_tree_payloads ids rc o)). apply app_length. Qed.

(* ---------- the whole pass ---------- *)

(* what the loop drops, level after level *)
Definition step_dropped (filters dm : list N) (ls : list (list obj)) (i : nat) (root : obj) : list dobj :=
  match nth_error ls (Nat.pred i), nth_error ls i with
  | Some (o1 :: t1), Some (o2 :: t2) =>
      let l1 := o1 :: t1 in
      let l2 := o2 :: t2 in
      let ty1 := otype o1 in
      let ty2 := otype o2 in
      let rp0 := (filt filters ty1 =? HWLOC_TYPE_FILTER_KEEP_STRUCTURE) && negb ((ty1 =? HWLOC_OBJ_GROUP) && dont_merge_level dm l1) in
      let rc0 := (filt filters ty2 =? HWLOC_TYPE_FILTER_KEEP_STRUCTURE) && negb ((ty2 =? HWLOC_OBJ_GROUP) && dont_merge_level dm l2) in
      let rc1 := if negb rc0 && negb rp0 then (ty1 =? HWLOC_OBJ_PACKAGE) && (ty2 =? HWLOC_OBJ_DIE) else rc0 in
      if negb rc1 && negb rp0 then []
      else
        let both := rp0 && rc1 in
        let rp := if both then negb (prio ty2 <=? prio ty1)%Z else rp0 in
        let rc := if both then negb rp else rc1 in
        if levels_same_structure l1 l2 (ty2 =? HWLOC_OBJ_PU) && negb (rp && (parent_memory_wider l1 l2 || parent_first_differs l1 l2))
        then dropped (map oid l1) rc root
        else []
  | _, _ => []
  end.

Lemma merge_step_payloads filters dm ls i root :
  Permutation (pays root) (pays (merge_step filters dm ls i root) ++ step_dropped filters dm ls i root).
Proof.
  unfold merge_step, step_dropped.
  destruct (nth_error ls (Nat.pred i)) as [[|o1 t1]|]; try (now rewrite app_nil_r).
  destruct (nth_error ls i) as [[|o2 t2]|]; try (now rewrite app_nil_r).
  cbv zeta.
  destruct (negb _ && negb _); [now rewrite app_nil_r|].
  destruct (levels_same_structure _ _ _ && negb _); [|now rewrite app_nil_r].
  apply merge_tree_payloads.
Qed.

Fixpoint loop_dropped (filters dm : list N) (i : nat) (root : obj) : list dobj :=
  match i with
  | O => []
  | Datatypes.S i' =>
      match levels_of root with
      | Some ls => step_dropped filters dm ls i root ++ loop_dropped filters dm i' (merge_step filters dm ls i root)
      | None => []
      end
  end.

Lemma merge_loop_payloads filters dm i : forall root root',
  merge_loop filters dm i root = Some root' ->
  Permutation (pays root) (pays root' ++ loop_dropped filters dm i root).
Proof.
  induction i as [|i IH]; intros root root' H; cbn [merge_loop loop_dropped] in *.
  - injection H as <-. now rewrite app_nil_r.
  - destruct (levels_of root) as [ls|]; [|discriminate].
    rewrite (merge_step_payloads filters dm ls (Datatypes.S i) root).
    rewrite (IH _ _ H). perm_solve.
Qed.

Definition keep_structure_dropped (filters dm : list N) (root : obj) : list dobj :=
  match levels_of root with
  | Some ls => loop_dropped filters dm (Nat.pred (List.length ls)) root
  | None => []
  end.

Theorem keep_structure_payloads filters dm root root' :
  keep_structure filters dm root = Some root' ->
  Permutation (pays root) (pays root' ++ keep_structure_dropped filters dm root).
Proof.
  unfold keep_structure, keep_structure_dropped. destruct (levels_of root) as [ls|]; [|discriminate].
  apply merge_loop_payloads.
Qed.

(* special objects are never dropped: every dropped payload is that of a NORMAL object of the tree it is dropped
   from (it is in the normal-children closure of the root) *)
Lemma dropped_are_normal ids rc o : forall d, In d (dropped ids rc o) -> In d (map odata (nflatten o)).
Proof.
  induction o as [dd n m i x Hn _ _ _] using obj_ind4. intros q Hq.
  assert (Hl : forall q, In q (flat_map (dropped ids rc) n) -> In q (map odata (nflatten (Obj dd n m i x)))).
  { intros q' Hq'. apply in_flat_map in Hq'. destruct Hq' as [c [Hc Hq']].
    rewrite Forall_forall in Hn. specialize (Hn c Hc q' Hq').
    rewrite nflatten_eq. cbn [map]. right. cbn [onch]. unfold nflattens. rewrite in_map_iff in *.
    destruct Hn as [p [Ep Hp]]. exists p. split; [exact Ep|]. apply in_flat_map. now exists c. }
  rewrite dropped_eq in Hq. destruct (memN (o_id dd) ids); [|now apply Hl].
  destruct n as [|c [|c2 tl]]; try (now apply Hl).
  apply in_app_or in Hq. destruct Hq as [Hq|[<-|[]]]; [now apply Hl|].
  rewrite nflatten_eq. cbn [map odata onch]. destruct rc; [|now left].
  right. rewrite merge_tree_replacechild_root. unfold nflattens. cbn [flat_map]. rewrite app_nil_r.
  rewrite nflatten_eq. cbn [map]. now left.
Qed.

(* ---------- the memory children stay ordered ---------- *)

From Coq Require Import Sorting.Sorted.

Lemma first_gt_total a b : first_gt a b = true -> first_gt b a = false.
Proof.
  unfold first_gt. destruct (bs_first a) as [x|], (bs_first b) as [y|]; try reflexivity; try discriminate.
  intros H. apply N.ltb_lt in H. apply N.ltb_ge. lia.
Qed.

Lemma first_gt_trans a b c : first_gt a b = false -> first_gt b c = false -> first_gt a c = false.
Proof.
  unfold first_gt. destruct (bs_first a) as [x|], (bs_first b) as [y|], (bs_first c) as [z|];
    try reflexivity; try discriminate.
  intros H1 H2. apply N.ltb_ge in H1. apply N.ltb_ge in H2. apply N.ltb_ge. lia.
Qed.

(* a is not after b: first(a's complete_nodeset) <= first(b's), the empty set being last *)
Definition mem_le (a b : obj) : Prop := mem_first_ge b a = true.
Definition MSorted (l : list obj) : Prop := StronglySorted mem_le l.

Lemma mem_le_trans a b c : mem_le a b -> mem_le b c -> mem_le a c.
Proof.
  unfold mem_le, mem_first_ge. rewrite !negb_true_iff. apply first_gt_trans.
Qed.

Lemma mem_le_total a b : mem_first_ge a b = false -> mem_le a b.
Proof.
  unfold mem_le, mem_first_ge. rewrite negb_false_iff, negb_true_iff. apply first_gt_total.
Qed.

Lemma insert_mem_child_sorted c l : MSorted l -> MSorted (insert_mem_child c l).
Proof.
  induction 1 as [|e tl Hs IH Hf]; cbn [insert_mem_child].
  - constructor; constructor.
  - destruct (mem_first_ge c e) eqn:G.
    + constructor; [exact IH|].
      rewrite Forall_forall. intros q Hq.
      apply (Permutation_in _ (insert_mem_child_perm c tl)) in Hq. destruct Hq as [<-|Hq]; [exact G|].
      rewrite Forall_forall in Hf. now apply Hf.
    + pose proof (mem_le_total _ _ G) as Hce.
      constructor; [now constructor|]. constructor; [exact Hce|].
      rewrite Forall_forall in *. intros q Hq. apply (mem_le_trans _ e); [exact Hce|now apply Hf].
Qed.

Lemma reorder_memory_children_sorted l : MSorted (reorder_memory_children l).
Proof.
  unfold reorder_memory_children.
  enough (G : forall acc, MSorted acc -> MSorted (fold_left (fun acc c => insert_mem_child c acc) l acc))
    by (apply G; constructor).
  induction l as [|c tl IH]; intros acc Ha; cbn [fold_left]; [exact Ha|].
  apply IH. now apply insert_mem_child_sorted.
Qed.

Lemma merge_memory_sorted a b : MSorted a -> MSorted b -> MSorted (merge_memory a b).
Proof.
  intros Ha Hb. unfold merge_memory. destruct a as [|x a]; [exact Hb|]. destruct b as [|y b].
  - now rewrite app_nil_r.
  - apply reorder_memory_children_sorted.
Qed.

Definition mem_sorted_tree (o : obj) : Prop := Forall (fun p => MSorted (omch p)) (nflatten o).

Theorem merge_tree_memory_sorted ids rc o : mem_sorted_tree o -> mem_sorted_tree (merge_tree ids rc o).
Proof.
  unfold mem_sorted_tree.
  induction o as [d n m i x Hn _ _ _] using obj_ind4. intros H.
  rewrite nflatten_eq in H. cbn [onch] in H. inversion H as [|? ? Hm Hrest]; subst. cbn [omch] in Hm.
  assert (Hl : Forall (fun p => MSorted (omch p)) (nflattens (map (merge_tree ids rc) n))).
  { unfold nflattens in *. clear H Hm. induction Hn as [|c tl Hc _ IH]; [constructor|].
    cbn [map flat_map] in *. apply Forall_app in Hrest. destruct Hrest as [Hc' Htl].
    apply Forall_app. split; [now apply Hc|now apply IH]. }
  assert (Plain : Forall (fun p => MSorted (omch p)) (nflatten (Obj d (map (merge_tree ids rc) n) m i x))).
  { rewrite nflatten_eq. cbn [onch]. constructor; [exact Hm|exact Hl]. }
  rewrite merge_tree_eq. destruct (memN (o_id d) ids); [|exact Plain].
  destruct (map (merge_tree ids rc) n) as [|[dc cn cm ci cx] [|c2 tl]] eqn:En; try exact Plain.
  unfold nflattens in Hl. cbn [flat_map] in Hl. rewrite app_nil_r, nflatten_eq in Hl. cbn [onch] in Hl.
  inversion Hl as [|? ? Hcm Hcn]; subst. cbn [omch] in Hcm.
  rewrite nflatten_eq. cbn [onch]. constructor; [|exact Hcn].
  cbn [omch]. now apply merge_memory_sorted.
Qed.

Lemma merge_step_memory_sorted filters dm ls i root :
  mem_sorted_tree root -> mem_sorted_tree (merge_step filters dm ls i root).
Proof.
  intros H. unfold merge_step.
  destruct (nth_error ls (Nat.pred i)) as [[|o1 t1]|]; try exact H.
  destruct (nth_error ls i) as [[|o2 t2]|]; try exact H.
  cbv zeta.
  destruct (negb _ && negb _); [exact H|].
  destruct (levels_same_structure _ _ _ && negb _); [|exact H].
  now apply merge_tree_memory_sorted.
Qed.

Theorem keep_structure_memory_sorted filters dm root root' :
  keep_structure filters dm root = Some root' -> mem_sorted_tree root -> mem_sorted_tree root'.
Proof.
  unfold keep_structure. destruct (levels_of root) as [ls|]; [|discriminate].
  generalize (Nat.pred (List.length ls)). intros k. clear ls. revert root.
  induction k as [|k IH]; intros root H Hs; cbn [merge_loop] in H.
  - now injection H as <-.
  - destruct (levels_of root) as [ls|]; [|discriminate].
    apply (IH _ H). now apply merge_step_memory_sorted.
Qed.

(* ---------- non-vacuity ---------- *)

(* Package(id 1, NUMA 10 with nodeset {1}) > L3(id 2, NUMA 11 with nodeset {0}, Misc 12) > PU(id 3):
   removing the Package level (replaceparent) keeps both NUMA nodes, re-sorted, and the Misc object *)
Definition mk_d (id ty : N) (nd : bset) : dobj :=
  let s := Some (bs_single 0) in
  mkDobj id ty 0%Z id (Some id) PNull PNull PNull PNull PNull PNull PNull
         0 0 0 0 0 0 None [] [] [] [] s s (Some nd) (Some nd) 0 0 (-1)%Z (-1)%Z (-1)%Z (-1)%Z (-1)%Z (-1)%Z (-1)%Z.
Definition ex_numa (id nd : N) : obj := Obj (mk_d id HWLOC_OBJ_NUMANODE (bs_single nd)) [] [] [] [].
Definition ex_tree : obj :=
  Obj (mk_d 1 HWLOC_OBJ_PACKAGE (bs_union (bs_single 0) (bs_single 1)))
      [Obj (mk_d 2 HWLOC_OBJ_L3CACHE (bs_single 0))
           [Obj (mk_d 3 HWLOC_OBJ_PU (bs_single 0)) [] [] [] []]
           [ex_numa 11 0] [] [Obj (mk_d 12 HWLOC_OBJ_MISC bs_empty) [] [] [] []]]
      [ex_numa 10 1] [] [].

Example merge_tree_example :
  mem_sorted_tree ex_tree /\
  map o_id (pays ex_tree) = [1; 2; 3; 11; 12; 10] /\
  map o_id (pays (merge_tree [1] false ex_tree)) = [2; 3; 11; 10; 12] /\
  map o_id (dropped [1] false ex_tree) = [1] /\
  map o_id (pays (merge_tree [1] true ex_tree)) = [1; 3; 11; 10; 12] /\
  map o_id (dropped [1] true ex_tree) = [2].
Proof.
  split; [|vm_compute; repeat split].
  unfold mem_sorted_tree. repeat constructor; vm_compute; reflexivity.
Qed.

(* ---------- the normal children stay ordered ---------- *)

(* Removing a PARENT level puts each only child at its parent's place among the parent's siblings, which are ordered
   by the first index of their complete cpusets.  The order survives when every removed parent starts at the same
   index as its child (the test [parent_first_differs] that merge_step makes level-wise since the fix); without it
   the order can break: [merge_order_refuted] below is the input on which the unrepaired code aborted in
   hwloc_topology_check(). *)
From HV Require Import Topo.WFCheck.

Definition rk (o : obj) : option N := first_index (o_ccs (odata o)).
Definition kids_ordered (p : obj) : Prop :=
  ordered_first (map (fun c => oset (o_ccs (odata c))) (onch p)) (-1)%Z false = true.
Definition ord_tree (o : obj) : Prop := Forall kids_ordered (nflatten o).
Definition same_start (ids : list N) (p : obj) : Prop :=
  memN (oid p) ids = true -> forall c, onch p = [c] -> rk p = rk c.
Definition guard (ids : list N) (o : obj) : Prop := Forall (same_start ids) (nflatten o).

Lemma first_Z_rk a b : rk a = rk b -> first_Z (oset (o_ccs (odata a))) = first_Z (oset (o_ccs (odata b))).
Proof. unfold rk, first_index, first_Z. now intros ->. Qed.

Lemma ordered_first_ext l1 l2 : map first_Z l1 = map first_Z l2 ->
  forall pf pe, ordered_first l1 pf pe = ordered_first l2 pf pe.
Proof.
  revert l2. induction l1 as [|a t1 IH]; intros [|b t2] H; try discriminate; [reflexivity|].
  cbn [map] in H. injection H as Hab Ht. intros pf pe. cbn [ordered_first]. cbv zeta. rewrite Hab.
  destruct (0 <=? first_Z b)%Z; now rewrite (IH _ Ht).
Qed.

Lemma guard_children ids d n m i x : guard ids (Obj d n m i x) -> Forall (guard ids) n.
Proof.
  unfold guard. rewrite nflatten_eq. cbn [onch]. intros H. inversion H as [|? ? _ Hr]; subst. clear H.
  unfold nflattens in Hr. induction n as [|c tl IH]; [constructor|].
  cbn [flat_map] in Hr. apply Forall_app in Hr. destruct Hr as [Hc Ht]. constructor; [exact Hc|now apply IH].
Qed.

Lemma ord_children d n m i x : ord_tree (Obj d n m i x) -> Forall ord_tree n.
Proof.
  unfold ord_tree. rewrite nflatten_eq. cbn [onch]. intros H. inversion H as [|? ? _ Hr]; subst. clear H.
  unfold nflattens in Hr. induction n as [|c tl IH]; [constructor|].
  cbn [flat_map] in Hr. apply Forall_app in Hr. destruct Hr as [Hc Ht]. constructor; [exact Hc|now apply IH].
Qed.

Lemma merge_tree_rk ids o : guard ids o -> rk (merge_tree ids false o) = rk o.
Proof.
  induction o as [d n m i x Hn _ _ _] using obj_ind4. intros G.
  pose proof (guard_children _ _ _ _ _ _ G) as Gn.
  rewrite merge_tree_eq. destruct (memN (o_id d) ids) eqn:M; [|reflexivity].
  destruct n as [|c [|c2 tl]]; try reflexivity.
  - cbn [map]. destruct (merge_tree ids false c) as [dc cn cm ci cx] eqn:Ec.
    inversion Hn as [|? ? Hc _]; subst. inversion Gn as [|? ? Gc _]; subst.
    specialize (Hc Gc). rewrite Ec in Hc.
    unfold guard in G. rewrite nflatten_eq in G. inversion G as [|? ? G0 _]; subst.
    specialize (G0 M c eq_refl). rewrite G0, <- Hc. reflexivity.
  - cbn [map]. destruct (merge_tree ids false c); reflexivity.
Qed.

Lemma map_rk_merge ids n : Forall (guard ids) n ->
  map (fun c => first_Z (oset (o_ccs (odata c)))) (map (merge_tree ids false) n) =
  map (fun c => first_Z (oset (o_ccs (odata c)))) n.
Proof.
  induction 1 as [|c tl Gc _ IH]; [reflexivity|]. cbn [map]. rewrite IH. f_equal.
  apply first_Z_rk. now apply merge_tree_rk.
Qed.

Theorem merge_tree_children_ordered ids o : guard ids o -> ord_tree o -> ord_tree (merge_tree ids false o).
Proof.
  induction o as [d n m i x Hn _ _ _] using obj_ind4. intros G Ho.
  pose proof (guard_children _ _ _ _ _ _ G) as Gn. pose proof (ord_children _ _ _ _ _ Ho) as On.
  assert (Hl : Forall kids_ordered (nflattens (map (merge_tree ids false) n))).
  { unfold nflattens. clear G Ho. induction Hn as [|c tl Hc _ IH]; [constructor|].
    inversion Gn; subst. inversion On; subst. cbn [map flat_map]. apply Forall_app. split; [now apply Hc|now apply IH]. }
  assert (Hk : kids_ordered (Obj d (map (merge_tree ids false) n) m i x)).
  { unfold ord_tree in Ho. rewrite nflatten_eq in Ho. inversion Ho as [|? ? H0 _]; subst.
    unfold kids_ordered in *. cbn [onch] in *.
    rewrite <- H0. apply ordered_first_ext. rewrite !map_map.
    rewrite <- (map_rk_merge ids n Gn). now rewrite map_map. }
  assert (Plain : ord_tree (Obj d (map (merge_tree ids false) n) m i x)).
  { unfold ord_tree. rewrite nflatten_eq. cbn [onch]. constructor; [exact Hk|exact Hl]. }
  rewrite merge_tree_eq. destruct (memN (o_id d) ids); [|exact Plain].
  destruct (map (merge_tree ids false) n) as [|[dc cn cm ci cx] [|c2 tl]] eqn:En; try exact Plain.
  unfold nflattens in Hl. cbn [flat_map] in Hl. rewrite app_nil_r, nflatten_eq in Hl. cbn [onch] in Hl.
  inversion Hl as [|? ? Hcn Hrest]; subst.
  unfold ord_tree. rewrite nflatten_eq. cbn [onch]. constructor; [|exact Hrest].
  unfold kids_ordered in *. cbn [onch] in *. exact Hcn.
Qed.

(* the witness: Machine(0) > [Package(1, complete {0,3}) > Core(2, complete {3}) > PU ; Package(4, {1}) > Core(5, {1}) > PU]:
   the Packages are in order (0 < 1), the Cores that replace them are not (3 > 1); the guard is false on it *)
Definition mk_c (id ty : N) (cc : bset) : dobj :=
  mkDobj id ty 0%Z id (Some id) PNull PNull PNull PNull PNull PNull PNull
         0 0 0 0 0 0 None [] [] [] [] (Some cc) (Some cc) (Some (bs_single 0)) (Some (bs_single 0)) 0 0
         (-1)%Z (-1)%Z (-1)%Z (-1)%Z (-1)%Z (-1)%Z (-1)%Z.
Definition leaf (id ty : N) (cc : bset) : obj := Obj (mk_c id ty cc) [] [] [] [].
Definition wide_tree : obj :=
  Obj (mk_c 0 HWLOC_OBJ_MACHINE (bs_of_N 11))
      [Obj (mk_c 1 HWLOC_OBJ_PACKAGE (bs_of_N 9)) [Obj (mk_c 2 HWLOC_OBJ_CORE (bs_of_N 8)) [leaf 3 HWLOC_OBJ_PU (bs_of_N 8)] [] [] []] [] [] [];
       Obj (mk_c 4 HWLOC_OBJ_PACKAGE (bs_of_N 2)) [Obj (mk_c 5 HWLOC_OBJ_CORE (bs_of_N 2)) [leaf 6 HWLOC_OBJ_PU (bs_of_N 2)] [] [] []] [] [] []]
      [] [] [].

Definition kids_orderedb (p : obj) : bool :=
  ordered_first (map (fun c => oset (o_ccs (odata c))) (onch p)) (-1)%Z false.

Example merge_order_refuted :
  forallb kids_orderedb (nflatten wide_tree) = true /\
  forallb kids_orderedb (nflatten (merge_tree [1; 4] false wide_tree)) = false /\
  (* the repaired pass leaves the Package level in place on it *)
  let filters := map (fun ty => if ty =? HWLOC_OBJ_PACKAGE then HWLOC_TYPE_FILTER_KEEP_STRUCTURE else HWLOC_TYPE_FILTER_KEEP_ALL)
                     (map N.of_nat (seq 0 (N.to_nat HWLOC_OBJ_TYPE_MAX))) in
  match keep_structure filters [] wide_tree with
  | Some r => map o_id (pays r) = map o_id (pays wide_tree) /\ forallb kids_orderedb (nflatten r) = true
  | None => False
  end.
Proof. vm_compute. repeat split; reflexivity. Qed.

(* ---------- the level-wise test of merge_step gives the tree-level guard ---------- *)

From HV Require Import Topo.LevelsProofs.

Lemma nflatten_child r : forall p c, In p (nflatten r) -> In c (onch p) -> In c (nflatten r).
Proof.
  induction r as [d n m i x Hn _ _ _] using obj_ind4. intros p c Hp Hc.
  rewrite nflatten_eq in *. cbn [onch] in *. destruct Hp as [<-|Hp].
  - cbn [onch] in Hc. right. now apply in_nflattens_self.
  - right. unfold nflattens in *. apply in_flat_map in Hp. destruct Hp as [k [Hk Hp]].
    apply in_flat_map. exists k. split; [exact Hk|].
    rewrite Forall_forall in Hn. now apply (Hn k Hk p c).
Qed.

Lemma nodup_key_eq {A} (f : A -> N) (l : list A) a b :
  NoDup (map f l) -> In a l -> In b l -> f a = f b -> a = b.
Proof.
  induction l as [|h t IH]; cbn [map]; intros Hn Ha Hb E; [destruct Ha|].
  inversion Hn as [|? ? Hnot Ht]; subst.
  destruct Ha as [<-|Ha], Hb as [<-|Hb]; try reflexivity.
  - exfalso. apply Hnot. rewrite E. now apply in_map.
  - exfalso. apply Hnot. rewrite <- E. now apply in_map.
  - now apply IH.
Qed.

Lemma pairs_guard l1 : forall l2 chk,
  levels_same_structure l1 l2 chk = true -> parent_first_differs l1 l2 = false ->
  forall p, In p l1 -> exists c c', In c l2 /\ onch p = [c'] /\ oid c' = oid c /\ rk p = rk c.
Proof.
  induction l1 as [|p1 t1 IH]; intros [|c2 t2] chk Hs Hd p Hp; try destruct Hp; try discriminate.
  - subst p. cbn [levels_same_structure parent_first_differs] in *.
    apply andb_true_iff in Hs as [Hs _]. apply andb_true_iff in Hs as [Hs _].
    apply orb_false_iff in Hd as [Hd _]. apply negb_false_iff in Hd.
    destruct (onch p1) as [|c' [|? ?]] eqn:En; try discriminate.
    exists c2, c'. split; [now left|]. split; [reflexivity|]. split; [now apply N.eqb_eq|].
    unfold rk. unfold opt_N_eqb in Hd.
    destruct (first_index (o_ccs (odata p1))) as [a|], (first_index (o_ccs (odata c2))) as [b|]; try discriminate; [|reflexivity].
    apply N.eqb_eq in Hd. now subst.
  - cbn [levels_same_structure parent_first_differs] in *.
    apply andb_true_iff in Hs as [_ Hs]. apply orb_false_iff in Hd as [_ Hd].
    destruct (IH t2 chk Hs Hd p H) as [c [c' [Hc R]]]. exists c, c'. split; [now right|exact R].
Qed.

Theorem level_guard root ls i l1 l2 chk :
  levels_of root = Some ls -> nth_error ls (Nat.pred i) = Some l1 -> nth_error ls i = Some l2 ->
  NoDup (map oid (nflatten root)) ->
  levels_same_structure l1 l2 chk = true -> parent_first_differs l1 l2 = false ->
  guard (map oid l1) root.
Proof.
  intros Hl H1 H2 Hn Hs Hd. pose proof (levels_of_partition root ls Hl) as Hp.
  assert (In1 : forall q, In q l1 -> In q (nflatten root)).
  { intros q Hq. apply (Permutation_in _ Hp). apply in_concat. exists l1. split; [eapply nth_error_In; eassumption|exact Hq]. }
  assert (In2 : forall q, In q l2 -> In q (nflatten root)).
  { intros q Hq. apply (Permutation_in _ Hp). apply in_concat. exists l2. split; [eapply nth_error_In; eassumption|exact Hq]. }
  unfold guard. rewrite Forall_forall. intros p Hpin Hm c Hc.
  unfold memN in Hm. apply existsb_exists in Hm. destruct Hm as [k [Hk Ek]]. apply N.eqb_eq in Ek.
  apply in_map_iff in Hk. destruct Hk as [p1 [E1 Hp1]].
  assert (p = p1) by (apply (nodup_key_eq oid (nflatten root)); auto; congruence). subst p1.
  destruct (pairs_guard _ _ _ Hs Hd p Hp1) as [c2 [c' [Hc2 [Ho [Eid Erk]]]]].
  rewrite Ho in Hc. injection Hc as <-.
  assert (c' = c2).
  { apply (nodup_key_eq oid (nflatten root)); auto.
    apply (nflatten_child root p c' Hpin). rewrite Ho. now left. }
  now subst.
Qed.

(* removing the CHILD level never needs the test: the parent keeps its place and its payload *)
Lemma merge_tree_rk_rc ids o : rk (merge_tree ids true o) = rk o.
Proof. unfold rk. now rewrite merge_tree_replacechild_root. Qed.

Theorem merge_tree_children_ordered_rc ids o : ord_tree o -> ord_tree (merge_tree ids true o).
Proof.
  induction o as [d n m i x Hn _ _ _] using obj_ind4. intros Ho.
  pose proof (ord_children _ _ _ _ _ Ho) as On.
  assert (Hl : Forall kids_ordered (nflattens (map (merge_tree ids true) n))).
  { unfold nflattens. clear Ho. induction Hn as [|c tl Hc _ IH]; [constructor|].
    inversion On; subst. cbn [map flat_map]. apply Forall_app. split; [now apply Hc|now apply IH]. }
  assert (Hk : kids_ordered (Obj d (map (merge_tree ids true) n) m i x)).
  { unfold ord_tree in Ho. rewrite nflatten_eq in Ho. inversion Ho as [|? ? H0 _]; subst.
    unfold kids_ordered in *. cbn [onch] in *.
    rewrite (ordered_first_ext _ (map (fun c => oset (o_ccs (odata c))) n)); [exact H0|].
    rewrite !map_map. apply map_ext. intros a.
    apply first_Z_rk. apply merge_tree_rk_rc. }
  assert (Plain : ord_tree (Obj d (map (merge_tree ids true) n) m i x)).
  { unfold ord_tree. rewrite nflatten_eq. cbn [onch]. constructor; [exact Hk|exact Hl]. }
  rewrite merge_tree_eq. destruct (memN (o_id d) ids); [|exact Plain].
  destruct (map (merge_tree ids true) n) as [|[dc cn cm ci cx] [|c2 tl]] eqn:En; try exact Plain.
  unfold nflattens in Hl. cbn [flat_map] in Hl. rewrite app_nil_r, nflatten_eq in Hl. cbn [onch] in Hl.
  inversion Hl as [|? ? Hcn Hrest]; subst.
  unfold ord_tree. rewrite nflatten_eq. cbn [onch]. constructor; [|exact Hrest].
  unfold kids_ordered in *. cbn [onch] in *. exact Hcn.
Qed.

(* one iteration of the pass keeps the normal children of every object in order *)
Theorem merge_step_children_ordered filters dm root ls i :
  levels_of root = Some ls -> NoDup (map oid (nflatten root)) ->
  ord_tree root -> ord_tree (merge_step filters dm ls i root).
Proof.
  intros Hl Hn Ho. unfold merge_step.
  destruct (nth_error ls (Nat.pred i)) as [[|o1 t1]|] eqn:E1; try exact Ho.
  destruct (nth_error ls i) as [[|o2 t2]|] eqn:E2; try exact Ho.
  cbv zeta.
  set (rp0 := (filt filters (otype o1) =? HWLOC_TYPE_FILTER_KEEP_STRUCTURE) && _).
  set (rc0 := (filt filters (otype o2) =? HWLOC_TYPE_FILTER_KEEP_STRUCTURE) && _).
  set (rc1 := if negb rc0 && negb rp0 then _ else rc0).
  destruct (negb rc1 && negb rp0) eqn:Enone; [exact Ho|].
  set (rp := if rp0 && rc1 then _ else rp0).
  set (rc := if rp0 && rc1 then negb rp else rc1).
  destruct (levels_same_structure (o1 :: t1) (o2 :: t2) (otype o2 =? HWLOC_OBJ_PU)) eqn:Es; [|exact Ho].
  cbn [andb].
  destruct (negb (rp && (parent_memory_wider (o1 :: t1) (o2 :: t2) || parent_first_differs (o1 :: t1) (o2 :: t2)))) eqn:Eg; [|exact Ho].
  destruct rc eqn:Erc.
  - now apply merge_tree_children_ordered_rc.
  - apply merge_tree_children_ordered; [|exact Ho].
    assert (Hrp : rp = true).
    { revert Erc. unfold rc, rp. destruct (rp0 && rc1) eqn:Eb; intros Erc.
      - now apply negb_false_iff in Erc.
      - rewrite Erc in Enone. cbn [negb andb] in Enone. now apply negb_false_iff in Enone. }
    rewrite Hrp in Eg. cbn [andb] in Eg. apply negb_true_iff in Eg. apply orb_false_iff in Eg as [_ Eg].
    eapply level_guard; eassumption.
Qed.

(* ---------- the identifiers of the normal objects stay distinct, hence the whole pass keeps the order ---------- *)

Definition nid (o : obj) : list N := map oid (nflatten o).

Lemma nid_eq d n m i x : nid (Obj d n m i x) = o_id d :: flat_map nid n.
Proof.
  unfold nid at 1. rewrite nflatten_eq. cbn [map onch oid odata]. f_equal.
  unfold nflattens. rewrite map_flat_map'. reflexivity.
Qed.

Lemma nid_merge_list ids rc n :
  Forall (fun c => exists D, Permutation (nid c) (nid (merge_tree ids rc c) ++ D)) n ->
  exists D, Permutation (flat_map nid n) (flat_map nid (map (merge_tree ids rc) n) ++ D).
Proof.
  induction 1 as [|c tl [Dc Hc] _ [Dt Ht]]; [exists []; constructor|].
  exists (Dc ++ Dt). cbn [map flat_map]. rewrite Hc, Ht. perm_solve.
Qed.

Lemma merge_tree_nid ids rc o : exists D, Permutation (nid o) (nid (merge_tree ids rc o) ++ D).
Proof.
  induction o as [d n m i x Hn _ _ _] using obj_ind4.
  destruct (nid_merge_list ids rc n Hn) as [Dn Pn].
  assert (Plain : exists D, Permutation (nid (Obj d n m i x)) (nid (Obj d (map (merge_tree ids rc) n) m i x) ++ D)).
  { exists Dn. rewrite !nid_eq, Pn. perm_solve. }
  rewrite merge_tree_eq. destruct (memN (o_id d) ids); [|exact Plain].
  destruct n as [|c [|c2 tl]].
  - exact Plain.
  - cbn [map] in *. destruct (merge_tree ids rc c) as [dc cn cm ci cx] eqn:Ec.
    inversion Hn as [|? ? [Dc Hc] _]; subst. rewrite Ec in Hc. rewrite nid_eq in Hc.
    destruct rc.
    + exists (o_id dc :: Dc). rewrite !nid_eq. cbn [flat_map]. rewrite app_nil_r, Hc. perm_solve.
    + exists (o_id d :: Dc). rewrite !nid_eq. cbn [flat_map]. rewrite app_nil_r, Hc. perm_solve.
  - cbn [map] in *. destruct (merge_tree ids rc c) as [dc cn cm ci cx]. exact Plain.
Qed.

Lemma NoDup_app_l {A} (a b : list A) : NoDup (a ++ b) -> NoDup a.
Proof.
  induction a as [|h t IH]; cbn [app]; intros H; [constructor|].
  inversion H as [|? ? Hnot Ht]; subst. constructor; [|now apply IH].
  intros Hin. apply Hnot. apply in_or_app. now left.
Qed.

Lemma merge_tree_nodup ids rc o : NoDup (nid o) -> NoDup (nid (merge_tree ids rc o)).
Proof.
  intros H. destruct (merge_tree_nid ids rc o) as [D P].
  apply (Permutation_NoDup P) in H. now apply NoDup_app_l in H.
Qed.

Lemma merge_step_nodup filters dm ls i root : NoDup (nid root) -> NoDup (nid (merge_step filters dm ls i root)).
Proof.
  intros H. unfold merge_step.
  destruct (nth_error ls (Nat.pred i)) as [[|o1 t1]|]; try exact H.
  destruct (nth_error ls i) as [[|o2 t2]|]; try exact H.
  cbv zeta.
  destruct (negb _ && negb _); [exact H|].
  destruct (levels_same_structure _ _ _ && negb _); [|exact H].
  now apply merge_tree_nodup.
Qed.

Theorem keep_structure_children_ordered filters dm root root' :
  keep_structure filters dm root = Some root' ->
  NoDup (nid root) -> ord_tree root -> ord_tree root' /\ NoDup (nid root').
Proof.
  unfold keep_structure. destruct (levels_of root) as [ls0|]; [|discriminate].
  generalize (Nat.pred (List.length ls0)). intros k. clear ls0. revert root.
  induction k as [|k IH]; intros root H Hn Ho; cbn [merge_loop] in H.
  - injection H as <-. now split.
  - destruct (levels_of root) as [ls|] eqn:El; [|discriminate].
    apply (IH _ H).
    + now apply merge_step_nodup.
    + now apply merge_step_children_ordered.
Qed.

Lemma ord_tree_b o : forallb kids_orderedb (nflatten o) = true -> ord_tree o.
Proof.
  intros H. unfold ord_tree. rewrite Forall_forall. intros p Hp.
  rewrite forallb_forall in H. exact (H p Hp).
Qed.

From HV Require Topo.WF.
Example merge_pass_example :
  NoDup (nid wide_tree) /\ ord_tree wide_tree /\ NoDup (nid ex_tree) /\ ord_tree ex_tree.
Proof.
  repeat split; try (apply ord_tree_b; vm_compute; reflexivity); apply HV.Topo.WF.nodup_N_spec; vm_compute; reflexivity.
Qed.

(* ---------- executable form of the hypotheses of keep_structure_children_ordered, evaluated by the C01 driver on
   the tree observed right before every load-time merging pass ---------- *)
From HV Require Import Topo.Remove.

Definition merge_hypb (d4 : dump) : bool :=
  match tree_of_dump d4 with
  | Some t => nodup_N (nid t) && forallb kids_orderedb (nflatten t)
  | None => false
  end.

Lemma merge_hypb_sound d4 t : tree_of_dump d4 = Some t -> merge_hypb d4 = true -> NoDup (nid t) /\ ord_tree t.
Proof.
  unfold merge_hypb. intros -> H. apply andb_true_iff in H as [H1 H2].
  split; [now apply HV.Topo.WF.nodup_N_spec|now apply ord_tree_b].
Qed.
