(* C08: hwloc_topology_restrict (hwloc/topology.c).
   Part 1: the model on the inductive tree of Topo/Obj.v:
     argument checks, dropped-set computation (CPU-less / memory-less detection),
     restrict_object_by_cpuset / restrict_object_by_nodeset (one parametrised
     function, the two C functions are mirror images), hwloc__reorder_children,
     removal with ADAPT_IO / ADAPT_MISC (unlink_and_free_single_object),
     hwloc_filter_levels_keep_structure on the levels computed by [levels_of],
     propagate_total_memory.
   Part 2: the executable relational statement of the property over two dumps
     keyed by gp_index: [restrict_spec_check], [restrict_rc_check], [dump_eqb]. *)
From Coq Require Import List NArith ZArith Bool String.
From HV Require Import Base.BSet Gen.Tables Text.TypeOrder Topo.Dump Topo.WFCheck Topo.Obj.
Import ListNotations.
Local Open Scope N_scope.

(* ------------------------------------------------------------------ *)
(* flags                                                               *)

Definition hasf (flags f : N) : bool := negb (N.land flags f =? 0).

Definition RESTRICT_ALL : N :=
  N.lor HWLOC_RESTRICT_FLAG_REMOVE_CPULESS (N.lor HWLOC_RESTRICT_FLAG_ADAPT_MISC
    (N.lor HWLOC_RESTRICT_FLAG_ADAPT_IO (N.lor HWLOC_RESTRICT_FLAG_BYNODESET HWLOC_RESTRICT_FLAG_REMOVE_MEMLESS))).

(* topology.c:4435-4454 *)
Definition flags_valid (flags : N) : bool :=
  (N.ldiff flags RESTRICT_ALL =? 0) &&
  (if hasf flags HWLOC_RESTRICT_FLAG_BYNODESET
   then negb (hasf flags HWLOC_RESTRICT_FLAG_REMOVE_CPULESS)
   else negb (hasf flags HWLOC_RESTRICT_FLAG_REMOVE_MEMLESS)).

(* ------------------------------------------------------------------ *)
(* payload updates                                                     *)

Definition set_sets (d : dobj) (cs ccs nds cnds : option bset) : dobj :=
  mkDobj (o_id d) (o_type d) (o_depth d) (o_os d) (o_gp d) (o_parent d) (o_first d) (o_last d)
         (o_prev_sib d) (o_next_sib d) (o_prev_cousin d) (o_next_cousin d)
         (o_arity d) (o_marity d) (o_iarity d) (o_xarity d) (o_rank d) (o_lidx d) (o_carray d)
         (o_nch d) (o_mch d) (o_ich d) (o_xch d) cs ccs nds cnds (o_tm d) (o_lm d)
         (o_cache_depth d) (o_cache_type d) (o_group_depth d) (o_group_kind d) (o_group_subkind d)
         (o_pci_class d) (o_os_types d).

Definition set_tm (d : dobj) (tm : N) : dobj :=
  mkDobj (o_id d) (o_type d) (o_depth d) (o_os d) (o_gp d) (o_parent d) (o_first d) (o_last d)
         (o_prev_sib d) (o_next_sib d) (o_prev_cousin d) (o_next_cousin d)
         (o_arity d) (o_marity d) (o_iarity d) (o_xarity d) (o_rank d) (o_lidx d) (o_carray d)
         (o_nch d) (o_mch d) (o_ich d) (o_xch d) (o_cs d) (o_ccs d) (o_nds d) (o_cnds d) tm (o_lm d)
         (o_cache_depth d) (o_cache_type d) (o_group_depth d) (o_group_kind d) (o_group_subkind d)
         (o_pci_class d) (o_os_types d).

Definition set_gdepth (d : dobj) (g : Z) : dobj :=
  mkDobj (o_id d) (o_type d) (o_depth d) (o_os d) (o_gp d) (o_parent d) (o_first d) (o_last d)
         (o_prev_sib d) (o_next_sib d) (o_prev_cousin d) (o_next_cousin d)
         (o_arity d) (o_marity d) (o_iarity d) (o_xarity d) (o_rank d) (o_lidx d) (o_carray d)
         (o_nch d) (o_mch d) (o_ich d) (o_xch d) (o_cs d) (o_ccs d) (o_nds d) (o_cnds d) (o_tm d) (o_lm d)
         (o_cache_depth d) (o_cache_type d) g (o_group_kind d) (o_group_subkind d)
         (o_pci_class d) (o_os_types d).

Definition odiff (a : option bset) (b : bset) : option bset :=
  match a with Some s => Some (bs_diff s b) | None => None end.

(* ------------------------------------------------------------------ *)
(* restrict_object_by_cpuset / _by_nodeset                             *)

Record rparams := mkRP {
  rp_bynode : bool;            (* HWLOC_RESTRICT_FLAG_BYNODESET: which of the two C functions *)
  rp_dcs : option bset;        (* droppedcpuset (None = NULL) *)
  rp_dns : option bset;        (* droppednodeset (None = NULL) *)
  rp_rm : bool;                (* REMOVE_CPULESS resp. REMOVE_MEMLESS *)
  rp_io : bool;                (* ADAPT_IO *)
  rp_misc : bool               (* ADAPT_MISC *)
}.

(* the two guarded andnot blocks at the top of both functions; returns the new payload and [modified] *)
Definition clear_sets (P : rparams) (d : dobj) : dobj * bool :=
  let mc := match rp_dcs P with Some dc => bs_intersects (oset (o_ccs d)) dc | None => false end in
  let mn := match rp_dns P with Some dn => bs_intersects (oset (o_cnds d)) dn | None => false end in
  (set_sets d
     (match rp_dcs P with Some dc => if mc then odiff (o_cs d) dc else o_cs d | None => o_cs d end)
     (match rp_dcs P with Some dc => if mc then odiff (o_ccs d) dc else o_ccs d | None => o_ccs d end)
     (match rp_dns P with Some dn => if mn then odiff (o_nds d) dn else o_nds d | None => o_nds d end)
     (match rp_dns P with Some dn => if mn then odiff (o_cnds d) dn else o_cnds d | None => o_cnds d end),
   mc || mn).

(* hwloc_bitmap_compare_first(a, b) > 0 on finite sets: the first index of a is
   higher than the first index of b, the empty set being the highest; 0 when both are empty *)
Definition first_gt (a b : bset) : bool :=
  match bs_first a, bs_first b with
  | Some x, Some y => y <? x
  | None, Some _ => true
  | _, _ => false
  end.

(* hwloc__object_cpusets_compare_first(a, b) > 0 *)
Definition obj_first_gt (a b : obj) : bool :=
  match o_ccs (odata a), o_ccs (odata b) with
  | Some x, Some y => first_gt x y
  | _, _ => match o_cs (odata a), o_cs (odata b) with
            | Some x, Some y => first_gt x y
            | _, _ => false
            end
  end.

(* hwloc__reorder_children: dequeue every child in order and enqueue it before
   the first already-enqueued sibling that does not compare lower *)
Fixpoint insert_child (c : obj) (l : list obj) : list obj :=
  match l with
  | [] => [c]
  | e :: tl => if obj_first_gt c e then e :: insert_child c tl else c :: l
  end.
Definition reorder_children (l : list obj) : list obj := fold_left (fun acc c => insert_child c acc) l [].

(* topology->modified (set on every removal and, since fix f40bbad, after every
   hwloc__reorder_children call) only decides whether hwloc__reconnect recomputes the
   derived pointer fields (children[], last_child, prev_sibling, sibling_rank, levels).
   The tree model has no derived fields that could be stale, so the flag has no
   counterpart here: its effect is decided on the C output by wf_check (children-array,
   sibling-rank, ... clauses) and hwloc_topology_check after every step
   (corpus/c08/reorder-without-reconnect.case). *)

(* what one call returns to its caller: the object if it stays, and the I/O and
   Misc children lists that unlink_and_free_single_object appends to the parent *)
Definition rres := (option obj * list obj * list obj)%type.

Definition removal_test (P : rparams) (d : dobj) : bool :=
  bs_is_empty (oset (if rp_bynode P then o_nds d else o_cs d)) &&
  (negb (o_type d =? (if rp_bynode P then HWLOC_OBJ_PU else HWLOC_OBJ_NUMANODE)) || rp_rm P).

Fixpoint robj (P : rparams) (o : obj) : rres :=
  match o with
  | Obj d n m i x =>
      let d1 := fst (clear_sets P d) in
      let modified := snd (clear_sets P d) in
      let rn := (fix go (l : list obj) : list obj * list obj * list obj :=
                   match l with
                   | [] => ([], [], [])
                   | c :: tl =>
                       let r := robj P c in
                       let rs := go tl in
                       (match fst (fst r) with Some c' => c' :: fst (fst rs) | None => fst (fst rs) end,
                        snd (fst r) ++ snd (fst rs), snd r ++ snd rs)
                   end) in
      let kn := if modified then rn n else (n, [], []) in
      (* by cpuset: always reorder; by nodeset: only with REMOVE_MEMLESS *)
      let n1 := if modified && (negb (rp_bynode P) || rp_rm P) then reorder_children (fst (fst kn)) else fst (fst kn) in
      let km := if modified then rn m else (m, [], []) in
      let m1 := fst (fst km) in
      let i1 := i ++ snd (fst kn) ++ snd (fst km) in
      let x1 := x ++ snd kn ++ snd km in
      match n1, m1 with
      | [], [] =>
          if removal_test P d1
          then (None, if rp_io P then i1 else [], if rp_misc P then x1 else [])
          else (Some (Obj d1 n1 m1 i1 x1), [], [])
      | _, _ => (Some (Obj d1 n1 m1 i1 x1), [], [])
      end
  end.

(* ------------------------------------------------------------------ *)
(* hwloc_filter_levels_keep_structure                                  *)

Definition memN (x : N) (l : list N) : bool := existsb (N.eqb x) l.

(* hwloc__reorder_memory_children (fix c78f232): dequeue every memory child in order and
   enqueue it before the first already-enqueued sibling whose complete_nodeset starts
   strictly higher (compare_first(child, sibling) >= 0 advances: the sort is stable) *)
Definition mem_first_ge (a b : obj) : bool :=
  negb (first_gt (oset (o_cnds (odata b))) (oset (o_cnds (odata a)))).
Fixpoint insert_mem_child (c : obj) (l : list obj) : list obj :=
  match l with
  | [] => [c]
  | e :: tl => if mem_first_ge c e then e :: insert_mem_child c tl else c :: l
  end.
Definition reorder_memory_children (l : list obj) : list obj := fold_left (fun acc c => insert_mem_child c acc) l [].
(* the concatenation of the two memory lists, re-sorted only when both are non-empty *)
Definition merge_memory (a b : list obj) : list obj :=
  match a, b with
  | _ :: _, _ :: _ => reorder_memory_children (a ++ b)
  | _, _ => a ++ b
  end.

(* remove a whole level: [ids] = the objects of the upper level (each has exactly
   one normal child, which is in the lower level).  replacechild: the parent takes
   the child's normal children; replaceparent: the child takes the parent's place.
   In both cases the special lists are parent's ++ child's (append_siblings_list /
   prepend_siblings_list); the memory list is then re-sorted (merge_memory). *)
Fixpoint merge_tree (ids : list N) (replacechild : bool) (o : obj) : obj :=
  match o with
  | Obj d n m i x =>
      let n' := (fix go (l : list obj) : list obj := match l with [] => [] | c :: tl => merge_tree ids replacechild c :: go tl end) n in
      if memN (o_id d) ids then
        match n' with
        | [Obj dc cn cm ci cx] => Obj (if replacechild then d else dc) cn (merge_memory m cm) (i ++ ci) (x ++ cx)
        | _ => Obj d n' m i x
        end
      else Obj d n' m i x
  end.

(* hwloc_compare_levels_structure *)
Fixpoint levels_same_structure (l1 l2 : list obj) (checkmemory : bool) : bool :=
  match l1, l2 with
  | [], [] => true
  | p :: t1, c :: t2 =>
      (match onch p with [c'] => oid c' =? oid c | _ => false end) &&
      (negb checkmemory || match omch p with [] => true | _ => false end) &&
      levels_same_structure t1 t2 checkmemory
  | _, _ => false
  end.

(* the extra test of hwloc_compare_levels_structure when the UPPER level is the one to remove (fix for
   "memory children left with a complete cpuset outside their new parent's"): some parent has memory children
   and a complete cpuset different from its single child's *)
Fixpoint parent_memory_wider (l1 l2 : list obj) : bool :=
  match l1, l2 with
  | p :: t1, c :: t2 =>
      (match omch p with [] => false | _ => negb (opt_bset_eqb (o_ccs (odata p)) (o_ccs (odata c))) end)
      || parent_memory_wider t1 t2
  | _, _ => false
  end.

(* ... and the test added with the fix "children out of order after a parent level with a wider complete cpuset was
   removed": some parent's complete cpuset does not start at the same index as its single child's (the child takes
   the parent's place among siblings ordered by that index) *)
Definition first_index (s : option bset) : option N := bs_first (oset s).
Definition opt_N_eqb (a b : option N) : bool :=
  match a, b with Some x, Some y => x =? y | None, None => true | _, _ => false end.
Fixpoint parent_first_differs (l1 l2 : list obj) : bool :=
  match l1, l2 with
  | p :: t1, c :: t2 =>
      negb (opt_N_eqb (first_index (o_ccs (odata p))) (first_index (o_ccs (odata c))))
      || parent_first_differs t1 t2
  | _, _ => false
  end.

Definition filt (filters : list N) (ty : N) : N := nthN filters ty HWLOC_TYPE_FILTER_KEEP_NONE.
Definition prio (ty : N) : Z := nthN obj_type_priority ty 0%Z.

(* [dm]: ids of the Group objects whose attr->group.dont_merge is non-zero (the driver
   reads it from the dump).  Since fix 08e415b the child level is protected when the
   CHILD type is Group (the code used to test the parent's type there and thereby read
   the byte in non-Group attributes). *)
Definition dont_merge_level (dm : list N) (l : list obj) : bool := existsb (fun o => memN (oid o) dm) l.

(* one iteration of the loop for level index i (>= 1): the new root *)
Definition merge_step (filters dm : list N) (ls : list (list obj)) (i : nat) (root : obj) : obj :=
  match nth_error ls (Nat.pred i), nth_error ls i with
  | Some (o1 :: t1), Some (o2 :: t2) =>
      let l1 := o1 :: t1 in
      let l2 := o2 :: t2 in
      let ty1 := otype o1 in
      let ty2 := otype o2 in
      let rp0 := (filt filters ty1 =? HWLOC_TYPE_FILTER_KEEP_STRUCTURE) && negb ((ty1 =? HWLOC_OBJ_GROUP) && dont_merge_level dm l1) in
      let rc0 := (filt filters ty2 =? HWLOC_TYPE_FILTER_KEEP_STRUCTURE) && negb ((ty2 =? HWLOC_OBJ_GROUP) && dont_merge_level dm l2) in
      let rc1 := if negb rc0 && negb rp0 then (ty1 =? HWLOC_OBJ_PACKAGE) && (ty2 =? HWLOC_OBJ_DIE) else rc0 in
      if negb rc1 && negb rp0 then root
      else
        let both := rp0 && rc1 in
        let rp := if both then negb (prio ty2 <=? prio ty1)%Z else rp0 in
        let rc := if both then negb rp else rc1 in
        if levels_same_structure l1 l2 (ty2 =? HWLOC_OBJ_PU) && negb (rp && (parent_memory_wider l1 l2 || parent_first_differs l1 l2))
        then merge_tree (map oid l1) rc root
        else root
  | _, _ => root
  end.

Fixpoint merge_loop (filters dm : list N) (i : nat) (root : obj) : option obj :=
  match i with
  | O => Some root
  | S i' =>
      match levels_of root with
      | Some ls => merge_loop filters dm i' (merge_step filters dm ls i root)
      | None => None
      end
  end.

Definition keep_structure (filters dm : list N) (root : obj) : option obj :=
  match levels_of root with
  | Some ls => merge_loop filters dm (Nat.pred (List.length ls)) root
  | None => None
  end.

(* propagate_total_memory *)
Fixpoint retotal (o : obj) : obj :=
  match o with
  | Obj d n m i x =>
      let n' := (fix go (l : list obj) : list obj := match l with [] => [] | c :: tl => retotal c :: go tl end) n in
      let m' := (fix go (l : list obj) : list obj := match l with [] => [] | c :: tl => retotal c :: go tl end) m in
      let tot := fold_left (fun acc c => acc + o_tm (odata c)) m'
                   (fold_left (fun acc c => acc + o_tm (odata c)) n' 0) in
      Obj (set_tm d (tot + (if o_type d =? HWLOC_OBJ_NUMANODE then o_lm d else 0))) n' m' i x
  end.

(* hwloc_set_group_depth (called at the end of hwloc_topology_restrict since fix f97426a):
   the k-th level (top-down) whose first object is a Group gets attr->group.depth = k *)
Fixpoint group_level_ids (ls : list (list obj)) (k : Z) : list (N * Z) :=
  match ls with
  | [] => []
  | l :: tl =>
      match l with
      | o :: _ => if otype o =? HWLOC_OBJ_GROUP
                  then map (fun q => (oid q, k)) l ++ group_level_ids tl (k + 1)%Z
                  else group_level_ids tl k
      | [] => group_level_ids tl k
      end
  end.
Fixpoint assocN (k : N) (l : list (N * Z)) : option Z :=
  match l with [] => None | (a, v) :: tl => if a =? k then Some v else assocN k tl end.
(* only objects reachable through normal children are in levels *)
Fixpoint regroup_tree (tbl : list (N * Z)) (o : obj) : obj :=
  match o with
  | Obj d n m i x =>
      let n' := (fix go (l : list obj) : list obj := match l with [] => [] | c :: tl => regroup_tree tbl c :: go tl end) n in
      Obj (match assocN (o_id d) tbl with Some g => set_gdepth d g | None => d end) n' m i x
  end.
Definition set_group_depths (root : obj) : option obj :=
  match levels_of root with
  | Some ls => Some (regroup_tree (group_level_ids ls 0%Z) root)
  | None => None
  end.

(* ------------------------------------------------------------------ *)
(* hwloc_topology_restrict                                             *)

Record topo := mkTopo { tp_root : obj; tp_acpu : bset; tp_anode : bset }.

Inductive outcome := Einval | Fault | Done (t : topo).

(* the PU level and the NUMA level (both in depth-first order) *)
Definition pu_objs (root : obj) : list obj := filter (fun o => otype o =? HWLOC_OBJ_PU) (nflatten root).
Definition numa_objs (root : obj) : list obj := special_level root HWLOC_OBJ_NUMANODE.

(* topology.c:4476-4484 and 4512-4520 *)
Definition cpuless_nodes (root : obj) (dcs : bset) : bset :=
  fold_left (fun acc n => if bs_is_empty (oset (o_cs (odata n))) || bs_subset (oset (o_cs (odata n))) dcs
                          then bs_add (o_os (odata n)) acc else acc) (numa_objs root) bs_empty.
Definition memless_pus (root : obj) (dns : bset) : bset :=
  fold_left (fun acc p => if bs_is_empty (oset (o_cs (odata p))) || bs_subset (oset (o_nds (odata p))) dns
                          then bs_add (o_os (odata p)) acc else acc) (pu_objs root) bs_empty.

(* the restrict parameters, or None for the EINVAL exits *)
Definition restrict_params (t : topo) (S : bset) (flags : N) : option rparams :=
  if negb (flags_valid flags) then None
  else if hasf flags HWLOC_RESTRICT_FLAG_BYNODESET then
    if negb (bs_intersects S (tp_anode t)) then None
    else
      let dn := bs_compl S in
      let rm := hasf flags HWLOC_RESTRICT_FLAG_REMOVE_MEMLESS in
      let dc := if rm then memless_pus (tp_root t) dn else bs_empty in
      if rm && bs_subset (tp_acpu t) dc then None
      else Some (mkRP true (if negb rm || bs_is_empty dc then None else Some dc) (Some dn) rm
                      (hasf flags HWLOC_RESTRICT_FLAG_ADAPT_IO) (hasf flags HWLOC_RESTRICT_FLAG_ADAPT_MISC))
  else
    if negb (bs_intersects S (tp_acpu t)) then None
    else
      let dc := bs_compl S in
      let rm := hasf flags HWLOC_RESTRICT_FLAG_REMOVE_CPULESS in
      let dn := if rm then cpuless_nodes (tp_root t) dc else bs_empty in
      if rm && bs_subset (tp_anode t) dn then None
      else Some (mkRP false (Some dc) (if negb rm || bs_is_empty dn then None else Some dn) rm
                      (hasf flags HWLOC_RESTRICT_FLAG_ADAPT_IO) (hasf flags HWLOC_RESTRICT_FLAG_ADAPT_MISC)).

Definition sdiff (a : bset) (b : option bset) : bset := match b with Some s => bs_diff a s | None => a end.

(* the recursion from the root and the update of the allowed sets (before reconnect) *)
Definition restrict_prune (t : topo) (S : bset) (flags : N) : outcome :=
  match restrict_params t S flags with
  | None => Einval
  | Some P =>
      match fst (fst (robj P (tp_root t))) with
      | None => Fault      (* the root itself would be unlinked: the C code dereferences old->parent == NULL *)
      | Some r => Done (mkTopo r (sdiff (tp_acpu t) (rp_dcs P)) (sdiff (tp_anode t) (rp_dns P)))
      end
  end.

Definition restrict_topo (filters dm : list N) (t : topo) (S : bset) (flags : N) : outcome :=
  match restrict_prune t S flags with
  | Done t1 =>
      match keep_structure filters dm (tp_root t1) with
      | Some r =>
          match set_group_depths (retotal r) with
          | Some r' => Done (mkTopo r' (tp_acpu t1) (tp_anode t1))
          | None => Fault
          end
      | None => Fault
      end
  | other => other
  end.

(* ------------------------------------------------------------------ *)
(* comparison of the model's result with a dump of the C result        *)

Definition gpN (o : dobj) : N := match o_gp o with Some g => g | None => 0 end.

(* what is compared per object: gp, type, os, the four sets, total memory (paired with
   attr->group.depth), the four children lists as gp_index lists *)
Definition oview := (N * N * N * (option bset * option bset * option bset * option bset) * (N * Z) *
                     (list N * list N * list N * list N))%type.
Definition view_of (o : obj) : oview :=
  let d := odata o in
  (gpN d, o_type d, o_os d, (o_cs d, o_ccs d, o_nds d, o_cnds d), (o_tm d, o_group_depth d),
   (map (fun c => gpN (odata c)) (onch o), map (fun c => gpN (odata c)) (omch o),
    map (fun c => gpN (odata c)) (oich o), map (fun c => gpN (odata c)) (oxch o))).
Definition tree_view (o : obj) : list oview := map view_of (flatten o).

Definition topo_of_dump (d : dump) : option topo :=
  match tree_of_dump d with
  | Some r => Some (mkTopo r (oset (t_acpu d)) (oset (t_anode d)))
  | None => None
  end.

(* 0 = EINVAL, 1 = fault / no tree, 2 = done *)
Definition model_run (before : dump) (dm : list N) (S : bset) (flags : N) : N * list oview * bset * bset :=
  match topo_of_dump before with
  | None => (1, [], bs_empty, bs_empty)
  | Some t =>
      match restrict_topo (t_filters before) dm t S flags with
      | Einval => (0, [], bs_empty, bs_empty)
      | Fault => (1, [], bs_empty, bs_empty)
      | Done t' => (2, tree_view (tp_root t'), tp_acpu t', tp_anode t')
      end
  end.

Definition impl_view (after : dump) : list oview * bset * bset :=
  match tree_of_dump after with
  | Some r => (tree_view r, oset (t_acpu after), oset (t_anode after))
  | None => ([], bs_empty, bs_empty)
  end.

(* ================================================================== *)
(* Part 2: the property as an executable relation between two dumps    *)

Definition find_gp (d : dump) (g : N) : option dobj := find (fun o => gpN o =? g) (t_objs d).
Definition present (d : dump) (o : dobj) : bool := is_some (find_gp d (gpN o)).
Definition is_nm (ty : N) : bool := is_normal ty || is_memory ty.

Definition pus_of (d : dump) : list dobj := filter (fun o => o_type o =? HWLOC_OBJ_PU) (t_objs d).
Definition numas_of (d : dump) : list dobj := filter (fun o => o_type o =? HWLOC_OBJ_NUMANODE) (t_objs d).

(* "the dropped resources": the complement of S, plus, with REMOVE_CPULESS
   (REMOVE_MEMLESS), the NUMA nodes (PUs) left without any CPU (memory) *)
Definition spec_dropped (before : dump) (S : bset) (flags : N) : bset * bset :=
  if hasf flags HWLOC_RESTRICT_FLAG_BYNODESET then
    let dn := bs_compl S in
    (if hasf flags HWLOC_RESTRICT_FLAG_REMOVE_MEMLESS
     then fold_left (fun acc p => if bs_subset (oset (o_nds p)) dn then bs_add (o_os p) acc else acc) (pus_of before) bs_empty
     else bs_empty, dn)
  else
    let dc := bs_compl S in
    (dc, if hasf flags HWLOC_RESTRICT_FLAG_REMOVE_CPULESS
         then fold_left (fun acc n => if bs_subset (oset (o_cs n)) dc then bs_add (o_os n) acc else acc) (numas_of before) bs_empty
         else bs_empty).

(* normal and memory descendants (strict), any order *)
Fixpoint nm_desc (d : dump) (fuel : nat) (o : dobj) : list dobj :=
  match fuel with
  | O => []
  | S f => flat_map (fun c => c :: nm_desc d f c) (derefs d (o_nch o) ++ derefs d (o_mch o))
  end.

(* strict ancestors, closest first *)
Fixpoint ancestors (d : dump) (fuel : nat) (o : dobj) : list dobj :=
  match fuel with
  | O => []
  | S f => match deref d (o_parent o) with Some p => p :: ancestors d f p | None => [] end
  end.

Section Spec.
  Variables (before after : dump) (Sx : bset) (flags : N).
  Let fuel := List.length (t_objs before).
  Let bynode := hasf flags HWLOC_RESTRICT_FLAG_BYNODESET.
  Let dcs := fst (spec_dropped before Sx flags).
  Let dns := snd (spec_dropped before Sx flags).
  Let rm := if bynode then hasf flags HWLOC_RESTRICT_FLAG_REMOVE_MEMLESS else hasf flags HWLOC_RESTRICT_FLAG_REMOVE_CPULESS.

  (* the primary set of o minus the dropped resources is empty *)
  Definition left_empty (o : dobj) : bool :=
    if bynode then bs_subset (oset (o_nds o)) dns else bs_subset (oset (o_cs o)) dcs.
  Definition type_removable (o : dobj) : bool :=
    negb (o_type o =? (if bynode then HWLOC_OBJ_PU else HWLOC_OBJ_NUMANODE)) || rm.
  (* "left with no PU and no NUMA node below it" and allowed to go *)
  Definition rule_applies (o : dobj) : bool :=
    is_nm (o_type o) && forallb (fun c => negb (present after c)) (nm_desc before fuel o) && left_empty o && type_removable o.
  (* the recursion reaches o: it is the root, or this restriction changes the sets of its parent *)
  Definition touched (o : dobj) : bool :=
    match deref before (o_parent o) with
    | Some p => bs_intersects (oset (o_ccs p)) dcs || bs_intersects (oset (o_cnds p)) dns
    | None => true
    end.
  Definition rule_removed (o : dobj) : bool := negb (present after o) && rule_applies o.

  (* the surviving normal objects found first when walking down from o through vanished normal children *)
  Fixpoint frontier (f : nat) (o : dobj) : list dobj :=
    match f with
    | O => []
    | S f' => flat_map (fun c => if present after c then [c] else frontier f' c) (derefs before (o_nch o))
    end.

  (* a vanished object not covered by the removal rule: its whole level was merged as
     structurally redundant (type filtered KEEP_STRUCTURE, or Die below Package) *)
  Definition merged_ok (o : dobj) : bool :=
    is_normal (o_type o) &&
    ((filter_of before (o_type o) =? HWLOC_TYPE_FILTER_KEEP_STRUCTURE) || (o_type o =? HWLOC_OBJ_DIE)) &&
    (Nat.eqb (List.length (frontier fuel o)) 1 ||
     match find (fun a => present after a) (ancestors before fuel o) with
     | Some p => Nat.eqb (List.length (frontier fuel p)) (List.length (frontier fuel o))
     | None => false
     end) &&
    forallb (fun q => negb ((o_depth q =? o_depth o)%Z && (o_type q =? o_type o)) || negb (present after q))
            (t_objs before).

  (* for a Misc or I/O object: the special object of its chain that hangs off a
     normal/memory object, and that object *)
  Fixpoint anchor (f : nat) (s : dobj) : option (dobj * dobj) :=
    match f with
    | O => None
    | S f' => match deref before (o_parent s) with
              | Some p => if is_nm (o_type p) then Some (s, p) else anchor f' p
              | None => None
              end
    end.
  Definition adapt_flag (ty : N) : bool :=
    if ty =? HWLOC_OBJ_MISC then hasf flags HWLOC_RESTRICT_FLAG_ADAPT_MISC else hasf flags HWLOC_RESTRICT_FLAG_ADAPT_IO.
  (* dropped with the removed object it hangs off, unless the ADAPT flag of its kind is given *)
  Definition special_dropped (s : dobj) : bool :=
    match anchor fuel s with
    | Some (t, a) => rule_removed a && negb (adapt_flag (o_type t))
    | None => false
    end.

  Definition same_identity (o o' : dobj) : bool :=
    (o_type o =? o_type o') && (o_os o =? o_os o') && (o_lm o =? o_lm o') &&
    (o_cache_depth o =? o_cache_depth o')%Z && (o_cache_type o =? o_cache_type o')%Z &&
    (o_group_kind o =? o_group_kind o')%Z && (o_group_subkind o =? o_group_subkind o')%Z &&
    (o_pci_class o =? o_pci_class o')%Z && (o_os_types o =? o_os_types o')%Z.

  Definition sets_restricted (o o' : dobj) : bool :=
    opt_bset_eqb (o_cs o') (odiff (o_cs o) dcs) && opt_bset_eqb (o_ccs o') (odiff (o_ccs o) dcs) &&
    opt_bset_eqb (o_nds o') (odiff (o_nds o) dns) && opt_bset_eqb (o_cnds o') (odiff (o_cnds o) dns).

  (* gp_index of the closest surviving old ancestor *)
  Definition expected_parent_gp (o : dobj) : option N :=
    match find (fun a => present after a) (ancestors before fuel o) with
    | Some a => Some (gpN a)
    | None => None
    end.
  (* when a merged level is replaced by its (single) children, the memory, I/O and Misc
     children of each merged object go down to that child: for every vanished, not
     rule-removed ancestor below the closest surviving one, its single surviving
     normal descendant is an acceptable new parent *)
  Fixpoint vanished_prefix (l : list dobj) : list dobj :=
    match l with
    | [] => []
    | a :: tl => if present after a then [] else a :: vanished_prefix tl
    end.
  Definition merged_down_parents (o : dobj) : list N :=
    flat_map (fun a => if rule_applies a then [] else
                       match frontier fuel a with [f] => [gpN f] | _ => [] end)
             (vanished_prefix (ancestors before fuel o)).
  Definition parent_gp (d : dump) (o : dobj) : option N :=
    match deref d (o_parent o) with Some p => Some (gpN p) | None => None end.
  Definition optN_eqb (a b : option N) : bool :=
    match a, b with Some x, Some y => x =? y | None, None => true | _, _ => false end.

  Definition check_old_obj (o : dobj) : list viol :=
    let id := gpN o in
    chk (is_some (o_gp o)) "gp-missing" (o_id o) ++
    match find_gp after (gpN o) with
    | Some o' =>
        chk (same_identity o o') "survivor-identity-changed" id ++
        chk (sets_restricted o o') "survivor-sets-not-old-minus-dropped" id ++
        chk (optN_eqb (parent_gp after o') (expected_parent_gp o) ||
             (negb (is_normal (o_type o)) && existsb (fun g => optN_eqb (parent_gp after o') (Some g)) (merged_down_parents o)))
            "parent-not-closest-surviving-ancestor" id ++
        (if is_nm (o_type o) then chk (negb (rule_applies o && touched o)) "empty-object-not-removed" id
         else chk (negb (special_dropped o)) "special-kept-below-removed-object-without-adapt" id)
    | None =>
        if is_nm (o_type o) then
          if o_type o =? HWLOC_OBJ_PU then chk (rule_applies o) "pu-removed-but-not-excluded" id
          else if o_type o =? HWLOC_OBJ_NUMANODE then chk (rule_applies o) "numa-removed-but-not-excluded" id
          else chk (rule_applies o || merged_ok o) "object-vanished-without-cause" id
        else chk (special_dropped o) "special-object-lost" id
    end.

  (* children of one after-parent that had a common old parent keep their order in that old list *)
  Fixpoint index_of (g : N) (l : list N) (i : nat) : option nat :=
    match l with [] => None | x :: tl => if x =? g then Some i else index_of g tl (S i) end.
  Definition old_sibling_key (c : dobj) : option (N * nat) :=
    match find_gp before (gpN c) with
    | Some oc =>
        match deref before (o_parent oc) with
        | Some op =>
            let l := if is_memory (o_type oc) then o_mch op else if is_io (o_type oc) then o_ich op else o_xch op in
            match index_of (o_id oc) (ptr_ids l) 0 with Some k => Some (gpN op, k) | None => None end
        | None => None
        end
    | None => None
    end.
  Fixpoint order_kept (keys : list (option (N * nat))) : bool :=
    match keys with
    | [] => true
    | k :: tl =>
        forallb (fun k2 => match k, k2 with
                           | Some (p1, i1), Some (p2, i2) => negb (p1 =? p2) || Nat.ltb i1 i2
                           | _, _ => true end) tl && order_kept tl
    end.
  Definition check_new_obj (o' : dobj) : list viol :=
    let id := gpN o' in
    chk (is_some (find_gp before (gpN o')) && is_some (o_gp o')) "object-not-in-old-topology" (o_id o') ++
    chk (order_kept (map old_sibling_key (derefs after (o_mch o')))) "memory-children-order-changed" id ++
    chk (order_kept (map old_sibling_key (derefs after (o_ich o')))) "io-children-order-changed" id ++
    chk (order_kept (map old_sibling_key (derefs after (o_xch o')))) "misc-children-order-changed" id.

  Definition os_set (l : list dobj) : bset := fold_left (fun acc o => bs_add (o_os o) acc) l bs_empty.

  Definition check_topology_level : list viol :=
    match get before 0, get after 0 with
    | Some r, Some r' =>
        chk (gpN r =? gpN r') "root-replaced" 0 ++
        (if bynode then
           chk (opt_bset_eqb (o_nds r') (option_map (fun s => bs_inter s Sx) (o_nds r))) "root-nodeset-not-old-inter-S" 0 ++
           chk (opt_bset_eqb (o_cnds r') (option_map (fun s => bs_inter s Sx) (o_cnds r))) "root-complete-nodeset-not-old-inter-S" 0 ++
           chk (opt_bset_eqb (t_anode after) (option_map (fun s => bs_inter s Sx) (t_anode before))) "allowed-nodeset-not-old-inter-S" 0 ++
           chk (opt_bset_eqb (t_acpu after) (odiff (t_acpu before) dcs)) "allowed-cpuset-not-old-minus-dropped" 0
         else
           chk (opt_bset_eqb (o_cs r') (option_map (fun s => bs_inter s Sx) (o_cs r))) "root-cpuset-not-old-inter-S" 0 ++
           chk (opt_bset_eqb (o_ccs r') (option_map (fun s => bs_inter s Sx) (o_ccs r))) "root-complete-cpuset-not-old-inter-S" 0 ++
           chk (opt_bset_eqb (t_acpu after) (option_map (fun s => bs_inter s Sx) (t_acpu before))) "allowed-cpuset-not-old-inter-S" 0 ++
           chk (opt_bset_eqb (t_anode after) (odiff (t_anode before) dns)) "allowed-nodeset-not-old-minus-dropped" 0)
    | _, _ => [("no-root"%string, 0)]
    end ++
    (* the PUs (NUMA nodes) are exactly the old ones that are not dropped *)
    chk (bs_eqb (os_set (pus_of after)) (bs_diff (os_set (pus_of before)) dcs) &&
         Nat.eqb (List.length (pus_of after)) (List.length (filter (fun p => negb (mem (o_os p) dcs)) (pus_of before))))
        "pus-not-exactly-old-pus-in-set" 0 ++
    chk (bs_eqb (os_set (numas_of after)) (bs_diff (os_set (numas_of before)) dns) &&
         Nat.eqb (List.length (numas_of after)) (List.length (filter (fun p => negb (mem (o_os p) dns)) (numas_of before))))
        "numas-not-exactly-old-numas-in-set" 0 ++
    chk ((t_flags before =? t_flags after) && list_N_eqb (t_filters before) (t_filters after)) "flags-or-filters-changed" 0 ++
    chk (nodup_N (map gpN (t_objs after))) "gp-index-duplicate-after" 0.

  Definition restrict_spec_check : list viol :=
    check_topology_level ++ flat_map check_old_obj (t_objs before) ++ flat_map check_new_obj (t_objs after).
End Spec.

(* A Group with attr->group.dont_merge protects its level from the structural merge (same
   rule as at load time): if it was there before the restrict it is still there afterwards
   unless the removal rule itself applies to it (nothing left below it).  [dm] = dump-local
   ids, in [before], of the Groups with dont_merge set (the dump record does not carry the
   attribute, the driver reads it from the dump text). *)
Definition dont_merge_check (before after : dump) (Sx : bset) (flags : N) (dm : list N) : list viol :=
  flat_map (fun o =>
              if memN (o_id o) dm && (o_type o =? HWLOC_OBJ_GROUP)
              then chk (present after o || rule_applies before after Sx flags o) "dont-merge-group-vanished" (gpN o)
              else []) (t_objs before).

(* Group depths after a successful restrict (fix f97426a): the k-th normal level made of
   Groups, top-down, holds Groups whose attr->group.depth is k *)
Fixpoint group_depths_from (d : dump) (ls : list level) (k : Z) : list viol :=
  match ls with
  | [] => []
  | l :: tl =>
      if (l_type l =? Z.of_N HWLOC_OBJ_GROUP)%Z
      then flat_map (fun o => chk (o_group_depth o =? k)%Z "group-depth-not-rank-of-its-group-level" (gpN o)) (derefs d (l_ids l))
           ++ group_depths_from d tl (k + 1)%Z
      else group_depths_from d tl k
  end.
Definition group_depths_check (after : dump) : list viol := group_depths_from after (normal_levels after) 0%Z.

(* ------------------------------------------------------------------ *)
(* return value: when EINVAL must / may be returned                    *)

Definition must_einval (before : dump) (S : bset) (flags : N) : bool :=
  negb (flags_valid flags) ||
  negb (bs_intersects S (oset (if hasf flags HWLOC_RESTRICT_FLAG_BYNODESET then t_anode before else t_acpu before))).
(* the second pre-check: nothing would be left of the other resource *)
Definition may_einval (before : dump) (S : bset) (flags : N) : bool :=
  must_einval before S flags ||
  (let dd := spec_dropped before S flags in
   if hasf flags HWLOC_RESTRICT_FLAG_BYNODESET
   then hasf flags HWLOC_RESTRICT_FLAG_REMOVE_MEMLESS && bs_subset (oset (t_acpu before)) (fst dd)
   else hasf flags HWLOC_RESTRICT_FLAG_REMOVE_CPULESS && bs_subset (oset (t_anode before)) (snd dd)).
(* failed = the call returned -1 with errno EINVAL *)
Definition restrict_rc_check (before : dump) (S : bset) (flags : N) (failed : bool) : list viol :=
  chk (negb (must_einval before S flags) || failed) "success-despite-invalid-arguments" 0 ++
  chk (negb failed || may_einval before S flags) "einval-without-cause" 0.

(* ------------------------------------------------------------------ *)
(* "observably unchanged": equality of two dumps on every field        *)

Definition optN_eqb' (a b : option N) : bool :=
  match a, b with Some x, Some y => x =? y | None, None => true | _, _ => false end.
Definition ptr_eqb' (a b : ptr) : bool :=
  match a, b with PNull, PNull => true | PBad, PBad => true | PId i, PId j => i =? j | _, _ => false end.
Fixpoint list_eqb {A} (eqb : A -> A -> bool) (a b : list A) : bool :=
  match a, b with [], [] => true | x :: a', y :: b' => eqb x y && list_eqb eqb a' b' | _, _ => false end.
Definition opt_eqb {A} (eqb : A -> A -> bool) (a b : option A) : bool :=
  match a, b with Some x, Some y => eqb x y | None, None => true | _, _ => false end.

Definition dobj_eqb (a b : dobj) : bool :=
  (o_id a =? o_id b) && (o_type a =? o_type b) && (o_depth a =? o_depth b)%Z && (o_os a =? o_os b) &&
  opt_eqb N.eqb (o_gp a) (o_gp b) &&
  ptr_eqb' (o_parent a) (o_parent b) && ptr_eqb' (o_first a) (o_first b) && ptr_eqb' (o_last a) (o_last b) &&
  ptr_eqb' (o_prev_sib a) (o_prev_sib b) && ptr_eqb' (o_next_sib a) (o_next_sib b) &&
  ptr_eqb' (o_prev_cousin a) (o_prev_cousin b) && ptr_eqb' (o_next_cousin a) (o_next_cousin b) &&
  (o_arity a =? o_arity b) && (o_marity a =? o_marity b) && (o_iarity a =? o_iarity b) && (o_xarity a =? o_xarity b) &&
  (o_rank a =? o_rank b) && (o_lidx a =? o_lidx b) &&
  opt_eqb (list_eqb ptr_eqb') (o_carray a) (o_carray b) &&
  list_eqb ptr_eqb' (o_nch a) (o_nch b) && list_eqb ptr_eqb' (o_mch a) (o_mch b) &&
  list_eqb ptr_eqb' (o_ich a) (o_ich b) && list_eqb ptr_eqb' (o_xch a) (o_xch b) &&
  opt_eqb bs_eqb (o_cs a) (o_cs b) && opt_eqb bs_eqb (o_ccs a) (o_ccs b) &&
  opt_eqb bs_eqb (o_nds a) (o_nds b) && opt_eqb bs_eqb (o_cnds a) (o_cnds b) &&
  (o_tm a =? o_tm b) && (o_lm a =? o_lm b) &&
  (o_cache_depth a =? o_cache_depth b)%Z && (o_cache_type a =? o_cache_type b)%Z &&
  (o_group_depth a =? o_group_depth b)%Z && (o_group_kind a =? o_group_kind b)%Z && (o_group_subkind a =? o_group_subkind b)%Z &&
  (o_pci_class a =? o_pci_class b)%Z && (o_os_types a =? o_os_types b)%Z.

Definition level_eqb (a b : level) : bool :=
  (l_depth a =? l_depth b)%Z && (l_type a =? l_type b)%Z && (l_width a =? l_width b) &&
  list_eqb ptr_eqb' (l_ids a) (l_ids b) && ptr_eqb' (l_probe a) (l_probe b).

Definition dump_eqb (a b : dump) : bool :=
  (t_flags a =? t_flags b) && (t_depth a =? t_depth b)%Z && (t_nobj a =? t_nobj b) &&
  list_eqb N.eqb (t_filters a) (t_filters b) &&
  opt_eqb bs_eqb (t_acpu a) (t_acpu b) && opt_eqb bs_eqb (t_anode a) (t_anode b) &&
  list_eqb level_eqb (t_levels a) (t_levels b) && list_eqb Z.eqb (t_tdepths a) (t_tdepths b) &&
  list_eqb dobj_eqb (t_objs a) (t_objs b).

Definition einval_identity (before after : dump) : list viol :=
  chk (dump_eqb before after) "topology-changed-by-failed-restrict" 0.
