(* C12 — hwloc__topology_dup as a duplication of a tree of blocks (Topo/Heap.v).

   The raw tree of a topology (harness/hwv_ptree.h prints it from the private
   structures) has one node per heap block; [dup_tree] is what
   hwloc__topology_dup / hwloc__duplicate_object / hwloc_internal_distances_dup /
   hwloc_internal_memattrs_dup / hwloc_internal_cpukinds_dup /
   hwloc__tma_dup_infos / hwloc_bitmap_tma_dup make of it, field by field:

     COwn  -> a fresh block of [ksize kind n] bytes holding the copied cells
     CV    -> same value, except the fields the code resets or recomputes ([ncell_leaf])
     COpq  -> same pointer (shared), except the ones the code drops (-> NULL)
     CLink -> same object index, except the cached object pointers (-> NULL:
              dist->objs[], memattr target / initiator objects)
     fields the code never writes -> CUndef (none left since fix 52a0c75 copies the grouping settings)

   The block sizes come from Gen/Tables.v (sizeof of the current structs).
   The order of the requests in C differs from the pre-order of the ownership
   tree only at the top level (root object, level arrays): [c_sizes] is the C
   order, compared with the logged sequence of the real library. *)
From Coq Require Import List NArith Bool String.
From HV Require Import Gen.Tables Topo.Heap.
Import ListNotations.
Local Open Scope N_scope.

(* block kinds: harness/hwv_ptree.h enum *)
Definition K_TOPO := 0.   Definition K_SUP_DISC := 1. Definition K_SUP_CPU := 2.  Definition K_SUP_MEM := 3.
Definition K_SUP_MISC := 4. Definition K_LEVELS := 5. Definition K_NBOBJS := 6.   Definition K_LEVEL := 7.
Definition K_OBJ := 8.    Definition K_ATTR := 9.     Definition K_STR := 10.     Definition K_PAGETYPES := 11.
Definition K_BITMAP := 12. Definition K_ULONGS := 13. Definition K_INFOS := 14.   Definition K_CHILDREN := 15.
Definition K_DIST := 16.  Definition K_DTYPES := 17.  Definition K_U64 := 18.     Definition K_DOBJS := 19.
Definition K_MEMATTRS := 20. Definition K_TARGETS := 21. Definition K_INITIATORS := 22. Definition K_KINDS := 23.

(* bytes requested for a block: element size of the kind times the element count *)
Definition ksize (k n : N) : N := nth (N.to_nat k) DUP_ELT_SIZE 0 * n.

(* positions of the cells of struct hwloc_topology (order of pt_topo_vals / hwv_ptree) *)
Definition P_MODIFIED := 45.        Definition P_USERDATA := 47.       Definition P_NEXT_GP := 48.
Definition P_ADOPT_ADDR := 49.      Definition P_ADOPT_LEN := 50.      Definition P_EXPORT_CB := 70.
Definition P_IMPORT_CB := 71.       Definition P_NR_KINDS := 76.       Definition P_NR_KINDS_ALLOC := 77.
Definition P_GROUPING_FIRST := 78.  Definition P_GROUPING_LAST := 86.  Definition P_BACKENDS := 87.
Definition P_PCI_BACKEND := 88.     Definition P_PHASES := 89.         Definition P_EXCL_PHASES := 90.
Definition P_TMA := 91.             Definition TOPO_NVALS := 92.
Definition P_SLEVEL_FIRST := 98.    Definition P_SLEVEL_LAST := 103.   Definition P_KINDS := 112.
Definition P_MEMATTRS := 111.
(* struct hwloc_obj *)
Definition P_OBJ_USERDATA := 12.    Definition P_OBJ_ATTR := 18.       Definition P_OBJ_PAGETYPES := 21.  Definition P_OBJ_CHILDREN := 29.
Definition OBJ_NPRE := 18.
(* strides of the arrays of structs *)
Definition MEMATTR_STRIDE := 5.  Definition TARGET_STRIDE := 7.  Definition INITIATOR_STRIDE := 5.

(* what the dup code makes of a non-owning cell at position [i] of a block of kind [k];
   [all] = the cells of the block, [nobj] = number of objects of the topology *)
Definition ncell_leaf (nobj k i : N) (all : list cell) (c : cell) : cell :=
  match c with
  | CV v =>
    if k =? K_TOPO then
      if i =? P_MODIFIED then CV 0                                 (* new->modified = 0 *)
      else if i =? P_NEXT_GP then CV (v + (nobj - 1))               (* hwloc_alloc_setup_object bumps it for every non-root object *)
      else if i =? P_ADOPT_LEN then CV 0
      else if i =? P_NR_KINDS_ALLOC then nth (N.to_nat P_NR_KINDS) all (CV v)   (* nr_cpukinds_allocated = old->nr_cpukinds *)
      else if (i =? P_PHASES) || (i =? P_EXCL_PHASES) then CV 0    (* hwloc_topology_components_init *)
      else CV v
    else if k =? K_DIST then
      if i =? 4 then CV (N.ldiff v HWLOC_INTERNAL_DIST_FLAG_OBJS_VALID) else CV v
    else if k =? K_MEMATTRS then
      if i mod MEMATTR_STRIDE =? 2 then CV (N.ldiff v (N.lor HWLOC_IMATTR_FLAG_STATIC_NAME HWLOC_IMATTR_FLAG_CACHE_VALID)) else CV v
    else CV v
  | COpq g =>
    if k =? K_TOPO then
      if (i =? P_USERDATA) || (i =? P_ADOPT_ADDR) || (i =? P_BACKENDS) || (i =? P_PCI_BACKEND) || (i =? P_TMA)
         || ((P_SLEVEL_FIRST <=? i) && (i <=? P_SLEVEL_LAST)) || (i =? P_KINDS)
      then CNull else COpq g
    else if (k =? K_OBJ) && (i =? P_OBJ_CHILDREN) then CNull
    else if (k =? K_MEMATTRS) && (i mod MEMATTR_STRIDE =? 4) then CNull     (* nr_targets == 0: nimattr->targets = NULL (fix 4d6acad) *)
    else if (k =? K_TARGETS) && (i mod TARGET_STRIDE =? 6) then CNull        (* nr_initiators == 0: nimtg->initiators = NULL (fix daa8755) *)
    else COpq g             (* obj.userdata, callbacks; and, as the code stands, the page_types pointer of a NUMA node with page_types_len == 0 *)
  | CLink id =>
    if k =? K_DOBJS then CNull
    else if (k =? K_TARGETS) && (i mod TARGET_STRIDE =? 0) then CNull
    else if (k =? K_INITIATORS) && (i mod INITIATOR_STRIDE =? 1) then CNull
    else CLink id
  | other => other      (* CNull stays NULL: memattrs of a NO_MEMATTRS topology since fix daa8755 (no malloc(0)) *)
  end.

Fixpoint norm (nobj : N) (t : tree) : tree :=
  match t with T k n cs =>
    T k n ((fix go (i : N) (l : list cell) : list cell :=
              match l with
              | [] => []
              | c :: r => (match c with COwn t' => COwn (norm nobj t') | _ => ncell_leaf nobj k i cs c end) :: go (i + 1) r
              end) 0 cs)
  end.

Fixpoint count_kind (k0 : N) (t : tree) : N :=
  match t with T k n cs =>
    (if k =? k0 then 1 else 0) +
    (fix go (l : list cell) : N :=
       match l with [] => 0 | c :: r => (match c with COwn t' => count_kind k0 t' | _ => 0 end) + go r end) cs
  end.

(* the raw tree of the copy, from the raw tree of the original *)
Definition dup_tree (t : tree) : tree := norm (count_kind K_OBJ t) t.

(* ---------------------------------------------------------------- request order of the C code *)
Definition csizes (cs : list cell) : list N :=
  flat_map (fun c => match c with COwn t => sizes ksize t | CZ => [0] | _ => [] end) cs.

Record topo_src := {
  ts_vals : list cell;       (* the TOPO_NVALS value / shared / link cells of struct hwloc_topology *)
  ts_sup : list cell;        (* support.discovery, cpubind, membind, misc *)
  ts_nl : N;                 (* nb_levels_allocated *)
  ts_level0 : cell; ts_levels : list cell;
  ts_nbobjs : cell;
  ts_slev : list cell;
  ts_acpu : cell; ts_anode : cell;
  ts_root_pre : list cell; ts_root_attr : cell; ts_root_rest : list cell;
  ts_tail : list cell        (* infos count, allocated, array; distances; memattrs; cpukinds *)
}.

Definition topo_tree (s : topo_src) : tree :=
  T K_TOPO 1 (ts_vals s ++ ts_sup s ++
              [COwn (T K_LEVELS (ts_nl s) (ts_level0 s :: ts_levels s)); ts_nbobjs s] ++ ts_slev s ++
              [ts_acpu s; ts_anode s; COwn (T K_OBJ 1 (ts_root_pre s ++ ts_root_attr s :: ts_root_rest s))] ++ ts_tail s).

(* hwloc__topology_init (topology, support x4, levels, level_nbobjects), hwloc_topology_setup_defaults
   (levels[0], root object, its attr), then hwloc__topology_dup: allowed sets, levels[1..], special
   levels, the root's contents and children, infos, distances, memattrs, cpukinds *)
Definition c_sizes (s : topo_src) : list N :=
  ksize K_TOPO 1 :: csizes (ts_vals s) ++ csizes (ts_sup s) ++ [ksize K_LEVELS (ts_nl s)] ++ csizes [ts_nbobjs s] ++
  csizes [ts_level0 s] ++ [ksize K_OBJ 1] ++ csizes (ts_root_pre s) ++ csizes [ts_root_attr s] ++
  csizes [ts_acpu s; ts_anode s] ++ csizes (ts_levels s) ++ csizes (ts_slev s) ++ csizes (ts_root_rest s) ++ csizes (ts_tail s).

Definition nthN {A} (l : list A) (i : N) (d : A) : A := nth (N.to_nat i) l d.
Definition firstnN {A} (i : N) (l : list A) := firstn (N.to_nat i) l.
Definition skipnN {A} (i : N) (l : list A) := skipn (N.to_nat i) l.

Definition view_topo (t : tree) : option topo_src :=
  match t with T k n cs =>
    if negb ((k =? K_TOPO) && (n =? 1)) then None else
    match nthN cs (TOPO_NVALS + 4) CNull, nthN cs 106 CNull with
    | COwn (T kl nl (l0 :: ls)), COwn (T ko no rcs) =>
      if negb ((kl =? K_LEVELS) && (ko =? K_OBJ) && (no =? 1)) then None else
      Some {| ts_vals := firstnN TOPO_NVALS cs; ts_sup := firstnN 4 (skipnN TOPO_NVALS cs); ts_nl := nl;
              ts_level0 := l0; ts_levels := ls; ts_nbobjs := nthN cs (TOPO_NVALS + 5) CNull;
              ts_slev := firstnN 6 (skipnN P_SLEVEL_FIRST cs); ts_acpu := nthN cs 104 CNull; ts_anode := nthN cs 105 CNull;
              ts_root_pre := firstnN OBJ_NPRE rcs; ts_root_attr := nthN rcs OBJ_NPRE CNull; ts_root_rest := skipnN (OBJ_NPRE + 1) rcs;
              ts_tail := skipnN 107 cs |}
    | _, _ => None
    end
  end.

(* driver entry points *)
Definition model_sizes (t : tree) : option (list N) :=
  match view_topo t with
  | Some s => if tree_eqb (topo_tree s) t && tree_eqb t (topo_tree s) then Some (c_sizes s) else None
  | None => None
  end.
Definition model_preorder_sizes (t : tree) : list N := sizes ksize t.
Definition model_wf (t : tree) : bool := wf_tree ksize t.

(* ---------------------------------------------------------------- declared sharing *)
Inductive pclass := PShared | PDropped.
(* pointer fields that are not owned blocks: (field name of hwv_ptree.h, kind, position) *)
Definition opaque_fields : list (string * N * N) :=
  [("topology.userdata"%string, K_TOPO, P_USERDATA); ("topology.adopted_shmem_addr"%string, K_TOPO, P_ADOPT_ADDR);
   ("topology.userdata_export_cb"%string, K_TOPO, P_EXPORT_CB); ("topology.userdata_import_cb"%string, K_TOPO, P_IMPORT_CB);
   ("topology.backends"%string, K_TOPO, P_BACKENDS); ("topology.get_pci_busid_cpuset_backend"%string, K_TOPO, P_PCI_BACKEND);
   ("topology.tma"%string, K_TOPO, P_TMA); ("slevels.objs(nbobjs=0)"%string, K_TOPO, P_SLEVEL_FIRST); ("cpukinds(nr=0)"%string, K_TOPO, P_KINDS);
   ("obj.userdata"%string, K_OBJ, P_OBJ_USERDATA); ("obj.attr.numanode.page_types(len=0)"%string, K_OBJ, P_OBJ_PAGETYPES);
   ("obj.children(arity=0)"%string, K_OBJ, P_OBJ_CHILDREN);
   ("memattr.targets(nr=0)"%string, K_MEMATTRS, 4); ("memattr.initiators(nr=0)"%string, K_TARGETS, 6)].
(* class of a field = what [ncell_leaf] does to an opaque pointer there *)
Definition class_of (k i : N) : pclass :=
  match ncell_leaf 1 k i [] (COpq 1) with COpq _ => PShared | _ => PDropped end.
Definition declared_classes : list (string * bool) :=
  map (fun f => match f with (nm, k, i) => (nm, match class_of k i with PShared => true | PDropped => false end) end) opaque_fields.
(* the fields the property allows to be shared *)
Definition allowed_shared : list string :=
  ["obj.userdata"%string; "topology.userdata_export_cb"%string; "topology.userdata_import_cb"%string].
