(* C01/C18: which objects the x86 backend asks the core to insert (hwloc/topology-x86.c: summarize(), full
   discovery), as a function of the per-PU information gathered by CPUID (struct procinfo: present, the eight ids,
   the unknown extended-topology levels, the cache descriptors), of the backend's found_*_ids switches, of the x86
   discovery flags and of the type filters.  The information is printed by the hook hwloc_verif_x86_cb at the very
   start of summarize(); the requests are compared one by one with the objects the backend hands to the core.
   The request record and the comparison are those of the Linux model (Topo/LinuxCpu.v). *)
From Coq Require Import List NArith ZArith Bool.
From HV Require Import Base.BSet Gen.Tables Text.TypeOrder Topo.LinuxCpu.
Import ListNotations.
Local Open Scope N_scope.

Record xcache := mkXC { xc_level : N; xc_type : N; xc_id : N }.
Record xproc := mkXP {
  xp_present : bool;
  xp_ids : list N;               (* PKG CORE NODE UNIT TILE MODULE DIE COMPLEX *)
  xp_levels : N;
  xp_other : option (list N);    (* otherids, NULL when the PU was not looked at *)
  xp_caches : list xcache
}.
Record xview := mkXV {
  xv_flags : N;                  (* HWLOC_X86_DISC_FLAG_FULL = 1, HWLOC_X86_DISC_FLAG_TOPOEXT_NUMANODES = 2 *)
  xv_die : bool; xv_complex : bool; xv_unit : bool; xv_module : bool; xv_tile : bool;
  xv_procs : list xproc
}.

Definition PKG : nat := 0.   Definition CORE : nat := 1.   Definition NODE : nat := 2.   Definition UNIT : nat := 3.
Definition TILE : nat := 4.  Definition MODULE : nat := 5. Definition DIE : nat := 6.    Definition COMPLEX : nat := 7.

Definition dummy_proc : xproc := mkXP false [] 0 None [].
Definition proc (v : xview) (i : N) : xproc := nth (N.to_nat i) (xv_procs v) dummy_proc.
Definition idof (p : xproc) (k : nat) : N := nth k (xp_ids p) X86_UINT_MAX.
Definition nbprocs (v : xview) : N := N.of_nat (List.length (xv_procs v)).
Definition indexes (v : xview) : list N := map N.of_nat (seq 0 (List.length (xv_procs v))).

(* complete_cpuset: the PUs that were looked at *)
Definition complete (v : xview) : bset :=
  fold_left (fun acc i => if xp_present (proc v i) then bs_add i acc else acc) (indexes v) bs_empty.

(* The loop every object kind is built with:
     remaining = complete;
     while ((i = first(remaining)) != -1) {
       if (skip(i)) { clr(remaining, i); continue; }
       set = {}; for (j = i; j < nbprocs; j++) { if (skip(j)) { clr(remaining, j); continue; }
                                                  if (same(i, j)) { set(set, j); clr(remaining, j); } }
       emit(i, set);
     }
   Note that j runs over ALL indexes >= i, looked at or not.  Candidates are visited in increasing order; "first of
   remaining" is the smallest candidate still in the set. *)
Section Classes.
  Variable skip : N -> bool.
  Variable same : N -> N -> bool.

  Definition class_of (i : N) (js : list N) : bset :=
    fold_left (fun acc j => if skip j then acc else if same i j then bs_add j acc else acc) js bs_empty.
  Definition clear_after (i : N) (js : list N) (remaining : bset) : bset :=
    fold_left (fun acc j => if skip j then bs_remove j acc else if same i j then bs_remove j acc else acc) js remaining.

  Fixpoint classes (cands : list N) (remaining : bset) : list (N * bset) :=
    match cands with
    | [] => []
    | i :: rest =>
        if mem i remaining then
          if skip i then classes rest (bs_remove i remaining)
          else (i, class_of i cands) :: classes rest (clear_after i cands remaining)
        else classes rest remaining
    end.
End Classes.

Definition eq_id (v : xview) (k : nat) (i j : N) : bool := idof (proc v i) k =? idof (proc v j) k.
Definition no_id (v : xview) (k : nat) (i : N) : bool := idof (proc v i) k =? X86_UINT_MAX.

Definition by_ids (v : xview) (skip : N -> bool) (same : N -> N -> bool) : list (N * bset) :=
  classes skip same (indexes v) (complete v).

(* hwloc_x86_add_groups *)
Definition group_reqs (v : xview) (k : nat) (kind : N) : list lreq :=
  map (fun '(i, set) => mkLReq HWLOC_OBJ_GROUP (idof (proc v i) k) set kind 0 false 0 0)
      (by_ids v (no_id v k) (fun i j => eq_id v PKG i j && eq_id v k i j)).

(* the last PU that was looked at *)
Definition last_present (v : xview) : option N :=
  fold_left (fun acc i => if xp_present (proc v i) then Some i else acc) (indexes v) None.

Definition other_at (p : xproc) (level : N) : option N :=
  match xp_other p with
  | Some l => if level <? xp_levels p then nth_error l (N.to_nat level) else None
  | None => None
  end.

(* unknown levels, from the outermost one (levels-1) down to 0, as the PU [one] describes them *)
Definition unknown_reqs (v : xview) : list lreq :=
  match last_present v with
  | Some one =>
      match xp_other (proc v one) with
      | Some _ =>
          flat_map (fun level =>
                      match other_at (proc v one) level with
                      | Some id =>
                          if id =? X86_UINT_MAX then []
                          else map (fun '(i, set) =>
                                      mkLReq HWLOC_OBJ_GROUP (match other_at (proc v i) level with Some x => x | None => 0 end) set
                                             X86_GROUP_KIND_INTEL_EXTTOPOENUM_UNKNOWN level false 0 0)
                                   (by_ids v (fun i => match other_at (proc v i) level with Some _ => false | None => true end)
                                           (fun i j => match other_at (proc v i) level, other_at (proc v j) level with
                                                       | Some a, Some b => a =? b | _, _ => false end))
                      | None => []
                      end)
                   (rev (map N.of_nat (seq 0 (N.to_nat (xp_levels (proc v one))))))
      | None => []
      end
  | None => []
  end.

Definition find_cache (p : xproc) (level ty : N) : option xcache :=
  find (fun c => (xc_level c =? level) && (xc_type c =? ty)) (xp_caches p).

Definition max_cache_level (v : xview) : N :=
  fold_left (fun acc p => fold_left (fun a c => N.max a (xc_level c)) (xp_caches p) acc) (xv_procs v) 0.

Definition cache_reqs_at (keep : N -> bool) (v : xview) (level ty : N) : list lreq :=
  match cache_otype level ty with
  | Some otype =>
      if keep otype then
        map (fun '(i, set) => mkLReq otype X86_UNKNOWN_INDEX set 0 0 false level ty)
            (by_ids v (fun i => match find_cache (proc v i) level ty with Some _ => false | None => true end)
                    (fun i j => eq_id v PKG i j &&
                                match find_cache (proc v i) level ty, find_cache (proc v j) level ty with
                                | Some a, Some b => xc_id a =? xc_id b | _, _ => false end))
      else []
  | None => []
  end.

(* levels from the highest one found down to 1; Unified, Data, Instruction at each *)
Definition x86_cache_reqs (keep : N -> bool) (v : xview) : list lreq :=
  flat_map (fun level => flat_map (cache_reqs_at keep v level) [HWLOC_OBJ_CACHE_UNIFIED; HWLOC_OBJ_CACHE_DATA; HWLOC_OBJ_CACHE_INSTRUCTION])
           (rev (map (fun k => N.of_nat k + 1) (seq 0 (N.to_nat (max_cache_level v))))).

Definition x86_full (v : xview) : bool := N.testbit (xv_flags v) 0.

(* summarize() under HWLOC_X86_DISC_FLAG_FULL; None otherwise (annotation mode looks at the existing topology) *)
Definition x86_requests (keep : N -> bool) (v : xview) : option (list lreq) :=
  if negb (x86_full v) then None
  else match last_present v with
  | None => Some []
  | Some _ =>
    let pk := if keep HWLOC_OBJ_PACKAGE then
                map (fun '(i, set) => simple_req HWLOC_OBJ_PACKAGE (idof (proc v i) PKG) set)
                    (by_ids v (fun _ => false) (eq_id v PKG))
              else [] in
    let numa := if N.testbit (xv_flags v) 1 then
                  map (fun '(i, set) => simple_req HWLOC_OBJ_NUMANODE (idof (proc v i) NODE) set)
                      (by_ids v (no_id v NODE) (fun i j => eq_id v PKG i j && eq_id v NODE i j))
                else [] in
    let groups := if keep HWLOC_OBJ_GROUP then
                    (if xv_unit v then group_reqs v COMPLEX X86_GROUP_KIND_AMD_COMPLEX else []) ++
                    (if xv_unit v then group_reqs v UNIT X86_GROUP_KIND_AMD_COMPUTE_UNIT else []) ++
                    (if xv_module v then group_reqs v MODULE X86_GROUP_KIND_INTEL_MODULE else []) ++
                    (if xv_tile v then group_reqs v TILE X86_GROUP_KIND_INTEL_TILE else []) ++
                    unknown_reqs v
                  else [] in
    let die := if xv_die v && keep HWLOC_OBJ_DIE then
                 map (fun '(i, set) => simple_req HWLOC_OBJ_DIE (idof (proc v i) DIE) set)
                     (by_ids v (no_id v DIE) (fun i j => eq_id v PKG i j && eq_id v DIE i j))
               else [] in
    let core := if keep HWLOC_OBJ_CORE then
                  map (fun '(i, set) => simple_req HWLOC_OBJ_CORE (idof (proc v i) CORE) set)
                      (by_ids v (no_id v CORE) (fun i j => eq_id v PKG i j && eq_id v NODE i j && eq_id v CORE i j))
                else [] in
    let pus := flat_map (fun i => if xp_present (proc v i) then [simple_req HWLOC_OBJ_PU i (bs_single i)] else []) (indexes v) in
    Some (pk ++ numa ++ groups ++ die ++ core ++ pus ++ x86_cache_reqs keep v)
  end.

(* ---------- correspondence ---------- *)

(* Some (agree, number of requests of the model); None: not a full discovery *)
Definition x86_agrees (filters : list N) (v : xview) (observed : list obs) : option (bool * nat) :=
  let keep := fun ty => negb (nthN filters ty HWLOC_TYPE_FILTER_KEEP_ALL =? HWLOC_TYPE_FILTER_KEEP_NONE) in
  match x86_requests keep v with
  | Some ms => Some (is_infix ms observed, List.length ms)
  | None => None
  end.
