(* C01: the put-back path of hwloc___insert_object_by_cpuset is never taken when the cpuset of OBJ is nested in or
   disjoint from the cpuset of every object of the tree - which is what a backend whose requests form a laminar
   family provides (the synthetic backend: SynthBuildProofs.synthetic_requests_spec).  This discharges the
   "out <> OFail" premise of the discovery theorems of DiscInsertProofs / DiscPresenceProofs for such backends. *)
From Coq Require Import List NArith ZArith Bool Lia.
From HV Require Import Base.BSet Gen.Tables Text.TypeOrder Topo.Dump Topo.WFCheck Topo.Obj Topo.Insert Topo.Api Topo.ApiProofs Topo.InsertProofs Topo.DiscInsertProofs Topo.DiscPresenceProofs.
Import ListNotations.
Local Open Scope N_scope.

Definition lam2 (a b : bset) : Prop := sub a b \/ sub b a \/ disj a b.

Lemma type_cmp_never_intersects a b : type_cmp a b <> INTERSECTS.
Proof.
  unfold type_cmp. destruct (_ =? _)%Z; [discriminate|]. destruct (_ <? _)%Z; [discriminate|].
  destruct (_ <? _)%Z; [discriminate|]. destruct (_ && _); discriminate.
Qed.

Lemma cmp_incl_INTERSECTS a b : cmp_incl a b = INTERSECTS -> ~ lam2 a b.
Proof.
  unfold cmp_incl. destruct (bs_eqb a b); [discriminate|].
  destruct (bs_subset a b) eqn:S1; [discriminate|]. destruct (bs_subset b a) eqn:S2; [discriminate|].
  destruct (bs_intersects a b) eqn:I; [|discriminate]. intros _ [H|[H|H]].
  - assert (bs_subset a b = true) by (apply bs_subset_spec; exact H). congruence.
  - assert (bs_subset b a = true) by (apply bs_subset_spec; exact H). congruence.
  - apply bs_intersects_spec in I as (i & Ha & Hb). exact (H i Ha Hb).
Qed.

Lemma verdict_fail_not_laminar dms dm_new od c :
  wfk od -> wfk (odata c) -> vd dms dm_new od c = VFail -> ~ lam2 (dcs od) (okey c).
Proof.
  intros Hod Hc. unfold vd, verdict_of. destruct (cmp_sets od (odata c)) eqn:E; try discriminate.
  - destruct (try_merge_group _ _ _ _); try discriminate.
    destruct (type_cmp od (odata c)) eqn:T; try discriminate. exfalso. exact (type_cmp_never_intersects _ _ T).
  - intros _. apply cmp_sets_incl in E; [|assumption|assumption|discriminate]. apply cmp_incl_INTERSECTS, E.
Qed.

Section Loop.
  Variable rec : obj -> obj -> obj * outcome.
  Variable dms : list N.
  Variable dm_new : bool.
  Variable d : dobj.
  Variables m i x : list obj.
  Variable od : dobj.

  Lemma ins_loop_never_fails : forall l kept_rev taken putp o,
    odata o = od ->
    Forall (fun c => vd dms dm_new od c <> VFail /\ forall o', odata o' = od -> snd (rec c o') <> OFail) l ->
    snd (ins_loop rec dms dm_new d m i x l kept_rev taken putp o) <> OFail.
  Proof.
    induction l as [|c tl IH]; intros kept_rev taken putp o Ho Hall.
    - cbn [ins_loop snd]. discriminate.
    - inversion Hall as [|c0 tl0 [Hv Hr] Htl]; subst c0 tl0. cbn [ins_loop]. rewrite Ho. fold (vd dms dm_new od c).
      destruct (vd dms dm_new od c) as [| | | | | |mt] eqn:V; cbn [snd]; try discriminate.
      + specialize (Hr o Ho). destruct (rec c o) as [c' r]. cbn [snd] in *. exact Hr.
      + contradiction.
      + apply IH; assumption.
      + destruct mt; apply IH; try assumption. rewrite odata_with_mchildren. exact Ho.
  Qed.
End Loop.

Theorem laminar_insert_never_fails dms dm_new od (Hod : wfk od) : forall cur,
  Forall (fun c => wfk (odata c) /\ lam2 (dcs od) (okey c)) (nflattens (onch cur)) ->
  forall o, odata o = od -> snd (insert_by_cpuset dms dm_new cur o) <> OFail.
Proof.
  induction cur as [d n m i x IHn _ _ _] using obj_ind4. intros Hall o Ho.
  cbn [insert_by_cpuset]. apply (ins_loop_never_fails (insert_by_cpuset dms dm_new) dms dm_new d m i x od); [exact Ho|].
  cbn [onch] in Hall. unfold nflattens in Hall. rewrite Forall_forall in *. intros c Hc. split.
  - intros V. assert (Hin : In c (flat_map nflatten n)).
    { apply in_flat_map. exists c. split; [exact Hc|]. rewrite nflatten_eq. left; reflexivity. }
    destruct (Hall c Hin) as [Hw Hl]. exact (verdict_fail_not_laminar dms dm_new od c Hod Hw V Hl).
  - intros o' Ho'. apply (IHn c Hc); [|exact Ho'].
    apply Forall_forall. intros y Hy. apply Hall. apply in_flat_map. exists c. split; [exact Hc|].
    rewrite nflatten_eq. right. exact Hy.
Qed.

(* a whole discovery whose requested cpusets are pairwise nested or disjoint: the put-back is never taken, so
   the run only depends on the other hypotheses (usable cpusets, no unmergeable equal Groups) *)
Definition key_of (s : dstep) : bset := dcs (odata (step_obj s)).

Fixpoint run_model (root : obj) (steps : list dstep) : obj :=
  match steps with
  | [] => root
  | (dms, dm, o) :: rest => run_model (fst (insert_by_cpuset dms dm root o)) rest
  end.

Theorem laminar_discovery_runs root steps :
  disc_ord root -> onch root = [] ->
  ForallOrdPairs (fun a b => lam2 (key_of a) (key_of b) /\ lam2 (key_of b) (key_of a)) steps ->
  (* the remaining hypotheses, on the states the model goes through *)
  (forall pre dms dm o post, steps = pre ++ (dms, dm, o) :: post -> disc_hyp dms dm (run_model root pre) o) ->
  disc_run root steps (run_model root steps).
Proof.
  intros Hord Hbare Hlam Hhyp.
  (* invariant: every object below the current root carries the cpuset of an earlier step *)
  assert (G : forall steps done root0,
             disc_ord root0 ->
             (forall y, In y (npays (onch root0)) -> exists s, In s done /\ dcs y = key_of s) ->
             Forall (fun s => Forall (fun t => lam2 (key_of s) (key_of t)) done) steps ->
             ForallOrdPairs (fun a b => lam2 (key_of a) (key_of b) /\ lam2 (key_of b) (key_of a)) steps ->
             (forall pre dms dm o post, steps = pre ++ (dms, dm, o) :: post -> disc_hyp dms dm (run_model root0 pre) o) ->
             disc_run root0 steps (run_model root0 steps)).
  { clear. induction steps as [|[[dms dm] o] rest IH]; intros done root0 Hord Hfrom Hdone Hlam Hhyp; [constructor|].
    cbn [run_model].
    pose proof (Hhyp [] dms dm o rest eq_refl) as Hh. cbn [run_model] in Hh.
    destruct (insert_by_cpuset dms dm root0 o) as [root1 out] eqn:E. cbn [fst].
    inversion Hdone as [|s0 l0 Hd0 Hdrest]; subst s0 l0.
    inversion Hlam as [|s0 l0 Hl0 Hlrest]; subst s0 l0.
    assert (Hout : out <> OFail).
    { destruct Hh as (Hod & _ & _).
      assert (HALL : Forall (fun c => wfk (odata c) /\ lam2 (dcs (odata o)) (okey c)) (nflattens (onch root0))); [|
        pose proof (laminar_insert_never_fails dms dm (odata o) Hod root0 HALL o eq_refl) as L; rewrite E in L; exact L].
      apply Forall_forall. intros c Hc. split.
      - destruct Hord as [_ Hch]. rewrite Forall_forall in Hch. unfold nflattens in Hc. apply in_flat_map in Hc as (c0 & Hc0 & Hc).
        assert (T : forall t, tree_ord t -> forall y, In y (nflatten t) -> wfk (odata y)).
        { induction t as [d n m i x IHn _ _ _] using obj_ind4. intros Hok y Hy. rewrite nflatten_eq in Hy.
          destruct Hy as [<-|Hy]; [apply tree_ord_wfk, Hok|]. inversion Hok as [d0 n0 m0 i0 x0 _ _ Hc1]; subst.
          cbn [onch] in Hy. unfold nflattens in Hy. apply in_flat_map in Hy as (c1 & Hc1' & Hy). rewrite Forall_forall in *.
          apply (IHn c1 Hc1' (Hc1 c1 Hc1') y Hy). }
        apply (T c0 (Hch c0 Hc0) c Hc).
      - assert (Hy : In (odata c) (npays (onch root0))).
        { unfold npays, npay. unfold nflattens in Hc. apply in_flat_map in Hc as (c0 & Hc0 & Hc).
          apply in_flat_map. exists c0. split; [exact Hc0|apply in_map, Hc]. }
        destruct (Hfrom _ Hy) as (s & Hs & Ks). unfold okey. rewrite Ks.
        rewrite Forall_forall in Hd0. apply (Hd0 s Hs). }
    econstructor; [exact Hh|exact E|exact Hout|].
    destruct (insert_root_keeps_ord dms dm root0 o root1 out Hord Hh E Hout) as [Hord1 _].
    pose proof (insert_root_keeps_kids dms dm root0 o root1 out Hord Hh E Hout) as K.
    apply (IH ((dms, dm, o) :: done) root1 Hord1).
    - intros y Hy.
      destruct (kk_new _ _ _ _ K y Hy) as [->|H].
      + exists (dms, dm, o). split; [left; reflexivity|reflexivity].
      + destruct (Hfrom y H) as (s & Hs & Ks). exists s. split; [right; exact Hs|exact Ks].
    - apply Forall_forall. intros s Hs. constructor.
      + rewrite Forall_forall in Hl0. apply (proj2 (Hl0 s Hs)).
      + rewrite Forall_forall in Hdrest. apply Hdrest, Hs.
    - exact Hlrest.
    - intros pre dms' dm' o' post Epre. specialize (Hhyp ((dms, dm, o) :: pre) dms' dm' o' post).
      cbn [app run_model] in Hhyp. rewrite E in Hhyp. cbn [fst] in Hhyp. apply Hhyp. now rewrite Epre. }
  apply (G steps [] root Hord).
  - rewrite Hbare. intros y [].
  - apply Forall_forall. intros s _. constructor.
  - exact Hlam.
  - exact Hhyp.
Qed.

(* executable form and non-vacuity *)
Definition lam2b (a b : bset) : bool := bs_subset a b || bs_subset b a || negb (bs_intersects a b).
Lemma lam2b_sound a b : lam2b a b = true -> lam2 a b.
Proof.
  unfold lam2b, lam2. intros H. apply orb_true_iff in H as [H|H]; [apply orb_true_iff in H as [H|H]|].
  - left. apply subset_sub, H.
  - right; left. apply subset_sub, H.
  - right; right. apply intersects_false_disj. apply negb_true_iff, H.
Qed.

Definition laminar_withb (od : dobj) (cur : obj) : bool :=
  forallb (fun c => wfkb (odata c) && lam2b (dcs od) (okey c)) (nflattens (onch cur)).
Lemma laminar_withb_sound od cur : laminar_withb od cur = true ->
  Forall (fun c => wfk (odata c) /\ lam2 (dcs od) (okey c)) (nflattens (onch cur)).
Proof.
  unfold laminar_withb. intros H. rewrite forallb_forall in H. apply Forall_forall. intros c Hc.
  specialize (H c Hc). apply andb_true_iff in H as [H1 H2]. split; [apply wfkb_wfk, H1|apply lam2b_sound, H2].
Qed.

(* on the tree built by DiscInsertProofs.example_steps: a Group over cpus 0-7 contains or misses everything
   (never put back: it takes both Packages); one over cpus 1-2 straddles the two Cores and is put back *)
Example laminar_never_fails_example :
  exists r, disc_runb bare_root example_steps = Some r /\
    laminar_withb (odata (rq HWLOC_OBJ_GROUP 20 255)) r = true /\
    snd (insert_by_cpuset [] false r (rq HWLOC_OBJ_GROUP 20 255)) = OInserted /\
    laminar_withb (odata (rq HWLOC_OBJ_GROUP 20 6)) r = false /\
    snd (insert_by_cpuset [] false r (rq HWLOC_OBJ_GROUP 20 6)) = OFail.
Proof.
  destruct (disc_runb bare_root example_steps) as [r|] eqn:E; [|vm_compute in E; discriminate E].
  exists r. split; [reflexivity|]. vm_compute in E. injection E as <-. repeat split; vm_compute; reflexivity.
Qed.
