(* C01/C02: model of the insertion of memory objects (NUMA nodes, memory-side caches) on the
   inductive tree of Topo/Obj.v (hwloc/topology.c):
     hwloc__find_obj_covering_memory_cpuset, hwloc__find_insert_memory_parent,
     hwloc___attach_memory_object_by_nodeset, and the checks of hwloc__attach_memory_object.
   Every backend that discovers NUMA nodes (synthetic, Linux, x86...) goes through these
   functions; the XML backend does not (it links what the document says). *)
From Coq Require Import List NArith ZArith Bool.
From HV Require Import Base.BSet Gen.Tables Text.TypeOrder Topo.Dump Topo.WFCheck Topo.Obj Topo.Insert.
Import ListNotations.
Local Open Scope N_scope.

(* hwloc_bitmap_first() stored in an unsigned: -1 (empty set) becomes UINT_MAX *)
Definition UINT_MAX : N := 4294967295.
Definition first_u (s : option bset) : N :=
  match s with
  | Some b => match bs_first b with Some k => k | None => UINT_MAX end
  | None => UINT_MAX
  end.

Definition cdepth (o : obj) : Z := o_cache_depth (odata o).

(* ---------- hwloc___attach_memory_object_by_nodeset ---------- *)

Inductive ares :=
| AOk                (* returns obj: linked *)
| ANull.             (* returns NULL: identical NUMA node, or memory-side cache of the same depth *)

Section Att.
  Variable rec : obj -> obj -> obj * ares.   (* the recursive call on a memory child *)

  (* walk of the memory children list of PARENT; the new list and the result *)
  Fixpoint att_loop (l : list obj) (o : obj) {struct l} : list obj * ares :=
    match l with
    | [] => ([with_mchildren o []], AOk)                                   (* append to the end of the list *)
    | cur :: tl =>
        let f := first_u (o_nds (odata o)) in
        let cf := first_u (o_nds (odata cur)) in
        if f <? cf then (with_mchildren o [] :: cur :: tl, AOk)          (* insert before cur *)
        else if f =? cf then
          if otype o =? HWLOC_OBJ_NUMANODE then
            if otype cur =? HWLOC_OBJ_NUMANODE then (l, ANull)             (* identical NUMA nodes: ignore the new one *)
            else let '(cur', r) := rec cur o in (cur' :: tl, r)            (* below that existing memcache *)
          else
            if (otype cur =? HWLOC_OBJ_MEMCACHE) && (cdepth cur =? cdepth o)%Z then (l, ANull)
            else if (otype cur =? HWLOC_OBJ_MEMCACHE) && (cdepth o <? cdepth cur)%Z then
              let '(cur', r) := rec cur o in (cur' :: tl, r)
            else (with_mchildren o [cur] :: tl, AOk)                       (* above the existing memcache or NUMA node *)
        else let '(tl', r) := att_loop tl o in (cur :: tl', r)
    end.
End Att.

Fixpoint attach_by_nodeset (parent o : obj) {struct parent} : obj * ares :=
  match parent with
  | Obj d n m i x => let '(m', r) := att_loop attach_by_nodeset m o in (Obj d n m' i x, r)
  end.

(* ---------- hwloc__find_obj_covering_memory_cpuset ---------- *)

Definition covers (cs : bset) (c : obj) : bool :=
  match o_cs (odata c) with Some s => bs_subset cs s | None => false end.
Definition cs_equal (cs : bset) (c : obj) : bool :=
  match o_cs (odata c) with Some s => bs_eqb s cs | None => false end.

(* returns the object and its parent (None when the object is [parent] itself, whose parent the caller knows) *)
Fixpoint covering (parent : obj) (up : option obj) (cs : bset) {struct parent} : obj * option obj :=
  match parent with
  | Obj _ n _ _ _ =>
      if bs_is_empty cs then (parent, up)         (* hwloc_get_child_covering_cpuset returns NULL on an empty set *)
      else
        (fix go (l : list obj) : obj * option obj :=
           match l with
           | [] => (parent, up)
           | c :: tl =>
               if covers cs c then (if cs_equal cs c then (c, Some parent) else covering c (Some parent) cs)
               else go tl
           end) n
  end.

(* ---------- rewriting one object of a tree, found by its dump id ---------- *)

Section At.
  Context {R : Type}.
  Variable id : N.
  Variable f : obj -> obj * R.
  Variable dflt : R.

  Fixpoint apply_at (t : obj) {struct t} : obj * option R :=
    if oid t =? id then let '(t', r) := f t in (t', Some r)
    else
      match t with
      | Obj d n m i x =>
          let go := fix go (l : list obj) : list obj * option R :=
            match l with
            | [] => ([], None)
            | c :: tl =>
                match apply_at c with
                | (c', Some r) => (c' :: tl, Some r)
                | (_, None) => let '(tl', r) := go tl in (c :: tl', r)
                end
            end in
          match go n with
          | (n', Some r) => (Obj d n' m i x, Some r)
          | (_, None) =>
              match go m with
              | (m', Some r) => (Obj d n m' i x, Some r)
              | (_, None) => (t, None)
              end
          end
      end.
End At.

(* ---------- hwloc__find_insert_memory_parent ---------- *)

Inductive fres :=
| FParent (gp : option N)      (* the returned parent, by gp_index *)
| FAbort.                      (* assert(result == group) would fire *)

Definition memory_group (o : dobj) (ggp : option N) : dobj :=
  mkDobj 0 HWLOC_OBJ_GROUP 0%Z UINT_MAX ggp PNull PNull PNull PNull PNull PNull PNull
         0 0 0 0 0 0 None [] [] [] [] (o_cs o) (o_ccs o) None None 0 0
         (-1)%Z (-1)%Z 0%Z (Z.of_N HWLOC_GROUP_KIND_MEMORY) 0%Z (-1)%Z (-1)%Z.

(* [keep_group]: hwloc_filter_check_keep_object_type(GROUP); [ggp]: the gp_index the allocator gives to the
   intermediate Group; [dms]: Groups with dont_merge.  Returns the new tree and the parent to attach to. *)
Definition find_insert_memory_parent (keep_group : bool) (dms : list N) (ggp : option N) (root : obj) (o : dobj)
  : obj * fres :=
  let cs := match o_cs o with Some s => s | None => bs_empty end in
  (* CPU-less: reuse the CPU-less memory Group below the root that already holds a memory object sharing some of
     our nodes, e.g. the memory-side cache in front of this NUMA node (/repo 6bc5bae) *)
  let reuse :=
    if bs_is_empty cs then
      find (fun c => (otype c =? HWLOC_OBJ_GROUP) && (o_group_kind (odata c) =? Z.of_N HWLOC_GROUP_KIND_MEMORY)%Z &&
                     (match o_cs (odata c) with Some s => bs_is_empty s | None => false end) &&
                     existsb (fun m => match o_nds (odata m), o_nds o with
                                       | Some a, Some b => bs_intersects a b
                                       | _, _ => false
                                       end) (omch c)) (onch root)
    else None in
  match reuse with
  | Some g => (root, FParent (o_gp (odata g)))
  | None =>
  let '(parent, perfect) :=
    if bs_is_empty cs then (root, false)
    else
      let '(p, up) := covering root None cs in
      let p := if otype p =? HWLOC_OBJ_PU then match up with Some u => u | None => p end else p in
      (p, negb (oid p =? oid root) && cs_equal cs p) in
  if perfect then (root, FParent (o_gp (odata parent)))
  else if negb keep_group then (root, FParent (o_gp (odata parent)))
  else
    let g := memory_group o ggp in
    let '(root', r) := apply_at (oid parent) (fun p => insert_by_cpuset dms false p (Obj g [] [] [] [])) root in
    match r with
    | Some OInserted => (root', FParent ggp)
    | Some OFail => (root', FParent (o_gp (odata parent)))
    | Some _ => (root', FAbort)
    | None => (root, FAbort)
    end
  end.

(* ---------- the checks of hwloc__attach_memory_object, then the attachment below PARENT ---------- *)

Definition attach_memory_object (parent_id : N) (root : obj) (o : dobj) : obj * option ares :=
  apply_at parent_id (fun p => attach_by_nodeset p (Obj o [] [] [] [])) root.

(* ---------- correspondence helpers ---------- *)

Definition opt_bs_eqb (a b : option bset) : bool :=
  match a, b with Some x, Some y => bs_eqb x y | None, None => true | _, _ => false end.
Definition optN_eqb (a b : option N) : bool :=
  match a, b with Some x, Some y => x =? y | None, None => true | _, _ => false end.

(* the tree in DFS order with what an insertion may touch: identity, type, sets, children counts *)
Definition sig_of (c : obj) :=
  (o_gp (odata c), otype c, (o_cs (odata c), o_nds (odata c)),
   (List.length (onch c), List.length (omch c), List.length (oich c), List.length (oxch c))).
Definition sig_eqb (a b : obj) : bool :=
  optN_eqb (o_gp (odata a)) (o_gp (odata b)) && (otype a =? otype b) &&
  opt_bs_eqb (o_cs (odata a)) (o_cs (odata b)) && opt_bs_eqb (o_nds (odata a)) (o_nds (odata b)) &&
  Nat.eqb (List.length (onch a)) (List.length (onch b)) && Nat.eqb (List.length (omch a)) (List.length (omch b)) &&
  Nat.eqb (List.length (oich a)) (List.length (oich b)) && Nat.eqb (List.length (oxch a)) (List.length (oxch b)).
Fixpoint sigs_eqb (a b : list obj) : bool :=
  match a, b with
  | [], [] => true
  | x :: a', y :: b' => sig_eqb x y && sigs_eqb a' b'
  | _, _ => false
  end.
Definition tree_sig_eqb (a b : obj) : bool := sigs_eqb (flatten a) (flatten b).

(* find_insert_memory_parent: dump before (when=2, the new object is the unlinked entry [ins]) and after
   (when=3, [parent] is the dump id of the returned object) *)
Definition find_parent_tie (d2 d3 : dump) (ins parent3 : N) (dms : list N) : bool :=
  match tree_of_dump d2, get d2 ins, tree_of_dump d3, get d3 parent3 with
  | Some t2, Some o, Some t3, Some p3 =>
      let keep := negb (nthN (t_filters d2) HWLOC_OBJ_GROUP HWLOC_TYPE_FILTER_KEEP_ALL =? HWLOC_TYPE_FILTER_KEEP_NONE) in
      match find_insert_memory_parent keep dms (o_gp p3) t2 o with
      | (t', FParent g) => tree_sig_eqb t' t3 && optN_eqb g (o_gp p3)
      | (_, FAbort) => false
      end
  | _, _, _, _ => false
  end.

(* attach: dump before (when=4) and after (when=5); [linked] = the call returned obj *)
Definition attach_tie (d4 d5 : dump) (ins parent4 : N) (linked : bool) : bool :=
  match tree_of_dump d4, get d4 ins, tree_of_dump d5 with
  | Some t4, Some o, Some t5 =>
      match attach_memory_object parent4 t4 o with
      | (t', Some r) => tree_sig_eqb t' t5 && (match r with AOk => linked | ANull => negb linked end)
      | (_, None) => false
      end
  | _, _, _ => false
  end.
