(* The cursor-triple idiom of every hwloc printer:

     ssize_t size = buflen;  char *tmp = buf;  int res, ret = 0;
     if (buflen > 0) tmp[0] = '\0';                      -- [start]
     ...
     res = hwloc_snprintf(tmp, size, <piece>);           -- [emit]
     if (res < 0) return -1;
     ret += res;
     if (res >= size) res = size>0 ? (int)size - 1 : 0;
     tmp += res;  size -= res;
     ...
     return ret;

   hwloc_snprintf(tmp, size, piece) is C99 snprintf (HWLOC_HAVE_CORRECT_SNPRINTF;
   the fallback of misc.c has the same contract): it returns |piece| and, when
   size > 0, stores  firstn (size-1) piece ++ [0]  at tmp; with size = 0 it
   stores nothing (tmp may be NULL).  vsnprintf never fails for the %d / %lx /
   %s formats used (trusted), so res < 0 does not occur.

   The caller's buffer is a [list N] of exactly buflen bytes ([] for NULL/0);
   every store is checked: an emit that would store at an index >= buflen makes
   the run [None].  [emit_all_contract] is proved once, by induction over the
   list of pieces; a printer model only has to say which pieces it emits. *)
From Coq Require Import NArith PeanoNat List Bool Lia.
Import ListNotations.

Record pstate := PS { ps_ret : nat; ps_pos : nat; ps_size : nat; ps_buf : list N }.

(* checked store of [bytes] at offset [pos] *)
Definition store (buf : list N) (pos : nat) (bytes : list N) : option (list N) :=
  if pos + length bytes <=? length buf
  then Some (firstn pos buf ++ bytes ++ skipn (pos + length bytes) buf)
  else None.

(* state after "if (buflen > 0) tmp[0] = 0" on the caller's buffer *)
Definition start (init : list N) : pstate :=
  PS 0 0 (length init) (match init with [] => [] | _ :: t => 0%N :: t end).

(* what snprintf(tmp, size, piece) stores *)
Definition snprintf_bytes (size : nat) (piece : list N) : list N :=
  firstn (size - 1) piece ++ [0%N].

Definition emit (st : pstate) (piece : list N) : option pstate :=
  let res := length piece in
  let buf' := if ps_size st =? 0 then Some (ps_buf st)
              else store (ps_buf st) (ps_pos st) (snprintf_bytes (ps_size st) piece) in
  match buf' with
  | None => None
  | Some b =>
    let adv := if ps_size st <=? res then ps_size st - 1 else res in
    Some (PS (ps_ret st + res) (ps_pos st + adv) (ps_size st - adv) b)
  end.

Definition emit_opt (o : option pstate) (piece : list N) : option pstate :=
  match o with Some st => emit st piece | None => None end.

(* the whole printer: start, then every piece in order *)
Definition emit_all (init : list N) (pieces : list (list N)) : option pstate :=
  fold_left emit_opt pieces (Some (start init)).

(* a final "ret += hwloc_snprintf(tmp, size, piece)" without cursor update, as in
   the "if (!ret) 0x0" tail of the bitmap printers: same stores, same ret *)
Definition emit_last := emit.

(* ------------------------------------------------------------------ *)
(* invariant after the pieces whose concatenation is s *)
Definition inv (init : list N) (s : list N) (st : pstate) : Prop :=
  ps_ret st = length s /\
  match length init with
  | O => ps_size st = 0 /\ ps_pos st = 0 /\ ps_buf st = []
  | S n => ps_pos st = Nat.min (length s) n /\ ps_size st = S n - ps_pos st /\
           ps_buf st = firstn (ps_pos st) s ++ [0%N] ++ skipn (S (ps_pos st)) init
  end.

Lemma skipn_skipn' {A} a b (l : list A) : skipn a (skipn b l) = skipn (b + a) l.
Proof.
  revert l. induction b as [|b IH]; intros l; [reflexivity|].
  destruct l as [|x l]; simpl; [now destruct a|apply IH].
Qed.

Lemma inv_start init : inv init [] (start init).
Proof.
  unfold inv, start. destruct init as [|b t]; simpl; [auto|].
  repeat split; try lia.
Qed.

Lemma inv_emit init s st p :
  inv init s st -> exists st', emit st p = Some st' /\ inv init (s ++ p) st'.
Proof.
  unfold inv. intros [Hret Hrest]. unfold emit.
  destruct (length init) as [|n] eqn:Elen.
  - destruct Hrest as [Hsz [Hpos Hbuf]]. rewrite Hsz. cbn [Nat.eqb Nat.leb Nat.sub].
    eexists. split; [reflexivity|]. cbn [ps_ret ps_pos ps_size ps_buf].
    rewrite app_length. repeat split; try lia; assumption.
  - destruct Hrest as [Hpos [Hsz Hbuf]].
    set (pos := ps_pos st) in *. set (size := ps_size st) in *.
    assert (Hsz1 : 1 <= size) by lia.
    destruct (Nat.eqb_spec size 0) as [E0|_]; [lia|].
    set (k := Nat.min (length p) (size - 1)).
    assert (Hk : length (snprintf_bytes size p) = S k).
    { unfold snprintf_bytes. rewrite app_length, firstn_length. simpl. lia. }
    assert (Hbl : length (ps_buf st) = S n).
    { rewrite Hbuf. rewrite !app_length, firstn_length, skipn_length. simpl. lia. }
    unfold store. rewrite Hk, Hbl.
    destruct (Nat.leb_spec (pos + S k) (S n)) as [_|Hbad]; [|lia].
    eexists. split; [reflexivity|]. cbn [ps_ret ps_pos ps_size ps_buf].
    set (adv := if size <=? length p then size - 1 else length p).
    assert (Hadv : adv = k).
    { unfold adv, k. destruct (Nat.leb_spec size (length p)); lia. }
    rewrite Hadv. rewrite app_length. split; [lia|]. split; [lia|]. split; [lia|].
    (* the list equation *)
    assert (F1 : firstn pos (ps_buf st) = firstn pos s).
    { rewrite Hbuf. rewrite firstn_app, firstn_firstn, Nat.min_id.
      rewrite firstn_length. replace (pos - Nat.min pos (length s)) with 0 by lia.
      simpl. apply app_nil_r. }
    assert (F2 : skipn (pos + S k) (ps_buf st) = skipn (S (pos + k)) init).
    { rewrite Hbuf. rewrite app_assoc. rewrite skipn_app.
      rewrite app_length, firstn_length. simpl length.
      replace (Nat.min pos (length s) + 1) with (S pos) by lia.
      rewrite skipn_all2 by (rewrite app_length, firstn_length; simpl; lia).
      replace (pos + S k - S pos) with k by lia.
      rewrite skipn_skipn'. reflexivity. }
    rewrite F1, F2. unfold snprintf_bytes.
    replace (firstn (size - 1) p) with (firstn k p)
      by (unfold k; destruct (Nat.le_ge_cases (length p) (size - 1));
          [rewrite Nat.min_l by lia; rewrite !firstn_all2 by lia; reflexivity
          |rewrite Nat.min_r by lia; reflexivity]).
    rewrite <- !app_assoc. rewrite app_assoc. f_equal.
    rewrite firstn_app.
    destruct (Nat.le_gt_cases (length s) n) as [Hle|Hgt].
    + (* not truncated so far: pos = |s| *)
      assert (pos = length s) by lia.
      replace (firstn pos s) with s by (symmetry; apply firstn_all2; lia).
      replace (firstn (pos + k) s) with s by (symmetry; apply firstn_all2; lia).
      f_equal. f_equal. lia.
    + (* already truncated: pos = n, size = 1, k = 0 *)
      assert (pos = n) by lia. assert (k = 0) by (unfold k; lia).
      replace (pos + k) with pos by lia.
      replace (pos - length s) with 0 by lia. rewrite H0. simpl. now rewrite app_nil_r.
Qed.

Lemma inv_emit_all init : forall pieces s st,
  inv init s st ->
  exists st', fold_left emit_opt pieces (Some st) = Some st' /\ inv init (s ++ concat pieces) st'.
Proof.
  induction pieces as [|p ps IH]; intros s st Hinv; simpl.
  - exists st. now rewrite app_nil_r.
  - destruct (inv_emit init s st p Hinv) as [st1 [E1 I1]]. rewrite E1.
    destruct (IH (s ++ p) st1 I1) as [st' [E' I']]. exists st'. split; [exact E'|].
    now rewrite <- app_assoc in I'.
Qed.

(* ---------- the contract, for any list of pieces and any caller buffer ---------- *)
Theorem emit_all_contract (init : list N) (pieces : list (list N)) :
  let s := concat pieces in
  exists st, emit_all init pieces = Some st                 (* no store at an index >= buflen *)
    /\ ps_ret st = length s                                  (* returns the untruncated length *)
    /\ length (ps_buf st) = length init
    /\ (init = [] -> ps_buf st = [])                         (* NULL / 0: nothing stored *)
    /\ (forall n, length init = S n ->
          ps_buf st = firstn n s ++ [0%N] ++ skipn (S (Nat.min (length s) n)) init).
Proof.
  intros s. unfold emit_all.
  destruct (inv_emit_all init pieces [] (start init) (inv_start init)) as [st [E I]].
  exists st. split; [exact E|]. simpl in I. fold s in I. destruct I as [Hret Hrest].
  split; [exact Hret|].
  destruct (length init) as [|n] eqn:Elen.
  - destruct Hrest as [_ [_ Hb]]. rewrite Hb. split; [reflexivity|]. split; [auto|]. intros n H; discriminate.
  - destruct Hrest as [Hpos [Hsz Hbuf]]. split; [|split].
    + rewrite Hbuf. rewrite !app_length, firstn_length, skipn_length. simpl. lia.
    + intros ->. discriminate.
    + intros m [= <-]. rewrite Hbuf, Hpos.
      f_equal. destruct (Nat.le_ge_cases (length s) n).
      * rewrite Nat.min_l by lia. rewrite !firstn_all2 by lia. reflexivity.
      * rewrite Nat.min_r by lia. reflexivity.
Qed.

(* corollaries in the words of the property *)
Definition is_prefix (a b : list N) : Prop := exists c, b = a ++ c.

Corollary emit_all_nul_terminated init pieces st n :
  emit_all init pieces = Some st -> length init = S n ->
  nth (Nat.min (length (concat pieces)) n) (ps_buf st) 1%N = 0%N /\
  is_prefix (firstn (Nat.min (length (concat pieces)) n) (ps_buf st)) (concat pieces).
Proof.
  intros E Hl. destruct (emit_all_contract init pieces) as [st' [E' [_ [_ [_ Hb]]]]].
  rewrite E in E'. injection E' as <-. specialize (Hb n Hl). set (s := concat pieces) in *.
  assert (L : length (firstn n s) = Nat.min (length s) n) by (rewrite firstn_length; lia).
  split.
  - rewrite Hb. rewrite app_nth2 by lia. rewrite L, Nat.sub_diag. reflexivity.
  - rewrite Hb. rewrite firstn_app, L, Nat.sub_diag. simpl. rewrite app_nil_r.
    rewrite firstn_firstn. exists (skipn (Nat.min (Nat.min (length s) n) n) s).
    symmetry. apply firstn_skipn.
Qed.

(* exactly-sized buffer (asprintf): the whole text and its terminator *)
Corollary emit_all_exact init pieces :
  length init = S (length (concat pieces)) ->
  exists st, emit_all init pieces = Some st /\ ps_ret st = length (concat pieces) /\
             ps_buf st = concat pieces ++ [0%N].
Proof.
  intros Hl. destruct (emit_all_contract init pieces) as [st [E [Hr [_ [_ Hb]]]]].
  exists st. split; [exact E|]. split; [exact Hr|].
  rewrite (Hb _ Hl). rewrite firstn_all, Nat.min_id.
  rewrite skipn_all2 by lia. reflexivity.
Qed.

(* NULL / 0 (the sizing call of asprintf) *)
Corollary emit_all_null pieces :
  exists st, emit_all [] pieces = Some st /\ ps_ret st = length (concat pieces) /\ ps_buf st = [].
Proof.
  destruct (emit_all_contract [] pieces) as [st [E [Hr [_ [Hn _]]]]].
  exists st. auto.
Qed.

(* the returned length does not depend on the buffer *)
Corollary emit_all_ret_indep init1 init2 pieces st1 st2 :
  emit_all init1 pieces = Some st1 -> emit_all init2 pieces = Some st2 -> ps_ret st1 = ps_ret st2.
Proof.
  intros E1 E2.
  destruct (emit_all_contract init1 pieces) as [s1 [F1 [R1 _]]].
  destruct (emit_all_contract init2 pieces) as [s2 [F2 [R2 _]]].
  congruence.
Qed.

(* pieces may be regrouped freely: only the concatenation matters *)
Corollary emit_all_concat init pieces1 pieces2 :
  concat pieces1 = concat pieces2 ->
  match emit_all init pieces1, emit_all init pieces2 with
  | Some a, Some b => ps_ret a = ps_ret b /\ ps_buf a = ps_buf b
  | _, _ => False
  end.
Proof.
  intros Hc.
  destruct (emit_all_contract init pieces1) as [s1 [F1 [R1 [_ [N1 B1]]]]].
  destruct (emit_all_contract init pieces2) as [s2 [F2 [R2 [_ [N2 B2]]]]].
  rewrite F1, F2. split; [congruence|].
  destruct init as [|b t]; [rewrite N1, N2; reflexivity|].
  rewrite (B1 _ eq_refl), (B2 _ eq_refl), Hc. reflexivity.
Qed.
