(* strtoul / strtol / strtoull / atoi of glibc (LP64, "C" locale) over checked
   strings.  Behaviour modelled (glibc stdlib/strtol_l.c): skip isspace, one
   optional sign, for base 0 or 16 an optional "0x"/"0X" prefix (base 0: leading
   "0" selects octal, otherwise decimal), longest run of digits valid in the
   base, saturation (ULONG_MAX, LONG_MAX/LONG_MIN) on overflow, negation modulo
   2^64 for strtoul.  End index: after the last digit; the start index if there
   is no digit at all, except "0x" followed by a non-hex digit where the result
   is 0 and the end index designates the 'x'.
   errno is not modelled (no hwloc caller in the modelled code looks at it).
   Reads happen in increasing order and stop at the first byte that is not part
   of the number, so inside a C string they never pass the terminator.
   Validated against libc by the sweep in harness/hwv_bmtext.c ("strto" cases). *)
From Coq Require Import NArith ZArith PeanoNat List Bool Lia.
From HV Require Import Base.Bytes.
Import ListNotations.
Local Open Scope N_scope.

Definition ULONG_MAX : N := 18446744073709551615.
Definition LONG_MAX : N := 9223372036854775807.
Definition TWO64 : N := 18446744073709551616.

Definition digit_of (c : N) : N := match digit_val c with Some v => v | None => 0 end.
(* value of a digit string, most significant first, unbounded *)
Definition digits_val (base : N) (ds : list N) : N :=
  fold_left (fun acc c => acc * base + digit_of c) ds 0.

Record strto_raw := { sr_neg : bool; sr_mag : N; sr_end : N }.

(* common part: sign, magnitude (unbounded), end index *)
Definition strto_core (s : list N) (i base : N) : res strto_raw :=
  let* j0 := scan_while isspace s i in
  let* c := rdr s j0 in
  let neg := c =? 45 in
  let j1 := if (c =? 45) || (c =? 43) then N.succ j0 else j0 in
  let* c0 := rdr s j1 in
  let* pb :=                       (* (prefixed, start of digits, effective base) *)
    (if c0 =? 48 then
       if (base =? 0) || (base =? 16) then
         let* c1 := rdr s (N.succ j1) in
         if toupper c1 =? 88 then Ok (true, j1 + 2, 16)
         else Ok (false, j1, if base =? 0 then 8 else base)
       else Ok (false, j1, base)
     else Ok (false, j1, if base =? 0 then 10 else base)) in
  let '(prefixed, j2, b) := pb in
  let* je := scan_while (is_digit_in b) s j2 in
  if je =? j2 then
    Ok {| sr_neg := neg; sr_mag := 0; sr_end := if prefixed then N.succ j1 else i |}
  else
    Ok {| sr_neg := neg; sr_mag := digits_val b (sub s j2 je); sr_end := je |}.

(* unsigned long strtoul(s+i, &end, base): (value, end index) *)
Definition strtoul (s : list N) (i base : N) : res (N * N) :=
  let* r := strto_core s i base in
  let v := if ULONG_MAX <? sr_mag r then ULONG_MAX
           else if sr_neg r then (TWO64 - sr_mag r) mod TWO64 else sr_mag r in
  Ok (v, sr_end r).
Definition strtoull := strtoul.

(* long strtol(s+i, &end, base) *)
Definition strtol (s : list N) (i base : N) : res (Z * N) :=
  let* r := strto_core s i base in
  let v := if sr_neg r then
             (if LONG_MAX + 1 <? sr_mag r then Z.opp (Z.of_N (LONG_MAX + 1)) else Z.opp (Z.of_N (sr_mag r)))
           else
             (if LONG_MAX <? sr_mag r then Z.of_N LONG_MAX else Z.of_N (sr_mag r)) in
  Ok (v, sr_end r).

(* (int) strtol(s, NULL, 10): glibc's atoi *)
Definition int_of_long (z : Z) : Z :=
  let m := (z mod 4294967296)%Z in if (m <? 2147483648)%Z then m else (m - 4294967296)%Z.
Definition atoi (s : list N) (i : N) : res Z :=
  let* r := strtol s i 10 in Ok (int_of_long (fst r)).

(* ------------------------------------------------------------------ *)

(* No read outside the block for any C string, any start inside it *)
Lemma strto_core_ok s n i base : cstring s n -> i <= n ->
  exists r, strto_core s i base = Ok r /\ i <= sr_end r <= n.
Proof.
  intros Hs Hi. unfold strto_core.
  destruct (scan_while_ok isspace s n i Hs Hi isspace_0) as [j0 [Hj0 Hr0]]. rewrite Hj0. cbn [bind].
  assert (Rd : forall k, k <= n -> exists b, rd s k = Some b /\ (b = 0 <-> k = n)).
  { intros k Hk. destruct Hs as [H0 Hlt]. destruct (N.eq_dec k n) as [->|Hne].
    - exists 0. tauto.
    - destruct (Hlt k) as [b [Hb Nz]]; [lia|]. exists b. tauto. }
  destruct (Rd j0) as [c [Hc Zc]]; [lia|]. unfold rdr at 1. rewrite Hc. cbn [bind].
  set (j1 := if (c =? 45) || (c =? 43) then N.succ j0 else j0).
  assert (Hj1 : j0 <= j1 <= n).
  { unfold j1. destruct ((c =? 45) || (c =? 43)) eqn:E; [|lia].
    assert (c <> 0). { intros ->. discriminate. }
    assert (j0 <> n) by tauto. lia. }
  destruct (Rd j1) as [c0 [Hc0 Zc0]]; [lia|]. unfold rdr at 1. rewrite Hc0. cbn [bind].
  (* the prefix decision *)
  assert (P : exists prefixed j2 b,
     (if c0 =? 48 then
       if (base =? 0) || (base =? 16) then
         let* c1 := rdr s (N.succ j1) in
         if toupper c1 =? 88 then Ok (true, j1 + 2, 16)
         else Ok (false, j1, if base =? 0 then 8 else base)
       else Ok (false, j1, base)
     else Ok (false, j1, if base =? 0 then 10 else base)) = Ok (prefixed, j2, b)
     /\ j1 <= j2 <= n /\ (prefixed = true -> j2 = j1 + 2)).
  { destruct (N.eqb_spec c0 48) as [->|Hne].
    - assert (j1 <> n). { intros E. apply Zc0 in E. discriminate. }
      destruct ((base =? 0) || (base =? 16)).
      + destruct (Rd (N.succ j1)) as [c1 [Hc1 Zc1]]; [lia|]. unfold rdr. rewrite Hc1. cbn [bind].
        destruct (N.eqb_spec (toupper c1) 88) as [E|E].
        * do 3 eexists. split; [reflexivity|]. split; [|auto].
          assert (c1 <> 0). { intros ->. discriminate. }
          assert (N.succ j1 <> n) by tauto. lia.
        * do 3 eexists. split; [reflexivity|]. split; [lia|discriminate].
      + do 3 eexists. split; [reflexivity|]. split; [lia|discriminate].
    - do 3 eexists. split; [reflexivity|]. split; [lia|discriminate]. }
  destruct P as [prefixed [j2 [b [-> [Hj2 Hp]]]]]. cbn [bind].
  destruct (scan_while_ok (is_digit_in b) s n j2 Hs) as [je [Hje Hre]]; [lia|apply is_digit_in_0|].
  rewrite Hje. cbn [bind].
  destruct (je =? j2); eexists; (split; [reflexivity|]); cbn [sr_end]; [|lia].
  destruct prefixed; [|lia]. specialize (Hp eq_refl). lia.
Qed.

Lemma strtoul_ok s n i base : cstring s n -> i <= n ->
  exists v e, strtoul s i base = Ok (v, e) /\ i <= e <= n /\ v <= ULONG_MAX.
Proof.
  intros Hs Hi. unfold strtoul.
  destruct (strto_core_ok s n i base Hs Hi) as [r [-> Hr]]. cbn [bind].
  do 2 eexists. split; [reflexivity|]. split; [exact Hr|].
  destruct (N.ltb_spec ULONG_MAX (sr_mag r)); [lia|].
  destruct (sr_neg r); [|lia].
  assert (TWO64 <> 0) by discriminate.
  pose proof (N.mod_upper_bound (TWO64 - sr_mag r) TWO64 H0). unfold ULONG_MAX, TWO64 in *. lia.
Qed.

Lemma strtol_ok s n i base : cstring s n -> i <= n ->
  exists v e, strtol s i base = Ok (v, e) /\ i <= e <= n.
Proof.
  intros Hs Hi. unfold strtol.
  destruct (strto_core_ok s n i base Hs Hi) as [r [-> Hr]]. cbn [bind].
  do 2 eexists. split; [reflexivity|exact Hr].
Qed.

(* ---------- what the functions return on well-formed numbers ---------- *)
(* Blocks are written  pre ++ text ++ t :: post, the number starting at len pre *)

Definition all_digits (b : N) (ds : list N) : Prop := Forall (fun c => is_digit_in b c = true) ds.

Lemma isspace_digit b c : is_digit_in b c = true -> isspace c = false.
Proof.
  unfold is_digit_in, digit_val, isspace, isdigit, isupper, islower.
  destruct (N.eqb_spec c 32); destruct (N.leb_spec 9 c); destruct (N.leb_spec c 13);
  destruct (N.leb_spec 48 c); destruct (N.leb_spec c 57);
  destruct (N.leb_spec 65 c); destruct (N.leb_spec c 90);
  destruct (N.leb_spec 97 c); destruct (N.leb_spec c 122); cbn; try discriminate; try lia; auto.
Qed.
Lemma sign_digit b c : is_digit_in b c = true -> (c =? 45) || (c =? 43) = false.
Proof.
  unfold is_digit_in, digit_val, isdigit, isupper, islower.
  destruct (N.eqb_spec c 45) as [->|]; [discriminate|].
  destruct (N.eqb_spec c 43) as [->|]; [discriminate|]. reflexivity.
Qed.

(* "0x" hhhh (t not a hex digit), base 16 or 0 *)
Lemma strto_core_0x pre ds t post base :
  base = 16 \/ base = 0 ->
  ds <> [] -> all_digits 16 ds -> is_digit_in 16 t = false ->
  strto_core (pre ++ [48; 120] ++ ds ++ t :: post) (len pre) base
  = Ok {| sr_neg := false; sr_mag := digits_val 16 ds; sr_end := len pre + 2 + len ds |}.
Proof.
  intros Hb Hne Hd Ht. unfold strto_core.
  assert (S0 : scan_while isspace (pre ++ [48; 120] ++ ds ++ t :: post) (len pre) = Ok (len pre)).
  { apply scan_while_spec. split; [lia|]. split.
    - exists 48. split; [|reflexivity]. cbn [app]. apply rd_app_mid.
    - intros m Hm; lia. }
  rewrite S0. cbn [bind]. unfold rdr at 1. cbn [app]. rewrite rd_app_mid. cbn [bind].
  change (48 =? 45) with false. change (48 =? 43) with false. cbn [orb].
  unfold rdr at 1. rewrite rd_app_mid. cbn [bind]. change (48 =? 48) with true. cbv iota.
  assert (B : (base =? 0) || (base =? 16) = true) by (destruct Hb as [-> | ->]; reflexivity).
  rewrite B.
  replace (pre ++ 48 :: 120 :: ds ++ t :: post) with ((pre ++ [48]) ++ 120 :: ds ++ t :: post)
    by (rewrite <- app_assoc; reflexivity).
  replace (N.succ (len pre)) with (len (pre ++ [48])) by (rewrite len_app; unfold len; simpl; lia).
  unfold rdr at 1. rewrite rd_app_mid. cbn [bind]. change (toupper 120 =? 88) with true. cbv iota.
  replace ((pre ++ [48]) ++ 120 :: ds ++ t :: post) with ((pre ++ [48; 120]) ++ ds ++ t :: post)
    by (rewrite <- !app_assoc; reflexivity).
  replace (len pre + 2) with (len (pre ++ [48; 120])) by (rewrite len_app; unfold len; simpl; lia).
  cbn [bind].
  rewrite (scan_while_app (is_digit_in 16) (pre ++ [48; 120]) ds t post Hd Ht). cbn [bind].
  destruct (N.eqb_spec (len (pre ++ [48; 120]) + len ds) (len (pre ++ [48; 120]))) as [E|E].
  { destruct ds; [congruence|]. rewrite len_cons in E. lia. }
  now rewrite sub_app.
Qed.

(* plain digits in an explicit base b (2..36), not starting a "0x" prefix:
   either b <> 16 or the text is not "0" followed by x/X *)
Lemma strto_core_plain pre ds t post b :
  b <> 0 -> ds <> [] -> all_digits b ds -> is_digit_in b t = false ->
  (b = 16 -> toupper (nth 1 (ds ++ [t]) 0) <> 88 \/ nth 0 ds 0 <> 48) ->
  strto_core (pre ++ ds ++ t :: post) (len pre) b
  = Ok {| sr_neg := false; sr_mag := digits_val b ds; sr_end := len pre + len ds |}.
Proof.
  intros Hb Hne Hd Ht Hx. unfold strto_core.
  destruct ds as [|d0 ds']; [congruence|]. inversion Hd as [|x l Hd0 Hd']; subst.
  assert (S0 : scan_while isspace (pre ++ (d0 :: ds') ++ t :: post) (len pre) = Ok (len pre)).
  { apply scan_while_spec. split; [lia|]. split.
    - exists d0. split; [|eapply isspace_digit; eauto]. cbn [app]. apply rd_app_mid.
    - intros m Hm; lia. }
  rewrite S0. cbn [bind]. unfold rdr at 1. cbn [app]. rewrite rd_app_mid. cbn [bind].
  rewrite (sign_digit b d0 Hd0).
  assert (E45 : d0 =? 45 = false).
  { pose proof (sign_digit b d0 Hd0) as H. now apply orb_false_iff in H. }
  rewrite E45. unfold rdr at 1. rewrite rd_app_mid. cbn [bind].
  assert (PB : (if d0 =? 48
     then
      if (b =? 0) || (b =? 16)
      then
       let* c1 := rdr (pre ++ d0 :: ds' ++ t :: post) (N.succ (len pre))
       in if toupper c1 =? 88 then Ok (true, len pre + 2, 16) else Ok (false, len pre, if b =? 0 then 8 else b)
      else Ok (false, len pre, b)
     else Ok (false, len pre, if b =? 0 then 10 else b)) = Ok (false, len pre, b)).
  { assert (B0 : b =? 0 = false) by now apply N.eqb_neq. rewrite B0. cbn [orb].
    destruct (N.eqb_spec d0 48) as [->|Hd48]; [|reflexivity].
    destruct (N.eqb_spec b 16) as [->|Hb16]; [|reflexivity].
    destruct (Hx eq_refl) as [Hx1|Hx1]; [|simpl in Hx1; congruence].
    replace (pre ++ 48 :: ds' ++ t :: post) with ((pre ++ [48]) ++ ds' ++ t :: post)
      by (rewrite <- app_assoc; reflexivity).
    replace (N.succ (len pre)) with (len (pre ++ [48])) by (rewrite len_app; unfold len; simpl; lia).
    unfold rdr. destruct ds' as [|d1 ds'']; cbn [app]; rewrite rd_app_mid; cbn [bind];
    simpl in Hx1; apply N.eqb_neq in Hx1; now rewrite Hx1. }
  rewrite PB. cbn [bind].
  change (pre ++ d0 :: ds' ++ t :: post) with (pre ++ (d0 :: ds') ++ t :: post).
  rewrite (scan_while_app (is_digit_in b) pre (d0 :: ds') t post Hd Ht). cbn [bind].
  destruct (N.eqb_spec (len pre + len (d0 :: ds')) (len pre)) as [E|E].
  { rewrite len_cons in E. lia. }
  now rewrite sub_app.
Qed.

(* base 0, decimal text as printed by %d / %u: first digit 1..9, or exactly "0" *)
Lemma strto_core_dec pre ds t post :
  ds <> [] -> all_digits 10 ds -> is_digit_in 10 t = false -> toupper t <> 88 ->
  (nth 0 ds 0 <> 48 \/ ds = [48]) ->
  strto_core (pre ++ ds ++ t :: post) (len pre) 0
  = Ok {| sr_neg := false; sr_mag := digits_val 10 ds; sr_end := len pre + len ds |}.
Proof.
  intros Hne Hd Ht Htx Hz. unfold strto_core.
  destruct ds as [|d0 ds']; [congruence|]. inversion Hd as [|x l Hd0 Hd']; subst.
  assert (S0 : scan_while isspace (pre ++ (d0 :: ds') ++ t :: post) (len pre) = Ok (len pre)).
  { apply scan_while_spec. split; [lia|]. split.
    - exists d0. split; [|eapply isspace_digit; eauto]. cbn [app]. apply rd_app_mid.
    - intros m Hm; lia. }
  rewrite S0. cbn [bind]. unfold rdr at 1. cbn [app]. rewrite rd_app_mid. cbn [bind].
  rewrite (sign_digit 10 d0 Hd0).
  assert (E45 : d0 =? 45 = false).
  { pose proof (sign_digit 10 d0 Hd0) as H. now apply orb_false_iff in H. }
  rewrite E45. unfold rdr at 1. rewrite rd_app_mid. cbn [bind].
  change (0 =? 0) with true. cbn [orb]. cbv iota.
  destruct (N.eqb_spec d0 48) as [->|Hd48].
  - (* "0": octal, single digit *)
    destruct Hz as [Hz|Hz]; [simpl in Hz; congruence|]. injection Hz as ->. cbn [app].
    replace (pre ++ 48 :: t :: post) with ((pre ++ [48]) ++ t :: post)
      by (rewrite <- app_assoc; reflexivity).
    replace (N.succ (len pre)) with (len (pre ++ [48])) by (rewrite len_app; unfold len; simpl; lia).
    unfold rdr. rewrite rd_app_mid. cbn [bind].
    apply N.eqb_neq in Htx. rewrite Htx.
    replace ((pre ++ [48]) ++ t :: post) with (pre ++ [48] ++ t :: post)
      by (rewrite <- app_assoc; reflexivity).
    assert (Ht8 : is_digit_in 8 t = false).
    { revert Ht. unfold is_digit_in. destruct (digit_val t) as [v|]; [|reflexivity].
      intros H. apply N.ltb_ge in H. apply N.ltb_ge. lia. }
    cbn [bind].
    rewrite (scan_while_app (is_digit_in 8) pre [48] t post); [|repeat constructor|exact Ht8].
    cbn [bind].
    destruct (N.eqb_spec (len pre + len [48]) (len pre)) as [E|E]; [unfold len in E; simpl in E; lia|].
    rewrite sub_app. reflexivity.
  - cbn [bind]. change (pre ++ d0 :: ds' ++ t :: post) with (pre ++ (d0 :: ds') ++ t :: post).
    rewrite (scan_while_app (is_digit_in 10) pre (d0 :: ds') t post Hd Ht). cbn [bind].
    destruct (N.eqb_spec (len pre + len (d0 :: ds')) (len pre)) as [E|E].
    { rewrite len_cons in E. lia. }
    now rewrite sub_app.
Qed.

(* no digit at all (and no blank / sign / '0' first): value 0, end = start *)
Lemma strto_core_none pre t post base :
  isspace t = false -> t <> 45 -> t <> 43 ->
  is_digit_in (if base =? 0 then 10 else base) t = false -> t <> 48 ->
  strto_core (pre ++ t :: post) (len pre) base
  = Ok {| sr_neg := false; sr_mag := 0; sr_end := len pre |}.
Proof.
  intros Hsp H45 H43 Hd H48. unfold strto_core.
  assert (S0 : scan_while isspace (pre ++ t :: post) (len pre) = Ok (len pre)).
  { apply scan_while_spec. split; [lia|]. split.
    - exists t. split; [apply rd_app_mid|exact Hsp].
    - intros m Hm; lia. }
  rewrite S0. cbn [bind]. unfold rdr at 1. rewrite rd_app_mid. cbn [bind].
  apply N.eqb_neq in H45, H43, H48. rewrite H45, H43. cbn [orb].
  unfold rdr at 1. rewrite rd_app_mid. cbn [bind]. rewrite H48. cbn [bind].
  assert (S1 : scan_while (is_digit_in (if base =? 0 then 10 else base)) (pre ++ t :: post) (len pre) = Ok (len pre)).
  { apply scan_while_spec. split; [lia|]. split.
    - exists t. split; [apply rd_app_mid|exact Hd].
    - intros m Hm; lia. }
  rewrite S1. cbn [bind]. now rewrite N.eqb_refl.
Qed.

(* value lemmas for the two unsigned results *)
Lemma strtoul_of_core s i base r :
  strto_core s i base = Ok r -> sr_neg r = false -> sr_mag r <= ULONG_MAX ->
  strtoul s i base = Ok (sr_mag r, sr_end r).
Proof.
  intros H Hn Hm. unfold strtoul. rewrite H. cbn [bind]. rewrite Hn.
  destruct (N.ltb_spec ULONG_MAX (sr_mag r)); [lia|reflexivity].
Qed.

Lemma digits_val_app b ds c : digits_val b (ds ++ [c]) = digits_val b ds * b + digit_of c.
Proof. unfold digits_val. now rewrite fold_left_app. Qed.

Lemma digits_val_bound b ds : 2 <= b -> all_digits b ds -> digits_val b ds < b ^ len ds.
Proof.
  intros Hb. induction ds as [|c ds IH] using rev_ind; intros Hd.
  - unfold digits_val, len. simpl. lia.
  - apply Forall_app in Hd. destruct Hd as [Hd Hc]. inversion Hc as [|x l Hc' _]; subst.
    rewrite digits_val_app, len_app. unfold len at 2. simpl length.
    change (N.of_nat 1) with 1. rewrite N.pow_add_r, N.pow_1_r.
    specialize (IH Hd).
    assert (digit_of c < b).
    { unfold digit_of. unfold is_digit_in in Hc'. destruct (digit_val c); [now apply N.ltb_lt|discriminate]. }
    nia.
Qed.
