(* Abstract object behind every hwloc bitmap: a set of naturals that is either
   finite or cofinite ("infinitely set").  Canonical representation: a finite
   mask [fin] and a flag [inf]; index i is a member iff testbit fin i <> inf.
   Extensional equality coincides with Leibniz equality (bs_ext), so "equal
   sets" in theorems is plain [=]. *)
From Coq Require Import NArith ZArith Bool List Lia.
Import ListNotations.
Local Open Scope N_scope.

Record bset := BS { fin : N; inf : bool }.

Definition mem (i : N) (s : bset) : bool := xorb (N.testbit (fin s) i) (inf s).

Definition bs_empty : bset := BS 0 false.
Definition bs_full : bset := BS 0 true.
Definition bs_of_N (n : N) : bset := BS n false.
Definition bs_single (i : N) : bset := BS (N.shiftl 1 i) false.
Definition bs_compl (s : bset) : bset := BS (fin s) (negb (inf s)).

Definition bs_union (a b : bset) : bset :=
  match inf a, inf b with
  | false, false => BS (N.lor (fin a) (fin b)) false
  | false, true => BS (N.ldiff (fin b) (fin a)) true
  | true, false => BS (N.ldiff (fin a) (fin b)) true
  | true, true => BS (N.land (fin a) (fin b)) true
  end.

Definition bs_inter (a b : bset) : bset :=
  match inf a, inf b with
  | false, false => BS (N.land (fin a) (fin b)) false
  | false, true => BS (N.ldiff (fin a) (fin b)) false
  | true, false => BS (N.ldiff (fin b) (fin a)) false
  | true, true => BS (N.lor (fin a) (fin b)) true
  end.

Definition bs_diff (a b : bset) : bset := bs_inter a (bs_compl b).
Definition bs_xor (a b : bset) : bset := BS (N.lxor (fin a) (fin b)) (xorb (inf a) (inf b)).

(* [lo, lo+len) *)
Definition bs_range (lo len : N) : bset := BS (N.shiftl (N.ones len) lo) false.
(* [lo, +oo) *)
Definition bs_from (lo : N) : bset := BS (N.ones lo) true.

Definition bs_is_empty (s : bset) : bool := negb (inf s) && (fin s =? 0).
Definition bs_is_full (s : bset) : bool := inf s && (fin s =? 0).
Definition bs_eqb (a b : bset) : bool := (fin a =? fin b) && Bool.eqb (inf a) (inf b).
Definition bs_subset (a b : bset) : bool := bs_is_empty (bs_diff a b).
Definition bs_intersects (a b : bset) : bool := negb (bs_is_empty (bs_inter a b)).
Definition bs_add (i : N) (s : bset) : bset := bs_union s (bs_single i).
Definition bs_remove (i : N) (s : bset) : bset := bs_diff s (bs_single i).

(* lowest set bit of a positive *)
Fixpoint pos_ctz (p : positive) : N :=
  match p with xH => 0 | xO q => N.succ (pos_ctz q) | xI _ => 0 end.
(* lowest clear bit of a positive *)
Fixpoint pos_cto (p : positive) : N :=
  match p with xH => 1 | xI q => N.succ (pos_cto q) | xO _ => 0 end.

(* first member, None for the empty set *)
Definition bs_first (s : bset) : option N :=
  if inf s then Some (match fin s with N0 => 0 | Npos p => pos_cto p end)
  else match fin s with N0 => None | Npos p => Some (pos_ctz p) end.
(* first non-member, None for the full set *)
Definition bs_first_unset (s : bset) : option N := bs_first (bs_compl s).
(* last member: None if empty or infinite *)
Definition bs_last (s : bset) : option N :=
  if inf s then None else match fin s with N0 => None | Npos _ => Some (N.log2 (fin s)) end.
Definition bs_last_unset (s : bset) : option N := bs_last (bs_compl s).

Fixpoint pos_weight (p : positive) : N :=
  match p with xH => 1 | xO q => pos_weight q | xI q => N.succ (pos_weight q) end.
(* cardinal, None when infinite *)
Definition bs_weight (s : bset) : option N :=
  if inf s then None else Some (match fin s with N0 => 0 | Npos p => pos_weight p end).

(* members below a bound, ascending *)
Definition bs_elements_below (bound : nat) (s : bset) : list N :=
  filter (fun i => mem i s) (map N.of_nat (seq 0 bound)).

(* ------------------------------------------------------------------ *)

Lemma bs_ext a b : (forall i, mem i a = mem i b) -> a = b.
Proof.
  destruct a as [fa ia], b as [fb ib]; unfold mem; simpl; intros H.
  assert (Hi : ia = ib).
  { specialize (H (N.succ (N.max (N.log2 fa) (N.log2 fb)))).
    rewrite !N.bits_above_log2 in H by lia. simpl in H.
    destruct ia, ib; simpl in H; congruence. }
  subst ib. f_equal. apply N.bits_inj. intros i. specialize (H i).
  destruct (N.testbit fa i), (N.testbit fb i), ia; simpl in H; congruence.
Qed.

Lemma mem_empty i : mem i bs_empty = false.
Proof. unfold mem, bs_empty, fin, inf. now rewrite N.bits_0. Qed.
Lemma mem_full i : mem i bs_full = true.
Proof. unfold mem, bs_full, fin, inf. now rewrite N.bits_0. Qed.
Lemma mem_compl i s : mem i (bs_compl s) = negb (mem i s).
Proof. unfold mem; simpl. destruct (N.testbit _ _), (inf s); reflexivity. Qed.
Lemma mem_union i a b : mem i (bs_union a b) = mem i a || mem i b.
Proof.
  unfold mem, bs_union. destruct (inf a), (inf b); simpl;
  rewrite ?N.lor_spec, ?N.land_spec, ?N.ldiff_spec;
  destruct (N.testbit (fin a) i), (N.testbit (fin b) i); reflexivity.
Qed.
Lemma mem_inter i a b : mem i (bs_inter a b) = mem i a && mem i b.
Proof.
  unfold mem, bs_inter. destruct (inf a), (inf b); simpl;
  rewrite ?N.lor_spec, ?N.land_spec, ?N.ldiff_spec;
  destruct (N.testbit (fin a) i), (N.testbit (fin b) i); reflexivity.
Qed.
Lemma mem_diff i a b : mem i (bs_diff a b) = mem i a && negb (mem i b).
Proof. unfold bs_diff. now rewrite mem_inter, mem_compl. Qed.
Lemma mem_xor i a b : mem i (bs_xor a b) = xorb (mem i a) (mem i b).
Proof.
  unfold mem, bs_xor; simpl. rewrite N.lxor_spec.
  destruct (N.testbit (fin a) i), (N.testbit (fin b) i), (inf a), (inf b); reflexivity.
Qed.
Lemma mem_single i j : mem i (bs_single j) = (i =? j).
Proof.
  unfold mem, bs_single, fin, inf. rewrite xorb_false_r, N.shiftl_1_l, N.pow2_bits_eqb.
  apply N.eqb_sym.
Qed.
Lemma mem_of_N i n : mem i (bs_of_N n) = N.testbit n i.
Proof. unfold mem; simpl. apply xorb_false_r. Qed.
Lemma mem_range i lo len : mem i (bs_range lo len) = (lo <=? i) && (i <? lo + len).
Proof.
  unfold mem, bs_range, fin, inf. rewrite xorb_false_r.
  destruct (N.leb_spec lo i).
  - rewrite N.shiftl_spec_high' by lia. cbn [andb].
    destruct (N.ltb_spec i (lo + len)).
    + apply N.ones_spec_low. lia.
    + apply N.ones_spec_high. lia.
  - now rewrite N.shiftl_spec_low.
Qed.
Lemma mem_from i lo : mem i (bs_from lo) = (lo <=? i).
Proof.
  unfold mem, bs_from, fin, inf.
  destruct (N.leb_spec lo i).
  - now rewrite N.ones_spec_high.
  - now rewrite N.ones_spec_low.
Qed.
Lemma mem_add i j s : mem i (bs_add j s) = (i =? j) || mem i s.
Proof. unfold bs_add. rewrite mem_union, mem_single. apply orb_comm. Qed.
Lemma mem_remove i j s : mem i (bs_remove j s) = negb (i =? j) && mem i s.
Proof. unfold bs_remove. rewrite mem_diff, mem_single. apply andb_comm. Qed.

Lemma bs_is_empty_spec s : bs_is_empty s = true <-> s = bs_empty.
Proof.
  destruct s as [f i]; unfold bs_is_empty, bs_empty; simpl. split.
  - intros H. apply andb_true_iff in H as [H1 H2]. apply N.eqb_eq in H2.
    destruct i; simpl in H1; try discriminate. now subst.
  - intros H. injection H as -> ->. reflexivity.
Qed.
Lemma bs_is_empty_mem s : bs_is_empty s = true <-> forall i, mem i s = false.
Proof.
  rewrite bs_is_empty_spec. split.
  - intros -> i. apply mem_empty.
  - intros H. apply bs_ext. intros i. now rewrite H, mem_empty.
Qed.
Lemma bs_is_full_spec s : bs_is_full s = true <-> s = bs_full.
Proof.
  destruct s as [f i]; unfold bs_is_full, bs_full; simpl. split.
  - intros H. apply andb_true_iff in H as [H1 H2]. apply N.eqb_eq in H2. now subst.
  - intros H. injection H as -> ->. reflexivity.
Qed.
Lemma bs_eqb_spec a b : bs_eqb a b = true <-> a = b.
Proof.
  destruct a as [fa ia], b as [fb ib]; unfold bs_eqb; simpl. split.
  - intros H. apply andb_true_iff in H as [H1 H2]. apply N.eqb_eq in H1.
    apply Bool.eqb_prop in H2. now subst.
  - intros H. injection H as -> ->. now rewrite N.eqb_refl, Bool.eqb_reflx.
Qed.
Lemma bs_subset_spec a b : bs_subset a b = true <-> forall i, mem i a = true -> mem i b = true.
Proof.
  unfold bs_subset. rewrite bs_is_empty_mem. split; intros H i; specialize (H i);
  rewrite mem_diff in *; destruct (mem i a), (mem i b); simpl in *; auto; try discriminate.
  now specialize (H eq_refl).
Qed.
Lemma bs_intersects_spec a b : bs_intersects a b = true <-> exists i, mem i a = true /\ mem i b = true.
Proof.
  unfold bs_intersects. split.
  - intros H. apply negb_true_iff in H.
    destruct (bs_inter a b) as [f i] eqn:E. unfold bs_is_empty in H; simpl in H.
    destruct i.
    + (* cofinite: some index above log2 *)
      exists (N.succ (N.log2 f)).
      assert (M : mem (N.succ (N.log2 f)) (bs_inter a b) = true).
      { rewrite E. unfold mem; simpl. rewrite N.bits_above_log2 by lia. reflexivity. }
      rewrite mem_inter in M. now apply andb_true_iff in M.
    + simpl in H. apply N.eqb_neq in H.
      exists (N.log2 f).
      assert (M : mem (N.log2 f) (bs_inter a b) = true).
      { rewrite E. unfold mem; simpl. rewrite N.bit_log2 by assumption. reflexivity. }
      rewrite mem_inter in M. now apply andb_true_iff in M.
  - intros [i [Ha Hb]]. apply negb_true_iff. destruct (bs_is_empty (bs_inter a b)) eqn:E; [|reflexivity].
    rewrite bs_is_empty_mem in E. specialize (E i). rewrite mem_inter, Ha, Hb in E. discriminate.
Qed.

(* first / last *)
Lemma pos_ctz_spec p : N.testbit (Npos p) (pos_ctz p) = true /\ forall j, j < pos_ctz p -> N.testbit (Npos p) j = false.
Proof.
  induction p as [p IH|p IH|]; simpl pos_ctz.
  - split; [reflexivity|intros j Hj; lia].
  - destruct IH as [IH1 IH2]. split.
    + change (N.pos p~0) with (N.double (N.pos p)). rewrite N.double_spec.
      rewrite N.testbit_even_succ by lia. exact IH1.
    + intros j Hj. change (N.pos p~0) with (N.double (N.pos p)). rewrite N.double_spec.
      destruct (N.eq_dec j 0) as [->|Hj0]; [apply N.testbit_even_0|].
      replace j with (N.succ (N.pred j)) by lia. rewrite N.testbit_even_succ by lia.
      apply IH2. lia.
  - split; [reflexivity|intros j Hj; lia].
Qed.
Lemma pos_cto_spec p : N.testbit (Npos p) (pos_cto p) = false /\ forall j, j < pos_cto p -> N.testbit (Npos p) j = true.
Proof.
  induction p as [p IH|p IH|]; simpl pos_cto.
  - destruct IH as [IH1 IH2]. split.
    + change (N.pos p~1) with (N.succ_double (N.pos p)). rewrite N.succ_double_spec.
      rewrite N.testbit_odd_succ by lia. exact IH1.
    + intros j Hj. change (N.pos p~1) with (N.succ_double (N.pos p)). rewrite N.succ_double_spec.
      destruct (N.eq_dec j 0) as [->|Hj0]; [apply N.testbit_odd_0|].
      replace j with (N.succ (N.pred j)) by lia. rewrite N.testbit_odd_succ by lia.
      apply IH2. lia.
  - split; [reflexivity|intros j Hj; lia].
  - split; [reflexivity|]. intros j Hj. assert (j = 0) by lia. subst. reflexivity.
Qed.

Lemma bs_first_none s : bs_first s = None <-> s = bs_empty.
Proof.
  destruct s as [f i]; unfold bs_first, bs_empty; simpl. destruct i; [split; discriminate|].
  destruct f; split; try discriminate; try reflexivity.
Qed.
Lemma bs_first_some s k : bs_first s = Some k -> mem k s = true /\ forall j, j < k -> mem j s = false.
Proof.
  destruct s as [f i]; unfold bs_first, mem; simpl. destruct i.
  - destruct f as [|p]; intros H; injection H as <-.
    + split; [reflexivity|intros j Hj; lia].
    + destruct (pos_cto_spec p) as [H1 H2]. split.
      * now rewrite H1.
      * intros j Hj. now rewrite H2.
  - destruct f as [|p]; [discriminate|]. intros H; injection H as <-.
    destruct (pos_ctz_spec p) as [H1 H2]. split.
    + now rewrite H1.
    + intros j Hj. now rewrite H2.
Qed.
Lemma bs_last_some s k : bs_last s = Some k -> mem k s = true /\ forall j, k < j -> mem j s = false.
Proof.
  destruct s as [f i]; unfold bs_last, mem; simpl. destruct i; [discriminate|].
  destruct f as [|p]; [discriminate|]. intros H; injection H as <-. split.
  - rewrite N.bit_log2 by discriminate. reflexivity.
  - intros j Hj. rewrite N.bits_above_log2 by assumption. reflexivity.
Qed.
Lemma bs_last_none s : bs_last s = None <-> (inf s = true \/ s = bs_empty).
Proof.
  destruct s as [f i]; unfold bs_last, bs_empty; simpl. destruct i.
  - split; auto.
  - destruct f; split; auto; try discriminate.
    intros [H|H]; [discriminate|inversion H].
Qed.

(* weight counts members *)
Fixpoint count_below (bound : nat) (s : bset) : N :=
  match bound with O => 0 | S b => count_below b s + (if mem (N.of_nat b) s then 1 else 0) end.

Lemma count_below_testbit bound n :
  count_below bound (bs_of_N n) = count_below bound (bs_of_N (n mod 2 ^ N.of_nat bound)).
Proof.
  assert (G : forall b, (b <= bound)%nat ->
      count_below b (bs_of_N n) = count_below b (bs_of_N (n mod 2 ^ N.of_nat bound))).
  { induction b as [|b IH]; intros Hb; simpl; [reflexivity|].
    rewrite IH by lia. rewrite !mem_of_N. rewrite N.mod_pow2_bits_low by lia. reflexivity. }
  apply G. lia.
Qed.

Lemma pos_weight_count p : pos_weight p = count_below (Pos.to_nat (Pos.size p)) (bs_of_N (Npos p)).
Proof.
  induction p as [p IH|p IH|].
  - (* xI *) simpl pos_weight. simpl Pos.size. rewrite Pos2Nat.inj_succ.
    set (n := Pos.to_nat (Pos.size p)) in *.
    assert (G : forall b, count_below (S b) (bs_of_N (N.pos p~1)) = N.succ (count_below b (bs_of_N (N.pos p)))).
    { induction b as [|b IHb]; [reflexivity|].
      change (count_below (S (S b)) (bs_of_N (N.pos p~1))) with
        (count_below (S b) (bs_of_N (N.pos p~1)) + (if mem (N.of_nat (S b)) (bs_of_N (N.pos p~1)) then 1 else 0)).
      rewrite IHb. simpl count_below. rewrite !mem_of_N.
      change (N.pos p~1) with (N.succ_double (N.pos p)). rewrite N.succ_double_spec.
      rewrite Nat2N.inj_succ, N.testbit_odd_succ by lia. lia. }
    rewrite G, IH. reflexivity.
  - simpl pos_weight. simpl Pos.size. rewrite Pos2Nat.inj_succ.
    assert (G : forall b, count_below (S b) (bs_of_N (N.pos p~0)) = count_below b (bs_of_N (N.pos p))).
    { induction b as [|b IHb]; [reflexivity|].
      change (count_below (S (S b)) (bs_of_N (N.pos p~0))) with
        (count_below (S b) (bs_of_N (N.pos p~0)) + (if mem (N.of_nat (S b)) (bs_of_N (N.pos p~0)) then 1 else 0)).
      rewrite IHb. simpl count_below. rewrite !mem_of_N.
      change (N.pos p~0) with (N.double (N.pos p)). rewrite N.double_spec.
      rewrite Nat2N.inj_succ, N.testbit_even_succ by lia. lia. }
    rewrite G, IH. reflexivity.
  - reflexivity.
Qed.
