(* Checked C strings.

   A C object holding characters is a [list N] (bytes 0..255): the list is the
   whole allocated block, so index [i] may be read iff [i < length s].  Every
   read of a model goes through [rd]; a model function that would read outside
   the block returns [Oob] (what ASan / valgrind report on the real code).

   A block holds a C string starting at 0 when [cstring s n]: byte [n] is the
   first NUL.  The str* functions of libc are modelled as the byte-by-byte
   reference loops (reads in increasing order, stop at the first deciding
   byte), which is the as-if behaviour the sanitizers check. *)
From Coq Require Import String Ascii.
From Coq Require Import NArith PeanoNat List Bool Lia.
Import ListNotations.
Local Open Scope N_scope.

(* ---------- outcome of a checked computation ---------- *)
Inductive res (A : Type) : Type := Ok (a : A) | Oob.
Arguments Ok {A} a.
Arguments Oob {A}.

Definition bind {A B} (r : res A) (f : A -> res B) : res B :=
  match r with Ok a => f a | Oob => Oob end.
Notation "'let*' x ':=' r 'in' k" := (bind r (fun x => k))
  (at level 200, x pattern, r at level 100, k at level 200, right associativity).

Definition is_ok {A} (r : res A) : bool := match r with Ok _ => true | Oob => false end.

Lemma bind_ok {A B} (r : res A) (f : A -> res B) b :
  bind r f = Ok b <-> exists a, r = Ok a /\ f a = Ok b.
Proof.
  destruct r as [a|]; simpl; split.
  - intros H. now exists a.
  - now intros [a' [[= ->] H]].
  - discriminate.
  - now intros [a' [H _]].
Qed.

(* ---------- checked read ---------- *)
Definition rd (s : list N) (i : N) : option N := nth_error s (N.to_nat i).
Definition rdr (s : list N) (i : N) : res N :=
  match rd s i with Some b => Ok b | None => Oob end.
Definition len (s : list N) : N := N.of_nat (length s).

Lemma rd_some_lt s i b : rd s i = Some b -> i < len s.
Proof.
  unfold rd, len. intros H.
  assert (N.to_nat i < length s)%nat by (apply nth_error_Some; congruence). lia.
Qed.
Lemma rd_lt_some s i : i < len s -> exists b, rd s i = Some b.
Proof.
  unfold rd, len. intros H. destruct (nth_error s (N.to_nat i)) eqn:E; [eauto|].
  apply nth_error_None in E. lia.
Qed.
Lemma rd_none s i : rd s i = None <-> len s <= i.
Proof. unfold rd, len. rewrite nth_error_None. lia. Qed.
Lemma rd_app_l a b i : i < len a -> rd (a ++ b) i = rd a i.
Proof. unfold rd, len. intros H. apply nth_error_app1. lia. Qed.
Lemma rd_app_r a b i : len a <= i -> rd (a ++ b) i = rd b (i - len a).
Proof.
  unfold rd, len. intros H. rewrite nth_error_app2 by lia. f_equal. lia.
Qed.
Lemma rd_cons_0 b s : rd (b :: s) 0 = Some b.
Proof. reflexivity. Qed.
Lemma rd_cons_succ b s i : rd (b :: s) (N.succ i) = rd s i.
Proof. unfold rd. rewrite N2Nat.inj_succ. reflexivity. Qed.
Lemma rd_skipn s i k : rd (skipn (N.to_nat i) s) k = rd s (i + k).
Proof.
  unfold rd. rewrite N2Nat.inj_add.
  revert s. induction (N.to_nat i) as [|n IH]; intros s; simpl; [reflexivity|].
  destruct s as [|b s]; simpl; [now destruct (N.to_nat k)|apply IH].
Qed.
Lemma len_app a b : len (a ++ b) = len a + len b.
Proof. unfold len. rewrite app_length. lia. Qed.
Lemma len_cons b s : len (b :: s) = N.succ (len s).
Proof. unfold len. simpl length. lia. Qed.

(* the bytes [i, j) of a block (empty if out of range) *)
Definition sub (s : list N) (i j : N) : list N :=
  firstn (N.to_nat (j - i)) (skipn (N.to_nat i) s).

(* ---------- C strings ---------- *)
(* byte n is the first NUL of s at or after i0 = 0 *)
Definition cstring (s : list N) (n : N) : Prop :=
  rd s n = Some 0 /\ forall k, k < n -> exists b, rd s k = Some b /\ b <> 0.

Definition no_nul (p : list N) : Prop := Forall (fun b => b <> 0) p.

Lemma cstring_app p rest : no_nul p -> cstring (p ++ 0 :: rest) (len p).
Proof.
  intros Hp. split.
  - rewrite rd_app_r by lia. now rewrite N.sub_diag.
  - intros k Hk. rewrite rd_app_l by exact Hk.
    destruct (rd_lt_some p k Hk) as [b Hb]. exists b. split; [exact Hb|].
    unfold no_nul in Hp. rewrite Forall_forall in Hp. apply Hp.
    unfold rd in Hb. eapply nth_error_In; eauto.
Qed.

Lemma cstring_inv s n : cstring s n -> exists p rest, s = p ++ 0 :: rest /\ no_nul p /\ len p = n.
Proof.
  intros [H0 Hk]. unfold rd in H0.
  destruct (nth_error_split _ _ H0) as [p [rest [E L]]].
  exists p, rest. split; [exact E|]. split.
  - unfold no_nul. rewrite Forall_forall. intros b Hb.
    destruct (In_nth_error _ _ Hb) as [k Ek].
    assert (Hlt : (k < length p)%nat) by (apply nth_error_Some; congruence).
    destruct (Hk (N.of_nat k)) as [b' [Eb' Nz]]; [lia|].
    unfold rd in Eb'. rewrite Nat2N.id, E, nth_error_app1 in Eb' by exact Hlt. congruence.
  - unfold len. lia.
Qed.

Lemma cstring_unique s n m : cstring s n -> cstring s m -> n = m.
Proof.
  intros [Hn Hn'] [Hm Hm'].
  destruct (N.lt_trichotomy n m) as [H|[H|H]]; [|exact H|].
  - destruct (Hm' n H) as [b [Hb Nz]]. congruence.
  - destruct (Hn' m H) as [b [Hb Nz]]. congruence.
Qed.

(* a NUL-terminated block: some prefix is a C string *)
Definition nul_terminated (s : list N) : Prop := exists n, cstring s n.

(* ---------- character classes, "C" locale ---------- *)
Definition isdigit (c : N) : bool := (48 <=? c) && (c <=? 57).
Definition isupper (c : N) : bool := (65 <=? c) && (c <=? 90).
Definition islower (c : N) : bool := (97 <=? c) && (c <=? 122).
Definition isalpha (c : N) : bool := isupper c || islower c.
Definition isalnum (c : N) : bool := isdigit c || isalpha c.
Definition isxdigit (c : N) : bool :=
  isdigit c || ((65 <=? c) && (c <=? 70)) || ((97 <=? c) && (c <=? 102)).
(* ' ' \t \n \v \f \r *)
Definition isspace (c : N) : bool := (c =? 32) || ((9 <=? c) && (c <=? 13)).
Definition tolower (c : N) : N := if isupper c then c + 32 else c.
Definition toupper (c : N) : N := if islower c then c - 32 else c.

(* value of a digit in any base up to 36; None if not alphanumeric *)
Definition digit_val (c : N) : option N :=
  if isdigit c then Some (c - 48)
  else if isupper c then Some (c - 55)
  else if islower c then Some (c - 87)
  else None.
Definition is_digit_in (base c : N) : bool :=
  match digit_val c with Some v => v <? base | None => false end.

Lemma isspace_0 : isspace 0 = false. Proof. reflexivity. Qed.
Lemma isdigit_0 : isdigit 0 = false. Proof. reflexivity. Qed.
Lemma isxdigit_0 : isxdigit 0 = false. Proof. reflexivity. Qed.
Lemma is_digit_in_0 base : is_digit_in base 0 = false. Proof. reflexivity. Qed.

(* ---------- literals ---------- *)
Fixpoint bytes_of_string (s : string) : list N :=
  match s with
  | EmptyString => []
  | String a r => N_of_ascii a :: bytes_of_string r
  end.
(* "lit" as a C object: with its terminator *)
Definition cstr (s : string) : list N := bytes_of_string s ++ [0].

(* ---------- the scanning loop every str* function is made of ---------- *)
(* first index j >= i whose byte does not satisfy p; Oob if the block ends first *)
Fixpoint scan_l (p : N -> bool) (l : list N) (i : N) : res N :=
  match l with
  | [] => Oob
  | b :: t => if p b then scan_l p t (N.succ i) else Ok i
  end.
Definition scan_while (p : N -> bool) (s : list N) (i : N) : res N :=
  scan_l p (skipn (N.to_nat i) s) i.

Lemma scan_l_spec p l i j :
  scan_l p l i = Ok j <->
  exists k, j = i + k /\ (exists b, rd l k = Some b /\ p b = false) /\
            forall m, m < k -> exists b, rd l m = Some b /\ p b = true.
Proof.
  revert i j. induction l as [|b t IH]; intros i j; simpl.
  - split; [discriminate|]. intros [k [_ [[b [Hb _]] _]]]. unfold rd in Hb.
    now destruct (N.to_nat k).
  - destruct (p b) eqn:Pb.
    + rewrite IH. split.
      * intros [k [-> [[c [Hc Pc]] Hm]]]. exists (N.succ k). split; [lia|]. split.
        -- exists c. now rewrite rd_cons_succ.
        -- intros m Hlt. destruct (N.eq_dec m 0) as [->|Hm0]; [exists b; now split|].
           replace m with (N.succ (N.pred m)) by lia. rewrite rd_cons_succ. apply Hm. lia.
      * intros [k [-> [[c [Hc Pc]] Hm]]].
        destruct (N.eq_dec k 0) as [->|Hk0].
        { rewrite rd_cons_0 in Hc. congruence. }
        exists (N.pred k). split; [lia|]. split.
        -- exists c. rewrite <- rd_cons_succ with (b := b). now replace (N.succ (N.pred k)) with k by lia.
        -- intros m Hlt. rewrite <- rd_cons_succ with (b := b). apply Hm. lia.
    + split.
      * intros [= <-]. exists 0. split; [lia|]. split; [exists b; now split|]. intros m Hm; lia.
      * intros [k [-> [_ Hm]]]. destruct (N.eq_dec k 0) as [->|Hk0]; [f_equal; lia|].
        destruct (Hm 0) as [c [Hc Pc]]; [lia|]. rewrite rd_cons_0 in Hc. congruence.
Qed.

(* characterisation through reads of the block itself *)
Lemma scan_while_spec p s i j :
  scan_while p s i = Ok j <->
  i <= j /\ (exists b, rd s j = Some b /\ p b = false) /\
  forall m, i <= m < j -> exists b, rd s m = Some b /\ p b = true.
Proof.
  unfold scan_while. rewrite scan_l_spec. split.
  - intros [k [-> [[b [Hb Pb]] Hm]]]. rewrite rd_skipn in Hb. split; [lia|]. split; [eauto|].
    intros m Hlt. destruct (Hm (m - i)) as [c [Hc Pc]]; [lia|]. rewrite rd_skipn in Hc.
    replace (i + (m - i)) with m in Hc by lia. eauto.
  - intros [Hij [[b [Hb Pb]] Hm]]. exists (j - i). split; [lia|]. split.
    + exists b. rewrite rd_skipn. now replace (i + (j - i)) with j by lia.
    + intros m Hlt. rewrite rd_skipn. apply Hm. lia.
Qed.

(* inside a C string a scan whose predicate rejects NUL never leaves the block *)
Lemma scan_while_ok p s n i :
  cstring s n -> i <= n -> p 0 = false ->
  exists j, scan_while p s i = Ok j /\ i <= j <= n.
Proof.
  intros [H0 Hk] Hi P0.
  (* least j in [i, n] with p (s[j]) = false, by induction on the distance *)
  remember (N.to_nat (n - i)) as d eqn:Ed. revert i Hi Ed.
  induction d as [|d IH]; intros i Hi Ed.
  - assert (i = n) by lia. subst i. exists n. split; [|lia].
    apply scan_while_spec. split; [lia|]. split; [exists 0; now split|]. intros m Hm; lia.
  - destruct (Hk i) as [b [Hb Nz]]; [lia|].
    destruct (p b) eqn:Pb.
    + destruct (IH (N.succ i)) as [j [Hj Hr]]; [lia|lia|]. exists j. split; [|lia].
      apply scan_while_spec in Hj. destruct Hj as [Hij [Hex Hm]].
      apply scan_while_spec. split; [lia|]. split; [exact Hex|].
      intros m Hlt. destruct (N.eq_dec m i) as [->|Hne]; [eauto|]. apply Hm. lia.
    + exists i. split; [|lia]. apply scan_while_spec. split; [lia|]. split; [eauto|].
      intros m Hm; lia.
Qed.

Lemma scan_while_not_oob p s n i :
  cstring s n -> i <= n -> p 0 = false -> scan_while p s i <> Oob.
Proof.
  intros Hs Hi P0. destruct (scan_while_ok p s n i Hs Hi P0) as [j [Hj _]]. congruence.
Qed.

(* ---------- str* functions ---------- *)
Definition strlen_at (s : list N) (i : N) : res N :=
  let* j := scan_while (fun b => negb (b =? 0)) s i in Ok (j - i).

(* strchr(s+i, c): Some index of the first c, None if the string has none
   (c = 0 finds the terminator, as in C) *)
Definition strchr (s : list N) (i c : N) : res (option N) :=
  let* j := scan_while (fun b => negb (b =? c) && negb (b =? 0)) s i in
  let* b := rdr s j in
  Ok (if b =? c then Some j else None).

Definition mem_byte (b : N) (set : list N) : bool := existsb (N.eqb b) set.
(* strspn / strcspn(s+i, set): length of the initial segment (set: bytes without NUL) *)
Definition strspn (s : list N) (i : N) (set : list N) : res N :=
  let* j := scan_while (fun b => negb (b =? 0) && mem_byte b set) s i in Ok (j - i).
Definition strcspn (s : list N) (i : N) (set : list N) : res N :=
  let* j := scan_while (fun b => negb (b =? 0) && negb (mem_byte b set)) s i in Ok (j - i).

(* strncmp(a+i, b+j, n) with an optional case folding: sign as a Z-free N code
   is awkward, so the result is the pair compared: Ok None = equal,
   Ok (Some (x, y)) = first differing bytes (x from a, y from b). *)
Fixpoint strncmp_f (fold : N -> N) (n : nat) (a : list N) (i : N) (b : list N) (j : N)
  : res (option (N * N)) :=
  match n with
  | O => Ok None
  | S n' =>
    let* x := rdr a i in
    let* y := rdr b j in
    if negb (fold x =? fold y) then Ok (Some (fold x, fold y))
    else if x =? 0 then Ok None
    else strncmp_f fold n' a (N.succ i) b (N.succ j)
  end.
Definition strncmp (a : list N) (i : N) (b : list N) (j : N) (n : N) :=
  strncmp_f (fun x => x) (N.to_nat n) a i b j.
Definition strncasecmp (a : list N) (i : N) (b : list N) (j : N) (n : N) :=
  strncmp_f tolower (N.to_nat n) a i b j.
Definition cmp_eq (r : res (option (N * N))) : res bool :=
  let* o := r in Ok (match o with None => true | Some _ => false end).
(* !strncmp("lit", s+i, strlen("lit")) : the usual prefix test *)
Definition has_prefix (lit : string) (s : list N) (i : N) : res bool :=
  cmp_eq (strncmp (cstr lit) 0 s i (len (bytes_of_string lit))).
Definition has_prefix_nocase (lit : string) (s : list N) (i : N) : res bool :=
  cmp_eq (strncasecmp (cstr lit) 0 s i (len (bytes_of_string lit))).

Lemma strlen_at_ok s n i : cstring s n -> i <= n -> strlen_at s i = Ok (n - i).
Proof.
  intros Hs Hi. unfold strlen_at.
  destruct (scan_while_ok (fun b => negb (b =? 0)) s n i Hs Hi eq_refl) as [j [Hj Hr]].
  rewrite Hj. simpl. f_equal.
  apply scan_while_spec in Hj. destruct Hj as [_ [[b [Hb Pb]] _]].
  apply negb_false_iff, N.eqb_eq in Pb. subst b.
  destruct Hs as [H0 Hk]. destruct (N.eq_dec j n) as [->|Hne]; [reflexivity|].
  destruct (Hk j) as [c [Hc Nz]]; [lia|]. congruence.
Qed.

Lemma strchr_ok s n i c : cstring s n -> i <= n ->
  exists r, strchr s i c = Ok r /\
    match r with
    | Some j => i <= j <= n /\ rd s j = Some c /\ forall m, i <= m < j -> rd s m <> Some c
    | None => c <> 0 /\ forall m, i <= m <= n -> rd s m <> Some c
    end.
Proof.
  intros Hs Hi. unfold strchr.
  destruct (scan_while_ok (fun b => negb (b =? c) && negb (b =? 0)) s n i Hs Hi) as [j [Hj Hr]].
  { simpl. now rewrite andb_false_r. }
  rewrite Hj. simpl. apply scan_while_spec in Hj. destruct Hj as [_ [[b [Hb Pb]] Hm]].
  unfold rdr. rewrite Hb. simpl. eexists. split; [reflexivity|].
  destruct (N.eqb_spec b c) as [->|Hne].
  - split; [lia|]. split; [exact Hb|]. intros m Hlt E.
    destruct (Hm m Hlt) as [b' [Hb' Pb']]. rewrite E in Hb'. injection Hb' as <-.
    rewrite N.eqb_refl in Pb'. discriminate.
  - simpl in Pb. apply negb_false_iff, N.eqb_eq in Pb. subst b.
    assert (j = n).
    { destruct Hs as [H0 Hk]. destruct (N.eq_dec j n) as [->|Hne']; [reflexivity|].
      destruct (Hk j) as [c' [Hc' Nz]]; [lia|]. congruence. }
    subst j. split; [congruence|]. intros m Hlt E.
    destruct (N.eq_dec m n) as [->|Hne']; [congruence|].
    destruct (Hm m) as [b' [Hb' Pb']]; [lia|]. rewrite E in Hb'. injection Hb' as <-.
    rewrite N.eqb_refl in Pb'. discriminate.
Qed.

(* strncmp of two C strings never leaves either block, provided the folding
   maps only NUL to fold(NUL) (identity, tolower) *)
Definition fold_ok (fold : N -> N) : Prop := forall x, fold x = fold 0 -> x = 0.
Lemma fold_ok_id : fold_ok (fun x => x).
Proof. intros x H. exact H. Qed.
Lemma fold_ok_tolower : fold_ok tolower.
Proof.
  intros x. unfold tolower. change (isupper 0) with false. cbv iota.
  unfold isupper. destruct (65 <=? x) eqn:E1; destruct (x <=? 90) eqn:E2; simpl; lia.
Qed.

Lemma strncmp_f_ok fold k a na i b nb j :
  fold_ok fold ->
  cstring a na -> cstring b nb -> i <= na -> j <= nb ->
  strncmp_f fold k a i b j <> Oob.
Proof.
  intros Hf Ha Hb. revert i j. induction k as [|k IH]; intros i j Hi Hj; simpl; [discriminate|].
  assert (exists x, rd a i = Some x /\ (x = 0 <-> i = na)) as [x [Hx Zx]].
  { destruct Ha as [H0 Hk]. destruct (N.eq_dec i na) as [->|Hne].
    - exists 0. tauto.
    - destruct (Hk i) as [x [Hx Nz]]; [lia|]. exists x. tauto. }
  assert (exists y, rd b j = Some y /\ (y = 0 <-> j = nb)) as [y [Hy Zy]].
  { destruct Hb as [H0 Hk]. destruct (N.eq_dec j nb) as [->|Hne].
    - exists 0. tauto.
    - destruct (Hk j) as [y [Hy Nz]]; [lia|]. exists y. tauto. }
  unfold rdr. rewrite Hx, Hy. simpl.
  destruct (fold x =? fold y) eqn:E; simpl; [|discriminate].
  destruct (N.eqb_spec x 0) as [->|Hx0]; [discriminate|].
  apply N.eqb_eq in E.
  assert (y <> 0). { intros ->. apply Hx0, Hf, E. }
  apply IH; [|].
  - assert (i <> na) by tauto. lia.
  - assert (j <> nb) by tauto. lia.
Qed.

(* prefix test against a literal without NUL = comparing with the bytes at i,
   stopping at the first difference; Oob iff the block ends while still equal *)
Fixpoint prefix_l (lit l : list N) : res bool :=
  match lit with
  | [] => Ok true
  | x :: lt => match l with
               | [] => Oob
               | y :: t => if x =? y then prefix_l lt t else Ok false
               end
  end.

Lemma strncmp_lit_gen l2 : forall l1 rest s i, no_nul l2 ->
  cmp_eq (strncmp_f (fun x => x) (length l2) (l1 ++ l2 ++ 0 :: rest) (len l1) s i)
  = prefix_l l2 (skipn (N.to_nat i) s).
Proof.
  induction l2 as [|x l2 IH]; intros l1 rest s i Hn; [reflexivity|].
  inversion Hn as [|x' l' Hx Hn']; subst.
  cbn [length strncmp_f prefix_l]. unfold rdr at 1.
  rewrite rd_app_r by lia. rewrite N.sub_diag. cbn [app]. rewrite rd_cons_0. cbn [bind].
  unfold rdr. rewrite <- (N.add_0_r i) at 1. rewrite <- rd_skipn.
  destruct (skipn (N.to_nat i) s) as [|y t] eqn:E; [reflexivity|].
  rewrite rd_cons_0. cbn [bind].
  destruct (N.eqb_spec x y) as [->|Hne]; cbn [negb]; [|reflexivity].
  destruct (N.eqb_spec y 0) as [->|_]; [congruence|].
  specialize (IH (l1 ++ [y]) rest s (N.succ i) Hn').
  rewrite <- app_assoc in IH. cbn [app] in IH.
  replace (len (l1 ++ [y])) with (N.succ (len l1)) in IH by (rewrite len_app; unfold len; simpl; lia).
  rewrite IH. f_equal. rewrite N2Nat.inj_succ.
  clear -E. revert s E. induction (N.to_nat i) as [|n IHn]; intros s E.
  - simpl in E. subst s. reflexivity.
  - destruct s as [|b s]; [discriminate|]. simpl in E. simpl. now apply IHn.
Qed.

Lemma has_prefix_spec lit s i :
  no_nul (bytes_of_string lit) ->
  has_prefix lit s i = prefix_l (bytes_of_string lit) (skipn (N.to_nat i) s).
Proof.
  intros Hn. unfold has_prefix, strncmp, cstr, len. rewrite Nat2N.id.
  exact (strncmp_lit_gen (bytes_of_string lit) [] [] s i Hn).
Qed.

Lemma prefix_l_app lit rest : prefix_l lit (lit ++ rest) = Ok true.
Proof. induction lit as [|x l IH]; simpl; [reflexivity|]. now rewrite N.eqb_refl. Qed.

(* within a C string the prefix test never leaves the block *)
Lemma prefix_l_ok lit s n i : no_nul lit -> cstring s n -> i <= n ->
  prefix_l lit (skipn (N.to_nat i) s) <> Oob.
Proof.
  intros Hl Hs. revert i. induction lit as [|x l IH]; intros i Hi; simpl; [discriminate|].
  inversion Hl as [|x' l' Hx Hl']; subst.
  destruct (skipn (N.to_nat i) s) as [|y t] eqn:E.
  - exfalso. assert (R : rd (skipn (N.to_nat i) s) 0 = None) by now rewrite E.
    rewrite rd_skipn, N.add_0_r in R. apply rd_none in R.
    destruct Hs as [H0 _]. apply rd_some_lt in H0. lia.
  - destruct (N.eqb_spec x y) as [<-|Hne]; [|discriminate].
    assert (R : rd (skipn (N.to_nat i) s) 0 = Some x) by now rewrite E.
    rewrite rd_skipn, N.add_0_r in R.
    assert (i <> n). { intros ->. destruct Hs as [H0 _]. congruence. }
    specialize (IH Hl' (N.succ i)). rewrite N2Nat.inj_succ in IH.
    replace t with (skipn (S (N.to_nat i)) s); [apply IH; lia|].
    clear -E. revert s E. induction (N.to_nat i) as [|k IHk]; intros s E.
    + simpl in E. subst s. reflexivity.
    + destruct s as [|b s]; [discriminate|]. simpl in E. simpl. now apply IHk.
Qed.

(* ---------- decomposition lemmas: blocks written as pre ++ body ++ t :: post ---------- *)
Lemma scan_l_app p ds t post i :
  Forall (fun b => p b = true) ds -> p t = false ->
  scan_l p (ds ++ t :: post) i = Ok (i + len ds).
Proof.
  intros Hd Ht. revert i. induction Hd as [|b ds Hb Hd IH]; intros i; simpl.
  - rewrite Ht. f_equal. unfold len. simpl. lia.
  - rewrite Hb, IH. f_equal. rewrite len_cons. lia.
Qed.

Lemma skipn_len_app (pre l : list N) : skipn (N.to_nat (len pre)) (pre ++ l) = l.
Proof.
  unfold len. rewrite Nat2N.id. induction pre as [|b pre IH]; simpl; [reflexivity|exact IH].
Qed.

Lemma scan_while_app p pre ds t post :
  Forall (fun b => p b = true) ds -> p t = false ->
  scan_while p (pre ++ ds ++ t :: post) (len pre) = Ok (len pre + len ds).
Proof.
  intros Hd Ht. unfold scan_while. rewrite skipn_len_app. now apply scan_l_app.
Qed.

Lemma sub_app pre ds post : sub (pre ++ ds ++ post) (len pre) (len pre + len ds) = ds.
Proof.
  unfold sub. rewrite skipn_len_app. replace (len pre + len ds - len pre) with (len ds) by lia.
  unfold len. rewrite Nat2N.id. rewrite firstn_app, Nat.sub_diag, firstn_all. simpl. apply app_nil_r.
Qed.

Lemma rd_app_mid pre t post : rd (pre ++ t :: post) (len pre) = Some t.
Proof. rewrite rd_app_r by lia. now rewrite N.sub_diag. Qed.

(* memcpy(dst, s+i, n): the n bytes read, Oob if any lies outside the block *)
Fixpoint rdn_f (n : nat) (s : list N) (i : N) : res (list N) :=
  match n with
  | O => Ok []
  | S n' => let* b := rdr s i in let* t := rdn_f n' s (N.succ i) in Ok (b :: t)
  end.
Definition rdn (s : list N) (i n : N) : res (list N) := rdn_f (N.to_nat n) s i.

Lemma rdn_f_ok n : forall s i, i + N.of_nat n <= len s ->
  rdn_f n s i = Ok (firstn n (skipn (N.to_nat i) s)).
Proof.
  induction n as [|n IH]; intros s i Hi; [reflexivity|].
  cbn [rdn_f]. destruct (rd_lt_some s i) as [b Hb]; [lia|]. unfold rdr. rewrite Hb. cbn [bind].
  rewrite IH by lia. cbn [bind]. f_equal.
  rewrite <- (N.add_0_r i) in Hb. rewrite <- rd_skipn in Hb.
  rewrite N2Nat.inj_succ.
  destruct (skipn (N.to_nat i) s) as [|y t] eqn:E; [discriminate|].
  rewrite rd_cons_0 in Hb. injection Hb as ->. cbn [firstn]. f_equal. f_equal.
  clear -E. revert s E. induction (N.to_nat i) as [|k IHk]; intros s E.
  - simpl in E. subst s. reflexivity.
  - destruct s as [|c s]; [discriminate|]. simpl in E. simpl. now apply IHk.
Qed.
Lemma rdn_ok s i n : i + n <= len s -> rdn s i n = Ok (sub s i (i + n)).
Proof.
  intros H. unfold rdn, sub. rewrite rdn_f_ok by lia. do 3 f_equal. lia.
Qed.

(* reading inside a C string: always defined, NUL exactly at n *)
Lemma cstring_rd s n k : cstring s n -> k <= n -> exists b, rd s k = Some b /\ (b = 0 <-> k = n).
Proof.
  intros [H0 Hlt] Hk. destruct (N.eq_dec k n) as [->|Hne].
  - exists 0. tauto.
  - destruct (Hlt k) as [b [Hb Nz]]; [lia|]. exists b. tauto.
Qed.
Lemma cstring_len s n : cstring s n -> n < len s.
Proof. intros [H0 _]. now apply rd_some_lt in H0. Qed.

(* a matched literal prefix lies inside the string *)
Lemma prefix_l_true lit : forall l, prefix_l lit l = Ok true -> exists rest, l = lit ++ rest.
Proof.
  induction lit as [|x lt IH]; intros l H; simpl in H.
  - now exists l.
  - destruct l as [|y t]; [discriminate|]. destruct (N.eqb_spec x y) as [->|]; [|discriminate].
    destruct (IH t H) as [rest ->]. now exists rest.
Qed.
Lemma prefix_in_cstring lit s n i : no_nul lit -> cstring s n -> i <= n ->
  prefix_l lit (skipn (N.to_nat i) s) = Ok true -> i + len lit <= n.
Proof.
  intros Hl Hs Hi H. destruct (prefix_l_true _ _ H) as [rest E].
  destruct (N.le_gt_cases (i + len lit) n) as [|Hgt]; [assumption|exfalso].
  (* then the NUL at n would be one of the literal's bytes *)
  destruct Hs as [H0 _].
  assert (R : rd (skipn (N.to_nat i) s) (n - i) = Some 0).
  { rewrite rd_skipn. now replace (i + (n - i)) with n by lia. }
  rewrite E, rd_app_l in R by lia.
  unfold no_nul in Hl. rewrite Forall_forall in Hl. apply (Hl 0); [|reflexivity].
  unfold rd in R. eapply nth_error_In; eauto.
Qed.
