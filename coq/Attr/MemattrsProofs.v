(* C14 - lemmas about the model Attr/Memattrs.v. *)
From Coq Require Import List NArith Bool Lia ZifyBool ZifyN ZifyNat.
From HV Require Import Base.BSet Gen.Tables Attr.Memattrs Attr.MemattrsAux.
Import ListNotations.
Local Open Scope N_scope.

(* ================================================================== *)
(* A. register                                                         *)

(* the three C tests, as one readable predicate: no unknown bit, and exactly
   one of HIGHER_FIRST / LOWER_FIRST *)
Definition reg_flags_ok (f : N) : bool :=
  (N.ldiff f flags_all =? 0)
  && xorb (has f HWLOC_MEMATTR_FLAG_HIGHER_FIRST) (has f HWLOC_MEMATTR_FLAG_LOWER_FIRST).

Lemma land3_cases f : N.land f 3 = 0 \/ N.land f 3 = 1 \/ N.land f 3 = 2 \/ N.land f 3 = 3.
Proof.
  assert (H : N.land f 3 = f mod 2 ^ 2) by (change 3 with (N.ones 2); apply N.land_ones).
  assert (f mod 2 ^ 2 < 2 ^ 2) by (apply N.mod_lt; discriminate).
  change (2 ^ 2) with 4 in *. lia.
Qed.

(* these two hold for the regenerated constants (HIGHER=1, LOWER=2); if the
   header changes them the proof is re-run against the new values *)
Lemma has_hl f b : N.land b 3 = b -> has f b = has (N.land f 3) b.
Proof. intros Hb. unfold has. rewrite <- N.land_assoc. rewrite (N.land_comm 3 b), Hb. reflexivity. Qed.

Lemma register_tests f :
  ((N.land f flags_hl =? 0) || (N.land f flags_hl =? flags_hl))
  = negb (xorb (has f HWLOC_MEMATTR_FLAG_HIGHER_FIRST) (has f HWLOC_MEMATTR_FLAG_LOWER_FIRST)).
Proof.
  rewrite (has_hl f HWLOC_MEMATTR_FLAG_HIGHER_FIRST) by reflexivity.
  rewrite (has_hl f HWLOC_MEMATTR_FLAG_LOWER_FIRST) by reflexivity.
  change flags_hl with 3.
  destruct (land3_cases f) as [H|[H|[H|H]]]; rewrite H; reflexivity.
Qed.

Lemma index_of_spec {A} (p : A -> bool) l k :
  match index_of p l k with
  | Some i => k <= i /\ exists x, nth_errN l (i - k) = Some x /\ p x = true
              /\ forall j y, j < i - k -> nth_errN l j = Some y -> p y = false
  | None => forall x, In x l -> p x = false
  end.
Proof.
  revert k. induction l as [|x l IH]; intros k; cbn [index_of].
  - intros x [].
  - destruct (p x) eqn:E.
    + split; [lia|]. exists x. rewrite N.sub_diag. repeat split; [assumption|]. intros j y Hj. lia.
    + specialize (IH (N.succ k)). destruct (index_of p l (N.succ k)) as [i|].
      * destruct IH as [Hk [y [Hy [Py Hmin]]]]. split; [lia|]. exists y.
        cbn [nth_errN]. destruct (N.eqb_spec (i - k) 0); [lia|].
        replace (N.pred (i - k)) with (i - N.succ k) by lia. repeat split; try assumption.
        intros j z Hj. destruct (N.eqb_spec j 0) as [->|Hj0]; [intros H; injection H as <-; exact E|].
        apply Hmin. lia.
      * intros y [<-|Hy]; [exact E|]. now apply IH.
Qed.

Lemma name_used_false l name : name_used l name = false -> forall a, In a l -> a_name a <> name.
Proof.
  unfold name_used. intros H a Ha E.
  assert (X : existsb (fun a => bytes_eqb name (a_name a)) l = true).
  { apply existsb_exists. exists a. split; [assumption|]. apply bytes_eqb_eq. now symmetry. }
  congruence.
Qed.

Lemma name_used_true l name : name_used l name = true -> exists a, In a l /\ a_name a = name.
Proof.
  unfold name_used. intros H. apply existsb_exists in H. destruct H as [a [Ha E]].
  exists a. split; [assumption|]. apply bytes_eqb_eq in E. now symmetry.
Qed.

Lemma register_rules s name flags :
  let s' := fst (register s name flags) in
  let r := snd (register s name flags) in
  (reg_flags_ok flags = false -> r = Err EINVAL /\ s' = s) /\
  (reg_flags_ok flags = true -> name_used (m_attrs s) name = true -> r = Err EBUSY /\ s' = s) /\
  (reg_flags_ok flags = true -> name_used (m_attrs s) name = false ->
     let id := lenN (m_attrs s) in
     r = Ok id /\ m_topo s' = m_topo s /\
     m_attrs s' = m_attrs s ++ [Imattr name flags false true []] /\
     get_flags s' id = Ok flags /\ get_name s' id = Ok name /\ get_by_name s' name = Ok id /\
     (forall j, j < id -> get_attr s' j = get_attr s j)).
Proof.
  cbn zeta. unfold register, reg_flags_ok.
  pose proof (register_tests flags) as T.
  destruct (N.ldiff flags flags_all =? 0) eqn:E1; cbn [negb andb].
  2:{ repeat split; intros; try discriminate; reflexivity. }
  destruct (N.land flags flags_hl =? 0) eqn:E2; cbn [orb] in T.
  { assert (X : xorb (has flags HWLOC_MEMATTR_FLAG_HIGHER_FIRST) (has flags HWLOC_MEMATTR_FLAG_LOWER_FIRST) = false)
      by (destruct (xorb _ _); [discriminate|reflexivity]).
    rewrite X. repeat split; intros; try discriminate; reflexivity. }
  destruct (N.land flags flags_hl =? flags_hl) eqn:E3.
  { assert (X : xorb (has flags HWLOC_MEMATTR_FLAG_HIGHER_FIRST) (has flags HWLOC_MEMATTR_FLAG_LOWER_FIRST) = false)
      by (destruct (xorb _ _); [discriminate|reflexivity]).
    rewrite X. repeat split; intros; try discriminate; reflexivity. }
  assert (X : xorb (has flags HWLOC_MEMATTR_FLAG_HIGHER_FIRST) (has flags HWLOC_MEMATTR_FLAG_LOWER_FIRST) = true)
    by (destruct (xorb _ _); [reflexivity|discriminate]).
  rewrite X. split; [intros; discriminate|]. split.
  - intros _ U. rewrite U. cbn [fst snd]. split; reflexivity.
  - intros _ U. rewrite U. cbn [fst snd m_topo m_attrs].
    split; [reflexivity|]. split; [reflexivity|]. split; [reflexivity|].
    unfold get_flags, get_name, get_attr. cbn [m_attrs].
    rewrite nth_errN_app_len. cbn [nth_errN N.eqb a_flags a_name].
    split; [reflexivity|]. split; [reflexivity|]. split.
    + unfold get_by_name. cbn [m_attrs].
      pose proof (index_of_spec (fun a => bytes_eqb (a_name a) name) (m_attrs s ++ [Imattr name flags false true []]) 0) as I.
      destruct (index_of _ _ 0) as [i|].
      * destruct I as [_ [x [Hx [Px Hmin]]]]. rewrite N.sub_0_r in *.
        f_equal. destruct (N.lt_trichotomy i (lenN (m_attrs s))) as [L|[L|L]]; [|assumption|].
        -- rewrite nth_errN_app_l in Hx by assumption.
           apply nth_errN_In in Hx. apply bytes_eqb_eq in Px.
           exfalso. exact (name_used_false _ _ U _ Hx Px).
        -- exfalso. specialize (Hmin (lenN (m_attrs s)) (Imattr name flags false true []) L).
           rewrite nth_errN_app_len in Hmin. specialize (Hmin eq_refl). cbn [a_name] in Hmin.
           assert (bytes_eqb name name = true) by now apply bytes_eqb_eq. congruence.
      * exfalso. specialize (I (Imattr name flags false true [])).
        rewrite in_app_iff in I. specialize (I (or_intror (or_introl eq_refl))). cbn [a_name] in I.
        assert (bytes_eqb name name = true) by now apply bytes_eqb_eq. congruence.
    + intros j Hj. now apply nth_errN_app_l.
Qed.

(* ================================================================== *)
(* D. best_of                                                          *)

Definition better (kh : bool) (v w : N) : Prop := if kh then w <= v else v <= w.  (* v at least as good as w *)

Lemma best_of_fold_spec {A} kh (l : list (A * N)) (b : option (A * N)) :
  match fold_left (fun b e => update_best kh b (fst e) (snd e)) l b with
  | None => b = None /\ l = []
  | Some (x, v) =>
      (b = Some (x, v) \/ In (x, v) l) /\
      (forall y w, b = Some (y, w) -> better kh v w) /\
      (forall y w, In (y, w) l -> better kh v w)
  end.
Proof.
  revert b. induction l as [|[y w] l IH]; intros b; cbn [fold_left].
  - destruct b as [[x v]|]; [|split; reflexivity].
    split; [now left|]. split; [|intros ? ? []].
    intros y w H. injection H as <- <-. unfold better. destruct kh; lia.
  - specialize (IH (update_best kh b (fst (y, w)) (snd (y, w)))). cbn [fst snd] in *.
    destruct (fold_left _ l _) as [[x v]|].
    + destruct IH as [H1 [H2 H3]].
      unfold update_best in *. destruct b as [[bx bv]|].
      * destruct kh.
        -- destruct (N.leb_spec w bv).
           ++ split; [destruct H1; [now left|right; now right]|]. split.
              ** intros y' w' E. injection E as <- <-. now apply (H2 bx bv).
              ** intros y' w' [E|E]; [injection E as <- <-|now apply (H3 y' w')].
                 specialize (H2 bx bv eq_refl). unfold better in *. lia.
           ++ split; [destruct H1 as [E|E]; [injection E as <- <-; right; now left|right; now right]|]. split.
              ** intros y' w' E. injection E as <- <-. specialize (H2 y w eq_refl). unfold better in *. lia.
              ** intros y' w' [E|E]; [injection E as <- <-; now apply (H2 y w)|now apply (H3 y' w')].
        -- destruct (N.leb_spec bv w).
           ++ split; [destruct H1; [now left|right; now right]|]. split.
              ** intros y' w' E. injection E as <- <-. now apply (H2 bx bv).
              ** intros y' w' [E|E]; [injection E as <- <-|now apply (H3 y' w')].
                 specialize (H2 bx bv eq_refl). unfold better in *. lia.
           ++ split; [destruct H1 as [E|E]; [injection E as <- <-; right; now left|right; now right]|]. split.
              ** intros y' w' E. injection E as <- <-. specialize (H2 y w eq_refl). unfold better in *. lia.
              ** intros y' w' [E|E]; [injection E as <- <-; now apply (H2 y w)|now apply (H3 y' w')].
      * split; [destruct H1 as [E|E]; [injection E as <- <-; right; now left|right; now right]|]. split.
        -- intros ? ? E. discriminate.
        -- intros y' w' [E|E]; [injection E as <- <-; now apply (H2 y w)|now apply (H3 y' w')].
    + destruct IH as [H1 _]. unfold update_best in H1. destruct b as [[bx bv]|]; [|discriminate].
      destruct kh; [destruct (w <=? bv)|destruct (bv <=? w)]; discriminate.
Qed.

Lemma best_of_none {A} kh (l : list (A * N)) : best_of kh l = None <-> l = [].
Proof.
  unfold best_of. pose proof (best_of_fold_spec kh l None) as H.
  destruct (fold_left _ l None) as [[x v]|].
  - split; [discriminate|]. intros ->. destruct H as [[H|[]] _]. discriminate.
  - split; [intros _; apply H|reflexivity].
Qed.

Lemma best_of_some {A} kh (l : list (A * N)) x v :
  best_of kh l = Some (x, v) -> In (x, v) l /\ forall y w, In (y, w) l -> better kh v w.
Proof.
  unfold best_of. pose proof (best_of_fold_spec kh l None) as H. intros E. rewrite E in H.
  destruct H as [[H|H] [_ H3]]; [discriminate|]. split; assumption.
Qed.

(* ================================================================== *)
(* C. local NUMA nodes                                                 *)

Definition local_sel (flags : N) (c : bset) (n : obj) : bool :=
  has flags HWLOC_LOCAL_NUMANODE_FLAG_ALL || match_local flags c n.

Lemma local_numanodes_spec s c flags max nnull :
  N.ldiff flags local_mask = 0 -> (max = 0 \/ nnull = false) ->
  let sel := map o_gp (filter (local_sel flags c) (numa_nodes (m_topo s))) in
  local_numanodes s (Some (LCpu (Some c))) flags max nnull = Ok (lenN sel, firstnN max sel).
Proof.
  intros Hf Hm. cbn zeta. unfold local_numanodes. rewrite Hf. cbn [N.eqb negb].
  assert (X : negb (max =? 0) && nnull = false).
  { destruct Hm as [->| ->]; [reflexivity|apply andb_false_r]. }
  rewrite X. unfold local_sel.
  destruct (has flags HWLOC_LOCAL_NUMANODE_FLAG_ALL) eqn:EA; cbn [orb].
  - replace (filter (fun _ => true) (numa_nodes (m_topo s))) with (numa_nodes (m_topo s)); [reflexivity|].
    induction (numa_nodes (m_topo s)) as [|x l IH]; [reflexivity|]. cbn [filter]. now rewrite <- IH.
  - reflexivity.
Qed.

Lemma local_numanodes_obj s o flags max nnull :
  local_numanodes s (Some (LObj o)) flags max nnull = local_numanodes s (Some (LCpu (Some (o_cpuset o)))) flags max nnull.
Proof. reflexivity. Qed.

Lemma match_local_spec flags c n :
  match_local flags c n = true <->
  (has flags HWLOC_LOCAL_NUMANODE_FLAG_LARGER_LOCALITY = true /\ (forall i, mem i c = true -> mem i (o_cpuset n) = true))
  \/ (has flags HWLOC_LOCAL_NUMANODE_FLAG_SMALLER_LOCALITY = true /\ (forall i, mem i (o_cpuset n) = true -> mem i c = true))
  \/ o_cpuset n = c.
Proof.
  unfold match_local. rewrite !orb_true_iff, !andb_true_iff, !bs_subset_spec, bs_eqb_spec. tauto.
Qed.

(* ================================================================== *)
(* E. invariants of the attribute table                                *)

Record wf_topo (t : topo) : Prop := {
  wf_gp_nodup : NoDup (map o_gp (t_objs t));
  wf_gp_some : forall o, In o (t_objs t) -> o_gp o <> MEMATTR_GP_NONE;
  wf_os_unique : forall o1 o2, In o1 (t_objs t) -> In o2 (t_objs t) ->
      o_type o1 = o_type o2 -> o_os o1 = o_os o2 -> o_os o1 <> MEMATTR_OS_NONE -> o1 = o2;
  wf_numa_cpuset : forall o, In o (t_objs t) -> is_numa o = true -> o_hascpuset o = true
}.

Lemma NoDup_map_inj {A B} (f : A -> B) l x y : NoDup (map f l) -> In x l -> In y l -> f x = f y -> x = y.
Proof.
  induction l as [|z l IH]; intros N Hx Hy E; [destruct Hx|].
  cbn [map] in N. inversion N as [|? ? N1 N2]; subst.
  destruct Hx as [->|Hx], Hy as [->|Hy]; try reflexivity.
  - exfalso. apply N1. rewrite E. now apply in_map.
  - exfalso. apply N1. rewrite <- E. now apply in_map.
  - now apply IH.
Qed.

Lemma obj_by_type_gp_some t ty gp o :
  obj_by_type_gp t ty gp = Some o -> In o (t_objs t) /\ o_type o = ty /\ o_gp o = gp.
Proof.
  unfold obj_by_type_gp. intros H. apply find_some in H. destruct H as [H1 H2].
  apply andb_true_iff in H2. destruct H2 as [H2 H3]. apply N.eqb_eq in H2, H3. auto.
Qed.

Lemma obj_by_type_gp_in t o : wf_topo t -> In o (t_objs t) -> obj_by_type_gp t (o_type o) (o_gp o) = Some o.
Proof.
  intros W Ho. destruct (obj_by_type_gp t (o_type o) (o_gp o)) as [o'|] eqn:E.
  - apply obj_by_type_gp_some in E. destruct E as [E1 [E2 E3]].
    f_equal. apply (NoDup_map_inj o_gp (t_objs t)); auto. apply W.
  - unfold obj_by_type_gp in E. apply find_none with (x := o) in E; [|assumption].
    rewrite !N.eqb_refl in E. discriminate.
Qed.

Definition tkey (g : imtg) : N * N := (g_type g, g_gp g).
Definition key_eqb (ty gp : N) (g : imtg) : bool := (g_type g =? ty) && (g_gp g =? gp).

(* if the object a target designates exists, its os_index is the stored one *)
Definition os_ok (t : topo) (g : imtg) : Prop :=
  g_os g = MEMATTR_OS_NONE \/
  forall o, In o (t_objs t) -> o_type o = g_type g -> o_gp o = g_gp g -> o_os o = g_os g.

Definition tg_ok (t : topo) (need : bool) (g : imtg) : Prop :=
  g_gp g <> MEMATTR_GP_NONE /\ os_ok t g /\ (need = false -> g_inits g = []).

Definition loc_stable (t : topo) (l : iloc) : Prop :=
  match l with
  | ICpu c => bs_subset c (t_root t) = true /\ bs_is_empty c = false
  | IObj ty gp => exists o, obj_by_type_gp t ty gp = Some o
  end.
Definition istable (t : topo) (i : imi) : Prop := loc_stable t (i_loc i).

(* a target that hwloc__imtg_refresh would leave as it is *)
Definition stable (t : topo) (need : bool) (g : imtg) : Prop :=
  (exists o, obj_by_type_gp t (g_type g) (g_gp g) = Some o) /\
  Forall (istable t) (g_inits g) /\
  (need = true -> g_inits g <> []).

Definition ok_imi (i : imi) : imi := Imi (i_loc i) (i_val i) true.
Definition ok_tg (g : imtg) : imtg := Imtg (g_type g) (g_gp g) (g_os g) (map ok_imi (g_inits g)) (g_val g).

Lemma refresh_imi_stable t i : istable t i -> refresh_imi t i = Some (ok_imi i).
Proof.
  unfold istable, refresh_imi, ok_imi. destruct i as [[c|ty gp] v ok]; cbn [i_loc i_val loc_stable].
  - intros [H1 H2]. rewrite (bs_inter_subset_eq _ _ H1), H2. reflexivity.
  - intros [o Ho]. rewrite Ho. reflexivity.
Qed.

Lemma refresh_imi_out t i i' :
  refresh_imi t i = Some i' ->
  istable t i' /\ i_val i' = i_val i /\ i_ok i' = true /\
  match i_loc i with
  | ICpu c => i_loc i' = ICpu (bs_inter c (t_root t))
  | IObj ty gp => i_loc i' = IObj ty gp
  end.
Proof.
  unfold refresh_imi, istable. destruct i as [[c|ty gp] v ok]; cbn [i_loc i_val].
  - destruct (bs_is_empty (bs_inter c (t_root t))) eqn:E; [discriminate|].
    intros H. injection H as <-. cbn [i_loc i_val i_ok loc_stable]. repeat split; try assumption.
    apply bs_inter_eq_subset. apply bs_inter_idem_r.
  - destruct (obj_by_type_gp t ty gp) as [o|] eqn:E; [|discriminate].
    intros H. injection H as <-. cbn [i_loc i_val i_ok loc_stable]. repeat split. eauto.
Qed.

Lemma lookup_target_gp t g : g_gp g <> MEMATTR_GP_NONE -> lookup_target t g = obj_by_type_gp t (g_type g) (g_gp g).
Proof. intros H. unfold lookup_target. apply N.eqb_neq in H. now rewrite H. Qed.

Lemma refresh_tg_stable t need g :
  tg_ok t need g -> stable t need g -> refresh_tg t need g = Some (ok_tg g).
Proof.
  intros [G [_ Sh]] [[o Ho] [Hi Hn]]. unfold refresh_tg. rewrite lookup_target_gp, Ho by assumption.
  apply obj_by_type_gp_some in Ho. destruct Ho as [_ [_ Hgp]].
  destruct need.
  - rewrite (filter_map_all _ ok_imi).
    + unfold ok_tg. rewrite Hgp. specialize (Hn eq_refl).
      destruct (g_inits g); [contradiction|reflexivity].
    + intros x Hx. apply refresh_imi_stable. rewrite Forall_forall in Hi. auto.
  - unfold ok_tg. rewrite Hgp, (Sh eq_refl). reflexivity.
Qed.

Lemma os_ok_same t g g' : g_type g' = g_type g -> g_gp g' = g_gp g -> g_os g' = g_os g -> os_ok t g -> os_ok t g'.
Proof. unfold os_ok. intros -> -> ->. auto. Qed.

Lemma refresh_tg_out t need g g' :
  tg_ok t need g -> refresh_tg t need g = Some g' ->
  stable t need g' /\ tg_ok t need g' /\ g_type g' = g_type g /\ g_gp g' = g_gp g /\ g_os g' = g_os g
  /\ g_val g' = g_val g /\ g_inits g' = (if need then filter_map (refresh_imi t) (g_inits g) else g_inits g).
Proof.
  intros [G [O Sh]]. unfold refresh_tg. rewrite lookup_target_gp by assumption.
  destruct (obj_by_type_gp t (g_type g) (g_gp g)) as [o|] eqn:Ho; [|discriminate].
  pose proof (obj_by_type_gp_some _ _ _ _ Ho) as [_ [_ Hgp]].
  destruct need.
  - destruct (filter_map (refresh_imi t) (g_inits g)) as [|i0 is] eqn:F; [discriminate|].
    intros H. injection H as <-. cbn [g_type g_gp g_os g_val g_inits]. rewrite Hgp.
    repeat split; try assumption; try reflexivity.
    + eauto.
    + apply Forall_forall. intros x Hx. rewrite <- F in Hx. apply in_filter_map in Hx.
      destruct Hx as [y [_ Hy]]. apply refresh_imi_out in Hy. tauto.
    + discriminate.
    + discriminate.
  - intros H. injection H as <-. cbn [g_type g_gp g_os g_val g_inits]. rewrite Hgp.
    repeat split; try assumption; try reflexivity.
    + eauto.
    + rewrite (Sh eq_refl). constructor.
    + discriminate.
Qed.

Definition attr_ok (t : topo) (a : imattr) : Prop :=
  Forall (tg_ok t (need_init a)) (a_tgs a) /\
  NoDup (map tkey (a_tgs a)) /\
  (a_valid a = true -> Forall (stable t (need_init a)) (a_tgs a)) /\
  (a_conv a = true -> a_tgs a = []).

Lemma NoDup_filter_map_key {A B K} (k : A -> K) (k' : B -> K) (f : A -> option B) l :
  (forall x y, In x l -> f x = Some y -> k' y = k x) -> NoDup (map k l) -> NoDup (map k' (filter_map f l)).
Proof.
  induction l as [|x l IH]; intros H N; [constructor|].
  cbn [map] in N. inversion N as [|? ? N1 N2]; subst. cbn [filter_map].
  assert (IH' : NoDup (map k' (filter_map f l))) by (apply IH; [intros; apply H; [now right|assumption]|assumption]).
  destruct (f x) as [y|] eqn:E; [|assumption].
  cbn [map]. constructor; [|assumption].
  intros Hin. apply in_map_iff in Hin. destruct Hin as [y' [E' Hy']].
  apply in_filter_map in Hy'. destruct Hy' as [x' [Hx' Fx']].
  apply N1. rewrite <- (H x y (or_introl eq_refl) E), <- E', (H x' y' (or_intror Hx') Fx'). now apply in_map.
Qed.

Lemma refresh_attr_ok t a :
  attr_ok t a -> attr_ok t (refresh_attr t a) /\ Forall (stable t (need_init a)) (a_tgs (refresh_attr t a)).
Proof.
  intros [T [N [_ C]]].
  assert (S : Forall (stable t (need_init a)) (filter_map (refresh_tg t (need_init a)) (a_tgs a))).
  { apply Forall_forall. intros g Hg. apply in_filter_map in Hg. destruct Hg as [g0 [H0 Hr]].
    rewrite Forall_forall in T. apply (refresh_tg_out _ _ _ _ (T _ H0)) in Hr. tauto. }
  split; [|exact S].
  unfold attr_ok, refresh_attr, need_init in *. cbn [a_tgs a_flags a_valid a_conv]. repeat split.
  - apply Forall_forall. intros g Hg. apply in_filter_map in Hg. destruct Hg as [g0 [H0 Hr]].
    rewrite Forall_forall in T. apply (refresh_tg_out _ _ _ _ (T _ H0)) in Hr. tauto.
  - apply (NoDup_filter_map_key tkey tkey) with (2 := N). intros x y Hx Hr.
    rewrite Forall_forall in T. apply (refresh_tg_out _ _ _ _ (T _ Hx)) in Hr.
    unfold tkey. destruct Hr as [_ [_ [-> [-> _]]]]. reflexivity.
  - intros _. exact S.
  - intros Hc. rewrite (C Hc). reflexivity.
Qed.

Lemma cur_ok t a :
  attr_ok t a ->
  attr_ok t (cur t a) /\ Forall (stable t (need_init a)) (a_tgs (cur t a)) /\ a_valid (cur t a) = true
  /\ a_name (cur t a) = a_name a /\ a_flags (cur t a) = a_flags a /\ a_conv (cur t a) = a_conv a.
Proof.
  intros H. unfold cur. destruct (a_valid a) eqn:V.
  - split; [exact H|]. split; [destruct H as [_ [_ [S _]]]; auto|]. repeat split; try reflexivity. exact V.
  - destruct (refresh_attr_ok t a H) as [H1 H2]. split; [exact H1|]. split; [exact H2|]. repeat split; reflexivity.
Qed.

Lemma cur_cur t a : cur t (cur t a) = cur t a.
Proof. unfold cur at 1. destruct (a_valid (cur t a)) eqn:V; [reflexivity|]. unfold cur in V. destruct (a_valid a) eqn:W; [congruence|discriminate]. Qed.

(* refreshing a refreshed attribute changes nothing but the ok bits *)
Lemma refresh_stable_list t need l :
  Forall (tg_ok t need) l -> Forall (stable t need) l -> filter_map (refresh_tg t need) l = map ok_tg l.
Proof.
  intros T S. apply filter_map_all. intros g Hg. rewrite Forall_forall in T, S. apply refresh_tg_stable; auto.
Qed.

(* tg_match is a test of the key (type, gp_index) on well-formed data *)
Lemma tg_match_key t need g o :
  wf_topo t -> In o (t_objs t) -> tg_ok t need g -> stable t need g ->
  tg_match (o_type o) (o_gp o) (o_os o) g = key_eqb (o_type o) (o_gp o) g.
Proof.
  intros W Ho [G [O _]] [[o' Ho'] _]. unfold tg_match, key_eqb.
  rewrite (N.eqb_sym (o_type o) (g_type g)), (N.eqb_sym (o_gp o) (g_gp g)).
  destruct (N.eqb_spec (g_type g) (o_type o)) as [Et|Et]; [|reflexivity]. cbn [andb].
  assert (Hn : o_gp o =? MEMATTR_GP_NONE = false) by (apply N.eqb_neq; now apply W).
  rewrite Hn. cbn [negb andb].
  destruct (N.eqb_spec (g_gp g) (o_gp o)) as [Eg|Eg]; [reflexivity|]. cbn [orb].
  destruct (N.eqb_spec (o_os o) MEMATTR_OS_NONE) as [En|En]; [reflexivity|]. cbn [negb andb].
  destruct (N.eqb_spec (o_os o) (g_os g)) as [Eo|Eo]; [|reflexivity].
  exfalso. apply obj_by_type_gp_some in Ho'. destruct Ho' as [I' [T' G']].
  destruct O as [O|O]; [congruence|].
  specialize (O o' I' T' G').
  assert (o' = o) by (apply (wf_os_unique t W); congruence).
  subst o'. congruence.
Qed.

Definition conv_layout (l : list imattr) : Prop :=
  forall id a, nth_errN l id = Some a -> a_conv a = (id <? 2).

Record Inv (s : mstate) : Prop := {
  inv_wf : wf_topo (m_topo s);
  inv_conv : conv_layout (m_attrs s);
  inv_len : 2 <= lenN (m_attrs s);
  inv_attrs : Forall (attr_ok (m_topo s)) (m_attrs s)
}.

Lemma Inv_put s id a a' :
  Inv s -> get_attr s id = Some a -> attr_ok (m_topo s) a' -> a_conv a' = a_conv a -> Inv (put_attr s id a').
Proof.
  intros [W C L A] G K E. unfold get_attr in G. constructor; cbn [put_attr m_topo m_attrs].
  - assumption.
  - intros j b Hb. destruct (N.eq_dec id j) as [<-|Hj].
    + rewrite (nth_set_same _ _ _ _ G) in Hb. injection Hb as <-. rewrite E. now apply C.
    + rewrite nth_set_other in Hb by assumption. now apply C.
  - unfold lenN in *. now rewrite set_nthN_length.
  - apply Forall_forall. intros b Hb. apply In_set_nthN in Hb. destruct Hb as [->|Hb]; [assumption|].
    rewrite Forall_forall in A. auto.
Qed.

Lemma Inv_get s id a : Inv s -> get_attr s id = Some a -> attr_ok (m_topo s) a.
Proof. intros [_ _ _ A] G. apply nth_errN_In in G. rewrite Forall_forall in A. auto. Qed.

(* the refreshed content of an attribute: what every query looks at *)
Definition tgs_of (s : mstate) (id : N) : list imtg :=
  match get_attr s id with Some a => a_tgs (cur (m_topo s) a) | None => [] end.

Lemma tgs_of_put_cur s id a id' : get_attr s id = Some a -> tgs_of (put_attr s id (cur (m_topo s) a)) id' = tgs_of s id'.
Proof.
  intros G. unfold tgs_of, get_attr in *. cbn [put_attr m_attrs m_topo].
  destruct (N.eq_dec id id') as [<-|H].
  - rewrite (nth_set_same _ _ _ _ G), G. now rewrite cur_cur.
  - now rewrite nth_set_other.
Qed.

(* ================================================================== *)
(* F. queries leave the refreshed content unchanged                    *)

Lemma Inv_put_cur s id a : Inv s -> get_attr s id = Some a -> Inv (put_attr s id (cur (m_topo s) a)).
Proof.
  intros I G. pose proof (cur_ok _ _ (Inv_get s id a I G)) as K.
  apply (Inv_put s id a); tauto.
Qed.

Definition is_query (o : op) : bool :=
  match o with
  | OGetByName _ | OGetName _ | OGetFlags _ | OGet _ _ _ _ | OTargets _ _ _ _ _ | OInits _ _ _ _ _
  | OBestT _ _ _ | OBestI _ _ _ | OLocal _ _ _ _ | ODefNodes _ | ORegisterNull _ | OAllow _ _ _ _ => true
  | _ => false
  end.

Ltac break_match :=
  repeat match goal with
         | |- context [match ?x with _ => _ end] => destruct x eqn:?
         end.

Lemma fst_let {A B C} (x : A * B) (f : B -> C) : fst (let (a, b) := x in (a, f b)) = fst x.
Proof. now destruct x. Qed.
Lemma snd_let {A B C} (x : A * B) (f : B -> C) : snd (let (a, b) := x in (a, f b)) = f (snd x).
Proof. now destruct x. Qed.

Lemma query_state_aux s o s' :
  is_query o = true -> fst (step s o) = s' ->
  s' = s \/ exists id a, get_attr s id = Some a /\ s' = put_attr s id (cur (m_topo s) a).
Proof.
  destruct o; cbn [is_query]; try discriminate; intros _; cbn [step].
  - intros <-. now left.
  - intros <-. now left.
  - intros <-. now left.
  - rewrite fst_let. unfold get_value. break_match; cbn [fst]; intros <-; try (left; reflexivity); right; do 2 eexists; (split; [eassumption|reflexivity]).
  - rewrite fst_let. unfold get_targets. break_match; cbn [fst]; intros <-; try (left; reflexivity); right; do 2 eexists; (split; [eassumption|reflexivity]).
  - rewrite fst_let. unfold get_initiators. break_match; cbn [fst]; intros <-; try (left; reflexivity); right; do 2 eexists; (split; [eassumption|reflexivity]).
  - rewrite fst_let. unfold get_best_target. break_match; cbn [fst]; intros <-; try (left; reflexivity); right; do 2 eexists; (split; [eassumption|reflexivity]).
  - rewrite fst_let. unfold get_best_initiator. break_match; cbn [fst]; intros <-; try (left; reflexivity); right; do 2 eexists; (split; [eassumption|reflexivity]).
  - intros <-. now left.
  - intros <-. now left.
  - intros <-. now left.
  - intros <-. now left.
Qed.

Lemma query_state s o :
  is_query o = true ->
  fst (step s o) = s \/ exists id a, get_attr s id = Some a /\ fst (step s o) = put_attr s id (cur (m_topo s) a).
Proof. intros Q. now apply (query_state_aux s o). Qed.

Lemma query_preserves s o :
  Inv s -> is_query o = true ->
  Inv (fst (step s o)) /\ m_topo (fst (step s o)) = m_topo s /\ forall id, tgs_of (fst (step s o)) id = tgs_of s id.
Proof.
  intros I Q. destruct (query_state s o Q) as [->|[id [a [G ->]]]]; [auto|].
  split; [now apply Inv_put_cur|]. split; [reflexivity|]. intros id'. now apply tgs_of_put_cur.
Qed.

(* hwloc_memattr_get_value on a stored (non-convenience) attribute, as a function of the content *)
Definition get_in (need : bool) (tgs : list imtg) (o : obj) (init : option location) : res N :=
  match find_target tgs (o_type o) (o_gp o) (o_os o) with
  | None => Err EINVAL
  | Some g => if need then match find_init_loc g init with None => Err EINVAL | Some i => Ok (i_val i) end
              else Ok (g_val g)
  end.

Lemma get_value_snd s id a o init :
  get_attr s id = Some a -> a_conv a = false ->
  snd (get_value s id (Some o) init 0) = get_in (need_init a) (tgs_of s id) o init.
Proof.
  intros G C. unfold get_value, get_in, tgs_of. rewrite G, C. cbn [N.eqb negb].
  destruct (find_target _ _ _ _); [|reflexivity].
  destruct (need_init a); [|reflexivity]. destruct (find_init_loc _ _); reflexivity.
Qed.

(* ok bits are invisible to get_value *)
Lemma tg_match_ok ty gp os g : tg_match ty gp os (ok_tg g) = tg_match ty gp os g.
Proof. reflexivity. Qed.

Lemma find_init_ok is q : find_init (map ok_imi is) q = option_map ok_imi (find_init is q).
Proof. unfold find_init. now rewrite find_map. Qed.

Lemma get_in_ok need l o init : get_in need (map ok_tg l) o init = get_in need l o init.
Proof.
  unfold get_in, find_target. rewrite find_map.
  replace (fun x => tg_match (o_type o) (o_gp o) (o_os o) (ok_tg x)) with (tg_match (o_type o) (o_gp o) (o_os o)) by reflexivity.
  destruct (find _ l) as [g|]; [|reflexivity]. cbn [option_map].
  destruct need; [|reflexivity].
  unfold find_init_loc. destruct init as [l0|]; [|reflexivity].
  destruct (to_internal l0) as [q|]; [|reflexivity].
  cbn [ok_tg g_inits]. rewrite find_init_ok. destruct (find_init (g_inits g) q); reflexivity.
Qed.

(* ================================================================== *)
(* G. set_value                                                        *)

Definition set_f (need : bool) (il : option iloc) (v : N) (g : imtg) : imtg :=
  match il with
  | Some q => if need then Imtg (g_type g) (g_gp g) (g_os g) (upsert_init true q v (g_inits g)) (g_val g)
              else Imtg (g_type g) (g_gp g) (g_os g) (g_inits g) v
  | None => Imtg (g_type g) (g_gp g) (g_os g) (g_inits g) v
  end.

Lemma set_f_fields need il v g :
  g_type (set_f need il v g) = g_type g /\ g_gp (set_f need il v g) = g_gp g /\ g_os (set_f need il v g) = g_os g.
Proof. unfold set_f. destruct il, need; auto. Qed.

Definition inval (r : list imtg * bool) (l : list imtg) : bool :=
  snd r || negb (Nat.eqb (count_inits (fst r)) (count_inits l)).

Lemma set_core_unfold s id ty gp os il v a :
  get_attr s id = Some a -> (need_init a && match il with None => true | Some _ => false end) = false ->
  a_conv a = false ->
  set_core true true s id ty gp os il v =
  let a1 := cur (m_topo s) a in
  let r := upsert_tg ty gp os (set_f (need_init a) il v) (a_tgs a1) in
  (put_attr s id (Imattr (a_name a1) (a_flags a1) (a_conv a1) (if inval r (a_tgs a1) then false else a_valid a1) (fst r)), Ok tt).
Proof.
  intros G N C. unfold set_core, inval. rewrite G, N, C. cbn [andb]. cbn zeta.
  replace (if negb (a_valid a) then refresh_attr (m_topo s) a else a) with (cur (m_topo s) a)
    by (unfold cur; now destruct (a_valid a)).
  unfold set_f. destruct (upsert_tg _ _ _ _ _) as [tgs created] eqn:E.
  cbn [fst snd]. reflexivity.
Qed.

Lemma upsert_tg_Forall (P : imtg -> Prop) ty gp os f l :
  Forall P l -> (forall g, P g -> P (f g)) -> P (f (Imtg ty gp os [] 0)) -> Forall P (fst (upsert_tg ty gp os f l)).
Proof.
  intros H Hf Hn. induction H as [|g l Hg Hl IH]; cbn [upsert_tg fst].
  - constructor; [assumption|constructor].
  - destruct (tg_match ty gp os g).
    + cbn [fst]. constructor; auto.
    + destruct (upsert_tg ty gp os f l) as [r c]. cbn [fst] in *. constructor; assumption.
Qed.

Lemma upsert_tg_keys ty gp os f l :
  (forall g, tkey (f g) = tkey g) ->
  map tkey (fst (upsert_tg ty gp os f l)) = map tkey l ++ (if snd (upsert_tg ty gp os f l) then [(ty, gp)] else [])
  /\ (snd (upsert_tg ty gp os f l) = true -> forall x, In x l -> tg_match ty gp os x = false).
Proof.
  intros Hf. induction l as [|g l IH]; cbn [upsert_tg fst snd map app].
  - split; [now rewrite Hf|]. intros _ x [].
  - destruct (tg_match ty gp os g) eqn:E.
    + cbn [fst snd map]. rewrite Hf, app_nil_r. split; [reflexivity|discriminate].
    + destruct (upsert_tg ty gp os f l) as [r c]. cbn [fst snd map] in *. destruct IH as [IH1 IH2].
      split; [now rewrite IH1|]. intros Hc x [<-|Hx]; auto.
Qed.

Lemma tkey_match ty gp os x : gp <> MEMATTR_GP_NONE -> tkey x = (ty, gp) -> tg_match ty gp os x = true.
Proof.
  unfold tkey, tg_match. intros H E. injection E as <- <-. rewrite !N.eqb_refl.
  apply N.eqb_neq in H. rewrite H. reflexivity.
Qed.

(* generic facts about upsert and find, for two match predicates *)
Lemma upsert_find_same ty gp os f l :
  (forall g, tg_match ty gp os (f g) = tg_match ty gp os g) ->
  tg_match ty gp os (f (Imtg ty gp os [] 0)) = true ->
  find (tg_match ty gp os) (fst (upsert_tg ty gp os f l)) =
  Some (f (match find (tg_match ty gp os) l with Some g => g | None => Imtg ty gp os [] 0 end)).
Proof.
  intros Hf Hn. induction l as [|g l IH]; cbn [upsert_tg fst find].
  - now rewrite Hn.
  - destruct (tg_match ty gp os g) eqn:E.
    + cbn [fst find]. now rewrite Hf, E.
    + destruct (upsert_tg ty gp os f l) as [r c]. cbn [fst find] in *. now rewrite E.
Qed.

Lemma upsert_find_other (p' : imtg -> bool) ty gp os f l :
  (forall g, p' (f g) = p' g) ->
  (forall g, In g l -> tg_match ty gp os g = true -> p' g = false) ->
  p' (f (Imtg ty gp os [] 0)) = false ->
  find p' (fst (upsert_tg ty gp os f l)) = find p' l.
Proof.
  intros Hf Hx Hn. induction l as [|g l IH]; cbn [upsert_tg fst find].
  - now rewrite Hn.
  - destruct (tg_match ty gp os g) eqn:E.
    + cbn [fst find]. rewrite Hf. rewrite (Hx g (or_introl eq_refl) E). reflexivity.
    + destruct (upsert_tg ty gp os f l) as [r c]. cbn [fst find] in *.
      destruct (p' g); [reflexivity|]. apply IH. intros g' Hg'. apply Hx. now right.
Qed.

Lemma upsert_init_nonempty nok q v is : upsert_init nok q v is <> [].
Proof. destruct is as [|i r]; cbn [upsert_init]; [discriminate|]. destruct (match_iloc q (i_loc i)); discriminate. Qed.

Lemma upsert_init_Forall t nok q v is :
  loc_stable t q -> Forall (istable t) is -> Forall (istable t) (upsert_init nok q v is).
Proof.
  intros Hq H. induction H as [|i r Hi Hr IH]; cbn [upsert_init].
  - constructor; [exact Hq|constructor].
  - destruct (match_iloc q (i_loc i)); constructor; auto.
Qed.

Definition il_stable (t : topo) (il : option iloc) : Prop :=
  match il with Some q => loc_stable t q | None => True end.

Lemma set_f_ok t need il v g :
  (need && match il with None => true | Some _ => false end) = false ->
  il_stable t il ->
  (tg_ok t need g -> tg_ok t need (set_f need il v g)) /\
  ((exists o, obj_by_type_gp t (g_type g) (g_gp g) = Some o) -> Forall (istable t) (g_inits g) ->
   (need = false -> g_inits g = []) -> stable t need (set_f need il v g)).
Proof.
  intros N S. split.
  - intros [G [O Sh]]. pose proof (set_f_fields need il v g) as [F1 [F2 F3]].
    split; [now rewrite F2|]. split; [eapply os_ok_same; eauto|].
    intros ->. unfold set_f. destruct il; cbn [g_inits]; auto.
  - intros E Hi Sh. unfold stable. pose proof (set_f_fields need il v g) as [F1 [F2 F3]].
    rewrite F1, F2. split; [assumption|].
    unfold set_f. destruct il as [q|]; destruct need; cbn [g_inits]; try discriminate.
    + split; [now apply upsert_init_Forall|]. intros _. apply upsert_init_nonempty.
    + split; [assumption|discriminate].
    + split; [assumption|discriminate].
Qed.

Lemma os_ok_new t o : wf_topo t -> In o (t_objs t) -> os_ok t (Imtg (o_type o) (o_gp o) (o_os o) [] 0).
Proof.
  intros W Ho. right. cbn [g_type g_gp g_os]. intros o' Ho' _ Eg.
  assert (o' = o) by (apply (NoDup_map_inj o_gp (t_objs t)); auto; apply W). now subst.
Qed.

Definition set_args_ok (s : mstate) (id : N) (o : obj) (il : option iloc) : Prop :=
  In o (t_objs (m_topo s)) /\ il_stable (m_topo s) il /\
  exists a, get_attr s id = Some a /\ a_conv a = false /\
            (need_init a && match il with None => true | Some _ => false end) = false.

Lemma set_core_props s id o il v :
  Inv s -> set_args_ok s id o il ->
  let s' := fst (set_core true true s id (o_type o) (o_gp o) (o_os o) il v) in
  snd (set_core true true s id (o_type o) (o_gp o) (o_os o) il v) = Ok tt /\
  Inv s' /\ m_topo s' = m_topo s /\
  (forall id', id' <> id -> get_attr s' id' = get_attr s id') /\
  (forall a, get_attr s id = Some a -> exists a2, get_attr s' id = Some a2 /\ a_name a2 = a_name a /\
     a_flags a2 = a_flags a /\ a_conv a2 = a_conv a) /\
  (forall a, get_attr s id = Some a ->
     map ok_tg (tgs_of s' id) =
     map ok_tg (fst (upsert_tg (o_type o) (o_gp o) (o_os o) (set_f (need_init a) il v) (tgs_of s id)))).
Proof.
  intros I [Ho [Sil [a [G [C N]]]]]. cbn zeta.
  rewrite (set_core_unfold s id _ _ _ il v a G N C). cbn zeta. cbn [fst snd].
  pose proof (cur_ok _ _ (Inv_get s id a I G)) as [K1 [K2 [K3 [K4 [K5 K6]]]]].
  set (a1 := cur (m_topo s) a) in *.
  set (f := set_f (need_init a) il v).
  set (r := upsert_tg (o_type o) (o_gp o) (o_os o) f (a_tgs a1)).
  assert (Nd : need_init a1 = need_init a) by (unfold need_init; now rewrite K5).
  pose proof (inv_wf s I) as W.
  destruct K1 as [T1 [T2 [T3 T4]]]. rewrite Nd in T1.
  assert (Fnew_ok : tg_ok (m_topo s) (need_init a) (f (Imtg (o_type o) (o_gp o) (o_os o) [] 0))).
  { apply (set_f_ok (m_topo s) _ il v _ N Sil). split; [cbn [g_gp]; now apply W|]. split; [now apply os_ok_new|reflexivity]. }
  assert (Fnew_st : stable (m_topo s) (need_init a) (f (Imtg (o_type o) (o_gp o) (o_os o) [] 0))).
  { apply (set_f_ok (m_topo s) _ il v _ N Sil); cbn [g_type g_gp g_inits]; [|constructor|reflexivity].
    exists o. now apply obj_by_type_gp_in. }
  assert (TG : Forall (tg_ok (m_topo s) (need_init a)) (fst r)).
  { apply upsert_tg_Forall; [assumption| |assumption]. intros g Hg. now apply (set_f_ok (m_topo s) _ il v g N Sil). }
  assert (BOTH : Forall (fun g => tg_ok (m_topo s) (need_init a) g /\ stable (m_topo s) (need_init a) g) (fst r)).
  { apply upsert_tg_Forall.
    - apply Forall_forall. intros g Hg. rewrite Forall_forall in T1, K2. split; auto.
    - intros g [Hg1 [Hg2 [Hg3 Hg4]]]. split; [now apply (set_f_ok (m_topo s) _ il v g N Sil)|].
      apply (set_f_ok (m_topo s) _ il v g N Sil); try assumption. apply Hg1.
    - split; assumption. }
  assert (ST : Forall (stable (m_topo s) (need_init a)) (fst r)).
  { apply Forall_forall. intros g Hg. rewrite Forall_forall in BOTH. now apply BOTH. }
  assert (KEY : forall g, tkey (f g) = tkey g).
  { intros g. unfold tkey, f. destruct (set_f_fields (need_init a) il v g) as [-> [-> _]]. reflexivity. }
  destruct (upsert_tg_keys (o_type o) (o_gp o) (o_os o) f (a_tgs a1) KEY) as [U1 U2]. fold r in U1, U2.
  assert (ND : NoDup (map tkey (fst r))).
  { rewrite U1. destruct (snd r) eqn:Er; [|now rewrite app_nil_r].
    apply NoDup_app_end. split; [assumption|].
    intros Hin. apply in_map_iff in Hin. destruct Hin as [x [Ex Hx]].
    specialize (U2 eq_refl x Hx).
    rewrite (tkey_match (o_type o) (o_gp o) (o_os o) x) in U2; [discriminate|now apply W|assumption]. }
  set (a2 := Imattr (a_name a1) (a_flags a1) (a_conv a1) (if inval r (a_tgs a1) then false else a_valid a1) (fst r)).
  assert (Nd2 : need_init a2 = need_init a) by (unfold need_init, a2; cbn [a_flags]; now rewrite K5).
  assert (A2 : attr_ok (m_topo s) a2).
  { unfold attr_ok. rewrite Nd2. unfold a2. cbn [a_tgs a_valid a_conv].
    split; [exact TG|]. split; [exact ND|]. split; [intros _; exact ST|].
    rewrite K6, C. discriminate. }
  split; [reflexivity|]. split; [apply (Inv_put s id a); auto; cbn [a_conv a2]; exact K6|].
  split; [reflexivity|]. split; [|split].
  - intros id' Hid. unfold get_attr. cbn [put_attr m_attrs]. apply nth_set_other. congruence.
  - intros a' G'. rewrite G in G'. injection G' as <-. exists a2. split; [|unfold a2; cbn [a_name a_flags a_conv]; auto].
    unfold get_attr in *. cbn [put_attr m_attrs]. apply (nth_set_same _ _ _ _ G).
  - intros a' G'. rewrite G in G'. injection G' as <-.
    unfold tgs_of at 1. unfold get_attr in *. cbn [put_attr m_attrs m_topo].
    rewrite (nth_set_same _ _ _ _ G).
    unfold tgs_of, get_attr. rewrite G. fold a1. fold f. fold r.
    unfold cur. cbn [a_valid a2]. destruct (inval r (a_tgs a1)) eqn:Er.
    + unfold refresh_attr. cbn [a_tgs]. rewrite Nd2. cbn [a2 a_tgs].
      rewrite (refresh_stable_list _ _ _ TG ST). rewrite map_map.
      apply map_ext. intros g. unfold ok_tg. cbn [g_type g_gp g_os g_val g_inits]. rewrite map_map. reflexivity.
    + rewrite K3. reflexivity.
Qed.

(* ================================================================== *)
(* H. what get_value returns after set_value                           *)

Lemma match_iloc_refl q : match_iloc q q = true.
Proof. destruct q; cbn [match_iloc]; [apply bs_subset_refl|now rewrite !N.eqb_refl]. Qed.

Lemma upsert_init_find_same nok q v is : exists i, find_init (upsert_init nok q v is) q = Some i /\ i_val i = v.
Proof.
  unfold find_init. induction is as [|i r IH]; cbn [upsert_init find].
  - cbn [i_loc]. rewrite match_iloc_refl. eexists. split; reflexivity.
  - destruct (match_iloc q (i_loc i)) eqn:E; cbn [find i_loc].
    + rewrite E. eexists. split; reflexivity.
    + rewrite E. exact IH.
Qed.

Lemma get_value_snd_ext s s' id tgt init flags :
  m_topo s' = m_topo s -> get_attr s' id = get_attr s id ->
  snd (get_value s' id tgt init flags) = snd (get_value s id tgt init flags).
Proof.
  intros T G. unfold get_value. rewrite T, G. break_match; reflexivity.
Qed.

Lemma stored_target_lemmas s id a :
  Inv s -> get_attr s id = Some a ->
  Forall (tg_ok (m_topo s) (need_init a)) (tgs_of s id) /\ Forall (stable (m_topo s) (need_init a)) (tgs_of s id)
  /\ NoDup (map tkey (tgs_of s id)).
Proof.
  intros I G. pose proof (cur_ok _ _ (Inv_get s id a I G)) as [[K1 [K1' _]] [K2 [_ [_ [K5 _]]]]].
  unfold tgs_of. rewrite G. replace (need_init (cur (m_topo s) a)) with (need_init a) in K1
    by (unfold need_init; now rewrite K5). auto.
Qed.

Definition public_il (l : option location) : option (option iloc) :=
  match l with None => Some None | Some l => match to_internal l with Some q => Some (Some q) | None => None end end.

Lemma set_value_core s id o init v il :
  public_il init = Some il ->
  set_value s id (Some o) init 0 v = set_core true true s id (o_type o) (o_gp o) (o_os o) il v.
Proof.
  unfold public_il, set_value. cbn [N.eqb negb]. destruct init as [l|].
  - destruct (to_internal l); intros H; [injection H as <-; reflexivity|discriminate].
  - intros H. injection H as <-. reflexivity.
Qed.

(* the value just stored is what the same query returns *)
Lemma set_then_get s id o init il v :
  Inv s -> public_il init = Some il -> set_args_ok s id o il ->
  let s' := fst (set_value s id (Some o) init 0 v) in
  snd (set_value s id (Some o) init 0 v) = Ok tt /\ Inv s' /\
  snd (get_value s' id (Some o) init 0) = Ok v.
Proof.
  intros I P A. cbn zeta. rewrite (set_value_core s id o init v il P).
  pose proof (set_core_props s id o il v I A) as [R [I' [T' [_ [HA HT]]]]].
  destruct A as [Ho [Sil [a [G [C N]]]]].
  destruct (HA a G) as [a2 [G2 [_ [F2 C2]]]]. specialize (HT a G).
  split; [assumption|]. split; [assumption|].
  rewrite (get_value_snd _ id a2 o init G2) by congruence.
  replace (need_init a2) with (need_init a) by (unfold need_init; now rewrite F2).
  rewrite <- get_in_ok, HT, get_in_ok.
  unfold get_in, find_target. rewrite upsert_find_same.
  - set (g0 := match find _ _ with Some g => g | None => _ end).
    unfold set_f. destruct (need_init a) eqn:Nd.
    + destruct il as [q|]; [|discriminate N].
      unfold find_init_loc. destruct init as [l|]; [|discriminate P].
      unfold public_il in P. destruct (to_internal l) as [q'|]; [|discriminate P]. injection P as ->.
      cbn [g_inits].
      destruct (upsert_init_find_same true q v (g_inits g0)) as [i [-> <-]]. reflexivity.
    + destruct il; reflexivity.
  - intros g. unfold tg_match. destruct (set_f_fields (need_init a) il v g) as [-> [-> ->]]. reflexivity.
  - unfold tg_match. destruct (set_f_fields (need_init a) il v (Imtg (o_type o) (o_gp o) (o_os o) [] 0)) as [-> [-> ->]].
    cbn [g_type g_gp g_os]. rewrite !N.eqb_refl.
    assert (Hn : o_gp o =? MEMATTR_GP_NONE = false) by (apply N.eqb_neq; apply (inv_wf s I); assumption).
    rewrite Hn. reflexivity.
Qed.

(* frame: other attributes, and other targets of the same attribute, are untouched *)
Lemma set_frame_attr s id o init il v id' tgt' init' flags' :
  Inv s -> public_il init = Some il -> set_args_ok s id o il -> id' <> id ->
  let s' := fst (set_value s id (Some o) init 0 v) in
  snd (get_value s' id' tgt' init' flags') = snd (get_value s id' tgt' init' flags').
Proof.
  intros I P A Hid. cbn zeta. rewrite (set_value_core s id o init v il P).
  pose proof (set_core_props s id o il v I A) as [_ [_ [T' [Hother _]]]].
  apply get_value_snd_ext; auto.
Qed.

Lemma set_frame_target s id o init il v o' init' :
  Inv s -> public_il init = Some il -> set_args_ok s id o il ->
  In o' (t_objs (m_topo s)) -> o' <> o ->
  let s' := fst (set_value s id (Some o) init 0 v) in
  snd (get_value s' id (Some o') init' 0) = snd (get_value s id (Some o') init' 0).
Proof.
  intros I P A Ho' Hne. cbn zeta. rewrite (set_value_core s id o init v il P).
  pose proof (set_core_props s id o il v I A) as [_ [_ [_ [_ [HA HT]]]]].
  destruct A as [Ho [Sil [a [G [C N]]]]].
  destruct (HA a G) as [a2 [G2 [_ [F2 C2]]]]. specialize (HT a G).
  rewrite (get_value_snd _ id a2 o' init' G2) by congruence.
  rewrite (get_value_snd _ id a o' init' G C).
  replace (need_init a2) with (need_init a) by (unfold need_init; now rewrite F2).
  rewrite <- get_in_ok, HT, get_in_ok.
  destruct (stored_target_lemmas s id a I G) as [TG [ST _]].
  pose proof (inv_wf s I) as W.
  unfold get_in, find_target. rewrite upsert_find_other; [reflexivity| | |].
  - intros g. unfold tg_match. destruct (set_f_fields (need_init a) il v g) as [-> [-> ->]]. reflexivity.
  - intros g Hg M. rewrite Forall_forall in TG, ST.
    rewrite (tg_match_key _ _ g o W Ho (TG g Hg) (ST g Hg)) in M.
    rewrite (tg_match_key _ _ g o' W Ho' (TG g Hg) (ST g Hg)).
    unfold key_eqb in *. apply andb_true_iff in M. destruct M as [M1 M2]. apply N.eqb_eq in M1, M2.
    destruct (N.eqb_spec (g_type g) (o_type o')) as [E1|]; [|reflexivity].
    destruct (N.eqb_spec (g_gp g) (o_gp o')) as [E2|]; [|reflexivity].
    exfalso. apply Hne. apply (NoDup_map_inj o_gp (t_objs (m_topo s))); [apply W|assumption|assumption|congruence].
  - unfold tg_match. destruct (set_f_fields (need_init a) il v (Imtg (o_type o) (o_gp o) (o_os o) [] 0)) as [-> [-> ->]].
    cbn [g_type g_gp g_os].
    destruct (N.eqb_spec (o_type o') (o_type o)) as [E1|]; [|reflexivity]. cbn [andb].
    assert (Hg : o_gp o' <> o_gp o).
    { intros E. apply Hne. apply (NoDup_map_inj o_gp (t_objs (m_topo s))); [apply W|assumption|assumption|congruence]. }
    apply N.eqb_neq in Hg. rewrite Hg, andb_false_r. cbn [orb].
    destruct (N.eqb_spec (o_os o') MEMATTR_OS_NONE) as [E3|E3]; [reflexivity|]. cbn [negb andb].
    apply N.eqb_neq. intros E. apply Hne. apply (wf_os_unique _ W); assumption.
Qed.

(* cpuset initiators: pairwise disjoint stored sets *)
Definition loc_disjoint (a b : iloc) : Prop :=
  match a, b with ICpu x, ICpu y => bs_disjoint x y | _, _ => True end.
Definition pd (is : list imi) : Prop := ForallOrdPairs (fun i j => loc_disjoint (i_loc i) (i_loc j)) is.
(* the set's initiator is included in a stored one, or disjoint from all of them *)
Definition compat (is : list imi) (q : iloc) : Prop :=
  find_init is q <> None \/ Forall (fun i => loc_disjoint (i_loc i) q) is.

Lemma subset_not_disjoint c' x y :
  bs_is_empty c' = false -> bs_subset c' x = true -> bs_subset c' y = true -> bs_disjoint x y -> False.
Proof.
  intros E X Y D. apply bs_nonempty_mem in E. destruct E as [i Hi].
  rewrite bs_subset_spec in X, Y. exact (D i (X i Hi) (Y i Hi)).
Qed.

Lemma upsert_init_included nok c c' v is :
  pd is -> compat is (ICpu c) -> bs_is_empty c' = false -> bs_subset c' c = true ->
  exists i, find_init (upsert_init nok (ICpu c) v is) (ICpu c') = Some i /\ i_val i = v.
Proof.
  intros P C E S. unfold find_init. induction is as [|i r IH]; cbn [upsert_init find].
  - cbn [i_loc match_iloc]. rewrite S. eexists. split; reflexivity.
  - inversion P as [|? ? P1 P2]; subst.
    destruct (match_iloc (ICpu c) (i_loc i)) eqn:M; cbn [find i_loc].
    + destruct (i_loc i) as [x|]; [|discriminate]. cbn [match_iloc] in *.
      rewrite (bs_subset_trans _ _ _ S M). eexists. split; reflexivity.
    + destruct (match_iloc (ICpu c') (i_loc i)) eqn:M'.
      * exfalso. destruct (i_loc i) as [x|] eqn:Li; [|discriminate M']. cbn [match_iloc] in M, M'.
        destruct C as [C|C].
        -- unfold find_init in C. cbn [find] in C. rewrite Li in C.
           change (match_iloc (ICpu c) (ICpu x)) with (bs_subset c x) in C. rewrite M in C.
           match type of C with context [find ?p r] => destruct (find p r) as [j|] eqn:F end; [|now contradiction C].
           apply find_some in F. destruct F as [Hj Mj].
           rewrite Forall_forall in P1. specialize (P1 j Hj). cbn beta in P1. try rewrite Li in P1.
           destruct (i_loc j) as [y|]; [|discriminate Mj]. cbn [match_iloc loc_disjoint] in *.
           exact (subset_not_disjoint c' x y E M' (bs_subset_trans _ _ _ S Mj) P1).
        -- inversion C as [|? ? C1 C2]; subst. cbn beta in C1. try rewrite Li in C1. cbn [loc_disjoint] in C1.
           exact (subset_not_disjoint c' x c E M' S C1).
      * apply IH; [assumption|].
        destruct C as [C|C].
        -- left. unfold find_init in *. cbn [find] in C. now rewrite M in C.
        -- right. now inversion C.
Qed.

Lemma set_then_get_included s id o c c' v :
  Inv s -> set_args_ok s id o (Some (ICpu c)) ->
  (forall a, get_attr s id = Some a -> need_init a = true) ->
  (forall g, find_target (tgs_of s id) (o_type o) (o_gp o) (o_os o) = Some g ->
             pd (g_inits g) /\ compat (g_inits g) (ICpu c)) ->
  bs_is_empty c' = false -> bs_subset c' c = true ->
  let s' := fst (set_value s id (Some o) (Some (LCpu (Some c))) 0 v) in
  snd (get_value s' id (Some o) (Some (LCpu (Some c'))) 0) = Ok v.
Proof.
  intros I A Hneed Hpd E S. cbn zeta.
  assert (Ec : bs_is_empty c = false).
  { destruct A as [_ [[_ Ec] _]]. exact Ec. }
  assert (P : public_il (Some (LCpu (Some c))) = Some (Some (ICpu c))).
  { unfold public_il, to_internal. now rewrite Ec. }
  rewrite (set_value_core s id o _ v _ P).
  pose proof (set_core_props s id o _ v I A) as [_ [_ [_ [_ [HA HT]]]]].
  destruct A as [Ho [Sil [a [G [C N]]]]].
  destruct (HA a G) as [a2 [G2 [_ [F2 C2]]]]. specialize (HT a G).
  rewrite (get_value_snd _ id a2 o _ G2) by congruence.
  replace (need_init a2) with (need_init a) by (unfold need_init; now rewrite F2).
  rewrite <- get_in_ok, HT, get_in_ok. rewrite (Hneed a G).
  unfold get_in, find_target. rewrite upsert_find_same.
  - unfold find_target in Hpd. destruct (find _ (tgs_of s id)) as [g|] eqn:F.
    + destruct (Hpd g eq_refl) as [P1 P2]. unfold set_f. cbn [g_inits find_init_loc to_internal]. rewrite E.
      destruct (upsert_init_included true c c' v (g_inits g) P1 P2 E S) as [i [-> <-]]. reflexivity.
    + unfold set_f. cbn [g_inits find_init_loc to_internal upsert_init]. rewrite E.
      unfold find_init. cbn [find i_loc match_iloc]. rewrite S. reflexivity.
  - intros g. unfold tg_match. destruct (set_f_fields true (Some (ICpu c)) v g) as [-> [-> ->]]. reflexivity.
  - unfold tg_match, set_f. cbn [g_type g_gp g_os]. rewrite !N.eqb_refl.
    assert (Hn : o_gp o =? MEMATTR_GP_NONE = false) by (apply N.eqb_neq; apply (inv_wf s I); assumption).
    rewrite Hn. reflexivity.
Qed.

(* ================================================================== *)
(* I. enumerations and best-of queries as functions of the content     *)

Definition entries (need : bool) (tgs : list imtg) (init : option location) (null_all : bool) : list (N * N) :=
  filter_map (fun g =>
    if need then
      match init with
      | None => if null_all then Some (g_gp g, 0) else None
      | Some _ => match find_init_loc g init with Some i => Some (g_gp g, i_val i) | None => None end
      end
    else Some (g_gp g, g_val g)) tgs.

Lemma need_init_cur t a : need_init (cur t a) = need_init a.
Proof. unfold cur. destruct (a_valid a); reflexivity. Qed.

Lemma get_targets_snd s id a init max tnull :
  get_attr s id = Some a -> a_conv a = false -> (max = 0 \/ tnull = false) ->
  snd (get_targets s id init 0 max tnull) =
  Ok (lenN (entries (need_init a) (tgs_of s id) init true), firstnN max (entries (need_init a) (tgs_of s id) init true)).
Proof.
  intros G C M. unfold get_targets, tgs_of. rewrite G, C. cbn [N.eqb negb].
  assert (X : negb (max =? 0) && tnull = false) by (destruct M as [->| ->]; [reflexivity|apply andb_false_r]).
  rewrite X. cbn [snd]. unfold target_entries, entries. rewrite need_init_cur. reflexivity.
Qed.

Lemma entries_in need tgs init gp v :
  In (gp, v) (entries need tgs init true) <->
  exists g, In g tgs /\ g_gp g = gp /\
    ((need = false /\ v = g_val g) \/ (need = true /\ init = None /\ v = 0) \/
     (need = true /\ init <> None /\ exists i, find_init_loc g init = Some i /\ v = i_val i)).
Proof.
  unfold entries. rewrite in_filter_map. split.
  - intros [g [Hg E]]. exists g. split; [assumption|]. destruct need.
    + destruct init as [l|].
      * destruct (find_init_loc g (Some l)) as [i|] eqn:F; [|discriminate]. injection E as <- <-.
        split; [reflexivity|]. right. right. split; [reflexivity|]. split; [discriminate|]. eauto.
      * injection E as <- <-. split; [reflexivity|]. right. left. auto.
    + injection E as <- <-. split; [reflexivity|]. left. auto.
  - intros [g [Hg [<- H]]]. exists g. split; [assumption|].
    destruct H as [[-> ->]|[[-> [-> ->]]|[-> [Hi [j [F ->]]]]]]; try reflexivity.
    destruct init; [|congruence]. now rewrite F.
Qed.

Lemma NoDup_map_coarser {A B C} (f : A -> B) (g : A -> C) l :
  (forall x y, In x l -> In y l -> g x = g y -> f x = f y) -> NoDup (map f l) -> NoDup (map g l).
Proof.
  induction l as [|x l IH]; intros H N; [constructor|].
  cbn [map] in *. inversion N as [|? ? N1 N2]; subst. constructor.
  - intros Hin. apply in_map_iff in Hin. destruct Hin as [y [E Hy]].
    apply N1. rewrite <- (H y x (or_intror Hy) (or_introl eq_refl) E). now apply in_map.
  - apply IH; [|assumption]. intros a b Ha Hb. apply H; now right.
Qed.

Lemma stable_gp_nodup t need l :
  wf_topo t -> Forall (stable t need) l -> NoDup (map tkey l) -> NoDup (map g_gp l).
Proof.
  intros W S. apply NoDup_map_coarser. intros x y Hx Hy E. rewrite Forall_forall in S.
  destruct (S x Hx) as [[ox Ox] _], (S y Hy) as [[oy Oy] _].
  apply obj_by_type_gp_some in Ox, Oy. destruct Ox as [I1 [T1 G1]], Oy as [I2 [T2 G2]].
  assert (ox = oy) by (apply (NoDup_map_inj o_gp (t_objs t)); [apply W|assumption|assumption|congruence]).
  subst oy. unfold tkey. congruence.
Qed.

Lemma entries_nodup s id a init b :
  Inv s -> get_attr s id = Some a -> NoDup (map fst (entries (need_init a) (tgs_of s id) init b)).
Proof.
  intros I G. destruct (stored_target_lemmas s id a I G) as [_ [ST ND]].
  pose proof (stable_gp_nodup _ _ _ (inv_wf s I) ST ND) as N.
  unfold entries. apply (NoDup_filter_map_key g_gp fst) with (2 := N).
  intros g y _ E. destruct (need_init a).
  - destruct init.
    + destruct (find_init_loc g (Some l)); [injection E as <-; reflexivity|discriminate].
    + destruct b; [injection E as <-; reflexivity|discriminate].
  - injection E as <-. reflexivity.
Qed.

Lemma get_initiators_snd s id a o max inull :
  get_attr s id = Some a -> need_init a = true -> (max = 0 \/ inull = false) ->
  snd (get_initiators s id (Some o) 0 max inull) =
  match find_target (tgs_of s id) (o_type o) (o_gp o) (o_os o) with
  | None => Err EINVAL
  | Some g => if forallb i_ok (firstnN max (g_inits g))
              then Ok (lenN (g_inits g), map (fun i => (i_loc i, i_val i)) (firstnN max (g_inits g)))
              else Err EUB
  end.
Proof.
  intros G Nd M. unfold get_initiators, tgs_of. rewrite G, Nd. cbn [N.eqb negb].
  assert (X : negb (max =? 0) && inull = false) by (destruct M as [->| ->]; [reflexivity|apply andb_false_r]).
  rewrite X. destruct (find_target _ _ _ _); [|reflexivity]. destruct (forallb _ _); reflexivity.
Qed.

Lemma get_best_target_snd s id a init :
  get_attr s id = Some a -> a_conv a = false ->
  snd (get_best_target s id init 0) =
  match best_of (higher a) (entries (need_init a) (tgs_of s id) init false) with
  | Some b => Ok b | None => Err ENOENT end.
Proof.
  intros G C. unfold get_best_target, tgs_of. rewrite G, C. cbn [N.eqb negb].
  unfold target_entries, entries. rewrite need_init_cur. destruct (best_of _ _); reflexivity.
Qed.

Lemma get_best_initiator_snd s id a o :
  get_attr s id = Some a -> need_init a = true ->
  snd (get_best_initiator s id (Some o) 0) =
  match find_target (tgs_of s id) (o_type o) (o_gp o) (o_os o) with
  | None => Err EINVAL
  | Some g => match best_of (higher a) (map (fun i => (i, i_val i)) (g_inits g)) with
              | None => Err ENOENT
              | Some (i, v) => if i_ok i then Ok (i_loc i, v) else Err EUB
              end
  end.
Proof.
  intros G Nd. unfold get_best_initiator, tgs_of. rewrite G, Nd. cbn [N.eqb negb].
  destruct (find_target _ _ _ _); [|reflexivity]. destruct (best_of _ _) as [[i1 v1]|]; [|reflexivity].
  destruct (i_ok i1); reflexivity.
Qed.

(* best target: ENOENT iff no candidate, else a candidate with an optimal value *)
Lemma best_target_optimal_lemma s id a init :
  get_attr s id = Some a -> a_conv a = false ->
  let cands := entries (need_init a) (tgs_of s id) init false in
  (snd (get_best_target s id init 0) = Err ENOENT <-> cands = []) /\
  (forall gp v, snd (get_best_target s id init 0) = Ok (gp, v) ->
     In (gp, v) cands /\ forall gp' v', In (gp', v') cands -> better (higher a) v v').
Proof.
  intros G C. cbn zeta. rewrite (get_best_target_snd s id a init G C).
  destruct (best_of (higher a) _) as [[gp0 v0]|] eqn:B.
  - split.
    + split; [discriminate|]. intros E. apply (best_of_none (higher a)) in E. congruence.
    + intros gp v H. injection H as <- <-. now apply best_of_some.
  - split.
    + split; [intros _; now apply (best_of_none (higher a))|reflexivity].
    + intros; discriminate.
Qed.

Lemma best_initiator_optimal_lemma s id a o g :
  get_attr s id = Some a -> need_init a = true ->
  find_target (tgs_of s id) (o_type o) (o_gp o) (o_os o) = Some g ->
  (snd (get_best_initiator s id (Some o) 0) = Err ENOENT <-> g_inits g = []) /\
  (forall l v, snd (get_best_initiator s id (Some o) 0) = Ok (l, v) ->
     (exists i, In i (g_inits g) /\ i_loc i = l /\ i_val i = v) /\
     forall i', In i' (g_inits g) -> better (higher a) v (i_val i')).
Proof.
  intros G Nd F. rewrite (get_best_initiator_snd s id a o G Nd), F.
  destruct (best_of (higher a) _) as [[i0 v0]|] eqn:B.
  - apply best_of_some in B. destruct B as [B1 B2].
    apply in_map_iff in B1. destruct B1 as [i1 [E1 H1]]. injection E1 as -> <-.
    split.
    + split; [destruct (i_ok i0); discriminate|]. intros E. rewrite E in H1. destruct H1.
    + intros l v H. destruct (i_ok i0); [|discriminate]. injection H as <- <-.
      split; [exists i0; auto|]. intros i' Hi'. apply (B2 i' (i_val i')). apply in_map_iff. eauto.
  - apply best_of_none in B. split.
    + split; [intros _|reflexivity]. destruct (g_inits g); [reflexivity|discriminate].
    + intros; discriminate.
Qed.

(* ================================================================== *)
(* J. convenience attributes                                           *)

Lemma conv_attr_get s id a o init :
  get_attr s id = Some a -> a_conv a = true -> get_value s id (Some o) init 0 = (s, conv_value id o).
Proof. intros G C. unfold get_value. rewrite G, C. reflexivity. Qed.

Lemma conv_attr_readonly s id a tgt init flags v :
  get_attr s id = Some a -> a_conv a = true -> set_value s id tgt init flags v = (s, Err EINVAL).
Proof.
  intros G C. unfold set_value. destruct tgt as [o|]; [|reflexivity].
  destruct (negb (flags =? 0)); [reflexivity|].
  assert (X : forall il, set_core true true s id (o_type o) (o_gp o) (o_os o) il v = (s, Err EINVAL)).
  { intros il. unfold set_core. rewrite G, C. destruct (need_init a && _); reflexivity. }
  destruct init as [l|]; [|apply X]. destruct (to_internal l); [apply X|reflexivity].
Qed.

Lemma conv_ids s id : Inv s -> id < 2 -> exists a, get_attr s id = Some a /\ a_conv a = true.
Proof.
  intros I H. unfold get_attr. destruct (nth_errN (m_attrs s) id) as [a|] eqn:E.
  - exists a. split; [reflexivity|]. rewrite (inv_conv s I id a E). now apply N.ltb_lt.
  - exfalso. pose proof (inv_len s I) as L.
    destruct (In_nth_errN (m_attrs s)) with (x := hd (Imattr [] 0 false false []) (m_attrs s)) as [k Hk].
    + destruct (m_attrs s); [cbn in L; lia|now left].
    + clear Hk. assert (X : id < lenN (m_attrs s)) by lia. revert X E. generalize (m_attrs s). clear.
      intros l. revert id. induction l as [|x l IH]; intros id X E; [cbn in X; lia|].
      cbn [nth_errN] in E. destruct (N.eqb_spec id 0); [discriminate|].
      apply (IH (N.pred id)); [|assumption]. unfold lenN in *. cbn [length] in X. lia.
Qed.

(* ================================================================== *)
(* K. topology changes (restrict), dup                                 *)

(* what hwloc_topology_restrict does as far as memattrs.c can see: objects
   disappear, the survivors keep type/gp_index/os_index, the root cpuset shrinks *)
Record shrinks (t t' : topo) : Prop := {
  sh_wf : wf_topo t';
  sh_objs : forall o', In o' (t_objs t') ->
      exists o, In o (t_objs t) /\ o_type o = o_type o' /\ o_gp o = o_gp o' /\ o_os o = o_os o';
  sh_root : bs_subset (t_root t') (t_root t) = true
}.

Lemma shrinks_lookup t t' ty gp : shrinks t t' -> obj_by_type_gp t ty gp = None -> obj_by_type_gp t' ty gp = None.
Proof.
  intros S H. destruct (obj_by_type_gp t' ty gp) as [o'|] eqn:E; [|reflexivity].
  apply obj_by_type_gp_some in E. destruct E as [I' [T' G']].
  destruct (sh_objs t t' S o' I') as [o [Io [To [Go _]]]].
  unfold obj_by_type_gp in H. apply find_none with (x := o) in H; [|assumption].
  rewrite To, Go, T', G', !N.eqb_refl in H. discriminate.
Qed.

Lemma refresh_imi_compose t t' i :
  shrinks t t' ->
  match refresh_imi t i with Some i1 => refresh_imi t' i1 | None => None end = refresh_imi t' i.
Proof.
  intros S. unfold refresh_imi. destruct i as [[c|ty gp] v ok]; cbn [i_loc i_val].
  - destruct (bs_is_empty (bs_inter c (t_root t))) eqn:E.
    + destruct (bs_is_empty (bs_inter c (t_root t'))) eqn:E'; [reflexivity|].
      rewrite (bs_inter_empty_shrink c _ _ (sh_root t t' S) E') in E. discriminate.
    + cbn [i_loc i_val]. rewrite (bs_inter_shrink c _ _ (sh_root t t' S)). reflexivity.
  - destruct (obj_by_type_gp t ty gp) eqn:E; cbn [i_loc i_val].
    + destruct (obj_by_type_gp t' ty gp); reflexivity.
    + now rewrite (shrinks_lookup t t' ty gp S E).
Qed.

Lemma refresh_tg_compose t t' need g :
  shrinks t t' -> g_gp g <> MEMATTR_GP_NONE ->
  match refresh_tg t need g with Some g1 => refresh_tg t' need g1 | None => None end = refresh_tg t' need g.
Proof.
  intros S G. unfold refresh_tg. rewrite !lookup_target_gp by assumption.
  destruct (obj_by_type_gp t (g_type g) (g_gp g)) as [o|] eqn:E.
  2:{ now rewrite (shrinks_lookup t t' _ _ S E). }
  pose proof (obj_by_type_gp_some _ _ _ _ E) as [_ [_ Hgp]].
  assert (C : filter_map (refresh_imi t') (filter_map (refresh_imi t) (g_inits g)) = filter_map (refresh_imi t') (g_inits g)).
  { rewrite filter_map_filter_map. apply filter_map_ext. intros i _. now apply refresh_imi_compose. }
  destruct need.
  - destruct (filter_map (refresh_imi t) (g_inits g)) as [|i0 is] eqn:F.
    + cbn [filter_map] in C. rewrite <- C. destruct (obj_by_type_gp t' (g_type g) (g_gp g)); reflexivity.
    + rewrite lookup_target_gp by (cbn [g_gp]; congruence).
      cbn [g_type g_gp g_os g_inits g_val]. rewrite Hgp, C. reflexivity.
  - rewrite lookup_target_gp by (cbn [g_gp]; congruence).
    cbn [g_type g_gp g_os g_inits g_val]. rewrite Hgp. reflexivity.
Qed.

Lemma need_refresh_nth l id :
  nth_errN (need_refresh l) id =
  option_map (fun a => if a_conv a then a else Imattr (a_name a) (a_flags a) (a_conv a) false (a_tgs a)) (nth_errN l id).
Proof. unfold need_refresh. apply nth_errN_map. Qed.

Lemma os_ok_shrinks t t' g : shrinks t t' -> os_ok t g -> os_ok t' g.
Proof.
  intros S [H|H]; [now left|]. right. intros o' I' T' G'.
  destruct (sh_objs t t' S o' I') as [o [Io [To [Go Oo]]]]. rewrite <- Oo. apply H; congruence.
Qed.

Lemma retopo_Inv s t' : Inv s -> shrinks (m_topo s) t' -> Inv (retopo s t').
Proof.
  intros [W C L A] S. constructor; cbn [retopo m_topo m_attrs].
  - apply S.
  - intros id b Hb. rewrite need_refresh_nth in Hb.
    destruct (nth_errN (m_attrs s) id) as [a|] eqn:E; [|discriminate]. cbn [option_map] in Hb.
    injection Hb as <-. rewrite <- (C id a E). destruct (a_conv a) eqn:Ec; [exact Ec|reflexivity].
  - unfold lenN, need_refresh in *. now rewrite map_length.
  - unfold need_refresh. apply Forall_forall. intros b Hb. apply in_map_iff in Hb. destruct Hb as [a [<- Ha]].
    rewrite Forall_forall in A. destruct (A a Ha) as [T [N [V Cv]]].
    assert (T' : Forall (tg_ok t' (need_init a)) (a_tgs a)).
    { apply Forall_forall. intros g Hg. rewrite Forall_forall in T. destruct (T g Hg) as [G1 [G2 G3]].
      split; [assumption|]. split; [now apply (os_ok_shrinks (m_topo s))|assumption]. }
    destruct (a_conv a) eqn:Ec.
    + unfold attr_ok. rewrite (Cv eq_refl). repeat split; constructor.
    + unfold attr_ok, need_init. cbn [a_tgs a_flags a_valid a_conv]. repeat split; try assumption; discriminate.
Qed.

(* entries of removed targets or emptied initiators disappear, the others keep
   their values: the content after restrict is the refresh, against the new
   topology, of the content before *)
Lemma retopo_tgs s t' id a :
  Inv s -> shrinks (m_topo s) t' -> get_attr s id = Some a -> a_conv a = false ->
  tgs_of (retopo s t') id = filter_map (refresh_tg t' (need_init a)) (tgs_of s id).
Proof.
  intros I S G C. unfold tgs_of, get_attr in *. cbn [retopo m_attrs m_topo].
  rewrite need_refresh_nth, G. cbn [option_map]. rewrite C.
  unfold cur at 1. cbn [a_valid]. unfold refresh_attr at 1. cbn [a_tgs]. unfold need_init at 1. cbn [a_flags]. fold (need_init a).
  unfold cur. destruct (a_valid a); [reflexivity|].
  unfold refresh_attr. cbn [a_tgs]. rewrite filter_map_filter_map. symmetry.
  apply filter_map_ext. intros g Hg. apply refresh_tg_compose; [assumption|].
  destruct (Inv_get s id a I G) as [T _]. rewrite Forall_forall in T. now apply T.
Qed.

Lemma ok_tg_idem g : ok_tg (ok_tg g) = ok_tg g.
Proof. unfold ok_tg. cbn [g_type g_gp g_os g_inits g_val]. rewrite map_map. reflexivity. Qed.

Lemma dup_Inv s : Inv s -> Inv (dup_switch s).
Proof.
  intros [W C L A]. constructor; cbn [dup_switch m_topo m_attrs].
  - assumption.
  - intros id b Hb. rewrite nth_errN_map in Hb.
    destruct (nth_errN (m_attrs s) id) as [a|] eqn:E; [|discriminate]. injection Hb as <-. cbn [a_conv]. now apply C.
  - unfold lenN in *. now rewrite map_length.
  - apply Forall_forall. intros b Hb. apply in_map_iff in Hb. destruct Hb as [a [<- Ha]].
    rewrite Forall_forall in A. destruct (A a Ha) as [T [N [V Cv]]].
    unfold attr_ok, need_init. cbn [a_tgs a_flags a_valid a_conv]. repeat split; try assumption. discriminate.
Qed.

Lemma dup_tgs s id : Inv s -> map ok_tg (tgs_of (dup_switch s) id) = map ok_tg (tgs_of s id).
Proof.
  intros I. unfold tgs_of, get_attr. cbn [dup_switch m_attrs m_topo]. rewrite nth_errN_map.
  destruct (nth_errN (m_attrs s) id) as [a|] eqn:E; [|reflexivity]. cbn [option_map].
  unfold cur at 1. cbn [a_valid]. unfold refresh_attr at 1. cbn [a_tgs]. unfold need_init at 1. cbn [a_flags]. fold (need_init a).
  unfold cur. destruct (a_valid a) eqn:V; [|reflexivity].
  destruct (Inv_get s id a I E) as [T [_ [St _]]].
  rewrite (refresh_stable_list _ _ _ T (St V)). rewrite map_map. apply map_ext. intros g. apply ok_tg_idem.
Qed.

(* ================================================================== *)
(* M. all histories                                                    *)

Definition loc_ok (t : topo) (l : location) : Prop :=
  match l with
  | LCpu (Some c) => bs_subset c (t_root t) = true
  | LObj o => In o (t_objs t)
  | _ => True
  end.

(* the hypotheses on a history: objects passed to the API belong to the current
   topology, cpuset initiators given to set_value lie inside the root cpuset,
   restrict only removes things; the internal/XML entry points are not part of
   the histories quantified over here *)
Definition op_ok (s : mstate) (o : op) : Prop :=
  match o with
  | OSet _ (Some tgt) init _ _ => In tgt (t_objs (m_topo s)) /\ match init with Some l => loc_ok (m_topo s) l | None => True end
  | ORetopo t' => shrinks (m_topo s) t'
  | OISet _ _ _ _ _ _ | OXml _ | OXmlNoMem _ | OXmlFromNoMem _ => False
  | _ => True
  end.

Fixpoint hist_ok (s : mstate) (ops : list op) : Prop :=
  match ops with
  | [] => True
  | o :: r => op_ok s o /\ hist_ok (fst (step s o)) r
  end.

Lemma to_internal_stable t l q : loc_ok t l -> wf_topo t -> to_internal l = Some q -> loc_stable t q.
Proof.
  unfold to_internal, loc_ok. destruct l as [[c|]|o| |]; try discriminate.
  - destruct (bs_is_empty c) eqn:E; [discriminate|]. intros H _ K. injection K as <-. split; assumption.
  - intros H W K. injection K as <-. exists o. now apply obj_by_type_gp_in.
Qed.

Lemma set_value_cases s id o init flags v :
  Inv s -> In o (t_objs (m_topo s)) -> match init with Some l => loc_ok (m_topo s) l | None => True end ->
  (fst (set_value s id (Some o) init flags v) = s) \/
  (flags = 0 /\ exists il, public_il init = Some il /\ set_args_ok s id o il).
Proof.
  intros I Ho Hl. unfold set_value. destruct (N.eqb_spec flags 0) as [->|]; [|now left]. cbn [negb].
  assert (X : forall il, il_stable (m_topo s) il ->
     fst (set_core true true s id (o_type o) (o_gp o) (o_os o) il v) = s \/ set_args_ok s id o il).
  { intros il Sil. unfold set_core. destruct (get_attr s id) as [a|] eqn:G; [|now left].
    destruct (need_init a && _) eqn:N; [now left|]. destruct (a_conv a) eqn:C; [now left|].
    right. split; [assumption|]. split; [assumption|]. exists a. auto. }
  destruct init as [l|].
  - destruct (to_internal l) as [q|] eqn:T; [|now left].
    destruct (X (Some q)) as [H|H]; [cbn [il_stable]; eapply to_internal_stable; eauto; apply I|now left|].
    right. split; [reflexivity|]. exists (Some q). split; [|assumption]. unfold public_il. now rewrite T.
  - destruct (X None Logic.I) as [H|H]; [now left|]. right. split; [reflexivity|]. exists None. split; [reflexivity|assumption].
Qed.

Lemma register_Inv s name flags : Inv s -> Inv (fst (register s name flags)).
Proof.
  intros I. pose proof (register_rules s name flags) as [R1 [R2 R3]]. cbn zeta in *.
  destruct (reg_flags_ok flags) eqn:F.
  2:{ destruct (R1 eq_refl) as [_ ->]. assumption. }
  destruct (name_used (m_attrs s) name) eqn:U.
  { destruct (R2 eq_refl eq_refl) as [_ ->]. assumption. }
  destruct (R3 eq_refl eq_refl) as [_ [T [At _]]].
  destruct I as [W C L A]. constructor; rewrite ?T, ?At.
  - assumption.
  - intros id a Ha. destruct (N.lt_ge_cases id (lenN (m_attrs s))) as [Hl|Hl].
    + rewrite nth_errN_app_l in Ha by assumption. now apply C.
    + destruct (N.eq_dec id (lenN (m_attrs s))) as [->|Hne].
      * rewrite nth_errN_app_len in Ha. cbn [nth_errN N.eqb] in Ha. injection Ha as <-. cbn [a_conv].
        symmetry. apply N.ltb_ge. assumption.
      * exfalso. assert (X : nth_errN (m_attrs s ++ [Imattr name flags false true []]) id = None).
        { apply nth_errN_none. unfold lenN in *. rewrite app_length. cbn [length]. lia. }
        congruence.
  - unfold lenN in *. rewrite app_length. lia.
  - apply Forall_app. split; [assumption|]. constructor; [|constructor].
    unfold attr_ok. cbn [a_tgs]. repeat split; constructor.
Qed.

Lemma step_Inv s o : Inv s -> op_ok s o -> Inv (fst (step s o)).
Proof.
  intros I K. destruct o;
    try (match goal with |- Inv (fst (step s ?o)) => apply (proj1 (query_preserves s o I eq_refl)) end);
    cbn [op_ok] in K; cbn [step].
  - rewrite fst_let. now apply register_Inv.
  - rewrite fst_let. destruct tgt as [tgt|]; [|exact I]. destruct K as [K1 K2].
    destruct (set_value_cases s id tgt init flags v I K1 K2) as [->|[-> [il [P A]]]]; [assumption|].
    pose proof (set_then_get s id tgt init il v I P A) as [_ [I' _]]. exact I'.
  - destruct K.
  - now apply retopo_Inv.
  - now apply dup_Inv.
  - destruct K.
  - destruct K.
  - destruct K.
Qed.

Lemma run_Inv s ops : Inv s -> hist_ok s ops -> Inv (run s ops).
Proof.
  revert s. induction ops as [|o r IH]; intros s I H; [exact I|].
  cbn [hist_ok] in H. destruct H as [H1 H2]. unfold run. cbn [fold_left]. apply IH; [now apply step_Inv|assumption].
Qed.

Lemma cur_conv t a : a_conv (cur t a) = a_conv a.
Proof. unfold cur. destruct (a_valid a); reflexivity. Qed.

Lemma init_state_Inv t : wf_topo t -> Inv (init_state t).
Proof.
  intros W.
  assert (E : map a_conv (m_attrs (init_state t)) = map a_conv init_attrs).
  { cbn [init_state m_attrs]. unfold refresh_all, need_refresh. rewrite !map_map. apply map_ext.
    intros a. rewrite cur_conv. destruct (a_conv a) eqn:Ec; [exact Ec|reflexivity]. }
  assert (Tg : Forall (fun a => a_tgs a = []) (m_attrs (init_state t))).
  { cbn [init_state m_attrs]. unfold refresh_all, need_refresh. rewrite map_map. apply Forall_forall.
    intros b Hb. apply in_map_iff in Hb. destruct Hb as [a [<- Ha]].
    assert (Ta : a_tgs a = []).
    { revert a Ha. apply Forall_forall. unfold init_attrs. apply Forall_forall. intros a Ha.
      apply in_map_iff in Ha. destruct Ha as [[[n f] i] [<- _]]. reflexivity. }
    unfold cur. destruct (a_conv a); [destruct (a_valid a)|]; cbn [a_valid a_tgs refresh_attr]; rewrite ?Ta; reflexivity. }
  constructor.
  - exact W.
  - intros id a Ha. assert (X : nth_errN (map a_conv (m_attrs (init_state t))) id = Some (a_conv a))
      by (rewrite nth_errN_map, Ha; reflexivity).
    rewrite E in X. change (map a_conv init_attrs) with [true; true; false; false; false; false; false; false] in X.
    cbn [nth_errN] in X.
    destruct (N.eqb_spec id 0) as [E0|H0]; [injection X as <-; subst id; reflexivity|].
    destruct (N.eqb_spec (N.pred id) 0) as [E1|H1]; [injection X as <-; replace id with 1 by lia; reflexivity|].
    assert (G2 : (id <? 2) = false) by (apply N.ltb_ge; lia). rewrite G2.
    repeat (match type of X with context [N.eqb ?x 0] => destruct (N.eqb_spec x 0) end; [injection X as <-; reflexivity|]).
    discriminate X.
  - assert (X : length (map a_conv (m_attrs (init_state t))) = length (map a_conv init_attrs)) by now rewrite E.
    rewrite !map_length in X. unfold lenN. rewrite X. vm_compute. discriminate.
  - apply Forall_forall. intros a Ha. rewrite Forall_forall in Tg. specialize (Tg a Ha).
    unfold attr_ok. rewrite Tg. repeat split; constructor.
Qed.

(* ================================================================== *)
(* N. default nodeset                                                  *)

Definition dn_inv (nodes : list obj) (st : dn_state) : Prop :=
  (forall i, mem i (dn_set st) = true -> exists n, In n nodes /\ o_os n = i) /\
  (forall n, In n nodes -> mem (o_os n) (dn_set st) = true -> bs_disjoint (o_cpuset n) (dn_rem st)) /\
  (forall n m, In n nodes -> In m nodes -> o_os n <> o_os m ->
     mem (o_os n) (dn_set st) = true -> mem (o_os m) (dn_set st) = true -> bs_disjoint (o_cpuset n) (o_cpuset m)).

Lemma dn_take_inv nodes st n :
  NoDup (map o_os nodes) -> dn_inv nodes st -> In n nodes ->
  (bs_subset (o_cpuset n) (dn_rem st) = true \/ forall i, mem i (dn_set st) = false) ->
  dn_inv nodes (dn_take st n).
Proof.
  intros ND [I1 [I2 I3]] Hn Hs. unfold dn_take, dn_inv. cbn [dn_set dn_rem].
  assert (SAME : forall m, In m nodes -> o_os m = o_os n -> m = n).
  { intros m Hm E. apply (NoDup_map_inj o_os nodes); assumption. }
  split; [|split].
  - intros i Hi. rewrite mem_add in Hi. apply orb_true_iff in Hi. destruct Hi as [Hi|Hi].
    + apply N.eqb_eq in Hi. subst i. eauto.
    + auto.
  - intros m Hm Hb i Hi1 Hi2. rewrite mem_diff in Hi2. apply andb_true_iff in Hi2. destruct Hi2 as [R NR].
    rewrite mem_add in Hb. apply orb_true_iff in Hb. destruct Hb as [Hb|Hb].
    + apply N.eqb_eq in Hb. rewrite (SAME m Hm Hb) in Hi1. rewrite Hi1 in NR. discriminate.
    + exact (I2 m Hm Hb i Hi1 R).
  - intros a b Ha Hb Hne Ba Bb. rewrite mem_add in Ba, Bb.
    apply orb_true_iff in Ba, Bb.
    assert (OLD : forall m, In m nodes -> mem (o_os m) (dn_set st) = true -> bs_disjoint (o_cpuset m) (o_cpuset n)).
    { intros m Hm Bm i M1 M2. destruct Hs as [Hs|Hs].
      - rewrite bs_subset_spec in Hs. exact (I2 m Hm Bm i M1 (Hs i M2)).
      - rewrite Hs in Bm. discriminate. }
    destruct Ba as [Ba|Ba], Bb as [Bb|Bb].
    + apply N.eqb_eq in Ba, Bb. congruence.
    + apply N.eqb_eq in Ba. rewrite (SAME a Ha Ba). intros i M1 M2. exact (OLD b Hb Bb i M2 M1).
    + apply N.eqb_eq in Bb. rewrite (SAME b Hb Bb). exact (OLD a Ha Ba).
    + now apply I3.
Qed.

Lemma dn_check_inv nodes st : dn_inv nodes st -> dn_inv nodes (dn_check st).
Proof. unfold dn_check. destruct (bs_is_empty (dn_rem st)); auto. Qed.

Lemma dn_loop1_inv nodes sub st n :
  NoDup (map o_os nodes) -> dn_inv nodes st -> In n nodes -> dn_inv nodes (dn_loop1 sub st n).
Proof.
  intros ND I Hn. unfold dn_loop1. destruct (dn_done st); [assumption|].
  destruct (negb (o_subtype n =? sub)); [assumption|]. apply dn_check_inv.
  destruct (bs_subset (o_cpuset n) (dn_rem st)) eqn:E; [|assumption]. apply dn_take_inv; auto.
Qed.

Lemma dn_loop2_inv nodes st n :
  NoDup (map o_os nodes) -> dn_inv nodes st -> In n nodes -> dn_inv nodes (dn_loop2 st n).
Proof.
  intros ND I Hn. unfold dn_loop2. destruct (dn_done st); [assumption|].
  destruct (mem (o_os n) (dn_set st)); [assumption|]. apply dn_check_inv.
  destruct (bs_subset (o_cpuset n) (dn_rem st)) eqn:E; cbn [andb]; [|assumption].
  destruct (negb (bs_is_empty (o_cpuset n))); [|assumption]. apply dn_take_inv; auto.
Qed.

Lemma fold_inv {A S} (P : S -> Prop) (f : S -> A -> S) (Q : A -> Prop) l st :
  (forall st x, P st -> Q x -> P (f st x)) -> P st -> Forall Q l -> P (fold_left f l st).
Proof.
  intros H. revert st. induction l as [|x l IH]; intros st Hp Hq; [assumption|].
  inversion Hq; subst. cbn [fold_left]. apply IH; auto.
Qed.

Lemma In_insert_by_os n l x : In x (insert_by_os n l) <-> x = n \/ In x l.
Proof.
  induction l as [|m r IH]; cbn [insert_by_os]; [cbn; intuition|].
  destruct (o_os n <? o_os m); cbn [In]; [intuition|]. rewrite IH. intuition.
Qed.
Lemma In_sort_by_os l x : In x (sort_by_os l) <-> In x l.
Proof.
  unfold sort_by_os. induction l as [|m r IH]; cbn [fold_right]; [reflexivity|].
  rewrite In_insert_by_os, IH. cbn [In]. intuition.
Qed.

Lemma number_from_snd {A} k (l : list A) : Forall (fun e => In (snd e) l) (number_from k l).
Proof.
  revert k. induction l as [|x l IH]; intros k; cbn [number_from]; constructor.
  - now left.
  - specialize (IH (N.succ k)). rewrite Forall_forall in *. intros e He. right. auto.
Qed.

(* the default nodeset only names existing NUMA nodes, and the nodes it names
   have pairwise disjoint cpusets *)
Lemma default_nodeset_spec s set :
  NoDup (map o_os (numa_nodes (m_topo s))) ->
  default_nodeset s 0 = Ok set ->
  (forall i, mem i set = true -> exists n, In n (numa_nodes (m_topo s)) /\ o_os n = i) /\
  (forall n m, In n (numa_nodes (m_topo s)) -> In m (numa_nodes (m_topo s)) -> o_os n <> o_os m ->
     mem (o_os n) set = true -> mem (o_os m) set = true -> bs_disjoint (o_cpuset n) (o_cpuset m)).
Proof.
  intros ND. unfold default_nodeset. cbn [N.eqb negb].
  set (nodes := numa_nodes (m_topo s)) in *.
  destruct (sort_by_os nodes) as [|first rest] eqn:E; [discriminate|].
  assert (IN : forall x, In x (first :: rest) -> In x nodes) by (intros x Hx; apply In_sort_by_os; now rewrite E).
  intros H. injection H as <-.
  assert (I0 : dn_inv nodes (dn_take (DN bs_empty (t_root (m_topo s)) false) first)).
  { apply dn_take_inv; [assumption| |apply IN; now left|right; intros i; apply mem_empty].
    unfold dn_inv. cbn [dn_set dn_rem]. repeat split; intros; rewrite mem_empty in *; discriminate. }
  assert (I1 : dn_inv nodes (fold_left (dn_loop1 (o_subtype first)) rest (dn_take (DN bs_empty (t_root (m_topo s)) false) first))).
  { apply (fold_inv (dn_inv nodes) _ (fun x => In x nodes)); [|assumption|].
    - intros st x P Q. now apply dn_loop1_inv.
    - apply Forall_forall. intros x Hx. apply IN. now right. }
  assert (I2 : dn_inv nodes (fold_left dn_loop2 rest (fold_left (dn_loop1 (o_subtype first)) rest (dn_take (DN bs_empty (t_root (m_topo s)) false) first)))).
  { apply (fold_inv (dn_inv nodes) _ (fun x => In x nodes)); [|assumption|].
    - intros st x P Q. now apply dn_loop2_inv.
    - apply Forall_forall. intros x Hx. apply IN. now right. }
  destruct I2 as [A [_ C]]. split; assumption.
Qed.

(* ================================================================== *)
(* P. pairwise disjointness of stored cpusets is preserved             *)

Lemma FOP_map {A B} (R : B -> B -> Prop) (f : A -> B) l :
  ForallOrdPairs (fun x y => R (f x) (f y)) l <-> ForallOrdPairs R (map f l).
Proof.
  induction l as [|x l IH]; cbn [map].
  - split; constructor.
  - split; intros H; inversion H; subst; constructor.
    + rewrite Forall_forall in *. intros y Hy. apply in_map_iff in Hy. destruct Hy as [z [<- Hz]]. auto.
    + now apply IH.
    + rewrite Forall_forall in *. intros y Hy. match goal with K : forall _, In _ (map f l) -> _ |- _ => apply K end. now apply in_map.
    + now apply IH.
Qed.

Lemma FOP_app_end {A} (R : A -> A -> Prop) l x :
  ForallOrdPairs R l -> Forall (fun y => R y x) l -> ForallOrdPairs R (l ++ [x]).
Proof.
  intros H F. induction H as [|y l Hy Hl IH]; cbn [app].
  - constructor; constructor.
  - inversion F; subst. constructor; [|now apply IH].
    apply Forall_app. split; [assumption|]. constructor; [assumption|constructor].
Qed.

Lemma upsert_init_locs nok q v is :
  map i_loc (upsert_init nok q v is) = map i_loc is ++ (match find_init is q with Some _ => [] | None => [q] end).
Proof.
  unfold find_init. induction is as [|i r IH]; cbn [upsert_init map find app]; [reflexivity|].
  destruct (match_iloc q (i_loc i)); cbn [map i_loc].
  - now rewrite app_nil_r.
  - now rewrite IH.
Qed.

Lemma upsert_init_pd nok q v is : pd is -> compat is q -> pd (upsert_init nok q v is).
Proof.
  unfold pd. intros P C. apply FOP_map. rewrite upsert_init_locs. apply FOP_map in P.
  destruct (find_init is q) eqn:F; [now rewrite app_nil_r|].
  destruct C as [C|C]; [congruence|].
  apply FOP_app_end; [assumption|].
  rewrite Forall_forall in *. intros l Hl. apply in_map_iff in Hl. destruct Hl as [i [<- Hi]]. now apply C.
Qed.

Lemma FOP_filter_map {A B} (R : A -> A -> Prop) (R' : B -> B -> Prop) (f : A -> option B) l :
  (forall x y x' y', f x = Some x' -> f y = Some y' -> R x y -> R' x' y') ->
  ForallOrdPairs R l -> ForallOrdPairs R' (filter_map f l).
Proof.
  intros H P. induction P as [|x l Hx Hl IH]; cbn [filter_map]; [constructor|].
  destruct (f x) as [x'|] eqn:E; [|assumption]. constructor; [|assumption].
  apply Forall_forall. intros y' Hy'. apply in_filter_map in Hy'. destruct Hy' as [y [Hy Fy]].
  rewrite Forall_forall in Hx. exact (H x y x' y' E Fy (Hx y Hy)).
Qed.

Lemma refresh_imi_pd t is : pd is -> pd (filter_map (refresh_imi t) is).
Proof.
  unfold pd. apply FOP_filter_map. intros x y x' y' Fx Fy R.
  apply refresh_imi_out in Fx, Fy. destruct Fx as [_ [_ [_ Lx]]], Fy as [_ [_ [_ Ly]]].
  destruct (i_loc x) as [cx|], (i_loc y) as [cy|]; rewrite Lx, Ly; cbn [loc_disjoint] in *; try exact Logic.I.
  intros i M1 M2. rewrite mem_inter in M1, M2. apply andb_true_iff in M1, M2. exact (R i (proj1 M1) (proj1 M2)).
Qed.

(* ================================================================== *)
(* Q. cached object pointers are initialised in every public history   *)

Definition tg_allok (g : imtg) : Prop := Forall (fun i => i_ok i = true) (g_inits g).
Definition attr_allok (a : imattr) : Prop := Forall tg_allok (a_tgs a).
Definition AllOk (s : mstate) : Prop := Forall attr_allok (m_attrs s).

Lemma refresh_tg_allok t need g g' : tg_allok g -> refresh_tg t need g = Some g' -> tg_allok g'.
Proof.
  unfold refresh_tg. destruct (lookup_target t g); [|discriminate]. destruct need.
  - destruct (filter_map (refresh_imi t) (g_inits g)) as [|i0 is] eqn:F; [discriminate|].
    intros _ K. injection K as <-. unfold tg_allok. cbn [g_inits]. rewrite <- F.
    apply Forall_forall. intros x Hx. apply in_filter_map in Hx. destruct Hx as [y [_ Hy]].
    apply refresh_imi_out in Hy. tauto.
  - intros H K. injection K as <-. exact H.
Qed.

Lemma cur_allok t a : attr_allok a -> attr_allok (cur t a).
Proof.
  intros H. unfold cur. destruct (a_valid a); [assumption|].
  unfold attr_allok, refresh_attr. cbn [a_tgs]. apply Forall_forall. intros g Hg.
  apply in_filter_map in Hg. destruct Hg as [g0 [H0 Hr]]. unfold attr_allok in H. rewrite Forall_forall in H.
  exact (refresh_tg_allok _ _ _ _ (H g0 H0) Hr).
Qed.

Lemma upsert_init_allok q v is :
  Forall (fun i => i_ok i = true) is -> Forall (fun i => i_ok i = true) (upsert_init true q v is).
Proof.
  intros H. induction H as [|i r Hi Hr IH]; cbn [upsert_init].
  - constructor; [destruct q; reflexivity|constructor].
  - destruct (match_iloc q (i_loc i)); constructor; auto.
Qed.

Lemma AllOk_put s id a : AllOk s -> attr_allok a -> AllOk (put_attr s id a).
Proof.
  intros H Ha. unfold AllOk in *. cbn [put_attr m_attrs]. apply Forall_forall. intros b Hb.
  apply In_set_nthN in Hb. destruct Hb as [->|Hb]; [assumption|]. rewrite Forall_forall in H. auto.
Qed.

Lemma AllOk_get s id a : AllOk s -> get_attr s id = Some a -> attr_allok a.
Proof. intros H G. apply nth_errN_In in G. unfold AllOk in H. rewrite Forall_forall in H. auto. Qed.

Lemma set_core_allok loaded s id ty gp os il v : AllOk s -> AllOk (fst (set_core loaded true s id ty gp os il v)).
Proof.
  intros H. unfold set_core. destruct (get_attr s id) as [a|] eqn:G; [|exact H].
  destruct (need_init a && _); [exact H|]. destruct (a_conv a); [exact H|].
  set (a1 := if loaded && negb (a_valid a) then refresh_attr (m_topo s) a else a).
  assert (A1 : attr_allok a1).
  { unfold a1. destruct (loaded && negb (a_valid a)) eqn:E; [|exact (AllOk_get s id a H G)].
    pose proof (cur_allok (m_topo s) a (AllOk_get s id a H G)) as K. unfold cur in K.
    destruct (a_valid a); [destruct loaded; discriminate|exact K]. }
  match goal with |- context [upsert_tg ty gp os ?ff (a_tgs a1)] => set (f := ff) end.
  pose proof (upsert_tg_Forall tg_allok ty gp os f (a_tgs a1) A1) as U.
  destruct (upsert_tg ty gp os f (a_tgs a1)) as [tgs created]. cbn [fst] in *.
  apply AllOk_put; [assumption|]. unfold attr_allok. cbn [a_tgs]. apply U.
  - intros g Hg. unfold f, tg_allok. destruct il as [q|]; [destruct (need_init a)|]; cbn [g_inits]; try exact Hg.
    now apply upsert_init_allok.
  - unfold f, tg_allok. destruct il as [q|]; [destruct (need_init a)|]; cbn [g_inits upsert_init]; repeat constructor.
    destruct q; reflexivity.
Qed.

Lemma step_AllOk s o : AllOk s -> op_ok s o -> AllOk (fst (step s o)).
Proof.
  intros H K.
  destruct (is_query o) eqn:Q.
  { destruct (query_state s o Q) as [->|[id [a [G ->]]]]; [assumption|].
    apply AllOk_put; [assumption|]. apply cur_allok. exact (AllOk_get s id a H G). }
  destruct o; try discriminate Q; cbn [op_ok] in K; cbn [step].
  - rewrite fst_let. unfold register. break_match; cbn [fst]; try assumption.
    unfold AllOk in *. cbn [m_attrs]. apply Forall_app. split; [assumption|]. repeat constructor.
  - rewrite fst_let. unfold set_value. break_match; cbn [fst]; try assumption; apply set_core_allok; assumption.
  - destruct K.
  - unfold AllOk in *. cbn [retopo m_attrs]. unfold need_refresh. apply Forall_forall. intros b Hb.
    apply in_map_iff in Hb. destruct Hb as [a [<- Ha]]. rewrite Forall_forall in H. specialize (H a Ha).
    destruct (a_conv a); exact H.
  - unfold AllOk in *. cbn [dup_switch m_attrs]. apply Forall_forall. intros b Hb.
    apply in_map_iff in Hb. destruct Hb as [a [<- Ha]]. rewrite Forall_forall in H. exact (H a Ha).
  - destruct K.
  - destruct K.
  - destruct K.
Qed.

Lemma run_AllOk s ops : AllOk s -> hist_ok s ops -> AllOk (run s ops).
Proof.
  revert s. induction ops as [|o r IH]; intros s I H; [exact I|].
  cbn [hist_ok] in H. destruct H as [H1 H2]. unfold run. cbn [fold_left]. apply IH; [now apply step_AllOk|assumption].
Qed.

Lemma init_state_AllOk t : AllOk (init_state t).
Proof.
  unfold AllOk. cbn [init_state m_attrs]. unfold refresh_all, need_refresh. rewrite map_map. apply Forall_forall.
  intros b Hb. apply in_map_iff in Hb. destruct Hb as [a [<- Ha]].
  assert (Ta : a_tgs a = []).
  { unfold init_attrs in Ha. apply in_map_iff in Ha. destruct Ha as [[[n f] i] [<- _]]. reflexivity. }
  apply cur_allok. unfold attr_allok. destruct (a_conv a); cbn [a_tgs]; rewrite Ta; constructor.
Qed.

Lemma tgs_of_allok s id : AllOk s -> Forall tg_allok (tgs_of s id).
Proof.
  intros H. unfold tgs_of. destruct (get_attr s id) as [a|] eqn:G; [|constructor].
  exact (cur_allok _ _ (AllOk_get s id a H G)).
Qed.

Lemma In_firstnN {A} n (l : list A) x : In x (firstnN n l) -> In x l.
Proof. destruct (firstnN_prefix l n) as [r E]. intros H. rewrite E. apply in_or_app. now left. Qed.

(* hwloc_memattr_get_initiators enumerates exactly the stored entries *)
Lemma get_initiators_exact s id a o max inull :
  AllOk s -> get_attr s id = Some a -> need_init a = true -> (max = 0 \/ inull = false) ->
  snd (get_initiators s id (Some o) 0 max inull) =
  match find_target (tgs_of s id) (o_type o) (o_gp o) (o_os o) with
  | None => Err EINVAL
  | Some g => Ok (lenN (g_inits g), map (fun i => (i_loc i, i_val i)) (firstnN max (g_inits g)))
  end.
Proof.
  intros H G Nd M. rewrite (get_initiators_snd s id a o max inull G Nd M).
  destruct (find_target _ _ _ _) as [g|] eqn:F; [|reflexivity].
  apply find_some in F. destruct F as [Hg _].
  pose proof (tgs_of_allok s id H) as K. rewrite Forall_forall in K. specialize (K g Hg).
  replace (forallb i_ok (firstnN max (g_inits g))) with true; [reflexivity|].
  symmetry. apply forallb_forall. intros i Hi. apply In_firstnN in Hi.
  unfold tg_allok in K. rewrite Forall_forall in K. auto.
Qed.

Lemma get_best_initiator_defined s id a o :
  AllOk s -> get_attr s id = Some a -> need_init a = true ->
  snd (get_best_initiator s id (Some o) 0) <> Err EUB.
Proof.
  intros H G Nd. rewrite (get_best_initiator_snd s id a o G Nd).
  destruct (find_target _ _ _ _) as [g|] eqn:F; [|discriminate].
  apply find_some in F. destruct F as [Hg _].
  pose proof (tgs_of_allok s id H) as K. rewrite Forall_forall in K. specialize (K g Hg).
  destruct (best_of _ _) as [[i v]|] eqn:B; [|discriminate].
  apply best_of_some in B. destruct B as [B _]. apply in_map_iff in B. destruct B as [i1 [E1 H1]].
  injection E1 as -> _. unfold tg_allok in K. rewrite Forall_forall in K. rewrite (K i H1). discriminate.
Qed.

(* ================================================================== *)
(* S. frame: another initiator of the same target                      *)

Lemma upsert_init_frame nok q q' v is :
  (forall i, In i is -> match_iloc q (i_loc i) = true -> match_iloc q' (i_loc i) = false) ->
  match_iloc q' q = false ->
  option_map i_val (find_init (upsert_init nok q v is) q') = option_map i_val (find_init is q').
Proof.
  intros H Hn. unfold find_init. induction is as [|i r IH]; cbn [upsert_init find].
  - cbn [i_loc]. now rewrite Hn.
  - destruct (match_iloc q (i_loc i)) eqn:M; cbn [find i_loc].
    + rewrite (H i (or_introl eq_refl) M). reflexivity.
    + destruct (match_iloc q' (i_loc i)); [reflexivity|]. apply IH. intros j Hj. apply H. now right.
Qed.

(* a set_value with initiator q leaves the answer for q' unchanged when q' does
   not resolve to the entry that q resolves to *)
Lemma set_frame_initiator s id o l q l' q' v :
  Inv s -> to_internal l = Some q -> to_internal l' = Some q' -> set_args_ok s id o (Some q) ->
  (forall a, get_attr s id = Some a -> need_init a = true) ->
  (forall g i, find_target (tgs_of s id) (o_type o) (o_gp o) (o_os o) = Some g -> In i (g_inits g) ->
      match_iloc q (i_loc i) = true -> match_iloc q' (i_loc i) = false) ->
  match_iloc q' q = false ->
  let s' := fst (set_value s id (Some o) (Some l) 0 v) in
  snd (get_value s' id (Some o) (Some l') 0) = snd (get_value s id (Some o) (Some l') 0).
Proof.
  intros I Tq Tq' A Hneed H Hn. cbn zeta.
  assert (P : public_il (Some l) = Some (Some q)) by (unfold public_il; now rewrite Tq).
  rewrite (set_value_core s id o _ v _ P).
  pose proof (set_core_props s id o _ v I A) as [_ [_ [_ [_ [HA HT]]]]].
  destruct A as [Ho [Sil [a [G [C N]]]]].
  destruct (HA a G) as [a2 [G2 [_ [F2 C2]]]]. specialize (HT a G).
  rewrite (get_value_snd _ id a2 o _ G2) by congruence.
  rewrite (get_value_snd _ id a o _ G C).
  replace (need_init a2) with (need_init a) by (unfold need_init; now rewrite F2).
  rewrite <- get_in_ok, HT, get_in_ok. rewrite (Hneed a G).
  unfold get_in, find_target. rewrite upsert_find_same.
  - unfold find_target in H. destruct (find _ (tgs_of s id)) as [g|] eqn:F.
    + unfold set_f. cbn [g_inits find_init_loc]. rewrite Tq'.
      pose proof (upsert_init_frame true q q' v (g_inits g) (fun i => H g i eq_refl) Hn) as E.
      destruct (find_init (upsert_init true q v (g_inits g)) q'), (find_init (g_inits g) q'); cbn [option_map] in E; congruence.
    + unfold set_f. cbn [g_inits find_init_loc upsert_init]. rewrite Tq'.
      unfold find_init. cbn [find i_loc]. now rewrite Hn.
  - intros g. unfold tg_match. destruct (set_f_fields true (Some q) v g) as [-> [-> ->]]. reflexivity.
  - unfold tg_match, set_f. cbn [g_type g_gp g_os]. rewrite !N.eqb_refl.
    assert (Hg : o_gp o =? MEMATTR_GP_NONE = false) by (apply N.eqb_neq; apply (inv_wf s I); assumption).
    rewrite Hg. reflexivity.
Qed.

(* instances: the two initiators are of different kinds, or two different objects *)
Lemma match_iloc_exclusive q q' l :
  (match q, q' with ICpu _, ICpu _ => False | _, _ => q <> q' end) ->
  match_iloc q l = true -> match_iloc q' l = false.
Proof.
  destruct q as [c|t g], q' as [c'|t' g'], l as [x|lt lg]; cbn [match_iloc]; try reflexivity; try discriminate; try tauto.
  intros Hne M. apply andb_true_iff in M. destruct M as [M1 M2]. apply N.eqb_eq in M1, M2. subst.
  destruct (N.eqb_spec t' lt); [|reflexivity]. destruct (N.eqb_spec g' lg); [|reflexivity]. subst. now elim Hne.
Qed.

(* ================================================================== *)
(* T. the internal entry point and the XML replay                      *)

Definition set_fg (nok need : bool) (il : option iloc) (v : N) (g : imtg) : imtg :=
  match il with
  | Some q => if need then Imtg (g_type g) (g_gp g) (g_os g) (upsert_init nok q v (g_inits g)) (g_val g)
              else Imtg (g_type g) (g_gp g) (g_os g) (g_inits g) v
  | None => Imtg (g_type g) (g_gp g) (g_os g) (g_inits g) v
  end.

Lemma set_fg_fields nok need il v g :
  g_type (set_fg nok need il v g) = g_type g /\ g_gp (set_fg nok need il v g) = g_gp g /\ g_os (set_fg nok need il v g) = g_os g.
Proof. unfold set_fg. destruct il, need; auto. Qed.

Lemma set_fg_tg_ok t nok need il v g : tg_ok t need g -> tg_ok t need (set_fg nok need il v g).
Proof.
  intros [G [O Sh]]. pose proof (set_fg_fields nok need il v g) as [F1 [F2 F3]].
  split; [now rewrite F2|]. split; [eapply os_ok_same; eauto|].
  intros ->. unfold set_fg. destruct il; cbn [g_inits]; auto.
Qed.

Lemma set_core_gen loaded nok s id ty gp os il v a :
  get_attr s id = Some a -> (need_init a && match il with None => true | Some _ => false end) = false ->
  a_conv a = false ->
  set_core loaded nok s id ty gp os il v =
  let a1 := if loaded && negb (a_valid a) then refresh_attr (m_topo s) a else a in
  let r := upsert_tg ty gp os (set_fg nok (need_init a) il v) (a_tgs a1) in
  (put_attr s id (Imattr (a_name a1) (a_flags a1) (a_conv a1) (if inval r (a_tgs a1) then false else a_valid a1) (fst r)), Ok tt).
Proof.
  intros G N C. unfold set_core, inval. rewrite G, N, C. cbn zeta.
  unfold set_fg. destruct (upsert_tg _ _ _ _ _) as [tgs created] eqn:E. cbn [fst snd]. reflexivity.
Qed.

(* the cached-pointer bit only concerns object initiators *)
Lemma upsert_init_nok_irrelevant nok c v is : upsert_init nok (ICpu c) v is = upsert_init true (ICpu c) v is.
Proof. induction is as [|i r IH]; cbn [upsert_init]; [reflexivity|]. now rewrite IH. Qed.

Lemma upsert_tg_ext ty gp os f f' l : (forall g, f g = f' g) -> upsert_tg ty gp os f l = upsert_tg ty gp os f' l.
Proof.
  intros E. induction l as [|g l IH]; cbn [upsert_tg]; [now rewrite E|]. now rewrite E, IH.
Qed.

Definition il_not_obj (il : option iloc) : Prop := match il with Some (IObj _ _) => False | _ => True end.

Lemma set_core_nok_irrelevant loaded nok s id ty gp os il v :
  il_not_obj il -> set_core loaded nok s id ty gp os il v = set_core loaded true s id ty gp os il v.
Proof.
  intros H. destruct (get_attr s id) as [a|] eqn:G; [|unfold set_core; now rewrite G].
  destruct (need_init a && match il with None => true | Some _ => false end) eqn:N; [unfold set_core; now rewrite G, N|].
  destruct (a_conv a) eqn:C; [unfold set_core; now rewrite G, N, C|].
  rewrite !(set_core_gen _ _ s id ty gp os il v a G N C). cbn zeta.
  rewrite (upsert_tg_ext ty gp os (set_fg nok (need_init a) il v) (set_fg true (need_init a) il v)); [reflexivity|].
  intros g. unfold set_fg. destruct il as [[c|? ?]|]; [|destruct H|reflexivity].
  destruct (need_init a); [|reflexivity]. now rewrite upsert_init_nok_irrelevant.
Qed.

(* ---- import states: what hwloc__xml_import_memattr* builds before the final refresh ---- *)

Definition attr_imp (t : topo) (a : imattr) : Prop := attr_ok t a /\ (a_valid a = true -> a_tgs a = []).

Record ImpInv (s : mstate) : Prop := {
  ii_conv : conv_layout (m_attrs s);
  ii_len : 2 <= lenN (m_attrs s);
  ii_attrs : Forall (attr_imp (m_topo s)) (m_attrs s)
}.

Lemma ImpInv_put s id a a' :
  ImpInv s -> get_attr s id = Some a -> attr_imp (m_topo s) a' -> a_conv a' = a_conv a -> ImpInv (put_attr s id a').
Proof.
  intros [C L A] G K E. unfold get_attr in G. constructor; cbn [put_attr m_topo m_attrs].
  - intros j b Hb. destruct (N.eq_dec id j) as [<-|Hj].
    + rewrite (nth_set_same _ _ _ _ G) in Hb. injection Hb as <-. rewrite E. now apply C.
    + rewrite nth_set_other in Hb by assumption. now apply C.
  - unfold lenN in *. now rewrite set_nthN_length.
  - apply Forall_forall. intros b Hb. apply In_set_nthN in Hb. destruct Hb as [->|Hb]; [assumption|].
    rewrite Forall_forall in A. auto.
Qed.

Lemma set_core_imp nok s id ty gp il v :
  ImpInv s -> gp <> MEMATTR_GP_NONE ->
  ImpInv (fst (set_core false nok s id ty gp MEMATTR_OS_NONE il v)) /\
  m_topo (fst (set_core false nok s id ty gp MEMATTR_OS_NONE il v)) = m_topo s.
Proof.
  intros I Hgp. destruct (get_attr s id) as [a|] eqn:G; [|unfold set_core; rewrite G; auto].
  destruct (need_init a && match il with None => true | Some _ => false end) eqn:N; [unfold set_core; rewrite G, N; auto|].
  destruct (a_conv a) eqn:C; [unfold set_core; rewrite G, N, C; auto|].
  rewrite (set_core_gen false nok s id ty gp MEMATTR_OS_NONE il v a G N C). cbn [andb]. cbn zeta. cbn [fst].
  split; [|reflexivity].
  set (f := set_fg nok (need_init a) il v).
  set (r := upsert_tg ty gp MEMATTR_OS_NONE f (a_tgs a)).
  assert (Ha : attr_imp (m_topo s) a).
  { destruct I as [_ _ A]. rewrite Forall_forall in A. apply A. unfold get_attr in G. now apply nth_errN_In in G. }
  destruct Ha as [[T1 [T2 [T3 T4]]] V].
  assert (KEY : forall g, tkey (f g) = tkey g).
  { intros g. unfold tkey, f. destruct (set_fg_fields nok (need_init a) il v g) as [-> [-> _]]. reflexivity. }
  destruct (upsert_tg_keys ty gp MEMATTR_OS_NONE f (a_tgs a) KEY) as [U1 U2]. fold r in U1, U2.
  assert (CR : a_valid a = true -> snd r = true).
  { intros Hv. unfold r. rewrite (V Hv). reflexivity. }
  apply (ImpInv_put s id a); [assumption|assumption| |reflexivity].
  assert (CI : a_valid a = true -> inval r (a_tgs a) = true) by (intros Hv; unfold inval; now rewrite (CR Hv)).
  split.
  - unfold attr_ok. replace (need_init (Imattr (a_name a) (a_flags a) (a_conv a) (if inval r (a_tgs a) then false else a_valid a) (fst r))) with (need_init a) by reflexivity.
    cbn [a_tgs a_valid a_conv]. split; [|split; [|split]].
    + apply upsert_tg_Forall; [assumption| |].
      * intros g Hg. now apply set_fg_tg_ok.
      * apply set_fg_tg_ok. split; [exact Hgp|]. split; [now left|reflexivity].
    + rewrite U1. destruct (snd r) eqn:Er; [|now rewrite app_nil_r].
      apply NoDup_app_end. split; [assumption|].
      intros Hin. apply in_map_iff in Hin. destruct Hin as [x [Ex Hx]].
      specialize (U2 eq_refl x Hx). rewrite (tkey_match ty gp MEMATTR_OS_NONE x Hgp Ex) in U2. discriminate.
    + destruct (inval r (a_tgs a)) eqn:Ei; [intros Hv; discriminate Hv|]. intros Hv. specialize (CI Hv). congruence.
    + rewrite C. intros Hc. discriminate Hc.
  - cbn [a_valid a_tgs]. destruct (inval r (a_tgs a)) eqn:Ei; [intros Hv; discriminate Hv|]. intros Hv. specialize (CI Hv). congruence.
Qed.

Lemma register_imp s name flags :
  ImpInv s -> ImpInv (fst (register s name flags)) /\ m_topo (fst (register s name flags)) = m_topo s.
Proof.
  intros I. pose proof (register_rules s name flags) as [R1 [R2 R3]]. cbn zeta in *.
  destruct (reg_flags_ok flags) eqn:F.
  2:{ destruct (R1 eq_refl) as [_ ->]. auto. }
  destruct (name_used (m_attrs s) name) eqn:U.
  { destruct (R2 eq_refl eq_refl) as [_ ->]. auto. }
  destruct (R3 eq_refl eq_refl) as [_ [T [At _]]]. split; [|exact T].
  destruct I as [C L A]. constructor; rewrite ?T, ?At.
  - intros id a Ha. destruct (N.lt_ge_cases id (lenN (m_attrs s))) as [Hl|Hl].
    + rewrite nth_errN_app_l in Ha by assumption. now apply C.
    + destruct (N.eq_dec id (lenN (m_attrs s))) as [->|Hne].
      * rewrite nth_errN_app_len in Ha. cbn [nth_errN N.eqb] in Ha. injection Ha as <-. cbn [a_conv].
        symmetry. apply N.ltb_ge. assumption.
      * exfalso. assert (X : nth_errN (m_attrs s ++ [Imattr name flags false true []]) id = None).
        { apply nth_errN_none. unfold lenN in *. rewrite app_length. cbn [length]. lia. }
        congruence.
  - unfold lenN in *. rewrite app_length. lia.
  - apply Forall_app. split; [assumption|]. constructor; [|constructor].
    split; [unfold attr_ok; cbn [a_tgs]; repeat split; constructor|reflexivity].
Qed.

Definition imp_ok (s : mstate) (t : topo) : Prop := ImpInv s /\ m_topo s = t.

Lemma xml_import_values_imp s t id need g :
  imp_ok s t -> g_gp g <> MEMATTR_GP_NONE -> imp_ok (xml_import_values s id need g) t.
Proof.
  intros [I T] Hg. unfold xml_import_values. destruct need.
  - assert (X : forall l s0, imp_ok s0 t ->
       imp_ok (fold_left (fun s i => fst (set_core false false s id (g_type g) (g_gp g) MEMATTR_OS_NONE (Some (i_loc i)) (i_val i))) l s0) t).
    { induction l as [|i l IH]; intros s0 [I0 T0]; [split; assumption|]. cbn [fold_left]. apply IH.
      destruct (set_core_imp false s0 id (g_type g) (g_gp g) (Some (i_loc i)) (i_val i) I0 Hg) as [A B].
      split; [assumption|congruence]. }
    apply X. split; assumption.
  - destruct (set_core_imp false s id (g_type g) (g_gp g) None (g_val g) I Hg) as [A B]. split; [assumption|congruence].
Qed.

Lemma xml_import_attr_imp predef s t e :
  imp_ok s t -> Forall (fun g => g_gp g <> MEMATTR_GP_NONE) (a_tgs (snd e)) -> imp_ok (xml_import_attr predef s e) t.
Proof.
  intros H Hg. unfold xml_import_attr. destruct e as [id a]. cbn [snd] in Hg.
  destruct (a_conv a); [assumption|].
  destruct (predef && (id <? HWLOC_MEMATTR_ID_MAX) && _); [assumption|].
  assert (X : forall s1 i, imp_ok s1 t ->
     imp_ok (fold_left (fun s g => xml_import_values s i (need_init a) g) (a_tgs a) s1) t).
  { intros s1 i. revert s1. induction Hg as [|g l Hgg Hl IH]; intros s1 H1; [assumption|].
    cbn [fold_left]. apply IH. now apply xml_import_values_imp. }
  cbn zeta. destruct (get_by_name s (xml_safe_name (a_name a))) as [i|e0].
  - destruct (get_flags s i) as [f|]; [destruct (f =? a_flags a)|]; try assumption. now apply X.
  - destruct H as [I T]. destruct (register_imp s (xml_safe_name (a_name a)) (a_flags a) I) as [I' T'].
    destruct (register s (xml_safe_name (a_name a)) (a_flags a)) as [s' [i|e1]]; cbn [fst] in *.
    + apply X. split; [assumption|congruence].
    + split; [assumption|congruence].
Qed.

Lemma conv_layout_of_bools l :
  map a_conv l = [true; true; false; false; false; false; false; false] -> conv_layout l.
Proof.
  intros E id a Ha. assert (X : nth_errN (map a_conv l) id = Some (a_conv a)) by (rewrite nth_errN_map, Ha; reflexivity).
  rewrite E in X. cbn [nth_errN] in X.
  destruct (N.eqb_spec id 0) as [E0|H0]; [injection X as <-; subst id; reflexivity|].
  destruct (N.eqb_spec (N.pred id) 0) as [E1|H1]; [injection X as <-; replace id with 1 by lia; reflexivity|].
  assert (G2 : (id <? 2) = false) by (apply N.ltb_ge; lia). rewrite G2.
  repeat (match type of X with context [N.eqb ?x 0] => destruct (N.eqb_spec x 0) end; [injection X as <-; reflexivity|]).
  discriminate X.
Qed.

Lemma refresh_tg_allok_shape t need g g' :
  (need = false -> g_inits g = []) -> refresh_tg t need g = Some g' -> tg_allok g'.
Proof.
  intros Sh R. destruct need; [|apply (refresh_tg_allok t false g g'); [unfold tg_allok; rewrite (Sh eq_refl); constructor|exact R]].
  unfold refresh_tg in R. destruct (lookup_target t g); [|discriminate].
  destruct (filter_map (refresh_imi t) (g_inits g)) as [|i0 is] eqn:F; [discriminate|].
  injection R as <-. unfold tg_allok. cbn [g_inits]. rewrite <- F.
  apply Forall_forall. intros x Hx. apply in_filter_map in Hx. destruct Hx as [y [_ Hy]].
  apply refresh_imi_out in Hy. tauto.
Qed.

(* the state after export + import + end of load *)
Lemma xml_switch_Inv s t' : Inv s -> wf_topo t' -> Inv (xml_switch s t') /\ AllOk (xml_switch s t').
Proof.
  intros I W. unfold xml_switch, xml_switch_from.
  set (s1 := fold_left (xml_import_attr true) (number_from 0 (refresh_all (m_topo s) (m_attrs s))) (MS t' init_attrs)).
  assert (H1 : imp_ok s1 t').
  { unfold s1.
    assert (X : forall l s0, Forall (fun e : N * imattr => Forall (fun g => g_gp g <> MEMATTR_GP_NONE) (a_tgs (snd e))) l ->
               imp_ok s0 t' -> imp_ok (fold_left (xml_import_attr true) l s0) t').
    { induction l as [|e l IH]; intros s0 Hl H0; [assumption|]. inversion Hl; subst. cbn [fold_left]. apply IH; [assumption|].
      now apply xml_import_attr_imp. }
    apply X.
    - pose proof (number_from_snd 0 (refresh_all (m_topo s) (m_attrs s))) as F. rewrite Forall_forall in *. intros e He. specialize (F e He).
      unfold refresh_all in F. apply in_map_iff in F. destruct F as [a [Ea Ha]].
      pose proof (inv_attrs s I) as A. rewrite Forall_forall in A.
      destruct (cur_ok _ _ (A a Ha)) as [[T _] _]. rewrite Ea in T. rewrite Forall_forall in *. intros g Hg. apply (T g Hg).
    - split; [|reflexivity]. constructor; cbn [m_attrs m_topo].
      + apply conv_layout_of_bools. reflexivity.
      + vm_compute. discriminate.
      + apply Forall_forall. intros a Ha. unfold init_attrs in Ha. apply in_map_iff in Ha.
        destruct Ha as [[[n f] i] [<- _]]. split; [unfold attr_ok; cbn [a_tgs]; repeat split; constructor|reflexivity]. }
  destruct H1 as [[C L A] T]. rewrite T in A.
  assert (AOK : forall a, In a (m_attrs s1) -> attr_ok t' (if a_conv a then a else Imattr (a_name a) (a_flags a) (a_conv a) false (a_tgs a))).
  { intros a Ha. rewrite Forall_forall in A. destruct (A a Ha) as [[T1 [T2 [T3 T4]]] V].
    destruct (a_conv a) eqn:Ec; [exact (conj T1 (conj T2 (conj T3 (fun _ => T4 eq_refl))))|].
    unfold attr_ok, need_init. cbn [a_tgs a_flags a_valid a_conv].
    split; [exact T1|]. split; [exact T2|]. split; [intros Hv; discriminate Hv|intros Hc; discriminate Hc]. }
  split.
  - constructor; cbn [m_topo m_attrs].
    + exact W.
    + intros id b Hb. unfold refresh_all in Hb. rewrite nth_errN_map, need_refresh_nth in Hb.
      destruct (nth_errN (m_attrs s1) id) as [a|] eqn:E; [|discriminate]. cbn [option_map] in Hb. injection Hb as <-.
      rewrite cur_conv. rewrite <- (C id a E). destruct (a_conv a) eqn:Ec; [exact Ec|reflexivity].
    + unfold lenN, refresh_all, need_refresh in *. now rewrite !map_length.
    + unfold refresh_all, need_refresh. rewrite map_map. apply Forall_forall. intros b Hb.
      apply in_map_iff in Hb. destruct Hb as [a [<- Ha]]. apply cur_ok. now apply AOK.
  - unfold AllOk. cbn [m_attrs]. unfold refresh_all, need_refresh. rewrite map_map. apply Forall_forall. intros b Hb.
    apply in_map_iff in Hb. destruct Hb as [a [<- Ha]].
    rewrite Forall_forall in A. destruct (A a Ha) as [[T1 [T2 [T3 T4]]] V].
    destruct (a_conv a) eqn:Ec.
    + assert (E0 : a_tgs a = []) by (apply T4; reflexivity).
      unfold cur. unfold attr_allok. destruct (a_valid a); [rewrite E0; constructor|].
      unfold refresh_attr. cbn [a_tgs]. rewrite E0. constructor.
    + unfold cur. cbn [a_valid]. unfold attr_allok, refresh_attr. cbn [a_tgs]. apply Forall_forall. intros g' Hg'.
      apply in_filter_map in Hg'. destruct Hg' as [g [Hg R]]. rewrite Forall_forall in T1.
      destruct (T1 g Hg) as [_ [_ Sh]]. unfold need_init in R. cbn [a_flags] in R. exact (refresh_tg_allok_shape _ _ _ _ Sh R).
Qed.

(* ---- histories including the internal entry point and XML ---- *)

Definition op_ok_x (s : mstate) (o : op) : Prop :=
  match o with
  | OISet _ ty gp os il _ =>
      (exists tgt, In tgt (t_objs (m_topo s)) /\ ty = o_type tgt /\ gp = o_gp tgt /\ os = o_os tgt) /\
      il_not_obj il /\ il_stable (m_topo s) il
  | OXml t' => wf_topo t'
  | _ => op_ok s o
  end.

Fixpoint hist_ok_x (s : mstate) (ops : list op) : Prop :=
  match ops with
  | [] => True
  | o :: r => op_ok_x s o /\ hist_ok_x (fst (step s o)) r
  end.

Lemma step_InvX s o : Inv s /\ AllOk s -> op_ok_x s o -> Inv (fst (step s o)) /\ AllOk (fst (step s o)).
Proof.
  intros [I A] K. destruct o; try (split; [now apply step_Inv|now apply step_AllOk]).
  - (* OISet *) cbn [op_ok_x] in K. destruct K as [[tgt [Ht [-> [-> ->]]]] [Hno Hst]]. cbn [step].
    destruct ((id =? HWLOC_MEMATTR_ID_CAPACITY) || (id =? HWLOC_MEMATTR_ID_LOCALITY)); [cbn [fst]; auto|].
    rewrite fst_let, (set_core_nok_irrelevant true false s id _ _ _ il v Hno).
    split; [|now apply set_core_allok].
    unfold set_core. destruct (get_attr s id) as [a|] eqn:G; [|exact I].
    destruct (need_init a && match il with None => true | Some _ => false end) eqn:N; [exact I|].
    destruct (a_conv a) eqn:C; [exact I|].
    assert (SA : set_args_ok s id tgt il) by (split; [assumption|]; split; [assumption|]; exists a; auto).
    pose proof (set_core_props s id tgt il v I SA) as [_ [I' _]].
    unfold set_core in I'. rewrite G, N, C in I'. exact I'.
  - (* OXml *) cbn [op_ok_x] in K. cbn [step fst]. now apply xml_switch_Inv.
Qed.

Lemma run_InvX s ops : Inv s /\ AllOk s -> hist_ok_x s ops -> Inv (run s ops) /\ AllOk (run s ops).
Proof.
  revert s. induction ops as [|o r IH]; intros s I H; [exact I|].
  cbn [hist_ok_x] in H. destruct H as [H1 H2]. unfold run. cbn [fold_left]. apply IH; [now apply step_InvX|assumption].
Qed.
