(* C14 - generic lemmas used by MemattrsProofs.v: N-indexed list access,
   filter_map, find, and a few BSet facts not in Base/BSet.v. *)
From Coq Require Import List NArith Bool Lia.
From HV Require Import Base.BSet Gen.Tables Attr.Memattrs.
Import ListNotations.
Local Open Scope N_scope.

(* ---------- BSet ---------- *)

Lemma bs_subset_refl a : bs_subset a a = true.
Proof. apply bs_subset_spec. auto. Qed.

Lemma bs_subset_trans a b c : bs_subset a b = true -> bs_subset b c = true -> bs_subset a c = true.
Proof. rewrite !bs_subset_spec. auto. Qed.

Lemma bs_inter_idem_r c r : bs_inter (bs_inter c r) r = bs_inter c r.
Proof. apply bs_ext. intros i. rewrite !mem_inter. destruct (mem i c), (mem i r); reflexivity. Qed.

Lemma bs_inter_subset_eq c r : bs_subset c r = true -> bs_inter c r = c.
Proof.
  intros H. apply bs_ext. intros i. rewrite mem_inter.
  rewrite bs_subset_spec in H. specialize (H i).
  destruct (mem i c); [rewrite H by reflexivity; reflexivity | reflexivity].
Qed.

Lemma bs_inter_eq_subset c r : bs_inter c r = c -> bs_subset c r = true.
Proof.
  intros H. apply bs_subset_spec. intros i Hi. rewrite <- H in Hi. rewrite mem_inter in Hi.
  apply andb_true_iff in Hi. tauto.
Qed.

Lemma bs_inter_shrink c r r' : bs_subset r' r = true -> bs_inter (bs_inter c r) r' = bs_inter c r'.
Proof.
  intros H. apply bs_ext. intros i. rewrite !mem_inter. rewrite bs_subset_spec in H. specialize (H i).
  destruct (mem i c), (mem i r), (mem i r'); try reflexivity. discriminate (H eq_refl).
Qed.

Lemma bs_nonempty_mem s : bs_is_empty s = false -> exists i, mem i s = true.
Proof.
  intros H. assert (I : bs_intersects s s = true).
  { unfold bs_intersects. replace (bs_inter s s) with s; [now rewrite H|].
    apply bs_ext. intros i. rewrite mem_inter. now destruct (mem i s). }
  apply bs_intersects_spec in I. destruct I as [i [I _]]. eauto.
Qed.

Lemma bs_mem_nonempty s i : mem i s = true -> bs_is_empty s = false.
Proof.
  intros H. destruct (bs_is_empty s) eqn:E; [|reflexivity].
  rewrite bs_is_empty_mem in E. rewrite E in H. discriminate.
Qed.

Lemma bs_inter_empty_shrink c r r' :
  bs_subset r' r = true -> bs_is_empty (bs_inter c r') = false -> bs_is_empty (bs_inter c r) = false.
Proof.
  intros H E. apply bs_nonempty_mem in E. destruct E as [i Hi]. apply bs_mem_nonempty with i.
  rewrite mem_inter in *. apply andb_true_iff in Hi. destruct Hi as [A B].
  rewrite bs_subset_spec in H. rewrite A, (H i B). reflexivity.
Qed.

Definition bs_disjoint (a b : bset) : Prop := forall i, mem i a = true -> mem i b = true -> False.

Lemma bs_eqb_refl a : bs_eqb a a = true.
Proof. now apply bs_eqb_spec. Qed.

(* ---------- N-indexed lists ---------- *)

Lemma nth_errN_app_l {A} (l r : list A) i : i < lenN l -> nth_errN (l ++ r) i = nth_errN l i.
Proof.
  unfold lenN. revert i. induction l as [|x l IH]; intros i H; cbn [length] in H; [lia|].
  cbn [app nth_errN]. destruct (N.eqb_spec i 0); [reflexivity|]. apply IH. lia.
Qed.

Lemma nth_errN_app_len {A} (l r : list A) : nth_errN (l ++ r) (lenN l) = nth_errN r 0.
Proof.
  unfold lenN. induction l as [|x l IH]; [reflexivity|].
  cbn [app nth_errN length]. destruct (N.eqb_spec (N.of_nat (S (length l))) 0); [lia|].
  replace (N.pred (N.of_nat (S (length l)))) with (N.of_nat (length l)) by lia. exact IH.
Qed.

Lemma nth_errN_In {A} (l : list A) i x : nth_errN l i = Some x -> In x l.
Proof.
  revert i. induction l as [|y l IH]; intros i H; cbn [nth_errN] in H; [discriminate|].
  destruct (i =? 0); [injection H as ->; now left | right; eauto].
Qed.

Lemma nth_errN_lt {A} (l : list A) i x : nth_errN l i = Some x -> i < lenN l.
Proof.
  unfold lenN. revert i. induction l as [|y l IH]; intros i H; cbn [nth_errN] in H; [discriminate|].
  cbn [length]. destruct (N.eqb_spec i 0); [lia|]. apply IH in H. lia.
Qed.

Lemma nth_errN_none {A} (l : list A) i : lenN l <= i -> nth_errN l i = None.
Proof.
  unfold lenN. revert i. induction l as [|y l IH]; intros i H; [reflexivity|].
  cbn [length] in H. cbn [nth_errN]. destruct (N.eqb_spec i 0); [lia|]. apply IH. lia.
Qed.

Lemma In_nth_errN {A} (l : list A) x : In x l -> exists i, nth_errN l i = Some x.
Proof.
  induction l as [|y l IH]; intros H; [destruct H|].
  destruct H as [->|H]; [exists 0; reflexivity|].
  destruct (IH H) as [i Hi]. exists (N.succ i). cbn [nth_errN].
  destruct (N.eqb_spec (N.succ i) 0); [lia|]. now rewrite N.pred_succ.
Qed.

Lemma nth_set_same {A} (l : list A) i x y : nth_errN l i = Some y -> nth_errN (set_nthN i x l) i = Some x.
Proof.
  revert i. induction l as [|z l IH]; intros i H; cbn [nth_errN] in H; [discriminate|].
  cbn [set_nthN]. destruct (N.eqb_spec i 0) as [E|Hi]; [subst i; reflexivity|].
  cbn [nth_errN]. destruct (N.eqb_spec i 0); [contradiction|]. eauto.
Qed.

Lemma nth_set_other {A} (l : list A) i j x : i <> j -> nth_errN (set_nthN i x l) j = nth_errN l j.
Proof.
  revert i j. induction l as [|z l IH]; intros i j H; [reflexivity|].
  cbn [set_nthN]. destruct (N.eqb_spec i 0) as [E|Hi]; cbn [nth_errN].
  - subst i. destruct (N.eqb_spec j 0); [congruence|reflexivity].
  - destruct (N.eqb_spec j 0); [reflexivity|]. apply IH. lia.
Qed.

Lemma set_nthN_id {A} (l : list A) i x : nth_errN l i = Some x -> set_nthN i x l = l.
Proof.
  revert i. induction l as [|z l IH]; intros i H; [reflexivity|].
  cbn [nth_errN] in H. cbn [set_nthN]. destruct (i =? 0); [now injection H as ->|].
  f_equal. eauto.
Qed.

Lemma set_nthN_length {A} (l : list A) i x : length (set_nthN i x l) = length l.
Proof.
  revert i. induction l as [|z l IH]; intros i; [reflexivity|].
  cbn [set_nthN]. destruct (i =? 0); cbn [length]; [reflexivity|]. now rewrite IH.
Qed.

Lemma In_set_nthN {A} (l : list A) i x y : In y (set_nthN i x l) -> y = x \/ In y l.
Proof.
  revert i. induction l as [|z l IH]; intros i H; [destruct H|].
  cbn [set_nthN] in H. destruct (i =? 0).
  - destruct H as [<-|H]; [now left | right; now right].
  - destruct H as [<-|H]; [right; now left|]. apply IH in H. destruct H; [now left | right; now right].
Qed.

Lemma map_set_nthN {A B} (f : A -> B) (l : list A) i x : map f (set_nthN i x l) = set_nthN i (f x) (map f l).
Proof.
  revert i. induction l as [|z l IH]; intros i; [reflexivity|].
  cbn [set_nthN map]. destruct (i =? 0); cbn [map]; [reflexivity|]. now rewrite IH.
Qed.

Lemma nth_errN_map {A B} (f : A -> B) (l : list A) i : nth_errN (map f l) i = option_map f (nth_errN l i).
Proof.
  revert i. induction l as [|z l IH]; intros i; [reflexivity|].
  cbn [map nth_errN]. destruct (i =? 0); [reflexivity|]. apply IH.
Qed.

Lemma firstnN_all {A} (l : list A) n : lenN l <= n -> firstnN n l = l.
Proof.
  unfold lenN. revert n. induction l as [|x l IH]; intros n H; [reflexivity|].
  cbn [length] in H. cbn [firstnN]. destruct (N.eqb_spec n 0); [lia|]. f_equal. apply IH. lia.
Qed.

Lemma firstnN_firstn {A} (l : list A) n : firstnN n l = firstn (N.to_nat n) l.
Proof.
  revert n. induction l as [|x l IH]; intros n; [now destruct (N.to_nat n)|].
  cbn [firstnN]. destruct (N.eqb_spec n 0) as [E|Hn]; [now rewrite E|].
  replace (N.to_nat n) with (S (N.to_nat (N.pred n))) by lia. cbn [firstn]. now rewrite IH.
Qed.

Lemma firstnN_length {A} (l : list A) n : lenN (firstnN n l) = N.min n (lenN l).
Proof.
  unfold lenN. rewrite firstnN_firstn, firstn_length. lia.
Qed.

Lemma firstnN_prefix {A} (l : list A) n : exists r, l = firstnN n l ++ r.
Proof. exists (skipn (N.to_nat n) l). rewrite firstnN_firstn. symmetry. apply firstn_skipn. Qed.

Lemma firstnN_0 {A} (l : list A) : firstnN 0 l = [].
Proof. now destruct l. Qed.

(* ---------- filter_map / find ---------- *)

Lemma in_filter_map {A B} (f : A -> option B) l y :
  In y (filter_map f l) <-> exists x, In x l /\ f x = Some y.
Proof.
  induction l as [|x l IH]; cbn [filter_map].
  - split; [intros []|intros [x [[] _]]].
  - destruct (f x) eqn:E.
    + split.
      * intros [<-|H]; [exists x; split; [now left|assumption]|].
        apply IH in H. destruct H as [x' [H1 H2]]. exists x'. split; [now right|assumption].
      * intros [x' [[->|H1] H2]]; [left; congruence|]. right. apply IH. eauto.
    + split.
      * intros H. apply IH in H. destruct H as [x' [H1 H2]]. exists x'. split; [now right|assumption].
      * intros [x' [[->|H1] H2]]; [congruence|]. apply IH. eauto.
Qed.

Lemma filter_map_app {A B} (f : A -> option B) l r : filter_map f (l ++ r) = filter_map f l ++ filter_map f r.
Proof.
  induction l as [|x l IH]; [reflexivity|]. cbn [app filter_map]. destruct (f x); [cbn [app]|]; now rewrite IH.
Qed.

Lemma filter_map_all {A B} (f : A -> option B) (g : A -> B) l :
  (forall x, In x l -> f x = Some (g x)) -> filter_map f l = map g l.
Proof.
  induction l as [|x l IH]; intros H; [reflexivity|].
  cbn [filter_map map]. rewrite (H x (or_introl eq_refl)). f_equal. apply IH. intros y Hy. apply H. now right.
Qed.

Lemma filter_map_ext {A B} (f g : A -> option B) l :
  (forall x, In x l -> f x = g x) -> filter_map f l = filter_map g l.
Proof.
  induction l as [|x l IH]; intros H; [reflexivity|].
  cbn [filter_map]. rewrite (H x (or_introl eq_refl)). rewrite IH; [reflexivity|]. intros y Hy. apply H. now right.
Qed.

Lemma filter_map_map {A B C} (f : B -> option C) (g : A -> B) l :
  filter_map f (map g l) = filter_map (fun x => f (g x)) l.
Proof. induction l as [|x l IH]; [reflexivity|]. cbn [map filter_map]. now rewrite IH. Qed.

Lemma filter_map_filter_map {A B C} (f : A -> option B) (g : B -> option C) l :
  filter_map g (filter_map f l) = filter_map (fun x => match f x with Some y => g y | None => None end) l.
Proof.
  induction l as [|x l IH]; [reflexivity|]. cbn [filter_map]. destruct (f x); cbn [filter_map]; now rewrite IH.
Qed.

Lemma find_ext {A} (p q : A -> bool) l : (forall x, In x l -> p x = q x) -> find p l = find q l.
Proof.
  induction l as [|x l IH]; intros H; [reflexivity|].
  cbn [find]. rewrite (H x (or_introl eq_refl)). destruct (q x); [reflexivity|]. apply IH. intros y Hy. apply H. now right.
Qed.

Lemma find_map {A B} (p : B -> bool) (f : A -> B) l : find p (map f l) = option_map f (find (fun x => p (f x)) l).
Proof. induction l as [|x l IH]; [reflexivity|]. cbn [map find]. destruct (p (f x)); [reflexivity|exact IH]. Qed.

Lemma find_none_iff {A} (p : A -> bool) l : find p l = None <-> forall x, In x l -> p x = false.
Proof.
  split; [apply find_none|]. induction l as [|x l IH]; intros H; [reflexivity|].
  cbn [find]. rewrite (H x (or_introl eq_refl)). apply IH. intros y Hy. apply H. now right.
Qed.

Lemma bytes_eqb_eq a b : bytes_eqb a b = true <-> a = b.
Proof.
  revert b. induction a as [|x a IH]; intros [|y b]; cbn [bytes_eqb]; split; try congruence; try discriminate.
  - intros H. apply andb_true_iff in H. destruct H as [H1 H2]. apply N.eqb_eq in H1. apply IH in H2. congruence.
  - intros H. injection H as -> ->. rewrite N.eqb_refl. now apply IH.
Qed.

Lemma NoDup_app_end {A} (l : list A) x : NoDup l /\ ~ In x l -> NoDup (l ++ [x]).
Proof.
  intros [N H]. induction N as [|y l Hy N IH]; cbn [app].
  - constructor; [intros []|constructor].
  - constructor.
    + rewrite in_app_iff. intros [K|[K|[]]]; [auto|]. subst. apply H. now left.
    + apply IH. intros K. apply H. now right.
Qed.
