(* C15 - executable model of hwloc/cpukinds.c (statement order of the C code).

   A kind is the C struct hwloc_internal_cpukind_s with the cpuset abstracted
   to a BSet (the bitmap layer is C03's business) and strings as byte lists
   (contents without the terminating NUL).

   The array topology->cpukinds[0 .. nr_cpukinds_allocated) is modelled as
   two lists: [kinds] = slots [0, nr_cpukinds) and [tail] = the allocated
   slots [nr_cpukinds, nr_cpukinds_allocated) *with whatever bytes the C code
   left there*: realloc'ed slots and slots vacated by
   hwloc_internal_cpukinds_restrict are memset to 0 ([zero_slot]).
   hwloc_internal_cpukinds_register writes a new kind into slot [newnr] and
   *adds* to the infos it finds there; if that slot held an infos array
   pointer (array != NULL: it would alias a live kind's array or dangle) the C
   behaviour would be a memory error, which the model reports as [F_STALE].
   Properties_C15.history_safe proves that no history reaches it (before
   fix c027890 restrict left a copy of the last kind in the vacated slot and
   F_STALE was reachable: corpus/c15/stale_after_*.case). *)
From Coq Require Import String.
From Coq Require Import List NArith ZArith Bool.
From HV Require Import Base.BSet Gen.Tables.
From HV Require Base.Bytes Base.Strto.
Import ListNotations.
Local Open Scope Z_scope.

(* ---------- strings and infos ---------- *)
Definition str := list N.
Definition info := (str * str)%type.
Definition lit (s : String.string) : str := Bytes.bytes_of_string s.

Fixpoint str_eqb (a b : str) : bool :=
  match a, b with
  | [], [] => true
  | x :: a', y :: b' => (x =? y)%N && str_eqb a' b'
  | _, _ => false
  end.
(* !strcmp(name1,name2) && !strcmp(value1,value2) *)
Definition info_eqb (a b : info) : bool := str_eqb (fst a) (fst b) && str_eqb (snd a) (snd b).

(* ---------- kinds, the array, outcomes ---------- *)
(* [k_arr] = (infos.array != NULL): hwloc__add_info allocates the array on the
   first addition; hwloc__tma_dup_infos always allocates one (calloc of
   [allocated] elements, a unique non-NULL pointer on glibc even for 0). *)
Record kind := K { k_cpuset : bset; k_eff : Z; k_forced : Z; k_rank : Z; k_infos : list info; k_arr : bool }.
Definition zero_slot : kind := K bs_empty 0 0 0 [] false.
Definition set_cpuset (k : kind) (s : bset) := K s (k_eff k) (k_forced k) (k_rank k) (k_infos k) (k_arr k).
Definition set_eff (k : kind) (e : Z) := K (k_cpuset k) e (k_forced k) (k_rank k) (k_infos k) (k_arr k).
Definition set_forced (k : kind) (f : Z) := K (k_cpuset k) (k_eff k) f (k_rank k) (k_infos k) (k_arr k).
Definition set_rank (k : kind) (r : Z) := K (k_cpuset k) (k_eff k) (k_forced k) r (k_infos k) (k_arr k).
(* infos after hwloc__cpukind_add_infos: the array exists as soon as one pair was added *)
Definition set_infos (k : kind) (l : list info) :=
  K (k_cpuset k) (k_eff k) (k_forced k) (k_rank k) l (k_arr k || (length (k_infos k) <? length l)%nat).

Record state := St { kinds : list kind; tail : list kind }.
Definition init_state : state := St [] [].
Definition nr_cpukinds (st : state) : nat := length (kinds st).
Definition nr_allocated (st : state) : nat := (length (kinds st) + length (tail st))%nat.

Inductive fatal := F_OOB | F_STALE | F_UB.
Inductive retcode := RC_OK | RC_EINVAL | RC_EPERM.
Inductive outcome := Fine (st : state) (rc : retcode) | Fatal (f : fatal).
Inductive ireg := IOk (st : state) | IEinval | IFatal (f : fatal).

Definition UNKNOWN : Z := HWLOC_CPUKIND_EFFICIENCY_UNKNOWN.
Definition OVERWRITE : N := HWLOC_CPUKINDS_REGISTER_FLAG_OVERWRITE_FORCED_EFFICIENCY.

(* ---------- hwloc_bitmap_compare_inclusion, abstractly ---------- *)
Inductive inclusion := B_EQUAL | B_INCLUDED | B_CONTAINS | B_INTERSECTS | B_DIFFERENT.
Definition compare_inclusion (a b : bset) : inclusion :=
  if bs_eqb a b then B_EQUAL
  else if bs_subset a b then B_INCLUDED
  else if bs_subset b a then B_CONTAINS
  else if bs_intersects a b then B_INTERSECTS
  else B_DIFFERENT.

(* ---------- hwloc__cpukind_add_infos ---------- *)
Definition has_info (l : list info) (i : info) : bool := existsb (info_eqb i) l.
Definition add_infos (dst src : list info) : list info :=
  fold_left (fun d i => if has_info d i then d else d ++ [i]) src dst.
Definition add_infos_opt (dst : list info) (src : option (list info)) : list info :=
  match src with Some l => add_infos dst l | None => dst end.

(* ---------- hwloc_internal_cpukinds_register ---------- *)
(* lines 158-177: capacity computation and realloc+memset *)
Definition wanted_capacity (n : N) : option N :=
  let max := (2 * n + 1)%N in
  let bits := (N.size (max - 1) + 1)%N in            (* hwloc_flsl(max-1) + 1 *)
  if (CPUKIND_SIZEOF_UNSIGNED_BITS <=? bits)%N then None  (* 1U<<bits undefined *)
  else let m := (2 ^ bits)%N in Some (if (m <? 8)%N then 8%N else m).

Definition grow (st : state) : option state :=
  match wanted_capacity (N.of_nat (length (kinds st))) with
  | None => None
  | Some max =>
    let alloc := N.of_nat (nr_allocated st) in
    if (alloc <? max)%N
    then Some (St (kinds st) (tail st ++ repeat zero_slot (N.to_nat (max - alloc))))
    else Some st
  end.

Inductive loopres :=
| LOk (olds news : list kind) (cs : bset) (tl : list kind)
| LFatal (f : fatal).

(* one iteration of the for loop of lines 180-213 on kinds[i] = k: the
   updated kinds[i], the kinds appended at kinds[newnr] (none or one), the
   shrunk cpuset and the slots from the new newnr on *)
Inductive stepres :=
| SOk (k' : kind) (news : list kind) (cs' : bset) (tl' : list kind)
| SFatal (f : fatal).

Definition reg_step (flags : N) (forced : Z) (infos : option (list info))
           (k : kind) (cs : bset) (tl : list kind) : stepres :=
  match compare_inclusion cs (k_cpuset k) with
  | B_INTERSECTS | B_INCLUDED =>
    match tl with
    | [] => SFatal F_OOB
    | slot :: tl' =>
      if k_arr slot then SFatal F_STALE
      else
        let nc := bs_inter cs (k_cpuset k) in
        let nk := set_infos (K nc UNKNOWN forced (k_rank slot) (k_infos slot) false)
                    (add_infos_opt (add_infos (k_infos slot) (k_infos k)) infos) in
        SOk (set_cpuset k (bs_diff (k_cpuset k) nc)) [nk] (bs_diff cs nc) tl'
    end
  | B_CONTAINS | B_EQUAL =>
    let k1 := set_infos k (add_infos_opt (k_infos k) infos) in
    let k' := if negb (N.land flags OVERWRITE =? 0)%N || (k_forced k =? UNKNOWN)
              then set_forced k1 forced else k1 in
    SOk k' [] (bs_diff cs (k_cpuset k)) tl
  | B_DIFFERENT => SOk k [] cs tl
  end.

(* the loop over kinds[i..oldnr) with its "break when the cpuset got empty"
   (lines 214-216); [tl] are the slots from index newnr on *)
Fixpoint reg_loop (flags : N) (forced : Z) (infos : option (list info))
         (olds : list kind) (cs : bset) (tl : list kind) : loopres :=
  match olds with
  | [] => LOk [] [] cs tl
  | k :: rest =>
    match reg_step flags forced infos k cs tl with
    | SFatal f => LFatal f
    | SOk k' n cs' tl' =>
      if bs_is_empty cs' then LOk (k' :: rest) n cs' tl'
      else match reg_loop flags forced infos rest cs' tl' with
           | LOk r n2 c t => LOk (k' :: r) (n ++ n2) c t
           | LFatal f => LFatal f
           end
    end
  end.

Definition internal_register (st : state) (cs : bset) (forced : Z)
           (infos : option (list info)) (flags : N) : ireg :=
  if bs_is_empty cs then IEinval
  else if negb (N.ldiff flags OVERWRITE =? 0)%N then IEinval
  else match grow st with
  | None => IFatal F_UB
  | Some st1 =>
    match reg_loop flags forced infos (kinds st1) cs (tail st1) with
    | LFatal f => IFatal f
    | LOk olds news cs' tl =>
      if bs_is_empty cs' then IOk (St (olds ++ news) tl)
      else match tl with
      | [] => IFatal F_OOB
      | slot :: tl' =>
        if k_arr slot then IFatal F_STALE
        else IOk (St (olds ++ news ++
                      [set_infos (K cs' UNKNOWN forced (k_rank slot) (k_infos slot) false)
                                 (add_infos_opt (k_infos slot) infos)]) tl')
      end
    end
  end.

(* ---------- ranking ---------- *)
Definition u64 (z : Z) : Z := z mod 2 ^ Z.of_N CPUKIND_SIZEOF_RANKING_VALUE_BITS.
Definition u32 (z : Z) : Z := z mod 2 ^ Z.of_N CPUKIND_SIZEOF_UNSIGNED_BITS.

(* exists i<j with equal ranking values *)
Fixpoint dup_ranks (l : list Z) : bool :=
  match l with [] => false | x :: r => existsb (Z.eqb x) r || dup_ranks r end.

(* hwloc__cpukinds_try_rank_by_forced_efficiency: the loop stops at the first
   unknown, leaving the earlier ranking values overwritten *)
Fixpoint try_forced_loop (ks : list kind) : list kind * bool :=
  match ks with
  | [] => ([], true)
  | k :: r =>
    if k_forced k =? UNKNOWN then (k :: r, false)
    else let (r', ok) := try_forced_loop r in (set_rank k (u64 (k_forced k)) :: r', ok)
  end.
Definition try_forced (ks : list kind) : list kind * bool :=
  let (ks', ok) := try_forced_loop ks in
  if ok then (ks', negb (dup_ranks (map k_rank ks'))) else (ks', false).

Record summ := Summ { s_ct : Z; s_max : Z; s_base : Z }.
(* unsigned x = atoi(value) *)
Definition atoi_u (v : str) : Z :=
  match Strto.atoi (v ++ [0%N]) 0 with Bytes.Ok z => u32 z | Bytes.Oob => 0 end.
Definition summarize_one (s : summ) (i : info) : summ :=
  if str_eqb (fst i) (lit "FrequencyMaxMHz"%string) then Summ (s_ct s) (atoi_u (snd i)) (s_base s)
  else if str_eqb (fst i) (lit "FrequencyBaseMHz"%string) then Summ (s_ct s) (s_max s) (atoi_u (snd i))
  else if str_eqb (fst i) (lit "CoreType"%string) then
    (if str_eqb (snd i) (lit "IntelAtom"%string) then Summ 1 (s_max s) (s_base s)
     else if str_eqb (snd i) (lit "IntelCore"%string) then Summ 2 (s_max s) (s_base s)
     else s)
  else s.
Definition summarize (k : kind) : summ := fold_left summarize_one (k_infos k) (Summ 0 0 0).

Inductive info_heur := I_CT_FREQ | I_CT_FREQ_STRICT | I_CT | I_FREQ | I_FREQ_MAX | I_FREQ_BASE.
Inductive heur := H_DEFAULT | H_NO_FORCED | H_FORCED | H_INFO (h : info_heur) | H_NONE.

Definition heur_of_env (env : option str) : heur :=
  match env with
  | None => H_DEFAULT
  | Some e =>
    if str_eqb e (lit "default"%string) then H_DEFAULT
    else if str_eqb e (lit "none"%string) then H_NONE
    else if str_eqb e (lit "coretype+frequency"%string) then H_INFO I_CT_FREQ
    else if str_eqb e (lit "coretype+frequency_strict"%string) then H_INFO I_CT_FREQ_STRICT
    else if str_eqb e (lit "coretype"%string) then H_INFO I_CT
    else if str_eqb e (lit "frequency"%string) then H_INFO I_FREQ
    else if str_eqb e (lit "frequency_max"%string) then H_INFO I_FREQ_MAX
    else if str_eqb e (lit "frequency_base"%string) then H_INFO I_FREQ_BASE
    else if str_eqb e (lit "forced_efficiency"%string) then H_FORCED
    else if str_eqb e (lit "no_forced_efficiency"%string) then H_NO_FORCED
    else H_DEFAULT  (* unrecognized: message on stderr, default kept *)
  end.

(* hwloc__cpukinds_try_rank_by_info: None = returned -1 before touching anything *)
Definition info_rank_values (h : info_heur) (ss : list summ) : option (list Z) :=
  let have_max := forallb (fun s => negb (s_max s =? 0)) ss in
  let have_base := forallb (fun s => negb (s_base s =? 0)) ss in
  let have_ct := forallb (fun s => negb (s_ct s =? 0)) ss in
  let freq s := if have_base then s_base s else s_max s in
  let ctf s := u32 (Z.shiftl (s_ct s) 20 + freq s) in
  match h with
  | I_CT_FREQ_STRICT =>
    if negb have_ct || (negb have_max && negb have_base) then None else Some (map ctf ss)
  | I_CT_FREQ =>
    if negb have_ct && (negb have_max && negb have_base) then None else Some (map ctf ss)
  | I_CT => if negb have_ct then None else Some (map (fun s => u32 (Z.shiftl (s_ct s) 20)) ss)
  | I_FREQ => if negb have_max && negb have_base then None else Some (map freq ss)
  | I_FREQ_MAX => if negb have_max then None else Some (map s_max ss)
  | I_FREQ_BASE => if negb have_base then None else Some (map s_base ss)
  end.

Fixpoint set_ranks (ks : list kind) (rs : list Z) : list kind :=
  match ks, rs with
  | k :: ks', r :: rs' => set_rank k r :: set_ranks ks' rs'
  | _, _ => ks
  end.
Definition try_info (h : info_heur) (ks : list kind) : list kind * bool :=
  match info_rank_values h (map summarize ks) with
  | None => (ks, false)
  | Some rs => let ks' := set_ranks ks rs in (ks', negb (dup_ranks (map k_rank ks')))
  end.

(* qsort by ranking_value (all distinct when called) + efficiency = index *)
Fixpoint insert_kind (x : kind) (l : list kind) : list kind :=
  match l with
  | [] => [x]
  | y :: r => if k_rank x <=? k_rank y then x :: l else y :: insert_kind x r
  end.
Definition sort_kinds (l : list kind) : list kind := fold_right insert_kind [] l.
Fixpoint set_effs (i : Z) (l : list kind) : list kind :=
  match l with [] => [] | k :: r => set_eff k i :: set_effs (i + 1) r end.
Definition finalize (ks : list kind) : list kind := set_effs 0 (sort_kinds ks).
Definition clear_effs (ks : list kind) : list kind := map (fun k => set_eff k UNKNOWN) ks.
Definition finish (r : list kind * bool) : list kind :=
  if snd r then finalize (fst r) else clear_effs (fst r).

(* hwloc_internal_cpukinds_rank *)
Definition rank_kinds (env : option str) (ks : list kind) : list kind :=
  match ks with
  | [] => []
  | [k] => [set_eff k 0]
  | _ =>
    match heur_of_env env with
    | H_DEFAULT =>
      let r1 := try_forced ks in
      if snd r1 then finalize (fst r1) else finish (try_info I_CT_FREQ (fst r1))
    | H_NO_FORCED => finish (try_info I_CT_FREQ ks)
    | H_FORCED => finish (try_forced ks)
    | H_INFO h => finish (try_info h ks)
    | H_NONE => clear_effs ks
    end
  end.
Definition rank_state (env : option str) (st : state) : state := St (rank_kinds env (kinds st)) (tail st).

(* ---------- hwloc_cpukinds_register (public) ---------- *)
Definition pub_register (env : option str) (st : state) (cs : option bset) (forced : Z)
           (infos : option (list info)) (flags : N) : outcome :=
  if negb (flags =? 0)%N then Fine st RC_EINVAL
  else match cs with
  | None => Fine st RC_EINVAL
  | Some s =>
    if bs_is_empty s then Fine st RC_EINVAL
    else
      let f := if forced <? 0 then UNKNOWN else forced in
      match internal_register st s f infos OVERWRITE with
      | IOk st' => Fine (rank_state env st') RC_OK
      | IEinval => Fine st RC_EINVAL
      | IFatal e => Fatal e
      end
  end.

(* ---------- hwloc_internal_cpukinds_restrict ---------- *)
(* returns the surviving kinds and the contents of the vacated slots: each
   removal shifts the rest down (memmove) and clears the vacated last slot
   (memset 0, fix c027890) *)
Fixpoint restrict_loop (topo : bset) (ks : list kind) : list kind * list kind :=
  match ks with
  | [] => ([], [])
  | k :: rest =>
    let k' := set_cpuset k (bs_inter (k_cpuset k) topo) in
    let (live, vacated) := restrict_loop topo rest in
    if bs_is_empty (k_cpuset k') then (live, vacated ++ [zero_slot])
    else (k' :: live, vacated)
  end.
Definition restrict_state (env : option str) (st : state) (topo : bset) : state :=
  let (live, stales) := restrict_loop topo (kinds st) in
  let st' := St live (stales ++ tail st) in
  match stales with [] => st' | _ :: _ => rank_state env st' end.

(* ---------- dup, XML export + import ---------- *)
Definition dup_state (st : state) : state :=
  St (map (fun k => K (k_cpuset k) (k_eff k) (k_forced k) (k_rank k) (k_infos k) true) (kinds st)) [].

Fixpoint xml_import (st : state) (ks : list kind) : fatal + state :=
  match ks with
  | [] => inr st
  | k :: r =>
    match internal_register st (k_cpuset k) (k_forced k) (Some (k_infos k)) OVERWRITE with
    | IOk st' => xml_import st' r
    | IEinval => xml_import st r       (* return value ignored by the importer *)
    | IFatal f => inl f
    end
  end.
Definition xml_reload (env : option str) (st : state) : outcome :=
  match xml_import init_state (kinds st) with
  | inl f => Fatal f
  | inr st' => Fine (rank_state env st') RC_OK
  end.

(* ---------- consulting ---------- *)
Inductive getres (A : Type) := G_OK (a : A) | G_EINVAL | G_ENOENT | G_EXDEV.
Arguments G_OK {A} a. Arguments G_EINVAL {A}. Arguments G_ENOENT {A}. Arguments G_EXDEV {A}.

Definition get_nr (st : state) (flags : N) : getres nat :=
  if negb (flags =? 0)%N then G_EINVAL else G_OK (length (kinds st)).

Definition get_info (st : state) (id : nat) (flags : N) : getres (bset * Z * list info) :=
  if negb (flags =? 0)%N then G_EINVAL
  else match nth_error (kinds st) id with
       | None => G_ENOENT
       | Some k => G_OK (k_cpuset k, k_eff k, k_infos k)
       end.

Fixpoint getby_loop (q : bset) (ks : list kind) (id : nat) : getres nat :=
  match ks with
  | [] => G_ENOENT
  | k :: r =>
    match compare_inclusion q (k_cpuset k) with
    | B_EQUAL | B_INCLUDED => G_OK id
    | B_INTERSECTS | B_CONTAINS => G_EXDEV
    | B_DIFFERENT => getby_loop q r (S id)
    end
  end.
Definition get_by_cpuset (st : state) (q : option bset) (flags : N) : getres nat :=
  if negb (flags =? 0)%N then G_EINVAL
  else match q with
       | None => G_EINVAL
       | Some s => if bs_is_empty s then G_EINVAL else getby_loop s (kinds st) 0
       end.

(* ---------- histories ---------- *)
Inductive op :=
| OpRegister (cs : option bset) (forced : Z) (infos : option (list info)) (flags : N)
| OpRestrict (topo : bset)      (* cpukinds part of hwloc_topology_restrict; topo = new root cpuset *)
| OpRank                        (* hwloc_topology_refresh *)
| OpDup                         (* continue on hwloc_topology_dup's result *)
| OpXml.                        (* export to XML, reload *)

Definition step (env : option str) (st : state) (o : op) : outcome :=
  match o with
  | OpRegister cs f i fl => pub_register env st cs f i fl
  | OpRestrict t => Fine (restrict_state env st t) RC_OK
  | OpRank => Fine (rank_state env st) RC_OK
  | OpDup => Fine (dup_state st) RC_OK
  | OpXml => xml_reload env st
  end.

(* a history: each operation with the value of HWLOC_CPUKINDS_RANKING at that time *)
Fixpoint run (st : state) (h : list (option str * op)) : outcome :=
  match h with
  | [] => Fine st RC_OK
  | (env, o) :: r =>
    match step env st o with
    | Fine st' _ => run st' r
    | Fatal f => Fatal f
    end
  end.

(* ---------- topologies adopted from shared memory ---------- *)
(* hwloc_shmem_topology_write duplicates the topology into the mapping
   (hwloc_internal_cpukinds_dup); the adopted copy is read-only:
   hwloc_cpukinds_register, hwloc_topology_restrict and hwloc_topology_refresh
   return EPERM without touching anything; dup and XML export+reload give a
   normal topology again. *)
Definition adopt_state (st : state) : state := dup_state st.
Definition mutating (o : op) : bool :=
  match o with OpRegister _ _ _ _ | OpRestrict _ | OpRank => true | OpDup | OpXml => false end.
Definition guarded_step (adopted : bool) (env : option str) (st : state) (o : op) : outcome * bool :=
  if adopted && mutating o then (Fine st RC_EPERM, true) else (step env st o, false).

(* ---------- what hwloc_topology_restrict does to the cpusets ---------- *)
(* The part of the topology the cpukinds depend on: the root cpuset (= allowed
   cpuset here) and the NUMA nodes with their os index and cpuset; the nodeset
   of a PU is the set of nodes whose cpuset contains it.  [topology_restrict]
   follows the argument checks and the dropped-cpuset / dropped-nodeset
   computation of hwloc_topology_restrict (None = EINVAL, nothing touched);
   HWLOC_RESTRICT_FLAG_ADAPT_MISC/IO do not affect cpusets. *)
Record tsum := TS { t_cpuset : bset; t_nodes : list (N * bset) }.

Definition has_flag (flags f : N) : bool := negb (N.land flags f =? 0)%N.
Definition RESTRICT_ALL_FLAGS : N :=
  N.lor HWLOC_RESTRICT_FLAG_REMOVE_CPULESS (N.lor HWLOC_RESTRICT_FLAG_ADAPT_MISC
    (N.lor HWLOC_RESTRICT_FLAG_ADAPT_IO (N.lor HWLOC_RESTRICT_FLAG_BYNODESET HWLOC_RESTRICT_FLAG_REMOVE_MEMLESS))).
Definition union_sets (l : list bset) : bset := fold_right bs_union bs_empty l.

Definition topology_restrict (t : tsum) (set : bset) (flags : N) : option tsum :=
  if negb (N.ldiff flags RESTRICT_ALL_FLAGS =? 0)%N then None
  else if has_flag flags HWLOC_RESTRICT_FLAG_BYNODESET then
    if has_flag flags HWLOC_RESTRICT_FLAG_REMOVE_CPULESS then None
    else if negb (existsb (fun n => mem (fst n) set) (t_nodes t)) then None   (* set misses allowed_nodeset *)
    else
      let kept := filter (fun n => mem (fst n) set) (t_nodes t) in
      if has_flag flags HWLOC_RESTRICT_FLAG_REMOVE_MEMLESS then
        (* PUs all of whose local NUMA nodes are dropped (or that have none) *)
        let dropped := bs_diff (t_cpuset t) (union_sets (map snd kept)) in
        if bs_subset (t_cpuset t) dropped then None
        else Some (TS (bs_diff (t_cpuset t) dropped) (map (fun n => (fst n, bs_diff (snd n) dropped)) kept))
      else Some (TS (t_cpuset t) kept)
  else
    if has_flag flags HWLOC_RESTRICT_FLAG_REMOVE_MEMLESS then None
    else if negb (bs_intersects set (t_cpuset t)) then None
    else
      let nodes' := map (fun n => (fst n, bs_inter (snd n) set)) (t_nodes t) in
      if has_flag flags HWLOC_RESTRICT_FLAG_REMOVE_CPULESS then
        let kept := filter (fun n => negb (bs_is_empty (snd n))) nodes' in
        match kept with
        | [] => None                      (* all NUMA nodes would go *)
        | _ => Some (TS (bs_inter (t_cpuset t) set) kept)
        end
      else Some (TS (bs_inter (t_cpuset t) set) nodes').
