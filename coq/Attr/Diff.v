(* C16 - model of hwloc/diff.c (hwloc_diff_trees, hwloc_topology_diff_build,
   hwloc_apply_diff_one, hwloc_topology_diff_apply with its cancel loop).

   An object carries exactly what diff.c reads or writes.  The sets, the
   type-specific attribute bytes that diff.c compares with memcmp and the
   topology-level components (allowed sets, distances, cpukinds) are opaque
   comparable strings rendered canonically by the harness.

   Two views of one topology are used, as in C: hwloc_diff_trees walks the
   first_child/next_sibling tree ([obj]); hwloc_apply_diff_one addresses
   objects through hwloc_get_obj_by_depth (the level arrays) and walks parent
   pointers.  The level arrays and parent chains are [table T]: the pre-order
   flattening of the tree, each object with the keys of its ancestors.  That
   the real arrays/pointers agree with the tree is the well-formedness tied by
   the harness (it prints the table by walking the tree and checks each entry
   against hwloc_get_obj_by_depth and ->parent).

   Not modelled: malloc failure paths (err < 0), the IS_LOADED / adopted-shmem
   guards, userdata, gp_index (never read by diff.c). *)
From Coq Require Import List NArith ZArith Bool String Lia.
From HV Require Import Gen.Tables.
Import ListNotations.
Local Open Scope N_scope.

Definition ostr_eqb (a b : option string) : bool :=
  match a, b with
  | None, None => true
  | Some x, Some y => String.eqb x y
  | _, _ => false
  end.

Definition key := (Z * N)%type.
Definition key_eqb (a b : key) : bool := (fst a =? fst b)%Z && (snd a =? snd b).
Fixpoint mem_key (k : key) (l : list key) : bool :=
  match l with [] => false | x :: r => key_eqb x k || mem_key k r end.

Definition infos_t := list (string * string).

(* cpuset, complete_cpuset, nodeset, complete_nodeset; None = NULL pointer *)
Record sets4 := mkS { s_cpuset : option string; s_ccpuset : option string;
                      s_nodeset : option string; s_cnodeset : option string }.
Definition sets_eqb (a b : sets4) : bool :=
  ostr_eqb (s_cpuset a) (s_cpuset b) && ostr_eqb (s_ccpuset a) (s_ccpuset b) &&
  ostr_eqb (s_nodeset a) (s_nodeset b) && ostr_eqb (s_cnodeset a) (s_cnodeset b).

Record oattr := mkA {
  a_depth : Z;                 (* obj->depth (negative for the special levels) *)
  a_lidx : N;                  (* obj->logical_index *)
  a_type : N;
  a_subtype : option string;
  a_os_index : N;
  a_sets : sets4;
  a_name : option string;
  a_tattr : string;            (* bytes of obj->attr that diff.c memcmp()s, hex *)
  a_lmem : N;                  (* attr->numanode.local_memory *)
  a_tmem : N;                  (* obj->total_memory *)
  a_infos : infos_t
}.

Inductive obj := Obj (a : oattr) (ch mem io misc : list obj).

Definition oa (o : obj) : oattr := match o with Obj a _ _ _ _ => a end.
Definition akey (a : oattr) : key := (a_depth a, a_lidx a).

(* field updates *)
Definition set_name (v : option string) (a : oattr) : oattr :=
  mkA (a_depth a) (a_lidx a) (a_type a) (a_subtype a) (a_os_index a) (a_sets a) v (a_tattr a) (a_lmem a) (a_tmem a) (a_infos a).
Definition set_infos (v : infos_t) (a : oattr) : oattr :=
  mkA (a_depth a) (a_lidx a) (a_type a) (a_subtype a) (a_os_index a) (a_sets a) (a_name a) (a_tattr a) (a_lmem a) (a_tmem a) v.
Definition set_lmem (v : N) (a : oattr) : oattr :=
  mkA (a_depth a) (a_lidx a) (a_type a) (a_subtype a) (a_os_index a) (a_sets a) (a_name a) (a_tattr a) v (a_tmem a) (a_infos a).
Definition set_tmem (v : N) (a : oattr) : oattr :=
  mkA (a_depth a) (a_lidx a) (a_type a) (a_subtype a) (a_os_index a) (a_sets a) (a_name a) (a_tattr a) (a_lmem a) v (a_infos a).

(* ------------------------------------------------------------------ *)
(* diff entries (include/hwloc/diff.h)                                  *)

Inductive attrdiff :=
| DSize (idx old new : N)                 (* uint64: index ignored *)
| DName (old new : option string)         (* string: name field NULL; old/new may be NULL when built from an unset name *)
| DInfo (nm old new : string)             (* string: all three non-NULL *)
| DOther (t : N).                         (* any other obj_attr type value *)

Inductive entry :=
| EAttr (d : Z) (i : N) (ad : attrdiff)   (* HWLOC_TOPOLOGY_DIFF_OBJ_ATTR *)
| ETooComplex (d : Z) (i : N)             (* HWLOC_TOPOLOGY_DIFF_TOO_COMPLEX *)
| EOther (t : N).                         (* any other generic type value *)

Definition is_tc (e : entry) : bool := match e with ETooComplex _ _ => true | _ => false end.
Definition has_tc (d : list entry) : bool := existsb is_tc d.

(* ------------------------------------------------------------------ *)
(* hwloc_diff_trees                                                     *)

(* the checks before the name comparison: all "goto out_too_complex" *)
Definition pre_differs (a1 a2 : oattr) : bool :=
  negb (a_depth a1 =? a_depth a2)%Z || negb (a_type a1 =? a_type a2) ||
  negb (ostr_eqb (a_subtype a1) (a_subtype a2)) || negb (a_os_index a1 =? a_os_index a2) ||
  negb (sets_eqb (a_sets a1) (a_sets a2)).

Definition name_diff (a1 a2 : oattr) : list entry :=
  if ostr_eqb (a_name a1) (a_name a2) then []
  else [EAttr (a_depth a1) (a_lidx a1) (DName (a_name a1) (a_name a2))].

(* the types whose attribute union is compared with memcmp: every type that has
   attributes except NUMA nodes (local_memory is diffable, page_types are
   documented as ignored); memory-side caches since fix c1b2102 *)
Definition memcmp_types : list N :=
  [HWLOC_OBJ_MEMCACHE; HWLOC_OBJ_L1CACHE; HWLOC_OBJ_L2CACHE; HWLOC_OBJ_L3CACHE; HWLOC_OBJ_L4CACHE; HWLOC_OBJ_L5CACHE;
   HWLOC_OBJ_L1ICACHE; HWLOC_OBJ_L2ICACHE; HWLOC_OBJ_L3ICACHE;
   HWLOC_OBJ_GROUP; HWLOC_OBJ_PCI_DEVICE; HWLOC_OBJ_BRIDGE; HWLOC_OBJ_OS_DEVICE].
Definition is_memcmp_type (t : N) : bool := existsb (N.eqb t) memcmp_types.
Definition is_numa (t : N) : bool := t =? HWLOC_OBJ_NUMANODE.

(* a stage of the function: the entries it appends and whether it ends in
   "goto out_too_complex" *)
Definition stage := (list entry * bool)%type.

(* switch (obj1->type) *)
Definition type_attr_diff (a1 a2 : oattr) : stage :=
  if is_numa (a_type a1) then
    (if a_lmem a1 =? a_lmem a2 then []
     else [EAttr (a_depth a1) (a_lidx a1) (DSize 0 (a_lmem a1) (a_lmem a2))], false)
  else if is_memcmp_type (a_type a1) then ([], negb (String.eqb (a_tattr a1) (a_tattr a2)))
  else ([], false).

(* the loop over the info arrays once the counts are known to be equal *)
Fixpoint infos_walk (d : Z) (i : N) (l1 l2 : infos_t) : stage :=
  match l1, l2 with
  | (n1, v1) :: r1, (n2, v2) :: r2 =>
      if negb (String.eqb n1 n2) then ([], true)
      else let '(e, tc) := infos_walk d i r1 r2 in
           ((if String.eqb v1 v2 then [] else [EAttr d i (DInfo n1 v1 v2)]) ++ e, tc)
  | _, _ => ([], false)
  end.
Definition infos_diff (d : Z) (i : N) (l1 l2 : infos_t) : stage :=
  if negb (Nat.eqb (List.length l1) (List.length l2)) then ([], true) else infos_walk d i l1 l2.

(* for (child1, child2; both non-NULL; next) recurse;  if (child1 || child2) goto out_too_complex *)
Definition walk {A} (f : A -> A -> list entry) : list A -> list A -> stage :=
  fix walk (l1 l2 : list A) {struct l1} : stage :=
  match l1, l2 with
  | [], [] => ([], false)
  | x :: r1, y :: r2 => let '(e, tc) := walk r1 r2 in (f x y ++ e, tc)
  | _, _ => ([], true)
  end.

(* sequencing of stages: once a stage has jumped to out_too_complex the
   later ones are not executed *)
Definition seq_stage (p k : stage) : stage :=
  if snd p then p else (fst p ++ fst k, snd k).

(* [fx_name = true]: the code since fix 566d2c2 (a name set on one side only is
   "too complex"); [false]: the code before it, kept for the regression witnesses *)
Definition name_stage (fx_name : bool) (a1 a2 : oattr) : stage :=
  if fx_name && negb (ostr_eqb (option_map (fun _ => EmptyString) (a_name a1)) (option_map (fun _ => EmptyString) (a_name a2)))
  then ([], true) else (name_diff a1 a2, false).

Fixpoint diff_trees_gen (fx_name : bool) (o1 o2 : obj) {struct o1} : list entry :=
  match o1, o2 with
  | Obj a1 c1 m1 i1 x1, Obj a2 c2 m2 i2 x2 =>
    let tc := [ETooComplex (a_depth a1) (a_lidx a1)] in
    if pre_differs a1 a2 then tc
    else
      let r :=
        seq_stage (name_stage fx_name a1 a2)
       (seq_stage (type_attr_diff a1 a2)
       (seq_stage (infos_diff (a_depth a1) (a_lidx a1) (a_infos a1) (a_infos a2))
       (seq_stage (walk (diff_trees_gen fx_name) c1 c2)
       (seq_stage (walk (diff_trees_gen fx_name) m1 m2)
       (seq_stage (walk (diff_trees_gen fx_name) i1 i2)
                  (walk (diff_trees_gen fx_name) x1 x2)))))) in
      if snd r then fst r ++ tc else fst r
  end.
(* the code as it is *)
Definition diff_trees : obj -> obj -> list entry := diff_trees_gen true.

(* ------------------------------------------------------------------ *)
(* topology level                                                       *)

(* one memory-attribute target as diff_build reads it *)
Record mtarget := mkMT { mt_id : string;          (* target type + logical_index *)
                         mt_noinit : string;      (* noinitiator_value *)
                         mt_inits : list string   (* per initiator: value, location *) }.
Record mattr := mkMA { ma_hdr : string;           (* name, flags *)
                       ma_need_init : bool;       (* flags & HWLOC_MEMATTR_FLAG_NEED_INITIATOR *)
                       ma_targets : list mtarget }.

Record topo := mkT {
  t_root : obj;
  t_nbl : Z;                                      (* topology->nb_levels *)
  t_allowed_cpuset : option string;
  t_allowed_nodeset : option string;
  t_infos : infos_t;
  t_dists : list (bool * string);                 (* different_types != NULL, everything else compared *)
  t_memattrs : list mattr;
  t_cpukinds : list string
}.

Definition set_root (r : obj) (T : topo) : topo :=
  mkT r (t_nbl T) (t_allowed_cpuset T) (t_allowed_nodeset T) (t_infos T) (t_dists T) (t_memattrs T) (t_cpukinds T).
Definition set_tinfos (v : infos_t) (T : topo) : topo :=
  mkT (t_root T) (t_nbl T) (t_allowed_cpuset T) (t_allowed_nodeset T) v (t_dists T) (t_memattrs T) (t_cpukinds T).

(* distances: while (dist1 || dist2) ... *)
Fixpoint dists_differ (l1 l2 : list (bool * string)) : bool :=
  match l1, l2 with
  | [], [] => false
  | (h1, p1) :: r1, (h2, p2) :: r2 =>
      if h1 || h2 || negb (String.eqb p1 p2) then true else dists_differ r1 r2
  | _, _ => true
  end.

(* initiators: for (k = 0; k < imtg1->nr_initiators; k++) compare [k] of both
   sides; nr_initiators of the second side is never read.
   None = the loop reads imtg2->initiators[k] past its end *)
Fixpoint inits_walk (l1 l2 : list string) : option bool :=
  match l1, l2 with
  | [], _ => Some false
  | x :: r1, y :: r2 => if negb (String.eqb x y) then Some true else inits_walk r1 r2
  | _ :: _, [] => None
  end.
(* [fx = true]: the code since fix ac5e4b1 (nr_initiators compared first) *)
Definition inits_differ (fx : bool) (l1 l2 : list string) : option bool :=
  if fx && negb (Nat.eqb (List.length l1) (List.length l2)) then Some true else inits_walk l1 l2.

Fixpoint targets_differ (fx : bool) (need : bool) (l1 l2 : list mtarget) : option bool :=
  match l1, l2 with
  | t1 :: r1, t2 :: r2 =>
      if negb (String.eqb (mt_id t1) (mt_id t2)) then Some true
      else if need then
        match inits_differ fx (mt_inits t1) (mt_inits t2) with
        | None => None
        | Some true => Some true
        | Some false => targets_differ fx need r1 r2
        end
      else if negb (String.eqb (mt_noinit t1) (mt_noinit t2)) then Some true
      else targets_differ fx need r1 r2
  | _, _ => Some false
  end.

(* memattrs: i is the attribute id; CAPACITY and LOCALITY are virtual *)
Fixpoint memattrs_differ (fx : bool) (i : N) (l1 l2 : list mattr) : option bool :=
  match l1, l2 with
  | m1 :: r1, m2 :: r2 =>
      if negb (String.eqb (ma_hdr m1) (ma_hdr m2)) || negb (Bool.eqb (ma_need_init m1) (ma_need_init m2))
         || negb (Nat.eqb (List.length (ma_targets m1)) (List.length (ma_targets m2))) then Some true
      else if (i =? HWLOC_MEMATTR_ID_CAPACITY) || (i =? HWLOC_MEMATTR_ID_LOCALITY) then memattrs_differ fx (i + 1) r1 r2
      else match targets_differ fx (ma_need_init m1) (ma_targets m1) (ma_targets m2) with
           | None => None
           | Some true => Some true
           | Some false => memattrs_differ fx (i + 1) r1 r2
           end
  | _, _ => Some false
  end.
Definition memattrs_cmp (fx : bool) (l1 l2 : list mattr) : option bool :=
  if negb (Nat.eqb (List.length l1) (List.length l2)) then Some true else memattrs_differ fx 0 l1 l2.

Fixpoint strs_eqb (l1 l2 : list string) : bool :=
  match l1, l2 with
  | [], [] => true
  | x :: r1, y :: r2 => String.eqb x y && strs_eqb r1 r2
  | _, _ => false
  end.

Inductive bres := BRet (rc : Z) (d : list entry) | BOverread.

(* hwloc_topology_diff_build.  flags != 0 -> -1 (EINVAL, *diffp untouched: modelled as []) *)
Definition diff_build_gen (fx_name fx_mattr : bool) (flags : N) (T1 T2 : topo) : bres :=
  if negb (flags =? 0) then BRet (-1) []
  else
    let r1 := t_root T1 in
    let d := diff_trees_gen fx_name r1 (t_root T2) in
    let root_tc := [ETooComplex (a_depth (oa r1)) (a_lidx (oa r1))] in
    if has_tc d then BRet 1 d
    else if negb (ostr_eqb (t_allowed_cpuset T1) (t_allowed_cpuset T2))
         || negb (ostr_eqb (t_allowed_nodeset T1) (t_allowed_nodeset T2)) then BRet 1 (d ++ root_tc)
    else
      (* topology infos: entries carry obj_depth = nb_levels of the first topology, obj_index = 0 *)
      let '(ti, tctc) := infos_diff (t_nbl T1) 0 (t_infos T1) (t_infos T2) in
      if tctc then BRet 1 (d ++ ti ++ root_tc)
      else if dists_differ (t_dists T1) (t_dists T2) then BRet 1 (d ++ ti ++ root_tc)
      else match memattrs_cmp fx_mattr (t_memattrs T1) (t_memattrs T2) with
           | None => BOverread
           | Some true => BRet 1 (d ++ ti ++ root_tc)
           | Some false =>
               if negb (strs_eqb (t_cpukinds T1) (t_cpukinds T2)) then BRet 1 (d ++ ti ++ root_tc)
               else BRet 0 (d ++ ti)
           end.
(* the code as it is *)
Definition diff_build : N -> topo -> topo -> bres := diff_build_gen true true.

(* ------------------------------------------------------------------ *)
(* level arrays and parent chains                                       *)

Fixpoint flat (anc : list key) (o : obj) : list (oattr * list key) :=
  match o with
  | Obj a c m i x =>
      let anc' := akey a :: anc in
      (a, anc) :: flat_map (flat anc') c ++ flat_map (flat anc') m ++ flat_map (flat anc') i ++ flat_map (flat anc') x
  end.
Definition table (T : topo) : list (oattr * list key) := flat [] (t_root T).

Fixpoint tmap (f : oattr -> oattr) (o : obj) : obj :=
  match o with
  | Obj a c m i x => Obj (f a) (map (tmap f) c) (map (tmap f) m) (map (tmap f) i) (map (tmap f) x)
  end.

Definition lookup (k : key) (tbl : list (oattr * list key)) : option (oattr * list key) :=
  find (fun p => key_eqb (akey (fst p)) k) tbl.

(* hwloc_get_obj_by_depth: normal levels 0..nb_levels-1, special levels
   HWLOC_TYPE_DEPTH_NUMANODE - l for l < HWLOC_NR_SLEVELS, NULL otherwise *)
Definition depth_addressable (nbl d : Z) : bool :=
  ((0 <=? d) && (d <? nbl))%Z ||
  (let l := (HWLOC_TYPE_DEPTH_NUMANODE - d)%Z in ((0 <=? l) && (l <? Z.of_N HWLOC_NR_SLEVELS))%Z).
Definition get_obj (T : topo) (d : Z) (i : N) : option (oattr * list key) :=
  if depth_addressable (t_nbl T) d then lookup (d, i) (table T) else None.

(* ------------------------------------------------------------------ *)
(* hwloc_apply_diff_one                                                 *)

Definition U64 : N := 2 ^ 64.
(* hwloc_uint64_t valuediff = newvalue - oldvalue *)
Definition u64sub (a b : N) : N := (a + (U64 - b mod U64)) mod U64.
Definition u64add (a b : N) : N := (a + b) mod U64.

Inductive outcome (A : Type) := Ok (x : A) | Fail | Crash.
Arguments Ok {A} x. Arguments Fail {A}. Arguments Crash {A}.

(* first info with this name and this value gets the new value *)
Fixpoint patch_infos (nm old new : string) (l : infos_t) : option infos_t :=
  match l with
  | [] => None
  | (n, v) :: r =>
      if String.eqb n nm && String.eqb v old then Some ((n, new) :: r)
      else match patch_infos nm old new r with Some r' => Some ((n, v) :: r') | None => None end
  end.

Definition upd_key (k : key) (g : oattr -> oattr) (a : oattr) : oattr :=
  if key_eqb (akey a) k then g a else a.

(* obj->attr->numanode.local_memory = newvalue; then total_memory += valuediff
   on obj and on every ancestor reached through ->parent *)
Definition size_upd (k : key) (chain : list key) (new vd : N) (a : oattr) : oattr :=
  let a1 := upd_key k (set_lmem new) a in
  if mem_key (akey a) chain then set_tmem (u64add (a_tmem a1) vd) a1 else a1.

(* first info with this name and this value gets the new value, in place *)
Definition patch_total (nm old new : string) (l : infos_t) : infos_t :=
  match patch_infos nm old new l with Some l' => l' | None => l end.

(* what one entry does once its checks have passed: an in-place update of
   the addressed object (and, for SIZE, of total_memory up the parent chain),
   or of the topology infos *)
Inductive eff := EObj (f : oattr -> oattr) | ETinfos (g : infos_t -> infos_t).
Definition run_eff (x : eff) (T : topo) : topo :=
  match x with
  | EObj f => set_root (tmap f (t_root T)) T
  | ETinfos g => set_tinfos (g (t_infos T)) T
  end.

Definition step (rev : bool) (e : entry) (T : topo) : outcome eff :=
  match e with
  | EAttr d i ad =>
      let obj := get_obj T d i in
      match obj, (d =? t_nbl T)%Z with
      | None, false => Fail
      | _, _ =>
        match ad with
        | DSize _ ov nv =>
            let old := if rev then nv else ov in
            let new := if rev then ov else nv in
            let vd := u64sub new old in
            match obj with
            | None => Fail
            | Some (a, anc) =>
                if negb (is_numa (a_type a)) then Fail
                else if negb (a_lmem a =? old) then Fail
                else Ok (EObj (size_upd (akey a) (akey a :: anc) new vd))
            end
        | DName ov nv =>
            let old := if rev then nv else ov in
            let new := if rev then ov else nv in
            match obj with
            | None => Fail
            | Some (a, _) =>
                match a_name a with
                | None => Fail                              (* !obj->name *)
                | Some cur =>
                    match old with
                    | None => Crash                         (* strcmp(obj->name, NULL) *)
                    | Some o =>
                        if negb (String.eqb cur o) then Fail
                        else match new with
                             | None => Crash                (* strdup(NULL) *)
                             | Some n => Ok (EObj (upd_key (akey a) (set_name (Some n))))
                             end
                    end
                end
            end
        | DInfo nm ov nv =>
            let old := if rev then nv else ov in
            let new := if rev then ov else nv in
            match obj with
            | Some (a, _) =>
                match patch_infos nm old new (a_infos a) with
                | None => Fail
                | Some _ => Ok (EObj (upd_key (akey a) (fun x => set_infos (patch_total nm old new (a_infos x)) x)))
                end
            | None =>                                       (* obj_depth == nb_levels: topology infos *)
                match patch_infos nm old new (t_infos T) with
                | None => Fail
                | Some _ => Ok (ETinfos (patch_total nm old new))
                end
            end
        | DOther _ => Fail
        end
      end
  | ETooComplex _ _ => Fail
  | EOther _ => Fail
  end.

Definition apply_one (rev : bool) (e : entry) (T : topo) : outcome topo :=
  match step rev e T with
  | Ok x => Ok (run_eff x T)
  | Fail => Fail
  | Crash => Crash
  end.

(* ------------------------------------------------------------------ *)
(* hwloc_topology_diff_apply                                            *)

Inductive loopres := LDone (T : topo) | LFail (nr : nat) (T : topo) | LCrash.

(* while (tmpdiff) { nr++; err = apply_one; if (err < 0) goto cancel; } *)
Fixpoint apply_loop (rev : bool) (d : list entry) (nr : nat) (T : topo) : loopres :=
  match d with
  | [] => LDone T
  | e :: r =>
      match apply_one rev e T with
      | Ok T' => apply_loop rev r (S nr) T'
      | Fail => LFail (S nr) T
      | Crash => LCrash
      end
  end.

(* apply_one(flags ^ REVERSE), result ignored, on the first [n] entries of a list, in list order *)
Fixpoint cancel_loop (rev : bool) (d : list entry) (n : nat) (T : topo) : option topo :=
  match n, d with
  | S n', e :: r =>
      match apply_one (negb rev) e T with
      | Ok T' => cancel_loop rev r n' T'
      | Fail => cancel_loop rev r n' T
      | Crash => None
      end
  | _, _ => Some T
  end.



(* cancel (since fix 751402d): err = -nr; while (--nr > 0) { walk to the nr-th
   entry; apply_one(flags ^ REVERSE), result ignored }: the nr-1 applied
   entries, last one first *)
Definition cancel_loop_fixed (rev : bool) (d : list entry) (n : nat) (T : topo) : option topo :=
  cancel_loop rev (List.rev (firstn n d)) n T.

Inductive ares := ARet (rc : Z) (T : topo) | ACrash.
(* for the driver *)
Definition flag_reverse : N := HWLOC_TOPOLOGY_DIFF_APPLY_REVERSE.

Definition diff_apply (flags : N) (d : list entry) (T : topo) : ares :=
  if negb (N.ldiff flags HWLOC_TOPOLOGY_DIFF_APPLY_REVERSE =? 0) then ARet (-1) T
  else
    let rev := negb (N.land flags HWLOC_TOPOLOGY_DIFF_APPLY_REVERSE =? 0) in
    match apply_loop rev d 0 T with
    | LDone T' => ARet 0 T'
    | LCrash => ACrash
    | LFail nr T' =>
        match cancel_loop_fixed rev d (pred nr) T' with
        | Some T'' => ARet (- Z.of_nat nr) T''
        | None => ACrash
        end
    end.

(* the function before fix 751402d: the cancel loop walked the applied
   entries first to last ([cancel_loop] on the list itself); kept for the
   regression witness *)
Definition diff_apply_forward_cancel (flags : N) (d : list entry) (T : topo) : ares :=
  if negb (N.ldiff flags HWLOC_TOPOLOGY_DIFF_APPLY_REVERSE =? 0) then ARet (-1) T
  else
    let rev := negb (N.land flags HWLOC_TOPOLOGY_DIFF_APPLY_REVERSE =? 0) in
    match apply_loop rev d 0 T with
    | LDone T' => ARet 0 T'
    | LCrash => ACrash
    | LFail nr T' =>
        match cancel_loop rev d (pred nr) T' with
        | Some T'' => ARet (- Z.of_nat nr) T''
        | None => ACrash
        end
    end.

(* ------------------------------------------------------------------ *)
(* executable hypotheses and the relations the theorems are stated with *)

Fixpoint str_in (s : string) (l : list string) : bool :=
  match l with [] => false | x :: r => String.eqb x s || str_in s r end.
Fixpoint str_nodup (l : list string) : bool :=
  match l with [] => true | x :: r => negb (str_in x r) && str_nodup r end.
Fixpoint key_nodup (l : list key) : bool :=
  match l with [] => true | x :: r => negb (mem_key x r) && key_nodup r end.
Fixpoint pair_in (p : string * string) (l : infos_t) : bool :=
  match l with [] => false | (n, v) :: r => (String.eqb n (fst p) && String.eqb v (snd p)) || pair_in p r end.
Fixpoint pair_nodup (l : infos_t) : bool :=
  match l with [] => true | x :: r => negb (pair_in x r) && pair_nodup r end.

Definition attrs (T : topo) : list oattr := map fst (table T).

(* (depth, logical_index) identifies an object *)
Definition keys_unique (T : topo) : bool := key_nodup (map akey (attrs T)).
(* every object sits on a level hwloc_get_obj_by_depth can address *)
Definition depths_addressable (T : topo) : bool := forallb (fun a => depth_addressable (t_nbl T) (a_depth a)) (attrs T).
(* uint64_t fields hold uint64_t values *)
Definition vals_u64 (T : topo) : bool := forallb (fun a => (a_lmem a <? U64) && (a_tmem a <? U64)) (attrs T).
(* every object is named *)
Definition names_set (T : topo) : bool := forallb (fun a => match a_name a with Some _ => true | None => false end) (attrs T).
(* no info name occurs twice in one object (or in the topology infos) *)
Definition info_names_nodup (T : topo) : bool :=
  forallb (fun a => str_nodup (map fst (a_infos a))) (attrs T) && str_nodup (map fst (t_infos T)).
(* DESIGN's weaker form: no (name, value) pair occurs twice *)
Definition info_pairs_nodup (T : topo) : bool :=
  forallb (fun a => pair_nodup (a_infos a)) (attrs T) && pair_nodup (t_infos T).
Definition no_hetero_dists (T : topo) : bool := forallb (fun p => negb (fst p)) (t_dists T).

Definition H_diff (T : topo) : bool := keys_unique T && vals_u64 T && names_set T && info_names_nodup T.
Definition H_diff_weak (T : topo) : bool := keys_unique T && vals_u64 T && names_set T && info_pairs_nodup T.

(* total_memory is the sum of the local memory of the NUMA nodes at or below
   the object (hwloc's propagate_total_memory), in uint64_t arithmetic *)
Definition derived_tmem (k : key) (tbl : list (oattr * list key)) : N :=
  fold_right (fun p acc => if is_numa (a_type (fst p)) && mem_key k (akey (fst p) :: snd p)
                           then u64add (a_lmem (fst p)) acc else acc) 0 tbl.
Definition tmem_consistent (T : topo) : bool :=
  forallb (fun p => a_tmem (fst p) =? derived_tmem (akey (fst p)) (table T)) (table T).

(* what diff_build never reads: logical_index, total_memory, local_memory of
   non-NUMA objects, attribute bytes of types outside the memcmp list *)
Definition erase_attr (a : oattr) : oattr :=
  mkA (a_depth a) 0 (a_type a) (a_subtype a) (a_os_index a) (a_sets a) (a_name a)
      (if is_memcmp_type (a_type a) then a_tattr a else EmptyString)
      (if is_numa (a_type a) then a_lmem a else 0) 0 (a_infos a).
Definition erase (o : obj) : obj := tmap erase_attr o.

(* additionally what a diff can carry: the value of a name that is set on both sides, info values, local memory *)
Definition skel_attr_gen (fx_name : bool) (a : oattr) : oattr :=
  mkA (a_depth a) 0 (a_type a) (a_subtype a) (a_os_index a) (a_sets a)
      (if fx_name then option_map (fun _ => EmptyString) (a_name a) else None)
      (if is_memcmp_type (a_type a) then a_tattr a else EmptyString) 0 0
      (map (fun p => (fst p, EmptyString)) (a_infos a)).
(* whether a name is set belongs to the skeleton (since fix 566d2c2) *)
Definition skel_attr : oattr -> oattr := skel_attr_gen true.
Definition skel (o : obj) : obj := tmap skel_attr o.

(* slot an entry reads and writes, for a topology with [nbl] levels: entries
   at depth nb_levels address the topology infos whatever their index *)
Inductive slot := SName (k : key) | SSize (k : key) | SInfo (k : key) (nm : string) | STInfo (nm : string) | SNone.
Definition slot_of (nbl : Z) (e : entry) : slot :=
  match e with
  | EAttr d i (DSize _ _ _) => SSize (d, i)
  | EAttr d i (DName _ _) => SName (d, i)
  | EAttr d i (DInfo nm _ _) => if (d =? nbl)%Z then STInfo nm else SInfo (d, i) nm
  | _ => SNone
  end.
Definition slot_eqb (a b : slot) : bool :=
  match a, b with
  | SName k1, SName k2 => key_eqb k1 k2
  | SSize k1, SSize k2 => key_eqb k1 k2
  | SInfo k1 n1, SInfo k2 n2 => key_eqb k1 k2 && String.eqb n1 n2
  | STInfo n1, STInfo n2 => String.eqb n1 n2
  | _, _ => false
  end.
Fixpoint slot_in (s : slot) (l : list slot) : bool :=
  match l with [] => false | x :: r => slot_eqb x s || slot_in s r end.
Fixpoint slot_nodup (l : list slot) : bool :=
  match l with [] => true | x :: r => negb (slot_in x r) && slot_nodup r end.
(* no two entries touch the same attribute *)
Definition slots_distinct (nbl : Z) (d : list entry) : bool := slot_nodup (map (slot_of nbl) d).
(* uint64 fields of the entries hold uint64 values *)
Definition entry_u64 (e : entry) : bool :=
  match e with EAttr _ _ (DSize _ o n) => (o <? U64) && (n <? U64) | _ => true end.
