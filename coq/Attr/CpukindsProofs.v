(* C15 - lemmas about the model coq/Attr/Cpukinds.v *)
From Coq Require Import List NArith ZArith Bool Lia Permutation Sorted.
From Coq Require Import ZifyBool ZifyN ZifyNat.
From HV Require Import Base.BSet Attr.BSetAux Gen.Tables Attr.Cpukinds.
Import ListNotations.
Local Open Scope Z_scope.

(* ------------------------------------------------------------------ *)
(* strings, infos *)

Lemma str_eqb_spec a b : str_eqb a b = true <-> a = b.
Proof.
  revert b. induction a as [|x a IH]; intros [|y b]; simpl; split; intros H; try discriminate; auto.
  - apply andb_true_iff in H. destruct H as [H1 H2]. apply N.eqb_eq in H1. apply IH in H2. congruence.
  - injection H as -> ->. rewrite N.eqb_refl. simpl. now apply IH.
Qed.

Lemma info_eqb_spec a b : info_eqb a b = true <-> a = b.
Proof.
  unfold info_eqb. rewrite andb_true_iff, !str_eqb_spec. destruct a, b; simpl. split.
  - intros [-> ->]. reflexivity.
  - intros [= -> ->]. auto.
Qed.

Lemma has_info_spec l i : has_info l i = true <-> In i l.
Proof.
  unfold has_info. rewrite existsb_exists. split.
  - intros [x [Hx He]]. apply info_eqb_spec in He. now subst.
  - intros H. exists i. split; [exact H|]. now apply info_eqb_spec.
Qed.

Lemma NoDup_snoc {A} (l : list A) x : NoDup l -> ~ In x l -> NoDup (l ++ [x]).
Proof.
  induction l as [|y l IH]; simpl; intros Hd Hn.
  - constructor; [intros []|constructor].
  - inversion Hd as [|? ? Hy Hl]; subst. constructor.
    + rewrite in_app_iff. simpl. intros [H|[H|[]]]; [contradiction|subst; tauto].
    + apply IH; tauto.
Qed.

Lemma add_infos_spec src : forall dst,
  (forall i, In i (add_infos dst src) <-> In i dst \/ In i src) /\
  (NoDup dst -> NoDup (add_infos dst src)) /\
  (exists extra, add_infos dst src = dst ++ extra).
Proof.
  unfold add_infos. induction src as [|x src IH]; intros dst; simpl.
  - split; [|split]; [tauto|auto|exists []; now rewrite app_nil_r].
  - destruct (has_info dst x) eqn:E.
    + apply has_info_spec in E. destruct (IH dst) as [H1 [H2 H3]]. split; [|split]; auto.
      intros i. rewrite H1. split; [tauto|]. intros [H|[->|H]]; auto.
    + assert (Hn : ~ In x dst) by (rewrite <- has_info_spec; congruence).
      destruct (IH (dst ++ [x])) as [H1 [H2 [extra H3]]]. split; [|split].
      * intros i. rewrite H1, in_app_iff. simpl. tauto.
      * intros Hd. apply H2. apply NoDup_snoc; assumption.
      * exists (x :: extra). rewrite H3, <- app_assoc. reflexivity.
Qed.

Definition infos_of (o : option (list info)) : list info := match o with Some l => l | None => [] end.

Lemma add_infos_opt_spec dst o :
  (forall i, In i (add_infos_opt dst o) <-> In i dst \/ In i (infos_of o)) /\
  (NoDup dst -> NoDup (add_infos_opt dst o)) /\
  (exists extra, add_infos_opt dst o = dst ++ extra).
Proof.
  destruct o as [l|]; simpl.
  - apply add_infos_spec.
  - split; [|split]; [tauto|auto|exists []; now rewrite app_nil_r].
Qed.

(* ------------------------------------------------------------------ *)
(* compare_inclusion *)

Lemma compare_inclusion_spec a b :
  match compare_inclusion a b with
  | B_EQUAL => a = b
  | B_INCLUDED => bs_subset a b = true /\ a <> b
  | B_CONTAINS => bs_subset b a = true /\ bs_subset a b = false
  | B_INTERSECTS => bs_subset a b = false /\ bs_subset b a = false /\ bs_intersects a b = true
  | B_DIFFERENT => bs_intersects a b = false /\ bs_subset a b = false /\ bs_subset b a = false
  end.
Proof.
  unfold compare_inclusion.
  destruct (bs_eqb a b) eqn:E1; [now apply bs_eqb_spec|].
  apply bs_eqb_false in E1.
  destruct (bs_subset a b) eqn:E2; [auto|].
  destruct (bs_subset b a) eqn:E3; [auto|].
  destruct (bs_intersects a b) eqn:E4; auto.
Qed.

(* ------------------------------------------------------------------ *)
(* how many kinds contain PU p *)

Definition b2n (b : bool) : nat := if b then 1%nat else 0%nat.
Fixpoint cnt (ks : list kind) (p : N) : nat :=
  match ks with [] => 0%nat | k :: r => (b2n (mem p (k_cpuset k)) + cnt r p)%nat end.

Lemma cnt_app a b p : cnt (a ++ b) p = (cnt a p + cnt b p)%nat.
Proof. induction a; simpl; lia. Qed.

Lemma cnt_in ks k p : In k ks -> mem p (k_cpuset k) = true -> (1 <= cnt ks p)%nat.
Proof.
  induction ks as [|x ks IH]; simpl; intros [] Hm.
  - subst. rewrite Hm. simpl. lia.
  - specialize (IH H Hm). lia.
Qed.

Lemma cnt_pos ks p : (1 <= cnt ks p)%nat -> exists k, In k ks /\ mem p (k_cpuset k) = true.
Proof.
  induction ks as [|x ks IH]; simpl; intros H; [lia|].
  destruct (mem p (k_cpuset x)) eqn:E.
  - exists x. auto.
  - simpl in H. destruct (IH H) as [k [H1 H2]]. exists k. auto.
Qed.

Lemma cnt_map_cpuset a b p : map k_cpuset a = map k_cpuset b -> cnt a p = cnt b p.
Proof.
  revert b. induction a as [|x a IH]; intros [|y b]; simpl; intros H; try discriminate; auto.
  injection H as H1 H2. rewrite H1, (IH b H2). reflexivity.
Qed.

Lemma cnt_perm a b p : Permutation (map k_cpuset a) (map k_cpuset b) -> cnt a p = cnt b p.
Proof.
  assert (G : forall l, cnt l p = fold_right (fun s n => (b2n (mem p s) + n)%nat) 0%nat (map k_cpuset l)).
  { induction l; simpl; auto. }
  intros H. rewrite !G. induction H; simpl; lia.
Qed.

(* ------------------------------------------------------------------ *)
(* one step of the registration loop: unconditional facts *)

Definition clean (s : kind) : Prop := k_arr s = false.

Lemma reg_step_facts flags forced infos k cs tl k' n cs' tl' :
  reg_step flags forced infos k cs tl = SOk k' n cs' tl' ->
  (forall p, (b2n (mem p (k_cpuset k')) + cnt n p)%nat = b2n (mem p (k_cpuset k))) /\
  (forall p, mem p cs' = mem p cs && negb (mem p (k_cpuset k))) /\
  ((n = [] /\ tl' = tl) \/ (exists slot nk, tl = slot :: tl' /\ n = [nk] /\ clean slot)).
Proof.
  unfold reg_step. intros H.
  pose proof (compare_inclusion_spec cs (k_cpuset k)) as C.
  destruct (compare_inclusion cs (k_cpuset k)).
  - (* EQUAL *) injection H as <- <- <- <-. subst cs. split; [|split]; [| |left; auto].
    + intros p. destruct (_ || _); simpl; lia.
    + intros p. rewrite mem_diff. reflexivity.
  - (* INCLUDED *) destruct tl as [|slot tl0]; [discriminate|].
    destruct (k_arr slot) eqn:Ea; [discriminate|]. injection H as <- <- <- <-.
    split; [|split]; [| |right; eauto].
    + intros p. simpl. rewrite mem_diff, !mem_inter. destruct (mem p cs), (mem p (k_cpuset k)); reflexivity.
    + intros p. rewrite mem_diff, mem_inter. destruct (mem p cs), (mem p (k_cpuset k)); reflexivity.
  - (* CONTAINS *) injection H as <- <- <- <-. split; [|split]; [| |left; auto].
    + intros p. destruct (_ || _); simpl; lia.
    + intros p. rewrite mem_diff. reflexivity.
  - (* INTERSECTS *) destruct tl as [|slot tl0]; [discriminate|].
    destruct (k_arr slot) eqn:Ea; [discriminate|]. injection H as <- <- <- <-.
    split; [|split]; [| |right; eauto].
    + intros p. simpl. rewrite mem_diff, !mem_inter. destruct (mem p cs), (mem p (k_cpuset k)); reflexivity.
    + intros p. rewrite mem_diff, mem_inter. destruct (mem p cs), (mem p (k_cpuset k)); reflexivity.
  - (* DIFFERENT *) injection H as <- <- <- <-. split; [|split]; [| |left; auto].
    + intros p. simpl. lia.
    + intros p. destruct C as [C _]. rewrite bs_intersects_false in C.
      destruct (mem p cs) eqn:E; [|reflexivity]. rewrite (C p E). reflexivity.
Qed.

(* the whole loop: PUs are neither lost nor duplicated; what is left of the
   cpuset; slots consumed *)
Lemma reg_loop_facts flags forced infos : forall olds cs tl r n c t,
  reg_loop flags forced infos olds cs tl = LOk r n c t ->
  (forall p, cnt (r ++ n) p = cnt olds p) /\
  (forall p, mem p c = mem p cs && (cnt olds p =? 0)%nat) /\
  length r = length olds /\
  (exists used, tl = used ++ t /\ length used = length n /\ Forall clean used) /\
  (length n <= length olds)%nat.
Proof.
  induction olds as [|k rest IH]; intros cs tl r n c t H; simpl in H.
  - injection H as <- <- <- <-. split; [|split; [|split; [|split]]]; auto.
    + intros p. simpl. now rewrite andb_true_r.
    + exists []. auto.
  - destruct (reg_step flags forced infos k cs tl) as [k' n1 cs' tl'|] eqn:Es; [|discriminate].
    destruct (reg_step_facts _ _ _ _ _ _ _ _ _ _ Es) as [U1 [U2 U3]].
    destruct (bs_is_empty cs') eqn:Ee.
    + injection H as <- <- <- <-. split; [|split; [|split; [|split]]].
      * intros p. simpl. rewrite cnt_app. specialize (U1 p). lia.
      * intros p. rewrite bs_is_empty_mem in Ee. rewrite (Ee p). specialize (U2 p). rewrite (Ee p) in U2.
        simpl. destruct (mem p cs); [|reflexivity]. simpl in U2.
        destruct (mem p (k_cpuset k)); [reflexivity|discriminate].
      * reflexivity.
      * destruct U3 as [[-> ->]|[slot [nk [-> [-> Hc]]]]].
        -- exists []. auto.
        -- exists [slot]. auto.
      * destruct U3 as [[-> ->]|[slot [nk [-> [-> Hc]]]]]; simpl; lia.
    + destruct (reg_loop flags forced infos rest cs' tl') as [r2 n2 c2 t2|] eqn:El; [|discriminate].
      injection H as <- <- <- <-.
      destruct (IH _ _ _ _ _ _ El) as [I1 [I2 [I3 [[used [I4 [I5 I6]]] I7]]]].
      split; [|split; [|split; [|split]]].
      * intros p. simpl. specialize (U1 p). specialize (I1 p). rewrite !cnt_app in *. lia.
      * intros p. rewrite I2, U2. simpl. destruct (mem p cs), (mem p (k_cpuset k)); simpl; auto.
      * simpl. lia.
      * destruct U3 as [[-> ->]|[slot [nk [-> [-> Hc]]]]].
        -- exists used. auto.
        -- exists (slot :: used). subst tl'. simpl. split; [reflexivity|split; [lia|constructor; auto]].
      * destruct U3 as [[-> ->]|[slot [nk [-> [-> Hc]]]]]; simpl; lia.
Qed.

(* no out-of-bounds slot index as long as one free slot per old kind exists;
   no stale slot touched if all free slots are clean *)
Lemma reg_loop_no_oob flags forced infos : forall olds cs tl,
  (length olds <= length tl)%nat -> reg_loop flags forced infos olds cs tl <> LFatal F_OOB.
Proof.
  induction olds as [|k rest IH]; intros cs tl Hl; simpl; [discriminate|].
  destruct (reg_step flags forced infos k cs tl) as [k' n1 cs' tl'|f] eqn:Es.
  - destruct (reg_step_facts _ _ _ _ _ _ _ _ _ _ Es) as [_ [_ U3]].
    destruct (bs_is_empty cs'); [discriminate|].
    assert (Hl' : (length rest <= length tl')%nat).
    { simpl in Hl. destruct U3 as [[_ ->]|[slot [nk [-> _]]]]; simpl in *; lia. }
    specialize (IH cs' tl' Hl'). destruct (reg_loop flags forced infos rest cs' tl'); congruence.
  - unfold reg_step in Es. simpl in Hl. destruct tl; [simpl in Hl; lia|].
    destruct (compare_inclusion cs (k_cpuset k)); try discriminate;
      destruct (k_arr k0); try discriminate; injection Es as <-; discriminate.
Qed.

Lemma reg_loop_no_stale flags forced infos : forall olds cs tl,
  Forall clean tl -> reg_loop flags forced infos olds cs tl <> LFatal F_STALE.
Proof.
  induction olds as [|k rest IH]; intros cs tl Hc; simpl; [discriminate|].
  destruct (reg_step flags forced infos k cs tl) as [k' n1 cs' tl'|f] eqn:Es.
  - destruct (reg_step_facts _ _ _ _ _ _ _ _ _ _ Es) as [_ [_ U3]].
    destruct (bs_is_empty cs'); [discriminate|].
    assert (Hc' : Forall clean tl').
    { destruct U3 as [[_ ->]|[slot [nk [-> _]]]]; [assumption|]. now inversion Hc. }
    specialize (IH cs' tl' Hc'). destruct (reg_loop flags forced infos rest cs' tl'); congruence.
  - unfold reg_step in Es. destruct (compare_inclusion cs (k_cpuset k)); try discriminate;
      (destruct tl as [|s tl0]; [injection Es as <-; discriminate|]);
      inversion Hc as [|? ? Hs ?]; subst; unfold clean in Hs; rewrite Hs in Es; discriminate.
Qed.

(* ------------------------------------------------------------------ *)
(* the history invariant *)

(* an effective past registration: cpuset (already intersected with the later
   restrictions), forced efficiency as the public entry point passes it on
   (negative values become UNKNOWN), info pairs *)
Record reg := R { r_set : bset; r_forced : Z; r_infos : list info }.

(* forced efficiency of the most recent registration covering s (regs: newest first) *)
Fixpoint last_forced (regs : list reg) (s : bset) : option Z :=
  match regs with
  | [] => None
  | r :: rest => if bs_subset s (r_set r) then Some (r_forced r) else last_forced rest s
  end.

(* [tf] = the forced-efficiency clause is part of the invariant: true for
   callers passing HWLOC_CPUKINDS_REGISTER_FLAG_OVERWRITE_FORCED_EFFICIENCY (the
   public entry point, the XML importer); with tf = false everything else is
   stated for any flags (the OS backends pass 0). *)
Section WithForcedClause.
Variable tf : bool.

Record kind_ok (regs : list reg) (k : kind) : Prop := {
  ko_ne : bs_is_empty (k_cpuset k) = false;
  ko_atom : forall r, In r regs ->
            bs_subset (k_cpuset k) (r_set r) = true \/ bs_intersects (k_cpuset k) (r_set r) = false;
  ko_sup : forall r, In r regs -> bs_subset (k_cpuset k) (r_set r) = true -> incl (r_infos r) (k_infos k);
  ko_exact : forall i, In i (k_infos k) ->
             exists r, In r regs /\ bs_subset (k_cpuset k) (r_set r) = true /\ In i (r_infos r);
  ko_nodup : NoDup (k_infos k);
  ko_forced : tf = true -> last_forced regs (k_cpuset k) = Some (k_forced k);
  ko_arr : k_arr k = false -> k_infos k = []
}.

Definition registered (regs : list reg) (p : N) : bool := existsb (fun r => mem p (r_set r)) regs.

(* slots whose array pointer is NULL hold no infos (count = 0) *)
Definition slot_wf (s : kind) : Prop := k_arr s = false -> k_infos s = [].

Record Inv (regs : list reg) (st : state) : Prop := {
  inv_kinds : Forall (kind_ok regs) (kinds st);
  inv_part : forall p, cnt (kinds st) p = b2n (registered regs p);
  inv_tail : Forall slot_wf (tail st)
}.

Lemma last_forced_ext regs a b :
  (forall r, In r regs -> bs_subset a (r_set r) = bs_subset b (r_set r)) ->
  last_forced regs a = last_forced regs b.
Proof.
  induction regs as [|r regs IH]; simpl; intros H; [reflexivity|].
  rewrite (H r (or_introl eq_refl)). destruct (bs_subset b (r_set r)); [reflexivity|].
  apply IH. intros r' Hr'. apply H. now right.
Qed.

(* for a non-empty part s of a kind k, "s inside r" and "k inside r" agree *)
Lemma sub_part_eq regs k s r :
  kind_ok regs k -> In r regs -> bs_is_empty s = false -> bs_subset s (k_cpuset k) = true ->
  bs_subset s (r_set r) = bs_subset (k_cpuset k) (r_set r).
Proof.
  intros Hk Hr Hne Hs. destruct (ko_atom _ _ Hk r Hr) as [H|H].
  - rewrite H. apply bs_subset_spec. intros p Hp.
    rewrite bs_subset_spec in Hs, H. auto.
  - destruct (bs_subset (k_cpuset k) (r_set r)) eqn:E.
    + apply bs_subset_spec. intros p Hp. rewrite bs_subset_spec in Hs, E. auto.
    + apply bs_subset_false. apply bs_nonempty_mem in Hne. destruct Hne as [p Hp].
      exists p. split; [exact Hp|]. rewrite bs_intersects_false in H. apply H.
      rewrite bs_subset_spec in Hs. auto.
Qed.

Lemma kind_ok_shrink regs k s :
  kind_ok regs k -> bs_is_empty s = false -> bs_subset s (k_cpuset k) = true ->
  kind_ok regs (set_cpuset k s).
Proof.
  intros Hk Hne Hs. constructor; simpl.
  - exact Hne.
  - intros r Hr. rewrite (sub_part_eq regs k s r Hk Hr Hne Hs).
    destruct (ko_atom _ _ Hk r Hr) as [H|H]; [left; exact H|right].
    rewrite bs_intersects_false in *. intros p Hp. apply H. rewrite bs_subset_spec in Hs. auto.
  - intros r Hr. rewrite (sub_part_eq regs k s r Hk Hr Hne Hs). apply (ko_sup _ _ Hk r Hr).
  - intros i Hi. destruct (ko_exact _ _ Hk i Hi) as [r [H1 [H2 H3]]].
    exists r. split; [exact H1|split; [|exact H3]].
    rewrite (sub_part_eq regs k s r Hk H1 Hne Hs). exact H2.
  - apply (ko_nodup _ _ Hk).
  - intros Htf. rewrite <- (ko_forced _ _ Hk Htf). apply last_forced_ext. intros r Hr.
    apply (sub_part_eq regs k s r Hk Hr Hne Hs).
  - apply (ko_arr _ _ Hk).
Qed.

(* a kind untouched by a new registration it is disjoint from *)
Lemma kind_ok_cons_disj regs k r0 :
  kind_ok regs k -> (forall p, mem p (k_cpuset k) = true -> mem p (r_set r0) = false) ->
  kind_ok (r0 :: regs) k.
Proof.
  intros Hk Hd.
  assert (Hns : bs_subset (k_cpuset k) (r_set r0) = false).
  { apply bs_subset_false. pose proof (ko_ne _ _ Hk) as Hne. apply bs_nonempty_mem in Hne.
    destruct Hne as [p Hp]. exists p. auto. }
  constructor.
  - apply (ko_ne _ _ Hk).
  - intros r [<-|Hr]; [right; now apply bs_intersects_false|apply (ko_atom _ _ Hk r Hr)].
  - intros r [<-|Hr] Hsub; [congruence|apply (ko_sup _ _ Hk r Hr Hsub)].
  - intros i Hi. destruct (ko_exact _ _ Hk i Hi) as [r [H1 H2]]. exists r. split; [now right|exact H2].
  - apply (ko_nodup _ _ Hk).
  - intros Htf. simpl. rewrite Hns. apply (ko_forced _ _ Hk Htf).
  - apply (ko_arr _ _ Hk).
Qed.

(* a kind made of a non-empty part of an old kind that lies inside the new
   registration, carrying the old infos and the new ones *)
Lemma kind_ok_cons_sub regs k r0 k2 :
  kind_ok regs k ->
  bs_is_empty (k_cpuset k2) = false ->
  bs_subset (k_cpuset k2) (k_cpuset k) = true ->
  bs_subset (k_cpuset k2) (r_set r0) = true ->
  (forall i, In i (k_infos k2) <-> In i (k_infos k) \/ In i (r_infos r0)) ->
  NoDup (k_infos k2) ->
  (tf = true -> k_forced k2 = r_forced r0) ->
  (k_arr k2 = false -> k_infos k2 = []) ->
  kind_ok (r0 :: regs) k2.
Proof.
  intros Hk Hne Hs Hs0 Hinf Hnd Hf Harr.
  pose proof (kind_ok_shrink regs k (k_cpuset k2) Hk Hne Hs) as Hsh.
  constructor.
  - exact Hne.
  - intros r [<-|Hr]; [left; exact Hs0|apply (ko_atom _ _ Hsh r Hr)].
  - intros r [<-|Hr] Hsub i Hi; apply Hinf; [now right|left].
    rewrite (sub_part_eq regs k _ r Hk Hr Hne Hs) in Hsub. apply (ko_sup _ _ Hk r Hr Hsub i Hi).
  - intros i Hi. apply Hinf in Hi. destruct Hi as [Hi|Hi].
    + destruct (ko_exact _ _ Hk i Hi) as [r [H1 [H2 H3]]]. exists r. split; [now right|split; [|exact H3]].
      rewrite (sub_part_eq regs k _ r Hk H1 Hne Hs). exact H2.
    + exists r0. split; [now left|auto].
  - exact Hnd.
  - intros Htf. simpl. rewrite Hs0, (Hf Htf). reflexivity.
  - exact Harr.
Qed.

(* the final kind: PUs of the new registration that no kind contained *)
Lemma kind_ok_cons_rest regs r0 k2 :
  bs_is_empty (k_cpuset k2) = false ->
  bs_subset (k_cpuset k2) (r_set r0) = true ->
  (forall p, mem p (k_cpuset k2) = true -> registered regs p = false) ->
  (forall i, In i (k_infos k2) <-> In i (r_infos r0)) ->
  NoDup (k_infos k2) ->
  (tf = true -> k_forced k2 = r_forced r0) ->
  (k_arr k2 = false -> k_infos k2 = []) ->
  kind_ok (r0 :: regs) k2.
Proof.
  intros Hne Hs0 Hd Hinf Hnd Hf Harr.
  assert (Hdis : forall r, In r regs -> bs_intersects (k_cpuset k2) (r_set r) = false).
  { intros r Hr. apply bs_intersects_false. intros p Hp. specialize (Hd p Hp).
    unfold registered in Hd. destruct (mem p (r_set r)) eqn:E; [|reflexivity].
    assert (existsb (fun r => mem p (r_set r)) regs = true) by (apply existsb_exists; eauto). congruence. }
  assert (Hnsub : forall r, In r regs -> bs_subset (k_cpuset k2) (r_set r) = false).
  { intros r Hr. apply bs_subset_false. apply bs_nonempty_mem in Hne. destruct Hne as [p Hp].
    exists p. split; [exact Hp|]. specialize (Hdis r Hr). rewrite bs_intersects_false in Hdis. auto. }
  constructor.
  - exact Hne.
  - intros r [<-|Hr]; [left; exact Hs0|right; auto].
  - intros r [<-|Hr] Hsub i Hi; [now apply Hinf|rewrite (Hnsub r Hr) in Hsub; discriminate].
  - intros i Hi. exists r0. split; [now left|split; [exact Hs0|now apply Hinf]].
  - exact Hnd.
  - intros Htf. simpl. rewrite Hs0, (Hf Htf). reflexivity.
  - exact Harr.
Qed.

Lemma set_infos_arr k l : slot_wf k -> k_arr (set_infos k l) = false -> l = [].
Proof.
  unfold slot_wf, set_infos. simpl. intros Hw H. apply orb_false_iff in H. destruct H as [Ha Hl].
  rewrite (Hw Ha) in Hl. simpl in Hl. destruct l; [reflexivity|discriminate].
Qed.

(* one step preserves the per-kind invariant w.r.t. the new registration *)
Lemma reg_step_ok regs cs0 flags forced infos k cs tl k' n cs' tl' :
  reg_step flags forced infos k cs tl = SOk k' n cs' tl' ->
  bs_is_empty cs = false ->
  (forall p, mem p (k_cpuset k) = true -> mem p cs = mem p cs0) ->
  Forall slot_wf tl ->
  (tf = true -> (N.land flags OVERWRITE =? 0)%N = false) ->
  kind_ok regs k ->
  kind_ok (R cs0 forced (infos_of infos) :: regs) k' /\
  Forall (kind_ok (R cs0 forced (infos_of infos) :: regs)) n.
Proof.
  intros Es Hne Hrun Htl Hfl Hk. unfold reg_step in Es.
  pose proof (compare_inclusion_spec cs (k_cpuset k)) as C.
  set (r0 := R cs0 forced (infos_of infos)).
  (* the two merge cases *)
  assert (Merge : bs_subset (k_cpuset k) cs = true ->
          kind_ok (r0 :: regs) (if negb (N.land flags OVERWRITE =? 0)%N || (k_forced k =? UNKNOWN)
                                then set_forced (set_infos k (add_infos_opt (k_infos k) infos)) forced
                                else set_infos k (add_infos_opt (k_infos k) infos))).
  { intros Hkc. destruct (add_infos_opt_spec (k_infos k) infos) as [A1 [A2 _]].
    assert (G : forall k2, k_cpuset k2 = k_cpuset k -> k_infos k2 = add_infos_opt (k_infos k) infos ->
                k_arr k2 = k_arr (set_infos k (add_infos_opt (k_infos k) infos)) ->
                (tf = true -> k_forced k2 = forced) -> kind_ok (r0 :: regs) k2).
    { intros k2 E1 E2 E3 E4. apply (kind_ok_cons_sub regs k r0); rewrite ?E1, ?E2; simpl; auto.
      - apply (ko_ne _ _ Hk).
      - apply bs_subset_refl.
      - apply bs_subset_spec. intros p Hp. rewrite <- (Hrun p Hp). rewrite bs_subset_spec in Hkc. auto.
      - apply A2, (ko_nodup _ _ Hk).
      - rewrite E3. intros Ha. apply (set_infos_arr k); [exact (ko_arr _ _ Hk)|exact Ha]. }
    destruct (negb (N.land flags OVERWRITE =? 0)%N || (k_forced k =? UNKNOWN)) eqn:Ec.
    - apply G; reflexivity || auto.
    - apply G; try reflexivity. intros Htf. rewrite (Hfl Htf) in Ec. discriminate. }
  (* the two split cases *)
  assert (Split : forall slot,
          bs_is_empty (bs_diff (k_cpuset k) (bs_inter cs (k_cpuset k))) = false ->
          bs_is_empty (bs_inter cs (k_cpuset k)) = false ->
          slot_wf slot -> k_arr slot = false ->
          kind_ok (r0 :: regs) (set_cpuset k (bs_diff (k_cpuset k) (bs_inter cs (k_cpuset k)))) /\
          kind_ok (r0 :: regs) (set_infos (K (bs_inter cs (k_cpuset k)) UNKNOWN forced (k_rank slot) (k_infos slot) false)
                      (add_infos_opt (add_infos (k_infos slot) (k_infos k)) infos))).
  { intros slot Hn1 Hn2 Hw Ha. split.
    - apply kind_ok_cons_disj.
      + apply kind_ok_shrink; [exact Hk|exact Hn1|].
        apply bs_subset_spec. intros p. rewrite mem_diff. intros H. apply andb_true_iff in H. tauto.
      + simpl. intros p. rewrite mem_diff, mem_inter. intros H. apply andb_true_iff in H. destruct H as [H1 H2].
        rewrite <- (Hrun p H1). rewrite H1, andb_true_r in H2. now apply negb_true_iff.
    - destruct (add_infos_spec (k_infos k) (k_infos slot)) as [B1 [B2 _]].
      destruct (add_infos_opt_spec (add_infos (k_infos slot) (k_infos k)) infos) as [A1 [A2 _]].
      rewrite (Hw Ha) in *.
      apply (kind_ok_cons_sub regs k r0); simpl; auto.
      + apply bs_subset_spec. intros p. rewrite mem_inter. intros H. apply andb_true_iff in H. tauto.
      + apply bs_subset_spec. intros p. rewrite mem_inter. intros H. apply andb_true_iff in H.
        destruct H as [H1 H2]. rewrite <- (Hrun p H2). exact H1.
      + intros i. rewrite A1, B1. simpl. tauto.
      + apply A2, B2. constructor.
      + intros H. apply (set_infos_arr (K (bs_inter cs (k_cpuset k)) UNKNOWN forced (k_rank slot) [] false)); [|exact H].
        intros _. reflexivity. }
  destruct (compare_inclusion cs (k_cpuset k)).
  - (* EQUAL *) injection Es as <- <- <- <-. split; [|constructor].
    apply Merge. rewrite C. apply bs_subset_refl.
  - (* INCLUDED *) destruct tl as [|slot tl0]; [discriminate|].
    destruct (k_arr slot) eqn:Ea; [discriminate|]. injection Es as <- <- <- <-.
    destruct C as [C1 C2]. inversion Htl as [|? ? Hw Htl0]; subst.
    destruct (Split slot) as [S1 S2]; auto.
    + destruct (bs_strict_subset_witness _ _ C1 C2) as [p [P1 P2]]. apply bs_nonempty_mem. exists p.
      rewrite mem_diff, mem_inter, P1, P2. reflexivity.
    + apply bs_nonempty_mem in Hne. destruct Hne as [p Hp]. apply bs_nonempty_mem. exists p.
      rewrite mem_inter, Hp. rewrite bs_subset_spec in C1. rewrite (C1 p Hp). reflexivity.
  - (* CONTAINS *) injection Es as <- <- <- <-. split; [|constructor].
    apply Merge. apply C.
  - (* INTERSECTS *) destruct tl as [|slot tl0]; [discriminate|].
    destruct (k_arr slot) eqn:Ea; [discriminate|]. injection Es as <- <- <- <-.
    destruct C as [C1 [C2 C3]]. inversion Htl as [|? ? Hw Htl0]; subst.
    destruct (Split slot) as [S1 S2]; auto.
    + apply bs_subset_false in C2. destruct C2 as [p [P1 P2]]. apply bs_nonempty_mem. exists p.
      rewrite mem_diff, mem_inter, P1, P2. reflexivity.
    + apply bs_intersects_spec in C3. destruct C3 as [p [P1 P2]]. apply bs_nonempty_mem. exists p.
      rewrite mem_inter, P1, P2. reflexivity.
  - (* DIFFERENT *) injection Es as <- <- <- <-. split; [|constructor].
    apply kind_ok_cons_disj; [exact Hk|]. simpl. intros p Hp. rewrite <- (Hrun p Hp).
    destruct C as [C _]. rewrite bs_intersects_false in C.
    destruct (mem p cs) eqn:E; [|reflexivity]. rewrite (C p E) in Hp. discriminate.
Qed.

Lemma reg_loop_ok regs cs0 flags forced infos : forall olds cs tl r n c t,
  reg_loop flags forced infos olds cs tl = LOk r n c t ->
  bs_is_empty cs = false ->
  (forall k p, In k olds -> mem p (k_cpuset k) = true -> mem p cs = mem p cs0) ->
  (forall p, (cnt olds p <= 1)%nat) ->
  Forall slot_wf tl ->
  (tf = true -> (N.land flags OVERWRITE =? 0)%N = false) ->
  Forall (kind_ok regs) olds ->
  Forall (kind_ok (R cs0 forced (infos_of infos) :: regs)) (r ++ n) /\ Forall slot_wf t.
Proof.
  induction olds as [|k rest IH]; intros cs tl r n c t H Hne Hrun Hpd Htl Hfl Hok; simpl in H.
  - injection H as <- <- <- <-. split; [constructor|exact Htl].
  - destruct (reg_step flags forced infos k cs tl) as [k' n1 cs' tl'|] eqn:Es; [|discriminate].
    destruct (reg_step_facts _ _ _ _ _ _ _ _ _ _ Es) as [U1 [U2 U3]].
    inversion Hok as [|? ? Hk Hrest]; subst.
    destruct (reg_step_ok regs cs0 _ _ _ _ _ _ _ _ _ _ Es Hne) as [S1 S2]; auto.
    { intros p Hp. apply (Hrun k p); [now left|exact Hp]. }
    assert (Htl' : Forall slot_wf tl').
    { destruct U3 as [[_ ->]|[slot [nk [-> _]]]]; [exact Htl|now inversion Htl]. }
    assert (Hnotk : forall k2 p, In k2 rest -> mem p (k_cpuset k2) = true -> mem p (k_cpuset k) = false).
    { intros k2 p Hin Hp. pose proof (cnt_in rest k2 p Hin Hp). specialize (Hpd p). simpl in Hpd.
      destruct (mem p (k_cpuset k)); [simpl in Hpd; lia|reflexivity]. }
    destruct (bs_is_empty cs') eqn:Ee.
    + injection H as <- <- <- <-. split; [|exact Htl'].
      simpl. constructor; [exact S1|]. apply Forall_app. split; [|exact S2].
      rewrite Forall_forall in *. intros k2 Hin. apply kind_ok_cons_disj; [auto|].
      simpl. intros p Hp. rewrite <- (Hrun k2 p (or_intror Hin) Hp).
      rewrite bs_is_empty_mem in Ee. specialize (U2 p). rewrite (Ee p), (Hnotk k2 p Hin Hp) in U2.
      simpl in U2. rewrite andb_true_r in U2. auto.
    + destruct (reg_loop flags forced infos rest cs' tl') as [r2 n2 c2 t2|] eqn:El; [|discriminate].
      injection H as <- <- <- <-.
      destruct (IH _ _ _ _ _ _ El) as [I1 I2]; auto.
      { intros k2 p Hin Hp. rewrite U2, (Hnotk k2 p Hin Hp). simpl. rewrite andb_true_r.
        apply (Hrun k2 p); [now right|exact Hp]. }
      { intros p. specialize (Hpd p). simpl in Hpd. lia. }
      split; [|exact I2]. simpl. constructor; [exact S1|].
      apply Forall_app in I1. destruct I1 as [I1a I1b].
      apply Forall_app. split; [exact I1a|]. apply Forall_app. split; assumption.
Qed.

(* growing the array changes neither the kinds nor the invariant *)
Lemma grow_spec st st1 : grow st = Some st1 ->
  kinds st1 = kinds st /\ (exists z, tail st1 = tail st ++ repeat zero_slot z) /\
  (length (kinds st) + 1 <= length (tail st1))%nat.
Proof.
  unfold grow, wanted_capacity. set (n := N.of_nat (length (kinds st))).
  destruct (_ <=? _)%N eqn:Eb; [discriminate|].
  set (m := (2 ^ (N.size (2 * n + 1 - 1) + 1))%N).
  assert (Hm : (2 * n + 2 <= m)%N).
  { unfold m. replace (2 * n + 1 - 1)%N with (2 * n)%N by lia.
    pose proof (N.size_gt (2 * n)) as Hs. rewrite N.pow_add_r. simpl (2 ^ 1)%N. lia. }
  set (cap := if (m <? 8)%N then 8%N else m).
  assert (Hcap : (2 * n + 2 <= cap)%N) by (unfold cap; destruct (m <? 8)%N eqn:E; lia).
  unfold nr_allocated. intros H.
  destruct (N.of_nat (length (kinds st) + length (tail st)) <? cap)%N eqn:El; injection H as <-; simpl.
  - split; [reflexivity|]. split; [eexists; reflexivity|]. rewrite app_length, repeat_length. lia.
  - split; [reflexivity|]. split; [exists 0%nat; simpl; now rewrite app_nil_r|]. lia.
Qed.

Lemma zero_slots_wf z : Forall slot_wf (repeat zero_slot z).
Proof. induction z; simpl; constructor; auto. intros _. reflexivity. Qed.

(* hwloc_internal_cpukinds_register keeps the invariant, extended by the new registration *)
Lemma internal_register_inv regs st cs forced infos flags st' :
  Inv regs st ->
  internal_register st cs forced infos flags = IOk st' ->
  (tf = true -> (N.land flags OVERWRITE =? 0)%N = false) ->
  Inv (R cs forced (infos_of infos) :: regs) st'.
Proof.
  intros [Ik Ip It] H Hfl. unfold internal_register in H.
  destruct (bs_is_empty cs) eqn:Hne; [discriminate|].
  destruct (negb _); [discriminate|].
  destruct (grow st) as [st1|] eqn:Eg; [|discriminate].
  destruct (grow_spec _ _ Eg) as [G1 [[z G2] G3]].
  destruct (reg_loop flags forced infos (kinds st1) cs (tail st1)) as [olds news cs' tl|] eqn:El; [|discriminate].
  rewrite G1 in El.
  assert (Htl1 : Forall slot_wf (tail st1)).
  { rewrite G2. apply Forall_app. split; [exact It|apply zero_slots_wf]. }
  destruct (reg_loop_facts _ _ _ _ _ _ _ _ _ _ El) as [F1 [F2 _]].
  destruct (reg_loop_ok regs cs _ _ _ _ _ _ _ _ _ _ El Hne) as [O1 O2]; auto.
  { intros p. rewrite Ip. destruct (registered regs p); simpl; lia. }
  assert (Hpart : forall p, (cnt (olds ++ news) p + b2n (mem p cs'))%nat =
                            b2n (registered (R cs forced (infos_of infos) :: regs) p)).
  { intros p. rewrite F1, F2, Ip. simpl. destruct (mem p cs), (registered regs p); reflexivity. }
  destruct (bs_is_empty cs') eqn:Ee.
  - injection H as <-. constructor; cbn [kinds tail]; auto.
    intros p. rewrite <- Hpart. rewrite bs_is_empty_mem in Ee. rewrite (Ee p). simpl. lia.
  - destruct tl as [|slot tl']; [discriminate|].
    destruct (k_arr slot) eqn:Ea; [discriminate|]. injection H as <-.
    inversion O2 as [|? ? Hw O2']; subst.
    constructor; cbn [kinds tail]; auto.
    + apply Forall_app in O1. destruct O1 as [O1a O1b].
      apply Forall_app. split; [exact O1a|]. apply Forall_app. split; [exact O1b|].
      constructor; [|constructor].
      destruct (add_infos_opt_spec (k_infos slot) infos) as [A1 [A2 _]]. rewrite (Hw Ea) in *.
      apply kind_ok_cons_rest; simpl; auto.
      * apply bs_subset_spec. intros p. rewrite F2. intros Hp. apply andb_true_iff in Hp. tauto.
      * intros p. rewrite F2, Ip. intros Hp. apply andb_true_iff in Hp. destruct Hp as [_ Hp].
        destruct (registered regs p); [discriminate|reflexivity].
      * intros i. rewrite A1. simpl. tauto.
      * apply A2. constructor.
      * intros Hx. apply (set_infos_arr (K cs' UNKNOWN forced (k_rank slot) [] false)); [|exact Hx].
        intros _. reflexivity.
    + intros p. rewrite <- Hpart. rewrite app_assoc, cnt_app. simpl. lia.
Qed.

(* ------------------------------------------------------------------ *)
(* bounds: capacity, growth of the number of kinds, fatal outcomes *)

Lemma size_le_of_lt n k : (n < 2 ^ k)%N -> (N.size n <= k)%N.
Proof.
  intros H. destruct (N.eq_dec n 0) as [->|Hn]; [simpl; lia|].
  rewrite (N.size_log2 n Hn). apply N.le_succ_l. apply N.log2_lt_pow2; lia.
Qed.

Lemma wanted_capacity_none n : wanted_capacity n = None <-> (2 ^ 29 <= n)%N.
Proof.
  unfold wanted_capacity. replace (2 * n + 1 - 1)%N with (2 * n)%N by lia.
  change CPUKIND_SIZEOF_UNSIGNED_BITS with 32%N.
  destruct (32 <=? N.size (2 * n) + 1)%N eqn:E.
  - split; [intros _|reflexivity]. apply N.leb_le in E.
    destruct (N.lt_ge_cases n (2 ^ 29)) as [Hlt|]; [|assumption]. exfalso.
    assert (N.size (2 * n) <= 30)%N; [|lia].
    apply size_le_of_lt. change (2 ^ 30)%N with (2 * 2 ^ 29)%N. lia.
  - split; [discriminate|]. intros H. apply N.leb_gt in E. exfalso.
    assert (2 ^ 30 <= 2 * n)%N by (change (2 ^ 30)%N with (2 * 2 ^ 29)%N; lia).
    pose proof (N.size_gt (2 * n)) as Hs.
    assert (N.size (2 * n) <= 30)%N by lia.
    assert (2 ^ N.size (2 * n) <= 2 ^ 30)%N by (apply N.pow_le_mono_r; lia). lia.
Qed.

Lemma grow_none st : grow st = None <-> (2 ^ 29 <= N.of_nat (length (kinds st)))%N.
Proof.
  unfold grow. rewrite <- wanted_capacity_none.
  destruct (wanted_capacity (N.of_nat (length (kinds st)))); [|tauto].
  destruct (_ <? _)%N; split; discriminate.
Qed.

(* register_in_bounds: every slot index written is inside the allocated array,
   at most nr+1 kinds are added, and the undefined shift needs 2^29 kinds *)
Lemma internal_register_bounds st cs forced infos flags :
  internal_register st cs forced infos flags <> IFatal F_OOB /\
  (internal_register st cs forced infos flags = IFatal F_UB -> (2 ^ 29 <= N.of_nat (length (kinds st)))%N) /\
  (forall st', internal_register st cs forced infos flags = IOk st' ->
     (length (kinds st) <= length (kinds st') <= 2 * length (kinds st) + 1)%nat /\
     (2 * length (kinds st) + 1 <= nr_allocated st')%nat /\
     (nr_allocated st <= nr_allocated st')%nat).
Proof.
  unfold internal_register.
  destruct (bs_is_empty cs); [repeat split; try discriminate|].
  destruct (negb _); [repeat split; try discriminate|].
  destruct (grow st) as [st1|] eqn:Eg.
  2:{ split; [discriminate|]. split; [|discriminate]. intros _. now apply grow_none. }
  destruct (grow_spec _ _ Eg) as [G1 [[z G2] G3]].
  pose proof (reg_loop_no_oob flags forced infos (kinds st1) cs (tail st1)) as NO.
  rewrite G1 in NO. specialize (NO ltac:(lia)).
  destruct (reg_loop flags forced infos (kinds st1) cs (tail st1)) as [olds news cs' tl|f] eqn:El.
  - rewrite G1 in El.
    destruct (reg_loop_facts _ _ _ _ _ _ _ _ _ _ El) as [_ [_ [F3 [[used [F4 [F5 _]]] F6]]]].
    assert (Hlen : (length used + length tl = length (tail st1))%nat) by (rewrite F4, app_length; lia).
    assert (Hall : (nr_allocated st <= length (kinds st) + length (tail st1))%nat).
    { unfold nr_allocated. rewrite G2, app_length. lia. }
    destruct (bs_is_empty cs').
    + split; [discriminate|]. split; [discriminate|]. intros st' [= <-]. unfold nr_allocated in *. simpl.
      rewrite app_length. lia.
    + destruct tl as [|slot tl']; [simpl in Hlen; lia|].
      destruct (k_arr slot); [repeat split; discriminate|].
      split; [discriminate|]. split; [discriminate|]. intros st' [= <-]. unfold nr_allocated in *. simpl.
      rewrite !app_length. simpl in *. lia.
  - split; [congruence|]. split; [|discriminate]. intros [= ->].
    exfalso. clear - El. revert El. generalize (tail st1) as tl, cs as c. generalize (kinds st1) as olds.
    induction olds as [|k rest IH]; intros tl c; simpl; [discriminate|].
    destruct (reg_step flags forced infos k c tl) as [k' n1 cs' tl'|f] eqn:Es.
    + destruct (bs_is_empty cs'); [discriminate|]. specialize (IH tl' cs').
      destruct (reg_loop flags forced infos rest cs' tl'); [discriminate|]. intros [= ->]. now apply IH.
    + intros [= ->]. unfold reg_step in Es.
      destruct (compare_inclusion c (k_cpuset k)); try discriminate;
        destruct tl; try discriminate; destruct (k_arr k0); discriminate.
Qed.

(* the stale-slot memory error needs a slot whose array pointer is not NULL *)
Lemma internal_register_clean st cs forced infos flags :
  Forall clean (tail st) ->
  internal_register st cs forced infos flags <> IFatal F_STALE /\
  (forall st', internal_register st cs forced infos flags = IOk st' -> Forall clean (tail st')).
Proof.
  intros Hc. unfold internal_register.
  destruct (bs_is_empty cs); [split; discriminate|].
  destruct (negb _); [split; discriminate|].
  destruct (grow st) as [st1|] eqn:Eg; [|split; discriminate].
  destruct (grow_spec _ _ Eg) as [G1 [[z G2] G3]].
  assert (Hc1 : Forall clean (tail st1)).
  { rewrite G2. apply Forall_app. split; [exact Hc|]. clear. induction z; simpl; constructor; auto. reflexivity. }
  pose proof (reg_loop_no_stale flags forced infos (kinds st1) cs (tail st1) Hc1) as NS.
  destruct (reg_loop flags forced infos (kinds st1) cs (tail st1)) as [olds news cs' tl|f] eqn:El.
  - destruct (reg_loop_facts _ _ _ _ _ _ _ _ _ _ El) as [_ [_ [_ [[used [F4 _]] _]]]].
    assert (Hct : Forall clean tl) by (rewrite F4 in Hc1; apply Forall_app in Hc1; tauto).
    destruct (bs_is_empty cs'); [split; [discriminate|intros st' [= <-]; exact Hct]|].
    destruct tl as [|slot tl']; [split; discriminate|].
    inversion Hct as [|? ? Hs Hct']; subst. unfold clean in Hs. rewrite Hs.
    split; [discriminate|intros st' [= <-]; exact Hct'].
  - split; [congruence|discriminate].
Qed.

(* ------------------------------------------------------------------ *)
(* ranking *)

(* what the invariant looks at; ranking only permutes kinds and rewrites
   efficiency / ranking_value *)
Definition core (k : kind) := (k_cpuset k, k_forced k, k_infos k, k_arr k).

Lemma kind_ok_core regs a b : core a = core b -> kind_ok regs a -> kind_ok regs b.
Proof.
  destruct a, b. unfold core. simpl. intros [= -> -> -> ->] [H1 H2 H3 H4 H5 H6 H7].
  constructor; simpl in *; auto.
Qed.

Lemma core_cpuset a b : map core a = map core b -> map k_cpuset a = map k_cpuset b.
Proof.
  intros H. assert (G : forall l, map k_cpuset l = map (fun c => fst (fst (fst c))) (map core l)).
  { intros l. rewrite map_map. reflexivity. }
  rewrite !G, H. reflexivity.
Qed.

Lemma Inv_core_perm regs st ks' :
  Inv regs st -> Permutation (map core ks') (map core (kinds st)) -> Inv regs (St ks' (tail st)).
Proof.
  intros [Ik Ip It] Hp. constructor; simpl; auto.
  - rewrite Forall_forall in *. intros k Hk.
    assert (In (core k) (map core (kinds st))).
    { eapply Permutation_in; [exact Hp|]. now apply in_map. }
    apply in_map_iff in H. destruct H as [k2 [H1 H2]]. apply (kind_ok_core regs k2 k H1). auto.
  - intros p. rewrite <- Ip. apply cnt_perm.
    assert (G : forall l, map k_cpuset l = map (fun c => fst (fst (fst c))) (map core l)).
    { intros l. rewrite map_map. reflexivity. }
    rewrite !G. now apply Permutation_map.
Qed.

Lemma try_forced_loop_core ks : map core (fst (try_forced_loop ks)) = map core ks.
Proof.
  induction ks as [|k r IH]; simpl; [reflexivity|].
  destruct (k_forced k =? UNKNOWN); [reflexivity|].
  destruct (try_forced_loop r) as [r' ok]. simpl in *. now rewrite IH.
Qed.

Lemma try_forced_core ks : map core (fst (try_forced ks)) = map core ks.
Proof.
  unfold try_forced. pose proof (try_forced_loop_core ks) as H.
  destruct (try_forced_loop ks) as [ks' ok]. destruct ok; exact H.
Qed.

Lemma set_ranks_core rs : forall ks, map core (set_ranks ks rs) = map core ks.
Proof.
  induction rs as [|x rs IH]; intros [|k ks]; simpl; try reflexivity. now rewrite IH.
Qed.

Lemma try_info_core h ks : map core (fst (try_info h ks)) = map core ks.
Proof.
  unfold try_info. destruct (info_rank_values h (map summarize ks)); simpl; [apply set_ranks_core|reflexivity].
Qed.

Lemma insert_kind_perm x l : Permutation (insert_kind x l) (x :: l).
Proof.
  induction l as [|y r IH]; simpl; [reflexivity|].
  destruct (k_rank x <=? k_rank y); [reflexivity|].
  rewrite IH. apply perm_swap.
Qed.

Lemma sort_kinds_perm l : Permutation (sort_kinds l) l.
Proof.
  induction l as [|x l IH]; simpl; [reflexivity|]. rewrite insert_kind_perm. now constructor.
Qed.

Lemma insert_kind_sorted x l :
  StronglySorted Z.le (map k_rank l) -> StronglySorted Z.le (map k_rank (insert_kind x l)).
Proof.
  induction l as [|y r IH]; simpl; intros H.
  - constructor; constructor.
  - inversion H as [|? ? Hs Hf]; subst.
    destruct (Z.leb_spec (k_rank x) (k_rank y)) as [Hle|Hgt]; simpl.
    + constructor; [exact H|]. constructor; [exact Hle|].
      eapply Forall_impl; [|exact Hf]. intros z Hz. lia.
    + constructor; [apply IH; exact Hs|].
      eapply Permutation_Forall; [symmetry; apply Permutation_map, insert_kind_perm|].
      simpl. constructor; [lia|exact Hf].
Qed.

Lemma sort_kinds_sorted l : StronglySorted Z.le (map k_rank (sort_kinds l)).
Proof.
  induction l as [|x l IH]; simpl; [constructor|]. now apply insert_kind_sorted.
Qed.

Lemma dup_ranks_false l : dup_ranks l = false <-> NoDup l.
Proof.
  induction l as [|x r IH]; simpl.
  - split; [constructor|reflexivity].
  - rewrite orb_false_iff, IH. split.
    + intros [H1 H2]. constructor; [|exact H2]. intros Hin.
      assert (existsb (Z.eqb x) r = true) by (apply existsb_exists; exists x; split; [exact Hin|apply Z.eqb_refl]).
      congruence.
    + intros H. inversion H as [|? ? Hn Hd]; subst. split; [|exact Hd].
      destruct (existsb (Z.eqb x) r) eqn:E; [|reflexivity].
      apply existsb_exists in E. destruct E as [y [Hy He]]. apply Z.eqb_eq in He. subst. contradiction.
Qed.

Lemma sorted_strict l : StronglySorted Z.le l -> NoDup l -> StronglySorted Z.lt l.
Proof.
  induction 1 as [|x r Hs IH Hf]; intros Hd; [constructor|].
  inversion Hd as [|? ? Hn Hd']; subst. constructor; [auto|].
  rewrite Forall_forall in *. intros y Hy. specialize (Hf y Hy).
  assert (x <> y) by (intros ->; contradiction). lia.
Qed.

Lemma set_effs_core l : forall z, map core (set_effs z l) = map core l.
Proof. induction l as [|k r IH]; intros z; simpl; [reflexivity|]. now rewrite IH. Qed.
Lemma set_effs_rank l : forall z, map k_rank (set_effs z l) = map k_rank l.
Proof. induction l as [|k r IH]; intros z; simpl; [reflexivity|]. now rewrite IH. Qed.
Lemma set_effs_forced l : forall z, map k_forced (set_effs z l) = map k_forced l.
Proof. induction l as [|k r IH]; intros z; simpl; [reflexivity|]. now rewrite IH. Qed.
Lemma set_effs_nth l : forall z i k, nth_error (set_effs z l) i = Some k -> k_eff k = z + Z.of_nat i.
Proof.
  induction l as [|x r IH]; intros z [|i] k; simpl; try discriminate.
  - intros [= <-]. simpl. lia.
  - intros H. rewrite (IH _ _ _ H). lia.
Qed.
Lemma clear_effs_core l : map core (clear_effs l) = map core l.
Proof. unfold clear_effs. rewrite map_map. reflexivity. Qed.

(* after ranking: efficiency = index *)
Definition ranked (l : list kind) : Prop := forall i k, nth_error l i = Some k -> k_eff k = Z.of_nat i.
Definition unranked (l : list kind) : Prop := Forall (fun k => k_eff k = UNKNOWN) l.

Lemma finalize_spec x :
  ranked (finalize x) /\ Permutation (map core (finalize x)) (map core x) /\
  (dup_ranks (map k_rank x) = false -> StronglySorted Z.lt (map k_rank (finalize x))) /\
  Permutation (finalize x) (set_effs 0 (sort_kinds x)).
Proof.
  unfold finalize. split; [|split; [|split]].
  - intros i k H. apply set_effs_nth in H. lia.
  - rewrite set_effs_core. apply Permutation_map, sort_kinds_perm.
  - intros Hd. rewrite set_effs_rank. apply sorted_strict; [apply sort_kinds_sorted|].
    apply dup_ranks_false in Hd. eapply Permutation_NoDup; [|exact Hd].
    symmetry. apply Permutation_map, sort_kinds_perm.
  - reflexivity.
Qed.

Lemma clear_effs_unranked l : unranked (clear_effs l).
Proof. unfold unranked, clear_effs. rewrite Forall_map. apply Forall_forall. reflexivity. Qed.

(* shape of the result for at least two kinds: either sorted by distinct
   ranking values with efficiency = index, or everything unknown in the old order *)
Definition rank_shape (ks l : list kind) : Prop :=
  (exists x, l = finalize x /\ dup_ranks (map k_rank x) = false /\ map core x = map core ks) \/
  (exists x, l = clear_effs x /\ map core x = map core ks).

Lemma finish_shape ks r : map core (fst r) = map core ks ->
  (snd r = true -> dup_ranks (map k_rank (fst r)) = false) -> rank_shape ks (finish r).
Proof.
  intros Hc Hd. unfold finish. destruct (snd r) eqn:E.
  - left. exists (fst r). auto.
  - right. exists (fst r). auto.
Qed.

Lemma try_forced_ok ks : snd (try_forced ks) = true -> dup_ranks (map k_rank (fst (try_forced ks))) = false.
Proof.
  unfold try_forced. destruct (try_forced_loop ks) as [ks' ok]. destruct ok; simpl; [|discriminate].
  intros H. now apply negb_true_iff.
Qed.
Lemma try_info_ok h ks : snd (try_info h ks) = true -> dup_ranks (map k_rank (fst (try_info h ks))) = false.
Proof.
  unfold try_info. destruct (info_rank_values h (map summarize ks)); simpl; [|discriminate].
  intros H. now apply negb_true_iff.
Qed.

Lemma rank_kinds_shape env a b r : rank_shape (a :: b :: r) (rank_kinds env (a :: b :: r)).
Proof.
  unfold rank_kinds. set (ks := a :: b :: r).
  destruct (heur_of_env env).
  - destruct (snd (try_forced ks)) eqn:E.
    + left. exists (fst (try_forced ks)). split; [reflexivity|]. split; [now apply try_forced_ok|apply try_forced_core].
    + apply finish_shape.
      * rewrite try_info_core. apply try_forced_core.
      * apply try_info_ok.
  - apply finish_shape; [apply try_info_core|apply try_info_ok].
  - apply finish_shape; [apply try_forced_core|apply try_forced_ok].
  - apply finish_shape; [apply try_info_core|apply try_info_ok].
  - right. exists ks. auto.
Qed.

Lemma rank_kinds_core env ks : Permutation (map core (rank_kinds env ks)) (map core ks).
Proof.
  destruct ks as [|a [|b r]]; [reflexivity|reflexivity|].
  destruct (rank_kinds_shape env a b r) as [[x [-> [_ Hc]]]|[x [-> Hc]]].
  - rewrite <- Hc. apply finalize_spec.
  - rewrite clear_effs_core, Hc. reflexivity.
Qed.

(* efficiencies_all_unknown_or_permutation *)
Lemma rank_kinds_effs env ks : ranked (rank_kinds env ks) \/ unranked (rank_kinds env ks).
Proof.
  destruct ks as [|a [|b r]].
  - left. intros [|i] k; discriminate.
  - left. intros [|[|i]] k; simpl; try discriminate. intros [= <-]. reflexivity.
  - destruct (rank_kinds_shape env a b r) as [[x [-> _]]|[x [-> _]]].
    + left. apply finalize_spec.
    + right. apply clear_effs_unranked.
Qed.

(* when efficiencies are known (>= 2 kinds), the order is the strict order of the ranking values *)
Lemma rank_kinds_sorted env ks : (2 <= length ks)%nat -> ranked (rank_kinds env ks) ->
  StronglySorted Z.lt (map k_rank (rank_kinds env ks)).
Proof.
  destruct ks as [|a [|b r]]; cbn [length]; try lia. intros _ Hr.
  destruct (rank_kinds_shape env a b r) as [[x [E [Hd _]]]|[x [E Hc]]]; rewrite E in *.
  - now apply finalize_spec.
  - exfalso. assert (Hl : length x = S (S (length r))).
    { rewrite <- (map_length core x), Hc. simpl. now rewrite map_length. }
    destruct x as [|k x]; [discriminate|].
    specialize (Hr 0%nat _ eq_refl). simpl in Hr. unfold UNKNOWN, HWLOC_CPUKIND_EFFICIENCY_UNKNOWN in Hr. discriminate.
Qed.

(* forced_ranking_respected *)
Lemma try_forced_loop_all_known ks :
  Forall (fun k => k_forced k <> UNKNOWN) ks ->
  try_forced_loop ks = (map (fun k => set_rank k (u64 (k_forced k))) ks, true).
Proof.
  induction 1 as [|k r Hk Hr IH]; simpl; [reflexivity|].
  destruct (Z.eqb_spec (k_forced k) UNKNOWN); [contradiction|]. rewrite IH. reflexivity.
Qed.

Lemma rank_kinds_forced env ks :
  heur_of_env env = H_DEFAULT \/ heur_of_env env = H_FORCED ->
  (2 <= length ks)%nat ->
  Forall (fun k => k_forced k <> UNKNOWN) ks ->
  NoDup (map (fun k => u64 (k_forced k)) ks) ->
  ranked (rank_kinds env ks) /\
  StronglySorted Z.lt (map (fun k => u64 (k_forced k)) (rank_kinds env ks)).
Proof.
  intros Hh Hl Hk Hd. destruct ks as [|a [|b r]]; simpl in Hl; try lia.
  set (ks := a :: b :: r) in *.
  set (x := map (fun k => set_rank k (u64 (k_forced k))) ks).
  assert (Hx : map k_rank x = map (fun k => u64 (k_forced k)) ks) by (unfold x; rewrite map_map; reflexivity).
  assert (Ht : try_forced ks = (x, true)).
  { unfold try_forced. rewrite (try_forced_loop_all_known ks Hk). fold x.
    rewrite Hx. apply dup_ranks_false in Hd. rewrite Hd. reflexivity. }
  assert (E : rank_kinds env ks = finalize x).
  { unfold rank_kinds, ks. fold ks. destruct Hh as [-> | ->]; rewrite Ht; reflexivity. }
  rewrite E. destruct (finalize_spec x) as [F1 [F2 [F3 F4]]]. split; [exact F1|].
  assert (Hd' : dup_ranks (map k_rank x) = false) by (rewrite Hx; now apply dup_ranks_false).
  specialize (F3 Hd').
  assert (G : forall l, Forall (fun k => k_rank k = u64 (k_forced k)) l ->
              map (fun k => u64 (k_forced k)) l = map k_rank l).
  { induction 1 as [|k l Hk' Hl' IH]; simpl; [reflexivity|]. now rewrite IH, Hk'. }
  rewrite G; [exact F3|].
  eapply Permutation_Forall; [symmetry; exact F4|].
  assert (Gs : forall l z, Forall (fun k => k_rank k = u64 (k_forced k)) l ->
               Forall (fun k => k_rank k = u64 (k_forced k)) (set_effs z l)).
  { induction l as [|k l IH]; intros z Hf; simpl; constructor; inversion Hf; subst; auto. }
  apply Gs. eapply Permutation_Forall; [symmetry; apply sort_kinds_perm|].
  unfold x. rewrite Forall_map. apply Forall_forall. reflexivity.
Qed.

(* ------------------------------------------------------------------ *)
(* restrict *)

Definition restrict_reg (t : bset) (r : reg) : reg := R (bs_inter (r_set r) t) (r_forced r) (r_infos r).
Definition restrict_kind (t : bset) (k : kind) : kind := set_cpuset k (bs_inter (k_cpuset k) t).

Lemma restrict_loop_spec topo ks :
  fst (restrict_loop topo ks) =
    filter (fun k => negb (bs_is_empty (k_cpuset k))) (map (restrict_kind topo) ks) /\
  Forall (fun s => s = zero_slot) (snd (restrict_loop topo ks)) /\
  (length (fst (restrict_loop topo ks)) + length (snd (restrict_loop topo ks)) = length ks)%nat.
Proof.
  induction ks as [|k rest [IH1 [IH2 IH3]]]; simpl; [repeat split; constructor|].
  destruct (restrict_loop topo rest) as [live vac]. simpl in *.
  destruct (bs_is_empty (bs_inter (k_cpuset k) topo)) eqn:E; simpl.
  - split; [exact IH1|]. split; [|rewrite app_length; simpl; lia].
    apply Forall_app. split; [exact IH2|]. constructor; [reflexivity|constructor].
  - split; [now rewrite IH1|]. split; [exact IH2|lia].
Qed.

Lemma registered_restrict t regs p :
  registered (map (restrict_reg t) regs) p = registered regs p && mem p t.
Proof.
  unfold registered. induction regs as [|r regs IH]; simpl; [reflexivity|].
  rewrite IH, mem_inter. destruct (mem p (r_set r)), (mem p t), (existsb _ regs); reflexivity.
Qed.

Lemma cnt_restrict t ks p :
  cnt (filter (fun k => negb (bs_is_empty (k_cpuset k))) (map (restrict_kind t) ks)) p =
  if mem p t then cnt ks p else 0%nat.
Proof.
  induction ks as [|k ks IH]; simpl; [now destruct (mem p t)|].
  destruct (bs_is_empty (bs_inter (k_cpuset k) t)) eqn:E; simpl; rewrite IH.
  - rewrite bs_is_empty_mem in E. specialize (E p). rewrite mem_inter in E.
    destruct (mem p t), (mem p (k_cpuset k)); simpl in *; congruence.
  - rewrite mem_inter. destruct (mem p t), (mem p (k_cpuset k)); reflexivity.
Qed.

Lemma kind_ok_restrict regs k t :
  kind_ok regs k -> bs_is_empty (bs_inter (k_cpuset k) t) = false ->
  kind_ok (map (restrict_reg t) regs) (restrict_kind t k).
Proof.
  intros Hk Hne.
  assert (Key : forall r, In r regs ->
          bs_subset (bs_inter (k_cpuset k) t) (bs_inter (r_set r) t) = bs_subset (k_cpuset k) (r_set r)).
  { intros r Hr. destruct (ko_atom _ _ Hk r Hr) as [H|H].
    - rewrite H. apply bs_subset_spec. intros p. rewrite !mem_inter. intros Hp. apply andb_true_iff in Hp.
      destruct Hp as [H1 ->]. rewrite bs_subset_spec in H. rewrite (H p H1). reflexivity.
    - rewrite bs_intersects_false in H.
      assert (bs_subset (k_cpuset k) (r_set r) = false) as ->.
      { apply bs_subset_false. pose proof (ko_ne _ _ Hk) as Hn. apply bs_nonempty_mem in Hn.
        destruct Hn as [p Hp]. exists p. auto. }
      apply bs_subset_false. apply bs_nonempty_mem in Hne. destruct Hne as [p Hp]. exists p.
      split; [exact Hp|]. rewrite mem_inter in *. apply andb_true_iff in Hp. destruct Hp as [H1 _].
      rewrite (H p H1). reflexivity. }
  constructor; simpl.
  - exact Hne.
  - intros r' Hr'. apply in_map_iff in Hr'. destruct Hr' as [r [<- Hr]]. simpl. rewrite (Key r Hr).
    destruct (ko_atom _ _ Hk r Hr) as [H|H]; [left; exact H|right].
    rewrite bs_intersects_false in *. intros p. rewrite !mem_inter. intros Hp. apply andb_true_iff in Hp.
    destruct Hp as [H1 _]. rewrite (H p H1). reflexivity.
  - intros r' Hr'. apply in_map_iff in Hr'. destruct Hr' as [r [<- Hr]]. simpl. rewrite (Key r Hr).
    apply (ko_sup _ _ Hk r Hr).
  - intros i Hi. destruct (ko_exact _ _ Hk i Hi) as [r [H1 [H2 H3]]].
    exists (restrict_reg t r). split; [now apply in_map|]. simpl. rewrite (Key r H1). auto.
  - apply (ko_nodup _ _ Hk).
  - intros Htf. rewrite <- (ko_forced _ _ Hk Htf). clear - Key. induction regs as [|r regs IH]; simpl; [reflexivity|].
    rewrite (Key r (or_introl eq_refl)). destruct (bs_subset (k_cpuset k) (r_set r)); [reflexivity|].
    apply IH. intros r' Hr'. apply Key. now right.
  - apply (ko_arr _ _ Hk).
Qed.

Lemma restrict_state_inv env regs st t :
  Inv regs st -> Inv (map (restrict_reg t) regs) (restrict_state env st t).
Proof.
  intros [Ik Ip It]. unfold restrict_state.
  destruct (restrict_loop_spec t (kinds st)) as [S1 [S2 _]].
  destruct (restrict_loop t (kinds st)) as [live stales]. simpl in S1, S2.
  assert (I' : Inv (map (restrict_reg t) regs) (St live (stales ++ tail st))).
  { constructor; simpl.
    - rewrite S1. apply Forall_forall. intros k' Hk'. apply filter_In in Hk'. destruct Hk' as [H1 H2].
      apply in_map_iff in H1. destruct H1 as [k [<- Hk]]. apply negb_true_iff in H2.
      rewrite Forall_forall in Ik. apply kind_ok_restrict; auto.
    - intros p. rewrite S1, cnt_restrict, registered_restrict, Ip.
      destruct (mem p t), (registered regs p); reflexivity.
    - apply Forall_app. split; [|exact It]. eapply Forall_impl; [|exact S2].
      intros s ->. intros _. reflexivity. }
  destruct stales; [exact I'|].
  apply (Inv_core_perm _ (St live (k :: stales ++ tail st))); [exact I'|apply rank_kinds_core].
Qed.

(* ------------------------------------------------------------------ *)
(* hwloc_cpukinds_get_by_cpuset *)

Lemma getby_loop_spec q : forall ks id,
  bs_is_empty q = false ->
  Forall (fun k => bs_is_empty (k_cpuset k) = false) ks ->
  (forall p, (cnt ks p <= 1)%nat) ->
  match getby_loop q ks id with
  | G_OK j => exists i k, j = (id + i)%nat /\ nth_error ks i = Some k /\ bs_subset q (k_cpuset k) = true
  | G_EXDEV => (forall k, In k ks -> bs_subset q (k_cpuset k) = false) /\
               (exists k, In k ks /\ bs_intersects q (k_cpuset k) = true)
  | G_ENOENT => forall k, In k ks -> bs_intersects q (k_cpuset k) = false
  | G_EINVAL => False
  end.
Proof.
  induction ks as [|k rest IH]; intros id Hq Hne Hpd; simpl; [intros k []|].
  inversion Hne as [|? ? Hk Hrest]; subst.
  assert (Hpd' : forall p, (cnt rest p <= 1)%nat) by (intros p; specialize (Hpd p); simpl in Hpd; lia).
  pose proof (compare_inclusion_spec q (k_cpuset k)) as C.
  (* if q meets k, it is inside no later kind *)
  assert (Later : bs_intersects q (k_cpuset k) = true ->
                  forall k2, In k2 rest -> bs_subset q (k_cpuset k2) = false).
  { intros Hi k2 Hin. apply bs_intersects_spec in Hi. destruct Hi as [p [P1 P2]].
    apply bs_subset_false. exists p. split; [exact P1|].
    destruct (mem p (k_cpuset k2)) eqn:E; [|reflexivity].
    pose proof (cnt_in rest k2 p Hin E). specialize (Hpd p). simpl in Hpd. rewrite P2 in Hpd. simpl in Hpd. lia. }
  destruct (compare_inclusion q (k_cpuset k)).
  - exists 0%nat, k. subst q. repeat split; [lia|apply bs_subset_refl].
  - exists 0%nat, k. repeat split; [lia|apply C].
  - destruct C as [C1 C2]. split.
    + intros k2 [<-|Hin]; [exact C2|]. apply Later; [|exact Hin].
      apply bs_nonempty_mem in Hk. destruct Hk as [p Hp]. apply bs_intersects_spec. exists p.
      rewrite bs_subset_spec in C1. auto.
    + exists k. split; [now left|]. apply bs_nonempty_mem in Hk. destruct Hk as [p Hp].
      apply bs_intersects_spec. exists p. rewrite bs_subset_spec in C1. auto.
  - destruct C as [C1 [C2 C3]]. split.
    + intros k2 [<-|Hin]; [exact C1|]. now apply Later.
    + exists k. split; [now left|exact C3].
  - destruct C as [C1 [C2 C3]]. specialize (IH (S id) Hq Hrest Hpd').
    destruct (getby_loop q rest (S id)).
    + destruct IH as [i [k2 [H1 [H2 H3]]]]. exists (S i), k2. repeat split; [lia|exact H2|exact H3].
    + exact IH.
    + intros k2 [<-|Hin]; [exact C1|now apply IH].
    + destruct IH as [I1 [k2 [I2 I3]]]. split.
      * intros k3 [<-|Hin]; [exact C2|now apply I1].
      * exists k2. split; [now right|exact I3].
Qed.

(* ------------------------------------------------------------------ *)
(* histories *)

Definition clamp (f : Z) : Z := if f <? 0 then UNKNOWN else f.

(* effective registrations after one more operation (newest first) *)
Definition ghost_step (regs : list reg) (o : op) : list reg :=
  match o with
  | OpRegister (Some s) f i fl =>
    if (fl =? 0)%N && negb (bs_is_empty s) then R s (clamp f) (infos_of i) :: regs else regs
  | OpRegister None _ _ _ => regs
  | OpRestrict t => map (restrict_reg t) regs
  | OpRank | OpDup | OpXml => regs
  end.
Fixpoint ghost (regs : list reg) (h : list (option str * op)) : list reg :=
  match h with [] => regs | (_, o) :: r => ghost (ghost_step regs o) r end.

Lemma kind_ok_fields regs a b :
  k_cpuset a = k_cpuset b -> k_forced a = k_forced b -> k_infos a = k_infos b -> slot_wf b ->
  kind_ok regs a -> kind_ok regs b.
Proof.
  intros E1 E2 E3 Hw [H1 H2 H3 H4 H5 H6 H7]. constructor; rewrite <- ?E1, <- ?E2, <- ?E3; auto.
  intros Ha. apply Hw in Ha. rewrite E3. exact Ha.
Qed.

Lemma dup_state_inv regs st : Inv regs st -> Inv regs (dup_state st).
Proof.
  intros [Ik Ip It]. constructor; simpl; [| |constructor].
  - rewrite Forall_map. eapply Forall_impl; [|exact Ik]. intros k Hk.
    apply (kind_ok_fields regs k); auto. intros H. discriminate H.
  - intros p. rewrite <- Ip. apply cnt_map_cpuset. rewrite map_map. reflexivity.
Qed.

Lemma rank_state_inv env regs st : Inv regs st -> Inv regs (rank_state env st).
Proof. intros H. apply (Inv_core_perm regs st); [exact H|apply rank_kinds_core]. Qed.

Lemma overwrite_flag_ok : (N.land OVERWRITE OVERWRITE =? 0)%N = false /\ (N.ldiff OVERWRITE OVERWRITE =? 0)%N = true.
Proof. split; reflexivity. Qed.

Lemma internal_register_not_einval st s f i :
  bs_is_empty s = false -> internal_register st s f i OVERWRITE <> IEinval.
Proof.
  intros Hs. unfold internal_register. rewrite Hs. rewrite (proj2 overwrite_flag_ok). simpl.
  destruct (grow st); [|discriminate].
  destruct (reg_loop _ _ _ _ _ _); [|discriminate].
  destruct (bs_is_empty cs); [discriminate|]. destruct tl; [discriminate|].
  destruct (k_arr k); discriminate.
Qed.

Lemma pub_register_inv env regs st cs f i fl st' rc :
  Inv regs st -> pub_register env st cs f i fl = Fine st' rc ->
  Inv (ghost_step regs (OpRegister cs f i fl)) st'.
Proof.
  intros HI H. unfold pub_register in H. simpl.
  destruct (fl =? 0)%N eqn:Ef; simpl in H.
  2:{ injection H as <- _. destruct cs; exact HI. }
  destruct cs as [s|]; [|injection H as <- _; exact HI].
  destruct (bs_is_empty s) eqn:Es; simpl; [injection H as <- _; exact HI|].
  destruct (internal_register st s (if f <? 0 then UNKNOWN else f) i OVERWRITE) as [st1| |] eqn:Ei.
  - injection H as <- _. apply rank_state_inv.
    apply (internal_register_inv regs st s _ i OVERWRITE st1 HI Ei). intros _. apply overwrite_flag_ok.
  - exfalso. revert Ei. now apply internal_register_not_einval.
  - discriminate.
Qed.

(* EINVAL cases of hwloc_cpukinds_register: exactly the documented ones, state untouched *)
Lemma pub_register_einval env st cs f i fl :
  (fl <> 0%N \/ cs = None \/ cs = Some bs_empty) <-> pub_register env st cs f i fl = Fine st RC_EINVAL.
Proof.
  unfold pub_register. destruct (N.eqb_spec fl 0) as [->|Hf]; simpl.
  2:{ split; auto. }
  destruct cs as [s|]; [|split; auto].
  destruct (bs_is_empty s) eqn:Es.
  - apply bs_is_empty_spec in Es. subst. split; auto.
  - split.
    + intros [H|[H|H]]; [contradiction|discriminate|]. injection H as ->. discriminate.
    + destruct (internal_register st s _ i OVERWRITE) eqn:Ei; try discriminate.
      exfalso. revert Ei. now apply internal_register_not_einval.
Qed.

Definition no_xml (h : list (option str * op)) : Prop := Forall (fun eo => snd eo <> OpXml) h.

Lemma step_inv env regs st o st' rc :
  o <> OpXml -> Inv regs st -> step env st o = Fine st' rc -> Inv (ghost_step regs o) st'.
Proof.
  intros Hx HI H. destruct o; simpl in H.
  - eapply pub_register_inv; eauto.
  - injection H as <- _. now apply restrict_state_inv.
  - injection H as <- _. now apply rank_state_inv.
  - injection H as <- _. now apply dup_state_inv.
  - contradiction.
Qed.

Lemma run_inv : forall h regs st st' rc,
  no_xml h -> Inv regs st -> run st h = Fine st' rc -> Inv (ghost regs h) st'.
Proof.
  induction h as [|[env o] h IH]; intros regs st st' rc Hx HI H; simpl in *.
  - injection H as <- _. exact HI.
  - inversion Hx as [|? ? Ho Hh]; subst. simpl in Ho.
    destruct (step env st o) as [st1 rc1|] eqn:Es; [|discriminate].
    apply (IH _ st1 st' rc Hh); [|exact H]. eapply step_inv; eauto.
Qed.

Lemma init_inv : Inv [] init_state.
Proof. constructor; simpl; [constructor|reflexivity|constructor]. Qed.

(* never an out-of-bounds slot index, whatever the state and the history *)
Lemma xml_import_no_oob : forall ks st, xml_import st ks <> inl F_OOB.
Proof.
  induction ks as [|k ks IH]; intros st; simpl; [discriminate|].
  destruct (internal_register st (k_cpuset k) (k_forced k) (Some (k_infos k)) OVERWRITE) eqn:E; auto.
  intros [= ->]. revert E. apply internal_register_bounds.
Qed.

Lemma run_no_oob : forall h st, run st h <> Fatal F_OOB.
Proof.
  induction h as [|[env o] h IH]; intros st; simpl; [discriminate|].
  destruct (step env st o) as [st1 rc1|f] eqn:Es; [apply IH|].
  intros [= ->]. destruct o; simpl in Es; try discriminate.
  - unfold pub_register in Es. destruct (negb _); [discriminate|]. destruct cs; [|discriminate].
    destruct (bs_is_empty b); [discriminate|].
    destruct (internal_register st b _ infos OVERWRITE) eqn:E; try discriminate.
    injection Es as ->. revert E. apply internal_register_bounds.
  - unfold xml_reload in Es. destruct (xml_import init_state (kinds st)) eqn:E; [|discriminate].
    injection Es as ->. revert E. apply xml_import_no_oob.
Qed.

(* the unused slots never hold an infos array pointer: no history reaches the stale-slot error *)
Lemma xml_import_clean : forall ks st, Forall clean (tail st) ->
  xml_import st ks <> inl F_STALE /\ (forall st', xml_import st ks = inr st' -> Forall clean (tail st')).
Proof.
  induction ks as [|k ks IH]; intros st Hc; simpl.
  - split; [discriminate|]. intros st' [= <-]. exact Hc.
  - destruct (internal_register_clean st (k_cpuset k) (k_forced k) (Some (k_infos k)) OVERWRITE Hc) as [C1 C2].
    destruct (internal_register st (k_cpuset k) (k_forced k) (Some (k_infos k)) OVERWRITE) eqn:E.
    + apply IH. now apply C2.
    + now apply IH.
    + split; [congruence|discriminate].
Qed.

Lemma restrict_state_clean env st t : Forall clean (tail st) -> Forall clean (tail (restrict_state env st t)).
Proof.
  intros Hc. unfold restrict_state.
  destruct (restrict_loop_spec t (kinds st)) as [_ [S2 _]].
  destruct (restrict_loop t (kinds st)) as [live vac]. simpl in S2.
  assert (H : Forall clean (vac ++ tail st)).
  { apply Forall_app. split; [|exact Hc]. eapply Forall_impl; [|exact S2]. intros s ->. reflexivity. }
  destruct vac; exact H.
Qed.

Lemma step_clean env st o st' rc :
  Forall clean (tail st) -> step env st o = Fine st' rc -> Forall clean (tail st').
Proof.
  intros Hc H. destruct o; simpl in H.
  - unfold pub_register in H. destruct (negb _); [injection H as <- _; exact Hc|].
    destruct cs as [s|]; [|injection H as <- _; exact Hc].
    destruct (bs_is_empty s); [injection H as <- _; exact Hc|].
    destruct (internal_register_clean st s (if forced <? 0 then UNKNOWN else forced) infos OVERWRITE Hc) as [_ C2].
    destruct (internal_register st s _ infos OVERWRITE) eqn:E; [|injection H as <- _; exact Hc|discriminate].
    injection H as <- _. simpl. now apply C2.
  - injection H as <- _. now apply restrict_state_clean.
  - injection H as <- _. exact Hc.
  - injection H as <- _. constructor.
  - unfold xml_reload in H. destruct (xml_import_clean (kinds st) init_state) as [_ X2]; [constructor|].
    destruct (xml_import init_state (kinds st)) eqn:E; [discriminate|].
    injection H as <- _. simpl. now apply X2.
Qed.

Lemma step_no_stale env st o : Forall clean (tail st) -> step env st o <> Fatal F_STALE.
Proof.
  intros Hc. destruct o; simpl; try discriminate.
  - unfold pub_register. destruct (negb _); [discriminate|]. destruct cs as [s|]; [|discriminate].
    destruct (bs_is_empty s); [discriminate|].
    destruct (internal_register_clean st s (if forced <? 0 then UNKNOWN else forced) infos OVERWRITE Hc) as [C1 _].
    destruct (internal_register st s _ infos OVERWRITE); try discriminate. congruence.
  - unfold xml_reload. destruct (xml_import_clean (kinds st) init_state) as [X1 _]; [constructor|].
    destruct (xml_import init_state (kinds st)); [congruence|discriminate].
Qed.

Lemma run_safe : forall h st, Forall clean (tail st) -> run st h <> Fatal F_STALE.
Proof.
  induction h as [|[env o] h IH]; intros st Hc; simpl; [discriminate|].
  destruct (step env st o) as [st1 rc1|f] eqn:Es.
  - apply IH. eapply step_clean; eauto.
  - intros [= ->]. revert Es. now apply step_no_stale.
Qed.

(* ------------------------------------------------------------------ *)
(* XML export + import: the kinds are registered again one by one, in order,
   into a fresh array *)

Definition fresh (k : kind) : kind :=
  K (k_cpuset k) UNKNOWN (k_forced k) 0 (k_infos k) (0 <? length (k_infos k))%nat.

Lemma add_infos_nodup src : forall dst, NoDup (dst ++ src) -> add_infos dst src = dst ++ src.
Proof.
  unfold add_infos. induction src as [|x src IH]; intros dst Hd; simpl; [now rewrite app_nil_r|].
  assert (Hn : has_info dst x = false).
  { destruct (has_info dst x) eqn:E; [|reflexivity]. apply has_info_spec in E.
    apply NoDup_remove_2 in Hd. exfalso. apply Hd. apply in_app_iff. now left. }
  rewrite Hn. rewrite IH; [now rewrite <- app_assoc|]. now rewrite <- app_assoc.
Qed.

Lemma compare_different a b :
  bs_is_empty a = false -> bs_is_empty b = false -> bs_intersects a b = false ->
  compare_inclusion a b = B_DIFFERENT.
Proof.
  intros Ha Hb Hi. rewrite bs_intersects_false in Hi.
  apply bs_nonempty_mem in Ha. destruct Ha as [p Hp].
  apply bs_nonempty_mem in Hb. destruct Hb as [q Hq].
  assert (H1 : bs_subset a b = false) by (apply bs_subset_false; exists p; auto).
  assert (H2 : bs_subset b a = false).
  { apply bs_subset_false. exists q. split; [exact Hq|]. destruct (mem q a) eqn:E; [|reflexivity].
    rewrite (Hi q E) in Hq. discriminate. }
  assert (H3 : bs_eqb a b = false).
  { apply bs_eqb_false. intros ->. rewrite bs_subset_refl in H1. discriminate. }
  assert (H4 : bs_intersects a b = false) by now apply bs_intersects_false.
  unfold compare_inclusion. now rewrite H3, H1, H2, H4.
Qed.

Lemma reg_loop_disjoint flags forced infos cs tl : forall olds,
  bs_is_empty cs = false ->
  Forall (fun k => bs_is_empty (k_cpuset k) = false /\ bs_intersects cs (k_cpuset k) = false) olds ->
  reg_loop flags forced infos olds cs tl = LOk olds [] cs tl.
Proof.
  induction olds as [|k rest IH]; intros Hc Hf; simpl; [reflexivity|].
  inversion Hf as [|? ? [H1 H2] Hr]; subst.
  unfold reg_step. rewrite (compare_different cs (k_cpuset k) Hc H1 H2). rewrite Hc.
  rewrite (IH Hc Hr). reflexivity.
Qed.

Lemma xml_import_spec : forall ks acc z st',
  Forall (fun k => bs_is_empty (k_cpuset k) = false) (acc ++ ks) ->
  (forall p, (cnt (acc ++ ks) p <= 1)%nat) ->
  Forall (fun k => NoDup (k_infos k)) ks ->
  xml_import (St acc (repeat zero_slot z)) ks = inr st' ->
  kinds st' = acc ++ map fresh ks /\ exists z', tail st' = repeat zero_slot z'.
Proof.
  induction ks as [|k ks IH]; intros acc z st' Hne Hpd Hnd H; simpl in H.
  - injection H as <-. simpl. rewrite app_nil_r. eauto.
  - apply Forall_app in Hne. destruct Hne as [Hna Hnk]. inversion Hnk as [|? ? Hk Hks]; subst.
    inversion Hnd as [|? ? Hdk Hdks]; subst.
    assert (Ei : internal_register (St acc (repeat zero_slot z)) (k_cpuset k) (k_forced k) (Some (k_infos k)) OVERWRITE
                 = IFatal F_UB \/ exists z', internal_register (St acc (repeat zero_slot z)) (k_cpuset k) (k_forced k) (Some (k_infos k)) OVERWRITE
                 = IOk (St (acc ++ [fresh k]) (repeat zero_slot z'))).
    { unfold internal_register. rewrite Hk, (proj2 overwrite_flag_ok). simpl negb. cbv iota.
      destruct (grow (St acc (repeat zero_slot z))) as [st1|] eqn:Eg; [|now left]. right.
      destruct (grow_spec _ _ Eg) as [G1 [[z1 G2] G3]]. simpl in G1, G2, G3.
      rewrite <- repeat_app in G2. rewrite G1, G2.
      rewrite reg_loop_disjoint; [|exact Hk|].
      2:{ rewrite Forall_forall in *. intros k2 Hin. split; [auto|].
          apply bs_intersects_false. intros p Hp. destruct (mem p (k_cpuset k2)) eqn:E; [|reflexivity].
          specialize (Hpd p). rewrite cnt_app in Hpd. simpl in Hpd. rewrite Hp in Hpd.
          pose proof (cnt_in acc k2 p Hin E). simpl in Hpd. lia. }
      rewrite Hk. rewrite G2, repeat_length in G3.
      destruct (z + z1)%nat as [|n] eqn:En; [lia|]. simpl.
      exists n. unfold fresh, set_infos. simpl.
      rewrite (add_infos_nodup (k_infos k) []); [|exact Hdk]. simpl. reflexivity. }
    destruct Ei as [Ei|[z' Ei]]; rewrite Ei in H; [discriminate|].
    destruct (IH (acc ++ [fresh k]) z' st') as [I1 I2]; auto.
    + rewrite <- app_assoc. simpl. apply Forall_app. split; [exact Hna|]. constructor; [exact Hk|exact Hks].
    + intros p. specialize (Hpd p). rewrite <- app_assoc. rewrite !cnt_app in *. simpl in *. lia.
    + split; [|exact I2]. rewrite I1, <- app_assoc. reflexivity.
Qed.

Lemma xml_reload_inv env regs st st' rc :
  Inv regs st -> xml_reload env st = Fine st' rc -> Inv regs st'.
Proof.
  intros [Ik Ip It] H. unfold xml_reload in H.
  destruct (xml_import init_state (kinds st)) as [f|st1] eqn:E; [discriminate|].
  injection H as <- _.
  destruct (xml_import_spec (kinds st) [] 0 st1) as [X1 [z X2]]; auto.
  - simpl. eapply Forall_impl; [|exact Ik]. intros k Hk. apply (ko_ne _ _ Hk).
  - intros p. simpl. rewrite Ip. destruct (registered regs p); simpl; lia.
  - eapply Forall_impl; [|exact Ik]. intros k Hk. apply (ko_nodup _ _ Hk).
  - simpl in X1. apply rank_state_inv. constructor.
    + rewrite X1, Forall_map. eapply Forall_impl; [|exact Ik]. intros k Hk.
      apply (kind_ok_fields regs k); auto. unfold slot_wf, fresh. simpl.
      destruct (k_infos k); [reflexivity|discriminate].
    + intros p. rewrite <- Ip, X1. apply cnt_map_cpuset. rewrite map_map. reflexivity.
    + rewrite X2. apply zero_slots_wf.
Qed.

(* the reloaded topology reports the same kinds (cpuset, forced efficiency, infos), in
   the order the ranking gives them *)
Lemma xml_reload_kinds env regs st st' rc :
  Inv regs st -> xml_reload env st = Fine st' rc ->
  kinds st' = rank_kinds env (map fresh (kinds st)).
Proof.
  intros [Ik Ip It] H. unfold xml_reload in H.
  destruct (xml_import init_state (kinds st)) as [f|st1] eqn:E; [discriminate|].
  injection H as <- _.
  destruct (xml_import_spec (kinds st) [] 0 st1) as [X1 _]; auto.
  - simpl. eapply Forall_impl; [|exact Ik]. intros k Hk. apply (ko_ne _ _ Hk).
  - intros p. simpl. rewrite Ip. destruct (registered regs p); simpl; lia.
  - eapply Forall_impl; [|exact Ik]. intros k Hk. apply (ko_nodup _ _ Hk).
  - simpl. now rewrite X1.
Qed.

Lemma step_inv_all env regs st o st' rc :
  Inv regs st -> step env st o = Fine st' rc -> Inv (ghost_step regs o) st'.
Proof.
  intros HI H. destruct o; try (eapply step_inv; eauto; discriminate).
  simpl in *. eapply xml_reload_inv; eauto.
Qed.

Lemma run_inv_all : forall h regs st st' rc,
  Inv regs st -> run st h = Fine st' rc -> Inv (ghost regs h) st'.
Proof.
  induction h as [|[env o] h IH]; intros regs st st' rc HI H; simpl in *.
  - injection H as <- _. exact HI.
  - destruct (step env st o) as [st1 rc1|] eqn:Es; [|discriminate].
    apply (IH _ st1 st' rc); [|exact H]. eapply step_inv_all; eauto.
Qed.

(* ------------------------------------------------------------------ *)
(* the undefined shift 1U<<32 needs 2^29 kinds; a history of n operations
   creates fewer than 2^n kinds *)

Lemma rank_kinds_length env ks : length (rank_kinds env ks) = length ks.
Proof.
  pose proof (Permutation_length (rank_kinds_core env ks)) as H. now rewrite !map_length in H.
Qed.

Lemma step_length env st o st' rc : o <> OpXml ->
  step env st o = Fine st' rc -> (length (kinds st') <= 2 * length (kinds st) + 1)%nat.
Proof.
  intros Hx H. destruct o; simpl in H; try contradiction.
  - unfold pub_register in H. destruct (negb _); [injection H as <- _; lia|].
    destruct cs; [|injection H as <- _; lia]. destruct (bs_is_empty b); [injection H as <- _; lia|].
    destruct (internal_register st b _ infos OVERWRITE) eqn:E; [|injection H as <- _; lia|discriminate].
    injection H as <- _. simpl. rewrite rank_kinds_length.
    destruct (internal_register_bounds st b (if forced <? 0 then UNKNOWN else forced) infos OVERWRITE) as [_ [_ B]].
    specialize (B _ E). lia.
  - injection H as <- _. unfold restrict_state.
    destruct (restrict_loop_spec topo (kinds st)) as [_ [_ S3]].
    destruct (restrict_loop topo (kinds st)) as [live stales]. simpl in S3.
    destruct stales; simpl; [|rewrite rank_kinds_length]; lia.
  - injection H as <- _. simpl. rewrite rank_kinds_length. lia.
  - injection H as <- _. simpl. rewrite map_length. lia.
Qed.

Lemma run_no_ub : forall h st, no_xml h ->
  ((N.of_nat (length (kinds st)) + 1) * 2 ^ N.of_nat (length h) <= 2 ^ 29)%N -> run st h <> Fatal F_UB.
Proof.
  induction h as [|[env o] h IH]; intros st Hx Hb; simpl run; [discriminate|].
  inversion Hx as [|? ? Ho Hh]; subst. simpl in Ho.
  assert (Hp : (2 ^ N.of_nat (length ((env, o) :: h)) = 2 * 2 ^ N.of_nat (length h))%N).
  { simpl length. rewrite Nat2N.inj_succ, N.pow_succ_r'. reflexivity. }
  rewrite Hp in Hb. clear Hp.
  assert (Hge : (1 <= 2 ^ N.of_nat (length h))%N).
  { pose proof (N.pow_nonzero 2 (N.of_nat (length h))). lia. }
  destruct (step env st o) as [st1 rc1|f] eqn:Es.
  - apply IH; [exact Hh|]. pose proof (step_length _ _ _ _ _ Ho Es) as Hl. nia.
  - intros [= ->]. destruct o; simpl in Es; try discriminate; try contradiction.
    unfold pub_register in Es. destruct (negb _); [discriminate|]. destruct cs; [|discriminate].
    destruct (bs_is_empty b); [discriminate|].
    destruct (internal_register st b _ infos OVERWRITE) eqn:E; try discriminate. injection Es as ->.
    apply internal_register_bounds in E. nia.
Qed.

(* ------------------------------------------------------------------ *)
(* the invariant in plain words *)

Lemma cnt_two ks p : forall i j a b, (i < j)%nat ->
  nth_error ks i = Some a -> nth_error ks j = Some b ->
  mem p (k_cpuset a) = true -> mem p (k_cpuset b) = true -> (2 <= cnt ks p)%nat.
Proof.
  induction ks as [|k ks IH]; intros i j a b Hij Ha Hb Ma Mb; [destruct i; discriminate|].
  destruct j as [|j]; [lia|]. simpl in Hb. destruct i as [|i]; simpl in Ha.
  - injection Ha as ->. simpl. rewrite Ma. apply nth_error_In in Hb.
    pose proof (cnt_in ks b p Hb Mb). simpl. lia.
  - simpl. assert (i < j)%nat by lia. specialize (IH i j a b H Ha Hb Ma Mb). lia.
Qed.

Lemma Inv_partition regs st : Inv regs st ->
  (forall k, In k (kinds st) -> bs_is_empty (k_cpuset k) = false) /\
  (forall i j a b, i <> j -> nth_error (kinds st) i = Some a -> nth_error (kinds st) j = Some b ->
                   bs_intersects (k_cpuset a) (k_cpuset b) = false) /\
  (forall p, (exists k, In k (kinds st) /\ mem p (k_cpuset k) = true) <-> registered regs p = true).
Proof.
  intros [Ik Ip It]. split; [|split].
  - rewrite Forall_forall in Ik. intros k Hk. apply (ko_ne _ _ (Ik k Hk)).
  - intros i j a b Hij Ha Hb. apply bs_intersects_false. intros p Ma.
    destruct (mem p (k_cpuset b)) eqn:Mb; [|reflexivity]. exfalso.
    assert (2 <= cnt (kinds st) p)%nat.
    { destruct (Nat.lt_total i j) as [H|[H|H]]; [|contradiction|].
      - apply (cnt_two _ p i j a b); auto.
      - apply (cnt_two _ p j i b a); auto. }
    rewrite Ip in H. destruct (registered regs p); simpl in H; lia.
  - intros p. split.
    + intros [k [H1 H2]]. pose proof (cnt_in _ k p H1 H2) as H. rewrite Ip in H.
      destruct (registered regs p); [reflexivity|simpl in H; lia].
    + intros H. apply cnt_pos. rewrite Ip, H. simpl. lia.
Qed.

(* efficiencies along a whole history *)
Lemma filter_len_le {A} (f : A -> bool) l : (length (filter f l) <= length l)%nat.
Proof. induction l as [|x l IH]; simpl; [lia|]. destruct (f x); simpl; lia. Qed.
Lemma filter_all {A} (f : A -> bool) l : length (filter f l) = length l -> filter f l = l.
Proof.
  induction l as [|x l IH]; simpl; [reflexivity|]. destruct (f x); simpl; intros H.
  - f_equal. apply IH. lia.
  - pose proof (filter_len_le f l). lia.
Qed.

Definition effs_ok (l : list kind) : Prop := ranked l \/ unranked l.

Lemma effs_ok_map (g : kind -> kind) l : (forall k, k_eff (g k) = k_eff k) -> effs_ok l -> effs_ok (map g l).
Proof.
  intros Hg [H|H]; [left|right].
  - intros i k Hk. rewrite nth_error_map in Hk. destruct (nth_error l i) as [k0|] eqn:E; [|discriminate].
    injection Hk as <-. rewrite Hg. now apply H.
  - unfold unranked in *. rewrite Forall_map. eapply Forall_impl; [|exact H]. intros k Hk. now rewrite Hg.
Qed.

Lemma step_effs env st o st' rc : effs_ok (kinds st) -> step env st o = Fine st' rc -> effs_ok (kinds st').
Proof.
  intros He H. destruct o; simpl in H.
  - unfold pub_register in H. destruct (negb _); [injection H as <- _; exact He|].
    destruct cs; [|injection H as <- _; exact He]. destruct (bs_is_empty b); [injection H as <- _; exact He|].
    destruct (internal_register st b _ infos OVERWRITE); [|injection H as <- _; exact He|discriminate].
    injection H as <- _. apply rank_kinds_effs.
  - injection H as <- _. unfold restrict_state.
    destruct (restrict_loop_spec topo (kinds st)) as [S1 [_ S3]].
    destruct (restrict_loop topo (kinds st)) as [live stales]. simpl in S1, S3.
    destruct stales; [|apply rank_kinds_effs]. simpl in *.
    rewrite S1. rewrite filter_all.
    + apply effs_ok_map; [reflexivity|exact He].
    + rewrite <- S1, map_length. lia.
  - injection H as <- _. apply rank_kinds_effs.
  - injection H as <- _. simpl. apply effs_ok_map; [reflexivity|exact He].
  - unfold xml_reload in H. destruct (xml_import init_state (kinds st)); [discriminate|].
    injection H as <- _. apply rank_kinds_effs.
Qed.

Lemma run_effs : forall h st st' rc, effs_ok (kinds st) -> run st h = Fine st' rc -> effs_ok (kinds st').
Proof.
  induction h as [|[env o] h IH]; intros st st' rc He H; simpl in H.
  - injection H as <- _. exact He.
  - destruct (step env st o) as [st1 rc1|] eqn:Es; [|discriminate].
    apply (IH st1 st' rc); [|exact H]. eapply step_effs; eauto.
Qed.

(* ------------------------------------------------------------------ *)
(* statements used verbatim by Props/Properties_C15.v *)

Lemma history_inv_init : forall h st rc, run init_state h = Fine st rc -> Inv (ghost [] h) st.
Proof. intros h st rc H. apply (run_inv_all h [] init_state st rc init_inv H). Qed.

Lemma history_safe_init : forall h, run init_state h <> Fatal F_STALE.
Proof. intros h. apply run_safe. constructor. Qed.

(* every history ends in a state satisfying the invariant, unless it reaches 2^29 kinds *)
Lemma history_total_init : forall h,
  run init_state h = Fatal F_UB \/ exists st rc, run init_state h = Fine st rc /\ Inv (ghost [] h) st.
Proof.
  intros h. destruct (run init_state h) as [st rc|f] eqn:E.
  - right. exists st, rc. split; [reflexivity|]. now apply (history_inv_init h st rc).
  - destruct f; [exfalso; revert E; apply run_no_oob|exfalso; revert E; apply history_safe_init|now left].
Qed.

Lemma history_no_ub_init : forall h, no_xml h -> (length h <= 29)%nat -> run init_state h <> Fatal F_UB.
Proof.
  intros h Hx Hl. apply run_no_ub; [exact Hx|].
  change (N.of_nat (length (kinds init_state)) + 1)%N with 1%N. rewrite N.mul_1_l.
  apply N.pow_le_mono_r; [discriminate|lia].
Qed.

Lemma get_by_cpuset_spec : forall regs st q,
  Inv regs st -> bs_is_empty q = false ->
  match get_by_cpuset st (Some q) 0%N with
  | G_OK j => exists k, nth_error (kinds st) j = Some k /\ bs_subset q (k_cpuset k) = true
  | G_EXDEV => (forall k, In k (kinds st) -> bs_subset q (k_cpuset k) = false) /\
               (exists k, In k (kinds st) /\ bs_intersects q (k_cpuset k) = true)
  | G_ENOENT => forall k, In k (kinds st) -> bs_intersects q (k_cpuset k) = false
  | G_EINVAL => False
  end.
Proof.
  intros regs st q HI Hq. unfold get_by_cpuset. simpl. rewrite Hq.
  destruct (Inv_partition regs st HI) as [P1 _].
  pose proof (getby_loop_spec q (kinds st) 0 Hq) as G.
  assert (H1 : Forall (fun k => bs_is_empty (k_cpuset k) = false) (kinds st)) by (apply Forall_forall; exact P1).
  assert (H2 : forall p, (cnt (kinds st) p <= 1)%nat).
  { intros p. rewrite (inv_part _ _ HI). destruct (registered regs p); simpl; auto. }
  specialize (G H1 H2). destruct (getby_loop q (kinds st) 0); auto.
  destruct G as [i [k [-> G]]]. exists k. exact G.
Qed.

Lemma get_by_cpuset_einval_spec : forall st q fl,
  (fl <> 0%N \/ q = None \/ q = Some bs_empty) -> get_by_cpuset st q fl = G_EINVAL.
Proof.
  intros st q fl H. unfold get_by_cpuset. destruct (N.eqb_spec fl 0) as [->|Hf]; simpl; [|reflexivity].
  destruct H as [H|[->| ->]]; [contradiction|reflexivity|reflexivity].
Qed.

Lemma history_effs_init : forall h st rc, run init_state h = Fine st rc -> ranked (kinds st) \/ unranked (kinds st).
Proof.
  intros h st rc H. apply (run_effs h init_state st rc); [|exact H].
  left. intros [|i] k; discriminate.
Qed.

Lemma xml_reload_spec : forall env regs st st' rc,
  Inv regs st -> xml_reload env st = Fine st' rc ->
  kinds st' = rank_kinds env (map fresh (kinds st)) /\ Inv regs st'.
Proof.
  intros env regs st st' rc HI H. split; [eapply xml_reload_kinds; eauto|eapply xml_reload_inv; eauto].
Qed.

End WithForcedClause.

(* ------------------------------------------------------------------ *)
(* a finite universe of n PUs holds at most n kinds (pigeonhole), so the
   2^29-kinds undefined shift is out of reach whatever the length of the history *)

Fixpoint sumn (f : nat -> nat) (n : nat) : nat :=
  match n with O => 0%nat | S m => (f m + sumn f m)%nat end.

Lemma sumn_add f g n : sumn (fun m => (f m + g m)%nat) n = (sumn f n + sumn g n)%nat.
Proof. induction n; simpl; lia. Qed.
Lemma sumn_le1 f n : (forall m, (m < n)%nat -> (f m <= 1)%nat) -> (sumn f n <= n)%nat.
Proof.
  induction n; simpl; intros H; [lia|]. specialize (H n ltac:(lia)) as H1.
  assert (sumn f n <= n)%nat by (apply IHn; intros m Hm; apply H; lia). lia.
Qed.
Lemma sumn_pos f n m : (m < n)%nat -> (1 <= f m)%nat -> (1 <= sumn f n)%nat.
Proof.
  induction n; simpl; intros Hm Hf; [lia|].
  destruct (Nat.eq_dec m n) as [->|]; [lia|]. assert (1 <= sumn f n)%nat by (apply IHn; lia). lia.
Qed.

Lemma kinds_le_universe (n : nat) ks :
  Forall (fun k => exists p, mem p (k_cpuset k) = true /\ (p < N.of_nat n)%N) ks ->
  (forall p, (cnt ks p <= 1)%nat) ->
  (length ks <= n)%nat.
Proof.
  intros Hne Hpd.
  assert (G : (length ks <= sumn (fun m => cnt ks (N.of_nat m)) n)%nat).
  { clear Hpd. induction Hne as [|k ks [p [Hp Hlt]] Hks IH]; simpl; [lia|].
    rewrite sumn_add.
    assert (1 <= sumn (fun m => b2n (mem (N.of_nat m) (k_cpuset k))) n)%nat; [|lia].
    apply (sumn_pos _ n (N.to_nat p)); [lia|]. rewrite N2Nat.id, Hp. simpl. lia. }
  assert (sumn (fun m => cnt ks (N.of_nat m)) n <= n)%nat by (apply sumn_le1; intros; apply Hpd). lia.
Qed.

Definition in_universe (n : nat) (h : list (option str * op)) : Prop :=
  Forall (fun eo => match snd eo with
                    | OpRegister (Some s) _ _ _ => bs_subset s (bs_range 0 (N.of_nat n)) = true
                    | _ => True end) h.

Lemma Inv_le_universe tf n regs st :
  Inv tf regs st -> (forall p, registered regs p = true -> (p < N.of_nat n)%N) -> (length (kinds st) <= n)%nat.
Proof.
  intros HI Hu. apply kinds_le_universe.
  - pose proof (inv_kinds _ _ _ HI) as Ik. rewrite Forall_forall in *. intros k Hk.
    pose proof (ko_ne _ _ _ (Ik k Hk)) as Hne. apply bs_nonempty_mem in Hne. destruct Hne as [p Hp].
    exists p. split; [exact Hp|]. apply Hu.
    destruct (Inv_partition tf regs st HI) as [_ [_ P3]]. apply P3. eauto.
  - intros p. rewrite (inv_part _ _ _ HI). destruct (registered regs p); simpl; lia.
Qed.

Lemma xml_import_no_ub : forall ks acc z,
  Forall (fun k => bs_is_empty (k_cpuset k) = false) (acc ++ ks) ->
  (forall p, (cnt (acc ++ ks) p <= 1)%nat) ->
  Forall (fun k => NoDup (k_infos k)) ks ->
  (N.of_nat (length (acc ++ ks)) < 2 ^ 29)%N ->
  xml_import (St acc (repeat zero_slot z)) ks <> inl F_UB.
Proof.
  induction ks as [|k ks IH]; intros acc z Hne Hpd Hnd Hlen; simpl; [discriminate|].
  destruct (internal_register (St acc (repeat zero_slot z)) (k_cpuset k) (k_forced k) (Some (k_infos k)) OVERWRITE)
    as [st1| |f] eqn:Ei.
  - (* the state after this registration is the one xml_import_spec describes *)
    assert (Hs : xml_import (St acc (repeat zero_slot z)) [k] = inr st1) by (simpl; rewrite Ei; reflexivity).
    apply Forall_app in Hne. destruct Hne as [Hna Hnk]. inversion Hnk as [|? ? Hk Hks]; subst.
    inversion Hnd as [|? ? Hdk Hdks]; subst.
    destruct (xml_import_spec [k] acc z st1) as [X1 [z' X2]]; auto.
    + apply Forall_app. split; [exact Hna|constructor; [exact Hk|constructor]].
    + intros p. specialize (Hpd p). rewrite !cnt_app in *. simpl in *. lia.
    + destruct st1 as [ks1 tl1]. simpl in X1, X2. subst ks1 tl1. simpl map.
      apply IH; auto.
      * rewrite <- app_assoc. simpl. apply Forall_app. split; [exact Hna|constructor; [exact Hk|exact Hks]].
      * intros p. specialize (Hpd p). rewrite <- app_assoc. rewrite !cnt_app in *. simpl in *. lia.
      * rewrite <- app_assoc. simpl. rewrite !app_length in *. simpl in *. lia.
  - exfalso. revert Ei. apply internal_register_not_einval.
    apply Forall_app in Hne. destruct Hne as [_ Hnk]. now inversion Hnk.
  - intros [= ->]. apply internal_register_bounds in Ei. simpl in Ei.
    rewrite app_length in Hlen. lia.
Qed.

Lemma ghost_step_universe n regs o :
  (forall p, registered regs p = true -> (p < N.of_nat n)%N) ->
  match o with OpRegister (Some s) _ _ _ => bs_subset s (bs_range 0 (N.of_nat n)) = true | _ => True end ->
  forall p, registered (ghost_step regs o) p = true -> (p < N.of_nat n)%N.
Proof.
  intros Hu Ho p. destruct o as [[s|] f i fl|t| | |]; simpl; auto.
  - destruct ((fl =? 0)%N && negb (bs_is_empty s)); [|auto]. simpl. intros H.
    apply orb_true_iff in H. destruct H as [H|H]; [|auto].
    rewrite bs_subset_spec in Ho. apply Ho in H. rewrite mem_range in H. lia.
  - rewrite registered_restrict. intros H. apply andb_true_iff in H. destruct H as [H _]. auto.
Qed.

Lemma run_no_ub_universe tf n : (N.of_nat n < 2 ^ 29)%N -> forall h regs st,
  Inv tf regs st -> (forall p, registered regs p = true -> (p < N.of_nat n)%N) ->
  in_universe n h -> run st h <> Fatal F_UB.
Proof.
  intros Hn. induction h as [|[env o] h IH]; intros regs st HI Hu Hh; simpl; [discriminate|].
  inversion Hh as [|? ? Ho Hh']; subst. simpl in Ho.
  pose proof (Inv_le_universe tf n regs st HI Hu) as Hlen.
  destruct (step env st o) as [st1 rc1|f] eqn:Es.
  - apply (IH (ghost_step regs o) st1); auto.
    + eapply step_inv_all; eauto.
    + now apply ghost_step_universe.
  - intros [= ->]. destruct o; simpl in Es; try discriminate.
    + unfold pub_register in Es. destruct (negb _); [discriminate|]. destruct cs; [|discriminate].
      destruct (bs_is_empty b); [discriminate|].
      destruct (internal_register st b _ infos OVERWRITE) eqn:E; try discriminate. injection Es as ->.
      apply internal_register_bounds in E. lia.
    + unfold xml_reload in Es. destruct (xml_import init_state (kinds st)) eqn:E; [|discriminate].
      injection Es as ->. revert E. apply (xml_import_no_ub (kinds st) [] 0); simpl.
      * pose proof (inv_kinds _ _ _ HI) as Ik. eapply Forall_impl; [|exact Ik]. intros k Hk. apply (ko_ne _ _ _ Hk).
      * intros p. rewrite (inv_part _ _ _ HI). destruct (registered regs p); simpl; lia.
      * pose proof (inv_kinds _ _ _ HI) as Ik. eapply Forall_impl; [|exact Ik]. intros k Hk. apply (ko_nodup _ _ _ Hk).
      * lia.
Qed.

(* ------------------------------------------------------------------ *)
(* statements used verbatim by Props/Properties_C15.v *)

Lemma register_inv_overwrite regs st cs forced infos flags st' :
  Inv true regs st -> internal_register st cs forced infos flags = IOk st' ->
  (N.land flags OVERWRITE =? 0)%N = false -> Inv true (R cs forced (infos_of infos) :: regs) st'.
Proof. intros HI H Hf. apply (internal_register_inv true regs st cs forced infos flags st' HI H). intros _. exact Hf. Qed.

Lemma register_inv_any_flags_spec regs st cs forced infos flags st' :
  Inv false regs st -> internal_register st cs forced infos flags = IOk st' ->
  Inv false (R cs forced (infos_of infos) :: regs) st'.
Proof. intros HI H. apply (internal_register_inv false regs st cs forced infos flags st' HI H). discriminate. Qed.

Lemma Inv_weaken regs st : Inv true regs st -> Inv false regs st.
Proof.
  intros [Ik Ip It]. constructor; auto. eapply Forall_impl; [|exact Ik].
  intros k [H1 H2 H3 H4 H5 H6 H7]. constructor; auto; discriminate.
Qed.

Lemma history_no_ub_universe_init n h :
  (N.of_nat n < 2 ^ 29)%N -> in_universe n h -> run init_state h <> Fatal F_UB.
Proof.
  intros Hn Hh. apply (run_no_ub_universe true n Hn h [] init_state); [apply init_inv| |exact Hh].
  intros p H. discriminate H.
Qed.

Lemma history_total_universe_init n h :
  (N.of_nat n < 2 ^ 29)%N -> in_universe n h ->
  exists st rc, run init_state h = Fine st rc /\ Inv true (ghost [] h) st /\ (length (kinds st) <= n)%nat.
Proof.
  intros Hn Hh. destruct (history_total_init true h) as [H|[st [rc [H1 H2]]]].
  - exfalso. revert H. now apply (history_no_ub_universe_init n).
  - exists st, rc. split; [exact H1|]. split; [exact H2|].
    apply (Inv_le_universe true n (ghost [] h) st H2).
    clear - Hh. assert (G : forall h regs, in_universe n h ->
      (forall p, registered regs p = true -> (p < N.of_nat n)%N) ->
      forall p, registered (ghost regs h) p = true -> (p < N.of_nat n)%N).
    { induction h0 as [|[env o] h0 IH]; intros regs Hu Hr; simpl; [exact Hr|].
      inversion Hu as [|? ? Ho Hu']; subst. apply IH; [exact Hu'|]. now apply ghost_step_universe. }
    apply G; [exact Hh|]. intros p H. discriminate H.
Qed.

(* adopted (shared-memory) topologies: the mutating calls are refused and change nothing;
   the adopted copy satisfies the same invariant *)
Lemma guarded_step_adopted env st o :
  mutating o = true -> guarded_step true env st o = (Fine st RC_EPERM, true).
Proof. intros H. unfold guarded_step. rewrite H. reflexivity. Qed.

Lemma guarded_step_not_adopted env st o : guarded_step false env st o = (step env st o, false).
Proof. reflexivity. Qed.

Lemma adopt_state_inv tf regs st : Inv tf regs st -> Inv tf regs (adopt_state st).
Proof. apply dup_state_inv. Qed.

(* hwloc_topology_restrict only shrinks the topology cpuset, so the cpukinds part
   ([restrict_state] with the new root cpuset) only removes PUs from kinds *)
Lemma topology_restrict_shrinks t set flags t' :
  topology_restrict t set flags = Some t' -> bs_subset (t_cpuset t') (t_cpuset t) = true.
Proof.
  unfold topology_restrict. intros H.
  repeat match type of H with
  | context[if ?b then _ else _] => destruct b
  | context[match ?l with [] => _ | _ :: _ => _ end] => destruct l
  end; try discriminate; injection H as <-; simpl; apply bs_subset_spec; intros q;
  rewrite ?mem_inter, ?mem_diff; intros Hq; try apply andb_true_iff in Hq; tauto.
Qed.
