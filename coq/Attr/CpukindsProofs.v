(* C15 - lemmas about the model coq/Attr/Cpukinds.v *)
From Coq Require Import List NArith ZArith Bool Lia Permutation Sorted.
From Coq Require Import ZifyBool ZifyN ZifyNat.
From HV Require Import Base.BSet Attr.BSetAux Gen.Tables Attr.Cpukinds.
Import ListNotations.
Local Open Scope Z_scope.

(* ------------------------------------------------------------------ *)
(* strings, infos *)

Lemma str_eqb_spec a b : str_eqb a b = true <-> a = b.
Proof.
  revert b. induction a as [|x a IH]; intros [|y b]; simpl; split; intros H; try discriminate; auto.
  - apply andb_true_iff in H. destruct H as [H1 H2]. apply N.eqb_eq in H1. apply IH in H2. congruence.
  - injection H as -> ->. rewrite N.eqb_refl. simpl. now apply IH.
Qed.

Lemma info_eqb_spec a b : info_eqb a b = true <-> a = b.
Proof.
  unfold info_eqb. rewrite andb_true_iff, !str_eqb_spec. destruct a, b; simpl. split.
  - intros [-> ->]. reflexivity.
  - intros [= -> ->]. auto.
Qed.

Lemma has_info_spec l i : has_info l i = true <-> In i l.
Proof.
  unfold has_info. rewrite existsb_exists. split.
  - intros [x [Hx He]]. apply info_eqb_spec in He. now subst.
  - intros H. exists i. split; [exact H|]. now apply info_eqb_spec.
Qed.

Lemma NoDup_snoc {A} (l : list A) x : NoDup l -> ~ In x l -> NoDup (l ++ [x]).
Proof.
  induction l as [|y l IH]; simpl; intros Hd Hn.
  - constructor; [intros []|constructor].
  - inversion Hd as [|? ? Hy Hl]; subst. constructor.
    + rewrite in_app_iff. simpl. intros [H|[H|[]]]; [contradiction|subst; tauto].
    + apply IH; tauto.
Qed.

Lemma add_infos_spec src : forall dst,
  (forall i, In i (add_infos dst src) <-> In i dst \/ In i src) /\
  (NoDup dst -> NoDup (add_infos dst src)) /\
  (exists extra, add_infos dst src = dst ++ extra).
Proof.
  unfold add_infos. induction src as [|x src IH]; intros dst; simpl.
  - split; [|split]; [tauto|auto|exists []; now rewrite app_nil_r].
  - destruct (has_info dst x) eqn:E.
    + apply has_info_spec in E. destruct (IH dst) as [H1 [H2 H3]]. split; [|split]; auto.
      intros i. rewrite H1. split; [tauto|]. intros [H|[->|H]]; auto.
    + assert (Hn : ~ In x dst) by (rewrite <- has_info_spec; congruence).
      destruct (IH (dst ++ [x])) as [H1 [H2 [extra H3]]]. split; [|split].
      * intros i. rewrite H1, in_app_iff. simpl. tauto.
      * intros Hd. apply H2. apply NoDup_snoc; assumption.
      * exists (x :: extra). rewrite H3, <- app_assoc. reflexivity.
Qed.

Definition infos_of (o : option (list info)) : list info := match o with Some l => l | None => [] end.

Lemma add_infos_opt_spec dst o :
  (forall i, In i (add_infos_opt dst o) <-> In i dst \/ In i (infos_of o)) /\
  (NoDup dst -> NoDup (add_infos_opt dst o)) /\
  (exists extra, add_infos_opt dst o = dst ++ extra).
Proof.
  destruct o as [l|]; simpl.
  - apply add_infos_spec.
  - split; [|split]; [tauto|auto|exists []; now rewrite app_nil_r].
Qed.

(* ------------------------------------------------------------------ *)
(* compare_inclusion *)

Lemma compare_inclusion_spec a b :
  match compare_inclusion a b with
  | B_EQUAL => a = b
  | B_INCLUDED => bs_subset a b = true /\ a <> b
  | B_CONTAINS => bs_subset b a = true /\ bs_subset a b = false
  | B_INTERSECTS => bs_subset a b = false /\ bs_subset b a = false /\ bs_intersects a b = true
  | B_DIFFERENT => bs_intersects a b = false /\ bs_subset a b = false /\ bs_subset b a = false
  end.
Proof.
  unfold compare_inclusion.
  destruct (bs_eqb a b) eqn:E1; [now apply bs_eqb_spec|].
  apply bs_eqb_false in E1.
  destruct (bs_subset a b) eqn:E2; [auto|].
  destruct (bs_subset b a) eqn:E3; [auto|].
  destruct (bs_intersects a b) eqn:E4; auto.
Qed.

(* ------------------------------------------------------------------ *)
(* how many kinds contain PU p *)

Definition b2n (b : bool) : nat := if b then 1%nat else 0%nat.
Fixpoint cnt (ks : list kind) (p : N) : nat :=
  match ks with [] => 0%nat | k :: r => (b2n (mem p (k_cpuset k)) + cnt r p)%nat end.

Lemma cnt_app a b p : cnt (a ++ b) p = (cnt a p + cnt b p)%nat.
Proof. induction a; simpl; lia. Qed.

Lemma cnt_in ks k p : In k ks -> mem p (k_cpuset k) = true -> (1 <= cnt ks p)%nat.
Proof.
  induction ks as [|x ks IH]; simpl; intros [] Hm.
  - subst. rewrite Hm. simpl. lia.
  - specialize (IH H Hm). lia.
Qed.

Lemma cnt_pos ks p : (1 <= cnt ks p)%nat -> exists k, In k ks /\ mem p (k_cpuset k) = true.
Proof.
  induction ks as [|x ks IH]; simpl; intros H; [lia|].
  destruct (mem p (k_cpuset x)) eqn:E.
  - exists x. auto.
  - simpl in H. destruct (IH H) as [k [H1 H2]]. exists k. auto.
Qed.

Lemma cnt_map_cpuset a b p : map k_cpuset a = map k_cpuset b -> cnt a p = cnt b p.
Proof.
  revert b. induction a as [|x a IH]; intros [|y b]; simpl; intros H; try discriminate; auto.
  injection H as H1 H2. rewrite H1, (IH b H2). reflexivity.
Qed.

Lemma cnt_perm a b p : Permutation (map k_cpuset a) (map k_cpuset b) -> cnt a p = cnt b p.
Proof.
  assert (G : forall l, cnt l p = fold_right (fun s n => (b2n (mem p s) + n)%nat) 0%nat (map k_cpuset l)).
  { induction l; simpl; auto. }
  intros H. rewrite !G. induction H; simpl; lia.
Qed.

(* ------------------------------------------------------------------ *)
(* one step of the registration loop: unconditional facts *)

Definition clean (s : kind) : Prop := k_arr s = false.

Lemma reg_step_facts flags forced infos k cs tl k' n cs' tl' :
  reg_step flags forced infos k cs tl = SOk k' n cs' tl' ->
  (forall p, (b2n (mem p (k_cpuset k')) + cnt n p)%nat = b2n (mem p (k_cpuset k))) /\
  (forall p, mem p cs' = mem p cs && negb (mem p (k_cpuset k))) /\
  ((n = [] /\ tl' = tl) \/ (exists slot nk, tl = slot :: tl' /\ n = [nk] /\ clean slot)).
Proof.
  unfold reg_step. intros H.
  pose proof (compare_inclusion_spec cs (k_cpuset k)) as C.
  destruct (compare_inclusion cs (k_cpuset k)).
  - (* EQUAL *) injection H as <- <- <- <-. subst cs. split; [|split]; [| |left; auto].
    + intros p. destruct (_ || _); simpl; lia.
    + intros p. rewrite mem_diff. reflexivity.
  - (* INCLUDED *) destruct tl as [|slot tl0]; [discriminate|].
    destruct (k_arr slot) eqn:Ea; [discriminate|]. injection H as <- <- <- <-.
    split; [|split]; [| |right; eauto].
    + intros p. simpl. rewrite mem_diff, !mem_inter. destruct (mem p cs), (mem p (k_cpuset k)); reflexivity.
    + intros p. rewrite mem_diff, mem_inter. destruct (mem p cs), (mem p (k_cpuset k)); reflexivity.
  - (* CONTAINS *) injection H as <- <- <- <-. split; [|split]; [| |left; auto].
    + intros p. destruct (_ || _); simpl; lia.
    + intros p. rewrite mem_diff. reflexivity.
  - (* INTERSECTS *) destruct tl as [|slot tl0]; [discriminate|].
    destruct (k_arr slot) eqn:Ea; [discriminate|]. injection H as <- <- <- <-.
    split; [|split]; [| |right; eauto].
    + intros p. simpl. rewrite mem_diff, !mem_inter. destruct (mem p cs), (mem p (k_cpuset k)); reflexivity.
    + intros p. rewrite mem_diff, mem_inter. destruct (mem p cs), (mem p (k_cpuset k)); reflexivity.
  - (* DIFFERENT *) injection H as <- <- <- <-. split; [|split]; [| |left; auto].
    + intros p. simpl. lia.
    + intros p. destruct C as [C _]. rewrite bs_intersects_false in C.
      destruct (mem p cs) eqn:E; [|reflexivity]. rewrite (C p E). reflexivity.
Qed.

(* the whole loop: PUs are neither lost nor duplicated; what is left of the
   cpuset; slots consumed *)
Lemma reg_loop_facts flags forced infos : forall olds cs tl r n c t,
  reg_loop flags forced infos olds cs tl = LOk r n c t ->
  (forall p, cnt (r ++ n) p = cnt olds p) /\
  (forall p, mem p c = mem p cs && (cnt olds p =? 0)%nat) /\
  length r = length olds /\
  (exists used, tl = used ++ t /\ length used = length n /\ Forall clean used) /\
  (length n <= length olds)%nat.
Proof.
  induction olds as [|k rest IH]; intros cs tl r n c t H; simpl in H.
  - injection H as <- <- <- <-. split; [|split; [|split; [|split]]]; auto.
    + intros p. simpl. now rewrite andb_true_r.
    + exists []. auto.
  - destruct (reg_step flags forced infos k cs tl) as [k' n1 cs' tl'|] eqn:Es; [|discriminate].
    destruct (reg_step_facts _ _ _ _ _ _ _ _ _ _ Es) as [U1 [U2 U3]].
    destruct (bs_is_empty cs') eqn:Ee.
    + injection H as <- <- <- <-. split; [|split; [|split; [|split]]].
      * intros p. simpl. rewrite cnt_app. specialize (U1 p). lia.
      * intros p. rewrite bs_is_empty_mem in Ee. rewrite (Ee p). specialize (U2 p). rewrite (Ee p) in U2.
        simpl. destruct (mem p cs); [|reflexivity]. simpl in U2.
        destruct (mem p (k_cpuset k)); [reflexivity|discriminate].
      * reflexivity.
      * destruct U3 as [[-> ->]|[slot [nk [-> [-> Hc]]]]].
        -- exists []. auto.
        -- exists [slot]. auto.
      * destruct U3 as [[-> ->]|[slot [nk [-> [-> Hc]]]]]; simpl; lia.
    + destruct (reg_loop flags forced infos rest cs' tl') as [r2 n2 c2 t2|] eqn:El; [|discriminate].
      injection H as <- <- <- <-.
      destruct (IH _ _ _ _ _ _ El) as [I1 [I2 [I3 [[used [I4 [I5 I6]]] I7]]]].
      split; [|split; [|split; [|split]]].
      * intros p. simpl. specialize (U1 p). specialize (I1 p). rewrite !cnt_app in *. lia.
      * intros p. rewrite I2, U2. simpl. destruct (mem p cs), (mem p (k_cpuset k)); simpl; auto.
      * simpl. lia.
      * destruct U3 as [[-> ->]|[slot [nk [-> [-> Hc]]]]].
        -- exists used. auto.
        -- exists (slot :: used). subst tl'. simpl. split; [reflexivity|split; [lia|constructor; auto]].
      * destruct U3 as [[-> ->]|[slot [nk [-> [-> Hc]]]]]; simpl; lia.
Qed.

(* no out-of-bounds slot index as long as one free slot per old kind exists;
   no stale slot touched if all free slots are clean *)
Lemma reg_loop_no_oob flags forced infos : forall olds cs tl,
  (length olds <= length tl)%nat -> reg_loop flags forced infos olds cs tl <> LFatal F_OOB.
Proof.
  induction olds as [|k rest IH]; intros cs tl Hl; simpl; [discriminate|].
  destruct (reg_step flags forced infos k cs tl) as [k' n1 cs' tl'|f] eqn:Es.
  - destruct (reg_step_facts _ _ _ _ _ _ _ _ _ _ Es) as [_ [_ U3]].
    destruct (bs_is_empty cs'); [discriminate|].
    assert (Hl' : (length rest <= length tl')%nat).
    { simpl in Hl. destruct U3 as [[_ ->]|[slot [nk [-> _]]]]; simpl in *; lia. }
    specialize (IH cs' tl' Hl'). destruct (reg_loop flags forced infos rest cs' tl'); congruence.
  - unfold reg_step in Es. simpl in Hl. destruct tl; [simpl in Hl; lia|].
    destruct (compare_inclusion cs (k_cpuset k)); try discriminate;
      destruct (k_arr k0); try discriminate; injection Es as <-; discriminate.
Qed.

Lemma reg_loop_no_stale flags forced infos : forall olds cs tl,
  Forall clean tl -> reg_loop flags forced infos olds cs tl <> LFatal F_STALE.
Proof.
  induction olds as [|k rest IH]; intros cs tl Hc; simpl; [discriminate|].
  destruct (reg_step flags forced infos k cs tl) as [k' n1 cs' tl'|f] eqn:Es.
  - destruct (reg_step_facts _ _ _ _ _ _ _ _ _ _ Es) as [_ [_ U3]].
    destruct (bs_is_empty cs'); [discriminate|].
    assert (Hc' : Forall clean tl').
    { destruct U3 as [[_ ->]|[slot [nk [-> _]]]]; [assumption|]. now inversion Hc. }
    specialize (IH cs' tl' Hc'). destruct (reg_loop flags forced infos rest cs' tl'); congruence.
  - unfold reg_step in Es. destruct (compare_inclusion cs (k_cpuset k)); try discriminate;
      (destruct tl as [|s tl0]; [injection Es as <-; discriminate|]);
      inversion Hc as [|? ? Hs ?]; subst; unfold clean in Hs; rewrite Hs in Es; discriminate.
Qed.

(* ------------------------------------------------------------------ *)
(* the history invariant *)

(* an effective past registration: cpuset (already intersected with the later
   restrictions), forced efficiency as the public entry point passes it on
   (negative values become UNKNOWN), info pairs *)
Record reg := R { r_set : bset; r_forced : Z; r_infos : list info }.

(* forced efficiency of the most recent registration covering s (regs: newest first) *)
Fixpoint last_forced (regs : list reg) (s : bset) : option Z :=
  match regs with
  | [] => None
  | r :: rest => if bs_subset s (r_set r) then Some (r_forced r) else last_forced rest s
  end.

Record kind_ok (regs : list reg) (k : kind) : Prop := {
  ko_ne : bs_is_empty (k_cpuset k) = false;
  ko_atom : forall r, In r regs ->
            bs_subset (k_cpuset k) (r_set r) = true \/ bs_intersects (k_cpuset k) (r_set r) = false;
  ko_sup : forall r, In r regs -> bs_subset (k_cpuset k) (r_set r) = true -> incl (r_infos r) (k_infos k);
  ko_exact : forall i, In i (k_infos k) ->
             exists r, In r regs /\ bs_subset (k_cpuset k) (r_set r) = true /\ In i (r_infos r);
  ko_nodup : NoDup (k_infos k);
  ko_forced : last_forced regs (k_cpuset k) = Some (k_forced k);
  ko_arr : k_arr k = false -> k_infos k = []
}.

Definition registered (regs : list reg) (p : N) : bool := existsb (fun r => mem p (r_set r)) regs.

(* slots whose array pointer is NULL hold no infos (count = 0) *)
Definition slot_wf (s : kind) : Prop := k_arr s = false -> k_infos s = [].

Record Inv (regs : list reg) (st : state) : Prop := {
  inv_kinds : Forall (kind_ok regs) (kinds st);
  inv_part : forall p, cnt (kinds st) p = b2n (registered regs p);
  inv_tail : Forall slot_wf (tail st)
}.

Lemma last_forced_ext regs a b :
  (forall r, In r regs -> bs_subset a (r_set r) = bs_subset b (r_set r)) ->
  last_forced regs a = last_forced regs b.
Proof.
  induction regs as [|r regs IH]; simpl; intros H; [reflexivity|].
  rewrite (H r (or_introl eq_refl)). destruct (bs_subset b (r_set r)); [reflexivity|].
  apply IH. intros r' Hr'. apply H. now right.
Qed.

(* for a non-empty part s of a kind k, "s inside r" and "k inside r" agree *)
Lemma sub_part_eq regs k s r :
  kind_ok regs k -> In r regs -> bs_is_empty s = false -> bs_subset s (k_cpuset k) = true ->
  bs_subset s (r_set r) = bs_subset (k_cpuset k) (r_set r).
Proof.
  intros Hk Hr Hne Hs. destruct (ko_atom _ _ Hk r Hr) as [H|H].
  - rewrite H. apply bs_subset_spec. intros p Hp.
    rewrite bs_subset_spec in Hs, H. auto.
  - destruct (bs_subset (k_cpuset k) (r_set r)) eqn:E.
    + apply bs_subset_spec. intros p Hp. rewrite bs_subset_spec in Hs, E. auto.
    + apply bs_subset_false. apply bs_nonempty_mem in Hne. destruct Hne as [p Hp].
      exists p. split; [exact Hp|]. rewrite bs_intersects_false in H. apply H.
      rewrite bs_subset_spec in Hs. auto.
Qed.

Lemma kind_ok_shrink regs k s :
  kind_ok regs k -> bs_is_empty s = false -> bs_subset s (k_cpuset k) = true ->
  kind_ok regs (set_cpuset k s).
Proof.
  intros Hk Hne Hs. constructor; simpl.
  - exact Hne.
  - intros r Hr. rewrite (sub_part_eq regs k s r Hk Hr Hne Hs).
    destruct (ko_atom _ _ Hk r Hr) as [H|H]; [left; exact H|right].
    rewrite bs_intersects_false in *. intros p Hp. apply H. rewrite bs_subset_spec in Hs. auto.
  - intros r Hr. rewrite (sub_part_eq regs k s r Hk Hr Hne Hs). apply (ko_sup _ _ Hk r Hr).
  - intros i Hi. destruct (ko_exact _ _ Hk i Hi) as [r [H1 [H2 H3]]].
    exists r. split; [exact H1|split; [|exact H3]].
    rewrite (sub_part_eq regs k s r Hk H1 Hne Hs). exact H2.
  - apply (ko_nodup _ _ Hk).
  - rewrite <- (ko_forced _ _ Hk). apply last_forced_ext. intros r Hr.
    apply (sub_part_eq regs k s r Hk Hr Hne Hs).
  - apply (ko_arr _ _ Hk).
Qed.

(* a kind untouched by a new registration it is disjoint from *)
Lemma kind_ok_cons_disj regs k r0 :
  kind_ok regs k -> (forall p, mem p (k_cpuset k) = true -> mem p (r_set r0) = false) ->
  kind_ok (r0 :: regs) k.
Proof.
  intros Hk Hd.
  assert (Hns : bs_subset (k_cpuset k) (r_set r0) = false).
  { apply bs_subset_false. pose proof (ko_ne _ _ Hk) as Hne. apply bs_nonempty_mem in Hne.
    destruct Hne as [p Hp]. exists p. auto. }
  constructor.
  - apply (ko_ne _ _ Hk).
  - intros r [<-|Hr]; [right; now apply bs_intersects_false|apply (ko_atom _ _ Hk r Hr)].
  - intros r [<-|Hr] Hsub; [congruence|apply (ko_sup _ _ Hk r Hr Hsub)].
  - intros i Hi. destruct (ko_exact _ _ Hk i Hi) as [r [H1 H2]]. exists r. split; [now right|exact H2].
  - apply (ko_nodup _ _ Hk).
  - simpl. rewrite Hns. apply (ko_forced _ _ Hk).
  - apply (ko_arr _ _ Hk).
Qed.

(* a kind made of a non-empty part of an old kind that lies inside the new
   registration, carrying the old infos and the new ones *)
Lemma kind_ok_cons_sub regs k r0 k2 :
  kind_ok regs k ->
  bs_is_empty (k_cpuset k2) = false ->
  bs_subset (k_cpuset k2) (k_cpuset k) = true ->
  bs_subset (k_cpuset k2) (r_set r0) = true ->
  (forall i, In i (k_infos k2) <-> In i (k_infos k) \/ In i (r_infos r0)) ->
  NoDup (k_infos k2) ->
  k_forced k2 = r_forced r0 ->
  (k_arr k2 = false -> k_infos k2 = []) ->
  kind_ok (r0 :: regs) k2.
Proof.
  intros Hk Hne Hs Hs0 Hinf Hnd Hf Harr.
  pose proof (kind_ok_shrink regs k (k_cpuset k2) Hk Hne Hs) as Hsh.
  constructor.
  - exact Hne.
  - intros r [<-|Hr]; [left; exact Hs0|apply (ko_atom _ _ Hsh r Hr)].
  - intros r [<-|Hr] Hsub i Hi; apply Hinf; [now right|left].
    rewrite (sub_part_eq regs k _ r Hk Hr Hne Hs) in Hsub. apply (ko_sup _ _ Hk r Hr Hsub i Hi).
  - intros i Hi. apply Hinf in Hi. destruct Hi as [Hi|Hi].
    + destruct (ko_exact _ _ Hk i Hi) as [r [H1 [H2 H3]]]. exists r. split; [now right|split; [|exact H3]].
      rewrite (sub_part_eq regs k _ r Hk H1 Hne Hs). exact H2.
    + exists r0. split; [now left|auto].
  - exact Hnd.
  - simpl. rewrite Hs0, Hf. reflexivity.
  - exact Harr.
Qed.

(* the final kind: PUs of the new registration that no kind contained *)
Lemma kind_ok_cons_rest regs r0 k2 :
  bs_is_empty (k_cpuset k2) = false ->
  bs_subset (k_cpuset k2) (r_set r0) = true ->
  (forall p, mem p (k_cpuset k2) = true -> registered regs p = false) ->
  (forall i, In i (k_infos k2) <-> In i (r_infos r0)) ->
  NoDup (k_infos k2) ->
  k_forced k2 = r_forced r0 ->
  (k_arr k2 = false -> k_infos k2 = []) ->
  kind_ok (r0 :: regs) k2.
Proof.
  intros Hne Hs0 Hd Hinf Hnd Hf Harr.
  assert (Hdis : forall r, In r regs -> bs_intersects (k_cpuset k2) (r_set r) = false).
  { intros r Hr. apply bs_intersects_false. intros p Hp. specialize (Hd p Hp).
    unfold registered in Hd. destruct (mem p (r_set r)) eqn:E; [|reflexivity].
    assert (existsb (fun r => mem p (r_set r)) regs = true) by (apply existsb_exists; eauto). congruence. }
  assert (Hnsub : forall r, In r regs -> bs_subset (k_cpuset k2) (r_set r) = false).
  { intros r Hr. apply bs_subset_false. apply bs_nonempty_mem in Hne. destruct Hne as [p Hp].
    exists p. split; [exact Hp|]. specialize (Hdis r Hr). rewrite bs_intersects_false in Hdis. auto. }
  constructor.
  - exact Hne.
  - intros r [<-|Hr]; [left; exact Hs0|right; auto].
  - intros r [<-|Hr] Hsub i Hi; [now apply Hinf|rewrite (Hnsub r Hr) in Hsub; discriminate].
  - intros i Hi. exists r0. split; [now left|split; [exact Hs0|now apply Hinf]].
  - exact Hnd.
  - simpl. rewrite Hs0, Hf. reflexivity.
  - exact Harr.
Qed.

Lemma set_infos_arr k l : slot_wf k -> k_arr (set_infos k l) = false -> l = [].
Proof.
  unfold slot_wf, set_infos. simpl. intros Hw H. apply orb_false_iff in H. destruct H as [Ha Hl].
  rewrite (Hw Ha) in Hl. simpl in Hl. destruct l; [reflexivity|discriminate].
Qed.

(* one step preserves the per-kind invariant w.r.t. the new registration *)
Lemma reg_step_ok regs cs0 flags forced infos k cs tl k' n cs' tl' :
  reg_step flags forced infos k cs tl = SOk k' n cs' tl' ->
  bs_is_empty cs = false ->
  (forall p, mem p (k_cpuset k) = true -> mem p cs = mem p cs0) ->
  Forall slot_wf tl ->
  (N.land flags OVERWRITE =? 0)%N = false ->
  kind_ok regs k ->
  kind_ok (R cs0 forced (infos_of infos) :: regs) k' /\
  Forall (kind_ok (R cs0 forced (infos_of infos) :: regs)) n.
Proof.
  intros Es Hne Hrun Htl Hfl Hk. unfold reg_step in Es.
  pose proof (compare_inclusion_spec cs (k_cpuset k)) as C.
  set (r0 := R cs0 forced (infos_of infos)).
  (* the two merge cases *)
  assert (Merge : bs_subset (k_cpuset k) cs = true ->
          kind_ok (r0 :: regs) (set_forced (set_infos k (add_infos_opt (k_infos k) infos)) forced)).
  { intros Hkc. destruct (add_infos_opt_spec (k_infos k) infos) as [A1 [A2 _]].
    apply (kind_ok_cons_sub regs k r0); simpl; auto.
    - apply (ko_ne _ _ Hk).
    - apply bs_subset_refl.
    - apply bs_subset_spec. intros p Hp. rewrite <- (Hrun p Hp). rewrite bs_subset_spec in Hkc. auto.
    - apply A2, (ko_nodup _ _ Hk).
    - intros Ha. apply (set_infos_arr k); [exact (ko_arr _ _ Hk)|exact Ha]. }
  (* the two split cases *)
  assert (Split : forall slot,
          bs_is_empty (bs_diff (k_cpuset k) (bs_inter cs (k_cpuset k))) = false ->
          bs_is_empty (bs_inter cs (k_cpuset k)) = false ->
          slot_wf slot -> k_arr slot = false ->
          kind_ok (r0 :: regs) (set_cpuset k (bs_diff (k_cpuset k) (bs_inter cs (k_cpuset k)))) /\
          kind_ok (r0 :: regs) (set_infos (K (bs_inter cs (k_cpuset k)) UNKNOWN forced (k_rank slot) (k_infos slot) false)
                      (add_infos_opt (add_infos (k_infos slot) (k_infos k)) infos))).
  { intros slot Hn1 Hn2 Hw Ha. split.
    - apply kind_ok_cons_disj.
      + apply kind_ok_shrink; [exact Hk|exact Hn1|].
        apply bs_subset_spec. intros p. rewrite mem_diff. intros H. apply andb_true_iff in H. tauto.
      + simpl. intros p. rewrite mem_diff, mem_inter. intros H. apply andb_true_iff in H. destruct H as [H1 H2].
        rewrite <- (Hrun p H1). rewrite H1, andb_true_r in H2. now apply negb_true_iff.
    - destruct (add_infos_spec (k_infos k) (k_infos slot)) as [B1 [B2 _]].
      destruct (add_infos_opt_spec (add_infos (k_infos slot) (k_infos k)) infos) as [A1 [A2 _]].
      rewrite (Hw Ha) in *.
      apply (kind_ok_cons_sub regs k r0); simpl; auto.
      + apply bs_subset_spec. intros p. rewrite mem_inter. intros H. apply andb_true_iff in H. tauto.
      + apply bs_subset_spec. intros p. rewrite mem_inter. intros H. apply andb_true_iff in H.
        destruct H as [H1 H2]. rewrite <- (Hrun p H2). exact H1.
      + intros i. rewrite A1, B1. simpl. tauto.
      + apply A2, B2. constructor.
      + intros H. apply (set_infos_arr (K (bs_inter cs (k_cpuset k)) UNKNOWN forced (k_rank slot) [] false)); [|exact H].
        intros _. reflexivity. }
  assert (Hor : negb (N.land flags OVERWRITE =? 0)%N || (k_forced k =? UNKNOWN) = true) by (rewrite Hfl; reflexivity).
  destruct (compare_inclusion cs (k_cpuset k)).
  - (* EQUAL *) rewrite Hor in Es. injection Es as <- <- <- <-. split; [|constructor].
    apply Merge. rewrite C. apply bs_subset_refl.
  - (* INCLUDED *) destruct tl as [|slot tl0]; [discriminate|].
    destruct (k_arr slot) eqn:Ea; [discriminate|]. injection Es as <- <- <- <-.
    destruct C as [C1 C2]. inversion Htl as [|? ? Hw Htl0]; subst.
    destruct (Split slot) as [S1 S2]; auto.
    + destruct (bs_strict_subset_witness _ _ C1 C2) as [p [P1 P2]]. apply bs_nonempty_mem. exists p.
      rewrite mem_diff, mem_inter, P1, P2. reflexivity.
    + apply bs_nonempty_mem in Hne. destruct Hne as [p Hp]. apply bs_nonempty_mem. exists p.
      rewrite mem_inter, Hp. rewrite bs_subset_spec in C1. rewrite (C1 p Hp). reflexivity.
  - (* CONTAINS *) rewrite Hor in Es. injection Es as <- <- <- <-. split; [|constructor].
    apply Merge. apply C.
  - (* INTERSECTS *) destruct tl as [|slot tl0]; [discriminate|].
    destruct (k_arr slot) eqn:Ea; [discriminate|]. injection Es as <- <- <- <-.
    destruct C as [C1 [C2 C3]]. inversion Htl as [|? ? Hw Htl0]; subst.
    destruct (Split slot) as [S1 S2]; auto.
    + apply bs_subset_false in C2. destruct C2 as [p [P1 P2]]. apply bs_nonempty_mem. exists p.
      rewrite mem_diff, mem_inter, P1, P2. reflexivity.
    + apply bs_intersects_spec in C3. destruct C3 as [p [P1 P2]]. apply bs_nonempty_mem. exists p.
      rewrite mem_inter, P1, P2. reflexivity.
  - (* DIFFERENT *) injection Es as <- <- <- <-. split; [|constructor].
    apply kind_ok_cons_disj; [exact Hk|]. simpl. intros p Hp. rewrite <- (Hrun p Hp).
    destruct C as [C _]. rewrite bs_intersects_false in C.
    destruct (mem p cs) eqn:E; [|reflexivity]. rewrite (C p E) in Hp. discriminate.
Qed.

Lemma reg_loop_ok regs cs0 flags forced infos : forall olds cs tl r n c t,
  reg_loop flags forced infos olds cs tl = LOk r n c t ->
  bs_is_empty cs = false ->
  (forall k p, In k olds -> mem p (k_cpuset k) = true -> mem p cs = mem p cs0) ->
  (forall p, (cnt olds p <= 1)%nat) ->
  Forall slot_wf tl ->
  (N.land flags OVERWRITE =? 0)%N = false ->
  Forall (kind_ok regs) olds ->
  Forall (kind_ok (R cs0 forced (infos_of infos) :: regs)) (r ++ n) /\ Forall slot_wf t.
Proof.
  induction olds as [|k rest IH]; intros cs tl r n c t H Hne Hrun Hpd Htl Hfl Hok; simpl in H.
  - injection H as <- <- <- <-. split; [constructor|exact Htl].
  - destruct (reg_step flags forced infos k cs tl) as [k' n1 cs' tl'|] eqn:Es; [|discriminate].
    destruct (reg_step_facts _ _ _ _ _ _ _ _ _ _ Es) as [U1 [U2 U3]].
    inversion Hok as [|? ? Hk Hrest]; subst.
    destruct (reg_step_ok regs cs0 _ _ _ _ _ _ _ _ _ _ Es Hne) as [S1 S2]; auto.
    { intros p Hp. apply (Hrun k p); [now left|exact Hp]. }
    assert (Htl' : Forall slot_wf tl').
    { destruct U3 as [[_ ->]|[slot [nk [-> _]]]]; [exact Htl|now inversion Htl]. }
    assert (Hnotk : forall k2 p, In k2 rest -> mem p (k_cpuset k2) = true -> mem p (k_cpuset k) = false).
    { intros k2 p Hin Hp. pose proof (cnt_in rest k2 p Hin Hp). specialize (Hpd p). simpl in Hpd.
      destruct (mem p (k_cpuset k)); [simpl in Hpd; lia|reflexivity]. }
    destruct (bs_is_empty cs') eqn:Ee.
    + injection H as <- <- <- <-. split; [|exact Htl'].
      simpl. constructor; [exact S1|]. apply Forall_app. split; [|exact S2].
      rewrite Forall_forall in *. intros k2 Hin. apply kind_ok_cons_disj; [auto|].
      simpl. intros p Hp. rewrite <- (Hrun k2 p (or_intror Hin) Hp).
      rewrite bs_is_empty_mem in Ee. specialize (U2 p). rewrite (Ee p), (Hnotk k2 p Hin Hp) in U2.
      simpl in U2. rewrite andb_true_r in U2. auto.
    + destruct (reg_loop flags forced infos rest cs' tl') as [r2 n2 c2 t2|] eqn:El; [|discriminate].
      injection H as <- <- <- <-.
      destruct (IH _ _ _ _ _ _ El) as [I1 I2]; auto.
      { intros k2 p Hin Hp. rewrite U2, (Hnotk k2 p Hin Hp). simpl. rewrite andb_true_r.
        apply (Hrun k2 p); [now right|exact Hp]. }
      { intros p. specialize (Hpd p). simpl in Hpd. lia. }
      split; [|exact I2]. simpl. constructor; [exact S1|].
      apply Forall_app in I1. destruct I1 as [I1a I1b].
      apply Forall_app. split; [exact I1a|]. apply Forall_app. split; assumption.
Qed.

(* growing the array changes neither the kinds nor the invariant *)
Lemma grow_spec st st1 : grow st = Some st1 ->
  kinds st1 = kinds st /\ (exists z, tail st1 = tail st ++ repeat zero_slot z) /\
  (length (kinds st) + 1 <= length (tail st1))%nat.
Proof.
  unfold grow, wanted_capacity. set (n := N.of_nat (length (kinds st))).
  destruct (_ <=? _)%N eqn:Eb; [discriminate|].
  set (m := (2 ^ (N.size (2 * n + 1 - 1) + 1))%N).
  assert (Hm : (2 * n + 2 <= m)%N).
  { unfold m. replace (2 * n + 1 - 1)%N with (2 * n)%N by lia.
    pose proof (N.size_gt (2 * n)) as Hs. rewrite N.pow_add_r. simpl (2 ^ 1)%N. lia. }
  set (cap := if (m <? 8)%N then 8%N else m).
  assert (Hcap : (2 * n + 2 <= cap)%N) by (unfold cap; destruct (m <? 8)%N eqn:E; lia).
  unfold nr_allocated. intros H.
  destruct (N.of_nat (length (kinds st) + length (tail st)) <? cap)%N eqn:El; injection H as <-; simpl.
  - split; [reflexivity|]. split; [eexists; reflexivity|]. rewrite app_length, repeat_length. lia.
  - split; [reflexivity|]. split; [exists 0%nat; simpl; now rewrite app_nil_r|]. lia.
Qed.

Lemma zero_slots_wf z : Forall slot_wf (repeat zero_slot z).
Proof. induction z; simpl; constructor; auto. intros _. reflexivity. Qed.

(* hwloc_internal_cpukinds_register keeps the invariant, extended by the new registration *)
Lemma internal_register_inv regs st cs forced infos flags st' :
  Inv regs st ->
  internal_register st cs forced infos flags = IOk st' ->
  (N.land flags OVERWRITE =? 0)%N = false ->
  Inv (R cs forced (infos_of infos) :: regs) st'.
Proof.
  intros [Ik Ip It] H Hfl. unfold internal_register in H.
  destruct (bs_is_empty cs) eqn:Hne; [discriminate|].
  destruct (negb _); [discriminate|].
  destruct (grow st) as [st1|] eqn:Eg; [|discriminate].
  destruct (grow_spec _ _ Eg) as [G1 [[z G2] G3]].
  destruct (reg_loop flags forced infos (kinds st1) cs (tail st1)) as [olds news cs' tl|] eqn:El; [|discriminate].
  rewrite G1 in El.
  assert (Htl1 : Forall slot_wf (tail st1)).
  { rewrite G2. apply Forall_app. split; [exact It|apply zero_slots_wf]. }
  destruct (reg_loop_facts _ _ _ _ _ _ _ _ _ _ El) as [F1 [F2 _]].
  destruct (reg_loop_ok regs cs _ _ _ _ _ _ _ _ _ _ El Hne) as [O1 O2]; auto.
  { intros p. rewrite Ip. destruct (registered regs p); simpl; lia. }
  assert (Hpart : forall p, (cnt (olds ++ news) p + b2n (mem p cs'))%nat =
                            b2n (registered (R cs forced (infos_of infos) :: regs) p)).
  { intros p. rewrite F1, F2, Ip. simpl. destruct (mem p cs), (registered regs p); reflexivity. }
  destruct (bs_is_empty cs') eqn:Ee.
  - injection H as <-. constructor; cbn [kinds tail]; auto.
    intros p. rewrite <- Hpart. rewrite bs_is_empty_mem in Ee. rewrite (Ee p). simpl. lia.
  - destruct tl as [|slot tl']; [discriminate|].
    destruct (k_arr slot) eqn:Ea; [discriminate|]. injection H as <-.
    inversion O2 as [|? ? Hw O2']; subst.
    constructor; cbn [kinds tail]; auto.
    + apply Forall_app in O1. destruct O1 as [O1a O1b].
      apply Forall_app. split; [exact O1a|]. apply Forall_app. split; [exact O1b|].
      constructor; [|constructor].
      destruct (add_infos_opt_spec (k_infos slot) infos) as [A1 [A2 _]]. rewrite (Hw Ea) in *.
      apply kind_ok_cons_rest; simpl; auto.
      * apply bs_subset_spec. intros p. rewrite F2. intros Hp. apply andb_true_iff in Hp. tauto.
      * intros p. rewrite F2, Ip. intros Hp. apply andb_true_iff in Hp. destruct Hp as [_ Hp].
        destruct (registered regs p); [discriminate|reflexivity].
      * intros i. rewrite A1. simpl. tauto.
      * apply A2. constructor.
      * intros Hx. apply (set_infos_arr (K cs' UNKNOWN forced (k_rank slot) [] false)); [|exact Hx].
        intros _. reflexivity.
    + intros p. rewrite <- Hpart. rewrite app_assoc, cnt_app. simpl. lia.
Qed.
