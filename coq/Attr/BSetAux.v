(* Extra facts about BSet used by the cpukinds proofs: the negative forms of
   the boolean predicates as pointwise statements. *)
From Coq Require Import NArith Bool List Lia.
From HV Require Import Base.BSet.
Local Open Scope N_scope.

Lemma bs_nonempty_mem s : bs_is_empty s = false <-> exists p, mem p s = true.
Proof.
  split.
  - intros H. destruct (bs_first s) as [k|] eqn:E.
    + exists k. apply (bs_first_some s k E).
    + apply bs_first_none in E. subst s. discriminate H.
  - intros [p Hp]. destruct (bs_is_empty s) eqn:E; [|reflexivity].
    rewrite bs_is_empty_mem in E. rewrite E in Hp. discriminate.
Qed.

Lemma bs_subset_false a b : bs_subset a b = false <-> exists p, mem p a = true /\ mem p b = false.
Proof.
  unfold bs_subset. rewrite bs_nonempty_mem. split; intros [p H]; exists p.
  - rewrite mem_diff in H. apply andb_true_iff in H. destruct H as [H1 H2].
    split; [exact H1|]. now apply negb_true_iff.
  - rewrite mem_diff. destruct H as [-> ->]. reflexivity.
Qed.

Lemma bs_intersects_false a b : bs_intersects a b = false <-> forall p, mem p a = true -> mem p b = false.
Proof.
  split.
  - intros H p Hp. destruct (mem p b) eqn:E; [|reflexivity].
    assert (bs_intersects a b = true) by (apply bs_intersects_spec; eauto). congruence.
  - intros H. destruct (bs_intersects a b) eqn:E; [|reflexivity].
    apply bs_intersects_spec in E. destruct E as [p [H1 H2]]. rewrite (H p H1) in H2. discriminate.
Qed.

Lemma bs_subset_refl a : bs_subset a a = true.
Proof. apply bs_subset_spec. auto. Qed.

Lemma bs_eqb_refl a : bs_eqb a a = true.
Proof. now apply bs_eqb_spec. Qed.

Lemma bs_eqb_false a b : bs_eqb a b = false <-> a <> b.
Proof.
  split.
  - intros H E. subst. rewrite bs_eqb_refl in H. discriminate.
  - intros H. destruct (bs_eqb a b) eqn:E; [|reflexivity]. apply bs_eqb_spec in E. contradiction.
Qed.

(* a subset that is not equal misses some element *)
Lemma bs_strict_subset_witness a b :
  bs_subset a b = true -> a <> b -> exists p, mem p b = true /\ mem p a = false.
Proof.
  intros Hs Hne.
  destruct (bs_subset b a) eqn:E.
  - exfalso. apply Hne. apply bs_ext. intros i.
    rewrite bs_subset_spec in Hs, E.
    destruct (mem i a) eqn:Ea, (mem i b) eqn:Eb; auto.
    + apply Hs in Ea. congruence.
    + apply E in Eb. congruence.
  - apply bs_subset_false in E. exact E.
Qed.
