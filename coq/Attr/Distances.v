(* C13 - executable model of hwloc/distances.c (statement order kept where the
   C code updates arrays in place).

   The topology is abstracted to what distances.c asks of it: the list of live
   objects (level order) with type / gp_index / os_index / "subtype is
   NVSwitch", and the types of the normal levels (for hwloc_get_depth_type).
   An object pointer is modelled by the object record (gp_index is its
   identity); NULL is None.  Matrices are row-major lists of uint64 values.

   The switches FIX_* select the statement as it is in the current
   source (false) or as it is after the corresponding patch in
   /verif/patches (true). *)
From Coq Require Import List NArith ZArith Bool Lia.
From HV Require Import Gen.Tables.
Import ListNotations.
Local Open Scope N_scope.

(* ---- switches following /repo (see /verif/patches/fix-C13-*.diff) ---- *)
Definition FIX_NULL_FIRST : bool := true.   (* add_values NULL scan starts at 0 instead of 1 *)
Definition FIX_MERGE_PORTS : bool := true.  (* objs[j] = NULL inside if (is_nvswitch(objs[j])) *)
Definition FIX_BY_NAME_KIND : bool := true. (* get_by_name passes kind 0 instead of KIND_ALL *)
Definition FIX_XML_KIND_ZERO : bool := true. (* XML import no longer treats kind="0" as a missing attribute *)
Definition FIX_GROUPS_FIRSTFOUND : bool := true. (* newfirstfound = smallest newly grouped index, not the first one found *)

Definition TYPE_NONE : N := HWLOC_OBJ_TYPE_NONE_U.
Definition two64 : N := 18446744073709551616.
Definition two32 : N := 4294967296.
Definition UINT64_MAX : N := 18446744073709551615.

Record obj := Obj { o_type : N; o_gp : N; o_os : N; o_nvs : bool }.
Definition oref := option obj.

Inductive err := EINVAL | ENOENT | EPERM.
Inductive res (A : Type) := Ok (a : A) | Err (e : err).
Arguments Ok {A} a.
Arguments Err {A} e.

Definition is_some {A} (o : option A) : bool := match o with Some _ => true | None => false end.

(* array cell update; out of range leaves the array unchanged (never happens
   under the length invariants, see DistancesProofs) *)
Fixpoint upd {A} (l : list A) (k : nat) (v : A) : list A :=
  match l, k with
  | [], _ => []
  | _ :: t, O => v :: t
  | h :: t, S k' => h :: upd t k' v
  end.

Fixpoint list_eqb (a b : list N) : bool :=
  match a, b with
  | [], [] => true
  | x :: a', y :: b' => (x =? y) && list_eqb a' b'
  | _, _ => false
  end.

Fixpoint countb (l : list bool) : nat :=
  match l with [] => O | b :: t => (if b then 1 else 0) + countb t end.

(* ------------------------------------------------------------------ *)
(* Internal distances (struct hwloc_internal_distances_s)             *)
(* ------------------------------------------------------------------ *)
Record idist := IDist {
  d_name : option (list N);        (* bytes of the name, None = NULL *)
  d_id : N;
  d_kind : N;
  d_unique : N;                    (* TYPE_NONE when heterogeneous *)
  d_diff : option (list N);        (* different_types, None = NULL *)
  d_nb : nat;
  d_indexes : list N;
  d_objs : list oref;
  d_values : list N;
  d_valid : bool                   (* HWLOC_INTERNAL_DIST_FLAG_OBJS_VALID *)
}.

(* struct hwloc_distances_container_s: what get() hands to the caller *)
Record pdist := PDist {
  p_id : N; p_nb : nat; p_objs : list oref; p_kind : N; p_values : list N
}.

Record topo := Topo {
  t_objs : list obj;               (* live objects, level order *)
  t_levels : list N;               (* type of each normal level *)
  t_dists : list idist;            (* first_dist .. last_dist *)
  t_next_id : N
}.

Definition set_dists (t : topo) (ds : list idist) : topo :=
  Topo (t_objs t) (t_levels t) ds (t_next_id t).

Definition use_os_index (ty : N) : bool := (ty =? HWLOC_OBJ_PU) || (ty =? HWLOC_OBJ_NUMANODE).

(* ------------------------------------------------------------------ *)
(* hwloc_internal_distances_restrict: in place, in the C loop order    *)
(* ------------------------------------------------------------------ *)

(* for(j=0,newj=0; j<nbobjs; j++) if (objs[j]) { values[newi*(nbobjs-disappeared)+newj] = values[i*nbobjs+j]; newj++; } *)
Fixpoint restrict_inner (keep : list bool) (nb newnb i newi j newj : nat) (v : list N) : list N :=
  match keep with
  | [] => v
  | k :: ks =>
    if k then restrict_inner ks nb newnb i newi (S j) (S newj)
                (upd v (newi * newnb + newj) (nth (i * nb + j) v 0))
    else restrict_inner ks nb newnb i newi (S j) newj v
  end.

(* for(i=0,newi=0; i<nbobjs; i++) if (objs[i]) { <inner>; newi++; } *)
Fixpoint restrict_outer (keepall keep : list bool) (nb newnb i newi : nat) (v : list N) : list N :=
  match keep with
  | [] => v
  | k :: ks =>
    if k then restrict_outer keepall ks nb newnb (S i) (S newi)
                (restrict_inner keepall nb newnb i newi 0 0 v)
    else restrict_outer keepall ks nb newnb (S i) newi v
  end.

(* the first loop nest; objs[] is not written by it, so the tests objs[i] /
   objs[j] are the fixed vector [keep] *)
Definition restrict_values (keep : list bool) (nb dis : nat) (v : list N) : list N :=
  restrict_outer keep keep nb (nb - dis) 0 0 v.

(* second loop: for(i=0,newi=0; i<nbobjs; i++) if (objs[i]) { objs[newi]=objs[i];
   if (indexes) indexes[newi]=indexes[i]; if (different_types) ...; newi++; }
   the test reads the array that is being overwritten *)
Fixpoint restrict_arrays (n i newi : nat) (objs : list oref) (idx dt : option (list N))
  : list oref * option (list N) * option (list N) :=
  match n with
  | O => (objs, idx, dt)
  | S n' =>
    match nth i objs None with
    | Some o =>
      restrict_arrays n' (S i) (S newi) (upd objs newi (Some o))
        (option_map (fun l => upd l newi (nth i l 0)) idx)
        (option_map (fun l => upd l newi (nth i l 0)) dt)
    | None => restrict_arrays n' (S i) newi objs idx dt
    end
  end.

(* the whole function, followed by the caller's "nbobjs -= disappeared": the
   cells past the new size are dead (every later loop is bounded by nbobjs),
   the model drops them *)
Definition restrict_all (objs : list oref) (idx dt : option (list N)) (v : list N) (nb dis : nat)
  : list oref * option (list N) * option (list N) * list N :=
  let keep := map is_some (firstn nb objs) in
  let v' := restrict_values keep nb dis v in
  let '(objs', idx', dt') := restrict_arrays nb 0 0 objs idx dt in
  let n' := (nb - dis)%nat in
  (firstn n' objs', option_map (firstn n') idx', option_map (firstn n') dt', firstn (n' * n') v').

(* ------------------------------------------------------------------ *)
(* add: create / values / commit                                       *)
(* ------------------------------------------------------------------ *)

Fixpoint popcount_pos (p : positive) : nat :=
  match p with xH => 1 | xO q => popcount_pos q | xI q => S (popcount_pos q) end.
Definition weight (n : N) : nat := match n with N0 => O | Npos p => popcount_pos p end.

(* handle under construction: NOT_COMMITTED is implicit (it is not in the list) *)
Definition new_handle (name : option (list N)) (kind id : N) : idist :=
  IDist name id kind TYPE_NONE None O [] [] [] false.

(* hwloc_backend_distances_add_create *)
Definition backend_add_create (t : topo) (name : option (list N)) (kind flags : N) : topo * res idist :=
  if negb (flags =? 0) then (t, Err EINVAL)
  else (Topo (t_objs t) (t_levels t) (t_dists t) (t_next_id t + 1), Ok (new_handle name kind (t_next_id t))).

(* hwloc_distances_add_create (topology loaded, not adopted) *)
Definition add_create (t : topo) (name : option (list N)) (kind flags : N) : topo * res idist :=
  if negb (N.land kind (N.lxor (N.ones 64) HWLOC_DISTANCES_KIND_ALL) =? 0)
     || (1 <? weight (N.land kind HWLOC_DISTANCES_KIND_FROM_ALL))%nat
     || (1 <? weight (N.land kind HWLOC_DISTANCES_KIND_VALUE_ALL))%nat
  then (t, Err EINVAL)
  else backend_add_create t name kind flags.

(* unique_type = objs[0]->type; for(i=1..) if (objs[i]->type != unique_type) { NONE; break; } *)
Definition unique_type_of (objs : list oref) : N :=
  match objs with
  | Some o0 :: rest =>
    if forallb (fun r => match r with Some o => o_type o =? o_type o0 | None => false end) rest
    then o_type o0 else TYPE_NONE
  | _ => TYPE_NONE
  end.

Definition type_of_ref (r : oref) : N := match r with Some o => o_type o | None => TYPE_NONE end.
Definition os_of_ref (r : oref) : N := match r with Some o => o_os o | None => 0 end.
Definition gp_of_ref (r : oref) : N := match r with Some o => o_gp o | None => 0 end.

(* hwloc_backend_distances_add_values: the handle is consumed on error *)
Definition backend_add_values (h : idist) (nb : nat) (objs : list oref) (values : list N) (flags : N) : res idist :=
  if negb (d_nb h =? 0)%nat then Err EINVAL
  else if negb (flags =? 0) || (nb <? 2)%nat then Err EINVAL
  else
    let dis := (nb - countb (map is_some (firstn nb objs)))%nat in
    if negb (dis =? 0)%nat && (dis =? nb)%nat then Err ENOENT
    else
      let '(objs1, values1, nb1) :=
        if negb (dis =? 0)%nat then
          let '(o', _, _, v') := restrict_all objs None None values nb dis in (o', v', (nb - dis)%nat)
        else (objs, values, nb) in
      let ut := unique_type_of objs1 in
      let dt := if ut =? TYPE_NONE then Some (map type_of_ref objs1) else None in
      let kind := if is_some dt then N.lor (d_kind h) HWLOC_DISTANCES_KIND_HETEROGENEOUS_TYPES else d_kind h in
      let idx := if use_os_index ut then map os_of_ref objs1 else map gp_of_ref objs1 in
      Ok (IDist (d_name h) (d_id h) kind ut dt nb1 idx objs1 values1 true).

(* hwloc_distances_add_values: for(i=1; i<nbobjs; i++) if (!objs[i]) EINVAL *)
Definition add_values_gen (fix_null_first : bool) (h : idist) (nb : nat) (objs : list oref) (values : list N) (flags : N) : res idist :=
  let scanned := if fix_null_first then firstn nb objs else firstn (nb - 1) (tl objs) in
  if negb (forallb is_some scanned) then Err EINVAL
  else backend_add_values h nb objs values flags.
Definition add_values := add_values_gen FIX_NULL_FIRST.

(* hwloc_distances_add_commit + hwloc_backend_distances_add_commit.  Grouping
   (flag GROUP) inserts Group objects and touches no distances structure: the
   new object table is an external event ([set_objects]). *)
Definition add_commit (t : topo) (h : idist) (flags : N) : topo * res unit :=
  if negb (N.land flags (N.lxor (N.ones 64) HWLOC_DISTANCES_ADD_FLAG_ALL) =? 0) then (t, Err EINVAL)
  else if (d_nb h =? 0)%nat then (t, Err EINVAL)
  else (set_dists t (t_dists t ++ [h]), Ok tt).

(* ------------------------------------------------------------------ *)
(* refresh                                                             *)
(* ------------------------------------------------------------------ *)
Definition find_by_os (tobjs : list obj) (ty idx : N) : oref :=
  find (fun o => (o_type o =? ty) && (o_os o =? idx mod two32)) tobjs.
Definition find_by_gp (tobjs : list obj) (ty gp : N) : oref :=
  find (fun o => (o_type o =? ty) && (o_gp o =? gp)) tobjs.

Definition lookup (tobjs : list obj) (unique : N) (dt : option (list N)) (i : nat) (idx : N) : oref :=
  if use_os_index unique then find_by_os tobjs unique idx
  else find_by_gp tobjs (match dt with Some l => nth i l TYPE_NONE | None => unique end) idx.

Fixpoint lookup_all (tobjs : list obj) (unique : N) (dt : option (list N)) (i : nat) (idxs : list N) : list oref :=
  match idxs with
  | [] => []
  | x :: r => lookup tobjs unique dt i x :: lookup_all tobjs unique dt (S i) r
  end.

(* hwloc_internal_distances_refresh_one: None = "became useless, drop" *)
Definition refresh_one (tobjs : list obj) (d : idist) : option idist :=
  if d_valid d then Some d
  else
    let nb := d_nb d in
    let objs := lookup_all tobjs (d_unique d) (d_diff d) 0 (firstn nb (d_indexes d)) in
    let dis := (nb - countb (map is_some objs))%nat in
    if (nb - dis <? 2)%nat then None
    else if negb (dis =? 0)%nat then
      let '(o', idx', dt', v') := restrict_all objs (Some (d_indexes d)) (d_diff d) (d_values d) nb dis in
      Some (IDist (d_name d) (d_id d) (d_kind d) (d_unique d) dt' (nb - dis)
                  (match idx' with Some l => l | None => [] end) o' v' true)
    else Some (IDist (d_name d) (d_id d) (d_kind d) (d_unique d) (d_diff d) nb (d_indexes d) objs (d_values d) true).

(* hwloc_internal_distances_refresh *)
Fixpoint refresh_list (tobjs : list obj) (ds : list idist) : list idist :=
  match ds with
  | [] => []
  | d :: r => match refresh_one tobjs d with
              | Some d' => d' :: refresh_list tobjs r
              | None => refresh_list tobjs r
              end
  end.
Definition refresh (t : topo) : topo := set_dists t (refresh_list (t_objs t) (t_dists t)).

(* hwloc_internal_distances_invalidate_cached_objs *)
Definition invalidate_one (d : idist) : idist :=
  IDist (d_name d) (d_id d) (d_kind d) (d_unique d) (d_diff d) (d_nb d) (d_indexes d) (d_objs d) (d_values d) false.
Definition invalidate (t : topo) : topo := set_dists t (map invalidate_one (t_dists t)).

(* the topology changed under the distances (restrict: objects removed, then
   invalidate_cached_objs; grouping at commit: objects added, no invalidation) *)
Definition set_objects (t : topo) (tobjs : list obj) (levels : list N) (inval : bool) : topo :=
  let t' := Topo tobjs levels (t_dists t) (t_next_id t) in
  if inval then invalidate t' else t'.

(* ------------------------------------------------------------------ *)
(* get                                                                 *)
(* ------------------------------------------------------------------ *)
Definition to_public (d : idist) : pdist :=
  PDist (d_id d) (d_nb d) (firstn (d_nb d) (d_objs d)) (d_kind d) (firstn (d_nb d * d_nb d) (d_values d)).

(* the four "continue" tests of hwloc__distances_get *)
Definition matches (name : option (list N)) (ty kind : N) (d : idist) : bool :=
  let kind_from := N.land kind HWLOC_DISTANCES_KIND_FROM_ALL in
  let kind_means := N.land kind HWLOC_DISTANCES_KIND_VALUE_ALL in
  if match name with
     | Some n => match d_name d with Some dn => negb (list_eqb n dn) | None => true end
     | None => false
     end then false
  else if negb (ty =? TYPE_NONE) && negb (ty =? d_unique d) then false
  else if negb (kind_from =? 0) && (N.land kind_from (d_kind d) =? 0) then false
  else if negb (kind_means =? 0) && (N.land kind_means (d_kind d) =? 0) then false
  else true.

(* the loop: if (nr < *nrp) distancesp[nr] = get_one(dist); nr++ *)
Fixpoint get_loop (name : option (list N)) (ty kind : N) (nrp : nat) (ds : list idist) (nr : nat) (out : list (option pdist))
  : nat * list (option pdist) :=
  match ds with
  | [] => (nr, out)
  | d :: r =>
    if matches name ty kind d then
      get_loop name ty kind nrp r (S nr) (if (nr <? nrp)%nat then upd out nr (Some (to_public d)) else out)
    else get_loop name ty kind nrp r nr out
  end.

(* for(i=nr; i<*nrp; i++) distancesp[i] = NULL *)
Fixpoint null_from (out : list (option pdist)) (i : nat) : list (option pdist) :=
  match out with
  | [] => []
  | x :: r => match i with O => None :: null_from r O | S i' => x :: null_from r i' end
  end.

(* hwloc__distances_get; [garbage] is the caller's array (nrp slots) on entry *)
Definition get_core (t : topo) (name : option (list N)) (ty kind flags : N) (garbage : list (option pdist))
  : topo * res (nat * list (option pdist)) :=
  if negb (flags =? 0) then (t, Err EINVAL)
  else
    let t' := refresh t in
    let '(nr, out) := get_loop name ty kind (length garbage) (t_dists t') 0 garbage in
    (t', Ok (nr, null_from out nr)).

Definition special_depth_type (depth : Z) : N :=
  if (depth =? HWLOC_TYPE_DEPTH_NUMANODE)%Z then HWLOC_OBJ_NUMANODE
  else if (depth =? HWLOC_TYPE_DEPTH_BRIDGE)%Z then HWLOC_OBJ_BRIDGE
  else if (depth =? HWLOC_TYPE_DEPTH_PCI_DEVICE)%Z then HWLOC_OBJ_PCI_DEVICE
  else if (depth =? HWLOC_TYPE_DEPTH_OS_DEVICE)%Z then HWLOC_OBJ_OS_DEVICE
  else if (depth =? HWLOC_TYPE_DEPTH_MISC)%Z then HWLOC_OBJ_MISC
  else if (depth =? HWLOC_TYPE_DEPTH_MEMCACHE)%Z then HWLOC_OBJ_MEMCACHE
  else TYPE_NONE.

(* hwloc_get_depth_type *)
Definition depth_type (levels : list N) (depth : Z) : N :=
  if ((0 <=? depth) && (depth <? Z.of_nat (length levels)))%Z
  then nth (Z.to_nat depth) levels TYPE_NONE
  else special_depth_type depth.

Definition get_all (t : topo) (kind flags : N) garbage := get_core t None TYPE_NONE kind flags garbage.
Definition get_by_type (t : topo) (ty kind flags : N) garbage := get_core t None ty kind flags garbage.
Definition get_by_depth (t : topo) (depth : Z) (kind flags : N) garbage :=
  if negb (flags =? 0) then (t, Err EINVAL)
  else let ty := depth_type (t_levels t) depth in
       if ty =? TYPE_NONE then (t, Err EINVAL) else get_core t None ty kind flags garbage.
Definition get_by_name_gen (fix_kind : bool) (t : topo) (name : option (list N)) (flags : N) garbage :=
  get_core t name TYPE_NONE (if fix_kind then 0 else HWLOC_DISTANCES_KIND_ALL) flags garbage.
Definition get_by_name := get_by_name_gen FIX_BY_NAME_KIND.

(* hwloc__internal_distances_from_public / hwloc_distances_get_name *)
Definition from_public (t : topo) (id : N) : option idist := find (fun d => d_id d =? id) (t_dists t).
Definition get_name (t : topo) (p : pdist) : option (list N) :=
  match from_public t (p_id p) with Some d => d_name d | None => None end.

(* ------------------------------------------------------------------ *)
(* removals                                                            *)
(* ------------------------------------------------------------------ *)
Fixpoint remove_first_id (id : N) (ds : list idist) : list idist :=
  match ds with
  | [] => []
  | d :: r => if d_id d =? id then r else d :: remove_first_id id r
  end.

Definition release_remove (t : topo) (p : pdist) : topo * res unit :=
  match from_public t (p_id p) with
  | None => (t, Err EINVAL)
  | Some _ => (set_dists t (remove_first_id (p_id p) (t_dists t)), Ok tt)
  end.

Definition remove_all (t : topo) : topo * res unit := (set_dists t [], Ok tt).

Definition remove_by_depth (t : topo) (depth : Z) : topo * res unit :=
  let ty := depth_type (t_levels t) depth in
  if ty =? TYPE_NONE then (t, Err EINVAL)
  else (set_dists t (filter (fun d => negb (d_unique d =? ty)) (t_dists t)), Ok tt).

(* ------------------------------------------------------------------ *)
(* dup, XML export + import                                            *)
(* ------------------------------------------------------------------ *)
(* hwloc_internal_distances_dup_one: objs calloc'ed, OBJS_VALID cleared *)
Definition dup_one (d : idist) : idist :=
  IDist (d_name d) (d_id d) (d_kind d) (d_unique d) (d_diff d) (d_nb d)
        (firstn (d_nb d) (d_indexes d)) (repeat None (d_nb d)) (firstn (d_nb d * d_nb d) (d_values d)) false.
Definition dup (t : topo) : topo := Topo (t_objs t) (t_levels t) (map dup_one (t_dists t)) (t_next_id t).
(* the public hwloc_topology_dup: hwloc__topology_dup, then hwloc_topology_refresh of the
   copy, whose object table is [tobjs] (same gp / os indexes as the original's) *)
Definition topology_dup (t : topo) (tobjs : list obj) (levels : list N) : topo :=
  refresh (Topo tobjs levels (map dup_one (t_dists t)) (t_next_id t)).

(* one <distances2>/<distances2hetero> element read back: None = whole import fails (goto out),
   Some None = ignored *)
Definition xml_import_one (d : idist) : option (option idist) :=
  if (d_nb d =? 0)%nat || (negb FIX_XML_KIND_ZERO && (d_kind d =? 0)) then None
  else if (d_nb d <? 2)%nat then Some None
  else
    let nb := d_nb d in
    let hetero := is_some (d_diff d) in
    (* heterogeneous: type:gp_index of the objects; otherwise the indexes array *)
    let idx := if hetero then map gp_of_ref (firstn nb (d_objs d)) else firstn nb (d_indexes d) in
    let dt := if hetero then Some (map type_of_ref (firstn nb (d_objs d))) else None in
    let ut := if hetero then TYPE_NONE else d_unique d in
    let kind := if hetero then N.lor (d_kind d) HWLOC_DISTANCES_KIND_HETEROGENEOUS_TYPES else d_kind d in
    Some (Some (IDist (d_name d) 0 kind ut dt nb idx (repeat None nb) (firstn (nb * nb) (d_values d)) false)).

Fixpoint xml_import_list (ds : list idist) (next : N) : option (list idist * N) :=
  match ds with
  | [] => Some ([], next)
  | d :: r =>
    match xml_import_one d with
    | None => None
    | Some None => xml_import_list r next
    | Some (Some d') =>
      match xml_import_list r (next + 1) with
      | None => None
      | Some (l, n) =>
        Some (IDist (d_name d') next (d_kind d') (d_unique d') (d_diff d') (d_nb d') (d_indexes d') (d_objs d') (d_values d') false :: l, n)
      end
    end
  end.

(* export (refresh, homogeneous structures first) then import into a fresh
   topology whose object table is [tobjs]; load() ends with invalidate+refresh *)
Definition xml_roundtrip (t : topo) (tobjs : list obj) (levels : list N) : res topo :=
  let t1 := refresh t in
  let ds := filter (fun d => negb (is_some (d_diff d))) (t_dists t1) ++ filter (fun d => is_some (d_diff d)) (t_dists t1) in
  match xml_import_list ds 0 with
  | None => Err EINVAL
  | Some (l, n) => Ok (refresh (Topo tobjs levels l n))
  end.

(* ------------------------------------------------------------------ *)
(* transforms (on the caller's copy)                                   *)
(* ------------------------------------------------------------------ *)
Definition set_p (p : pdist) nb objs kind values : pdist := PDist (p_id p) nb objs kind values.

Definition transform_remove_null (p : pdist) : pdist * res unit :=
  let nbobjs := p_nb p in
  let nb := countb (map is_some (firstn nbobjs (p_objs p))) in
  if (nb <? 2)%nat then (p, Err EINVAL)
  else if (nb =? nbobjs)%nat then (p, Ok tt)
  else
    let '(o', _, _, v') := restrict_all (p_objs p) None None (p_values p) nbobjs (nbobjs - nb) in
    let ut := unique_type_of o' in
    let kind := if ut =? TYPE_NONE then N.lor (p_kind p) HWLOC_DISTANCES_KIND_HETEROGENEOUS_TYPES
                else N.land (p_kind p) (N.lxor (N.ones 64) HWLOC_DISTANCES_KIND_HETEROGENEOUS_TYPES) in
    (set_p p nb o' kind v', Ok tt).

Definition vget (v : list N) (k : nat) : N := nth k v 0.
Definition add64 (a b : N) : N := (a + b) mod two64.

(* for(i=0; i<nbobjs; i++) values[i*nbobjs+i] = 0 *)
Fixpoint zero_diag (n : nat) (nb : nat) (v : list N) : list N :=
  match n with O => v | S n' => upd (zero_diag n' nb v) (n' * nb + n') 0 end.

Definition smallest_positive (v : list N) : N :=
  fold_left (fun div x => if negb (x =? 0) && ((div =? 0) || (x <? div)) then x else div) v 0.

Definition transform_links (p : pdist) : pdist * res unit :=
  if N.land (p_kind p) HWLOC_DISTANCES_KIND_VALUE_BANDWIDTH =? 0 then (p, Err EINVAL)
  else
    let nb := p_nb p in
    let v := zero_diag nb nb (p_values p) in
    let p1 := set_p p nb (p_objs p) (p_kind p) v in
    let cells := firstn (nb * nb) v in
    let divider := smallest_positive cells in
    if divider =? 0 then (p1, Ok tt)
    else if negb (forallb (fun x => x mod divider =? 0) cells) then (p1, Err ENOENT)
    else (set_p p nb (p_objs p) (p_kind p) (map (fun x => x / divider) cells ++ skipn (nb * nb) v), Ok tt).

Definition is_nvswitch (r : oref) : bool := match r with Some o => o_nvs o | None => false end.

Fixpoint find_first_port (objs : list oref) (i : nat) : option nat :=
  match objs with
  | [] => None
  | r :: t => if is_nvswitch r then Some i else find_first_port t (S i)
  end.

(* for(k=0;k<nbobjs;k++) { if (k==i||k==j) continue; v[k][i]+=v[k][j]; v[k][j]=0; v[i][k]+=v[j][k]; v[j][k]=0; } *)
Fixpoint merge_k (ks : list nat) (nb i j : nat) (v : list N) : list N :=
  match ks with
  | [] => v
  | k :: r =>
    if (k =? i)%nat || (k =? j)%nat then merge_k r nb i j v
    else
      let v1 := upd v (k * nb + i) (add64 (vget v (k * nb + i)) (vget v (k * nb + j))) in
      let v2 := upd v1 (k * nb + j) 0 in
      let v3 := upd v2 (i * nb + k) (add64 (vget v2 (i * nb + k)) (vget v2 (j * nb + k))) in
      let v4 := upd v3 (j * nb + k) 0 in
      merge_k r nb i j v4
  end.

Definition merge_port (nb i j : nat) (v : list N) : list N :=
  let v1 := merge_k (seq 0 nb) nb i j v in
  let v2 := upd v1 (i * nb + i) (add64 (vget v1 (i * nb + i)) (vget v1 (j * nb + j))) in
  upd v2 (j * nb + j) 0.

(* for(j=i+1; j<nbobjs; j++) { if (is_nvswitch(objs[j])) {merge} objs[j] = NULL; } *)
Fixpoint merge_loop (fix_merge : bool) (js : list nat) (nb i : nat) (objs : list oref) (v : list N) : list oref * list N :=
  match js with
  | [] => (objs, v)
  | j :: r =>
    if is_nvswitch (nth j objs None) then merge_loop fix_merge r nb i (upd objs j None) (merge_port nb i j v)
    else merge_loop fix_merge r nb i (if fix_merge then objs else upd objs j None) v
  end.

Definition transform_merge_switch_ports_gen (fix_merge : bool) (p : pdist) : pdist * res unit :=
  let nb := p_nb p in
  match find_first_port (firstn nb (p_objs p)) 0 with
  | None => (p, Err ENOENT)
  | Some i =>
    let '(objs, v) := merge_loop fix_merge (seq (S i) (nb - S i)) nb i (p_objs p) (p_values p) in
    transform_remove_null (set_p p nb objs (p_kind p) v)
  end.
Definition transform_merge_switch_ports := transform_merge_switch_ports_gen FIX_MERGE_PORTS.

(* transitive closure, in place *)
Definition bw_sum_row (objs : list oref) (nb i : nat) (v : list N) : N :=
  fold_left (fun acc k => if is_nvswitch (nth k objs None) then add64 acc (vget v (i * nb + k)) else acc) (seq 0 nb) 0.
Definition bw_sum_col (objs : list oref) (nb j : nat) (v : list N) : N :=
  fold_left (fun acc k => if is_nvswitch (nth k objs None) then add64 acc (vget v (k * nb + j)) else acc) (seq 0 nb) 0.

Fixpoint closure_j (js : list nat) (objs : list oref) (nb i : nat) (bw_i2sw : N) (v : list N) : list N :=
  match js with
  | [] => v
  | j :: r =>
    if (i =? j)%nat || is_nvswitch (nth j objs None) then closure_j r objs nb i bw_i2sw v
    else
      let bw_sw2j := bw_sum_col objs nb j v in
      closure_j r objs nb i bw_i2sw
        (upd v (i * nb + j) (add64 (vget v (i * nb + j)) (if bw_sw2j <? bw_i2sw then bw_sw2j else bw_i2sw)))
  end.

Fixpoint closure_i (is : list nat) (objs : list oref) (nb : nat) (v : list N) : list N :=
  match is with
  | [] => v
  | i :: r =>
    if is_nvswitch (nth i objs None) then closure_i r objs nb v
    else closure_i r objs nb (closure_j (seq 0 nb) objs nb i (bw_sum_row objs nb i v) v)
  end.

Definition transform_transitive_closure (p : pdist) : pdist * res unit :=
  (set_p p (p_nb p) (p_objs p) (p_kind p) (closure_i (seq 0 (p_nb p)) (p_objs p) (p_nb p) (p_values p)), Ok tt).

Definition transform (p : pdist) (which : N) (attr_null : bool) (flags : N) : pdist * res unit :=
  if negb (flags =? 0) || negb attr_null then (p, Err EINVAL)
  else if which =? HWLOC_DISTANCES_TRANSFORM_REMOVE_NULL then transform_remove_null p
  else if which =? HWLOC_DISTANCES_TRANSFORM_LINKS then transform_links p
  else if which =? HWLOC_DISTANCES_TRANSFORM_MERGE_SWITCH_PORTS then transform_merge_switch_ports p
  else if which =? HWLOC_DISTANCES_TRANSFORM_TRANSITIVE_CLOSURE then transform_transitive_closure p
  else (p, Err EINVAL).

(* the caller may overwrite objs[] of its copy ("callers are allowed to modify
   ... the contents of objs and values arrays") *)
Definition user_set_obj (p : pdist) (i : nat) (r : oref) : pdist :=
  set_p p (p_nb p) (upd (p_objs p) i r) (p_kind p) (p_values p).

(* ------------------------------------------------------------------ *)
(* grouping: hwloc__check_grouping_matrix and                          *)
(* hwloc__find_groups_by_min_distance for accuracy 0.0                 *)
(* ------------------------------------------------------------------ *)
Definition check_grouping_matrix (nb : nat) (v : list N) : bool :=
  forallb (fun i => forallb (fun j =>
      (vget v (i * nb + j) =? vget v (j * nb + i)) && (vget v (i * nb + i) <? vget v (i * nb + j)))
    (seq (S i) (nb - S i))) (seq 0 nb).

Definition min_distance (nb : nat) (v : list N) : N :=
  fold_left (fun m i => fold_left (fun m j =>
      if negb (i =? j)%nat && (vget v (i * nb + j) <? m) then vget v (i * nb + j) else m) (seq 0 nb) m)
    (seq 0 nb) UINT64_MAX.

(* for(k=0;k<nbobjs;k++) if (!groupids[k] && VALUE(j,k)==min) { groupids[k]=groupid; size++; if (newfirstfound==-1) newfirstfound=k; } *)
Fixpoint scan_k (fixg : bool) (ks : list nat) (nb j : nat) (v : list N) (minv : N) (gid : nat)
         (st : list nat * nat * option nat) : list nat * nat * option nat :=
  match ks with
  | [] => st
  | k :: r =>
    let '(gids, size, nff) := st in
    if (nth k gids O =? 0)%nat && (vget v (j * nb + k) =? minv)
    then scan_k fixg r nb j v minv gid
           (upd gids k gid, S size,
            match nff with None => Some k | Some f => if fixg && (k <? f)%nat then Some k else Some f end)
    else scan_k fixg r nb j v minv gid st
  end.

(* for(j=firstfound; j<nbobjs; j++) if (groupids[j] == groupid) <scan_k> *)
Fixpoint scan_j (fixg : bool) (js : list nat) (nb : nat) (v : list N) (minv : N) (gid : nat)
         (st : list nat * nat * option nat) : list nat * nat * option nat :=
  match js with
  | [] => st
  | j :: r =>
    let '(gids, _, _) := st in
    if (nth j gids O =? gid)%nat then scan_j fixg r nb v minv gid (scan_k fixg (seq 0 nb) nb j v minv gid st)
    else scan_j fixg r nb v minv gid st
  end.

(* while (firstfound != -1); each round but the last marks a new object, so nb+1 rounds suffice *)
Fixpoint grow (fixg : bool) (fuel : nat) (nb : nat) (v : list N) (minv : N) (gid : nat) (firstfound : nat)
         (gids : list nat) (size : nat) : option (list nat * nat) :=
  match fuel with
  | O => None
  | S f =>
    let '(gids', size', nff) := scan_j fixg (seq firstfound (nb - firstfound)) nb v minv gid (gids, size, None) in
    match nff with
    | None => Some (gids', size')
    | Some k => grow fixg f nb v minv gid k gids' size'
    end
  end.

Fixpoint groups_i (fixg : bool) (is : list nat) (nb : nat) (v : list N) (minv : N)
         (st : list nat * nat * nat) : option (list nat * nat * nat) :=
  match is with
  | [] => Some st
  | i :: r =>
    let '(gids, gid, skipped) := st in
    if negb (nth i gids O =? 0)%nat then groups_i fixg r nb v minv st
    else
      match grow fixg (S nb) nb v minv gid i (upd gids i gid) 1 with
      | None => None
      | Some (gids', size) =>
        if (size =? 1)%nat then groups_i fixg r nb v minv (upd gids' i O, gid, S skipped)
        else groups_i fixg r nb v minv (gids', S gid, skipped)
      end
  end.

(* returns (number of groups, groupids) *)
Definition find_groups_gen (fixg : bool) (nb : nat) (v : list N) : option (nat * list nat) :=
  let gids0 := repeat O nb in
  let minv := min_distance nb v in
  if minv =? UINT64_MAX then Some (O, gids0)
  else
    match groups_i fixg (seq 0 nb) nb v minv (gids0, 1%nat, O) with
    | None => None
    | Some (gids, gid, skipped) =>
      if (gid =? 2)%nat && (skipped =? 0)%nat then Some (O, gids) else Some ((gid - 1)%nat, gids)
    end.
Definition find_groups_by_min_distance := find_groups_gen FIX_GROUPS_FIRSTFOUND.
