(* C16 - lemmas about the model of diff.c (Attr/Diff.v) *)
From Coq Require Import List NArith ZArith Bool String Lia.
From HV Require Import Gen.Tables Attr.Diff.
Import ListNotations.
Local Open Scope N_scope.
Local Open Scope string_scope.

(* ------------------------------------------------------------------ *)
(* small concrete topologies for witnesses and non-vacuity examples     *)

Definition no_sets : sets4 := mkS None None None None.
Definition mk_obj (d : Z) (i : N) (t : N) (name : option string) (lmem tmem : N) (infos : infos_t) : oattr :=
  mkA d i t None 0 no_sets name "" lmem tmem infos.
Definition leaf (a : oattr) : obj := Obj a [] [] [] [].
(* a machine alone *)
Definition topo1 (name : option string) (infos : infos_t) : topo :=
  mkT (leaf (mk_obj 0 0 HWLOC_OBJ_MACHINE name 0 0 infos)) 1 None None [] [] [] [].
(* machine > 2 packages, each with a NUMA node (memory child) and a PU *)
Definition pkg (i : N) (name : string) (mem : N) (infos : infos_t) : obj :=
  Obj (mk_obj 1 i HWLOC_OBJ_PACKAGE (Some name) 0 mem infos)
      [leaf (mk_obj 2 i HWLOC_OBJ_PU (Some "pu") 0 0 [])]
      [leaf (mk_obj (-3) i HWLOC_OBJ_NUMANODE (Some "node") mem mem [])] [] [].
Definition topo2 (n0 n1 : string) (m0 m1 : N) (i0 i1 : infos_t) (ti : infos_t) : topo :=
  mkT (Obj (mk_obj 0 0 HWLOC_OBJ_MACHINE (Some "machine") 0 (u64add m0 m1) [])
           [pkg 0 n0 m0 i0; pkg 1 n1 m1 i1] [] [] [])
      3 (Some "0xf") (Some "0x3") ti [] [] [].

(* ------------------------------------------------------------------ *)
(* refutation witnesses                                                 *)

(* [X:a->b; X:b->c; bad] on X=a: returns -3 and leaves X=b *)
Definition rb_T := topo1 (Some "m") [("X", "a")].
Definition rb_d := [EAttr 0 0 (DInfo "X" "a" "b"); EAttr 0 0 (DInfo "X" "b" "c"); EAttr 0 0 (DInfo "Y" "a" "b")].
Lemma rollback_witness :
  diff_apply 0 rb_d rb_T = ARet (-3) (topo1 (Some "m") [("X", "b")]) /\ keys_unique rb_T && vals_u64 rb_T && info_names_nodup rb_T = true.
Proof. vm_compute. split; reflexivity. Qed.
Lemma rollback_fixed_witness : diff_apply_fixed 0 rb_d rb_T = ARet (-3) rb_T.
Proof. vm_compute. reflexivity. Qed.

(* the same list without the failing entry cannot be reverted by APPLY_REVERSE *)
Lemma reverse_witness :
  diff_apply 0 (firstn 2 rb_d) rb_T = ARet 0 (topo1 (Some "m") [("X", "c")]) /\
  diff_apply HWLOC_TOPOLOGY_DIFF_APPLY_REVERSE (firstn 2 rb_d) (topo1 (Some "m") [("X", "c")]) = ARet (-1) (topo1 (Some "m") [("X", "c")]).
Proof. vm_compute. split; reflexivity. Qed.

(* name set on one side only *)
Lemma name_unset_witness_crash :
  diff_build 0 (topo1 (Some "m") []) (topo1 None []) = BRet 0 [EAttr 0 0 (DName (Some "m") None)] /\
  diff_apply 0 [EAttr 0 0 (DName (Some "m") None)] (topo1 (Some "m") []) = ACrash.
Proof. vm_compute. split; reflexivity. Qed.
Lemma name_unset_witness_fail :
  diff_build 0 (topo1 None []) (topo1 (Some "m") []) = BRet 0 [EAttr 0 0 (DName None (Some "m"))] /\
  diff_apply 0 [EAttr 0 0 (DName None (Some "m"))] (topo1 None []) = ARet (-1) (topo1 None []).
Proof. vm_compute. split; reflexivity. Qed.

(* two infos with one name: no (name,value) pair is duplicated on either side,
   still the second entry patches the first position *)
Definition di_A := topo1 (Some "m") [("X", "a"); ("X", "b")].
Definition di_B := topo1 (Some "m") [("X", "b"); ("X", "c")].
Lemma dup_info_witness :
  H_diff_weak di_A && H_diff_weak di_B = true /\
  exists d, diff_build 0 di_A di_B = BRet 0 d /\
            diff_apply 0 d di_A = ARet 0 (topo1 (Some "m") [("X", "c"); ("X", "b")]).
Proof. split; [vm_compute; reflexivity|]. eexists. vm_compute. split; reflexivity. Qed.

(* identical topologies with a heterogeneous distances matrix: rc = 1 *)
Definition het_T := mkT (t_root rb_T) 1 None None [] [(true, "d")] [] [].
Lemma hetero_witness : diff_build 0 het_T het_T = BRet 1 [ETooComplex 0 0].
Proof. vm_compute. reflexivity. Qed.

(* memory attribute values: the initiators of the second topology beyond the
   count of the first are never compared; fewer of them are read past the end *)
Definition ma (inits : list string) : list mattr :=
  [mkMA "Capacity" false []; mkMA "Locality" false []; mkMA "Bandwidth" true [mkMT "numa0" "0" inits]].
Definition ma_T (inits : list string) := mkT (t_root rb_T) 1 None None [] [] (ma inits) [].
Lemma memattr_witness :
  diff_build 0 (ma_T ["i0=100"]) (ma_T ["i0=100"; "i1=200"]) = BRet 0 [] /\
  diff_build 0 (ma_T ["i0=100"; "i1=200"]) (ma_T ["i0=100"]) = BOverread.
Proof. vm_compute. split; reflexivity. Qed.
