(* C16 - lemmas about the model of diff.c (Attr/Diff.v) *)
From Coq Require Import List NArith ZArith Bool String Lia.
From HV Require Import Gen.Tables Attr.Diff.
Import ListNotations.
Local Open Scope N_scope.
Local Open Scope string_scope.

(* ------------------------------------------------------------------ *)
(* small concrete topologies for witnesses and non-vacuity examples     *)

Definition no_sets : sets4 := mkS None None None None.
Definition mk_obj (d : Z) (i : N) (t : N) (name : option string) (lmem tmem : N) (infos : infos_t) : oattr :=
  mkA d i t None 0 no_sets name "" lmem tmem infos.
Definition leaf (a : oattr) : obj := Obj a [] [] [] [].
(* a machine alone *)
Definition topo1 (name : option string) (infos : infos_t) : topo :=
  mkT (leaf (mk_obj 0 0 HWLOC_OBJ_MACHINE name 0 0 infos)) 1 None None [] [] [] [].
(* machine > 2 packages, each with a NUMA node (memory child) and a PU *)
Definition pkg (i : N) (name : string) (mem : N) (infos : infos_t) : obj :=
  Obj (mk_obj 1 i HWLOC_OBJ_PACKAGE (Some name) 0 mem infos)
      [leaf (mk_obj 2 i HWLOC_OBJ_PU (Some "pu") 0 0 [])]
      [leaf (mk_obj (-3) i HWLOC_OBJ_NUMANODE (Some "node") mem mem [])] [] [].
Definition topo2 (n0 n1 : string) (m0 m1 : N) (i0 i1 : infos_t) (ti : infos_t) : topo :=
  mkT (Obj (mk_obj 0 0 HWLOC_OBJ_MACHINE (Some "machine") 0 (u64add m0 m1) [])
           [pkg 0 n0 m0 i0; pkg 1 n1 m1 i1] [] [] [])
      3 (Some "0xf") (Some "0x3") ti [] [] [].

(* ------------------------------------------------------------------ *)
(* witnesses: defects that remain, and regression witnesses for the fixed ones *)

(* [X:a->b; X:b->c; bad] on X=a: before fix 751402d the cancel loop walked the
   applied entries first to last, returned -3 and left X=b; now X=a again *)
Definition rb_T := topo1 (Some "m") [("X", "a")].
Definition rb_d := [EAttr 0 0 (DInfo "X" "a" "b"); EAttr 0 0 (DInfo "X" "b" "c"); EAttr 0 0 (DInfo "Y" "a" "b")].
Lemma rollback_regression :
  diff_apply_forward_cancel 0 rb_d rb_T = ARet (-3) (topo1 (Some "m") [("X", "b")]) /\ diff_apply 0 rb_d rb_T = ARet (-3) rb_T.
Proof. vm_compute. split; reflexivity. Qed.

(* APPLY_REVERSE still walks the list first to last: the same list without the
   failing entry applies and cannot be reverted *)
Lemma reverse_witness :
  keys_unique rb_T && vals_u64 rb_T && info_names_nodup rb_T = true /\
  diff_apply 0 (firstn 2 rb_d) rb_T = ARet 0 (topo1 (Some "m") [("X", "c")]) /\
  diff_apply HWLOC_TOPOLOGY_DIFF_APPLY_REVERSE (firstn 2 rb_d) (topo1 (Some "m") [("X", "c")]) = ARet (-1) (topo1 (Some "m") [("X", "c")]).
Proof. vm_compute. repeat split; reflexivity. Qed.

(* name set on one side only: TOO_COMPLEX since fix 566d2c2; before, rc 0 with
   a NULL value that apply could not handle *)
Lemma name_unset_regression :
  diff_build 0 (topo1 (Some "m") []) (topo1 None []) = BRet 1 [ETooComplex 0 0] /\
  diff_build 0 (topo1 None []) (topo1 (Some "m") []) = BRet 1 [ETooComplex 0 0] /\
  diff_build_gen false true 0 (topo1 (Some "m") []) (topo1 None []) = BRet 0 [EAttr 0 0 (DName (Some "m") None)] /\
  diff_apply 0 [EAttr 0 0 (DName (Some "m") None)] (topo1 (Some "m") []) = ACrash /\
  diff_apply 0 [EAttr 0 0 (DName None (Some "m"))] (topo1 None []) = ARet (-1) (topo1 None []).
Proof. vm_compute. repeat split; reflexivity. Qed.

(* two infos with one name: no (name,value) pair is duplicated on either side,
   still the second entry patches the first position *)
Definition di_A := topo1 (Some "m") [("X", "a"); ("X", "b")].
Definition di_B := topo1 (Some "m") [("X", "b"); ("X", "c")].
Lemma dup_info_witness :
  H_diff_weak di_A && H_diff_weak di_B = true /\
  exists d, diff_build 0 di_A di_B = BRet 0 d /\
            diff_apply 0 d di_A = ARet 0 (topo1 (Some "m") [("X", "c"); ("X", "b")]).
Proof. split; [vm_compute; reflexivity|]. eexists. vm_compute. split; reflexivity. Qed.

(* the same cause through the rollback: undoing [Y:b->a] patches the other "Y" *)
Definition di_R := topo1 (Some "m") [("Y", "a"); ("Y", "b")].
Lemma dup_info_rollback_witness :
  keys_unique di_R && vals_u64 di_R && info_pairs_nodup di_R = true /\
  diff_apply 0 [EAttr 0 0 (DInfo "Y" "b" "a"); EAttr 0 0 (DInfo "Z" "a" "b")] di_R =
    ARet (-2) (topo1 (Some "m") [("Y", "b"); ("Y", "a")]).
Proof. vm_compute. split; reflexivity. Qed.

(* two topologies that differ only in the attributes of a memory-side cache:
   TOO_COMPLEX since fix c1b2102 (before: 0 with an empty diff) *)
Definition mc_T (attr : string) : topo :=
  mkT (Obj (mk_obj 0 0 HWLOC_OBJ_MACHINE (Some "m") 0 0 [])
           [] [Obj (mkA (-8) 0 HWLOC_OBJ_MEMCACHE None 0 no_sets None attr 0 0 [])
                   [] [leaf (mk_obj (-3) 0 HWLOC_OBJ_NUMANODE None 5 5 [])] [] []] [] [])
      1 None None [] [] [] [].
Lemma memcache_regression :
  diff_build 0 (mc_T "size=1MB") (mc_T "size=2MB") = BRet 1 [ETooComplex (-8) 0] /\
  diff_build 0 (mc_T "size=1MB") (mc_T "size=1MB") = BRet 0 [].
Proof. vm_compute. split; reflexivity. Qed.

(* identical topologies with a heterogeneous distances matrix: rc = 1 *)
Definition het_T := mkT (t_root rb_T) 1 None None [] [(true, "d")] [] [].
Lemma hetero_witness : diff_build 0 het_T het_T = BRet 1 [ETooComplex 0 0].
Proof. vm_compute. reflexivity. Qed.

(* memory attribute values: since fix ac5e4b1 a different number of initiators
   is TOO_COMPLEX; before, extra ones on the second side were never compared
   and missing ones were read past the end *)
Definition ma (inits : list string) : list mattr :=
  [mkMA "Capacity" false []; mkMA "Locality" false []; mkMA "Bandwidth" true [mkMT "numa0" "0" inits]].
Definition ma_T (inits : list string) := mkT (t_root rb_T) 1 None None [] [] (ma inits) [].
Lemma memattr_regression :
  diff_build 0 (ma_T ["i0=100"]) (ma_T ["i0=100"; "i1=200"]) = BRet 1 [ETooComplex 0 0] /\
  diff_build 0 (ma_T ["i0=100"; "i1=200"]) (ma_T ["i0=100"]) = BRet 1 [ETooComplex 0 0] /\
  diff_build_gen true false 0 (ma_T ["i0=100"]) (ma_T ["i0=100"; "i1=200"]) = BRet 0 [] /\
  diff_build_gen true false 0 (ma_T ["i0=100"; "i1=200"]) (ma_T ["i0=100"]) = BOverread.
Proof. vm_compute. repeat split; reflexivity. Qed.

Local Close Scope string_scope.

(* ------------------------------------------------------------------ *)
(* induction on objects                                                 *)

Section ObjInd.
  Variable P : obj -> Prop.
  Hypothesis HP : forall a c m i x, Forall P c -> Forall P m -> Forall P i -> Forall P x -> P (Obj a c m i x).
  Fixpoint obj_ind' (o : obj) : P o :=
    match o with
    | Obj a c m i x =>
        let go := fix go (l : list obj) : Forall P l :=
          match l with [] => Forall_nil P | y :: r => Forall_cons y (obj_ind' y) (go r) end in
        HP a c m i x (go c) (go m) (go i) (go x)
    end.
End ObjInd.

Lemma key_eqb_eq a b : key_eqb a b = true <-> a = b.
Proof.
  destruct a as [d1 i1], b as [d2 i2]; unfold key_eqb; cbn [fst snd].
  rewrite andb_true_iff, Z.eqb_eq, N.eqb_eq. split; [intros [-> ->]; reflexivity|intros E; inversion E; auto].
Qed.
Lemma key_eqb_refl a : key_eqb a a = true.
Proof. apply key_eqb_eq. reflexivity. Qed.
Lemma key_eqb_sym a b : key_eqb a b = key_eqb b a.
Proof.
  destruct (key_eqb a b) eqn:E1, (key_eqb b a) eqn:E2; try reflexivity.
  - apply key_eqb_eq in E1. subst. rewrite key_eqb_refl in E2. discriminate.
  - apply key_eqb_eq in E2. subst. rewrite key_eqb_refl in E1. discriminate.
Qed.
Lemma mem_key_In k l : mem_key k l = true <-> In k l.
Proof.
  induction l as [|x r IH]; cbn [mem_key In]; [split; [discriminate|tauto]|].
  rewrite orb_true_iff, key_eqb_eq, IH. tauto.
Qed.
Lemma key_nodup_NoDup l : key_nodup l = true <-> NoDup l.
Proof.
  induction l as [|x r IH]; cbn [key_nodup]; [split; [constructor|reflexivity]|].
  rewrite andb_true_iff, negb_true_iff, IH. split.
  - intros [H1 H2]. constructor; [|assumption]. intros Hin. apply mem_key_In in Hin. congruence.
  - intros H. inversion H as [|? ? H1 H2]; subst. split; [|assumption].
    destruct (mem_key x r) eqn:E; [|reflexivity]. apply mem_key_In in E. contradiction.
Qed.

(* membership does not depend on the ancestor list *)
Lemma flat_attrs_anc o : forall anc1 anc2, map fst (flat anc1 o) = map fst (flat anc2 o).
Proof.
  apply (obj_ind' (fun o => forall anc1 anc2, map fst (flat anc1 o) = map fst (flat anc2 o))).
  intros a c m i x Hc Hm Hi Hx anc1 anc2. cbn [flat map fst]. f_equal.
  rewrite !map_app. 
  assert (G : forall l k1 k2, Forall (fun o => forall anc1 anc2, map fst (flat anc1 o) = map fst (flat anc2 o)) l ->
             map fst (flat_map (flat k1) l) = map fst (flat_map (flat k2) l)).
  { intros l k1 k2 HF. induction HF as [|y r Hy _ IH]; [reflexivity|]. cbn [flat_map]. rewrite !map_app, IH, (Hy k1 k2). reflexivity. }
  rewrite (G c _ (akey a :: anc2) Hc), (G m _ (akey a :: anc2) Hm), (G i _ (akey a :: anc2) Hi), (G x _ (akey a :: anc2) Hx). reflexivity.
Qed.

Definition oattrs (o : obj) : list oattr := map fst (flat [] o).

Lemma oattrs_Obj a c m i x :
  oattrs (Obj a c m i x) = a :: flat_map oattrs c ++ flat_map oattrs m ++ flat_map oattrs i ++ flat_map oattrs x.
Proof.
  unfold oattrs. cbn [flat map fst]. f_equal. rewrite !map_app.
  assert (G : forall l k, map fst (flat_map (flat k) l) = flat_map (fun o => map fst (flat [] o)) l).
  { induction l as [|y r IH]; intros k; [reflexivity|]. cbn [flat_map]. rewrite map_app, IH, (flat_attrs_anc y k []). reflexivity. }
  rewrite !G. reflexivity.
Qed.

Lemma tmap_ext_in f g : forall o, (forall a, In a (oattrs o) -> f a = g a) -> tmap f o = tmap g o.
Proof.
  apply (obj_ind' (fun o => (forall a, In a (oattrs o) -> f a = g a) -> tmap f o = tmap g o)).
  intros a c m i x Hc Hm Hi Hx H. rewrite oattrs_Obj in H. cbn [tmap].
  assert (G : forall l, Forall (fun o => (forall a, In a (oattrs o) -> f a = g a) -> tmap f o = tmap g o) l ->
              (forall a, In a (flat_map oattrs l) -> f a = g a) -> map (tmap f) l = map (tmap g) l).
  { intros l HF. induction HF as [|y r Hy _ IH]; intros Hl; [reflexivity|]. cbn [map]. f_equal.
    - apply Hy. intros b Hb. apply Hl. cbn [flat_map]. apply in_or_app. left. exact Hb.
    - apply IH. intros b Hb. apply Hl. cbn [flat_map]. apply in_or_app. right. exact Hb. }
  f_equal.
  - apply H. left. reflexivity.
  - apply G; [exact Hc|]. intros b Hb. apply H. right. apply in_or_app. left. exact Hb.
  - apply G; [exact Hm|]. intros b Hb. apply H. right. apply in_or_app. right. apply in_or_app. left. exact Hb.
  - apply G; [exact Hi|]. intros b Hb. apply H. right. do 2 (apply in_or_app; right). apply in_or_app. left. exact Hb.
  - apply G; [exact Hx|]. intros b Hb. apply H. right. do 3 (apply in_or_app; right). exact Hb.
Qed.

Lemma tmap_id_in f o : (forall a, In a (oattrs o) -> f a = a) -> tmap f o = o.
Proof.
  intros H. rewrite (tmap_ext_in f (fun a => a) o H).
  clear. revert o. apply (obj_ind' (fun o => tmap (fun a => a) o = o)).
  intros a c m i x Hc Hm Hi Hx. cbn [tmap].
  assert (G : forall l, Forall (fun o => tmap (fun a => a) o = o) l -> map (tmap (fun a => a)) l = l).
  { intros l HF. induction HF as [|y r Hy _ IH]; [reflexivity|]. cbn [map]. rewrite Hy, IH. reflexivity. }
  rewrite (G c Hc), (G m Hm), (G i Hi), (G x Hx). reflexivity.
Qed.

Lemma tmap_tmap f g : forall o, tmap f (tmap g o) = tmap (fun a => f (g a)) o.
Proof.
  apply (obj_ind' (fun o => tmap f (tmap g o) = tmap (fun a => f (g a)) o)).
  intros a c m i x Hc Hm Hi Hx. cbn [tmap].
  assert (G : forall l, Forall (fun o => tmap f (tmap g o) = tmap (fun a => f (g a)) o) l ->
              map (tmap f) (map (tmap g) l) = map (tmap (fun a => f (g a))) l).
  { intros l HF. induction HF as [|y r Hy _ IH]; [reflexivity|]. cbn [map]. rewrite Hy, IH. reflexivity. }
  rewrite (G c Hc), (G m Hm), (G i Hi), (G x Hx). reflexivity.
Qed.

(* the table of an updated tree, for key-preserving updates *)
Lemma flat_tmap f (Hk : forall a, akey (f a) = akey a) :
  forall o anc, flat anc (tmap f o) = map (fun p => (f (fst p), snd p)) (flat anc o).
Proof.
  apply (obj_ind' (fun o => forall anc, flat anc (tmap f o) = map (fun p => (f (fst p), snd p)) (flat anc o))).
  intros a c m i x Hc Hm Hi Hx anc. cbn [tmap flat map fst snd]. rewrite Hk. f_equal. rewrite !map_app.
  assert (G : forall l k, Forall (fun o => forall anc, flat anc (tmap f o) = map (fun p => (f (fst p), snd p)) (flat anc o)) l ->
              flat_map (flat k) (map (tmap f) l) = map (fun p => (f (fst p), snd p)) (flat_map (flat k) l)).
  { intros l k HF. induction HF as [|y r Hy _ IH]; [reflexivity|]. cbn [map flat_map]. rewrite map_app, Hy, IH. reflexivity. }
  rewrite (G c _ Hc), (G m _ Hm), (G i _ Hi), (G x _ Hx). reflexivity.
Qed.

Lemma oattrs_tmap f (Hk : forall a, akey (f a) = akey a) o : oattrs (tmap f o) = map f (oattrs o).
Proof. unfold oattrs. rewrite flat_tmap by exact Hk. rewrite !map_map. reflexivity. Qed.

Lemma lookup_map f (Hk : forall a, akey (f a) = akey a) k tbl :
  lookup k (map (fun p => (f (fst p), snd p)) tbl) = option_map (fun p => (f (fst p), snd p)) (lookup k tbl).
Proof.
  unfold lookup. induction tbl as [|p r IH]; [reflexivity|]. cbn [map find fst]. rewrite Hk.
  destruct (key_eqb (akey (fst p)) k); [reflexivity|exact IH].
Qed.

Lemma lookup_some k tbl a anc : lookup k tbl = Some (a, anc) -> In (a, anc) tbl /\ akey a = k.
Proof.
  unfold lookup. intros H. apply find_some in H. cbn [fst] in H. destruct H as [H1 H2]. apply key_eqb_eq in H2. auto.
Qed.

(* with unique keys an attribute record is determined by its key *)
Lemma unique_by_key (l : list oattr) a b :
  NoDup (map akey l) -> In a l -> In b l -> akey a = akey b -> a = b.
Proof.
  induction l as [|x r IH]; intros Hn Ha Hb E; [contradiction|].
  cbn [map] in Hn. inversion Hn as [|? ? Hx Hr]; subst.
  destruct Ha as [->|Ha], Hb as [->|Hb]; auto.
  - exfalso. apply Hx. rewrite E. apply in_map. exact Hb.
  - exfalso. apply Hx. rewrite <- E. apply in_map. exact Ha.
Qed.

(* ------------------------------------------------------------------ *)
(* hypotheses as propositions                                           *)

Definition Hkeys (T : topo) : Prop := NoDup (map akey (attrs T)).
Definition Hnames (T : topo) : Prop :=
  (forall a, In a (attrs T) -> str_nodup (map fst (a_infos a)) = true) /\ str_nodup (map fst (t_infos T)) = true.
Definition Hu64 (T : topo) : Prop := forall a, In a (attrs T) -> a_lmem a < U64 /\ a_tmem a < U64.

Lemma keys_unique_Hkeys T : keys_unique T = true <-> Hkeys T.
Proof. unfold keys_unique, Hkeys. apply key_nodup_NoDup. Qed.
Lemma info_names_nodup_Hnames T : info_names_nodup T = true <-> Hnames T.
Proof.
  unfold info_names_nodup, Hnames. rewrite andb_true_iff, forallb_forall. tauto.
Qed.
Lemma vals_u64_Hu64 T : vals_u64 T = true <-> Hu64 T.
Proof.
  unfold vals_u64, Hu64. rewrite forallb_forall. split; intros H a Ha; specialize (H a Ha).
  - apply andb_true_iff in H. rewrite !N.ltb_lt in H. exact H.
  - apply andb_true_iff. rewrite !N.ltb_lt. exact H.
Qed.

Lemma attrs_oattrs T : attrs T = oattrs (t_root T).
Proof. reflexivity. Qed.

(* ------------------------------------------------------------------ *)
(* info lists                                                           *)

Lemma str_in_In s l : str_in s l = true <-> In s l.
Proof.
  induction l as [|x r IH]; cbn [str_in In]; [split; [discriminate|tauto]|].
  rewrite orb_true_iff, String.eqb_eq, IH. tauto.
Qed.

Lemma patch_names nm old new l l' : patch_infos nm old new l = Some l' -> map fst l' = map fst l /\ In nm (map fst l).
Proof.
  revert l'. induction l as [|[n v] r IH]; intros l' H; cbn [patch_infos] in H; [discriminate|].
  destruct (String.eqb n nm && String.eqb v old) eqn:E.
  - injection H as <-. apply andb_true_iff in E. destruct E as [E _]. apply String.eqb_eq in E. subst. cbn. auto.
  - destruct (patch_infos nm old new r) as [r'|] eqn:Er; [|discriminate]. injection H as <-.
    destruct (IH r' eq_refl) as [H1 H2]. cbn [map fst]. rewrite H1. split; [reflexivity|right; exact H2].
Qed.

Lemma patch_inverse nm old new l l' :
  str_nodup (map fst l) = true -> patch_infos nm old new l = Some l' -> patch_infos nm new old l' = Some l.
Proof.
  revert l'. induction l as [|[n v] r IH]; intros l' Hn H; cbn [patch_infos] in H; [discriminate|].
  cbn [map fst str_nodup] in Hn. apply andb_true_iff in Hn. destruct Hn as [Hn1 Hn2]. apply negb_true_iff in Hn1.
  destruct (String.eqb n nm && String.eqb v old) eqn:E.
  - injection H as <-. apply andb_true_iff in E. destruct E as [E1 E2]. apply String.eqb_eq in E1, E2. subst.
    cbn [patch_infos]. rewrite !String.eqb_refl. reflexivity.
  - destruct (patch_infos nm old new r) as [r'|] eqn:Er; [|discriminate]. injection H as <-.
    cbn [patch_infos]. destruct (String.eqb n nm) eqn:En.
    + apply String.eqb_eq in En. subst n. apply patch_names in Er. destruct Er as [_ Hin].
      apply str_in_In in Hin. congruence.
    + cbn [andb]. rewrite (IH r' Hn2 eq_refl). reflexivity.
Qed.

Lemma patch_total_names nm old new l : map fst (patch_total nm old new l) = map fst l.
Proof.
  unfold patch_total. destruct (patch_infos nm old new l) eqn:E; [|reflexivity]. apply patch_names in E. tauto.
Qed.

(* uint64 arithmetic *)
Lemma u64_roundtrip t o n : t < U64 -> o < U64 -> n < U64 -> u64add (u64add t (u64sub n o)) (u64sub o n) = t.
Proof.
  unfold u64add, u64sub. intros Ht Ho Hn. rewrite (N.mod_small o), (N.mod_small n) by assumption.
  assert (HU : U64 <> 0) by (unfold U64; discriminate).
  set (X := n + (U64 - o)). set (Y := o + (U64 - n)).
  rewrite (N.add_mod_idemp_r t X U64) by exact HU.
  rewrite <- (N.add_mod (t + X) Y U64) by exact HU.
  replace (t + X + Y) with (t + 2 * U64) by (unfold X, Y; lia).
  rewrite (N.mod_add t 2 U64) by exact HU. apply N.mod_small. exact Ht.
Qed.
Lemma u64add_lt a b : u64add a b < U64.
Proof. unfold u64add. apply N.mod_lt. unfold U64. discriminate. Qed.

(* ------------------------------------------------------------------ *)
(* one entry                                                            *)

Ltac kp := intros; unfold size_upd, upd_key;
  repeat (match goal with |- context [if ?c then _ else _] => destruct c end); reflexivity.

Lemma upd_key_kp k g : (forall a, akey (g a) = akey a) -> forall a, akey (upd_key k g a) = akey a.
Proof. intros Hg a. unfold upd_key. destruct (key_eqb (akey a) k); [apply Hg|reflexivity]. Qed.
Lemma size_upd_kp k ch n v : forall a, akey (size_upd k ch n v a) = akey a.
Proof. kp. Qed.

Lemma run_obj_table f T (Hk : forall a, akey (f a) = akey a) :
  table (run_eff (EObj f) T) = map (fun p => (f (fst p), snd p)) (table T).
Proof. unfold table. destruct T; cbn. apply flat_tmap. exact Hk. Qed.

Lemma get_obj_run_obj f T (Hk : forall a, akey (f a) = akey a) d i :
  get_obj (run_eff (EObj f) T) d i = option_map (fun p => (f (fst p), snd p)) (get_obj T d i).
Proof.
  unfold get_obj. rewrite run_obj_table by exact Hk. rewrite lookup_map by exact Hk.
  replace (t_nbl (run_eff (EObj f) T)) with (t_nbl T) by (destruct T; reflexivity).
  destruct (depth_addressable (t_nbl T) d); reflexivity.
Qed.

Lemma get_obj_some T d i a anc : get_obj T d i = Some (a, anc) -> In a (attrs T) /\ akey a = (d, i).
Proof.
  unfold get_obj. destruct (depth_addressable (t_nbl T) d); [|discriminate]. intros H.
  apply lookup_some in H. destruct H as [H1 H2]. split; [|exact H2].
  unfold attrs. apply in_map_iff. exists (a, anc). auto.
Qed.

Lemma attrs_run_obj f T (Hk : forall a, akey (f a) = akey a) : attrs (run_eff (EObj f) T) = map f (attrs T).
Proof. unfold attrs. rewrite run_obj_table by exact Hk. rewrite !map_map. reflexivity. Qed.

Lemma run_obj_inverse f g T :
  (forall x, In x (attrs T) -> g (f x) = x) -> run_eff (EObj g) (run_eff (EObj f) T) = T.
Proof.
  intros H. destruct T as [r nbl ac an ti di ma ck]. unfold run_eff, set_root. cbn. f_equal.
  rewrite tmap_tmap. apply tmap_id_in. exact H.
Qed.

Lemma is_numa_true t : is_numa t = true -> t = HWLOC_OBJ_NUMANODE.
Proof. unfold is_numa. apply N.eqb_eq. Qed.

Lemma akey_set_name v a : akey (set_name v a) = akey a. Proof. reflexivity. Qed.
Lemma akey_set_infos v a : akey (set_infos v a) = akey a. Proof. reflexivity. Qed.
Lemma akey_set_lmem v a : akey (set_lmem v a) = akey a. Proof. reflexivity. Qed.
Lemma akey_set_tmem v a : akey (set_tmem v a) = akey a. Proof. reflexivity. Qed.

Lemma size_upd_eq k ch n v x :
  size_upd k ch n v x =
  set_tmem (if mem_key (akey x) ch then u64add (a_tmem x) v else a_tmem x)
           (set_lmem (if key_eqb (akey x) k then n else a_lmem x) x).
Proof.
  unfold size_upd, upd_key. destruct (key_eqb (akey x) k), (mem_key (akey x) ch); destruct x; reflexivity.
Qed.

Lemma get_obj_set_tinfos v T d i : get_obj (set_tinfos v T) d i = get_obj T d i.
Proof. reflexivity. Qed.
Lemma set_tinfos_twice v T : set_tinfos (t_infos T) (set_tinfos v T) = T.
Proof. destruct T; reflexivity. Qed.

Lemma step_inverse rev e T T' :
  Hkeys T -> Hnames T -> Hu64 T -> entry_u64 e = true ->
  apply_one rev e T = Ok T' -> apply_one (negb rev) e T' = Ok T.
Proof.
  intros HK HN HU He H. unfold apply_one in H.
  destruct (step rev e T) as [ef| |] eqn:Es; try discriminate. injection H as <-.
  destruct e as [d i ad|d i|t]; cbn [step] in Es; try discriminate.
  destruct (get_obj T d i) as [[a anc]|] eqn:Eg.
  - destruct (get_obj_some _ _ _ _ _ Eg) as [Hin Hkey].
    assert (Huniq : forall x, In x (attrs T) -> key_eqb (akey x) (akey a) = true -> x = a).
    { intros x Hx E. apply key_eqb_eq in E. exact (unique_by_key _ _ _ HK Hx Hin E). }
    destruct ad as [idx ov nv|ov nv|nm ov nv|t]; [| | |discriminate].
    + (* SIZE *)
      destruct (is_numa (a_type a)) eqn:Ety; cbn [negb] in Es; [|discriminate].
      destruct ((a_lmem a =? (if rev then nv else ov))%N) eqn:El; cbn [negb] in Es; [|discriminate].
      apply N.eqb_eq in El. injection Es as <-.
      cbn [entry_u64] in He. apply andb_true_iff in He. destruct He as [Ho Hn]. apply N.ltb_lt in Ho, Hn.
      unfold apply_one. cbn [step]. rewrite get_obj_run_obj by apply size_upd_kp. rewrite Eg. cbn [option_map fst snd].
      set (old := if rev then nv else ov) in *. set (new := if rev then ov else nv).
      assert (Hfa : size_upd (akey a) (akey a :: anc) new (u64sub new old) a =
                    set_tmem (u64add (a_tmem a) (u64sub new old)) (set_lmem new a)).
      { unfold size_upd, upd_key. rewrite key_eqb_refl. cbn [mem_key]. rewrite key_eqb_refl. reflexivity. }
      rewrite Hfa. cbn [a_type set_tmem set_lmem a_lmem]. rewrite Ety. cbn [negb].
      replace (if negb rev then nv else ov) with new by (destruct rev; reflexivity).
      replace (if negb rev then ov else nv) with old by (destruct rev; reflexivity).
      rewrite N.eqb_refl. cbn [negb]. f_equal.
      apply run_obj_inverse. intros x Hx.
      destruct (HU x Hx) as [Hxl Hxt].
      assert (Hold : old < U64) by (unfold old; destruct rev; assumption).
      assert (Hnew : new < U64) by (unfold new; destruct rev; assumption).
      change (akey (set_tmem ?v (set_lmem ?w a))) with (akey a).
      rewrite (size_upd_eq _ _ old), size_upd_kp. rewrite (size_upd_eq _ _ new).
      destruct (key_eqb (akey x) (akey a)) eqn:Ek.
      * assert (x = a) by (apply Huniq; assumption). subst x.
        cbn [mem_key]. rewrite key_eqb_refl. cbn [orb].
        destruct a; cbn in *. rewrite u64_roundtrip by assumption. subst. reflexivity.
      * destruct (mem_key (akey x) (akey a :: anc)) eqn:Em.
        -- destruct x; cbn in *. rewrite u64_roundtrip by assumption. reflexivity.
        -- destruct x; reflexivity.
    + (* NAME *)
      destruct (a_name a) as [cur|] eqn:En; [|discriminate].
      destruct (if rev then nv else ov) as [o|] eqn:Eo; [|discriminate].
      destruct (String.eqb cur o) eqn:Ec; cbn [negb] in Es; [|discriminate]. apply String.eqb_eq in Ec. subst cur.
      destruct (if rev then ov else nv) as [n|] eqn:Enw; [|discriminate]. injection Es as <-.
      unfold apply_one. cbn [step]. rewrite get_obj_run_obj by (apply upd_key_kp; reflexivity). rewrite Eg. cbn [option_map fst snd].
      unfold upd_key at 1. rewrite key_eqb_refl. cbn [a_name set_name].
      replace (if negb rev then nv else ov) with (Some n) by (destruct rev; cbn; congruence).
      replace (if negb rev then ov else nv) with (Some o) by (destruct rev; cbn; congruence).
      rewrite String.eqb_refl. cbn [negb]. f_equal.
      apply run_obj_inverse. intros x Hx. unfold upd_key.
      rewrite ?key_eqb_refl, ?akey_set_name.
      destruct (key_eqb (akey x) (akey a)) eqn:Ek.
      * assert (x = a) by (apply Huniq; assumption). subst x.
        rewrite ?akey_set_name, ?key_eqb_refl.
        destruct a; cbn in *. subst. reflexivity.
      * rewrite ?Ek. reflexivity.
    + (* INFO on an object *)
      destruct (patch_infos nm (if rev then nv else ov) (if rev then ov else nv) (a_infos a)) as [l|] eqn:Ep; [|discriminate].
      injection Es as <-.
      unfold apply_one. cbn [step]. rewrite get_obj_run_obj by (apply upd_key_kp; reflexivity). rewrite Eg. cbn [option_map fst snd].
      unfold upd_key at 1. rewrite key_eqb_refl. cbn [a_infos set_infos].
      replace (if negb rev then nv else ov) with (if rev then ov else nv) by (destruct rev; reflexivity).
      replace (if negb rev then ov else nv) with (if rev then nv else ov) by (destruct rev; reflexivity).
      unfold patch_total at 1. rewrite Ep.
      rewrite (patch_inverse _ _ _ _ _ (proj1 HN a Hin) Ep). f_equal.
      apply run_obj_inverse. intros x Hx. unfold upd_key.
      rewrite ?key_eqb_refl, ?akey_set_infos.
      destruct (key_eqb (akey x) (akey a)) eqn:Ek.
      * assert (x = a) by (apply Huniq; assumption). subst x.
        rewrite ?akey_set_infos, ?key_eqb_refl. cbn [a_infos set_infos].
        unfold patch_total. rewrite Ep. rewrite (patch_inverse _ _ _ _ _ (proj1 HN a Hin) Ep).
        destruct a; reflexivity.
      * rewrite ?Ek. reflexivity.
  - (* no object: topology infos *)
    destruct (d =? t_nbl T)%Z eqn:Ed; [|discriminate].
    destruct ad as [idx ov nv|ov nv|nm ov nv|t]; try discriminate.
    destruct (patch_infos nm (if rev then nv else ov) (if rev then ov else nv) (t_infos T)) as [l|] eqn:Ep; [|discriminate].
    injection Es as <-.
    unfold apply_one. cbn [step run_eff]. rewrite get_obj_set_tinfos, Eg.
    change (t_nbl (set_tinfos ?v T)) with (t_nbl T). rewrite Ed.
    replace (if negb rev then nv else ov) with (if rev then ov else nv) by (destruct rev; reflexivity).
    replace (if negb rev then ov else nv) with (if rev then nv else ov) by (destruct rev; reflexivity).
    change (t_infos (set_tinfos ?v T)) with v.
    unfold patch_total at 1. rewrite Ep.
    rewrite (patch_inverse _ _ _ _ _ (proj2 HN) Ep). f_equal. cbn [run_eff].
    change (t_infos (set_tinfos ?v T)) with v.
    unfold patch_total. rewrite Ep. rewrite (patch_inverse _ _ _ _ _ (proj2 HN) Ep).
    apply set_tinfos_twice.
Qed.

(* ------------------------------------------------------------------ *)
(* the hypotheses are invariants of successful entries                  *)

Definition good_upd (f : oattr -> oattr) : Prop :=
  (forall a, akey (f a) = akey a) /\
  (forall a, map fst (a_infos (f a)) = map fst (a_infos a)) /\
  (forall a, a_lmem a < U64 /\ a_tmem a < U64 -> a_lmem (f a) < U64 /\ a_tmem (f a) < U64).

Lemma good_upd_inv f T : good_upd f -> Hkeys T -> Hnames T -> Hu64 T ->
  Hkeys (run_eff (EObj f) T) /\ Hnames (run_eff (EObj f) T) /\ Hu64 (run_eff (EObj f) T).
Proof.
  intros (G1 & G2 & G3) HK HN HU. unfold Hkeys, Hnames, Hu64. rewrite attrs_run_obj by exact G1.
  repeat split.
  - rewrite map_map. rewrite (map_ext _ akey G1). exact HK.
  - intros a Ha. apply in_map_iff in Ha. destruct Ha as [b [<- Hb]]. rewrite G2. apply (proj1 HN). exact Hb.
  - replace (t_infos (run_eff (EObj f) T)) with (t_infos T) by (destruct T; reflexivity). exact (proj2 HN).
  - apply in_map_iff in H. destruct H as [b [<- Hb]]. apply G3. apply HU. exact Hb.
  - apply in_map_iff in H. destruct H as [b [<- Hb]]. apply G3. apply HU. exact Hb.
Qed.

Lemma good_upd_key k g : good_upd g -> good_upd (upd_key k g).
Proof.
  intros (G1 & G2 & G3). unfold upd_key. split; [|split].
  - intros a. destruct (key_eqb (akey a) k); auto.
  - intros a. destruct (key_eqb (akey a) k); auto.
  - intros a Ha. destruct (key_eqb (akey a) k); auto.
Qed.

Lemma step_preserves rev e T T' :
  Hkeys T -> Hnames T -> Hu64 T -> entry_u64 e = true ->
  apply_one rev e T = Ok T' -> Hkeys T' /\ Hnames T' /\ Hu64 T'.
Proof.
  intros HK HN HU He H. unfold apply_one in H.
  destruct (step rev e T) as [ef| |] eqn:Es; try discriminate. injection H as <-.
  destruct e as [d i ad|d i|t]; cbn [step] in Es; try discriminate.
  destruct (get_obj T d i) as [[a anc]|] eqn:Eg.
  - destruct ad as [idx ov nv|ov nv|nm ov nv|t]; [| | |discriminate].
    + destruct (is_numa (a_type a)); cbn [negb] in Es; [|discriminate].
      destruct ((a_lmem a =? (if rev then nv else ov))%N); cbn [negb] in Es; [|discriminate]. injection Es as <-.
      cbn [entry_u64] in He. apply andb_true_iff in He. destruct He as [Ho Hn]. apply N.ltb_lt in Ho, Hn.
      apply good_upd_inv; try assumption. split; [|split]; intros x.
      * apply size_upd_kp.
      * rewrite size_upd_eq. reflexivity.
      * intros [Hl Ht]. rewrite size_upd_eq. cbn [a_lmem a_tmem set_tmem set_lmem]. split.
        -- destruct (key_eqb (akey x) (akey a)); [destruct rev; assumption|exact Hl].
        -- destruct (mem_key (akey x) (akey a :: anc)); [apply u64add_lt|exact Ht].
    + destruct (a_name a) as [cur|]; [|discriminate].
      destruct (if rev then nv else ov) as [o|]; [|discriminate].
      destruct (String.eqb cur o); cbn [negb] in Es; [|discriminate].
      destruct (if rev then ov else nv) as [n|]; [|discriminate]. injection Es as <-.
      apply good_upd_inv; try assumption. apply good_upd_key. split; [|split]; intros x; auto.
    + destruct (patch_infos nm (if rev then nv else ov) (if rev then ov else nv) (a_infos a)); [|discriminate].
      injection Es as <-.
      apply good_upd_inv; try assumption. apply good_upd_key. split; [|split]; intros x; auto.
      cbn [a_infos set_infos]. apply patch_total_names.
  - destruct (d =? t_nbl T)%Z; [|discriminate].
    destruct ad as [idx ov nv|ov nv|nm ov nv|t]; try discriminate.
    destruct (patch_infos nm (if rev then nv else ov) (if rev then ov else nv) (t_infos T)); [|discriminate].
    injection Es as <-. cbn [run_eff]. unfold Hkeys, Hnames, Hu64.
    change (attrs (set_tinfos ?v T)) with (attrs T). change (t_infos (set_tinfos ?v T)) with v.
    repeat split; try assumption; try apply HN; try (apply HU; assumption).
    rewrite patch_total_names. apply HN.
Qed.

(* ------------------------------------------------------------------ *)
(* lists of entries                                                     *)

(* every entry of the list applies *)
Fixpoint apply_seq (rev : bool) (p : list entry) (T : topo) : option topo :=
  match p with
  | [] => Some T
  | e :: r => match apply_one rev e T with Ok T' => apply_seq rev r T' | _ => None end
  end.

Lemma apply_loop_fail rev d : forall k T n T1,
  apply_loop rev d k T = LFail n T1 ->
  exists p e r, d = p ++ e :: r /\ n = (k + List.length p + 1)%nat /\ apply_seq rev p T = Some T1 /\ apply_one rev e T1 = Fail.
Proof.
  induction d as [|e r IH]; intros k T n T1 H; cbn [apply_loop] in H; [discriminate|].
  destruct (apply_one rev e T) as [T'| |] eqn:E1; try discriminate.
  - destruct (IH _ _ _ _ H) as (p & e' & r' & -> & -> & Hs & Hf).
    exists (e :: p), e', r'. cbn [app List.length apply_seq]. rewrite E1. repeat split; auto. lia.
  - injection H as <- <-. exists [], e, r. cbn. repeat split; auto. lia.
Qed.

Lemma apply_loop_done rev d : forall k T T1, apply_loop rev d k T = LDone T1 -> apply_seq rev d T = Some T1.
Proof.
  induction d as [|e r IH]; intros k T T1 H; cbn [apply_loop apply_seq] in *; [congruence|].
  destruct (apply_one rev e T) as [T'| |]; try discriminate. eapply IH. exact H.
Qed.

Lemma apply_seq_loop rev d : forall k T T1, apply_seq rev d T = Some T1 -> apply_loop rev d k T = LDone T1.
Proof.
  induction d as [|e r IH]; intros k T T1 H; cbn [apply_loop apply_seq] in *; [congruence|].
  destruct (apply_one rev e T) as [T'| |]; try discriminate. apply IH. exact H.
Qed.

Lemma cancel_loop_app rev l1 : forall l2 m T,
  cancel_loop rev (l1 ++ l2) (List.length l1 + m) T =
  match cancel_loop rev l1 (List.length l1) T with Some T' => cancel_loop rev l2 m T' | None => None end.
Proof.
  induction l1 as [|e r IH]; intros l2 m T; cbn [app List.length Nat.add cancel_loop].
  - destruct m, l2; reflexivity.
  - destruct (apply_one (negb rev) e T); auto.
Qed.

Lemma apply_seq_preserves rev p : forall T T1,
  Hkeys T -> Hnames T -> Hu64 T -> forallb entry_u64 p = true ->
  apply_seq rev p T = Some T1 -> Hkeys T1 /\ Hnames T1 /\ Hu64 T1.
Proof.
  induction p as [|e r IH]; intros T T1 HK HN HU Hp H; cbn [apply_seq] in H.
  - injection H as <-. auto.
  - cbn [forallb] in Hp. apply andb_true_iff in Hp. destruct Hp as [He Hr].
    destruct (apply_one rev e T) as [T'| |] eqn:E1; try discriminate.
    destruct (step_preserves _ _ _ _ HK HN HU He E1) as (HK' & HN' & HU'). eapply IH; eauto.
Qed.

(* undoing the applied entries last to first restores the topology *)
Lemma undo_reverse_order rev p : forall T T1,
  Hkeys T -> Hnames T -> Hu64 T -> forallb entry_u64 p = true ->
  apply_seq rev p T = Some T1 -> cancel_loop rev (List.rev p) (List.length p) T1 = Some T.
Proof.
  induction p as [|e r IH]; intros T T1 HK HN HU Hp H; cbn [apply_seq] in H.
  - injection H as <-. reflexivity.
  - cbn [forallb] in Hp. apply andb_true_iff in Hp. destruct Hp as [He Hr].
    destruct (apply_one rev e T) as [T'| |] eqn:E1; try discriminate.
    destruct (step_preserves _ _ _ _ HK HN HU He E1) as (HK' & HN' & HU').
    cbn [List.rev List.length]. replace (S (List.length r)) with (List.length (List.rev r) + 1)%nat by (rewrite rev_length; lia).
    rewrite cancel_loop_app. rewrite rev_length. rewrite (IH _ _ HK' HN' HU' Hr H).
    cbn [cancel_loop]. rewrite (step_inverse _ _ _ _ HK HN HU He E1). reflexivity.
Qed.

Lemma firstn_app_exact {A} (p : list A) r : firstn (List.length p) (p ++ r) = p.
Proof. induction p as [|x p IH]; cbn; [destruct r; reflexivity|rewrite IH; reflexivity]. Qed.

Lemma rollback flags d T rc T' :
  Hkeys T -> Hnames T -> Hu64 T -> forallb entry_u64 d = true ->
  diff_apply flags d T = ARet rc T' -> (rc < 0)%Z -> T' = T.
Proof.
  intros HK HN HU Hd H Hrc. unfold diff_apply in H.
  destruct (negb (N.ldiff flags HWLOC_TOPOLOGY_DIFF_APPLY_REVERSE =? 0)%N); [injection H as _ <-; reflexivity|].
  set (rev := negb (N.land flags HWLOC_TOPOLOGY_DIFF_APPLY_REVERSE =? 0)%N) in *.
  destruct (apply_loop rev d 0 T) as [T1|n T1|] eqn:El; try discriminate.
  - injection H as <- _. lia.
  - destruct (apply_loop_fail _ _ _ _ _ _ El) as (p & e & r & -> & -> & Hs & Hf).
    unfold cancel_loop_fixed in H. replace (pred (0 + List.length p + 1)) with (List.length p) in H by lia.
    rewrite firstn_app_exact in H.
    rewrite forallb_app in Hd. apply andb_true_iff in Hd. destruct Hd as [Hp _].
    rewrite (undo_reverse_order _ _ _ _ HK HN HU Hp Hs) in H. injection H as _ <-. reflexivity.
Qed.

(* ------------------------------------------------------------------ *)
(* hwloc_diff_trees: when it is silent, when it says TOO_COMPLEX        *)

Lemma ostr_eqb_eq a b : ostr_eqb a b = true <-> a = b.
Proof.
  destruct a as [x|], b as [y|]; cbn; try (split; [discriminate|intros E; discriminate E]); try tauto.
  rewrite String.eqb_eq. split; [intros ->; reflexivity|intros E; injection E; auto].
Qed.
Lemma sets_eqb_eq a b : sets_eqb a b = true <-> a = b.
Proof.
  destruct a, b; unfold sets_eqb; cbn. rewrite !andb_true_iff, !ostr_eqb_eq.
  split; [intros [[[-> ->] ->] ->]; reflexivity|intros E; injection E; auto].
Qed.

Definition fixed_part (a : oattr) := (a_depth a, a_type a, a_subtype a, a_os_index a, a_sets a).
Lemma pre_differs_false a1 a2 : pre_differs a1 a2 = false <-> fixed_part a1 = fixed_part a2.
Proof.
  unfold pre_differs, fixed_part. rewrite !orb_false_iff, !negb_false_iff, Z.eqb_eq, !N.eqb_eq, ostr_eqb_eq, sets_eqb_eq.
  split; [intros [[[[-> ->] ->] ->] ->]; reflexivity|intros E; injection E; auto].
Qed.

Lemma has_tc_app l1 l2 : has_tc (l1 ++ l2) = has_tc l1 || has_tc l2.
Proof. unfold has_tc. apply existsb_app. Qed.

Lemma name_diff_notc a1 a2 : has_tc (name_diff a1 a2) = false.
Proof. unfold name_diff. destruct (ostr_eqb _ _); reflexivity. Qed.
Lemma name_diff_nil a1 a2 : name_diff a1 a2 = [] <-> a_name a1 = a_name a2.
Proof.
  unfold name_diff. destruct (ostr_eqb (a_name a1) (a_name a2)) eqn:E.
  - apply ostr_eqb_eq in E. tauto.
  - split; [discriminate|]. intros E'. apply ostr_eqb_eq in E'. congruence.
Qed.

Lemma type_attr_notc a1 a2 : has_tc (fst (type_attr_diff a1 a2)) = false.
Proof.
  unfold type_attr_diff. destruct (is_numa _); [destruct (_ =? _)%N; reflexivity|]. destruct (is_memcmp_type _); reflexivity.
Qed.

Lemma infos_walk_notc d i l1 : forall l2, has_tc (fst (infos_walk d i l1 l2)) = false.
Proof.
  induction l1 as [|[n1 v1] r1 IH]; intros [|[n2 v2] r2]; cbn [infos_walk]; try reflexivity.
  destruct (negb (String.eqb n1 n2)); [reflexivity|]. specialize (IH r2).
  destruct (infos_walk d i r1 r2) as [e tc]. cbn [fst] in *. rewrite has_tc_app, IH.
  destruct (String.eqb v1 v2); reflexivity.
Qed.
Lemma infos_diff_notc d i l1 l2 : has_tc (fst (infos_diff d i l1 l2)) = false.
Proof. unfold infos_diff. destruct (negb _); [reflexivity|apply infos_walk_notc]. Qed.

(* stage "infos": too complex iff the name lists differ; silent iff the lists are equal *)
Lemma infos_diff_tc d i l1 l2 : snd (infos_diff d i l1 l2) = false <-> map fst l1 = map fst l2.
Proof.
  unfold infos_diff. destruct (Nat.eqb (List.length l1) (List.length l2)) eqn:El; cbn [negb].
  - apply Nat.eqb_eq in El. revert l2 El. induction l1 as [|[n1 v1] r1 IH]; intros [|[n2 v2] r2] El; cbn in El; try discriminate.
    + cbn. tauto.
    + cbn [infos_walk map fst]. destruct (String.eqb n1 n2) eqn:En; cbn [negb].
      * apply String.eqb_eq in En. subst. specialize (IH r2 (eq_add_S _ _ El)).
        destruct (infos_walk d i r1 r2) as [e tc]. cbn [snd] in *. rewrite IH.
        split; [intros ->; reflexivity|intros E; injection E; auto].
      * cbn [snd]. split; [discriminate|]. intros E. injection E as E _. subst. rewrite String.eqb_refl in En. discriminate.
  - cbn [snd]. split; [discriminate|]. intros E. apply (f_equal (@List.length _)) in E. rewrite !map_length in E.
    apply Nat.eqb_neq in El. contradiction.
Qed.
Lemma infos_diff_nil d i l1 l2 : infos_diff d i l1 l2 = ([], false) <-> l1 = l2.
Proof.
  unfold infos_diff. destruct (Nat.eqb (List.length l1) (List.length l2)) eqn:El; cbn [negb].
  - apply Nat.eqb_eq in El. revert l2 El. induction l1 as [|[n1 v1] r1 IH]; intros [|[n2 v2] r2] El; cbn in El; try discriminate.
    + cbn. tauto.
    + cbn [infos_walk]. destruct (String.eqb n1 n2) eqn:En; cbn [negb].
      * apply String.eqb_eq in En. subst. specialize (IH r2 (eq_add_S _ _ El)).
        destruct (infos_walk d i r1 r2) as [e tc]. destruct (String.eqb v1 v2) eqn:Ev.
        -- apply String.eqb_eq in Ev. subst. cbn [app]. rewrite IH. split; [intros ->; reflexivity|intros E; injection E; auto].
        -- cbn [app]. split; [discriminate|]. intros E. injection E as E _. subst. rewrite String.eqb_refl in Ev. discriminate.
      * split; [discriminate|]. intros E. injection E as E _ _. subst. rewrite String.eqb_refl in En. discriminate.
  - split; [discriminate|]. intros ->. rewrite Nat.eqb_refl in El. discriminate.
Qed.

(* stage "children" *)
Lemma walk_spec {A} (f : A -> A -> list entry) l1 : forall l2,
  (snd (walk f l1 l2) = false <-> List.length l1 = List.length l2) /\
  (snd (walk f l1 l2) = false -> fst (walk f l1 l2) = List.concat (map (fun p => f (fst p) (snd p)) (combine l1 l2))).
Proof.
  induction l1 as [|x r1 IH]; intros [|y r2]; cbn [walk snd fst List.length combine map List.concat].
  - split; [tauto|reflexivity].
  - split; [split; discriminate|discriminate].
  - split; [split; discriminate|discriminate].
  - destruct (IH r2) as [H1 H2]. destruct (walk f r1 r2) as [e tc]. cbn [fst snd] in *. split.
    + rewrite H1. split; [intros ->; reflexivity|intros E; injection E; auto].
    + intros Htc. rewrite (H2 Htc). reflexivity.
Qed.

Lemma seq_stage_snd p k : snd (seq_stage p k) = false <-> snd p = false /\ snd k = false.
Proof. unfold seq_stage. destruct p as [e [|]]; cbn; [split; [discriminate|intros [H _]; discriminate H]|tauto]. Qed.
Lemma seq_stage_fst p k : snd p = false -> fst (seq_stage p k) = fst p ++ fst k.
Proof. unfold seq_stage. destruct p as [e [|]]; cbn; [discriminate|reflexivity]. Qed.

Lemma has_tc_concat (l : list (list entry)) : has_tc (List.concat l) = false <-> Forall (fun d => has_tc d = false) l.
Proof.
  induction l as [|d r IH]; cbn [List.concat]; [split; [constructor|reflexivity]|].
  rewrite has_tc_app, orb_false_iff, IH. split; [intros [H1 H2]; constructor; assumption|intros H; inversion H; auto].
Qed.
Lemma concat_nil_iff {A} (l : list (list A)) : List.concat l = [] <-> Forall (fun d => d = []) l.
Proof.
  induction l as [|d r IH]; cbn [List.concat]; [split; [constructor|reflexivity]|].
  split.
  - intros H. apply app_eq_nil in H. destruct H as [-> H]. constructor; [reflexivity|apply IH; exact H].
  - intros H. inversion H; subst. cbn. apply IH. assumption.
Qed.

(* the list of children, pairwise *)
Lemma kids_iff (f : oattr -> oattr) (R : obj -> obj -> Prop) l1 :
  Forall (fun o1 => forall o2, R o1 o2 <-> tmap f o1 = tmap f o2) l1 ->
  forall l2, (List.length l1 = List.length l2 /\ Forall (fun p => R (fst p) (snd p)) (combine l1 l2)) <->
             map (tmap f) l1 = map (tmap f) l2.
Proof.
  intros HF. induction HF as [|x r1 Hx _ IH]; intros [|y r2]; cbn [List.length combine map].
  - split; [reflexivity|split; [reflexivity|constructor]].
  - split; [intros [E _]; discriminate E|discriminate].
  - split; [intros [E _]; discriminate E|discriminate].
  - split.
    + intros [El Hall]. inversion Hall as [|? ? Hh Ht]; subst. cbn [fst snd] in Hh. f_equal; [apply Hx; exact Hh|].
      apply IH. split; [auto|exact Ht].
    + intros E. injection E as E1 E2. apply IH in E2. destruct E2 as [El Hall]. split; [auto|].
      constructor; [apply Hx; exact E1|exact Hall].
Qed.

Definition stages (a1 a2 : oattr) (c1 c2 m1 m2 i1 i2 x1 x2 : list obj) : stage :=
  seq_stage (name_stage true a1 a2)
 (seq_stage (type_attr_diff a1 a2)
 (seq_stage (infos_diff (a_depth a1) (a_lidx a1) (a_infos a1) (a_infos a2))
 (seq_stage (walk diff_trees c1 c2)
 (seq_stage (walk diff_trees m1 m2)
 (seq_stage (walk diff_trees i1 i2)
            (walk diff_trees x1 x2)))))).

Lemma diff_trees_unfold a1 c1 m1 i1 x1 a2 c2 m2 i2 x2 :
  diff_trees (Obj a1 c1 m1 i1 x1) (Obj a2 c2 m2 i2 x2) =
  if pre_differs a1 a2 then [ETooComplex (a_depth a1) (a_lidx a1)]
  else let r := stages a1 a2 c1 c2 m1 m2 i1 i2 x1 x2 in
       if snd r then fst r ++ [ETooComplex (a_depth a1) (a_lidx a1)] else fst r.
Proof. reflexivity. Qed.

Definition name_set (a : oattr) : option string := option_map (fun _ => EmptyString) (a_name a).
Lemma name_stage_snd a1 a2 : snd (name_stage true a1 a2) = false <-> name_set a1 = name_set a2.
Proof.
  unfold name_stage, name_set. cbn [andb].
  destruct (ostr_eqb (option_map (fun _ => EmptyString) (a_name a1)) (option_map (fun _ => EmptyString) (a_name a2))) eqn:E; cbn [negb snd].
  - apply ostr_eqb_eq in E. tauto.
  - split; [discriminate|]. intros E'. apply ostr_eqb_eq in E'. congruence.
Qed.
Lemma name_stage_notc fx a1 a2 : has_tc (fst (name_stage fx a1 a2)) = false.
Proof. unfold name_stage. destruct (_ && _); [reflexivity|apply name_diff_notc]. Qed.
Lemma name_stage_nil a1 a2 : name_stage true a1 a2 = ([], false) <-> a_name a1 = a_name a2.
Proof.
  split.
  - intros E. assert (Hs : snd (name_stage true a1 a2) = false) by (rewrite E; reflexivity).
    unfold name_stage in *. cbn [andb] in *. destruct (negb _); [discriminate|]. injection E as E. apply name_diff_nil. exact E.
  - intros E. unfold name_stage. cbn [andb]. rewrite E. 
    assert (X : ostr_eqb (option_map (fun _ => EmptyString) (a_name a2)) (option_map (fun _ => EmptyString) (a_name a2)) = true) by (apply ostr_eqb_eq; reflexivity).
    rewrite X. cbn [negb]. f_equal. apply name_diff_nil. exact E.
Qed.

Lemma skel_attr_eq a1 a2 :
  skel_attr a1 = skel_attr a2 <->
  fixed_part a1 = fixed_part a2 /\ snd (name_stage true a1 a2) = false /\
  snd (type_attr_diff a1 a2) = false /\ map fst (a_infos a1) = map fst (a_infos a2).
Proof.
  rewrite name_stage_snd. unfold skel_attr, skel_attr_gen, fixed_part, type_attr_diff, name_set. split.
  - intros E. injection E as E1 E2 E3 E4 E5 E6 E7 E8. rewrite E1, E2, E3, E4, E5. split; [reflexivity|]. split; [exact E6|]. split.
    + destruct (is_numa (a_type a2)); [reflexivity|]. rewrite E2 in E7.
      destruct (is_memcmp_type (a_type a2)); [|reflexivity]. cbn [snd]. rewrite E7, String.eqb_refl. reflexivity.
    + apply (f_equal (map fst)) in E8. rewrite !map_map in E8. exact E8.
  - intros (E & En & Ht & Hi). injection E as E1 E2 E3 E4 E5. rewrite E1, E2, E3, E4, E5, En. f_equal.
    + rewrite E2 in Ht. destruct (is_numa (a_type a2)) eqn:Enu.
      * assert (is_memcmp_type (a_type a2) = false) as ->; [|reflexivity].
        apply is_numa_true in Enu. rewrite Enu. reflexivity.
      * destruct (is_memcmp_type (a_type a2)); [|reflexivity]. cbn [snd] in Ht. apply negb_false_iff, String.eqb_eq in Ht. exact Ht.
    + rewrite <- !(map_map fst (fun n => (n, EmptyString))). rewrite Hi. reflexivity.
Qed.

Lemma Obj_eq_inv a c m i x a' c' m' i' x' :
  Obj a c m i x = Obj a' c' m' i' x' -> a = a' /\ c = c' /\ m = m' /\ i = i' /\ x = x'.
Proof. intros E. injection E. auto. Qed.

Theorem diff_trees_tc_iff : forall o1 o2, has_tc (diff_trees o1 o2) = false <-> skel o1 = skel o2.
Proof.
  apply (obj_ind' (fun o1 => forall o2, has_tc (diff_trees o1 o2) = false <-> skel o1 = skel o2)).
  intros a1 c1 m1 i1 x1 Hc Hm Hi Hx [a2 c2 m2 i2 x2]. rewrite diff_trees_unfold. unfold skel. cbn [tmap].
  assert (K : forall l1 l2, Forall (fun o1 => forall o2, has_tc (diff_trees o1 o2) = false <-> skel o1 = skel o2) l1 ->
     ((snd (walk diff_trees l1 l2) = false /\ has_tc (fst (walk diff_trees l1 l2)) = false) <->
      map (tmap skel_attr) l1 = map (tmap skel_attr) l2)).
  { intros l1 l2 HF. rewrite <- (kids_iff skel_attr (fun a b => has_tc (diff_trees a b) = false) l1 HF l2).
    destruct (walk_spec diff_trees l1 l2) as [W1 W2]. rewrite <- W1. split.
    - intros [Hs Ht]. split; [exact Hs|]. rewrite (W2 Hs) in Ht. apply has_tc_concat in Ht.
      apply Forall_map in Ht. exact Ht.
    - intros [Hs Ht]. split; [exact Hs|]. rewrite (W2 Hs). apply has_tc_concat. apply Forall_map. exact Ht. }
  destruct (pre_differs a1 a2) eqn:Epre.
  - cbn. split; [discriminate|]. intros E. apply Obj_eq_inv in E. destruct E as [E _]. apply skel_attr_eq in E. destruct E as [E _].
    apply pre_differs_false in E. congruence.
  - apply pre_differs_false in Epre. cbv zeta.
    set (r := stages a1 a2 c1 c2 m1 m2 i1 i2 x1 x2).
    assert (R : (snd r = false /\ has_tc (fst r) = false) <->
                (snd (name_stage true a1 a2) = false /\ snd (type_attr_diff a1 a2) = false /\ map fst (a_infos a1) = map fst (a_infos a2)) /\
                map (tmap skel_attr) c1 = map (tmap skel_attr) c2 /\ map (tmap skel_attr) m1 = map (tmap skel_attr) m2 /\
                map (tmap skel_attr) i1 = map (tmap skel_attr) i2 /\ map (tmap skel_attr) x1 = map (tmap skel_attr) x2).
    { rewrite <- (K c1 c2 Hc), <- (K m1 m2 Hm), <- (K i1 i2 Hi), <- (K x1 x2 Hx).
      rewrite <- (infos_diff_tc (a_depth a1) (a_lidx a1)).
      unfold r, stages.
      split.
      - intros [Hs Ht]. repeat (apply seq_stage_snd in Hs; let H := fresh "S" in destruct Hs as [H Hs]).
        repeat (rewrite seq_stage_fst in Ht by assumption; rewrite has_tc_app in Ht; apply orb_false_iff in Ht;
                let H := fresh "T" in destruct Ht as [H Ht]).
        tauto.
      - intros ((A0 & A1 & A2) & (B1 & B2) & (C1 & C2) & (D1 & D2) & (E1 & E2)). split.
        + repeat (apply seq_stage_snd; split; try assumption).
        + repeat (rewrite seq_stage_fst by assumption; rewrite has_tc_app; apply orb_false_iff; split;
                  [first [assumption|apply name_stage_notc|apply type_attr_notc|apply infos_diff_notc]|]).
          assumption. }
    destruct (snd r) eqn:Es.
    + rewrite has_tc_app. cbn [has_tc existsb is_tc]. rewrite orb_true_r. split; [discriminate|].
      intros E. apply Obj_eq_inv in E. destruct E as (E0 & E1 & E2 & E3 & E4). apply skel_attr_eq in E0. destruct E0 as (_ & F0 & F1 & F2).
      assert (X : true = false /\ has_tc (fst r) = false) by (apply R; tauto). destruct X as [X _]. discriminate X.
    + split.
      * intros Ht. assert (X : false = false /\ has_tc (fst r) = false) by tauto. apply R in X.
        destruct X as ((F0 & F1 & F2) & G1 & G2 & G3 & G4). f_equal; try assumption. apply skel_attr_eq. tauto.
      * intros E. apply Obj_eq_inv in E. destruct E as (E0 & E1 & E2 & E3 & E4). apply skel_attr_eq in E0. destruct E0 as (_ & F0 & F1 & F2).
        assert (X : false = false /\ has_tc (fst r) = false) by (apply R; tauto). tauto.
Qed.

Lemma seq_stage_nil p k : seq_stage p k = ([], false) <-> p = ([], false) /\ k = ([], false).
Proof.
  unfold seq_stage. destruct p as [e [|]], k as [e' t']; cbn [fst snd].
  - split; [discriminate|intros [H _]; discriminate H].
  - split.
    + intros E. injection E as E ->. apply app_eq_nil in E. destruct E as [-> ->]. auto.
    + intros [E1 E2]. injection E1 as ->. injection E2 as -> ->. reflexivity.
Qed.

Lemma walk_nil {A} (f : A -> A -> list entry) l1 : forall l2,
  walk f l1 l2 = ([], false) <-> List.length l1 = List.length l2 /\ Forall (fun p => f (fst p) (snd p) = []) (combine l1 l2).
Proof.
  intros l2. destruct (walk_spec f l1 l2) as [W1 W2]. split.
  - intros E. assert (Hs : snd (walk f l1 l2) = false) by (rewrite E; reflexivity). split; [apply W1; exact Hs|].
    specialize (W2 Hs). rewrite E in W2. cbn [fst] in W2. symmetry in W2. apply concat_nil_iff in W2.
    apply Forall_map in W2. exact W2.
  - intros [El Hall]. apply W1 in El. specialize (W2 El). destruct (walk f l1 l2) as [e tc]. cbn [fst snd] in *. subst tc.
    f_equal. rewrite W2. apply concat_nil_iff. apply Forall_map. exact Hall.
Qed.

Lemma type_attr_nil a1 a2 : a_type a1 = a_type a2 ->
  (type_attr_diff a1 a2 = ([], false) <->
   (if is_numa (a_type a1) then a_lmem a1 else 0%N) = (if is_numa (a_type a2) then a_lmem a2 else 0%N) /\
   (if is_memcmp_type (a_type a1) then a_tattr a1 else EmptyString) = (if is_memcmp_type (a_type a2) then a_tattr a2 else EmptyString)).
Proof.
  intros Et. unfold type_attr_diff. rewrite <- Et. destruct (is_numa (a_type a1)) eqn:En.
  - assert (is_memcmp_type (a_type a1) = false) as -> by (apply is_numa_true in En; rewrite En; reflexivity).
    destruct (a_lmem a1 =? a_lmem a2)%N eqn:El.
    + apply N.eqb_eq in El. tauto.
    + split; [discriminate|]. intros [E _]. apply N.eqb_neq in El. contradiction.
  - destruct (is_memcmp_type (a_type a1)).
    + destruct (String.eqb (a_tattr a1) (a_tattr a2)) eqn:Es; cbn [negb].
      * apply String.eqb_eq in Es. tauto.
      * split; [discriminate|]. intros [_ E]. apply String.eqb_neq in Es. contradiction.
    + tauto.
Qed.

Lemma erase_attr_eq a1 a2 :
  erase_attr a1 = erase_attr a2 <->
  fixed_part a1 = fixed_part a2 /\ a_name a1 = a_name a2 /\ type_attr_diff a1 a2 = ([], false) /\ a_infos a1 = a_infos a2.
Proof.
  unfold erase_attr, fixed_part. split.
  - intros E. injection E as E1 E2 E3 E4 E5 E6 E7 E8 E9. rewrite E1, E2, E3, E4, E5. repeat split; try assumption.
    apply type_attr_nil; [exact E2|]. split; assumption.
  - intros (E & En & Et & Ei). injection E as E1 E2 E3 E4 E5. apply type_attr_nil in Et; [|exact E2]. destruct Et as [Et1 Et2].
    rewrite E1, E3, E4, E5, En, Ei, Et1, Et2. rewrite E2. reflexivity.
Qed.

Theorem diff_trees_nil_iff : forall o1 o2, diff_trees o1 o2 = [] <-> erase o1 = erase o2.
Proof.
  apply (obj_ind' (fun o1 => forall o2, diff_trees o1 o2 = [] <-> erase o1 = erase o2)).
  intros a1 c1 m1 i1 x1 Hc Hm Hi Hx [a2 c2 m2 i2 x2]. rewrite diff_trees_unfold. unfold erase. cbn [tmap].
  assert (K : forall l1 l2, Forall (fun o1 => forall o2, diff_trees o1 o2 = [] <-> erase o1 = erase o2) l1 ->
     (walk diff_trees l1 l2 = ([], false) <-> map (tmap erase_attr) l1 = map (tmap erase_attr) l2)).
  { intros l1 l2 HF. rewrite <- (kids_iff erase_attr (fun a b => diff_trees a b = []) l1 HF l2). apply walk_nil. }
  destruct (pre_differs a1 a2) eqn:Epre.
  - split; [discriminate|]. intros E. apply Obj_eq_inv in E. destruct E as [E _]. apply erase_attr_eq in E. destruct E as [E _].
    apply pre_differs_false in E. congruence.
  - apply pre_differs_false in Epre. cbv zeta.
    set (r := stages a1 a2 c1 c2 m1 m2 i1 i2 x1 x2).
    assert (R : r = ([], false) <->
                (a_name a1 = a_name a2 /\ type_attr_diff a1 a2 = ([], false) /\ a_infos a1 = a_infos a2) /\
                map (tmap erase_attr) c1 = map (tmap erase_attr) c2 /\ map (tmap erase_attr) m1 = map (tmap erase_attr) m2 /\
                map (tmap erase_attr) i1 = map (tmap erase_attr) i2 /\ map (tmap erase_attr) x1 = map (tmap erase_attr) x2).
    { rewrite <- (K c1 c2 Hc), <- (K m1 m2 Hm), <- (K i1 i2 Hi), <- (K x1 x2 Hx).
      rewrite <- (infos_diff_nil (a_depth a1) (a_lidx a1)), <- name_stage_nil.
      unfold r, stages. rewrite !seq_stage_nil. tauto. }
    destruct r as [e [|]] eqn:Er; cbn [fst snd].
    + split; [intros E; apply app_eq_nil in E; destruct E as [_ E]; discriminate E|].
      intros E. apply Obj_eq_inv in E. destruct E as (E0 & E1 & E2 & E3 & E4). apply erase_attr_eq in E0.
      assert (X : (e, true) = ([], false)) by (apply R; tauto). discriminate X.
    + split.
      * intros ->. assert (X : ([] : list entry, false) = ([], false)) by reflexivity. apply R in X.
        destruct X as ((F1 & F2 & F3) & G1 & G2 & G3 & G4). f_equal; try assumption. apply erase_attr_eq. tauto.
      * intros E. apply Obj_eq_inv in E. destruct E as (E0 & E1 & E2 & E3 & E4). apply erase_attr_eq in E0.
        assert (X : (e, false) = ([], false)) by (apply R; tauto). injection X. auto.
Qed.

(* ------------------------------------------------------------------ *)
(* hwloc_topology_diff_build                                            *)

Lemma strs_eqb_eq l1 : forall l2, strs_eqb l1 l2 = true <-> l1 = l2.
Proof.
  induction l1 as [|x r IH]; intros [|y r2]; cbn [strs_eqb]; try (split; [discriminate|intros E; discriminate E]); [tauto|].
  rewrite andb_true_iff, String.eqb_eq, IH. split; [intros [-> ->]; reflexivity|intros E; injection E; auto].
Qed.

Lemma dists_differ_spec l1 : forall l2, dists_differ l1 l2 = false <-> l1 = l2 /\ forallb (fun p => negb (fst p)) l1 = true.
Proof.
  induction l1 as [|[h1 p1] r IH]; intros [|[h2 p2] r2]; cbn [dists_differ forallb fst].
  - tauto.
  - split; [discriminate|intros [E _]; discriminate E].
  - split; [discriminate|intros [E _]; discriminate E].
  - destruct h1, h2; cbn [orb negb andb]; try (split; [discriminate|intros [E F]; try discriminate E; try discriminate F]).
    destruct (String.eqb p1 p2) eqn:Ep; cbn [negb].
    + apply String.eqb_eq in Ep. subst. rewrite IH. split; [intros [-> F]; auto|intros [E F]; injection E; auto].
    + split; [discriminate|]. intros [E _]. injection E as E _. subst. rewrite String.eqb_refl in Ep. discriminate.
Qed.

(* what the topology-level part of the function compares, as the code does it *)
Definition top_same (A B : topo) : Prop :=
  (t_allowed_cpuset A = t_allowed_cpuset B /\ t_allowed_nodeset A = t_allowed_nodeset B) /\
  dists_differ (t_dists A) (t_dists B) = false /\
  memattrs_cmp true (t_memattrs A) (t_memattrs B) = Some false /\
  t_cpukinds A = t_cpukinds B.

Lemma allowed_same A B :
  negb (ostr_eqb (t_allowed_cpuset A) (t_allowed_cpuset B)) || negb (ostr_eqb (t_allowed_nodeset A) (t_allowed_nodeset B)) = false <->
  t_allowed_cpuset A = t_allowed_cpuset B /\ t_allowed_nodeset A = t_allowed_nodeset B.
Proof. rewrite orb_false_iff, !negb_false_iff, !ostr_eqb_eq. tauto. Qed.

Theorem build_zero_iff A B :
  diff_build 0 A B = BRet 0 [] <->
  erase (t_root A) = erase (t_root B) /\ t_infos A = t_infos B /\ top_same A B.
Proof.
  unfold diff_build, diff_build_gen, top_same. cbn [N.eqb negb].
  change (diff_trees_gen true) with diff_trees.
  rewrite <- diff_trees_nil_iff, <- (infos_diff_nil (t_nbl A) 0), <- allowed_same, <- (strs_eqb_eq (t_cpukinds A)).
  set (d := diff_trees (t_root A) (t_root B)).
  destruct (has_tc d) eqn:Etc.
  { split; [discriminate|]. intros [E _]. rewrite E in Etc. discriminate. }
  destruct (negb (ostr_eqb (t_allowed_cpuset A) (t_allowed_cpuset B)) || negb (ostr_eqb (t_allowed_nodeset A) (t_allowed_nodeset B))).
  { split; [discriminate|]. intros (_ & _ & E & _). discriminate E. }
  destruct (infos_diff (t_nbl A) 0 (t_infos A) (t_infos B)) as [ti [|]] eqn:Ei.
  { split; [discriminate|]. intros (_ & E & _). discriminate E. }
  destruct (dists_differ (t_dists A) (t_dists B)).
  { split; [discriminate|]. intros (_ & _ & _ & E & _). discriminate E. }
  destruct (memattrs_cmp true (t_memattrs A) (t_memattrs B)) as [[|]|].
  - split; [discriminate|]. intros (_ & _ & _ & _ & E & _). discriminate E.
  - destruct (strs_eqb (t_cpukinds A) (t_cpukinds B)); cbn [negb].
    + split.
      * intros E. injection E as E. apply app_eq_nil in E. destruct E as [-> ->]. tauto.
      * intros (-> & E & _). injection E as ->. reflexivity.
    + split; [discriminate|]. intros (_ & _ & _ & _ & _ & E). discriminate E.
  - split; [discriminate|]. intros (_ & _ & _ & _ & E & _). discriminate E.
Qed.

(* rc is 0 or 1, and 1 exactly when the list holds a TOO_COMPLEX entry *)
Theorem build_rc A B rc d : diff_build 0 A B = BRet rc d -> (rc = 1%Z /\ has_tc d = true) \/ (rc = 0%Z /\ has_tc d = false).
Proof.
  unfold diff_build, diff_build_gen. cbn [N.eqb negb]. change (diff_trees_gen true) with diff_trees.
  set (d0 := diff_trees (t_root A) (t_root B)).
  assert (Htcend : forall l, has_tc (l ++ [ETooComplex (a_depth (oa (t_root A))) (a_lidx (oa (t_root A)))]) = true).
  { intros l. rewrite has_tc_app. cbn. apply orb_true_r. }
  destruct (has_tc d0) eqn:Etc; [intros E; injection E as <- <-; auto|].
  destruct (_ || _); [intros E; injection E as <- <-; left; split; [reflexivity|apply Htcend]|].
  pose proof (infos_diff_notc (t_nbl A) 0 (t_infos A) (t_infos B)) as Hti.
  destruct (infos_diff (t_nbl A) 0 (t_infos A) (t_infos B)) as [ti [|]]; cbn [fst] in Hti.
  { intros E; injection E as <- <-. left. split; [reflexivity|]. rewrite app_assoc. apply Htcend. }
  destruct (dists_differ _ _). { intros E; injection E as <- <-. left. split; [reflexivity|]. rewrite app_assoc. apply Htcend. }
  destruct (memattrs_cmp _ _ _) as [[|]|]; try discriminate.
  { intros E; injection E as <- <-. left. split; [reflexivity|]. rewrite app_assoc. apply Htcend. }
  destruct (negb _). { intros E; injection E as <- <-. left. split; [reflexivity|]. rewrite app_assoc. apply Htcend. }
  intros E; injection E as <- <-. right. split; [reflexivity|]. rewrite has_tc_app, Etc, Hti. reflexivity.
Qed.

(* what a diff can express: everything but names, info values and NUMA local memory is equal *)
Definition expressible (A B : topo) : Prop :=
  skel (t_root A) = skel (t_root B) /\ map fst (t_infos A) = map fst (t_infos B) /\ top_same A B.

Theorem build_toocomplex_iff A B :
  memattrs_cmp true (t_memattrs A) (t_memattrs B) <> None ->
  ((exists d, diff_build 0 A B = BRet 1 d) <-> ~ expressible A B) /\
  ((exists d, diff_build 0 A B = BRet 0 d) <-> expressible A B).
Proof.
  intros Hm. unfold diff_build, diff_build_gen, expressible, top_same. cbn [N.eqb negb].
  change (diff_trees_gen true) with diff_trees.
  rewrite <- diff_trees_tc_iff, <- (infos_diff_tc (t_nbl A) 0), <- allowed_same, <- (strs_eqb_eq (t_cpukinds A)).
  set (d := diff_trees (t_root A) (t_root B)).
  destruct (has_tc d) eqn:Etc.
  { split; split; try (intros _; eauto; fail).
    - intros _ [E _]. discriminate E.
    - intros [d' E]. discriminate E.
    - intros [E _]. discriminate E. }
  destruct (negb (ostr_eqb (t_allowed_cpuset A) (t_allowed_cpuset B)) || negb (ostr_eqb (t_allowed_nodeset A) (t_allowed_nodeset B))).
  { split; split; try (intros _; eauto; fail).
    - intros _ (_ & _ & E & _). discriminate E.
    - intros [d' E]. discriminate E.
    - intros (_ & _ & E & _). discriminate E. }
  destruct (infos_diff (t_nbl A) 0 (t_infos A) (t_infos B)) as [ti [|]] eqn:Ei; cbn [snd].
  { split; split; try (intros _; eauto; fail).
    - intros _ (_ & E & _). discriminate E.
    - intros [d' E]. discriminate E.
    - intros (_ & E & _). discriminate E. }
  destruct (dists_differ (t_dists A) (t_dists B)).
  { split; split; try (intros _; eauto; fail).
    - intros _ (_ & _ & _ & E & _). discriminate E.
    - intros [d' E]. discriminate E.
    - intros (_ & _ & _ & E & _). discriminate E. }
  destruct (memattrs_cmp true (t_memattrs A) (t_memattrs B)) as [[|]|]; [| |contradiction].
  { split; split; try (intros _; eauto; fail).
    - intros _ (_ & _ & _ & _ & E & _). discriminate E.
    - intros [d' E]. discriminate E.
    - intros (_ & _ & _ & _ & E & _). discriminate E. }
  destruct (strs_eqb (t_cpukinds A) (t_cpukinds B)); cbn [negb].
  - split; split.
    + intros [d' E]. discriminate E.
    + intros H. exfalso. apply H. tauto.
    + intros _. tauto.
    + intros _. eauto.
  - split; split; try (intros _; eauto; fail).
    + intros _ (_ & _ & _ & _ & _ & E). discriminate E.
    + intros [d' E]. discriminate E.
    + intros (_ & _ & _ & _ & _ & E). discriminate E.
Qed.

(* since fix ac5e4b1 the initiator loop stays in bounds on all inputs *)
Lemma inits_walk_total l1 : forall l2, List.length l1 = List.length l2 -> inits_walk l1 l2 <> None.
Proof.
  induction l1 as [|x r IH]; intros [|y r2] E; cbn [inits_walk]; try discriminate.
  destruct (negb (String.eqb x y)); [discriminate|]. apply IH. cbn in E. lia.
Qed.
Lemma inits_differ_total l1 l2 : inits_differ true l1 l2 <> None.
Proof.
  unfold inits_differ. cbn [andb]. destruct (Nat.eqb (List.length l1) (List.length l2)) eqn:E; cbn [negb]; [|discriminate].
  apply inits_walk_total. apply Nat.eqb_eq. exact E.
Qed.
Lemma targets_differ_total need l1 : forall l2, targets_differ true need l1 l2 <> None.
Proof.
  induction l1 as [|t1 r IH]; intros [|t2 r2]; cbn [targets_differ]; try discriminate.
  destruct (negb (String.eqb (mt_id t1) (mt_id t2))); [discriminate|]. destruct need.
  - pose proof (inits_differ_total (mt_inits t1) (mt_inits t2)) as H.
    destruct (inits_differ true (mt_inits t1) (mt_inits t2)) as [[|]|]; [discriminate|apply IH|contradiction].
  - destruct (negb (String.eqb (mt_noinit t1) (mt_noinit t2))); [discriminate|apply IH].
Qed.
Lemma memattrs_differ_total l1 : forall i l2, memattrs_differ true i l1 l2 <> None.
Proof.
  induction l1 as [|m1 r IH]; intros i [|m2 r2]; cbn [memattrs_differ]; try discriminate.
  destruct (_ || _); [discriminate|]. destruct (_ || _); [apply IH|].
  pose proof (targets_differ_total (ma_need_init m1) (ma_targets m1) (ma_targets m2)) as H.
  destruct (targets_differ true (ma_need_init m1) (ma_targets m1) (ma_targets m2)) as [[|]|]; [discriminate|apply IH|contradiction].
Qed.
Lemma memattrs_cmp_total l1 l2 : memattrs_cmp true l1 l2 <> None.
Proof. unfold memattrs_cmp. destruct (negb _); [discriminate|apply memattrs_differ_total]. Qed.

Theorem build_never_overreads A B : diff_build 0 A B <> BOverread.
Proof.
  unfold diff_build, diff_build_gen. cbn [N.eqb negb].
  destruct (has_tc _); [discriminate|]. destruct (_ || _); [discriminate|].
  destruct (infos_diff _ _ _ _) as [ti [|]]; [discriminate|]. destruct (dists_differ _ _); [discriminate|].
  pose proof (memattrs_cmp_total (t_memattrs A) (t_memattrs B)) as H.
  destruct (memattrs_cmp true (t_memattrs A) (t_memattrs B)) as [[|]|]; [discriminate| |contradiction].
  destruct (negb _); discriminate.
Qed.

Theorem build_toocomplex_iff' A B :
  ((exists d, diff_build 0 A B = BRet 1 d) <-> ~ expressible A B) /\
  ((exists d, diff_build 0 A B = BRet 0 d) <-> expressible A B).
Proof. apply build_toocomplex_iff. apply memattrs_cmp_total. Qed.

(* ------------------------------------------------------------------ *)
(* one entry as a check on the addressed object plus a state-independent update *)

Definition oldv {A} (rev : bool) (ov nv : A) : A := if rev then nv else ov.
Definition newv {A} (rev : bool) (ov nv : A) : A := if rev then ov else nv.

Definition guard_ok (rev : bool) (ad : attrdiff) (a : oattr) : bool :=
  match ad with
  | DSize _ ov nv => is_numa (a_type a) && (a_lmem a =? oldv rev ov nv)%N
  | DName ov nv =>
      match a_name a, oldv rev ov nv, newv rev ov nv with
      | Some cur, Some o, Some _ => String.eqb cur o
      | _, _, _ => false
      end
  | DInfo nm ov nv => match patch_infos nm (oldv rev ov nv) (newv rev ov nv) (a_infos a) with Some _ => true | None => false end
  | DOther _ => false
  end.

Definition eff_fn (rev : bool) (ad : attrdiff) (k : key) (anc : list key) : oattr -> oattr :=
  match ad with
  | DSize _ ov nv => size_upd k (k :: anc) (newv rev ov nv) (u64sub (newv rev ov nv) (oldv rev ov nv))
  | DName ov nv => upd_key k (set_name (newv rev ov nv))
  | DInfo nm ov nv => upd_key k (fun x => set_infos (patch_total nm (oldv rev ov nv) (newv rev ov nv) (a_infos x)) x)
  | DOther _ => fun x => x
  end.

Lemma eff_fn_kp rev ad k anc : forall a, akey (eff_fn rev ad k anc a) = akey a.
Proof.
  destruct ad; cbn [eff_fn]; intros a; try reflexivity.
  - apply size_upd_kp.
  - apply upd_key_kp. reflexivity.
  - apply upd_key_kp. reflexivity.
Qed.

Lemma step_obj_ok rev d i ad T a anc ef :
  get_obj T d i = Some (a, anc) ->
  (step rev (EAttr d i ad) T = Ok ef <-> guard_ok rev ad a = true /\ ef = EObj (eff_fn rev ad (akey a) anc)).
Proof.
  intros Eg. cbn [step]. rewrite Eg. unfold guard_ok, eff_fn, oldv, newv. destruct ad as [idx ov nv|ov nv|nm ov nv|t].
  - destruct (is_numa (a_type a)); cbn [negb andb]; [|split; [discriminate|intros [E _]; discriminate E]].
    destruct ((a_lmem a =? (if rev then nv else ov))%N); cbn [negb].
    + split; [intros E; injection E as <-; auto|intros [_ ->]; reflexivity].
    + split; [discriminate|intros [E _]; discriminate E].
  - destruct (a_name a) as [cur|]; [|split; [discriminate|intros [E _]; discriminate E]].
    destruct (if rev then nv else ov) as [o|]; [|split; [discriminate|intros [E _]; discriminate E]].
    destruct (if rev then ov else nv) as [n|].
    + destruct (String.eqb cur o); cbn [negb].
      * split; [intros E; injection E as <-; auto|intros [_ ->]; reflexivity].
      * split; [discriminate|intros [E _]; discriminate E].
    + destruct (String.eqb cur o); cbn [negb]; split; try discriminate; intros [E _]; discriminate E.
  - destruct (patch_infos nm (if rev then nv else ov) (if rev then ov else nv) (a_infos a)).
    + split; [intros E; injection E as <-; auto|intros [_ ->]; reflexivity].
    + split; [discriminate|intros [E _]; discriminate E].
  - split; [discriminate|intros [E _]; discriminate E].
Qed.

Lemma step_tinfo_ok rev d i ad T ef :
  get_obj T d i = None ->
  (step rev (EAttr d i ad) T = Ok ef <->
   (d =? t_nbl T)%Z = true /\ exists nm ov nv, ad = DInfo nm ov nv /\
     patch_infos nm (oldv rev ov nv) (newv rev ov nv) (t_infos T) <> None /\
     ef = ETinfos (patch_total nm (oldv rev ov nv) (newv rev ov nv))).
Proof.
  intros Eg. cbn [step]. rewrite Eg. unfold oldv, newv. destruct (d =? t_nbl T)%Z.
  - destruct ad as [idx ov nv|ov nv|nm ov nv|t]; try (split; [discriminate|intros [_ (? & ? & ? & E & _)]; discriminate E]).
    destruct (patch_infos nm (if rev then nv else ov) (if rev then ov else nv) (t_infos T)) eqn:Ep.
    + split.
      * intros E. injection E as <-. split; [reflexivity|]. exists nm, ov, nv. rewrite Ep. repeat split. discriminate.
      * intros [_ (nm' & ov' & nv' & E & _ & ->)]. injection E as <- <- <-. reflexivity.
    + split; [discriminate|]. intros [_ (nm' & ov' & nv' & E & H & _)]. injection E as <- <- <-. rewrite Ep in H. contradiction.
  - split; [discriminate|intros [E _]; discriminate E].
Qed.

(* in-place patch as a total function, and whether it hits *)
Fixpoint ptot (nm old new : string) (l : infos_t) : infos_t :=
  match l with
  | [] => []
  | (n, v) :: r => if String.eqb n nm && String.eqb v old then (n, new) :: r else (n, v) :: ptot nm old new r
  end.
Definition phit (nm old : string) (l : infos_t) : bool := existsb (fun p => String.eqb (fst p) nm && String.eqb (snd p) old) l.

Lemma patch_infos_ptot nm old new l :
  patch_infos nm old new l = if phit nm old l then Some (ptot nm old new l) else None.
Proof.
  induction l as [|[n v] r IH]; cbn [patch_infos phit existsb ptot fst snd]; [reflexivity|].
  destruct (String.eqb n nm && String.eqb v old); cbn [orb]; [reflexivity|].
  fold (phit nm old r). rewrite IH. destruct (phit nm old r); reflexivity.
Qed.
Lemma ptot_nohit nm old new l : phit nm old l = false -> ptot nm old new l = l.
Proof.
  induction l as [|[n v] r IH]; cbn [phit existsb ptot fst snd]; [reflexivity|].
  destruct (String.eqb n nm && String.eqb v old); cbn [orb]; [discriminate|]. intros H. rewrite (IH H). reflexivity.
Qed.
Lemma patch_total_ptot nm old new l : patch_total nm old new l = ptot nm old new l.
Proof.
  unfold patch_total. rewrite patch_infos_ptot. destruct (phit nm old l) eqn:E; [reflexivity|].
  symmetry. apply ptot_nohit. exact E.
Qed.

Lemma ptot_comm n1 o1 v1 n2 o2 v2 l : n1 <> n2 ->
  ptot n1 o1 v1 (ptot n2 o2 v2 l) = ptot n2 o2 v2 (ptot n1 o1 v1 l).
Proof.
  intros Hn. induction l as [|[n v] r IH]; cbn [ptot]; [reflexivity|].
  destruct (String.eqb n n1) eqn:E1, (String.eqb n n2) eqn:E2.
  - apply String.eqb_eq in E1, E2. congruence.
  - destruct (String.eqb v o1) eqn:V1; cbn [andb ptot]; rewrite ?E1, ?E2, ?V1; cbn [andb]; rewrite ?IH; reflexivity.
  - destruct (String.eqb v o2) eqn:V2; cbn [andb ptot]; rewrite ?E1, ?E2, ?V2; cbn [andb]; rewrite ?IH; reflexivity.
  - cbn [andb ptot]. rewrite E1, E2. cbn [andb]. rewrite IH. reflexivity.
Qed.
Lemma phit_ptot n1 o1 v1 n2 o2 l : n1 <> n2 -> phit n2 o2 (ptot n1 o1 v1 l) = phit n2 o2 l.
Proof.
  intros Hn. induction l as [|[n v] r IH]; cbn [ptot]; [reflexivity|].
  destruct (String.eqb n n1 && String.eqb v o1) eqn:E.
  - apply andb_true_iff in E. destruct E as [E _]. apply String.eqb_eq in E. subst n.
    unfold phit. cbn [existsb fst snd]. assert (String.eqb n1 n2 = false) as -> by (apply String.eqb_neq; exact Hn). reflexivity.
  - unfold phit in *. cbn [existsb]. rewrite IH. reflexivity.
Qed.

(* two entries that do not address the same attribute *)
Definition indep (ad1 : attrdiff) (k1 : key) (ad2 : attrdiff) (k2 : key) : Prop :=
  match ad1, ad2 with
  | DSize _ _ _, DSize _ _ _ => k1 <> k2
  | DName _ _, DName _ _ => k1 <> k2
  | DInfo n1 _ _, DInfo n2 _ _ => k1 <> k2 \/ n1 <> n2
  | _, _ => True
  end.
Lemma indep_sym ad1 k1 ad2 k2 : indep ad1 k1 ad2 k2 -> indep ad2 k2 ad1 k1.
Proof. destruct ad1, ad2; cbn; intros H; auto. destruct H; auto. Qed.

Lemma upd_name_eq k v x : upd_key k (set_name v) x = set_name (if key_eqb (akey x) k then v else a_name x) x.
Proof. unfold upd_key. destruct (key_eqb (akey x) k); destruct x; reflexivity. Qed.
Lemma upd_infos_eq k nm o n x :
  upd_key k (fun y => set_infos (patch_total nm o n (a_infos y)) y) x =
  set_infos (if key_eqb (akey x) k then ptot nm o n (a_infos x) else a_infos x) x.
Proof. unfold upd_key. rewrite patch_total_ptot. destruct (key_eqb (akey x) k); destruct x; reflexivity. Qed.

Lemma eff_fn_eq rev ad k anc x :
  eff_fn rev ad k anc x =
  match ad with
  | DSize _ ov nv => set_tmem (if mem_key (akey x) (k :: anc) then u64add (a_tmem x) (u64sub (newv rev ov nv) (oldv rev ov nv)) else a_tmem x)
                              (set_lmem (if key_eqb (akey x) k then newv rev ov nv else a_lmem x) x)
  | DName ov nv => set_name (if key_eqb (akey x) k then newv rev ov nv else a_name x) x
  | DInfo nm ov nv => set_infos (if key_eqb (akey x) k then ptot nm (oldv rev ov nv) (newv rev ov nv) (a_infos x) else a_infos x) x
  | DOther _ => x
  end.
Proof. destruct ad; cbn [eff_fn]; [apply size_upd_eq|apply upd_name_eq|apply upd_infos_eq|reflexivity]. Qed.

Lemma guard_ok_phit rev nm ov nv a : guard_ok rev (DInfo nm ov nv) a = phit nm (oldv rev ov nv) (a_infos a).
Proof. cbn [guard_ok]. rewrite patch_infos_ptot. destruct (phit _ _ _); reflexivity. Qed.

Lemma key_neq_eqb k1 k2 : k1 <> k2 -> key_eqb k2 k1 = false.
Proof. intros H. destruct (key_eqb k2 k1) eqn:E; [|reflexivity]. apply key_eqb_eq in E. congruence. Qed.

(* the check of the second entry does not see the update of the first *)
Lemma guard_indep b1 ad1 k1 anc1 b2 ad2 x :
  indep ad1 k1 ad2 (akey x) -> guard_ok b2 ad2 (eff_fn b1 ad1 k1 anc1 x) = guard_ok b2 ad2 x.
Proof.
  intros H. rewrite eff_fn_eq. destruct ad2 as [i2 o2 n2|o2 n2|nm2 o2 n2|t2]; [| | |reflexivity].
  - destruct ad1 as [i1 o1 n1|o1 n1|nm1 o1 n1|t1]; cbn [guard_ok a_type a_lmem set_tmem set_lmem set_name set_infos]; try reflexivity.
    cbn [indep] in H. rewrite (key_neq_eqb _ _ H). reflexivity.
  - destruct ad1 as [i1 o1 n1|o1 n1|nm1 o1 n1|t1]; cbn [guard_ok a_name set_tmem set_lmem set_name set_infos]; try reflexivity.
    cbn [indep] in H. rewrite (key_neq_eqb _ _ H). reflexivity.
  - rewrite !guard_ok_phit.
    destruct ad1 as [i1 o1 n1|o1 n1|nm1 o1 n1|t1]; cbn [a_infos set_tmem set_lmem set_name set_infos]; try reflexivity.
    cbn [indep] in H. destruct (key_eqb (akey x) k1) eqn:Ek; [|reflexivity].
    apply key_eqb_eq in Ek. destruct H as [H|H]; [congruence|]. apply phit_ptot. exact H.
Qed.

Lemma u64add_comm3 t a b : u64add (u64add t a) b = u64add (u64add t b) a.
Proof.
  unfold u64add. assert (HU : U64 <> 0%N) by (unfold U64; discriminate).
  rewrite !N.add_mod_idemp_l by exact HU. f_equal. lia.
Qed.

(* and the two updates commute *)
Lemma eff_commute b1 ad1 k1 anc1 b2 ad2 k2 anc2 x :
  indep ad1 k1 ad2 k2 ->
  eff_fn b1 ad1 k1 anc1 (eff_fn b2 ad2 k2 anc2 x) = eff_fn b2 ad2 k2 anc2 (eff_fn b1 ad1 k1 anc1 x).
Proof.
  intros H. rewrite (eff_fn_eq b1), (eff_fn_eq b2 ad2 k2 anc2 (eff_fn b1 ad1 k1 anc1 x)), !eff_fn_kp.
  rewrite (eff_fn_eq b2 ad2 k2 anc2 x), (eff_fn_eq b1 ad1 k1 anc1 x).
  destruct x as [d i t st os ss nm ta lm tm inf]. unfold akey; cbn [a_depth a_lidx].
  destruct ad1 as [i1 o1 n1|o1 n1|nm1 o1 n1|t1], ad2 as [i2 o2 n2|o2 n2|nm2 o2 n2|t2];
    unfold set_tmem, set_lmem, set_name, set_infos;
    cbn [a_tmem a_lmem a_name a_infos a_depth a_lidx a_type a_subtype a_os_index a_sets a_tattr]; try reflexivity; cbn [indep] in H.
  - (* size, size *)
    f_equal.
    + destruct (key_eqb (d, i) k1) eqn:E1, (key_eqb (d, i) k2) eqn:E2; try reflexivity.
      apply key_eqb_eq in E1, E2. congruence.
    + destruct (mem_key (d, i) (k1 :: anc1)), (mem_key (d, i) (k2 :: anc2)); try reflexivity. apply u64add_comm3.
  - (* name, name *)
    f_equal. destruct (key_eqb (d, i) k1) eqn:E1, (key_eqb (d, i) k2) eqn:E2; try reflexivity.
    apply key_eqb_eq in E1, E2. congruence.
  - (* info, info *)
    f_equal. destruct (key_eqb (d, i) k1) eqn:E1, (key_eqb (d, i) k2) eqn:E2; try reflexivity.
    apply key_eqb_eq in E1, E2. destruct H as [H|H]; [congruence|]. apply ptot_comm. exact H.
Qed.

(* ------------------------------------------------------------------ *)
(* entries on different attributes commute                              *)

Lemma apply_obj_iff b d i ad T a anc T1 :
  get_obj T d i = Some (a, anc) ->
  (apply_one b (EAttr d i ad) T = Ok T1 <->
   guard_ok b ad a = true /\ T1 = run_eff (EObj (eff_fn b ad (akey a) anc)) T).
Proof.
  intros Eg. unfold apply_one. destruct (step b (EAttr d i ad) T) as [ef| |] eqn:Es.
  - apply (step_obj_ok _ _ _ _ _ _ _ _ Eg) in Es. destruct Es as [Hg ->]. split; [intros E; injection E as <-; auto|intros [_ ->]; reflexivity].
  - split; [discriminate|]. intros [Hg _].
    assert (X : step b (EAttr d i ad) T = Ok (EObj (eff_fn b ad (akey a) anc))) by (apply (step_obj_ok _ _ _ _ _ _ _ _ Eg); auto).
    congruence.
  - split; [discriminate|]. intros [Hg _].
    assert (X : step b (EAttr d i ad) T = Ok (EObj (eff_fn b ad (akey a) anc))) by (apply (step_obj_ok _ _ _ _ _ _ _ _ Eg); auto).
    congruence.
Qed.

Lemma apply_tinfo_iff b d i ad T T1 :
  get_obj T d i = None ->
  (apply_one b (EAttr d i ad) T = Ok T1 <->
   (d =? t_nbl T)%Z = true /\ exists nm ov nv, ad = DInfo nm ov nv /\ phit nm (oldv b ov nv) (t_infos T) = true /\
     T1 = set_tinfos (ptot nm (oldv b ov nv) (newv b ov nv) (t_infos T)) T).
Proof.
  intros Eg. unfold apply_one. destruct (step b (EAttr d i ad) T) as [ef| |] eqn:Es.
  - apply (step_tinfo_ok _ _ _ _ _ _ Eg) in Es. destruct Es as [Hd (nm & ov & nv & -> & Hp & ->)].
    rewrite patch_infos_ptot in Hp. destruct (phit nm (oldv b ov nv) (t_infos T)) eqn:Eh; [|contradiction].
    cbn [run_eff]. rewrite patch_total_ptot. split.
    + intros E. injection E as <-. split; [exact Hd|]. exists nm, ov, nv. auto.
    + intros [_ (nm' & ov' & nv' & E & _ & ->)]. injection E as <- <- <-. reflexivity.
  - split; [discriminate|]. intros [Hd (nm & ov & nv & -> & Hp & _)].
    assert (X : step b (EAttr d i (DInfo nm ov nv)) T = Ok (ETinfos (patch_total nm (oldv b ov nv) (newv b ov nv)))).
    { apply (step_tinfo_ok _ _ _ _ _ _ Eg). split; [exact Hd|]. exists nm, ov, nv. repeat split.
      rewrite patch_infos_ptot, Hp. discriminate. }
    congruence.
  - split; [discriminate|]. intros [Hd (nm & ov & nv & -> & Hp & _)].
    assert (X : step b (EAttr d i (DInfo nm ov nv)) T = Ok (ETinfos (patch_total nm (oldv b ov nv) (newv b ov nv)))).
    { apply (step_tinfo_ok _ _ _ _ _ _ Eg). split; [exact Hd|]. exists nm, ov, nv. repeat split.
      rewrite patch_infos_ptot, Hp. discriminate. }
    congruence.
Qed.

Lemma get_obj_at_nbl T d i : (0 <= t_nbl T)%Z -> (d =? t_nbl T)%Z = true -> get_obj T d i = None.
Proof.
  intros H0 Hd. apply Z.eqb_eq in Hd. subst d. unfold get_obj, depth_addressable.
  replace ((0 <=? t_nbl T) && (t_nbl T <? t_nbl T))%Z with false by (rewrite Z.ltb_irrefl, andb_false_r; reflexivity).
  cbn [orb]. replace (0 <=? HWLOC_TYPE_DEPTH_NUMANODE - t_nbl T)%Z with false; [reflexivity|].
  symmetry. apply Z.leb_gt. unfold HWLOC_TYPE_DEPTH_NUMANODE. lia.
Qed.

Lemma run_obj_obj_comm f g T :
  (forall x, f (g x) = g (f x)) -> run_eff (EObj f) (run_eff (EObj g) T) = run_eff (EObj g) (run_eff (EObj f) T).
Proof.
  intros H. destruct T as [r nbl ac an ti di ma ck]. unfold run_eff, set_root. cbn. f_equal.
  rewrite !tmap_tmap. apply tmap_ext_in. intros a _. apply H.
Qed.

Lemma slot_indep T d1 i1 ad1 a1 anc1 d2 i2 ad2 a2 anc2 :
  (0 <= t_nbl T)%Z ->
  get_obj T d1 i1 = Some (a1, anc1) -> get_obj T d2 i2 = Some (a2, anc2) ->
  slot_eqb (slot_of (t_nbl T) (EAttr d1 i1 ad1)) (slot_of (t_nbl T) (EAttr d2 i2 ad2)) = false ->
  indep ad1 (akey a1) ad2 (akey a2).
Proof.
  intros H0 E1 E2 Hs.
  destruct (get_obj_some _ _ _ _ _ E1) as [_ K1]. destruct (get_obj_some _ _ _ _ _ E2) as [_ K2]. rewrite K1, K2.
  assert (N1 : (d1 =? t_nbl T)%Z = false).
  { destruct (d1 =? t_nbl T)%Z eqn:E; [|reflexivity]. rewrite (get_obj_at_nbl _ _ i1 H0 E) in E1. discriminate. }
  assert (N2 : (d2 =? t_nbl T)%Z = false).
  { destruct (d2 =? t_nbl T)%Z eqn:E; [|reflexivity]. rewrite (get_obj_at_nbl _ _ i2 H0 E) in E2. discriminate. }
  destruct ad1, ad2; cbn [slot_of indep] in *; rewrite ?N1, ?N2 in Hs; cbn [slot_eqb] in Hs; auto.
  - intros E. rewrite E, key_eqb_refl in Hs. discriminate.
  - intros E. rewrite E, key_eqb_refl in Hs. discriminate.
  - destruct (String.eqb nm nm0) eqn:En.
    + left. intros E. rewrite E, key_eqb_refl in Hs. discriminate.
    + right. apply String.eqb_neq. exact En.
Qed.

Lemma step_commute b1 e1 b2 e2 T T1 T12 :
  (0 <= t_nbl T)%Z ->
  slot_eqb (slot_of (t_nbl T) e1) (slot_of (t_nbl T) e2) = false ->
  apply_one b1 e1 T = Ok T1 -> apply_one b2 e2 T1 = Ok T12 ->
  exists T2, apply_one b2 e2 T = Ok T2 /\ apply_one b1 e1 T2 = Ok T12.
Proof.
  intros H0 Hs A1 A2.
  destruct e1 as [d1 i1 ad1|? ?|?]; [|discriminate A1|discriminate A1].
  destruct e2 as [d2 i2 ad2|? ?|?]; [|discriminate A2|discriminate A2].
  destruct (get_obj T d1 i1) as [[a1 anc1]|] eqn:G1; destruct (get_obj T d2 i2) as [[a2 anc2]|] eqn:G2.
  - (* object, object *)
    pose proof (slot_indep _ _ _ _ _ _ _ _ _ _ _ H0 G1 G2 Hs) as Hi.
    apply (apply_obj_iff _ _ _ _ _ _ _ _ G1) in A1. destruct A1 as [Hg1 ->].
    set (f1 := eff_fn b1 ad1 (akey a1) anc1) in *.
    assert (G2' : get_obj (run_eff (EObj f1) T) d2 i2 = Some (f1 a2, anc2)).
    { rewrite get_obj_run_obj by apply eff_fn_kp. rewrite G2. reflexivity. }
    apply (apply_obj_iff _ _ _ _ _ _ _ _ G2') in A2. destruct A2 as [Hg2 ->].
    unfold f1 in Hg2 at 1. rewrite guard_indep in Hg2 by exact Hi.
    replace (akey (f1 a2)) with (akey a2) by (symmetry; apply eff_fn_kp).
    set (f2 := eff_fn b2 ad2 (akey a2) anc2) in *.
    exists (run_eff (EObj f2) T). split; [apply (apply_obj_iff _ _ _ _ _ _ _ _ G2); auto|].
    assert (G1' : get_obj (run_eff (EObj f2) T) d1 i1 = Some (f2 a1, anc1)).
    { rewrite get_obj_run_obj by apply eff_fn_kp. rewrite G1. reflexivity. }
    apply (apply_obj_iff _ _ _ _ _ _ _ _ G1'). split.
    + unfold f2. rewrite guard_indep by (apply indep_sym; exact Hi). exact Hg1.
    + replace (akey (f2 a1)) with (akey a1) by (symmetry; apply eff_fn_kp). fold f1.
      symmetry. apply run_obj_obj_comm. intros x. apply eff_commute. exact Hi.
  - (* object, topology infos *)
    apply (apply_obj_iff _ _ _ _ _ _ _ _ G1) in A1. destruct A1 as [Hg1 ->].
    set (f1 := eff_fn b1 ad1 (akey a1) anc1) in *.
    assert (G2' : get_obj (run_eff (EObj f1) T) d2 i2 = None).
    { rewrite get_obj_run_obj by apply eff_fn_kp. rewrite G2. reflexivity. }
    apply (apply_tinfo_iff _ _ _ _ _ _ G2') in A2.
    replace (t_nbl (run_eff (EObj f1) T)) with (t_nbl T) in A2 by (destruct T; reflexivity).
    replace (t_infos (run_eff (EObj f1) T)) with (t_infos T) in A2 by (destruct T; reflexivity).
    destruct A2 as [Hd (nm & ov & nv & -> & Hp & ->)].
    exists (set_tinfos (ptot nm (oldv b2 ov nv) (newv b2 ov nv) (t_infos T)) T). split.
    + apply (apply_tinfo_iff _ _ _ _ _ _ G2). split; [exact Hd|]. exists nm, ov, nv. auto.
    + apply (apply_obj_iff _ _ _ _ _ a1 anc1); [rewrite get_obj_set_tinfos; exact G1|]. split; [exact Hg1|].
      fold f1. destruct T; reflexivity.
  - (* topology infos, object *)
    apply (apply_tinfo_iff _ _ _ _ _ _ G1) in A1. destruct A1 as [Hd (nm & ov & nv & -> & Hp & ->)].
    assert (G2' : get_obj (set_tinfos (ptot nm (oldv b1 ov nv) (newv b1 ov nv) (t_infos T)) T) d2 i2 = Some (a2, anc2))
      by (rewrite get_obj_set_tinfos; exact G2).
    apply (apply_obj_iff _ _ _ _ _ _ _ _ G2') in A2. destruct A2 as [Hg2 ->].
    set (f2 := eff_fn b2 ad2 (akey a2) anc2) in *.
    exists (run_eff (EObj f2) T). split; [apply (apply_obj_iff _ _ _ _ _ _ _ _ G2); auto|].
    assert (G1' : get_obj (run_eff (EObj f2) T) d1 i1 = None).
    { rewrite get_obj_run_obj by apply eff_fn_kp. rewrite G1. reflexivity. }
    apply (apply_tinfo_iff _ _ _ _ _ _ G1').
    replace (t_nbl (run_eff (EObj f2) T)) with (t_nbl T) by (destruct T; reflexivity).
    replace (t_infos (run_eff (EObj f2) T)) with (t_infos T) by (destruct T; reflexivity).
    split; [exact Hd|]. exists nm, ov, nv. split; [reflexivity|]. split; [exact Hp|]. destruct T; reflexivity.
  - (* topology infos, topology infos *)
    apply (apply_tinfo_iff _ _ _ _ _ _ G1) in A1. destruct A1 as [Hd1 (n1 & o1 & v1 & -> & Hp1 & ->)].
    set (l1 := ptot n1 (oldv b1 o1 v1) (newv b1 o1 v1) (t_infos T)) in *.
    assert (G2' : get_obj (set_tinfos l1 T) d2 i2 = None) by (rewrite get_obj_set_tinfos; exact G2).
    apply (apply_tinfo_iff _ _ _ _ _ _ G2') in A2.
    change (t_nbl (set_tinfos l1 T)) with (t_nbl T) in A2. change (t_infos (set_tinfos l1 T)) with l1 in A2.
    destruct A2 as [Hd2 (n2 & o2 & v2 & -> & Hp2 & ->)].
    cbn [slot_of] in Hs. rewrite Hd1, Hd2 in Hs. cbn [slot_eqb] in Hs. apply String.eqb_neq in Hs.
    unfold l1 in Hp2. rewrite phit_ptot in Hp2 by exact Hs.
    set (l2 := ptot n2 (oldv b2 o2 v2) (newv b2 o2 v2) (t_infos T)).
    exists (set_tinfos l2 T). split.
    + apply (apply_tinfo_iff _ _ _ _ _ _ G2). split; [exact Hd2|]. exists n2, o2, v2. auto.
    + apply apply_tinfo_iff; [rewrite get_obj_set_tinfos; exact G1|].
      change (t_nbl (set_tinfos l2 T)) with (t_nbl T). change (t_infos (set_tinfos l2 T)) with l2.
      split; [exact Hd1|]. exists n1, o1, v1. split; [reflexivity|]. split.
      * unfold l2. rewrite phit_ptot by (intros E; apply Hs; symmetry; exact E). exact Hp1.
      * unfold l1, l2. rewrite (ptot_comm n2 _ _ n1) by (intros E; apply Hs; symmetry; exact E).
        destruct T; reflexivity.
Qed.

Lemma apply_one_nbl b e T T1 : apply_one b e T = Ok T1 -> t_nbl T1 = t_nbl T.
Proof.
  unfold apply_one. destruct (step b e T) as [ef| |]; try discriminate. intros E. injection E as <-.
  destruct ef; destruct T; reflexivity.
Qed.
Lemma apply_seq_nbl b d : forall T T1, apply_seq b d T = Some T1 -> t_nbl T1 = t_nbl T.
Proof.
  induction d as [|e r IH]; intros T T1 H; cbn [apply_seq] in H; [injection H as <-; reflexivity|].
  destruct (apply_one b e T) as [T'| |] eqn:E; try discriminate. rewrite (IH _ _ H). eapply apply_one_nbl; eauto.
Qed.

(* an entry that applies after a list whose entries touch other attributes applies before it, with the same result *)
Lemma commute_through b b' e d : forall T T1 T2,
  (0 <= t_nbl T)%Z -> slot_in (slot_of (t_nbl T) e) (map (slot_of (t_nbl T)) d) = false ->
  apply_seq b d T = Some T1 -> apply_one b' e T1 = Ok T2 ->
  exists T0, apply_one b' e T = Ok T0 /\ apply_seq b d T0 = Some T2.
Proof.
  induction d as [|x r IH]; intros T T1 T2 H0 Hs H1 H2; cbn [apply_seq] in H1.
  - injection H1 as <-. exists T2. auto.
  - destruct (apply_one b x T) as [Tx| |] eqn:Ex; try discriminate.
    cbn [map slot_in] in Hs. apply orb_false_iff in Hs. destruct Hs as [Hs1 Hs2].
    pose proof (apply_one_nbl _ _ _ _ Ex) as Hn.
    destruct (IH Tx T1 T2) as (T0' & A & B); try assumption; try (rewrite Hn; assumption).
    destruct (step_commute _ _ _ _ _ _ _ H0 Hs1 Ex A) as (T0 & C & D).
    exists T0. split; [exact C|]. cbn [apply_seq]. rewrite D. exact B.
Qed.

(* a list whose entries touch pairwise different attributes is undone by the
   same list walked in the same order with the opposite direction *)
Lemma reverse_seq b d : forall T T1,
  Hkeys T -> Hnames T -> Hu64 T -> (0 <= t_nbl T)%Z -> forallb entry_u64 d = true ->
  slots_distinct (t_nbl T) d = true ->
  apply_seq b d T = Some T1 -> apply_seq (negb b) d T1 = Some T.
Proof.
  induction d as [|x r IH]; intros T T1 HK HN HU H0 Hu Hs H; cbn [apply_seq] in H.
  - injection H as <-. reflexivity.
  - destruct (apply_one b x T) as [Tx| |] eqn:Ex; try discriminate.
    cbn [forallb] in Hu. apply andb_true_iff in Hu. destruct Hu as [Hux Hur].
    unfold slots_distinct in Hs. cbn [map slot_nodup] in Hs. apply andb_true_iff in Hs. destruct Hs as [Hs1 Hs2].
    apply negb_true_iff in Hs1.
    destruct (step_preserves _ _ _ _ HK HN HU Hux Ex) as (HK' & HN' & HU').
    pose proof (apply_one_nbl _ _ _ _ Ex) as Hn.
    assert (R : apply_seq (negb b) r T1 = Some Tx).
    { apply IH; try assumption; rewrite Hn; assumption. }
    pose proof (step_inverse _ _ _ _ HK HN HU Hux Ex) as P.
    pose proof (apply_seq_nbl _ _ _ _ H) as Hn1.
    destruct (commute_through (negb b) (negb b) x r T1 Tx T) as (T0 & A & B); try assumption.
    + rewrite Hn1, Hn. exact H0.
    + rewrite Hn1, Hn. exact Hs1.
    + cbn [apply_seq]. rewrite A. exact B.
Qed.

Lemma flags_rev_0 : negb (N.ldiff 0 HWLOC_TOPOLOGY_DIFF_APPLY_REVERSE =? 0)%N = false /\
                    negb (N.land 0 HWLOC_TOPOLOGY_DIFF_APPLY_REVERSE =? 0)%N = false /\
                    negb (N.ldiff HWLOC_TOPOLOGY_DIFF_APPLY_REVERSE HWLOC_TOPOLOGY_DIFF_APPLY_REVERSE =? 0)%N = false /\
                    negb (N.land HWLOC_TOPOLOGY_DIFF_APPLY_REVERSE HWLOC_TOPOLOGY_DIFF_APPLY_REVERSE =? 0)%N = true.
Proof. vm_compute. auto. Qed.

Lemma diff_apply_0_seq d T T1 : diff_apply 0 d T = ARet 0 T1 <-> apply_seq false d T = Some T1.
Proof.
  unfold diff_apply. destruct flags_rev_0 as (F1 & F2 & _ & _). rewrite F1, F2. split.
  - destruct (apply_loop false d 0 T) as [T'|n T'|] eqn:El; try discriminate.
    + intros E. injection E as <-. eapply apply_loop_done; eauto.
    + destruct (apply_loop_fail _ _ _ _ _ _ El) as (p & e & r & _ & -> & _). destruct (cancel_loop_fixed _ _ _ _); try discriminate.
      intros E. injection E as E _. lia.
  - intros H. rewrite (apply_seq_loop _ _ 0%nat _ _ H). reflexivity.
Qed.
Lemma diff_apply_rev_seq d T T1 : diff_apply HWLOC_TOPOLOGY_DIFF_APPLY_REVERSE d T = ARet 0 T1 <-> apply_seq true d T = Some T1.
Proof.
  unfold diff_apply. destruct flags_rev_0 as (_ & _ & F1 & F2). rewrite F1, F2. split.
  - destruct (apply_loop true d 0 T) as [T'|n T'|] eqn:El; try discriminate.
    + intros E. injection E as <-. eapply apply_loop_done; eauto.
    + destruct (apply_loop_fail _ _ _ _ _ _ El) as (p & e & r & _ & -> & _). destruct (cancel_loop_fixed _ _ _ _); try discriminate.
      intros E. injection E as E _. lia.
  - intros H. rewrite (apply_seq_loop _ _ 0%nat _ _ H). reflexivity.
Qed.

Theorem reverse_restores_distinct d T T1 :
  Hkeys T -> Hnames T -> Hu64 T -> (0 <= t_nbl T)%Z -> forallb entry_u64 d = true ->
  slots_distinct (t_nbl T) d = true ->
  (diff_apply 0 d T = ARet 0 T1 -> diff_apply HWLOC_TOPOLOGY_DIFF_APPLY_REVERSE d T1 = ARet 0 T) /\
  (diff_apply HWLOC_TOPOLOGY_DIFF_APPLY_REVERSE d T = ARet 0 T1 -> diff_apply 0 d T1 = ARet 0 T).
Proof.
  intros HK HN HU H0 Hu Hs. split; intros H.
  - apply diff_apply_0_seq in H. apply diff_apply_rev_seq. exact (reverse_seq false d T T1 HK HN HU H0 Hu Hs H).
  - apply diff_apply_rev_seq in H. apply diff_apply_0_seq. exact (reverse_seq true d T T1 HK HN HU H0 Hu Hs H).
Qed.

(* ------------------------------------------------------------------ *)
(* two trees of the same shape, node by node                            *)

Lemma oattrs_tmap_any f : forall o, oattrs (tmap f o) = map f (oattrs o).
Proof.
  apply (obj_ind' (fun o => oattrs (tmap f o) = map f (oattrs o))).
  intros a c m i x Hc Hm Hi Hx. cbn [tmap]. rewrite !oattrs_Obj. cbn [map]. f_equal. rewrite !map_app.
  assert (G : forall l, Forall (fun o => oattrs (tmap f o) = map f (oattrs o)) l ->
              flat_map oattrs (map (tmap f) l) = map f (flat_map oattrs l)).
  { intros l HF. induction HF as [|y r Hy _ IH]; [reflexivity|]. cbn [map flat_map]. rewrite map_app, Hy, IH. reflexivity. }
  rewrite (G c Hc), (G m Hm), (G i Hi), (G x Hx). reflexivity.
Qed.

Lemma same_shape_length s o1 o2 : tmap s o1 = tmap s o2 -> List.length (oattrs o1) = List.length (oattrs o2).
Proof.
  intros E. apply (f_equal oattrs) in E. rewrite !oattrs_tmap_any in E.
  apply (f_equal (@List.length _)) in E. rewrite !map_length in E. exact E.
Qed.

Lemma combine_app {A B} (l1 l1' : list A) (l2 l2' : list B) :
  List.length l1 = List.length l2 -> combine (l1 ++ l1') (l2 ++ l2') = combine l1 l2 ++ combine l1' l2'.
Proof.
  revert l2. induction l1 as [|x r IH]; intros [|y r2] E; cbn in E; try discriminate; [reflexivity|].
  cbn. rewrite IH by lia. reflexivity.
Qed.

Definition cflat (l1 l2 : list obj) : list (oattr * oattr) :=
  flat_map (fun p => combine (oattrs (fst p)) (oattrs (snd p))) (combine l1 l2).

Lemma combine_flat_kids s l1 : forall l2, map (tmap s) l1 = map (tmap s) l2 ->
  combine (flat_map oattrs l1) (flat_map oattrs l2) = cflat l1 l2 /\
  List.length (flat_map oattrs l1) = List.length (flat_map oattrs l2).
Proof.
  induction l1 as [|x r IH]; intros [|y r2] E; cbn [map] in E; try discriminate; [split; reflexivity|].
  injection E as E1 E2. destruct (IH r2 E2) as [H1 H2]. pose proof (same_shape_length _ _ _ E1) as Hl.
  unfold cflat. cbn [flat_map combine fst snd]. split.
  - rewrite combine_app by exact Hl. rewrite H1. reflexivity.
  - rewrite !app_length. lia.
Qed.

Lemma combine_oattrs_Obj s a1 c1 m1 i1 x1 a2 c2 m2 i2 x2 :
  tmap s (Obj a1 c1 m1 i1 x1) = tmap s (Obj a2 c2 m2 i2 x2) ->
  combine (oattrs (Obj a1 c1 m1 i1 x1)) (oattrs (Obj a2 c2 m2 i2 x2)) =
  (a1, a2) :: cflat c1 c2 ++ cflat m1 m2 ++ cflat i1 i2 ++ cflat x1 x2.
Proof.
  cbn [tmap]. intros E. apply Obj_eq_inv in E. destruct E as (_ & Ec & Em & Ei & Ex).
  destruct (combine_flat_kids s _ _ Ec) as [C1 C2]. destruct (combine_flat_kids s _ _ Em) as [M1 M2].
  destruct (combine_flat_kids s _ _ Ei) as [I1 I2]. destruct (combine_flat_kids s _ _ Ex) as [X1 X2].
  rewrite !oattrs_Obj. cbn [combine]. f_equal.
  rewrite combine_app by exact C2. rewrite combine_app by exact M2. rewrite combine_app by exact I2.
  rewrite C1, M1, I1, X1. reflexivity.
Qed.

Lemma Forall_combine_l {A B} (P : A -> Prop) (l1 : list A) : forall (l2 : list B),
  Forall P l1 -> Forall (fun p => P (fst p)) (combine l1 l2).
Proof.
  induction l1 as [|x r IH]; intros [|y r2] H; cbn [combine]; try constructor.
  - inversion H; assumption.
  - apply IH. inversion H; assumption.
Qed.

Lemma map_tmap_pairs s l1 : forall l2, map (tmap s) l1 = map (tmap s) l2 ->
  List.length l1 = List.length l2 /\ Forall (fun p => tmap s (fst p) = tmap s (snd p)) (combine l1 l2).
Proof.
  induction l1 as [|x r IH]; intros [|y r2] E; cbn [map] in E; try discriminate; [split; [reflexivity|constructor]|].
  injection E as E1 E2. destruct (IH r2 E2) as [H1 H2]. split; [cbn; lia|]. cbn [combine]. constructor; assumption.
Qed.

(* trees of one shape are equal after node-wise maps that agree pairwise *)
Lemma tmap_pairwise s f1 f2 : forall o1 o2, tmap s o1 = tmap s o2 ->
  Forall (fun p => f1 (fst p) = f2 (snd p)) (combine (oattrs o1) (oattrs o2)) -> tmap f1 o1 = tmap f2 o2.
Proof.
  apply (obj_ind' (fun o1 => forall o2, tmap s o1 = tmap s o2 ->
    Forall (fun p => f1 (fst p) = f2 (snd p)) (combine (oattrs o1) (oattrs o2)) -> tmap f1 o1 = tmap f2 o2)).
  intros a1 c1 m1 i1 x1 Hc Hm Hi Hx [a2 c2 m2 i2 x2] E HF.
  rewrite (combine_oattrs_Obj s _ _ _ _ _ _ _ _ _ _ E) in HF.
  inversion HF as [|? ? Hh Ht]; subst. cbn [fst snd] in Hh.
  apply Forall_app in Ht. destruct Ht as [Fc Ht]. apply Forall_app in Ht. destruct Ht as [Fm Ht].
  apply Forall_app in Ht. destruct Ht as [Fi Fx].
  cbn [tmap] in E. apply Obj_eq_inv in E. destruct E as (_ & Ec & Em & Ei & Ex).
  assert (K : forall l1 l2,
    Forall (fun o1 => forall o2, tmap s o1 = tmap s o2 ->
       Forall (fun p => f1 (fst p) = f2 (snd p)) (combine (oattrs o1) (oattrs o2)) -> tmap f1 o1 = tmap f2 o2) l1 ->
    map (tmap s) l1 = map (tmap s) l2 -> Forall (fun p => f1 (fst p) = f2 (snd p)) (cflat l1 l2) ->
    map (tmap f1) l1 = map (tmap f2) l2).
  { intros l1. induction l1 as [|y r IH]; intros [|z r2] HP El HFl; cbn [map] in El; try discriminate; [reflexivity|].
    injection El as El1 El2. inversion HP as [|? ? Py Pr]; subst. unfold cflat in HFl. cbn [combine flat_map fst snd] in HFl.
    apply Forall_app in HFl. destruct HFl as [F1 F2]. cbn [map]. f_equal; [apply Py; assumption|apply IH; assumption]. }
  cbn [tmap]. f_equal; [exact Hh|apply K; assumption ..].
Qed.

(* the entries of one pair of objects *)
Definition node_diff (a1 a2 : oattr) : list entry :=
  fst (name_stage true a1 a2) ++ fst (type_attr_diff a1 a2) ++
  fst (infos_diff (a_depth a1) (a_lidx a1) (a_infos a1) (a_infos a2)).
Definition nd (p : oattr * oattr) : list entry := node_diff (fst p) (snd p).

(* without TOO_COMPLEX, hwloc_diff_trees emits the entries of the object pairs in pre-order *)
Lemma diff_trees_flat : forall o1 o2, has_tc (diff_trees o1 o2) = false ->
  diff_trees o1 o2 = List.concat (map nd (combine (oattrs o1) (oattrs o2))).
Proof.
  apply (obj_ind' (fun o1 => forall o2, has_tc (diff_trees o1 o2) = false ->
     diff_trees o1 o2 = List.concat (map nd (combine (oattrs o1) (oattrs o2))))).
  intros a1 c1 m1 i1 x1 Hc Hm Hi Hx [a2 c2 m2 i2 x2] Htc.
  pose proof (proj1 (diff_trees_tc_iff _ _) Htc) as Hsk. unfold skel in Hsk.
  rewrite (combine_oattrs_Obj skel_attr _ _ _ _ _ _ _ _ _ _ Hsk).
  rewrite diff_trees_unfold in *. destruct (pre_differs a1 a2); [discriminate Htc|]. cbv zeta in *.
  set (r := stages a1 a2 c1 c2 m1 m2 i1 i2 x1 x2) in *.
  destruct (snd r) eqn:Es.
  { rewrite has_tc_app in Htc. cbn in Htc. rewrite orb_true_r in Htc. discriminate. }
  assert (K : forall l1 l2,
     Forall (fun o1 => forall o2, has_tc (diff_trees o1 o2) = false ->
        diff_trees o1 o2 = List.concat (map nd (combine (oattrs o1) (oattrs o2)))) l1 ->
     snd (walk diff_trees l1 l2) = false -> has_tc (fst (walk diff_trees l1 l2)) = false ->
     fst (walk diff_trees l1 l2) = List.concat (map nd (cflat l1 l2))).
  { intros l1 l2 HF Hs Ht. destruct (walk_spec diff_trees l1 l2) as [_ W2]. rewrite (W2 Hs) in *.
    apply has_tc_concat in Ht. apply Forall_map in Ht. clear W2 Hs.
    revert l2 Ht. induction HF as [|y r' Hy _ IH]; intros [|z r2] Ht; cbn [combine map List.concat]; try reflexivity.
    cbn [combine] in Ht. inversion Ht as [|? ? Hh Htl]; subst. cbn [fst snd] in *.
    unfold cflat. cbn [combine flat_map fst snd]. rewrite map_app, concat_app. rewrite (Hy z Hh). f_equal. apply IH. exact Htl. }
  unfold r, stages in Es, Htc |- *.
  repeat (apply seq_stage_snd in Es; let H := fresh "S" in destruct Es as [H Es]).
  repeat (rewrite seq_stage_fst in Htc by assumption; rewrite has_tc_app in Htc; apply orb_false_iff in Htc;
          let H := fresh "T" in destruct Htc as [H Htc]).
  repeat (rewrite seq_stage_fst by assumption).
  rewrite (K c1 c2 Hc) by assumption. rewrite (K m1 m2 Hm) by assumption.
  rewrite (K i1 i2 Hi) by assumption. rewrite (K x1 x2 Hx) by assumption.
  cbn [map List.concat]. rewrite !map_app, !concat_app.
  change (nd (a1, a2)) with (fst (name_stage true a1 a2) ++ fst (type_attr_diff a1 a2) ++
    fst (infos_diff (a_depth a1) (a_lidx a1) (a_infos a1) (a_infos a2))).
  rewrite <- ?app_assoc. reflexivity.
Qed.

(* ------------------------------------------------------------------ *)
(* applying the entries of one object                                   *)

Definition fxp (a : oattr) := (a_depth a, a_lidx a, a_type a, a_subtype a, a_os_index a, a_sets a, a_tattr a).
Definition dnl (a : oattr) := (a_name a, a_infos a, a_lmem a).
(* equal but for total_memory *)
Definition eqmt (x a : oattr) : Prop := fxp x = fxp a /\ dnl x = dnl a.

(* an update that only touches name / info values / local memory / total
   memory, and the first three only on the object with key [k] *)
Definition quiet (k : key) (g : oattr -> oattr) : Prop :=
  (forall x, fxp (g x) = fxp x) /\ (forall x, akey x <> k -> dnl (g x) = dnl x).

Lemma quiet_kp k g : quiet k g -> forall x, akey (g x) = akey x.
Proof. intros [H _] x. specialize (H x). unfold fxp in H. unfold akey. injection H. intros. congruence. Qed.
Lemma quiet_id k : quiet k (fun x => x).
Proof. split; reflexivity. Qed.
Lemma quiet_comp k g1 g2 : quiet k g1 -> quiet k g2 -> quiet k (fun x => g2 (g1 x)).
Proof.
  intros Q1 Q2. pose proof (quiet_kp _ _ Q1) as K1. destruct Q1 as [A1 B1], Q2 as [A2 B2]. split; intros x.
  - rewrite A2. apply A1.
  - intros H. rewrite B2 by (rewrite K1; exact H). apply B1. exact H.
Qed.
Lemma quiet_eff b ad k anc : quiet k (eff_fn b ad k anc).
Proof.
  split; intros x.
  - rewrite eff_fn_eq. destruct ad; destruct x; reflexivity.
  - intros H. rewrite eff_fn_eq. apply key_neq_eqb in H. rewrite key_eqb_sym in H.
    destruct ad; try reflexivity; unfold dnl; destruct x; cbn in *; rewrite ?H; reflexivity.
Qed.

Lemma run_comp g1 g2 T : run_eff (EObj g2) (run_eff (EObj g1) T) = run_eff (EObj (fun x => g2 (g1 x))) T.
Proof. destruct T. unfold run_eff, set_root. cbn. rewrite tmap_tmap. reflexivity. Qed.
Lemma run_id T : run_eff (EObj (fun x => x)) T = T.
Proof. destruct T. unfold run_eff, set_root. cbn. f_equal. apply tmap_id_in. reflexivity. Qed.

Lemma apply_seq_app b p1 : forall p2 T T1, apply_seq b p1 T = Some T1 -> apply_seq b (p1 ++ p2) T = apply_seq b p2 T1.
Proof.
  induction p1 as [|e r IH]; intros p2 T T1 H; cbn [apply_seq app] in *; [injection H as <-; reflexivity|].
  destruct (apply_one b e T); try discriminate. apply IH. exact H.
Qed.

(* info values of one list, patched one after the other *)
Definition ipatches (l1 l2 : infos_t) : list (string * string * string) :=
  flat_map (fun p => if String.eqb (snd (fst p)) (snd (snd p)) then [] else [(fst (fst p), snd (fst p), snd (snd p))])
           (combine l1 l2).
Definition pentry (d : Z) (i : N) (q : string * string * string) : entry := EAttr d i (DInfo (fst (fst q)) (snd (fst q)) (snd q)).

Lemma infos_walk_patches d i l1 : forall l2, map fst l1 = map fst l2 ->
  fst (infos_walk d i l1 l2) = map (pentry d i) (ipatches l1 l2).
Proof.
  induction l1 as [|[n1 v1] r1 IH]; intros [|[n2 v2] r2] E; cbn [map fst] in E; try discriminate; [reflexivity|].
  injection E as -> E. cbn [infos_walk]. rewrite String.eqb_refl. cbn [negb]. specialize (IH r2 E).
  destruct (infos_walk d i r1 r2) as [e tc]. cbn [fst] in *. unfold ipatches. cbn [combine flat_map fst snd]. rewrite map_app.
  fold (ipatches r1 r2). rewrite <- IH. destruct (String.eqb v1 v2); reflexivity.
Qed.
Lemma infos_diff_patches d i l1 l2 : map fst l1 = map fst l2 ->
  fst (infos_diff d i l1 l2) = map (pentry d i) (ipatches l1 l2).
Proof.
  intros E. unfold infos_diff. assert (El : List.length l1 = List.length l2).
  { apply (f_equal (@List.length _)) in E. rewrite !map_length in E. exact E. }
  rewrite El, Nat.eqb_refl. cbn [negb]. apply infos_walk_patches. exact E.
Qed.

Fixpoint run_patches (ps : list (string * string * string)) (l : infos_t) : option infos_t :=
  match ps with
  | [] => Some l
  | q :: r => if phit (fst (fst q)) (snd (fst q)) l then run_patches r (ptot (fst (fst q)) (snd (fst q)) (snd q) l) else None
  end.

Lemma str_nodup_NoDup l : str_nodup l = true <-> NoDup l.
Proof.
  induction l as [|x r IH]; cbn [str_nodup]; [split; [constructor|reflexivity]|].
  rewrite andb_true_iff, negb_true_iff, IH. split.
  - intros [H1 H2]. constructor; [|assumption]. intros Hin. apply str_in_In in Hin. congruence.
  - intros H. inversion H as [|? ? H1 H2]; subst. split; [|assumption].
    destruct (str_in x r) eqn:E; [|reflexivity]. apply str_in_In in E. contradiction.
Qed.

Lemma ptot_app_nohit n o v pre l : ~ In n (map fst pre) ->
  ptot n o v (pre ++ l) = pre ++ ptot n o v l /\ phit n o (pre ++ l) = phit n o l.
Proof.
  induction pre as [|[m w] r IH]; intros H; [split; reflexivity|]. cbn [map fst In] in H.
  assert (Hm : String.eqb m n = false) by (apply String.eqb_neq; intros E; apply H; left; exact E).
  destruct IH as [I1 I2]; [intros Hin; apply H; right; exact Hin|].
  cbn [app ptot]. rewrite Hm. cbn [andb]. rewrite I1. split; [reflexivity|].
  unfold phit in *. cbn [existsb fst snd]. rewrite Hm. cbn [andb orb]. exact I2.
Qed.

Lemma run_patches_ok l1 : forall l2 pre, map fst l1 = map fst l2 -> NoDup (map fst (pre ++ l1)) ->
  run_patches (ipatches l1 l2) (pre ++ l1) = Some (pre ++ l2).
Proof.
  induction l1 as [|[n v1] r1 IH]; intros [|[n2 v2] r2] pre E Hn; cbn [map fst] in E; try discriminate; [reflexivity|].
  injection E as <- E. unfold ipatches. cbn [combine flat_map fst snd]. fold (ipatches r1 r2).
  assert (Hnot : ~ In n (map fst pre)).
  { rewrite map_app in Hn. cbn [map fst] in Hn. apply NoDup_remove_2 in Hn. intros Hin. apply Hn. apply in_or_app. left. exact Hin. }
  destruct (String.eqb v1 v2) eqn:Ev.
  - apply String.eqb_eq in Ev. subst v2. cbn [app].
    replace (pre ++ (n, v1) :: r1) with ((pre ++ [(n, v1)]) ++ r1) by (rewrite <- app_assoc; reflexivity).
    replace (pre ++ (n, v1) :: r2) with ((pre ++ [(n, v1)]) ++ r2) by (rewrite <- app_assoc; reflexivity).
    apply IH; [exact E|]. rewrite <- app_assoc. exact Hn.
  - cbn [app run_patches fst snd]. destruct (ptot_app_nohit n v1 v2 pre ((n, v1) :: r1) Hnot) as [P1 P2].
    rewrite P2. unfold phit at 1. cbn [existsb fst snd]. rewrite !String.eqb_refl. cbn [andb orb].
    rewrite P1. cbn [ptot]. rewrite !String.eqb_refl. cbn [andb].
    replace (pre ++ (n, v2) :: r1) with ((pre ++ [(n, v2)]) ++ r1) by (rewrite <- app_assoc; reflexivity).
    replace (pre ++ (n, v2) :: r2) with ((pre ++ [(n, v2)]) ++ r2) by (rewrite <- app_assoc; reflexivity).
    apply IH; [exact E|]. rewrite <- app_assoc. rewrite map_app in *. cbn [map fst] in *. exact Hn.
Qed.

Lemma get_obj_run T g d i x anc (Hk : forall a, akey (g a) = akey a) :
  get_obj T d i = Some (x, anc) -> get_obj (run_eff (EObj g) T) d i = Some (g x, anc).
Proof. intros H. rewrite get_obj_run_obj by exact Hk. rewrite H. reflexivity. Qed.

Lemma obj_patches_apply d i ps : forall T x anc fin,
  get_obj T d i = Some (x, anc) -> run_patches ps (a_infos x) = Some fin ->
  exists g, quiet (akey x) g /\ apply_seq false (map (pentry d i) ps) T = Some (run_eff (EObj g) T) /\
            dnl (g x) = (a_name x, fin, a_lmem x).
Proof.
  induction ps as [|[[n o] v] r IH]; intros T x anc fin Hg Hr; cbn [run_patches fst snd] in Hr.
  - injection Hr as <-. exists (fun y => y). split; [apply quiet_id|]. split; [cbn [map apply_seq]; rewrite run_id; reflexivity|reflexivity].
  - destruct (phit n o (a_infos x)) eqn:Eh; [|discriminate].
    set (f := eff_fn false (DInfo n o v) (akey x) anc).
    assert (A1 : apply_one false (pentry d i (n, o, v)) T = Ok (run_eff (EObj f) T)).
    { unfold pentry. cbn [fst snd]. apply (apply_obj_iff _ _ _ _ _ _ _ _ Hg). split; [|reflexivity].
      rewrite guard_ok_phit. exact Eh. }
    assert (Hfx : a_infos (f x) = ptot n o v (a_infos x) /\ a_name (f x) = a_name x /\ a_lmem (f x) = a_lmem x /\ akey (f x) = akey x).
    { unfold f. rewrite eff_fn_eq. rewrite key_eqb_refl. destruct x; repeat split. }
    destruct Hfx as (F1 & F2 & F3 & F4).
    destruct (IH (run_eff (EObj f) T) (f x) anc fin) as (g & Qg & Ag & Dg).
    + apply get_obj_run; [apply eff_fn_kp|exact Hg].
    + rewrite F1. exact Hr.
    + exists (fun y => g (f y)). split; [|split].
      * apply quiet_comp; [apply quiet_eff|]. rewrite F4 in Qg. exact Qg.
      * cbn [map apply_seq]. rewrite A1, Ag, run_comp. reflexivity.
      * rewrite Dg, F2, F3. reflexivity.
Qed.

Lemma tinfo_patches_apply ps : forall T fin,
  (0 <= t_nbl T)%Z -> run_patches ps (t_infos T) = Some fin ->
  apply_seq false (map (pentry (t_nbl T) 0) ps) T = Some (set_tinfos fin T).
Proof.
  induction ps as [|[[n o] v] r IH]; intros T fin H0 Hr; cbn [run_patches fst snd] in Hr.
  - injection Hr as <-. cbn. destruct T; reflexivity.
  - destruct (phit n o (t_infos T)) eqn:Eh; [|discriminate].
    assert (A1 : apply_one false (pentry (t_nbl T) 0 (n, o, v)) T = Ok (set_tinfos (ptot n o v (t_infos T)) T)).
    { unfold pentry. cbn [fst snd]. apply apply_tinfo_iff; [apply get_obj_at_nbl; [exact H0|apply Z.eqb_refl]|].
      split; [apply Z.eqb_refl|]. exists n, o, v. auto. }
    cbn [map apply_seq]. rewrite A1.
    specialize (IH (set_tinfos (ptot n o v (t_infos T)) T) fin H0 Hr).
    change (t_nbl (set_tinfos (ptot n o v (t_infos T)) T)) with (t_nbl T) in IH. rewrite IH. destruct T; reflexivity.
Qed.

(* what the entries of the pair (a, b) establish on the object a *)
Definition node_post (a b gx : oattr) : Prop :=
  fxp gx = fxp a /\ a_name gx = a_name b /\ a_infos gx = a_infos b /\
  (is_numa (a_type a) = true -> a_lmem gx = a_lmem b) /\ (is_numa (a_type a) = false -> a_lmem gx = a_lmem a).

Lemma node_apply a b T x anc :
  skel_attr a = skel_attr b -> NoDup (map fst (a_infos a)) ->
  get_obj T (a_depth a) (a_lidx a) = Some (x, anc) -> eqmt x a ->
  exists g, quiet (akey a) g /\ apply_seq false (node_diff a b) T = Some (run_eff (EObj g) T) /\ node_post a b (g x).
Proof.
  intros Hsk Hnd Hg [Hfx Hdn].
  apply skel_attr_eq in Hsk. destruct Hsk as (Hfix & Hns & Hts & Hin).
  assert (Hkx : akey x = akey a) by (unfold fxp in Hfx; unfold akey; injection Hfx; intros; congruence).
  assert (Htx : a_type x = a_type a) by (unfold fxp in Hfx; injection Hfx; intros; congruence).
  unfold dnl in Hdn. injection Hdn as Dn Di Dl.
  (* stage 1: name *)
  assert (S1 : exists g1, quiet (akey a) g1 /\ apply_seq false (fst (name_stage true a b)) T = Some (run_eff (EObj g1) T) /\
                          dnl (g1 x) = (a_name b, a_infos a, a_lmem a)).
  { apply name_stage_snd in Hns. unfold name_stage. cbn [andb].
    assert (X : ostr_eqb (option_map (fun _ => EmptyString) (a_name a)) (option_map (fun _ => EmptyString) (a_name b)) = true)
      by (apply ostr_eqb_eq; exact Hns).
    rewrite X. cbn [negb fst]. unfold name_diff. destruct (ostr_eqb (a_name a) (a_name b)) eqn:En.
    - apply ostr_eqb_eq in En. exists (fun y => y). split; [apply quiet_id|]. split; [cbn [apply_seq]; rewrite run_id; reflexivity|].
      unfold dnl. rewrite Dn, Di, Dl, En. reflexivity.
    - unfold name_set in Hns. destruct (a_name a) as [o|] eqn:Ea, (a_name b) as [n|] eqn:Eb; cbn in Hns; try discriminate.
      + set (f := eff_fn false (DName (Some o) (Some n)) (akey x) anc).
        exists f. split; [unfold f; rewrite Hkx; apply quiet_eff|]. split.
        * cbn [apply_seq].
          assert (A1 : apply_one false (EAttr (a_depth a) (a_lidx a) (DName (Some o) (Some n))) T = Ok (run_eff (EObj f) T)).
          { apply (apply_obj_iff _ _ _ _ _ _ _ _ Hg). split; [|reflexivity]. cbn [guard_ok oldv newv]. rewrite Dn.
            apply String.eqb_refl. }
          rewrite A1. reflexivity.
        * unfold f. rewrite eff_fn_eq, key_eqb_refl. unfold dnl. destruct x; cbn in *. subst. reflexivity. }
  destruct S1 as (g1 & Q1 & A1 & D1).
  pose proof (quiet_kp _ _ Q1) as K1.
  pose proof (get_obj_run T g1 _ _ x anc K1 Hg) as Hg1.
  (* stage 2: local memory *)
  assert (S2 : exists g2, quiet (akey a) g2 /\
     apply_seq false (fst (type_attr_diff a b)) (run_eff (EObj g1) T) = Some (run_eff (EObj g2) (run_eff (EObj g1) T)) /\
     dnl (g2 (g1 x)) = (a_name b, a_infos a, if is_numa (a_type a) then a_lmem b else a_lmem a)).
  { unfold type_attr_diff. destruct (is_numa (a_type a)) eqn:Enu.
    - destruct ((a_lmem a =? a_lmem b)%N) eqn:El; cbn [fst].
      + apply N.eqb_eq in El. exists (fun y => y). split; [apply quiet_id|]. split; [cbn [apply_seq]; rewrite run_id; reflexivity|].
        rewrite D1, El. reflexivity.
      + set (f := eff_fn false (DSize 0 (a_lmem a) (a_lmem b)) (akey (g1 x)) anc).
        exists f. split; [unfold f; rewrite K1, Hkx; apply quiet_eff|]. split.
        * cbn [apply_seq].
          assert (A2 : apply_one false (EAttr (a_depth a) (a_lidx a) (DSize 0 (a_lmem a) (a_lmem b))) (run_eff (EObj g1) T) =
                       Ok (run_eff (EObj f) (run_eff (EObj g1) T))).
          { apply (apply_obj_iff _ _ _ _ _ _ _ _ Hg1). split; [|reflexivity]. cbn [guard_ok oldv newv].
            assert (Ht1 : a_type (g1 x) = a_type a).
            { destruct Q1 as [Qf _]. specialize (Qf x). unfold fxp in Qf. injection Qf. intros. congruence. }
            unfold dnl in D1. injection D1 as _ _ D1l. rewrite Ht1, Enu, D1l, N.eqb_refl. reflexivity. }
          rewrite A2. reflexivity.
        * unfold f. rewrite eff_fn_eq, key_eqb_refl. unfold dnl in *. injection D1 as D1n D1i D1l.
          destruct (g1 x); cbn in *. subst. reflexivity.
    - destruct (is_memcmp_type (a_type a)); cbn [fst]; exists (fun y => y); (split; [apply quiet_id|]);
        (split; [cbn [apply_seq]; rewrite run_id; reflexivity|]); rewrite D1; reflexivity. }
  destruct S2 as (g2 & Q2 & A2 & D2).
  pose proof (quiet_kp _ _ Q2) as K2.
  pose proof (get_obj_run _ g2 _ _ (g1 x) anc K2 Hg1) as Hg2.
  (* stage 3: infos *)
  assert (Hi3 : a_infos (g2 (g1 x)) = a_infos a) by (unfold dnl in D2; injection D2; auto).
  assert (R3 : run_patches (ipatches (a_infos a) (a_infos b)) (a_infos (g2 (g1 x))) = Some (a_infos b)).
  { rewrite Hi3. apply (run_patches_ok (a_infos a) (a_infos b) [] Hin). exact Hnd. }
  destruct (obj_patches_apply _ _ _ _ _ _ _ Hg2 R3) as (g3 & Q3 & A3 & D3).
  rewrite K2, K1, Hkx in Q3.
  exists (fun y => g3 (g2 (g1 y))). split; [apply quiet_comp; [apply quiet_comp; assumption|assumption]|]. split.
  - unfold node_diff. rewrite (apply_seq_app _ _ _ _ _ A1). rewrite (apply_seq_app _ _ _ _ _ A2).
    rewrite (infos_diff_patches _ _ _ _ Hin). rewrite A3, !run_comp. reflexivity.
  - unfold node_post. unfold dnl in D3, D2. injection D2 as D2n D2i D2l. injection D3 as D3n D3i D3l.
    split; [|split; [|split; [|split]]].
    + destruct Q3 as [F3 _], Q2 as [F2 _], Q1 as [F1 _]. rewrite F3, F2, F1. exact Hfx.
    + congruence.
    + exact D3i.
    + intros E. rewrite E in D2l. congruence.
    + intros E. rewrite E in D2l. congruence.
Qed.

(* ------------------------------------------------------------------ *)
(* applying the entries of all object pairs, then apply(build)          *)

Lemma node_post_transfer a b y y' : fxp y' = fxp y -> dnl y' = dnl y -> node_post a b y -> node_post a b y'.
Proof.
  intros F D (P1 & P2 & P3 & P4 & P5). unfold dnl in D. injection D as Dn Di Dl. unfold node_post.
  rewrite F, Dn, Di, Dl. auto.
Qed.

Lemma pairs_apply ps : forall T,
  NoDup (map (fun p => akey (fst p)) ps) ->
  (forall p, In p ps -> skel_attr (fst p) = skel_attr (snd p) /\ NoDup (map fst (a_infos (fst p))) /\
      exists x anc, get_obj T (a_depth (fst p)) (a_lidx (fst p)) = Some (x, anc) /\ eqmt x (fst p)) ->
  exists g, (forall x, fxp (g x) = fxp x) /\
            (forall x, ~ In (akey x) (map (fun p => akey (fst p)) ps) -> dnl (g x) = dnl x) /\
            apply_seq false (List.concat (map nd ps)) T = Some (run_eff (EObj g) T) /\
            (forall p, In p ps -> forall x anc, get_obj T (a_depth (fst p)) (a_lidx (fst p)) = Some (x, anc) ->
               node_post (fst p) (snd p) (g x)).
Proof.
  induction ps as [|[a b] r IH]; intros T Hnd Hall.
  - exists (fun x => x). split; [reflexivity|]. split; [reflexivity|]. split; [cbn [map List.concat apply_seq]; rewrite run_id; reflexivity|intros p []].
  - cbn [map fst] in Hnd. inversion Hnd as [|? ? Hna Hnr]; subst.
    destruct (Hall (a, b) (or_introl eq_refl)) as (Hsk & Hin & xa & anca & Hga & Hea). cbn [fst snd] in *.
    destruct (node_apply a b T xa anca Hsk Hin Hga Hea) as (g1 & Q1 & A1 & P1).
    pose proof (quiet_kp _ _ Q1) as K1.
    destruct (IH (run_eff (EObj g1) T) Hnr) as (g2 & F2 & D2 & A2 & P2).
    { intros q Hq. destruct (Hall q (or_intror Hq)) as (Hs & Hi & x & anc & Hg & [Hfx Hdx]). split; [exact Hs|]. split; [exact Hi|].
      exists (g1 x), anc. split; [apply get_obj_run; assumption|]. destruct Q1 as [QF QD]. split.
      - rewrite QF. exact Hfx.
      - rewrite QD; [exact Hdx|]. intros E. apply Hna. apply in_map_iff. exists q. split; [|exact Hq].
        rewrite <- E. unfold fxp in Hfx. unfold akey. injection Hfx. intros. congruence. }
    exists (fun x => g2 (g1 x)). split; [|split; [|split]].
    + intros x. rewrite F2. apply Q1.
    + intros x Hx. cbn [map fst In] in Hx. rewrite D2.
      * apply Q1. intros E. apply Hx. left. symmetry. exact E.
      * rewrite K1. intros Hi'. apply Hx. right. exact Hi'.
    + cbn [map List.concat]. unfold nd at 1. cbn [fst snd]. rewrite (apply_seq_app _ _ _ _ _ A1), A2, run_comp. reflexivity.
    + intros p [<-|Hp] x anc Hg; cbn [fst snd] in *.
      * rewrite Hga in Hg. injection Hg as <- <-. apply (node_post_transfer a b (g1 xa)); [apply F2| |exact P1].
        apply D2. rewrite K1. destruct Hea as [Hfx _]. replace (akey xa) with (akey a); [exact Hna|].
        unfold fxp in Hfx. unfold akey. injection Hfx. intros. congruence.
      * apply (P2 p Hp (g1 x) anc). apply get_obj_run; assumption.
Qed.

Definition Hdepths (T : topo) : Prop := forall a, In a (attrs T) -> depth_addressable (t_nbl T) (a_depth a) = true.
Lemma depths_addressable_Hdepths T : depths_addressable T = true <-> Hdepths T.
Proof. unfold depths_addressable, Hdepths. apply forallb_forall. Qed.

Lemma get_obj_self T a : Hkeys T -> Hdepths T -> In a (attrs T) -> exists anc, get_obj T (a_depth a) (a_lidx a) = Some (a, anc).
Proof.
  intros HK HD Ha. unfold get_obj. rewrite (HD a Ha). unfold lookup.
  destruct (find (fun p => key_eqb (akey (fst p)) (a_depth a, a_lidx a)) (table T)) as [[a' anc]|] eqn:Ef.
  - apply find_some in Ef. destruct Ef as [Hin Hk]. cbn [fst] in Hk. apply key_eqb_eq in Hk.
    assert (Ha' : In a' (attrs T)) by (unfold attrs; apply in_map_iff; exists (a', anc); auto).
    assert (a' = a) by (apply (unique_by_key _ _ _ HK Ha' Ha); exact Hk). subst. eauto.
  - exfalso. unfold attrs in Ha. apply in_map_iff in Ha. destruct Ha as [[a0 anc0] [E Hin]]. cbn [fst] in E. subst a0.
    pose proof (find_none _ _ Ef _ Hin) as Hn. cbn [fst] in Hn. unfold akey in Hn. rewrite key_eqb_refl in Hn. discriminate.
Qed.

Lemma map_eq_combine {A B} (f : A -> B) l1 : forall l2, map f l1 = map f l2 ->
  (forall p, In p (combine l1 l2) -> f (fst p) = f (snd p)) /\ map fst (combine l1 l2) = l1.
Proof.
  induction l1 as [|x r IH]; intros [|y r2] E; cbn [map] in E; try discriminate; [split; [intros p []|reflexivity]|].
  injection E as E1 E2. destruct (IH r2 E2) as [H1 H2]. split.
  - intros p [<-|Hp]; [exact E1|apply H1; exact Hp].
  - cbn. rewrite H2. reflexivity.
Qed.

Lemma node_post_erase a b y : skel_attr a = skel_attr b -> node_post a b y -> erase_attr y = erase_attr b.
Proof.
  intros Hsk (P1 & P2 & P3 & P4 & P5). apply skel_attr_eq in Hsk. destruct Hsk as (Hfix & _ & Hts & _).
  unfold fxp in P1. injection P1 as F1 F2 F3 F4 F5 F6 F7.
  unfold fixed_part in Hfix. injection Hfix as G1 G2 G3 G4 G5.
  apply erase_attr_eq. split; [unfold fixed_part; congruence|]. split; [exact P2|]. split; [|exact P3].
  apply type_attr_nil; [congruence|]. rewrite F3, <- G2. split.
  - destruct (is_numa (a_type a)) eqn:En; [apply P4; reflexivity|reflexivity].
  - unfold type_attr_diff in Hts. destruct (is_numa (a_type a)) eqn:En.
    + assert (is_memcmp_type (a_type a) = false) as -> by (apply is_numa_true in En; rewrite En; reflexivity). reflexivity.
    + destruct (is_memcmp_type (a_type a)); [|reflexivity]. cbn [snd] in Hts. apply negb_false_iff, String.eqb_eq in Hts. congruence.
Qed.

Theorem apply_build A B d :
  Hkeys A -> Hnames A -> Hdepths A -> (0 <= t_nbl A)%Z ->
  diff_build 0 A B = BRet 0 d ->
  exists g, (forall x, fxp (g x) = fxp x) /\
            diff_apply 0 d A = ARet 0 (set_tinfos (t_infos B) (run_eff (EObj g) A)) /\
            erase (tmap g (t_root A)) = erase (t_root B).
Proof.
  intros HK HN HD H0 Hb.
  destruct (build_rc _ _ _ _ Hb) as [[E _]|[_ Htc]]; [discriminate E|].
  unfold diff_build, diff_build_gen in Hb. cbn [N.eqb negb] in Hb. change (diff_trees_gen true) with diff_trees in Hb.
  set (dt := diff_trees (t_root A) (t_root B)) in *.
  destruct (has_tc dt) eqn:Edt; [discriminate Hb|]. destruct (_ || _); [discriminate Hb|].
  pose proof (infos_diff_tc (t_nbl A) 0 (t_infos A) (t_infos B)) as Hti.
  destruct (infos_diff (t_nbl A) 0 (t_infos A) (t_infos B)) as [ti [|]] eqn:Eti; [discriminate Hb|].
  destruct (dists_differ _ _); [discriminate Hb|]. destruct (memattrs_cmp _ _ _) as [[|]|]; try discriminate Hb.
  destruct (negb _); [discriminate Hb|]. injection Hb as <-.
  cbn [snd] in Hti. pose proof (proj1 Hti eq_refl) as Hnames_t.
  assert (Eti' : ti = map (pentry (t_nbl A) 0) (ipatches (t_infos A) (t_infos B))).
  { rewrite <- (infos_diff_patches _ _ _ _ Hnames_t), Eti. reflexivity. }
  pose proof (proj1 (diff_trees_tc_iff _ _) Edt) as Hsk. unfold skel in Hsk.
  unfold dt. rewrite (diff_trees_flat _ _ Edt).
  set (ps := combine (oattrs (t_root A)) (oattrs (t_root B))).
  assert (Hmap : map skel_attr (oattrs (t_root A)) = map skel_attr (oattrs (t_root B))).
  { rewrite <- !oattrs_tmap_any, Hsk. reflexivity. }
  destruct (map_eq_combine skel_attr _ _ Hmap) as [Hps Hfst]. fold ps in Hps, Hfst.
  assert (Hin_l : forall p, In p ps -> In (fst p) (attrs A)).
  { intros p Hp. rewrite attrs_oattrs, <- Hfst. apply in_map. exact Hp. }
  destruct (pairs_apply ps A) as (g & Fg & Dg & Ag & Pg).
  { replace (map (fun p => akey (fst p)) ps) with (map akey (map fst ps)) by (rewrite map_map; reflexivity).
    rewrite Hfst. exact HK. }
  { intros p Hp. split; [apply Hps; exact Hp|]. split.
    - apply str_nodup_NoDup. apply (proj1 HN). apply Hin_l. exact Hp.
    - destruct (get_obj_self A (fst p) HK HD (Hin_l p Hp)) as [anc Hg]. exists (fst p), anc. split; [exact Hg|split; reflexivity]. }
  exists g. split; [exact Fg|]. split.
  - apply diff_apply_0_seq. rewrite (apply_seq_app _ _ _ _ _ Ag). rewrite Eti'.
    replace (t_nbl A) with (t_nbl (run_eff (EObj g) A)) by (destruct A; reflexivity).
    apply tinfo_patches_apply; [destruct A; exact H0|].
    replace (t_infos (run_eff (EObj g) A)) with (t_infos A) by (destruct A; reflexivity).
    apply (run_patches_ok (t_infos A) (t_infos B) [] Hnames_t). apply str_nodup_NoDup. exact (proj2 HN).
  - unfold erase. rewrite tmap_tmap. apply (tmap_pairwise skel_attr); [exact Hsk|]. fold ps.
    apply Forall_forall. intros p Hp. apply (node_post_erase (fst p)); [apply Hps; exact Hp|].
    destruct (get_obj_self A (fst p) HK HD (Hin_l p Hp)) as [anc Hg]. exact (Pg p Hp _ _ Hg).
Qed.

(* the patched topology is indistinguishable from B for hwloc_topology_diff_build *)
Theorem apply_build_then_build A B d :
  Hkeys A -> Hnames A -> Hdepths A -> (0 <= t_nbl A)%Z ->
  diff_build 0 A B = BRet 0 d ->
  exists A', diff_apply 0 d A = ARet 0 A' /\ diff_build 0 A' B = BRet 0 [] /\
             erase (t_root A') = erase (t_root B) /\ t_infos A' = t_infos B /\
             map fxp (attrs A') = map fxp (attrs A).
Proof.
  intros HK HN HD H0 Hb. destruct (apply_build A B d HK HN HD H0 Hb) as (g & Fg & Ha & He).
  exists (set_tinfos (t_infos B) (run_eff (EObj g) A)). split; [exact Ha|].
  assert (Hex : expressible A B) by (apply (proj2 (build_toocomplex_iff' A B)); eauto).
  destruct Hex as (_ & _ & Htop).
  assert (Hroot : t_root (set_tinfos (t_infos B) (run_eff (EObj g) A)) = tmap g (t_root A)) by (destruct A; reflexivity).
  split; [|split; [|split]].
  - apply build_zero_iff. rewrite Hroot. split; [exact He|]. split; [destruct A; reflexivity|].
    destruct A; exact Htop.
  - rewrite Hroot. exact He.
  - destruct A; reflexivity.
  - unfold attrs, table. rewrite Hroot. fold (oattrs (tmap g (t_root A))). rewrite oattrs_tmap_any, map_map.
    apply map_ext. exact Fg.
Qed.

(* ------------------------------------------------------------------ *)
(* total_memory stays the sum of the local memories below               *)

Definition Htmem (T : topo) : Prop :=
  forall p, In p (table T) -> a_tmem (fst p) = derived_tmem (akey (fst p)) (table T).
Lemma tmem_consistent_Htmem T : tmem_consistent T = true <-> Htmem T.
Proof.
  unfold tmem_consistent, Htmem. rewrite forallb_forall. split; intros H p Hp; specialize (H p Hp).
  - apply N.eqb_eq in H. exact H.
  - apply N.eqb_eq. exact H.
Qed.

Definition contributes (k : key) (p : oattr * list key) : bool :=
  is_numa (a_type (fst p)) && mem_key k (akey (fst p) :: snd p).
Lemma derived_cons k p r :
  derived_tmem k (p :: r) = if contributes k p then u64add (a_lmem (fst p)) (derived_tmem k r) else derived_tmem k r.
Proof. reflexivity. Qed.

Lemma u64add_assoc_swap l d v : u64add l (u64add d v) = u64add (u64add l d) v.
Proof.
  unfold u64add. assert (HU : U64 <> 0%N) by (unfold U64; discriminate).
  rewrite N.add_mod_idemp_r, N.add_mod_idemp_l by exact HU. f_equal. lia.
Qed.
Lemma u64_replace o n d : o < U64 -> u64add n d = u64add (u64add o d) (u64sub n o).
Proof.
  intros Ho. unfold u64add, u64sub. assert (HU : U64 <> 0%N) by (unfold U64; discriminate).
  rewrite (N.mod_small o) by exact Ho.
  rewrite N.add_mod_idemp_l, N.add_mod_idemp_r by exact HU.
  replace (o + d + (n + (U64 - o))) with (n + d + 1 * U64) by lia.
  rewrite N.mod_add by exact HU. reflexivity.
Qed.

(* an update that leaves key, type and local memory alone does not change the derived sums *)
Lemma derived_map_same f k tbl :
  (forall a, akey (f a) = akey a /\ a_type (f a) = a_type a /\ a_lmem (f a) = a_lmem a) ->
  derived_tmem k (map (fun p => (f (fst p), snd p)) tbl) = derived_tmem k tbl.
Proof.
  intros Hf. induction tbl as [|p r IH]; [reflexivity|]. cbn [map]. rewrite !derived_cons, IH.
  unfold contributes. cbn [fst snd]. destruct (Hf (fst p)) as (-> & -> & ->). reflexivity.
Qed.

Lemma derived_no_key k ka n vd chain r :
  (forall q, In q r -> akey (fst q) <> ka) ->
  derived_tmem k (map (fun q => (size_upd ka chain n vd (fst q), snd q)) r) = derived_tmem k r.
Proof.
  induction r as [|q r' IH]; intros H; [reflexivity|]. cbn [map]. rewrite !derived_cons.
  assert (Hc' : contributes k (size_upd ka chain n vd (fst q), snd q) = contributes k q).
  { unfold contributes. cbn [fst snd]. rewrite size_upd_kp, size_upd_eq. reflexivity. }
  rewrite Hc', size_upd_eq. cbn [fst a_lmem set_tmem set_lmem].
  rewrite (key_neq_eqb _ _ (fun E => H q (or_introl eq_refl) (eq_sym E))).
  rewrite IH; [reflexivity|]. intros q' Hq'. apply H. right. exact Hq'.
Qed.

Lemma derived_update k ka n vd chain tbl : NoDup (map (fun p => akey (fst p)) tbl) ->
  forall a anc, In (a, anc) tbl -> akey a = ka -> is_numa (a_type a) = true -> a_lmem a < U64 ->
  derived_tmem k (map (fun p => (size_upd ka chain n vd (fst p), snd p)) tbl) =
  if mem_key k (ka :: anc) then u64add (derived_tmem k tbl) (u64sub n (a_lmem a)) else derived_tmem k tbl.
Proof.
  induction tbl as [|p r IH]; intros Hnd a anc Hin Hk Hnu Hl; [contradiction|].
  cbn [map] in *. inversion Hnd as [|? ? Hp Hr]; subst. rewrite !derived_cons.
  assert (Hc : contributes k (size_upd (akey a) chain n vd (fst p), snd p) = contributes k p).
  { unfold contributes. cbn [fst snd]. rewrite size_upd_kp, size_upd_eq. reflexivity. }
  rewrite Hc. rewrite size_upd_eq. cbn [fst a_lmem set_tmem set_lmem].
  destruct Hin as [->|Hin].
  - (* the patched node: nothing else carries its key *)
    cbn [fst snd] in *. rewrite key_eqb_refl.
    assert (Hrest : derived_tmem k (map (fun q => (size_upd (akey a) chain n vd (fst q), snd q)) r) = derived_tmem k r).
    { apply derived_no_key. intros q Hq E. apply Hp. rewrite <- E. apply in_map_iff. exists q. auto. }
    rewrite Hrest. unfold contributes. cbn [fst snd]. rewrite Hnu. cbn [andb].
    destruct (mem_key k (akey a :: anc)); [|reflexivity]. apply u64_replace. exact Hl.
  - assert (Hq : akey (fst p) <> akey a).
    { intros E. apply Hp. rewrite E. apply in_map_iff. exists (a, anc). auto. }
    rewrite (key_neq_eqb _ _ (fun E => Hq (eq_sym E))).
    rewrite (IH Hr a anc Hin eq_refl Hnu Hl).
    destruct (contributes k p), (mem_key k (akey a :: anc)); try reflexivity. apply u64add_assoc_swap.
Qed.

Lemma table_keys_attrs T : map (fun p => akey (fst p)) (table T) = map akey (attrs T).
Proof. unfold attrs. rewrite map_map. reflexivity. Qed.

Theorem step_preserves_tmem b e T T' :
  Hkeys T -> Hu64 T -> Htmem T -> apply_one b e T = Ok T' -> Htmem T'.
Proof.
  intros HK HU HT H.
  destruct e as [d i ad|? ?|?]; [|discriminate H|discriminate H].
  destruct (get_obj T d i) as [[a anc]|] eqn:Eg.
  - apply (apply_obj_iff _ _ _ _ _ _ _ _ Eg) in H. destruct H as [Hg ->].
    unfold Htmem. rewrite run_obj_table by apply eff_fn_kp. intros p' Hp'. apply in_map_iff in Hp'.
    destruct Hp' as [p [<- Hp]]. cbn [fst snd]. rewrite eff_fn_kp.
    destruct ad as [idx ov nv|ov nv|nm ov nv|t].
    + (* SIZE *)
      cbn [guard_ok] in Hg. apply andb_true_iff in Hg. destruct Hg as [Hnu Hl]. apply N.eqb_eq in Hl.
      cbn [eff_fn]. 
      assert (Hin : In (a, anc) (table T)).
      { unfold get_obj in Eg. destruct (depth_addressable _ _); [|discriminate]. apply lookup_some in Eg. tauto. }
      assert (Ha : In a (attrs T)) by (unfold attrs; apply in_map_iff; exists (a, anc); auto).
      rewrite (derived_update _ _ _ _ _ _ (eq_ind_r (fun l => NoDup l) HK (table_keys_attrs T)) a anc Hin eq_refl Hnu (proj1 (HU a Ha))).
      rewrite size_upd_eq. cbn [a_tmem set_tmem set_lmem]. rewrite (HT p Hp). rewrite Hl.
      destruct (mem_key (akey (fst p)) (akey a :: anc)); reflexivity.
    + cbn [eff_fn]. rewrite derived_map_same.
      * rewrite upd_name_eq. cbn [a_tmem set_name]. apply HT. exact Hp.
      * intros x. rewrite upd_name_eq. repeat split.
    + cbn [eff_fn]. rewrite derived_map_same.
      * rewrite upd_infos_eq. cbn [a_tmem set_infos]. apply HT. exact Hp.
      * intros x. rewrite upd_infos_eq. repeat split.
    + discriminate Hg.
  - apply (apply_tinfo_iff _ _ _ _ _ _ Eg) in H. destruct H as [_ (nm & ov & nv & _ & _ & ->)]. exact HT.
Qed.

Definition Inv (T : topo) : Prop := Hkeys T /\ Hnames T /\ Hu64 T /\ Htmem T.

Lemma step_inv b e T T' : Inv T -> entry_u64 e = true -> apply_one b e T = Ok T' -> Inv T'.
Proof.
  intros (HK & HN & HU & HT) He H. destruct (step_preserves _ _ _ _ HK HN HU He H) as (A & B & C).
  split; [exact A|]. split; [exact B|]. split; [exact C|]. exact (step_preserves_tmem _ _ _ _ HK HU HT H).
Qed.
Lemma seq_inv b p : forall T T', Inv T -> forallb entry_u64 p = true -> apply_seq b p T = Some T' -> Inv T'.
Proof.
  induction p as [|e r IH]; intros T T' HI Hp H; cbn [apply_seq] in H; [injection H as <-; exact HI|].
  cbn [forallb] in Hp. apply andb_true_iff in Hp. destruct Hp as [He Hr].
  destruct (apply_one b e T) as [T1| |] eqn:E; try discriminate. eapply IH; [|exact Hr|exact H]. eapply step_inv; eauto.
Qed.
Lemma cancel_inv b l : forall n T T', Inv T -> forallb entry_u64 l = true -> cancel_loop b l n T = Some T' -> Inv T'.
Proof.
  induction l as [|e r IH]; intros n T T' HI Hl H; destruct n; cbn [cancel_loop] in H; try (injection H as <-; exact HI).
  cbn [forallb] in Hl. apply andb_true_iff in Hl. destruct Hl as [He Hr].
  destruct (apply_one (negb b) e T) as [T1| |] eqn:E; try discriminate.
  - eapply IH; [|exact Hr|exact H]. eapply step_inv; eauto.
  - eapply IH; eauto.
Qed.

Lemma forallb_firstn {A} (f : A -> bool) n l : forallb f l = true -> forallb f (firstn n l) = true.
Proof.
  revert l. induction n as [|n IH]; intros [|x r] H; cbn; try reflexivity. cbn in H. apply andb_true_iff in H.
  destruct H as [-> H]. cbn. apply IH. exact H.
Qed.
Lemma forallb_rev {A} (f : A -> bool) l : forallb f l = true -> forallb f (List.rev l) = true.
Proof.
  intros H. apply forallb_forall. intros x Hx. apply in_rev in Hx. rewrite forallb_forall in H. apply H. exact Hx.
Qed.

(* whatever hwloc_topology_diff_apply returns, the hypotheses and the
   total_memory invariant hold afterwards *)
Theorem apply_preserves_invariants flags d T rc T' :
  Inv T -> forallb entry_u64 d = true -> diff_apply flags d T = ARet rc T' -> Inv T'.
Proof.
  intros HI Hd H. unfold diff_apply in H.
  destruct (negb (N.ldiff flags HWLOC_TOPOLOGY_DIFF_APPLY_REVERSE =? 0)%N); [injection H as _ <-; exact HI|].
  set (rev := negb (N.land flags HWLOC_TOPOLOGY_DIFF_APPLY_REVERSE =? 0)%N) in *.
  destruct (apply_loop rev d 0 T) as [T1|n T1|] eqn:El; try discriminate.
  - injection H as _ <-. apply apply_loop_done in El. exact (seq_inv _ _ _ _ HI Hd El).
  - destruct (apply_loop_fail _ _ _ _ _ _ El) as (p & e & r & -> & -> & Hs & _).
    rewrite forallb_app in Hd. apply andb_true_iff in Hd. destruct Hd as [Hp Her].
    assert (HI1 : Inv T1) by exact (seq_inv _ _ _ _ HI Hp Hs).
    destruct (cancel_loop_fixed _ _ _ _) as [T2|] eqn:Ec; [|discriminate].
    injection H as _ <-. unfold cancel_loop_fixed in Ec. eapply cancel_inv; [exact HI1| |exact Ec].
    apply forallb_rev, forallb_firstn. rewrite forallb_app, Hp, Her. reflexivity.
Qed.

(* ------------------------------------------------------------------ *)
(* the list built by diff_build addresses every attribute at most once  *)

Lemma slot_eqb_true a b : slot_eqb a b = true -> a = b.
Proof.
  destruct a, b; cbn [slot_eqb]; try discriminate.
  - intros H. apply key_eqb_eq in H. congruence.
  - intros H. apply key_eqb_eq in H. congruence.
  - intros H. apply andb_true_iff in H. destruct H as [H1 H2]. apply key_eqb_eq in H1. apply String.eqb_eq in H2. congruence.
  - intros H. apply String.eqb_eq in H. congruence.
Qed.
Lemma slot_in_In s l : slot_in s l = true -> In s l.
Proof.
  induction l as [|x r IH]; cbn [slot_in]; [discriminate|]. intros H. apply orb_true_iff in H. destruct H as [H|H].
  - left. apply slot_eqb_true. exact H.
  - right. apply IH. exact H.
Qed.
Lemma NoDup_slot_nodup l : NoDup l -> slot_nodup l = true.
Proof.
  induction 1 as [|x r Hx _ IH]; [reflexivity|]. cbn [slot_nodup]. rewrite IH, andb_true_r. apply negb_true_iff.
  destruct (slot_in x r) eqn:E; [|reflexivity]. apply slot_in_In in E. contradiction.
Qed.

Lemma nodup_app {A} (l1 l2 : list A) : NoDup l1 -> NoDup l2 -> (forall x, In x l1 -> ~ In x l2) -> NoDup (l1 ++ l2).
Proof.
  induction 1 as [|x r Hx _ IH]; intros H2 Hd; [exact H2|]. cbn [app]. constructor.
  - intros Hin. apply in_app_or in Hin. destruct Hin as [Hin|Hin]; [contradiction|]. apply (Hd x); [left; reflexivity|exact Hin].
  - apply IH; [exact H2|]. intros y Hy. apply Hd. right. exact Hy.
Qed.

Definition slot_tag (s : slot) : option key :=
  match s with SName k => Some k | SSize k => Some k | SInfo k _ => Some k | _ => None end.

Lemma nodup_concat_tagged {P} (F : P -> list slot) (kf : P -> key) ps :
  NoDup (map kf ps) -> (forall p, In p ps -> NoDup (F p)) ->
  (forall p s, In p ps -> In s (F p) -> slot_tag s = Some (kf p)) ->
  NoDup (List.concat (map F ps)) /\ (forall s, In s (List.concat (map F ps)) -> exists p, In p ps /\ slot_tag s = Some (kf p)).
Proof.
  induction ps as [|p r IH]; intros Hn HF Ht; [split; [constructor|intros s []]|].
  cbn [map] in Hn. inversion Hn as [|? ? Hp Hr]; subst.
  destruct IH as [I1 I2]; [exact Hr|intros q Hq; apply HF; right; exact Hq|intros q s Hq Hs; apply (Ht q s); [right; exact Hq|exact Hs]|].
  cbn [map List.concat]. split.
  - apply nodup_app; [apply HF; left; reflexivity|exact I1|].
    intros s Hs Hs2. destruct (I2 s Hs2) as (q & Hq & Tq). rewrite (Ht p s (or_introl eq_refl) Hs) in Tq.
    injection Tq as Tq. apply Hp. rewrite Tq. apply in_map. exact Hq.
  - intros s Hs. apply in_app_or in Hs. destruct Hs as [Hs|Hs].
    + exists p. split; [left; reflexivity|apply Ht; [left; reflexivity|exact Hs]].
    + destruct (I2 s Hs) as (q & Hq & Tq). exists q. split; [right; exact Hq|exact Tq].
Qed.

Lemma ipatches_names l1 : forall l2, NoDup (map fst l1) ->
  NoDup (map (fun q => fst (fst q)) (ipatches l1 l2)) /\
  (forall n, In n (map (fun q => fst (fst q)) (ipatches l1 l2)) -> In n (map fst l1)).
Proof.
  induction l1 as [|[n v] r IH]; intros [|[n2 v2] r2] Hn; try (split; [constructor|intros ? []]).
  cbn [map fst] in Hn. inversion Hn as [|? ? Hx Hr]; subst. destruct (IH r2 Hr) as [I1 I2].
  unfold ipatches. cbn [combine flat_map fst snd]. fold (ipatches r r2). destruct (String.eqb v v2); cbn [app map fst].
  - split; [exact I1|]. intros m Hm. right. apply I2. exact Hm.
  - split.
    + constructor; [|exact I1]. intros Hin. apply Hx. apply I2. exact Hin.
    + intros m [<-|Hm]; [left; reflexivity|right; apply I2; exact Hm].
Qed.

(* slots of the entries of one object pair *)
Lemma node_slots nbl a b : (a_depth a =? nbl)%Z = false -> NoDup (map fst (a_infos a)) ->
  NoDup (map (slot_of nbl) (node_diff a b)) /\
  (forall s, In s (map (slot_of nbl) (node_diff a b)) -> slot_tag s = Some (akey a)).
Proof.
  intros Hd Hn. unfold node_diff. rewrite !map_app.
  assert (N1 : forall s, In s (map (slot_of nbl) (fst (name_stage true a b))) -> s = SName (akey a)).
  { unfold name_stage. destruct (_ && _); [intros s []|]. cbn [fst]. unfold name_diff. destruct (ostr_eqb _ _); [intros s []|].
    intros s [<-|[]]. reflexivity. }
  assert (N1d : NoDup (map (slot_of nbl) (fst (name_stage true a b)))).
  { unfold name_stage. destruct (_ && _); [constructor|]. cbn [fst]. unfold name_diff. destruct (ostr_eqb _ _); [constructor|].
    cbn. constructor; [intros []|constructor]. }
  assert (N2 : forall s, In s (map (slot_of nbl) (fst (type_attr_diff a b))) -> s = SSize (akey a)).
  { unfold type_attr_diff. destruct (is_numa _); [|destruct (is_memcmp_type _); intros s []].
    destruct (_ =? _)%N; [intros s []|]. intros s [<-|[]]. reflexivity. }
  assert (N2d : NoDup (map (slot_of nbl) (fst (type_attr_diff a b)))).
  { unfold type_attr_diff. destruct (is_numa _); [|destruct (is_memcmp_type _); constructor].
    destruct (_ =? _)%N; [constructor|]. cbn. constructor; [intros []|constructor]. }
  set (inf := fst (infos_diff (a_depth a) (a_lidx a) (a_infos a) (a_infos b))).
  assert (N3 : NoDup (map (slot_of nbl) inf) /\ forall s, In s (map (slot_of nbl) inf) -> exists n, s = SInfo (akey a) n).
  { unfold inf, infos_diff. destruct (negb _); [split; [constructor|intros s []]|].
    destruct (Nat.eq_dec (List.length (a_infos a)) (List.length (a_infos b))) as [El|El].
    - (* names may differ: the emitted prefix is still a list of patches of distinct names *)
      assert (G : forall l1 l2, NoDup (map fst l1) ->
        NoDup (map (slot_of nbl) (fst (infos_walk (a_depth a) (a_lidx a) l1 l2))) /\
        forall s, In s (map (slot_of nbl) (fst (infos_walk (a_depth a) (a_lidx a) l1 l2))) ->
          exists n, s = SInfo (akey a) n /\ In n (map fst l1)).
      { induction l1 as [|[n1 v1] r1 IH]; intros [|[n2 v2] r2] Hnd; try (split; [constructor|intros s []]).
        cbn [infos_walk]. destruct (negb (String.eqb n1 n2)); [split; [constructor|intros s []]|].
        cbn [map fst] in Hnd. inversion Hnd as [|? ? Hx Hr]; subst. destruct (IH r2 Hr) as [I1 I2].
        destruct (infos_walk (a_depth a) (a_lidx a) r1 r2) as [e tc]. cbn [fst] in *.
        destruct (String.eqb v1 v2); cbn [app map].
        - split; [exact I1|]. intros s Hs. destruct (I2 s Hs) as (n & -> & Hin). exists n. split; [reflexivity|right; exact Hin].
        - cbn [slot_of]. rewrite Hd. split.
          + constructor; [|exact I1]. intros Hin. destruct (I2 _ Hin) as (n & E & Hin'). injection E as <-. contradiction.
          + intros s [<-|Hs]; [exists n1; split; [reflexivity|left; reflexivity]|].
            destruct (I2 s Hs) as (n & -> & Hin). exists n. split; [reflexivity|right; exact Hin]. }
      destruct (G (a_infos a) (a_infos b) Hn) as [G1 G2]. split; [exact G1|].
      intros s Hs. destruct (G2 s Hs) as (n & -> & _). eauto.
    - split; [|intros s Hs]; revert El; intros El.
      + assert (G : forall l1 l2, NoDup (map fst l1) ->
          NoDup (map (slot_of nbl) (fst (infos_walk (a_depth a) (a_lidx a) l1 l2))) /\
          forall s, In s (map (slot_of nbl) (fst (infos_walk (a_depth a) (a_lidx a) l1 l2))) ->
            exists n, s = SInfo (akey a) n /\ In n (map fst l1)).
        { induction l1 as [|[n1 v1] r1 IH]; intros [|[n2 v2] r2] Hnd; try (split; [constructor|intros s []]).
          cbn [infos_walk]. destruct (negb (String.eqb n1 n2)); [split; [constructor|intros s []]|].
          cbn [map fst] in Hnd. inversion Hnd as [|? ? Hx Hr]; subst. destruct (IH r2 Hr) as [I1 I2].
          destruct (infos_walk (a_depth a) (a_lidx a) r1 r2) as [e tc]. cbn [fst] in *.
          destruct (String.eqb v1 v2); cbn [app map].
          - split; [exact I1|]. intros s Hs. destruct (I2 s Hs) as (n & -> & Hin). exists n. split; [reflexivity|right; exact Hin].
          - cbn [slot_of]. rewrite Hd. split.
            + constructor; [|exact I1]. intros Hin. destruct (I2 _ Hin) as (n & E & Hin'). injection E as <-. contradiction.
            + intros s [<-|Hs]; [exists n1; split; [reflexivity|left; reflexivity]|].
              destruct (I2 s Hs) as (n & -> & Hin). exists n. split; [reflexivity|right; exact Hin]. }
        exact (proj1 (G (a_infos a) (a_infos b) Hn)).
      + assert (G : forall l1 l2, forall s, In s (map (slot_of nbl) (fst (infos_walk (a_depth a) (a_lidx a) l1 l2))) ->
            exists n, s = SInfo (akey a) n).
        { induction l1 as [|[n1 v1] r1 IH]; intros [|[n2 v2] r2] s0 Hs0; try contradiction.
          cbn [infos_walk] in Hs0. destruct (negb (String.eqb n1 n2)); [contradiction|].
          specialize (IH r2). destruct (infos_walk (a_depth a) (a_lidx a) r1 r2) as [e tc]. cbn [fst] in *.
          destruct (String.eqb v1 v2); cbn [app map] in Hs0; [apply IH; exact Hs0|].
          destruct Hs0 as [<-|Hs0]; [cbn [slot_of]; rewrite Hd; eauto|apply IH; exact Hs0]. }
        exact (G _ _ s Hs). }
  destruct N3 as [N3d N3].
  split.
  - apply nodup_app; [exact N1d|apply nodup_app; [exact N2d|exact N3d|]|].
    + intros s Hs Hs3. rewrite (N2 s Hs) in Hs3. destruct (N3 _ Hs3) as [n E]. discriminate E.
    + intros s Hs Hs23. rewrite (N1 s Hs) in Hs23. apply in_app_or in Hs23. destruct Hs23 as [H|H].
      * apply N2 in H. discriminate H.
      * destruct (N3 _ H) as [n E]. discriminate E.
  - intros s Hs. apply in_app_or in Hs. destruct Hs as [H|H]; [rewrite (N1 s H); reflexivity|].
    apply in_app_or in H. destruct H as [H|H]; [rewrite (N2 s H); reflexivity|].
    destruct (N3 s H) as [n ->]. reflexivity.
Qed.

Lemma build_decompose A B d : diff_build 0 A B = BRet 0 d ->
  skel (t_root A) = skel (t_root B) /\ map fst (t_infos A) = map fst (t_infos B) /\
  d = List.concat (map nd (combine (oattrs (t_root A)) (oattrs (t_root B)))) ++
      map (pentry (t_nbl A) 0) (ipatches (t_infos A) (t_infos B)).
Proof.
  intros Hb. unfold diff_build, diff_build_gen in Hb. cbn [N.eqb negb] in Hb. change (diff_trees_gen true) with diff_trees in Hb.
  destruct (has_tc (diff_trees (t_root A) (t_root B))) eqn:Edt; [discriminate Hb|]. destruct (_ || _); [discriminate Hb|].
  pose proof (infos_diff_tc (t_nbl A) 0 (t_infos A) (t_infos B)) as Hti.
  destruct (infos_diff (t_nbl A) 0 (t_infos A) (t_infos B)) as [ti [|]] eqn:Eti; [discriminate Hb|].
  destruct (dists_differ _ _); [discriminate Hb|]. destruct (memattrs_cmp _ _ _) as [[|]|]; try discriminate Hb.
  destruct (negb _); [discriminate Hb|]. injection Hb as <-.
  cbn [snd] in Hti. pose proof (proj1 Hti eq_refl) as Hn. split; [apply diff_trees_tc_iff; exact Edt|]. split; [exact Hn|].
  rewrite (diff_trees_flat _ _ Edt). f_equal. rewrite <- (infos_diff_patches _ _ _ _ Hn), Eti. reflexivity.
Qed.

Lemma depth_addressable_nbl nbl : (0 <= nbl)%Z -> depth_addressable nbl nbl = false.
Proof.
  intros H0. unfold depth_addressable. rewrite Z.ltb_irrefl, andb_false_r. cbn [orb].
  replace (0 <=? HWLOC_TYPE_DEPTH_NUMANODE - nbl)%Z with false; [reflexivity|].
  symmetry. apply Z.leb_gt. unfold HWLOC_TYPE_DEPTH_NUMANODE. lia.
Qed.

Lemma nodup_map_inj {A B} (f : A -> B) l : (forall x y, f x = f y -> x = y) -> NoDup l -> NoDup (map f l).
Proof.
  intros Hf. induction 1 as [|x r Hx _ IH]; [constructor|]. cbn [map]. constructor; [|exact IH].
  intros Hin. apply in_map_iff in Hin. destruct Hin as (y & E & Hy). apply Hf in E. subst. contradiction.
Qed.

Theorem build_slots_distinct A B d :
  Hkeys A -> Hnames A -> Hdepths A -> (0 <= t_nbl A)%Z ->
  diff_build 0 A B = BRet 0 d -> slots_distinct (t_nbl A) d = true.
Proof.
  intros HK HN HD H0 Hb. destruct (build_decompose _ _ _ Hb) as (Hsk & Hnt & ->).
  set (ps := combine (oattrs (t_root A)) (oattrs (t_root B))).
  unfold slots_distinct. apply NoDup_slot_nodup. rewrite map_app, concat_map, map_map.
  assert (Hmap : map skel_attr (oattrs (t_root A)) = map skel_attr (oattrs (t_root B))).
  { rewrite <- !oattrs_tmap_any. unfold skel in Hsk. rewrite Hsk. reflexivity. }
  destruct (map_eq_combine skel_attr _ _ Hmap) as [_ Hfst]. fold ps in Hfst.
  assert (Hin_l : forall p, In p ps -> In (fst p) (attrs A)).
  { intros p Hp. rewrite attrs_oattrs, <- Hfst. apply in_map. exact Hp. }
  assert (Hnode : forall p, In p ps -> NoDup (map (slot_of (t_nbl A)) (nd p)) /\
            forall s, In s (map (slot_of (t_nbl A)) (nd p)) -> slot_tag s = Some (akey (fst p))).
  { intros p Hp. apply node_slots.
    - destruct (a_depth (fst p) =? t_nbl A)%Z eqn:E; [|reflexivity]. apply Z.eqb_eq in E.
      pose proof (HD _ (Hin_l p Hp)) as Hda. rewrite E, depth_addressable_nbl in Hda by exact H0. discriminate.
    - apply str_nodup_NoDup. apply (proj1 HN). apply Hin_l. exact Hp. }
  destruct (nodup_concat_tagged (fun p => map (slot_of (t_nbl A)) (nd p)) (fun p => akey (fst p)) ps) as [C1 C2].
  { replace (map (fun p => akey (fst p)) ps) with (map akey (map fst ps)) by (rewrite map_map; reflexivity). rewrite Hfst. exact HK. }
  { intros p Hp. apply Hnode. exact Hp. }
  { intros p s Hp Hs. apply (proj2 (Hnode p Hp)). exact Hs. }
  destruct (ipatches_names (t_infos A) (t_infos B)) as [I1 _]; [apply str_nodup_NoDup; exact (proj2 HN)|].
  assert (Hti : map (slot_of (t_nbl A)) (map (pentry (t_nbl A) 0) (ipatches (t_infos A) (t_infos B))) =
                map STInfo (map (fun q => fst (fst q)) (ipatches (t_infos A) (t_infos B)))).
  { rewrite !map_map. apply map_ext. intros q. cbn [pentry slot_of]. rewrite Z.eqb_refl. reflexivity. }
  rewrite Hti. apply nodup_app; [exact C1| |].
  - apply nodup_map_inj; [intros x y E; injection E; auto|exact I1].
  - intros s Hs Hs2. destruct (C2 s Hs) as (p & _ & Tp). apply in_map_iff in Hs2. destruct Hs2 as (n & <- & _). discriminate Tp.
Qed.

Lemma build_entries_u64 A B d :
  Hu64 A -> (forall b, In b (oattrs (t_root B)) -> a_lmem b < U64) ->
  diff_build 0 A B = BRet 0 d -> forallb entry_u64 d = true.
Proof.
  intros HA HB Hb. destruct (build_decompose _ _ _ Hb) as (_ & _ & ->).
  rewrite forallb_app. apply andb_true_iff. split.
  - apply forallb_forall. intros e He. apply in_concat in He. destruct He as (l & Hl & He).
    apply in_map_iff in Hl. destruct Hl as ([pa pb] & <- & Hp).
    pose proof (in_combine_l _ _ _ _ Hp) as Ha. pose proof (in_combine_r _ _ _ _ Hp) as Hbb.
    set (p := (pa, pb)) in *.
    unfold nd, node_diff in He. apply in_app_or in He. destruct He as [He|He].
    + unfold name_stage in He. destruct (_ && _); [contradiction|]. cbn [fst] in He. unfold name_diff in He.
      destruct (ostr_eqb _ _); [contradiction|]. destruct He as [<-|[]]. reflexivity.
    + apply in_app_or in He. destruct He as [He|He].
      * unfold type_attr_diff in He. destruct (is_numa _); [|destruct (is_memcmp_type _); contradiction].
        destruct (_ =? _)%N; [contradiction|]. destruct He as [<-|[]]. cbn [entry_u64].
        apply andb_true_iff. split; apply N.ltb_lt; [apply (HA pa); exact Ha|apply HB; exact Hbb].
      * unfold infos_diff in He. destruct (negb _); [contradiction|].
        assert (G : forall l1 l2 e0, In e0 (fst (infos_walk (a_depth (fst p)) (a_lidx (fst p)) l1 l2)) -> entry_u64 e0 = true).
        { induction l1 as [|[n1 v1] r1 IH]; intros [|[n2 v2] r2] e0 H0; try contradiction.
          cbn [infos_walk] in H0. destruct (negb (String.eqb n1 n2)); [contradiction|]. specialize (IH r2).
          destruct (infos_walk _ _ r1 r2) as [e' tc]. cbn [fst] in *. apply in_app_or in H0. destruct H0 as [H0|H0]; [|apply IH; exact H0].
          destruct (String.eqb v1 v2); [contradiction|]. destruct H0 as [<-|[]]. reflexivity. }
        exact (G _ _ _ He).
  - apply forallb_forall. intros e He. apply in_map_iff in He. destruct He as (q & <- & _). reflexivity.
Qed.

(* build, apply, apply in reverse: back to A *)
Theorem build_apply_reverse A B d :
  Hkeys A -> Hnames A -> Hdepths A -> Hu64 A -> (0 <= t_nbl A)%Z ->
  (forall b, In b (oattrs (t_root B)) -> a_lmem b < U64) ->
  diff_build 0 A B = BRet 0 d ->
  exists A', diff_apply 0 d A = ARet 0 A' /\ diff_build 0 A' B = BRet 0 [] /\
             diff_apply HWLOC_TOPOLOGY_DIFF_APPLY_REVERSE d A' = ARet 0 A.
Proof.
  intros HK HN HD HU H0 HB Hb.
  destruct (apply_build_then_build A B d HK HN HD H0 Hb) as (A' & Ha & Hr & _).
  exists A'. split; [exact Ha|]. split; [exact Hr|].
  apply (proj1 (reverse_restores_distinct d A A' HK HN HU H0 (build_entries_u64 _ _ _ HU HB Hb)
                  (build_slots_distinct _ _ _ HK HN HD H0 Hb))). exact Ha.
Qed.
