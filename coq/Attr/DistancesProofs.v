(* C13 - lemmas about the model of hwloc/distances.c (Attr/Distances.v). *)
From Coq Require Import List NArith ZArith Bool Lia Arith Sorting.Sorted.
From HV Require Import Gen.Tables Attr.Distances.
Import ListNotations.

(* ------------------------------------------------------------------ *)
(* arrays                                                              *)
(* ------------------------------------------------------------------ *)
Lemma upd_length {A} (l : list A) k v : length (upd l k v) = length l.
Proof. revert k; induction l as [|h t IH]; intros [|k]; simpl; auto. Qed.

Lemma nth_upd_same {A} (l : list A) k v d : (k < length l)%nat -> nth k (upd l k v) d = v.
Proof. revert k; induction l as [|h t IH]; intros [|k] H; simpl in *; try lia; auto. apply IH; lia. Qed.

Lemma nth_upd_other {A} (l : list A) k k' v d : k <> k' -> nth k' (upd l k v) d = nth k' l d.
Proof.
  revert k k'; induction l as [|h t IH]; intros [|k] [|k'] H; simpl; auto; try congruence.
Qed.

Lemma skipn_upd {A} (l : list A) k m v : (k < m)%nat -> skipn m (upd l k v) = skipn m l.
Proof.
  revert k m; induction l as [|h t IH]; intros [|k] [|m] H; simpl; auto; try lia. apply IH; lia.
Qed.

Lemma firstn_upd {A} (l : list A) k m v : (m <= k)%nat -> firstn m (upd l k v) = firstn m l.
Proof.
  revert k m; induction l as [|h t IH]; intros [|k] [|m] H; simpl; auto; try lia. f_equal; apply IH; lia.
Qed.

Lemma skipn_nth_cons {A} (l : list A) i d : (i < length l)%nat -> skipn i l = nth i l d :: skipn (S i) l.
Proof.
  revert i; induction l as [|h t IH]; intros [|i] H; simpl in *; try lia; auto. apply IH; lia.
Qed.

(* ------------------------------------------------------------------ *)
(* the abstract in-place compaction machine: the k-th write goes to     *)
(* cell k and copies cell r_k, r_0 < r_1 < ...                          *)
(* ------------------------------------------------------------------ *)
Fixpoint compact {A} (d : A) (reads : list nat) (k : nat) (v : list A) : list A :=
  match reads with
  | [] => v
  | r :: rs => compact d rs (S k) (upd v k (nth r v d))
  end.

Lemma compact_length {A} (d : A) reads k v : length (compact d reads k v) = length v.
Proof. revert k v; induction reads as [|r rs IH]; intros; simpl; auto. rewrite IH, upd_length; auto. Qed.

Lemma compact_below {A} (d : A) reads : forall k v p, (p < k)%nat -> nth p (compact d reads k v) d = nth p v d.
Proof.
  induction reads as [|r rs IH]; intros k v p H; simpl; auto.
  rewrite IH by lia. apply nth_upd_other; lia.
Qed.

Lemma compact_app {A} (d : A) a : forall b k v,
  compact d (a ++ b) k v = compact d b (k + length a) (compact d a k v).
Proof.
  induction a as [|r rs IH]; intros; simpl.
  - rewrite Nat.add_0_r; auto.
  - rewrite IH. f_equal. lia.
Qed.

(* the heart of restrict_inplace_is_submatrix: no read ever sees a cell that an
   earlier write has overwritten *)
Lemma compact_spec {A} (d : A) reads : forall k v,
  StronglySorted lt reads ->
  (forall r, In r reads -> (k <= r /\ r < length v)%nat) ->
  forall n, (n < length reads)%nat -> nth (k + n) (compact d reads k v) d = nth (nth n reads O) v d.
Proof.
  induction reads as [|r rs IH]; intros k v Hs Hb n Hn; simpl in *; [lia|].
  inversion Hs as [|? ? Hs' Hall]; subst.
  assert (Hr : (k <= r /\ r < length v)%nat) by (apply Hb; auto).
  destruct n as [|n].
  - rewrite Nat.add_0_r, compact_below by lia. apply nth_upd_same; lia.
  - replace (k + S n)%nat with (S k + n)%nat by lia.
    rewrite IH; auto; try lia.
    + apply nth_upd_other. assert (In (nth n rs O) rs) by (apply nth_In; lia).
      rewrite Forall_forall in Hall. specialize (Hall _ H). lia.
    + intros r' Hr'. rewrite upd_length. rewrite Forall_forall in Hall. specialize (Hall _ Hr').
      destruct (Hb r'); auto. lia.
Qed.

Lemma firstn_nth_map {A B} (d : A) (e : B) (f : B -> A) (l : list A) (rs : list B) :
  (length rs <= length l)%nat ->
  (forall n, (n < length rs)%nat -> nth n l d = f (nth n rs e)) ->
  firstn (length rs) l = map f rs.
Proof.
  revert l; induction rs as [|r rs IH]; intros l Hl H; simpl; auto.
  destruct l as [|x l]; simpl in *; [lia|].
  f_equal.
  - apply (H O); lia.
  - apply IH; [lia|]. intros n Hn. apply (H (S n)); lia.
Qed.

Lemma sorted_lt_length l : forall lo m, (lo <= m)%nat ->
  StronglySorted lt l -> (forall r, In r l -> (lo <= r /\ r < m)%nat) -> (length l + lo <= m)%nat.
Proof.
  induction l as [|r rs IH]; intros lo m Hlo Hs Hb; simpl; [lia|].
  inversion Hs as [|? ? Hs' Hall]; subst.
  assert (Hr := Hb r (or_introl eq_refl)).
  rewrite Forall_forall in Hall.
  assert (H' : (length rs + S r <= m)%nat).
  { apply IH; auto; [lia|]. intros r' Hr'. specialize (Hall _ Hr'). destruct (Hb r' (or_intror Hr')). lia. }
  lia.
Qed.

Lemma compact_firstn {A} (d : A) reads v :
  StronglySorted lt reads -> (forall r, In r reads -> (r < length v)%nat) ->
  firstn (length reads) (compact d reads O v) = map (fun r => nth r v d) reads.
Proof.
  intros Hs Hb.
  assert (Hlen : (length reads <= length v)%nat).
  { assert ((length reads + 0 <= length v)%nat); [|lia].
    apply sorted_lt_length; auto; [lia|]. intros r Hr. split; [lia|auto]. }
  apply firstn_nth_map with (d := d) (e := O).
  - rewrite compact_length; auto.
  - intros n Hn. apply (compact_spec d reads O v Hs); auto.
    intros r Hr; split; [lia|auto].
Qed.

(* ------------------------------------------------------------------ *)
(* surviving positions                                                 *)
(* ------------------------------------------------------------------ *)
Fixpoint sel_from (keep : list bool) (j : nat) : list nat :=
  match keep with
  | [] => []
  | k :: ks => if k then j :: sel_from ks (S j) else sel_from ks (S j)
  end.

Fixpoint pick {A} (keep : list bool) (l : list A) : list A :=
  match keep, l with
  | k :: ks, x :: xs => if k then x :: pick ks xs else pick ks xs
  | _, _ => []
  end.

Lemma sel_from_bounds keep : forall j x, In x (sel_from keep j) -> (j <= x /\ x < j + length keep)%nat.
Proof.
  induction keep as [|k ks IH]; intros j x H; simpl in *; [tauto|].
  destruct k; simpl in H.
  - destruct H as [<-|H]; [lia|]. apply IH in H; lia.
  - apply IH in H; lia.
Qed.

Lemma sel_from_sorted keep : forall j, StronglySorted lt (sel_from keep j).
Proof.
  induction keep as [|k ks IH]; intros j; simpl; [constructor|].
  destruct k; auto. constructor; auto.
  apply Forall_forall. intros x Hx. apply sel_from_bounds in Hx. lia.
Qed.

Lemma sel_from_length keep : forall j, length (sel_from keep j) = countb keep.
Proof. induction keep as [|k ks IH]; intros j; simpl; auto. destruct k; simpl; rewrite IH; auto. Qed.

Lemma pick_sel {A} (d : A) keep : forall j l, (j + length keep <= length l)%nat ->
  map (fun r => nth r l d) (sel_from keep j) = pick keep (skipn j l).
Proof.
  induction keep as [|k ks IH]; intros j l H; simpl in *; auto.
  rewrite (skipn_nth_cons l j d) by lia.
  destruct k; simpl; [f_equal|]; apply IH; lia.
Qed.

(* ------------------------------------------------------------------ *)
(* the C loops are that machine                                        *)
(* ------------------------------------------------------------------ *)
Lemma inner_compact ks : forall nb newnb i newi j newj v,
  restrict_inner ks nb newnb i newi j newj v =
  compact 0%N (map (fun j' => i * nb + j')%nat (sel_from ks j)) (newi * newnb + newj) v.
Proof.
  induction ks as [|k ks IH]; intros; simpl; auto.
  destruct k; simpl; rewrite IH; auto. f_equal. lia.
Qed.

Definition reads_of (sel' sel : list nat) (nb : nat) : list nat :=
  flat_map (fun i' => map (fun j' => i' * nb + j')%nat sel) sel'.

Lemma outer_compact keepall ks : forall nb newnb i newi v,
  length (sel_from keepall O) = newnb ->
  restrict_outer keepall ks nb newnb i newi v =
  compact 0%N (reads_of (sel_from ks i) (sel_from keepall O) nb) (newi * newnb) v.
Proof.
  induction ks as [|k ks IH]; intros nb newnb i newi v Hn; simpl; auto.
  destruct k; simpl.
  - rewrite IH by auto. rewrite inner_compact. unfold reads_of at 2. simpl.
    rewrite compact_app, map_length, Hn.
    replace (newi * newnb + 0)%nat with (newi * newnb)%nat by lia.
    f_equal. lia.
  - apply IH; auto.
Qed.

Lemma SS_app (a b : list nat) :
  StronglySorted lt a -> StronglySorted lt b -> (forall x y, In x a -> In y b -> (x < y)%nat) ->
  StronglySorted lt (a ++ b).
Proof.
  induction a as [|x a IH]; intros Ha Hb H; simpl; auto.
  inversion Ha as [|? ? Ha' Hall]; subst. constructor.
  - apply IH; auto. intros; apply H; simpl; auto.
  - apply Forall_forall. intros y Hy. apply in_app_or in Hy as [Hy|Hy].
    + rewrite Forall_forall in Hall; auto.
    + apply H; simpl; auto.
Qed.

Lemma SS_map_add c (l : list nat) : StronglySorted lt l -> StronglySorted lt (map (fun j => c + j)%nat l).
Proof.
  induction 1 as [|x l Hs IH Hall]; simpl; constructor; auto.
  apply Forall_forall. intros y Hy. apply in_map_iff in Hy as (z & <- & Hz).
  rewrite Forall_forall in Hall. specialize (Hall _ Hz). lia.
Qed.

Lemma reads_sorted sel nb : StronglySorted lt sel -> (forall x, In x sel -> (x < nb)%nat) ->
  forall sel', StronglySorted lt sel' -> StronglySorted lt (reads_of sel' sel nb).
Proof.
  intros Hs Hb sel' Hs'. induction Hs' as [|i sel' Hs' IH Hall]; simpl; [constructor|].
  apply SS_app; auto.
  - apply SS_map_add; auto.
  - intros x y Hx Hy. apply in_map_iff in Hx as (j & <- & Hj).
    unfold reads_of in Hy. apply in_flat_map in Hy as (i' & Hi' & Hy).
    apply in_map_iff in Hy as (j' & <- & Hj').
    rewrite Forall_forall in Hall. specialize (Hall _ Hi'). specialize (Hb _ Hj). nia.
Qed.

Lemma reads_bound sel sel' nb : (forall x, In x sel -> (x < nb)%nat) -> (forall x, In x sel' -> (x < nb)%nat) ->
  forall r, In r (reads_of sel' sel nb) -> (r < nb * nb)%nat.
Proof.
  intros Hb Hb' r Hr. unfold reads_of in Hr. apply in_flat_map in Hr as (i & Hi & Hr).
  apply in_map_iff in Hr as (j & <- & Hj). specialize (Hb _ Hj). specialize (Hb' _ Hi). nia.
Qed.

Lemma reads_length sel sel' nb : length (reads_of sel' sel nb) = (length sel' * length sel)%nat.
Proof. induction sel' as [|i s IH]; simpl; auto. rewrite app_length, map_length, IH. auto. Qed.

(* the sub-matrix of [v] (nb x nb, row major) on rows and columns [sel] *)
Definition submatrix (sel : list nat) (nb : nat) (v : list N) : list N :=
  flat_map (fun i => map (fun j => nth (i * nb + j) v 0%N) sel) sel.

Lemma map_reads {B} (f : nat -> B) sel sel' nb :
  map f (reads_of sel' sel nb) = flat_map (fun i => map (fun j => f (i * nb + j)%nat) sel) sel'.
Proof. induction sel' as [|i s IH]; simpl; auto. rewrite map_app, map_map, IH. auto. Qed.

(* restrict_inplace_is_submatrix *)
Lemma restrict_values_submatrix (keep : list bool) (v : list N) :
  let nb := length keep in
  let sel := sel_from keep O in
  let n' := length sel in
  length v = (nb * nb)%nat ->
  firstn (n' * n') (restrict_values keep nb (nb - n') v) = submatrix sel nb v.
Proof.
  intros nb sel n' Hv. unfold restrict_values.
  assert (Hn' : (n' <= nb)%nat).
  { unfold n', sel. rewrite sel_from_length. clear. induction keep as [|[] k IH]; simpl in *; lia. }
  replace (nb - (nb - n'))%nat with n' by lia.
  rewrite outer_compact by reflexivity. fold sel. simpl.
  assert (Hb : forall x, In x sel -> (x < nb)%nat).
  { intros x Hx. apply sel_from_bounds in Hx. unfold nb. lia. }
  change (n' * n')%nat with (length sel * length sel)%nat.
  rewrite <- (reads_length sel sel nb).
  rewrite compact_firstn.
  - unfold submatrix. apply map_reads.
  - apply reads_sorted; auto; apply sel_from_sorted.
  - intros r Hr. rewrite Hv. eapply reads_bound; eauto.
Qed.

(* second loop *)
Definition sel_objs (n i : nat) (objs : list oref) : list nat :=
  sel_from (map is_some (firstn n (skipn i objs))) i.

Lemma arrays_compact : forall n i newi objs idx dt, (newi <= i)%nat ->
  restrict_arrays n i newi objs idx dt =
  (compact None (sel_objs n i objs) newi objs,
   option_map (compact 0%N (sel_objs n i objs) newi) idx,
   option_map (compact 0%N (sel_objs n i objs) newi) dt).
Proof.
  induction n as [|n IH]; intros i newi objs idx dt Hle.
  - unfold sel_objs. simpl. destruct idx, dt; reflexivity.
  - cbn [restrict_arrays]. unfold sel_objs.
    destruct (Nat.lt_ge_cases i (length objs)) as [Hi|Hi].
    + rewrite (skipn_nth_cons objs i None) by auto.
      destruct (nth i objs None) as [o|] eqn:E.
      * rewrite IH by lia. unfold sel_objs. rewrite skipn_upd by lia.
        cbn [firstn map is_some sel_from compact]. unfold oref in *. rewrite E.
        destruct idx, dt; reflexivity.
      * rewrite IH by lia. unfold sel_objs.
        cbn [firstn map is_some sel_from]. reflexivity.
    + rewrite (nth_overflow objs None Hi).
      rewrite IH by lia. unfold sel_objs.
      rewrite (skipn_all2 objs (n := S i)) by lia. rewrite (skipn_all2 objs (n := i)) by lia.
      destruct n; reflexivity.
Qed.

Lemma compact_pick {A} (d : A) keep l : (length keep <= length l)%nat ->
  firstn (countb keep) (compact d (sel_from keep O) O l) = pick keep l.
Proof.
  intros H. rewrite <- (sel_from_length keep O). rewrite compact_firstn.
  - apply (pick_sel d keep O l). lia.
  - apply sel_from_sorted.
  - intros r Hr. apply sel_from_bounds in Hr. lia.
Qed.

Lemma countb_le keep : (countb keep <= length keep)%nat.
Proof. induction keep as [|[] k IH]; simpl; lia. Qed.

(* hwloc_internal_distances_restrict as a whole: what survives is exactly the
   selected objects / indexes / types and the exact sub-matrix *)
Lemma restrict_all_spec objs idx dt v nb :
  length objs = nb ->
  (forall l, idx = Some l -> length l = nb) -> (forall l, dt = Some l -> length l = nb) ->
  length v = (nb * nb)%nat ->
  let keep := map is_some objs in
  restrict_all objs idx dt v nb (nb - countb keep) =
  (pick keep objs, option_map (pick keep) idx, option_map (pick keep) dt, submatrix (sel_from keep O) nb v).
Proof.
  intros Ho Hi Hd Hv keep. unfold restrict_all. unfold oref in *.
  assert (Hk : length keep = nb) by (unfold keep; rewrite map_length; auto).
  assert (Hc := countb_le keep).
  assert (Hf : firstn nb objs = objs) by (rewrite <- Ho; apply firstn_all).
  unfold oref in *. rewrite Hf. fold keep.
  rewrite arrays_compact by lia. unfold sel_objs. simpl skipn. unfold oref in *.
  rewrite Hf. fold keep.
  replace (nb - (nb - countb keep))%nat with (countb keep) by lia.
  f_equal; [f_equal; [f_equal|]|].
  - apply compact_pick. lia.
  - destruct idx as [l|]; simpl; auto. f_equal. apply compact_pick. rewrite (Hi l); auto. lia.
  - destruct dt as [l|]; simpl; auto. f_equal. apply compact_pick. rewrite (Hd l); auto. lia.
  - assert (H := restrict_values_submatrix keep v). simpl in H.
    rewrite Hk, sel_from_length in H. apply H. auto.
Qed.

Lemma pick_is_some (objs : list oref) : pick (map is_some objs) objs = filter is_some objs.
Proof. induction objs as [|[o|] t IH]; simpl; auto. f_equal; auto. Qed.

Lemma pick_length {A} keep (l : list A) : length keep = length l -> length (pick keep l) = countb keep.
Proof.
  revert l; induction keep as [|k ks IH]; intros [|x l] H; simpl in *; try lia; auto.
  destruct k; simpl; rewrite IH; auto.
Qed.

Lemma submatrix_length sel nb v : length (submatrix sel nb v) = (length sel * length sel)%nat.
Proof.
  unfold submatrix.
  assert (H : forall s, length (flat_map (fun i => map (fun j => nth (i * nb + j) v 0%N) sel) s) = (length s * length sel)%nat).
  { induction s as [|i s IH]; simpl; auto. rewrite app_length, map_length, IH. auto. }
  apply H.
Qed.

(* ------------------------------------------------------------------ *)
(* get: the loop is filter + firstn, *nr is the number of matches       *)
(* ------------------------------------------------------------------ *)
Fixpoint splice {A} (out : list A) (k : nat) (xs : list A) : list A :=
  match xs with
  | [] => out
  | x :: r => splice (if (k <? length out)%nat then upd out k x else out) (S k) r
  end.

Lemma splice_nil {A} (xs : list A) k : splice [] k xs = [].
Proof. revert k; induction xs; intros; simpl; auto. Qed.

Lemma splice_cons_S {A} (xs : list A) : forall o out k, splice (o :: out) (S k) xs = o :: splice out k xs.
Proof.
  induction xs as [|x r IH]; intros; simpl; auto.
  change (S k <? S (length out))%nat with (k <? length out)%nat.
  destruct (k <? length out)%nat; simpl; apply IH.
Qed.

Lemma null_from_0 (out : list (option pdist)) : null_from out O = repeat None (length out).
Proof. induction out; simpl; auto. f_equal; auto. Qed.

Lemma splice_null (out : list (option pdist)) : forall xs,
  null_from (splice out O xs) (length xs) = firstn (length out) xs ++ repeat None (length out - length xs).
Proof.
  induction out as [|o out IH]; intros xs.
  - rewrite splice_nil. simpl. auto.
  - destruct xs as [|x r]; simpl.
    + f_equal. apply null_from_0.
    + rewrite splice_cons_S. simpl. f_equal. apply IH.
Qed.

Definition pub (d : idist) : option pdist := Some (to_public d).

Lemma get_loop_splice name ty kind nrp : forall ds nr out, length out = nrp ->
  get_loop name ty kind nrp ds nr out =
  ((nr + length (filter (matches name ty kind) ds))%nat, splice out nr (map pub (filter (matches name ty kind) ds))).
Proof.
  induction ds as [|d r IH]; intros nr out Hl; simpl.
  - rewrite Nat.add_0_r; auto.
  - destruct (matches name ty kind d); simpl.
    + rewrite IH.
      * rewrite Hl. f_equal. lia.
      * destruct (nr <? nrp)%nat; auto. rewrite upd_length; auto.
    + apply IH; auto.
Qed.

(* dist_nr_convention + dist_get_filter_exact (list form) *)
Lemma get_core_spec t name ty kind garbage :
  let t' := refresh t in
  let ms := filter (matches name ty kind) (t_dists t') in
  get_core t name ty kind 0 garbage =
  (t', Ok (length ms, firstn (length garbage) (map pub ms) ++ repeat None (length garbage - length ms))).
Proof.
  intros t' ms. unfold get_core. simpl. fold t'.
  rewrite get_loop_splice by auto. simpl.
  change (refresh_list (t_objs t) (t_dists t)) with (t_dists t'). fold ms.
  assert (H := splice_null garbage (map pub ms)). rewrite map_length in H. rewrite H. auto.
Qed.

Lemma list_eqb_eq a : forall b, list_eqb a b = true <-> a = b.
Proof.
  induction a as [|x a IH]; intros [|y b]; simpl; split; intros H; try congruence; auto.
  - apply andb_true_iff in H as [H1 H2]. apply N.eqb_eq in H1. apply IH in H2. congruence.
  - inversion H; subst. rewrite N.eqb_refl. simpl. apply IH; auto.
Qed.

(* the declarative filter of the documentation *)
Definition matches_spec (name : option (list N)) (ty kind : N) (d : idist) : Prop :=
  (forall n, name = Some n -> d_name d = Some n) /\
  (ty = TYPE_NONE \/ ty = d_unique d) /\
  (N.land kind HWLOC_DISTANCES_KIND_FROM_ALL = 0%N \/
   N.land (N.land kind HWLOC_DISTANCES_KIND_FROM_ALL) (d_kind d) <> 0%N) /\
  (N.land kind HWLOC_DISTANCES_KIND_VALUE_ALL = 0%N \/
   N.land (N.land kind HWLOC_DISTANCES_KIND_VALUE_ALL) (d_kind d) <> 0%N).

Lemma matches_iff name ty kind d : matches name ty kind d = true <-> matches_spec name ty kind d.
Proof.
  unfold matches, matches_spec.
  destruct name as [n|].
  - destruct (d_name d) as [dn|].
    + destruct (list_eqb n dn) eqn:E; simpl.
      * apply list_eqb_eq in E; subst dn.
        destruct (N.eqb_spec ty TYPE_NONE), (N.eqb_spec ty (d_unique d)),
                 (N.eqb_spec (N.land kind HWLOC_DISTANCES_KIND_FROM_ALL) 0),
                 (N.eqb_spec (N.land (N.land kind HWLOC_DISTANCES_KIND_FROM_ALL) (d_kind d)) 0),
                 (N.eqb_spec (N.land kind HWLOC_DISTANCES_KIND_VALUE_ALL) 0),
                 (N.eqb_spec (N.land (N.land kind HWLOC_DISTANCES_KIND_VALUE_ALL) (d_kind d)) 0);
          simpl; split; intros H; try discriminate; try tauto;
          try (repeat split; intros; try congruence; tauto);
          try (destruct H as (_ & H2 & H3 & H4); destruct H2, H3, H4; congruence).
      * split; [discriminate|]. intros (H & _). specialize (H n eq_refl).
        assert (Hn : list_eqb n dn = true) by (apply list_eqb_eq; congruence). congruence.
    + simpl. split; [discriminate|]. intros (H & _). specialize (H n eq_refl). discriminate.
  - destruct (N.eqb_spec ty TYPE_NONE), (N.eqb_spec ty (d_unique d)),
             (N.eqb_spec (N.land kind HWLOC_DISTANCES_KIND_FROM_ALL) 0),
             (N.eqb_spec (N.land (N.land kind HWLOC_DISTANCES_KIND_FROM_ALL) (d_kind d)) 0),
             (N.eqb_spec (N.land kind HWLOC_DISTANCES_KIND_VALUE_ALL) 0),
             (N.eqb_spec (N.land (N.land kind HWLOC_DISTANCES_KIND_VALUE_ALL) (d_kind d)) 0);
      simpl; split; intros H; try discriminate; try tauto;
      try (repeat split; intros; try congruence; tauto);
      try (destruct H as (_ & H2 & H3 & H4); destruct H2, H3, H4; congruence).
Qed.

(* ------------------------------------------------------------------ *)
(* add: what is committed is what is returned                          *)
(* ------------------------------------------------------------------ *)
(* the usual sequence create / values / commit (what hwloc_distances_add does) *)
Definition add_full_gen (fixn : bool) (t : topo) name kind cflags nb objs values vflags commitflags : topo * res unit :=
  match add_create t name kind cflags with
  | (t1, Ok h) =>
    match add_values_gen fixn h nb objs values vflags with
    | Ok h2 => add_commit t1 h2 commitflags
    | Err e => (t1, Err e)
    end
  | (t1, Err e) => (t1, Err e)
  end.
Definition add_full := add_full_gen FIX_NULL_FIRST.

Definition kind_okb (kind : N) : bool :=
  (N.land kind (N.lxor (N.ones 64) HWLOC_DISTANCES_KIND_ALL) =? 0)%N
  && negb (1 <? weight (N.land kind HWLOC_DISTANCES_KIND_FROM_ALL))%nat
  && negb (1 <? weight (N.land kind HWLOC_DISTANCES_KIND_VALUE_ALL))%nat.
Definition cflags_okb (f : N) : bool := (N.land f (N.lxor (N.ones 64) HWLOC_DISTANCES_ADD_FLAG_ALL) =? 0)%N.

Definition all_same_type (objs : list obj) : bool :=
  match objs with
  | [] => true
  | o0 :: rest => forallb (fun o => (o_type o =? o_type o0)%N) rest
  end.

(* the structure that a valid add must append *)
Definition committed (t : topo) name kind (objs : list obj) (values : list N) : idist :=
  let same := all_same_type objs in
  let ut := if same then type_of_ref (hd None (map Some objs)) else TYPE_NONE in
  IDist name (t_next_id t)
        (if same then kind else N.lor kind HWLOC_DISTANCES_KIND_HETEROGENEOUS_TYPES)
        ut (if same then None else Some (map o_type objs)) (length objs)
        (if use_os_index ut then map o_os objs else map o_gp objs)
        (map Some objs) values true.

Lemma countb_all_some (objs : list obj) : countb (map is_some (map Some objs)) = length objs.
Proof. induction objs; simpl; auto. Qed.

Lemma forallb_is_some (objs : list obj) : forallb is_some (map Some objs) = true.
Proof. induction objs; simpl; auto. Qed.

Lemma forallb_map_some (f : obj -> bool) rest :
  forallb (fun r : option obj => match r with Some o => f o | None => false end) (map Some rest) = forallb f rest.
Proof. induction rest as [|x r IH]; simpl; auto. rewrite IH; auto. Qed.

Lemma firstn_map_some (objs : list obj) : firstn (length objs) (map (@Some obj) objs) = map Some objs.
Proof. rewrite <- (map_length (@Some obj) objs). apply firstn_all. Qed.

Lemma add_full_valid fixn t name kind commitflags (objs : list obj) values :
  kind_okb kind = true -> cflags_okb commitflags = true ->
  (2 <= length objs)%nat ->
  Forall (fun o => o_type o <> TYPE_NONE) objs ->
  add_full_gen fixn t name kind 0 (length objs) (map Some objs) values 0 commitflags =
  (Topo (t_objs t) (t_levels t) (t_dists t ++ [committed t name kind objs values]) (t_next_id t + 1), Ok tt).
Proof.
  intros Hk Hc Hn Hty. unfold add_full_gen, add_create.
  unfold kind_okb in Hk. apply andb_true_iff in Hk as [Hk Hk3]. apply andb_true_iff in Hk as [Hk1 Hk2].
  rewrite Hk1. apply negb_true_iff in Hk2, Hk3. rewrite Hk2, Hk3. simpl.
  unfold backend_add_create. simpl.
  unfold add_values_gen.
  assert (Hsc : forallb is_some (if fixn then firstn (length objs) (map Some objs)
                                 else firstn (length objs - 1) (tl (map Some objs))) = true).
  { destruct fixn.
    - rewrite <- (map_length Some objs), firstn_all. apply forallb_is_some.
    - destruct objs as [|o objs]; simpl; auto.
      rewrite Nat.sub_0_r, <- (map_length Some objs), firstn_all. apply forallb_is_some. }
  cbv zeta. unfold oref in *. rewrite Hsc. simpl.
  assert (Hfa : firstn (length objs) (map (@Some obj) objs) = map Some objs).
  { rewrite <- (map_length (@Some obj) objs). apply firstn_all. }
  unfold backend_add_values. simpl.
  destruct (length objs <? 2)%nat eqn:E; [apply Nat.ltb_lt in E; lia|]. simpl.
  unfold oref in *. rewrite Hfa, countb_all_some.
  rewrite Nat.sub_diag. simpl.
  unfold add_commit. unfold cflags_okb in Hc. rewrite Hc. simpl.
  destruct (length objs =? 0)%nat eqn:E0; [apply Nat.eqb_eq in E0; lia|].
  unfold set_dists. simpl. f_equal. f_equal. f_equal.
  unfold committed.
  destruct objs as [|o0 rest]; [simpl in Hn; lia|].
  assert (Hut : unique_type_of (map Some (o0 :: rest)) = if all_same_type (o0 :: rest) then o_type o0 else TYPE_NONE).
  { simpl. rewrite (forallb_map_some (fun o => (o_type o =? o_type o0)%N)). reflexivity. }
  rewrite Hut. simpl hd. simpl type_of_ref.
  inversion Hty as [|? ? H0 Hr]; subst.
  destruct (all_same_type (o0 :: rest)) eqn:Es.
  - destruct (N.eqb_spec (o_type o0) TYPE_NONE); [congruence|]. simpl.
    f_equal. rewrite !map_map. auto.
  - rewrite N.eqb_refl. simpl. f_equal; rewrite !map_map; auto.
Qed.

Lemma refresh_one_valid tobjs d : d_valid d = true -> refresh_one tobjs d = Some d.
Proof. intros H. unfold refresh_one. rewrite H. auto. Qed.

Lemma refresh_list_app tobjs a b : refresh_list tobjs (a ++ b) = refresh_list tobjs a ++ refresh_list tobjs b.
Proof. induction a as [|d a IH]; simpl; auto. destruct (refresh_one tobjs d); simpl; rewrite IH; auto. Qed.

Lemma refresh_one_id tobjs d d' : refresh_one tobjs d = Some d' ->
  d_id d' = d_id d /\ d_name d' = d_name d /\ d_kind d' = d_kind d /\ d_unique d' = d_unique d /\ d_valid d' = true.
Proof.
  unfold refresh_one. destruct (d_valid d) eqn:V; [intros H; inversion H; subst; auto|].
  destruct (_ <? 2)%nat; [discriminate|].
  destruct (negb _).
  - destruct (restrict_all _ _ _ _ _ _) as [[[o' idx'] dt'] v']. intros H; inversion H; subst; simpl; auto.
  - intros H; inversion H; subst; simpl; auto.
Qed.

Lemma refresh_list_ids tobjs (P : N -> Prop) ds :
  Forall (fun d => P (d_id d)) ds -> Forall (fun d => P (d_id d)) (refresh_list tobjs ds).
Proof.
  induction 1 as [|d ds Hd Hds IH]; simpl; auto.
  destruct (refresh_one tobjs d) as [d'|] eqn:E; auto.
  constructor; auto. apply refresh_one_id in E as (-> & _). auto.
Qed.

Lemma find_app_none {A} (f : A -> bool) a b : find f a = None -> find f (a ++ b) = find f b.
Proof. induction a as [|x a IH]; simpl; auto. destruct (f x); [discriminate|auto]. Qed.

Lemma filter_app' {A} (f : A -> bool) a b : filter f (a ++ b) = filter f a ++ filter f b.
Proof. induction a as [|x a IH]; simpl; auto. destruct (f x); simpl; rewrite IH; auto. Qed.

(* dist_add_get *)
Lemma add_then_get fixn t name kind commitflags (objs : list obj) values garbage :
  kind_okb kind = true -> cflags_okb commitflags = true ->
  (2 <= length objs)%nat -> length values = (length objs * length objs)%nat ->
  Forall (fun o => o_type o <> TYPE_NONE) objs ->
  Forall (fun d => d_id d <> t_next_id t) (t_dists t) ->
  exists t',
    add_full_gen fixn t name kind 0 (length objs) (map Some objs) values 0 commitflags = (t', Ok tt) /\
    let pd := PDist (t_next_id t) (length objs) (map Some objs)
                    (if all_same_type objs then kind else N.lor kind HWLOC_DISTANCES_KIND_HETEROGENEOUS_TYPES) values in
    exists pre,
      get_all t' 0 0 garbage =
      (refresh t', Ok (S (length pre), firstn (length garbage) (pre ++ [Some pd]) ++ repeat None (length garbage - S (length pre))))
      /\ get_name (refresh t') pd = name.
Proof.
  intros Hk Hc Hn Hv Hty Hid.
  eexists. split; [apply add_full_valid; auto|].
  set (d := committed t name kind objs values).
  set (t' := Topo _ _ _ _).
  assert (Hd : d_valid d = true) by reflexivity.
  assert (Hpub : to_public d = PDist (t_next_id t) (length objs) (map Some objs)
                    (if all_same_type objs then kind else N.lor kind HWLOC_DISTANCES_KIND_HETEROGENEOUS_TYPES) values).
  { unfold to_public, d, committed. simpl. rewrite firstn_map_some. rewrite <- Hv, firstn_all.
    destruct (all_same_type objs); reflexivity. }
  assert (Hr : t_dists (refresh t') = refresh_list (t_objs t) (t_dists t) ++ [d]).
  { unfold refresh, t'. cbn [t_dists set_dists t_objs]. rewrite refresh_list_app.
    cbn [refresh_list]. rewrite refresh_one_valid; auto. }
  assert (Hm : matches None TYPE_NONE 0 d = true).
  { unfold matches. rewrite N.eqb_refl. simpl. auto. }
  exists (map pub (filter (matches None TYPE_NONE 0) (refresh_list (t_objs t) (t_dists t)))).
  split.
  - unfold get_all. rewrite get_core_spec. rewrite Hr, filter_app'. cbn [filter]. rewrite Hm.
    rewrite app_length, map_app, map_length. simpl. unfold pub at 2. rewrite Hpub.
    rewrite Nat.add_1_r. auto.
  - unfold get_name, from_public. rewrite Hr. rewrite find_app_none.
    + simpl. rewrite N.eqb_refl. reflexivity.
    + assert (H := refresh_list_ids (t_objs t) (fun i => i <> t_next_id t) _ Hid).
      clear - H. induction H as [|x l Hx Hl IH]; simpl; auto.
      destruct (N.eqb_spec (d_id x) (t_next_id t)); [congruence|auto].
Qed.

(* ------------------------------------------------------------------ *)
(* rejected adds leave the list unchanged                              *)
(* ------------------------------------------------------------------ *)
Lemma add_full_err_unchanged fixn t name kind cflags nb objs values vflags commitflags t' e :
  add_full_gen fixn t name kind cflags nb objs values vflags commitflags = (t', Err e) ->
  t_dists t' = t_dists t /\ t_objs t' = t_objs t.
Proof.
  unfold add_full_gen, add_create, backend_add_create.
  destruct (_ || _ || _); [intros H; inversion H; auto|].
  destruct (negb (cflags =? 0)%N); [intros H; inversion H; auto|].
  destruct (add_values_gen _ _ _ _ _ _); [|intros H; inversion H; auto].
  unfold add_commit.
  destruct (negb _); [intros H; inversion H; auto|].
  destruct (d_nb a =? 0)%nat; [intros H; inversion H; auto|].
  intros H; inversion H.
Qed.

(* every reason the documentation gives for rejecting *)
Definition invalid_add (kind cflags : N) (nb : nat) (objs : list oref) (vflags commitflags : N) : Prop :=
  kind_okb kind = false \/ cflags <> 0%N \/ vflags <> 0%N \/ (nb < 2)%nat \/
  forallb is_some (firstn nb objs) = false \/ cflags_okb commitflags = false.

(* the same, minus the class the current code lets through: NULL only in objs[0] *)
Definition invalid_add_but_null_first (kind cflags : N) (nb : nat) (objs : list oref) (vflags commitflags : N) : Prop :=
  kind_okb kind = false \/ cflags <> 0%N \/ vflags <> 0%N \/ (nb < 2)%nat \/
  forallb is_some (firstn (nb - 1) (tl objs)) = false \/ cflags_okb commitflags = false.

Lemma add_full_rejects_gen (fixn : bool) t name kind cflags nb (objs : list oref) values vflags commitflags :
  kind_okb kind = false \/ cflags <> 0%N \/ vflags <> 0%N \/ (nb < 2)%nat \/
  forallb is_some (if fixn then firstn nb objs else firstn (nb - 1) (tl objs)) = false \/ cflags_okb commitflags = false ->
  exists t' e, add_full_gen fixn t name kind cflags nb objs values vflags commitflags = (t', Err e) /\
               t_dists t' = t_dists t.
Proof.
  intros Hinv.
  destruct (add_full_gen fixn t name kind cflags nb objs values vflags commitflags) as [t' [u|e]] eqn:E.
  - exfalso. revert E. unfold add_full_gen, add_create, backend_add_create.
    destruct Hinv as [H|[H|[H|[H|[H|H]]]]].
    + unfold kind_okb in H. destruct (N.land kind _ =? 0)%N; simpl in *; [|discriminate].
      destruct (1 <? weight (N.land kind HWLOC_DISTANCES_KIND_FROM_ALL))%nat; simpl in *; [discriminate|].
      destruct (1 <? weight (N.land kind HWLOC_DISTANCES_KIND_VALUE_ALL))%nat; simpl in *; discriminate.
    + destruct (_ || _ || _); [discriminate|]. destruct (N.eqb_spec cflags 0); [congruence|]. simpl. discriminate.
    + destruct (_ || _ || _); [discriminate|]. destruct (negb (cflags =? 0)%N); [discriminate|].
      unfold add_values_gen. destruct (negb (forallb _ _)); [discriminate|].
      unfold backend_add_values. simpl. destruct (N.eqb_spec vflags 0); [congruence|]. simpl. discriminate.
    + destruct (_ || _ || _); [discriminate|]. destruct (negb (cflags =? 0)%N); [discriminate|].
      unfold add_values_gen. destruct (negb (forallb _ _)); [discriminate|].
      unfold backend_add_values. simpl. destruct (nb <? 2)%nat eqn:E2; [|apply Nat.ltb_ge in E2; lia].
      rewrite orb_true_r. discriminate.
    + destruct (_ || _ || _); [discriminate|]. destruct (negb (cflags =? 0)%N); [discriminate|].
      unfold add_values_gen. cbv zeta. unfold oref in *. rewrite H. simpl. discriminate.
    + destruct (_ || _ || _); [discriminate|]. destruct (negb (cflags =? 0)%N); [discriminate|].
      destruct (add_values_gen _ _ _ _ _ _); [|discriminate].
      unfold add_commit. unfold cflags_okb in H. rewrite H. simpl. discriminate.
  - exists t', e. split; auto. apply add_full_err_unchanged in E. tauto.
Qed.

(* ------------------------------------------------------------------ *)
(* removals                                                            *)
(* ------------------------------------------------------------------ *)
Lemma remove_first_id_split id ds :
  match find (fun d => (d_id d =? id)%N) ds with
  | None => remove_first_id id ds = ds /\ Forall (fun x => d_id x <> id) ds
  | Some d => exists a b, ds = a ++ d :: b /\ Forall (fun x => d_id x <> id) a /\ d_id d = id /\
                          remove_first_id id ds = a ++ b
  end.
Proof.
  induction ds as [|x ds IH]; simpl; auto.
  destruct (N.eqb_spec (d_id x) id) as [E|E].
  - exists [], ds. simpl. auto.
  - destruct (find _ ds) as [d|].
    + destruct IH as (a & b & -> & Ha & Hd & Hr). exists (x :: a), b. simpl. rewrite Hr. auto.
    + destruct IH as [Hr Hf]. rewrite Hr. auto.
Qed.

Lemma release_remove_exact t p :
  match from_public t (p_id p) with
  | None => release_remove t p = (t, Err EINVAL)
  | Some d => exists a b, t_dists t = a ++ d :: b /\ Forall (fun x => d_id x <> p_id p) a /\ d_id d = p_id p /\
                          release_remove t p = (set_dists t (a ++ b), Ok tt)
  end.
Proof.
  unfold release_remove, from_public. assert (H := remove_first_id_split (p_id p) (t_dists t)).
  destruct (find _ (t_dists t)) as [d|]; auto.
  destruct H as (a & b & H1 & H2 & H3 & H4). exists a, b. rewrite H4. auto.
Qed.

Lemma remove_by_depth_exact t depth :
  let ty := depth_type (t_levels t) depth in
  if (ty =? TYPE_NONE)%N then remove_by_depth t depth = (t, Err EINVAL)
  else exists ds, remove_by_depth t depth = (set_dists t ds, Ok tt) /\
                  ds = filter (fun d => negb (d_unique d =? ty)%N) (t_dists t) /\
                  forall d, In d ds <-> In d (t_dists t) /\ d_unique d <> ty.
Proof.
  intros ty. unfold remove_by_depth. fold ty. destruct (ty =? TYPE_NONE)%N; auto.
  eexists. split; [reflexivity|]. split; auto.
  intros d. rewrite filter_In. destruct (N.eqb_spec (d_unique d) ty); simpl; intuition congruence.
Qed.

(* ------------------------------------------------------------------ *)
(* refresh: the structure follows the objects                          *)
(* ------------------------------------------------------------------ *)
Definition wf_idist (d : idist) : Prop :=
  length (d_indexes d) = d_nb d /\ length (d_values d) = (d_nb d * d_nb d)%nat /\
  (forall l, d_diff d = Some l -> length l = d_nb d).

Lemma lookup_sound tobjs unique dt i idx o :
  lookup tobjs unique dt i idx = Some o ->
  In o tobjs /\
  (if use_os_index unique then o_type o = unique /\ o_os o = (idx mod two32)%N
   else o_type o = match dt with Some l => nth i l TYPE_NONE | None => unique end /\ o_gp o = idx).
Proof.
  unfold lookup, find_by_os, find_by_gp. destruct (use_os_index unique); intros H; apply find_some in H as [Hin H];
    apply andb_true_iff in H as [H1 H2]; apply N.eqb_eq in H1, H2; auto.
Qed.

Lemma lookup_all_length tobjs unique dt : forall idxs i, length (lookup_all tobjs unique dt i idxs) = length idxs.
Proof. induction idxs; intros; simpl; auto. Qed.

Lemma lookup_all_live tobjs unique dt : forall idxs i,
  Forall (fun r => forall o, r = Some o -> In o tobjs) (lookup_all tobjs unique dt i idxs).
Proof.
  induction idxs as [|x r IH]; intros i; simpl; constructor; auto.
  intros o H. apply lookup_sound in H. tauto.
Qed.

Lemma pick_Forall {A} (P : A -> Prop) keep : forall l, Forall P l -> Forall P (pick keep l).
Proof.
  induction keep as [|k ks IH]; intros l H; simpl; auto.
  destruct l as [|x l]; auto. inversion H; subst. destruct k; auto.
Qed.

Lemma pick_some_live tobjs (objs : list oref) :
  Forall (fun r => forall o, r = Some o -> In o tobjs) objs ->
  Forall (fun r => exists o, r = Some o /\ In o tobjs) (pick (map is_some objs) objs).
Proof.
  induction 1 as [|r l Hr Hl IH]; simpl; auto. destruct r as [o|]; simpl; auto.
  constructor; auto. exists o; auto.
Qed.

(* dist_follow_objects, one structure *)
Lemma refresh_one_follow tobjs d :
  d_valid d = false -> wf_idist d ->
  let nb := d_nb d in
  let objs := lookup_all tobjs (d_unique d) (d_diff d) O (d_indexes d) in
  let keep := map is_some objs in
  Forall (fun r => forall o, r = Some o -> In o tobjs) objs /\
  ((countb keep < 2)%nat -> refresh_one tobjs d = None) /\
  (countb keep = nb -> (2 <= nb)%nat ->
     refresh_one tobjs d = Some (IDist (d_name d) (d_id d) (d_kind d) (d_unique d) (d_diff d) nb (d_indexes d) objs (d_values d) true)) /\
  ((2 <= countb keep)%nat -> (countb keep < nb)%nat ->
     refresh_one tobjs d = Some (IDist (d_name d) (d_id d) (d_kind d) (d_unique d) (option_map (pick keep) (d_diff d))
                                       (countb keep) (pick keep (d_indexes d)) (pick keep objs)
                                       (submatrix (sel_from keep O) nb (d_values d)) true)
     /\ Forall (fun r => exists o, r = Some o /\ In o tobjs) (pick keep objs)).
Proof.
  intros Hv (Hi & Hvals & Hd) nb objs keep.
  assert (Hlo : length objs = nb) by (unfold objs; rewrite lookup_all_length; auto).
  assert (Hfi : firstn nb (d_indexes d) = d_indexes d) by (unfold nb; rewrite <- Hi; apply firstn_all).
  assert (Hle := countb_le keep). assert (Hlk : length keep = nb) by (unfold keep; rewrite map_length; auto).
  split; [apply lookup_all_live|].
  unfold refresh_one. rewrite Hv. fold nb. rewrite Hfi. fold objs. fold keep.
  repeat split.
  - intros Hc. replace (nb - (nb - countb keep))%nat with (countb keep) by lia.
    destruct (countb keep <? 2)%nat eqn:E; auto. apply Nat.ltb_ge in E. lia.
  - intros Hc H2. rewrite Hc, Nat.sub_diag, Nat.sub_0_r.
    destruct (nb <? 2)%nat eqn:E; [apply Nat.ltb_lt in E; lia|]. reflexivity.
  - replace (nb - (nb - countb keep))%nat with (countb keep) by lia.
    destruct (countb keep <? 2)%nat eqn:E; [apply Nat.ltb_lt in E; lia|].
    destruct (nb - countb keep =? 0)%nat eqn:E0; [apply Nat.eqb_eq in E0; lia|]. simpl.
    assert (Hs := restrict_all_spec objs (Some (d_indexes d)) (d_diff d) (d_values d) nb Hlo).
    simpl in Hs. fold keep in Hs. rewrite Hs; auto.
    intros l Hl; inversion Hl; subst; auto.
  - apply pick_some_live. apply lookup_all_live.
Qed.

(* the list level: refresh keeps the order and drops exactly the structures that refresh_one drops *)
Lemma refresh_list_spec tobjs ds :
  refresh_list tobjs ds = flat_map (fun d => match refresh_one tobjs d with Some d' => [d'] | None => [] end) ds.
Proof. induction ds as [|d r IH]; simpl; auto. destruct (refresh_one tobjs d); simpl; rewrite IH; auto. Qed.

Lemma refresh_all_valid tobjs ds : Forall (fun d => d_valid d = true) (refresh_list tobjs ds).
Proof.
  induction ds as [|d r IH]; simpl; auto. destruct (refresh_one tobjs d) eqn:E; auto.
  constructor; auto. apply refresh_one_id in E. tauto.
Qed.

(* dup, then the first get, is refresh on the same indexes / values *)
Lemma dup_one_invalid d : d_valid (dup_one d) = false /\ d_id (dup_one d) = d_id d /\ d_nb (dup_one d) = d_nb d.
Proof. unfold dup_one; simpl; auto. Qed.

Lemma dup_one_wf d : wf_idist d -> wf_idist (dup_one d) /\ d_indexes (dup_one d) = d_indexes d /\ d_values (dup_one d) = d_values d.
Proof.
  intros (Hi & Hv & Hd). unfold wf_idist, dup_one. simpl.
  assert (H1 : firstn (d_nb d) (d_indexes d) = d_indexes d) by (rewrite <- Hi; apply firstn_all).
  assert (H2 : firstn (d_nb d * d_nb d) (d_values d) = d_values d) by (rewrite <- Hv; apply firstn_all).
  rewrite H1, H2. auto.
Qed.

(* ------------------------------------------------------------------ *)
(* transforms                                                          *)
(* ------------------------------------------------------------------ *)
Definition wf_pdist (p : pdist) : Prop :=
  length (p_objs p) = p_nb p /\ length (p_values p) = (p_nb p * p_nb p)%nat.

Definition hetero_kind (objs : list oref) (kind : N) : N :=
  if (unique_type_of objs =? TYPE_NONE)%N then N.lor kind HWLOC_DISTANCES_KIND_HETEROGENEOUS_TYPES
  else N.land kind (N.lxor (N.ones 64) HWLOC_DISTANCES_KIND_HETEROGENEOUS_TYPES).

Lemma transform_remove_null_spec p :
  wf_pdist p ->
  let keep := map is_some (p_objs p) in
  let c := countb keep in
  ((c < 2)%nat -> transform_remove_null p = (p, Err EINVAL)) /\
  (c = p_nb p -> (2 <= c)%nat -> transform_remove_null p = (p, Ok tt)) /\
  ((2 <= c)%nat -> (c < p_nb p)%nat ->
     transform_remove_null p =
     (PDist (p_id p) c (filter is_some (p_objs p)) (hetero_kind (filter is_some (p_objs p)) (p_kind p))
            (submatrix (sel_from keep O) (p_nb p) (p_values p)), Ok tt)).
Proof.
  intros (Ho & Hv) keep c. unfold transform_remove_null.
  assert (Hf : firstn (p_nb p) (p_objs p) = p_objs p) by (rewrite <- Ho; apply firstn_all).
  rewrite Hf. fold keep. fold c.
  repeat split.
  - intros H. destruct (c <? 2)%nat eqn:E; auto. apply Nat.ltb_ge in E. lia.
  - intros H H2. destruct (c <? 2)%nat eqn:E; [apply Nat.ltb_lt in E; lia|].
    rewrite H, Nat.eqb_refl. auto.
  - intros H2 Hlt. destruct (c <? 2)%nat eqn:E; [apply Nat.ltb_lt in E; lia|].
    destruct (c =? p_nb p)%nat eqn:E1; [apply Nat.eqb_eq in E1; lia|].
    assert (Hs := restrict_all_spec (p_objs p) None None (p_values p) (p_nb p) Ho).
    simpl in Hs. fold keep in Hs. fold c in Hs. rewrite Hs; auto; try discriminate.
    unfold keep. rewrite pick_is_some. unfold set_p, hetero_kind. reflexivity.
Qed.

(* --- MERGE_SWITCH_PORTS: the objects --- *)
(* the objects the documentation promises: every non-port object and the first port *)
Definition merged_objs (objs : list oref) (first : nat) : list oref :=
  map (fun jr => if (first <? fst jr)%nat && is_nvswitch (snd jr) then None else snd jr)
      (combine (seq O (length objs)) objs).

Lemma merge_loop_objs_fixed : forall js nb i objs v j,
  (forall j', In j' js -> (i < j')%nat) ->
  nth j (fst (merge_loop true js nb i objs v)) None =
  if existsb (Nat.eqb j) js && is_nvswitch (nth j objs None) then None else nth j objs None.
Proof.
  induction js as [|j0 js IH]; intros nb i objs v j Hjs; simpl; auto.
  destruct (is_nvswitch (nth j0 objs None)) eqn:E.
  - rewrite IH by (intros; apply Hjs; simpl; auto).
    destruct (Nat.eqb_spec j j0) as [->|Hne]; simpl.
    + rewrite E. destruct (Nat.lt_ge_cases j0 (length objs)) as [Hl|Hl].
      * rewrite nth_upd_same by auto. simpl. rewrite andb_false_r. reflexivity.
      * rewrite nth_overflow in E by auto. discriminate.
    + rewrite nth_upd_other by auto. reflexivity.
  - rewrite IH by (intros; apply Hjs; simpl; auto).
    destruct (Nat.eqb_spec j j0) as [->|Hne]; simpl; auto.
    rewrite E. rewrite !andb_false_r. reflexivity.
Qed.

(* with the patch, a non-port object is never removed *)
Lemma merge_fixed_keeps_nonports js nb i objs v j :
  (forall j', In j' js -> (i < j')%nat) ->
  is_nvswitch (nth j objs None) = false ->
  nth j (fst (merge_loop true js nb i objs v)) None = nth j objs None.
Proof. intros H E. rewrite merge_loop_objs_fixed by auto. unfold oref in *. rewrite E, andb_false_r. auto. Qed.

(* the current code: everything after the first port is nulled *)
Lemma merge_current_drops : forall js nb i objs v j,
  In j js -> (j < length objs)%nat -> nth j (fst (merge_loop false js nb i objs v)) None = None.
Proof.
  unfold oref in *.
  induction js as [|j0 js IH]; intros nb i objs v j Hin Hl; simpl in *; [tauto|].
  destruct (Nat.eq_dec j0 j) as [->|Hne].
  - assert (Hnull : forall js' objs' v', nth j objs' None = None -> nth j (fst (merge_loop false js' nb i objs' v')) None = None).
    { induction js' as [|a js' IH']; intros objs' v' Hn; simpl; auto.
      match goal with |- context [if ?b then _ else _] => destruct b end; apply IH';
        (destruct (Nat.eq_dec a j) as [->|Hd]; [destruct (Nat.lt_ge_cases j (length objs')); [rewrite nth_upd_same by auto; auto| rewrite nth_overflow by (rewrite upd_length; auto); auto] | rewrite nth_upd_other by auto; auto]). }
    match goal with |- context [if ?b then _ else _] => destruct b end; apply Hnull; apply nth_upd_same; auto.
  - destruct Hin as [->|Hin]; [congruence|].
    match goal with |- context [if ?b then _ else _] => destruct b end; apply IH; auto; rewrite upd_length; auto.
Qed.

(* --- get_by_name --- *)
Lemma kind_all_from : N.land HWLOC_DISTANCES_KIND_ALL HWLOC_DISTANCES_KIND_FROM_ALL = HWLOC_DISTANCES_KIND_FROM_ALL.
Proof. vm_compute. reflexivity. Qed.
Lemma kind_all_value : N.land HWLOC_DISTANCES_KIND_ALL HWLOC_DISTANCES_KIND_VALUE_ALL = HWLOC_DISTANCES_KIND_VALUE_ALL.
Proof. vm_compute. reflexivity. Qed.

Definition kind_complete (d : idist) : Prop :=
  N.land HWLOC_DISTANCES_KIND_FROM_ALL (d_kind d) <> 0%N /\ N.land HWLOC_DISTANCES_KIND_VALUE_ALL (d_kind d) <> 0%N.

Lemma by_name_matches name d : kind_complete d ->
  matches name TYPE_NONE HWLOC_DISTANCES_KIND_ALL d = matches name TYPE_NONE 0 d.
Proof.
  intros (Hf & Hv). unfold matches. rewrite kind_all_from, kind_all_value, !N.land_0_l.
  destruct (N.eqb_spec (N.land HWLOC_DISTANCES_KIND_FROM_ALL (d_kind d)) 0); [congruence|].
  destruct (N.eqb_spec (N.land HWLOC_DISTANCES_KIND_VALUE_ALL (d_kind d)) 0); [congruence|].
  rewrite !andb_false_r. rewrite !N.eqb_refl. cbn [negb andb]. reflexivity.
Qed.

Lemma filter_ext_Forall {A} (f g : A -> bool) l : Forall (fun x => f x = g x) l -> filter f l = filter g l.
Proof. induction 1 as [|x l Hx Hl IH]; simpl; auto. rewrite Hx, IH. auto. Qed.

(* name-only semantics: exactly the structures carrying that name *)
Definition name_matches (name : option (list N)) (d : idist) : bool := matches name TYPE_NONE 0 d.

Lemma name_matches_spec n d : name_matches (Some n) d = true <-> d_name d = Some n.
Proof.
  unfold name_matches. rewrite matches_iff. unfold matches_spec. split.
  - intros (H & _). apply H; auto.
  - intros H. repeat split; auto.
    + intros n' Hn'. congruence.
Qed.

(* positions the merge loop does not visit are untouched (both variants) *)
Lemma merge_loop_untouched fixm : forall js nb i (objs : list oref) v j,
  ~ In j js -> nth j (fst (merge_loop fixm js nb i objs v)) None = nth j objs None.
Proof.
  induction js as [|j0 js IH]; intros nb i objs v j Hn; simpl in *; auto.
  assert (j0 <> j /\ ~ In j js) as [Hne Hn'] by tauto.
  match goal with |- context [if ?b then _ else _] => destruct b end.
  - rewrite IH by auto. apply nth_upd_other; auto.
  - rewrite IH by auto. destruct fixm; auto. apply nth_upd_other; auto.
Qed.

(* ------------------------------------------------------------------ *)
(* MERGE_SWITCH_PORTS: the values between non-port objects             *)
(* ------------------------------------------------------------------ *)
Lemma cell_inj nb a b c d : (b < nb)%nat -> (d < nb)%nat -> (a * nb + b = c * nb + d)%nat -> a = c /\ b = d.
Proof.
  intros Hb Hd H.
  destruct (Nat.lt_trichotomy a c) as [L|[E|L]].
  - exfalso. assert ((a + 1) * nb <= c * nb)%nat by (apply Nat.mul_le_mono_r; lia). lia.
  - subst. split; auto. lia.
  - exfalso. assert ((c + 1) * nb <= a * nb)%nat by (apply Nat.mul_le_mono_r; lia). lia.
Qed.

Lemma merge_k_untouched nb i j a b : (i < nb)%nat -> (j < nb)%nat -> (b < nb)%nat ->
  a <> i -> a <> j -> b <> i -> b <> j ->
  forall ks v, (forall k, In k ks -> (k < nb)%nat) ->
  nth (a * nb + b) (merge_k ks nb i j v) 0%N = nth (a * nb + b) v 0%N.
Proof.
  intros Hi Hj Hb Hai Haj Hbi Hbj. induction ks as [|k ks IH]; intros v Hk; simpl; auto.
  assert (Hkn : (k < nb)%nat) by (apply Hk; simpl; auto).
  destruct ((k =? i)%nat || (k =? j)%nat); [apply IH; intros; apply Hk; simpl; auto|].
  rewrite IH by (intros; apply Hk; simpl; auto).
  rewrite !nth_upd_other; auto; intros E; apply cell_inj in E; auto; destruct E; congruence.
Qed.

Lemma merge_port_untouched nb i j a b v : (i < nb)%nat -> (j < nb)%nat -> (b < nb)%nat ->
  a <> i -> a <> j -> b <> i -> b <> j ->
  nth (a * nb + b) (merge_port nb i j v) 0%N = nth (a * nb + b) v 0%N.
Proof.
  intros Hi Hj Hb Hai Haj Hbi Hbj. unfold merge_port.
  rewrite !nth_upd_other; try (intros E; apply cell_inj in E; auto; destruct E; congruence).
  apply merge_k_untouched; auto. intros k Hk. apply in_seq in Hk. lia.
Qed.

(* for both variants of the loop: a cell whose row and column are neither the
   first port nor any port is never written *)
Lemma merge_loop_values_untouched fixm nb i (objs0 : list oref) a b :
  (i < nb)%nat -> (b < nb)%nat -> a <> i -> b <> i ->
  is_nvswitch (nth a objs0 None) = false -> is_nvswitch (nth b objs0 None) = false ->
  forall js (objs : list oref) v,
  (forall j, In j js -> (j < nb)%nat) ->
  (forall j, is_nvswitch (nth j objs None) = true -> is_nvswitch (nth j objs0 None) = true) ->
  nth (a * nb + b) (snd (merge_loop fixm js nb i objs v)) 0%N = nth (a * nb + b) v 0%N.
Proof.
  intros Hi Hb Hai Hbi Pa Pb. unfold oref in *.
  induction js as [|j js IH]; intros objs v Hjs Hinv; simpl; unfold oref in *; auto.
  assert (Hj : (j < nb)%nat) by (apply Hjs; simpl; auto).
  assert (Hinv' : forall j', is_nvswitch (nth j' (upd objs j None) None) = true -> is_nvswitch (nth j' objs0 None) = true).
  { intros j' H. destruct (Nat.eq_dec j j') as [->|Hne].
    - destruct (Nat.lt_ge_cases j' (length objs)).
      + rewrite nth_upd_same in H by auto. discriminate.
      + rewrite nth_overflow in H by (rewrite upd_length; auto). discriminate.
    - rewrite nth_upd_other in H by auto. auto. }
  destruct (is_nvswitch (nth j objs None)) eqn:E.
  - rewrite IH; auto; [|intros; apply Hjs; simpl; auto].
    apply merge_port_untouched; auto; intros ->; apply Hinv in E; congruence.
  - destruct fixm; apply IH; auto; intros; apply Hjs; simpl; auto.
Qed.

(* ------------------------------------------------------------------ *)
(* LINKS                                                               *)
(* ------------------------------------------------------------------ *)
Lemma zero_diag_length n nb v : length (zero_diag n nb v) = length v.
Proof. induction n; simpl; auto. rewrite upd_length; auto. Qed.

Lemma zero_diag_spec nb v a b : (a < nb)%nat -> (b < nb)%nat -> length v = (nb * nb)%nat ->
  forall n, (n <= nb)%nat ->
  nth (a * nb + b) (zero_diag n nb v) 0%N = if (a =? b)%nat && (a <? n)%nat then 0%N else nth (a * nb + b) v 0%N.
Proof.
  intros Ha Hb Hl. induction n as [|n IH]; intros Hn; simpl.
  - rewrite andb_false_r; auto.
  - assert (Hn' : (n < nb)%nat) by lia. specialize (IH (Nat.lt_le_incl _ _ Hn')).
    destruct (Nat.eq_dec a n) as [->|Hne].
    + destruct (Nat.eqb_spec n b) as [<-|Hnb].
      * rewrite nth_upd_same. { rewrite (proj2 (Nat.ltb_lt n (S n))) by lia. reflexivity. }
        rewrite zero_diag_length, Hl. nia.
      * rewrite nth_upd_other by (intros E; apply cell_inj in E; auto; destruct E; congruence).
        rewrite IH. destruct (Nat.eqb_spec n b); [congruence|]. reflexivity.
    + rewrite nth_upd_other by (intros E; apply cell_inj in E; auto; destruct E; congruence).
      rewrite IH. destruct (a =? b)%nat; simpl; auto.
      destruct (a <? n)%nat eqn:E1, (a <? S n)%nat eqn:E2; auto;
        apply Nat.ltb_lt in E1 || apply Nat.ltb_ge in E1; apply Nat.ltb_lt in E2 || apply Nat.ltb_ge in E2; lia.
Qed.

(* the fold that looks for the smallest positive value *)
Lemma smallest_positive_spec v :
  let d := smallest_positive v in
  (d = 0%N -> Forall (fun x => x = 0%N) v) /\
  (d <> 0%N -> In d v /\ Forall (fun x => x = 0%N \/ (d <= x)%N) v).
Proof.
  unfold smallest_positive.
  assert (G : forall l acc,
    let d := fold_left (fun div x => if negb (x =? 0)%N && ((div =? 0)%N || (x <? div)%N) then x else div) l acc in
    (d = 0%N -> acc = 0%N /\ Forall (fun x => x = 0%N) l) /\
    (d <> 0%N -> (d = acc \/ In d l) /\ (acc = 0%N \/ (d <= acc)%N) /\ Forall (fun x => x = 0%N \/ (d <= x)%N) l)).
  { induction l as [|x l IH]; intros acc; simpl.
    - split; [auto|]. intros H. split; auto. split; auto. right. lia.
    - specialize (IH (if negb (x =? 0)%N && ((acc =? 0)%N || (x <? acc)%N) then x else acc)).
      simpl in IH. destruct IH as [IH0 IH1]. split.
      + intros H. destruct (IH0 H) as [Ha Hl].
        destruct (N.eqb_spec x 0); simpl in Ha.
        * subst. auto.
        * destruct (N.eqb_spec acc 0); simpl in Ha; [congruence|].
          destruct (N.ltb_spec x acc); simpl in Ha; congruence.
      + intros H. destruct (IH1 H) as (Hin & Hle & Hall).
        destruct (N.eqb_spec x 0) as [Ex|Ex]; simpl in *.
        * subst x. split; [|split].
          -- destruct Hin; [left|right; right]; auto.
          -- exact Hle.
          -- constructor; [left; reflexivity|auto].
        * destruct (N.eqb_spec acc 0) as [Ea|Ea]; simpl in *.
          -- subst acc. split; [|split].
             ++ destruct Hin; [right; left|right; right]; auto.
             ++ left; auto.
             ++ constructor; [|auto]. right. destruct Hle; [congruence|auto].
          -- destruct (N.ltb_spec x acc) as [Lt|Ge]; simpl in *.
             ++ split; [|split].
                ** destruct Hin; [right; left|right; right]; auto.
                ** right. destruct Hle; [congruence|lia].
                ** constructor; [|auto]. right. destruct Hle; [congruence|auto].
             ++ split; [|split].
                ** destruct Hin; [left|right; right]; auto.
                ** exact Hle.
                ** constructor; [|auto]. right. destruct Hle; [congruence|lia]. }
  destruct (G v 0%N) as [G0 G1]. cbv zeta in G0, G1. cbv zeta. split.
  - intros H. apply G0; auto.
  - intros H. destruct (G1 H) as (Hin & _ & Hall). split; auto. destruct Hin as [Hin|Hin]; [congruence|auto].
Qed.

(* hwloc__distances_transform_links, all cases *)
Lemma transform_links_spec p :
  wf_pdist p ->
  let nb := p_nb p in
  let v0 := zero_diag nb nb (p_values p) in
  let d := smallest_positive v0 in
  (N.land (p_kind p) HWLOC_DISTANCES_KIND_VALUE_BANDWIDTH = 0%N -> transform_links p = (p, Err EINVAL)) /\
  (N.land (p_kind p) HWLOC_DISTANCES_KIND_VALUE_BANDWIDTH <> 0%N ->
     (d = 0%N -> transform_links p = (PDist (p_id p) nb (p_objs p) (p_kind p) v0, Ok tt) /\ Forall (fun x => x = 0%N) v0) /\
     (d <> 0%N -> In d v0 /\ Forall (fun x => x = 0%N \/ (d <= x)%N) v0 /\
        ((exists x, In x v0 /\ (x mod d <> 0)%N) ->
           transform_links p = (PDist (p_id p) nb (p_objs p) (p_kind p) v0, Err ENOENT)) /\
        (Forall (fun x => (x mod d = 0)%N) v0 ->
           transform_links p = (PDist (p_id p) nb (p_objs p) (p_kind p) (map (fun x => (x / d)%N) v0), Ok tt) /\
           Forall (fun x => (x / d * d = x)%N) v0))).
Proof.
  intros (Ho & Hv) nb v0 d. unfold transform_links. fold nb. fold v0.
  assert (Hl : length v0 = (nb * nb)%nat) by (unfold v0; rewrite zero_diag_length; auto).
  assert (Hf : firstn (nb * nb) v0 = v0) by (rewrite <- Hl; apply firstn_all).
  assert (Hs : skipn (nb * nb) v0 = []) by (apply skipn_all2; lia).
  rewrite Hf, Hs. fold d. split.
  - intros H. rewrite H. reflexivity.
  - intros H. destruct (N.eqb_spec (N.land (p_kind p) HWLOC_DISTANCES_KIND_VALUE_BANDWIDTH) 0); [congruence|].
    destruct (smallest_positive_spec v0) as [S0 S1]. fold d in S0, S1. split.
    + intros Hd. rewrite Hd. simpl. split; auto.
    + intros Hd. destruct (S1 Hd) as [Hin Hall]. split; auto. split; auto.
      destruct (N.eqb_spec d 0); [congruence|]. split.
      * intros (x & Hx & Hm).
        destruct (forallb (fun x0 => (x0 mod d =? 0)%N) v0) eqn:E; simpl; auto.
        rewrite forallb_forall in E. specialize (E x Hx). apply N.eqb_eq in E. congruence.
      * intros Hdiv.
        assert (E : forallb (fun x0 => (x0 mod d =? 0)%N) v0 = true).
        { apply forallb_forall. intros x Hx. rewrite Forall_forall in Hdiv. apply N.eqb_eq. auto. }
        rewrite E. simpl. rewrite app_nil_r. split; auto.
        eapply Forall_impl; [|exact Hdiv]. intros x Hx. simpl in Hx.
        assert (Hdm := N.div_mod x d n0). rewrite Hx in Hdm. lia.
Qed.

(* ------------------------------------------------------------------ *)
(* grouping: the matrix check and the minimal distance (accuracy 0)    *)
(* ------------------------------------------------------------------ *)
Lemma check_grouping_matrix_spec nb v :
  check_grouping_matrix nb v = true <->
  forall i j, (i < j)%nat -> (j < nb)%nat ->
    vget v (i * nb + j) = vget v (j * nb + i) /\ (vget v (i * nb + i) < vget v (i * nb + j))%N.
Proof.
  unfold check_grouping_matrix. rewrite forallb_forall. split.
  - intros H i j Hij Hj. assert (Hi : In i (seq 0 nb)) by (apply in_seq; lia).
    specialize (H i Hi). rewrite forallb_forall in H.
    assert (Hjs : In j (seq (S i) (nb - S i))) by (apply in_seq; lia).
    specialize (H j Hjs). apply andb_true_iff in H as [H1 H2].
    apply N.eqb_eq in H1. apply N.ltb_lt in H2. auto.
  - intros H i Hi. apply in_seq in Hi. apply forallb_forall. intros j Hj. apply in_seq in Hj.
    destruct (H i j) as [H1 H2]; try lia. apply andb_true_iff. split; [apply N.eqb_eq|apply N.ltb_lt]; auto.
Qed.

Lemma min_fold_spec (f : nat -> N) (c : nat -> bool) : forall js m0,
  let r := fold_left (fun m j => if c j && (f j <? m)%N then f j else m) js m0 in
  (r <= m0)%N /\ (forall j, In j js -> c j = true -> (r <= f j)%N) /\
  (r = m0 \/ exists j, In j js /\ c j = true /\ r = f j).
Proof.
  induction js as [|j js IH]; intros m0; simpl.
  - split; [lia|]. split; [tauto|auto].
  - specialize (IH (if c j && (f j <? m0)%N then f j else m0)). simpl in IH.
    destruct IH as (I1 & I2 & I3).
    destruct (c j) eqn:Ec; simpl in *.
    + destruct (N.ltb_spec (f j) m0) as [L|G].
      * split; [lia|]. split.
        -- intros j' [<-|Hj'] Hc; auto.
        -- destruct I3 as [->|(j' & Hj' & Hc & ->)]; right; [exists j|exists j']; auto.
      * split; [auto|]. split.
        -- intros j' [<-|Hj'] Hc; auto; lia.
        -- destruct I3 as [->|(j' & Hj' & Hc & ->)]; [left|right; exists j']; auto.
    + split; [auto|]. split.
      * intros j' [<-|Hj'] Hc; auto; congruence.
      * destruct I3 as [->|(j' & Hj' & Hc & ->)]; [left|right; exists j']; auto.
Qed.

(* min_distance is the least off-diagonal value (UINT64_MAX if there is none below it) *)
Lemma min_distance_spec nb v :
  let m := min_distance nb v in
  (forall i j, (i < nb)%nat -> (j < nb)%nat -> i <> j -> (m <= vget v (i * nb + j))%N) /\
  (m = UINT64_MAX \/ exists i j, (i < nb)%nat /\ (j < nb)%nat /\ i <> j /\ m = vget v (i * nb + j)).
Proof.
  unfold min_distance.
  assert (G : forall is m0,
    let r := fold_left (fun m i => fold_left (fun m j =>
        if negb (i =? j)%nat && (vget v (i * nb + j) <? m)%N then vget v (i * nb + j) else m) (seq 0 nb) m) is m0 in
    (r <= m0)%N /\
    (forall i j, In i is -> (j < nb)%nat -> i <> j -> (r <= vget v (i * nb + j))%N) /\
    (r = m0 \/ exists i j, In i is /\ (j < nb)%nat /\ i <> j /\ r = vget v (i * nb + j))).
  { induction is as [|i is IH]; intros m0; simpl.
    - split; [lia|]. split; [tauto|auto].
    - destruct (min_fold_spec (fun j => vget v (i * nb + j)) (fun j => negb (i =? j)%nat) (seq 0 nb) m0) as (J1 & J2 & J3).
      simpl in J1, J2, J3.
      set (m1 := fold_left _ (seq 0 nb) m0) in *.
      specialize (IH m1). simpl in IH. destruct IH as (I1 & I2 & I3).
      split; [lia|]. split.
      + intros i' j [<-|Hi'] Hj Hne.
        * assert (Hle := J2 j). rewrite in_seq in Hle.
          assert (negb (i =? j)%nat = true) by (apply negb_true_iff, Nat.eqb_neq; auto).
          specialize (Hle ltac:(lia) H). lia.
        * apply I2; auto.
      + destruct I3 as [E|(i' & j & Hi' & Hj & Hne & E)].
        * destruct J3 as [E'|(j & Hj & Hc & E')].
          -- left. congruence.
          -- right. exists i, j. apply in_seq in Hj. apply negb_true_iff, Nat.eqb_neq in Hc.
             repeat split; auto; try lia; congruence.
        * right. exists i', j. auto. }
  destruct (G (seq 0 nb) UINT64_MAX) as (_ & G2 & G3). cbv zeta in G2, G3. cbv zeta. split.
  - intros i j Hi Hj Hne. apply G2; auto. apply in_seq; lia.
  - destruct G3 as [E|(i & j & Hi & Hj & Hne & E)]; [left; auto|].
    right. exists i, j. apply in_seq in Hi. repeat split; auto; lia.
Qed.

(* ------------------------------------------------------------------ *)
(* TRANSITIVE_CLOSURE: the in-place loops compute the functional form   *)
(* ------------------------------------------------------------------ *)
Section Closure.
Variable objs : list oref.
Variable nb : nat.
Let sw (k : nat) : bool := is_nvswitch (nth k objs None).
Definition cell (v : list N) (a b : nat) : N := vget v (a * nb + b).
Definition min_sw (sw2j i2sw : N) : N := if (sw2j <? i2sw)%N then sw2j else i2sw.

(* cells in a switch row or a switch column: read by the loops, never written *)
Definition frozen (v0 v : list N) : Prop :=
  forall a b, (a < nb)%nat -> (b < nb)%nat -> sw a = true \/ sw b = true -> cell v a b = cell v0 a b.

Lemma fold_left_ext_in {A B} (f g : A -> B -> A) l : (forall x, In x l -> forall a, f a x = g a x) ->
  forall a, fold_left f l a = fold_left g l a.
Proof.
  induction l as [|x l IH]; intros H a; simpl; auto.
  rewrite H by (simpl; auto). apply IH. intros; apply H; simpl; auto.
Qed.

Lemma bw_sum_col_frozen v0 v j : (j < nb)%nat -> frozen v0 v -> bw_sum_col objs nb j v = bw_sum_col objs nb j v0.
Proof.
  intros Hj Hf. unfold bw_sum_col. apply fold_left_ext_in. intros k Hk acc. apply in_seq in Hk.
  fold (sw k). destruct (sw k) eqn:E; auto. f_equal. apply (Hf k j); auto; lia.
Qed.

Lemma bw_sum_row_frozen v0 v i : (i < nb)%nat -> frozen v0 v -> bw_sum_row objs nb i v = bw_sum_row objs nb i v0.
Proof.
  intros Hi Hf. unfold bw_sum_row. apply fold_left_ext_in. intros k Hk acc. apply in_seq in Hk.
  fold (sw k). destruct (sw k) eqn:E; auto. f_equal. apply (Hf i k); auto; lia.
Qed.

Lemma closure_j_spec v0 i bw : (i < nb)%nat -> sw i = false ->
  forall js v, NoDup js -> (forall j, In j js -> (j < nb)%nat) -> length v = (nb * nb)%nat -> frozen v0 v ->
  let r := closure_j js objs nb i bw v in
  length r = (nb * nb)%nat /\ frozen v0 r /\
  (forall b, In b js -> b <> i -> sw b = false -> cell r i b = add64 (cell v i b) (min_sw (bw_sum_col objs nb b v0) bw)) /\
  (forall a b, (a < nb)%nat -> (b < nb)%nat -> ~ (a = i /\ In b js /\ b <> i /\ sw b = false) -> cell r a b = cell v a b).
Proof.
  intros Hi Hswi. induction js as [|j js IH]; intros v Hnd Hjs Hl Hf; simpl.
  - repeat split; auto. intros b [].
  - inversion Hnd as [|? ? Hnin Hnd']; subst.
    assert (Hj : (j < nb)%nat) by (apply Hjs; simpl; auto).
    assert (Hjs' : forall j', In j' js -> (j' < nb)%nat) by (intros; apply Hjs; simpl; auto).
    fold (sw j).
    destruct (Nat.eqb_spec i j) as [Eij|Nij]; [|destruct (sw j) eqn:Esj]; simpl.
    + subst j. destruct (IH v Hnd' Hjs' Hl Hf) as (R1 & R2 & R3 & R4). repeat split; auto.
      * intros b [<-|Hb] Hne Hs; [congruence|auto].
      * intros a b Ha Hb Hn. apply R4; auto. intros (H1 & H2 & H3 & H4). apply Hn. simpl. tauto.
    + destruct (IH v Hnd' Hjs' Hl Hf) as (R1 & R2 & R3 & R4). repeat split; auto.
      * intros b [<-|Hb] Hne Hs; [congruence|auto].
      * intros a b Ha Hb Hn. apply R4; auto. intros (H1 & H2 & H3 & H4). apply Hn. simpl. tauto.
    + set (v' := upd v (i * nb + j) (add64 (vget v (i * nb + j))
                   (if (bw_sum_col objs nb j v <? bw)%N then bw_sum_col objs nb j v else bw))).
      assert (Hl' : length v' = (nb * nb)%nat) by (unfold v'; rewrite upd_length; auto).
      assert (Hother : forall a b, (b < nb)%nat -> ~ (a = i /\ b = j) -> cell v' a b = cell v a b).
      { intros a b Hb Hn. unfold cell, vget, v'. apply nth_upd_other. intros E. apply cell_inj in E; auto. destruct E; auto. }
      assert (Hf' : frozen v0 v').
      { intros a b Ha Hb Hs. rewrite Hother; auto. intros (-> & ->). destruct Hs; congruence. }
      destruct (IH v' Hnd' Hjs' Hl' Hf') as (R1 & R2 & R3 & R4). repeat split; auto.
      * intros b [<-|Hb] Hne Hs.
        -- rewrite R4; auto; [|intros (_ & H & _); auto].
           unfold cell at 1, vget, v'. rewrite nth_upd_same by (rewrite Hl; nia).
           rewrite (bw_sum_col_frozen v0 v j Hj Hf). reflexivity.
        -- rewrite R3; auto. rewrite Hother; auto. intros (_ & ->). auto.
      * intros a b Ha Hb Hn. rewrite R4; auto.
        -- apply Hother; auto. intros (-> & ->). apply Hn. simpl. auto.
        -- intros (H1 & H2 & H3 & H4). apply Hn. simpl. tauto.
Qed.

(* the value the code adds between two distinct non-switch objects *)
Definition closure_cell (v0 : list N) (a b : nat) : N :=
  add64 (cell v0 a b) (min_sw (bw_sum_col objs nb b v0) (bw_sum_row objs nb a v0)).

Lemma closure_i_spec v0 :
  forall is v, NoDup is -> (forall i, In i is -> (i < nb)%nat) -> length v = (nb * nb)%nat -> frozen v0 v ->
  (forall a b, In a is -> (b < nb)%nat -> cell v a b = cell v0 a b) ->
  let r := closure_i is objs nb v in
  length r = (nb * nb)%nat /\ frozen v0 r /\
  (forall a b, In a is -> (b < nb)%nat -> a <> b -> sw a = false -> sw b = false -> cell r a b = closure_cell v0 a b) /\
  (forall a b, (a < nb)%nat -> (b < nb)%nat -> ~ (In a is /\ a <> b /\ sw a = false /\ sw b = false) -> cell r a b = cell v a b).
Proof.
  induction is as [|i is IH]; intros v Hnd His Hl Hf Horig; simpl.
  - repeat split; auto. intros a b [].
  - inversion Hnd as [|? ? Hnin Hnd']; subst.
    assert (Hi : (i < nb)%nat) by (apply His; simpl; auto).
    assert (His' : forall i', In i' is -> (i' < nb)%nat) by (intros; apply His; simpl; auto).
    fold (sw i). destruct (sw i) eqn:Esi.
    + destruct (IH v Hnd' His' Hl Hf) as (R1 & R2 & R3 & R4); [intros; apply Horig; simpl; auto|].
      repeat split; auto.
      * intros a b [<-|Ha] Hb Hne Hsa Hsb; [congruence|auto].
      * intros a b Ha Hb Hn. apply R4; auto. intros (H1 & H2). apply Hn. simpl. tauto.
    + assert (Hseq : NoDup (seq 0 nb)) by apply seq_NoDup.
      assert (Hsb : forall j, In j (seq 0 nb) -> (j < nb)%nat) by (intros j Hj; apply in_seq in Hj; lia).
      destruct (closure_j_spec v0 i (bw_sum_row objs nb i v) Hi Esi (seq 0 nb) v Hseq Hsb Hl Hf) as (J1 & J2 & J3 & J4).
      set (v' := closure_j (seq 0 nb) objs nb i (bw_sum_row objs nb i v) v) in *.
      assert (Horig' : forall a b, In a is -> (b < nb)%nat -> cell v' a b = cell v0 a b).
      { intros a b Ha Hb. rewrite J4; auto; [apply Horig; simpl; auto|].
        intros (-> & _). auto. }
      destruct (IH v' Hnd' His' J1 J2 Horig') as (R1 & R2 & R3 & R4). repeat split; auto.
      * intros a b [<-|Ha] Hb Hne Hsa Hsb'.
        -- rewrite R4; auto; [|intros (H & _); auto].
           rewrite J3; auto; [|apply in_seq; lia].
           unfold closure_cell. rewrite (bw_sum_row_frozen v0 v i Hi Hf).
           rewrite (Horig i b); simpl; auto.
        -- apply R3; auto.
      * intros a b Ha Hb Hn. rewrite R4; auto.
        -- apply J4; auto. intros (-> & _ & H3 & H4). apply Hn. simpl.
           destruct (sw i) eqn:E; [discriminate|]. auto.
        -- intros (H1 & H2). apply Hn. simpl. tauto.
Qed.

(* hwloc__distances_transform_transitive_closure: every cell *)
Lemma closure_spec v0 : length v0 = (nb * nb)%nat ->
  let r := closure_i (seq 0 nb) objs nb v0 in
  length r = (nb * nb)%nat /\
  forall a b, (a < nb)%nat -> (b < nb)%nat ->
    cell r a b = if negb (a =? b)%nat && negb (sw a) && negb (sw b) then closure_cell v0 a b else cell v0 a b.
Proof.
  intros Hl r.
  destruct (closure_i_spec v0 (seq 0 nb) v0 (seq_NoDup nb 0)) as (R1 & R2 & R3 & R4); auto.
  { intros i Hi. apply in_seq in Hi. lia. }
  { intros a b Ha Hb Hs. reflexivity. }
  split; auto. intros a b Ha Hb.
  destruct (Nat.eqb_spec a b) as [E|E]; simpl.
  - apply R4; auto. intros (_ & H & _). auto.
  - destruct (sw a) eqn:Ea; simpl.
    + apply R4; auto. intros (_ & _ & H & _). congruence.
    + destruct (sw b) eqn:Eb; simpl.
      * apply R4; auto. intros (_ & _ & _ & H). congruence.
      * apply R3; auto. apply in_seq. lia.
Qed.
End Closure.

(* ------------------------------------------------------------------ *)
(* hwloc__find_groups_by_min_distance (accuracy 0): every group is     *)
(* connected through minimal-distance edges (both variants of the scan) *)
(* ------------------------------------------------------------------ *)
From Coq Require Import Relations.Relation_Operators.

Section Groups.
Variable nb : nat.
Variable v : list N.
Variable minv : N.
Variable fixg : bool.

Definition min_edge (j k : nat) : Prop := vget v (j * nb + k) = minv.
Definition min_conn : nat -> nat -> Prop := clos_refl_sym_trans nat min_edge.

Lemma nth_upd_cases {A} (l : list A) a k x d :
  nth a (upd l k x) d = if (a =? k)%nat && (k <? length l)%nat then x else nth a l d.
Proof.
  destruct (Nat.eqb_spec a k) as [->|Hne]; simpl.
  - destruct (Nat.ltb_spec k (length l)).
    + apply nth_upd_same; auto.
    + rewrite !nth_overflow; auto. rewrite upd_length; auto.
  - apply nth_upd_other; auto.
Qed.

(* while group [gid] grows from seed [i] *)
Record growing (gid i : nat) (gids : list nat) (size : nat) : Prop := {
  g_seed : forall a, nth a gids O = gid -> min_conn i a;
  g_other : forall a b, nth a gids O = nth b gids O -> nth a gids O <> O -> nth a gids O <> gid -> min_conn a b;
  g_le : forall a, (nth a gids O <= gid)%nat;
  g_size : (1 <= size)%nat /\ ((forall a, a <> i -> nth a gids O <> gid) \/ (2 <= size)%nat)
}.

Lemma scan_k_growing gid i j : gid <> O ->
  forall ks gids size nff, growing gid i gids size -> nth j gids O = gid ->
  let '(gids', size', _) := scan_k fixg ks nb j v minv gid (gids, size, nff) in
  growing gid i gids' size' /\ nth j gids' O = gid.
Proof.
  intros Hg. induction ks as [|k ks IH]; intros gids size nff G Hj; simpl; auto.
  destruct ((nth k gids O =? 0)%nat && (vget v (j * nb + k) =? minv)%N) eqn:E; [|apply IH; auto].
  apply andb_true_iff in E as [E1 E2]. apply Nat.eqb_eq in E1. apply N.eqb_eq in E2.
  apply IH.
  - destruct G as [G1 G2 G3 G4]. constructor.
    + intros a Ha. rewrite nth_upd_cases in Ha.
      destruct ((a =? k)%nat && (k <? length gids)%nat) eqn:Ek; [|auto].
      apply andb_true_iff in Ek as [Ek _]. apply Nat.eqb_eq in Ek. subst a.
      apply rst_trans with j; [apply G1; auto|apply rst_step; exact E2].
    + intros a b Hab Hn0 Hng. rewrite !nth_upd_cases in *.
      destruct ((a =? k)%nat && (k <? length gids)%nat); [congruence|].
      destruct ((b =? k)%nat && (k <? length gids)%nat); [congruence|]. apply G2; auto.
    + intros a. rewrite nth_upd_cases. destruct (_ && _); auto.
    + split; [lia|]. right. lia.
  - rewrite nth_upd_cases. destruct (_ && _); auto.
Qed.

Lemma scan_j_growing gid i : gid <> O ->
  forall js gids size nff, growing gid i gids size ->
  let '(gids', size', _) := scan_j fixg js nb v minv gid (gids, size, nff) in growing gid i gids' size'.
Proof.
  intros Hg. induction js as [|j js IH]; intros gids size nff G; simpl; auto.
  destruct (Nat.eqb_spec (nth j gids O) gid) as [Ej|Ej]; [|apply IH; auto].
  assert (H := scan_k_growing gid i j Hg (seq 0 nb) gids size nff G Ej).
  destruct (scan_k fixg (seq 0 nb) nb j v minv gid (gids, size, nff)) as [[g' s'] n'].
  destruct H as [H _]. apply IH; auto.
Qed.

Lemma grow_growing gid i : gid <> O ->
  forall fuel ff gids size gids' size', growing gid i gids size ->
  grow fixg fuel nb v minv gid ff gids size = Some (gids', size') -> growing gid i gids' size'.
Proof.
  intros Hg. induction fuel as [|f IH]; intros ff gids size gids' size' G H; simpl in H; [discriminate|].
  assert (S := scan_j_growing gid i Hg (seq ff (nb - ff)) gids size None G).
  destruct (scan_j fixg (seq ff (nb - ff)) nb v minv gid (gids, size, None)) as [[g1 s1] n1].
  destruct n1 as [k|].
  - eapply IH; eauto.
  - inversion H; subst; auto.
Qed.

(* between two seeds *)
Definition grouped (gid : nat) (gids : list nat) : Prop :=
  (forall a b, nth a gids O = nth b gids O -> nth a gids O <> O -> min_conn a b) /\
  (forall a, (nth a gids O < gid)%nat).

Lemma groups_i_grouped : forall is gids gid skipped gids' gid' skipped',
  (1 <= gid)%nat -> grouped gid gids ->
  groups_i fixg is nb v minv (gids, gid, skipped) = Some (gids', gid', skipped') -> grouped gid' gids'.
Proof.
  induction is as [|i is IH]; intros gids gid skipped gids' gid' skipped' Hg1 [P F] H; cbn [groups_i] in H.
  - inversion H; subst. split; auto.
  - destruct (Nat.eqb_spec (nth i gids O) 0) as [E0|E0]; cbn [negb] in H; [|eapply IH; eauto; split; auto].
    assert (Hg : gid <> O) by lia.
    assert (G0 : growing gid i (upd gids i gid) 1).
    { constructor.
      - intros a Ha. rewrite nth_upd_cases in Ha.
        destruct ((a =? i)%nat && (i <? length gids)%nat) eqn:Ek.
        + apply andb_true_iff in Ek as [Ek _]. apply Nat.eqb_eq in Ek. subst. apply rst_refl.
        + specialize (F a). lia.
      - intros a b Hab Hn0 Hng. rewrite !nth_upd_cases in *.
        destruct ((a =? i)%nat && (i <? length gids)%nat); [congruence|].
        destruct ((b =? i)%nat && (i <? length gids)%nat); [congruence|]. apply P; auto.
      - intros a. rewrite nth_upd_cases. destruct (_ && _); auto. specialize (F a). lia.
      - split; [lia|]. left. intros a Ha. rewrite nth_upd_cases.
        destruct (Nat.eqb_spec a i); [congruence|]. simpl. specialize (F a). lia. }
    destruct (grow fixg (S nb) nb v minv gid i (upd gids i gid) 1) as [[g1 s1]|] eqn:Eg; [|discriminate H].
    assert (G := grow_growing gid i Hg _ _ _ _ _ _ G0 Eg). destruct G as [G1 G2 G3 G4].
    destruct (Nat.eqb_spec s1 1) as [Es|Es].
    + (* useless group cancelled *)
      eapply IH; [exact Hg1| |exact H]. subst s1. destruct G4 as [_ [G4|G4]]; [|lia].
      split.
      * intros a b Hab Hn0. rewrite !nth_upd_cases in *.
        destruct ((a =? i)%nat && (i <? length g1)%nat) eqn:Ea; [congruence|].
        destruct ((b =? i)%nat && (i <? length g1)%nat) eqn:Eb; [congruence|].
        destruct (Nat.eq_dec (nth a g1 O) gid) as [Eq|Ne].
        -- apply rst_trans with i; [apply rst_sym, G1; auto|apply G1; congruence].
        -- apply G2; auto.
      * intros a. rewrite nth_upd_cases.
        destruct ((a =? i)%nat && (i <? length g1)%nat) eqn:Ea; [lia|].
        destruct (Nat.eq_dec a i) as [->|Hne].
        -- (* i out of range: its entry reads 0 *)
           rewrite Nat.eqb_refl in Ea. simpl in Ea. apply Nat.ltb_ge in Ea. rewrite nth_overflow by auto. lia.
        -- specialize (G4 a Hne). specialize (G3 a). lia.
    + (* group kept, next id *)
      eapply IH; [|  |exact H]; [lia|]. split.
      * intros a b Hab Hn0.
        destruct (Nat.eq_dec (nth a g1 O) gid) as [Eq|Ne].
        -- apply rst_trans with i; [apply rst_sym, G1; auto|apply G1; congruence].
        -- apply G2; auto.
      * intros a. specialize (G3 a). lia.
Qed.

Lemma nth_repeat_O n a : nth a (repeat O n) O = O.
Proof. revert a; induction n; intros [|a]; simpl; auto. Qed.

End Groups.

(* every group returned is connected by minimal-distance edges *)
Lemma find_groups_sound fixg nb v ng ids :
  find_groups_gen fixg nb v = Some (ng, ids) ->
  forall a b, nth a ids O = nth b ids O -> nth a ids O <> O -> min_conn nb v (min_distance nb v) a b.
Proof.
  unfold find_groups_gen. destruct (min_distance nb v =? UINT64_MAX)%N.
  - intros H; inversion H; subst. intros a b _ Hn. rewrite nth_repeat_O in Hn. congruence.
  - destruct (groups_i fixg (seq 0 nb) nb v (min_distance nb v) (repeat O nb, 1%nat, O)) as [[[g gid] sk]|] eqn:E; [|discriminate].
    assert (G : grouped nb v (min_distance nb v) gid g).
    { eapply groups_i_grouped; [| |exact E]; [lia|]. split.
      - intros a b _ Hn. rewrite nth_repeat_O in Hn. congruence.
      - intros a. rewrite nth_repeat_O. lia. }
    destruct G as [P _].
    destruct ((gid =? 2)%nat && (sk =? 0)%nat); intros H; inversion H; subst; auto.
Qed.
