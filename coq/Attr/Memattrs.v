(* C14 - executable model of hwloc/memattrs.c (memory attributes), following the
   C statement order.  The topology is abstracted to what memattrs.c reads from
   it: the root cpuset and the list of objects (type, gp_index, os_index,
   cpuset, local memory, subtype); NUMA nodes appear in logical order.

   What is abstracted (see also the final report / evidence "trusted"):
   - names are byte lists, bitmaps are BSet values (C03 justifies that);
   - allocation failures are not modelled;
   - the cached object pointers (imtg->obj, initiator.location.object.obj) are
     represented by the gp_index they would point to, plus one bit [i_ok] that
     says whether the cached pointer of an object initiator is initialised:
     hwloc_memattr_set_value() sets it (since fix c37319b), the raw internal
     entry point hwloc_internal_memattr_set_value() copies whatever its caller
     put there (the XML import leaves it indeterminate until the refresh at
     the end of load).  Reading an indeterminate one is reported as [EUB]; the
     invariant shows it cannot happen in histories of the public API. *)
From Coq Require Import List NArith Bool.
From HV Require Import Base.BSet Gen.Tables.
Import ListNotations.
Local Open Scope N_scope.

(* ------------------------------------------------------------------ *)
(* topology *)

Record obj := Obj {
  o_type : N; o_gp : N; o_os : N;
  o_hascpuset : bool;      (* obj->cpuset != NULL *)
  o_cpuset : bset;         (* own cpuset, else that of the nearest ancestor having one *)
  o_mem : N;               (* attr->numanode.local_memory (NUMA nodes) *)
  o_subtype : N            (* 0 = NULL, else an id of the subtype string *)
}.
Record topo := Topo { t_root : bset; t_objs : list obj }.

Definition is_numa (o : obj) : bool := o_type o =? HWLOC_OBJ_NUMANODE.
Definition numa_nodes (t : topo) : list obj := filter is_numa (t_objs t).

(* hwloc_get_obj_by_type_and_gp_index *)
Definition obj_by_type_gp (t : topo) (ty gp : N) : option obj :=
  find (fun o => (o_type o =? ty) && (o_gp o =? gp)) (t_objs t).
(* hwloc_get_numanode_obj_by_os_index / hwloc_get_pu_obj_by_os_index *)
Definition obj_by_type_os (t : topo) (ty os : N) : option obj :=
  find (fun o => (o_type o =? ty) && (o_os o =? os)) (t_objs t).

(* ------------------------------------------------------------------ *)
(* results *)

Inductive errno := EINVAL | EBUSY | ENOENT
  | EUB.   (* not an errno: assertion failure / indeterminate pointer handed to the caller *)
Inductive res (A : Type) := Ok (a : A) | Err (e : errno).
Arguments Ok {A} a.
Arguments Err {A} e.

(* ------------------------------------------------------------------ *)
(* locations *)

(* struct hwloc_location as passed by the caller *)
Inductive location :=
| LCpu (c : option bset)     (* None: NULL cpuset pointer *)
| LObj (o : obj)
| LBad                       (* any other .type value *)
| LObjNull.                  (* type OBJECT with a NULL object pointer *)

(* struct hwloc_internal_location_s *)
Inductive iloc := ICpu (c : bset) | IObj (ty gp : N).

Definition to_internal (l : location) : option iloc :=
  match l with
  | LCpu None => None
  | LCpu (Some c) => if bs_is_empty c then None else Some (ICpu c)
  | LObj o => Some (IObj (o_type o) (o_gp o))
  | LBad => None
  | LObjNull => None
  end.

(* match_internal_location(query, stored) *)
Definition match_iloc (q st : iloc) : bool :=
  match q, st with
  | ICpu c, ICpu s => bs_subset c s
  | IObj t g, IObj t' g' => (t =? t') && (g =? g')
  | _, _ => false
  end.

(* ------------------------------------------------------------------ *)
(* state *)

Record imi := Imi { i_loc : iloc; i_val : N; i_ok : bool }.
Record imtg := Imtg { g_type : N; g_gp : N; g_os : N; g_inits : list imi; g_val : N }.
Record imattr := Imattr { a_name : list N; a_flags : N; a_conv : bool; a_valid : bool; a_tgs : list imtg }.
Record mstate := MS { m_topo : topo; m_attrs : list imattr }.

Definition has (f bit : N) : bool := negb (N.land f bit =? 0).
Definition need_init (a : imattr) : bool := has (a_flags a) HWLOC_MEMATTR_FLAG_NEED_INITIATOR.
Definition higher (a : imattr) : bool := has (a_flags a) HWLOC_MEMATTR_FLAG_HIGHER_FIRST.

Fixpoint bytes_eqb (a b : list N) : bool :=
  match a, b with
  | [], [] => true
  | x :: a', y :: b' => (x =? y) && bytes_eqb a' b'
  | _, _ => false
  end.

(* hwloc_internal_memattrs_prepare, from the regenerated table *)
Definition init_attrs : list imattr :=
  map (fun e => match e with (n, f, i) =>
         Imattr n f (has i MEMATTR_IFLAG_CONVENIENCE) (has i MEMATTR_IFLAG_CACHE_VALID) [] end)
      memattr_predefined.

(* list access by N index, structurally on the list (ids and array sizes given
   by the caller can be as large as 2^64) *)
Fixpoint nth_errN {A} (l : list A) (i : N) : option A :=
  match l with
  | [] => None
  | x :: r => if i =? 0 then Some x else nth_errN r (N.pred i)
  end.
Fixpoint set_nthN {A} (i : N) (x : A) (l : list A) : list A :=
  match l with
  | [] => []
  | y :: r => if i =? 0 then x :: r else y :: set_nthN (N.pred i) x r
  end.
Fixpoint firstnN {A} (n : N) (l : list A) : list A :=
  match l with
  | [] => []
  | x :: r => if n =? 0 then [] else x :: firstnN (N.pred n) r
  end.
Definition get_attr (s : mstate) (id : N) : option imattr := nth_errN (m_attrs s) id.
Definition put_attr (s : mstate) (id : N) (a : imattr) : mstate :=
  MS (m_topo s) (set_nthN id a (m_attrs s)).

Fixpoint number_from {A} (k : N) (l : list A) : list (N * A) :=
  match l with [] => [] | x :: r => (k, x) :: number_from (N.succ k) r end.

Fixpoint filter_map {A B} (f : A -> option B) (l : list A) : list B :=
  match l with
  | [] => []
  | x :: r => match f x with Some y => y :: filter_map f r | None => filter_map f r end
  end.

(* ------------------------------------------------------------------ *)
(* refresh *)

(* hwloc__imi_refresh *)
Definition refresh_imi (t : topo) (i : imi) : option imi :=
  match i_loc i with
  | ICpu c => let c' := bs_inter c (t_root t) in
              if bs_is_empty c' then None else Some (Imi (ICpu c') (i_val i) true)
  | IObj ty gp => match obj_by_type_gp t ty gp with
                  | Some _ => Some (Imi (IObj ty gp) (i_val i) true)
                  | None => None
                  end
  end.

Definition lookup_target (t : topo) (g : imtg) : option obj :=
  if g_gp g =? MEMATTR_GP_NONE then
    if g_type g =? HWLOC_OBJ_NUMANODE then obj_by_type_os t HWLOC_OBJ_NUMANODE (g_os g)
    else if g_type g =? HWLOC_OBJ_PU then obj_by_type_os t HWLOC_OBJ_PU (g_os g)
    else None
  else obj_by_type_gp t (g_type g) (g_gp g).

(* hwloc__imtg_refresh *)
Definition refresh_tg (t : topo) (need : bool) (g : imtg) : option imtg :=
  match lookup_target t g with
  | None => None
  | Some node =>
    if need then
      match filter_map (refresh_imi t) (g_inits g) with
      | [] => None
      | is => Some (Imtg (g_type g) (o_gp node) (g_os g) is (g_val g))
      end
    else Some (Imtg (g_type g) (o_gp node) (g_os g) (g_inits g) (g_val g))
  end.

(* hwloc__imattr_refresh *)
Definition refresh_attr (t : topo) (a : imattr) : imattr :=
  Imattr (a_name a) (a_flags a) (a_conv a) true (filter_map (refresh_tg t (need_init a)) (a_tgs a)).

(* "if (!(iflags & CACHE_VALID)) hwloc__imattr_refresh()" *)
Definition cur (t : topo) (a : imattr) : imattr := if a_valid a then a else refresh_attr t a.

(* hwloc_internal_memattrs_refresh / _need_refresh *)
Definition refresh_all (t : topo) (l : list imattr) : list imattr := map (cur t) l.
Definition need_refresh (l : list imattr) : list imattr :=
  map (fun a => if a_conv a then a else Imattr (a_name a) (a_flags a) (a_conv a) false (a_tgs a)) l.

(* state right after hwloc_topology_load() *)
Definition init_state (t : topo) : mstate := MS t (refresh_all t (need_refresh init_attrs)).

(* state right after hwloc_topology_load() with HWLOC_TOPOLOGY_FLAG_NO_MEMATTRS:
   hwloc_internal_memattrs_prepare is not called, there is no attribute at all
   and the ids of the attributes registered by the application start at 0 *)
Definition init_state_nomem (t : topo) : mstate := MS t [].

(* ------------------------------------------------------------------ *)
(* attribute table *)

Definition flags_hl : N := N.lor HWLOC_MEMATTR_FLAG_LOWER_FIRST HWLOC_MEMATTR_FLAG_HIGHER_FIRST.
Definition flags_all : N := N.lor HWLOC_MEMATTR_FLAG_NEED_INITIATOR flags_hl.

Definition name_used (l : list imattr) (name : list N) : bool :=
  existsb (fun a => bytes_eqb name (a_name a)) l.

(* hwloc_memattr_register *)
Definition register (s : mstate) (name : list N) (flags : N) : mstate * res N :=
  if negb (N.ldiff flags flags_all =? 0) then (s, Err EINVAL)
  else if N.land flags flags_hl =? 0 then (s, Err EINVAL)
  else if N.land flags flags_hl =? flags_hl then (s, Err EINVAL)
  else if name_used (m_attrs s) name then (s, Err EBUSY)
  else (MS (m_topo s) (m_attrs s ++ [Imattr name flags false true []]),
        Ok (N.of_nat (length (m_attrs s)))).

Fixpoint index_of {A} (p : A -> bool) (l : list A) (k : N) : option N :=
  match l with
  | [] => None
  | x :: r => if p x then Some k else index_of p r (N.succ k)
  end.
Definition get_by_name (s : mstate) (name : list N) : res N :=
  match index_of (fun a => bytes_eqb (a_name a) name) (m_attrs s) 0 with
  | Some i => Ok i | None => Err EINVAL end.
Definition get_name (s : mstate) (id : N) : res (list N) :=
  match get_attr s id with Some a => Ok (a_name a) | None => Err EINVAL end.
Definition get_flags (s : mstate) (id : N) : res N :=
  match get_attr s id with Some a => Ok (a_flags a) | None => Err EINVAL end.

(* ------------------------------------------------------------------ *)
(* targets and initiators *)

(* loop test of hwloc__memattr_get_target *)
Definition tg_match (ty gp os : N) (g : imtg) : bool :=
  (ty =? g_type g) &&
  ((negb (gp =? MEMATTR_GP_NONE) && (gp =? g_gp g)) || (negb (os =? MEMATTR_OS_NONE) && (os =? g_os g))).
Definition find_target (tgs : list imtg) (ty gp os : N) : option imtg := find (tg_match ty gp os) tgs.

(* hwloc__memattr_get_target(create=1) followed by an update of the found/new entry;
   the boolean tells whether a new target was appended (cache invalidated) *)
Fixpoint upsert_tg (ty gp os : N) (f : imtg -> imtg) (l : list imtg) : list imtg * bool :=
  match l with
  | [] => ([f (Imtg ty gp os [] 0)], true)
  | g :: r => if tg_match ty gp os g then (f g :: r, false)
              else let (r', c) := upsert_tg ty gp os f r in (g :: r', c)
  end.

(* hwloc__memattr_target_get_initiator(create=0) *)
Definition find_init (is : list imi) (q : iloc) : option imi := find (fun i => match_iloc q (i_loc i)) is.

(* hwloc__memattr_target_get_initiator(create=1) + "imi->value = value" *)
(* [objok]: whether the caller's internal location carries an initialised cached
   object pointer: true for hwloc_memattr_set_value (to_internal_location sets
   it), false for the raw internal entry point as used by the XML import (a stack
   structure whose .obj is never written; harmless there because the attribute
   is refreshed before any read) *)
Fixpoint upsert_init (objok : bool) (q : iloc) (v : N) (is : list imi) : list imi :=
  match is with
  | [] => [Imi q v (match q with ICpu _ => true | IObj _ _ => objok end)]
  | i :: r => if match_iloc q (i_loc i) then Imi (i_loc i) v (i_ok i) :: r else i :: upsert_init objok q v r
  end.

(* hwloc__memattr_get_initiator_from_location *)
Definition find_init_loc (g : imtg) (l : option location) : option imi :=
  match l with
  | None => None
  | Some l => match to_internal l with None => None | Some q => find_init (g_inits g) q end
  end.

(* ------------------------------------------------------------------ *)
(* values *)

Definition weight64 (c : bset) : N :=
  match bs_weight c with Some w => w | None => MEMATTR_WEIGHT_INFINITE end.

(* hwloc__memattr_get_convenience_value *)
Definition conv_value (id : N) (node : obj) : res N :=
  if id =? HWLOC_MEMATTR_ID_CAPACITY then
    if is_numa node then Ok (o_mem node) else Err EINVAL
  else if id =? HWLOC_MEMATTR_ID_LOCALITY then
    if o_hascpuset node then Ok (weight64 (o_cpuset node)) else Err EINVAL
  else Err EUB.  (* assert(0) *)

Definition count_inits (l : list imtg) : nat := fold_right (fun g n => (length (g_inits g) + n)%nat) O l.

(* hwloc__internal_memattr_set_value.  The cache is invalidated when a target was created and
   (fix c3717fc) when an initiator was appended: the new location was not checked against the
   topology yet. *)
Definition set_core (loaded objok : bool) (s : mstate) (id ty gp os : N) (il : option iloc) (v : N) : mstate * res unit :=
  match get_attr s id with
  | None => (s, Err EINVAL)
  | Some a =>
    if need_init a && (match il with None => true | Some _ => false end) then (s, Err EINVAL)
    else if a_conv a then (s, Err EINVAL)
    else
      let a1 := if loaded && negb (a_valid a) then refresh_attr (m_topo s) a else a in
      let f := fun g => match il with
                        | Some q => if need_init a then Imtg (g_type g) (g_gp g) (g_os g) (upsert_init objok q v (g_inits g)) (g_val g)
                                    else Imtg (g_type g) (g_gp g) (g_os g) (g_inits g) v
                        | None => Imtg (g_type g) (g_gp g) (g_os g) (g_inits g) v
                        end in
      let (tgs, created) := upsert_tg ty gp os f (a_tgs a1) in
      let grew := negb (Nat.eqb (count_inits tgs) (count_inits (a_tgs a1))) in
      (put_attr s id (Imattr (a_name a1) (a_flags a1) (a_conv a1) (if created || grew then false else a_valid a1) tgs), Ok tt)
  end.

(* hwloc_memattr_set_value *)
Definition set_value (s : mstate) (id : N) (tgt : option obj) (init : option location) (flags v : N) : mstate * res unit :=
  match tgt with
  | None => (s, Err EINVAL)
  | Some o =>
    if negb (flags =? 0) then (s, Err EINVAL)
    else match init with
         | Some l => match to_internal l with
                     | None => (s, Err EINVAL)
                     | Some q => set_core true true s id (o_type o) (o_gp o) (o_os o) (Some q) v
                     end
         | None => set_core true true s id (o_type o) (o_gp o) (o_os o) None v
         end
  end.

(* hwloc_memattr_get_value *)
Definition get_value (s : mstate) (id : N) (tgt : option obj) (init : option location) (flags : N) : mstate * res N :=
  match tgt with
  | None => (s, Err EINVAL)
  | Some o =>
    if negb (flags =? 0) then (s, Err EINVAL)
    else match get_attr s id with
    | None => (s, Err EINVAL)
    | Some a =>
      if a_conv a then (s, conv_value id o)
      else
        let a1 := cur (m_topo s) a in
        let s1 := put_attr s id a1 in
        match find_target (a_tgs a1) (o_type o) (o_gp o) (o_os o) with
        | None => (s1, Err EINVAL)
        | Some g =>
          if need_init a then
            match find_init_loc g init with
            | None => (s1, Err EINVAL)
            | Some i => (s1, Ok (i_val i))
            end
          else (s1, Ok (g_val g))
        end
    end
  end.

(* candidate list shared by get_targets and get_best_target:
   [null_all] says what a NULL initiator means for a NEED_INITIATOR attribute *)
Definition target_entries (a : imattr) (init : option location) (null_all : bool) : list (N * N) :=
  filter_map (fun g =>
    if need_init a then
      match init with
      | None => if null_all then Some (g_gp g, 0) else None
      | Some _ => match find_init_loc g init with Some i => Some (g_gp g, i_val i) | None => None end
      end
    else Some (g_gp g, g_val g)) (a_tgs a).

Definition conv_entries (t : topo) (id : N) : list (N * N) :=
  map (fun n => (o_gp n, match conv_value id n with Ok v => v | Err _ => 0 end)) (numa_nodes t).

Definition lenN {A} (l : list A) : N := N.of_nat (length l).

(* hwloc_memattr_get_targets: returns ( *nr, the entries written ) *)
Definition get_targets (s : mstate) (id : N) (init : option location) (flags max : N) (tnull : bool)
  : mstate * res (N * list (N * N)) :=
  if negb (flags =? 0) then (s, Err EINVAL)
  else if negb (max =? 0) && tnull then (s, Err EINVAL)
  else match get_attr s id with
  | None => (s, Err EINVAL)
  | Some a =>
    if a_conv a then
      let all := conv_entries (m_topo s) id in (s, Ok (lenN all, firstnN max all))
    else
      let a1 := cur (m_topo s) a in
      let all := target_entries a1 init true in
      (put_attr s id a1, Ok (lenN all, firstnN max all))
  end.

(* hwloc_memattr_get_initiators *)
Definition get_initiators (s : mstate) (id : N) (tgt : option obj) (flags max : N) (inull : bool)
  : mstate * res (N * list (iloc * N)) :=
  match tgt with
  | None => (s, Err EINVAL)
  | Some o =>
    if negb (flags =? 0) then (s, Err EINVAL)
    else if negb (max =? 0) && inull then (s, Err EINVAL)
    else match get_attr s id with
    | None => (s, Err EINVAL)
    | Some a =>
      if negb (need_init a) then (s, Ok (0, []))
      else
        let a1 := cur (m_topo s) a in
        let s1 := put_attr s id a1 in
        match find_target (a_tgs a1) (o_type o) (o_gp o) (o_os o) with
        | None => (s1, Err EINVAL)
        | Some g =>
          let out := firstnN max (g_inits g) in
          if forallb i_ok out then (s1, Ok (lenN (g_inits g), map (fun i => (i_loc i, i_val i)) out))
          else (s1, Err EUB)
        end
    end
  end.

(* hwloc__update_best_target / hwloc__update_best_initiator *)
Definition update_best {A} (keep_highest : bool) (best : option (A * N)) (x : A) (v : N) : option (A * N) :=
  match best with
  | None => Some (x, v)
  | Some (_, bv) =>
    if keep_highest then (if v <=? bv then best else Some (x, v))
    else (if bv <=? v then best else Some (x, v))
  end.
Definition best_of {A} (keep_highest : bool) (l : list (A * N)) : option (A * N) :=
  fold_left (fun b e => update_best keep_highest b (fst e) (snd e)) l None.

(* hwloc_memattr_get_best_target *)
Definition get_best_target (s : mstate) (id : N) (init : option location) (flags : N) : mstate * res (N * N) :=
  if negb (flags =? 0) then (s, Err EINVAL)
  else match get_attr s id with
  | None => (s, Err EINVAL)
  | Some a =>
    if a_conv a then
      match best_of (higher a) (conv_entries (m_topo s) id) with
      | Some b => (s, Ok b) | None => (s, Err ENOENT) end
    else
      let a1 := cur (m_topo s) a in
      match best_of (higher a) (target_entries a1 init false) with
      | Some b => (put_attr s id a1, Ok b) | None => (put_attr s id a1, Err ENOENT) end
  end.

(* hwloc_memattr_get_best_initiator *)
Definition get_best_initiator (s : mstate) (id : N) (tgt : option obj) (flags : N) : mstate * res (iloc * N) :=
  match tgt with
  | None => (s, Err EINVAL)
  | Some o =>
    if negb (flags =? 0) then (s, Err EINVAL)
    else match get_attr s id with
    | None => (s, Err EINVAL)
    | Some a =>
      if negb (need_init a) then (s, Err EINVAL)
      else
        let a1 := cur (m_topo s) a in
        let s1 := put_attr s id a1 in
        match find_target (a_tgs a1) (o_type o) (o_gp o) (o_os o) with
        | None => (s1, Err EINVAL)
        | Some g =>
          match best_of (higher a) (map (fun i => (i, i_val i)) (g_inits g)) with
          | None => (s1, Err ENOENT)
          | Some (i, v) => if i_ok i then (s1, Ok (i_loc i, v)) else (s1, Err EUB)
          end
        end
    end
  end.

(* ------------------------------------------------------------------ *)
(* local NUMA nodes *)

Definition local_mask : N :=
  N.lor HWLOC_LOCAL_NUMANODE_FLAG_SMALLER_LOCALITY
        (N.lor HWLOC_LOCAL_NUMANODE_FLAG_LARGER_LOCALITY HWLOC_LOCAL_NUMANODE_FLAG_ALL).

(* match_local_obj_cpuset (flags without ALL) *)
Definition match_local (flags : N) (c : bset) (node : obj) : bool :=
  (has flags HWLOC_LOCAL_NUMANODE_FLAG_LARGER_LOCALITY && bs_subset c (o_cpuset node))
  || (has flags HWLOC_LOCAL_NUMANODE_FLAG_SMALLER_LOCALITY && bs_subset (o_cpuset node) c)
  || bs_eqb (o_cpuset node) c.

(* hwloc_get_local_numanode_objs: ( *nr, gp_index of the nodes written ) *)
Definition local_numanodes (s : mstate) (loc : option location) (flags max : N) (nnull : bool) : res (N * list N) :=
  if negb (N.ldiff flags local_mask =? 0) then Err EINVAL
  else if negb (max =? 0) && nnull then Err EINVAL
  else
    let all := has flags HWLOC_LOCAL_NUMANODE_FLAG_ALL in
    let go (c : option bset) :=
      if all then let l := map o_gp (numa_nodes (m_topo s)) in Ok (lenN l, firstnN max l)
      else match c with
           | None => Err EUB    (* hwloc_bitmap_isincluded(NULL, ...) *)
           | Some c => let l := map o_gp (filter (match_local flags c) (numa_nodes (m_topo s))) in
                       Ok (lenN l, firstnN max l)
           end in
    match loc with
    | None => if all then go None else Err EINVAL
    | Some (LCpu c) => go c
    | Some (LObj o) => go (Some (o_cpuset o))
    | Some LBad => Err EINVAL
    | Some LObjNull => Err EUB      (* "while (!obj->cpuset)" on a NULL object *)
    end.

(* ------------------------------------------------------------------ *)
(* default nodeset *)

Fixpoint insert_by_os (n : obj) (l : list obj) : list obj :=
  match l with
  | [] => [n]
  | m :: r => if o_os n <? o_os m then n :: l else m :: insert_by_os n r
  end.
Definition sort_by_os (l : list obj) : list obj := fold_right insert_by_os [] l.

Record dn_state := DN { dn_set : bset; dn_rem : bset; dn_done : bool }.

Definition dn_take (st : dn_state) (n : obj) : dn_state :=
  DN (bs_add (o_os n) (dn_set st)) (bs_diff (dn_rem st) (o_cpuset n)) (dn_done st).
Definition dn_check (st : dn_state) : dn_state :=
  if bs_is_empty (dn_rem st) then DN (dn_set st) (dn_rem st) true else st.

(* first loop: same-subtype, non-overlapping nodes *)
Definition dn_loop1 (first_sub : N) (st : dn_state) (n : obj) : dn_state :=
  if dn_done st then st
  else if negb (o_subtype n =? first_sub) then st
  else dn_check (if bs_subset (o_cpuset n) (dn_rem st) then dn_take st n else st).

(* second loop: "already taken?" tests nodes[i]->os_index (fix a3b32cd) *)
Definition dn_loop2 (st : dn_state) (n : obj) : dn_state :=
  if dn_done st then st
  else if mem (o_os n) (dn_set st) then st
  else dn_check (if bs_subset (o_cpuset n) (dn_rem st) && negb (bs_is_empty (o_cpuset n))
                 then dn_take st n else st).

(* hwloc_topology_get_default_nodeset *)
Definition default_nodeset (s : mstate) (flags : N) : res bset :=
  if negb (flags =? 0) then Err EINVAL
  else match sort_by_os (numa_nodes (m_topo s)) with
  | [] => Err EUB           (* nodes[0] of an empty array; every topology has a NUMA node *)
  | first :: rest =>
    let st0 := dn_take (DN bs_empty (t_root (m_topo s)) false) first in
    let st1 := fold_left (dn_loop1 (o_subtype first)) rest st0 in
    let st2 := fold_left dn_loop2 rest st1 in
    Ok (dn_set st2)
  end.

(* ------------------------------------------------------------------ *)
(* topology changes *)

(* hwloc_topology_restrict (successful): the topology is replaced by [t'] and
   hwloc_internal_memattrs_need_refresh() is called; the model does not compute
   [t'] (that is C08), it is an input. *)
Definition retopo (s : mstate) (t' : topo) : mstate := MS t' (need_refresh (m_attrs s)).

(* hwloc_topology_dup + continue with the copy: hwloc_internal_memattrs_dup
   clears CACHE_VALID of every attribute and all cached pointers *)
Definition dup_switch (s : mstate) : mstate :=
  MS (m_topo s) (map (fun a => Imattr (a_name a) (a_flags a) (a_conv a) false (a_tgs a)) (m_attrs s)).

(* XML export (hwloc__xml_export_memattrs, which first calls
   hwloc_internal_memattrs_refresh on the exported topology: fix 16e3604) followed by import into a fresh
   topology (hwloc__xml_import_memattr, hwloc__xml_import_memattr_value) and the
   end of hwloc_topology_load (need_refresh + refresh); [t'] is the re-imported
   topology. *)
Definition xml_import_values (s : mstate) (id : N) (need : bool) (g : imtg) : mstate :=
  if need then
    fold_left (fun s i => fst (set_core false false s id (g_type g) (g_gp g) MEMATTR_OS_NONE (Some (i_loc i)) (i_val i)))
              (g_inits g) s
  else fst (set_core false false s id (g_type g) (g_gp g) MEMATTR_OS_NONE None (g_val g)).

(* hwloc__xml_export_safestrdup: the exported name keeps only the bytes that are valid in the XML
   output (HWLOC_XML_CHAR_VALID: 32..126, tab, newline, carriage return) *)
Definition xml_char_valid (c : N) : bool :=
  ((32 <=? c) && (c <=? 126)) || (c =? 9) || (c =? 10) || (c =? 13).
Definition xml_safe_name (n : list N) : list N := filter xml_char_valid n.

(* [predef]: the exported topology has the predefined attributes (it was not loaded with
   HWLOC_TOPOLOGY_FLAG_NO_MEMATTRS).  The export skips the convenience attributes (tested by their
   flag) and, when they exist, the predefined attributes without any target. *)
Definition xml_import_attr (predef : bool) (s : mstate) (e : N * imattr) : mstate :=
  let (id, a) := e in
  let name := xml_safe_name (a_name a) in
  if a_conv a then s
  else if predef && (id <? HWLOC_MEMATTR_ID_MAX) && (match a_tgs a with [] => true | _ => false end) then s
  else
    let (s1, oid) :=
      match get_by_name s name with
      | Ok i => (s, match get_flags s i with Ok f => if f =? a_flags a then Some i else None | Err _ => None end)
      | Err _ => match register s name (a_flags a) with
                 | (s', Ok i) => (s', Some i)
                 | (s', Err _) => (s', None)
                 end
      end in
    match oid with
    | None => s1
    | Some i => fold_left (fun s g => xml_import_values s i (need_init a) g) (a_tgs a) s1
    end.

Definition xml_switch_from (predef : bool) (s : mstate) (t' : topo) : mstate :=
  let s0 := MS t' init_attrs in
  let s1 := fold_left (xml_import_attr predef) (number_from 0 (refresh_all (m_topo s) (m_attrs s))) s0 in
  MS t' (refresh_all t' (need_refresh (m_attrs s1))).
Definition xml_switch (s : mstate) (t' : topo) : mstate := xml_switch_from true s t'.

(* sentinels for the driver *)
Definition gp_none : N := MEMATTR_GP_NONE.
Definition os_none : N := MEMATTR_OS_NONE.

(* ------------------------------------------------------------------ *)
(* one interpreter for histories *)

Inductive op :=
| ORegister (name : list N) (flags : N)
| OGetByName (name : list N)
| OGetName (id : N)
| OGetFlags (id : N)
| OSet (id : N) (tgt : option obj) (init : option location) (flags v : N)
| OISet (id ty gp os : N) (il : option iloc) (v : N)
| OGet (id : N) (tgt : option obj) (init : option location) (flags : N)
| OTargets (id : N) (init : option location) (flags max : N) (tnull : bool)
| OInits (id : N) (tgt : option obj) (flags max : N) (inull : bool)
| OBestT (id : N) (init : option location) (flags : N)
| OBestI (id : N) (tgt : option obj) (flags : N)
| OLocal (loc : option location) (flags max : N) (nnull : bool)
| ODefNodes (flags : N)
| ORetopo (t' : topo)
| ODup
| OXml (t' : topo)
| ORegisterNull (flags : N)     (* hwloc_memattr_register with a NULL name *)
| OAllow (incl : bool) (cpuset nodeset : option bset) (flags : N)
| OXmlNoMem (t' : topo)
| OXmlFromNoMem (t' : topo).
    (* hwloc_topology_allow on a topology loaded with (incl=true) or without INCLUDE_DISALLOWED;
       OXmlNoMem: XML round trip of a topology loaded with NO_MEMATTRS (the flag is kept for the reload);
       OXmlFromNoMem: the same export reloaded WITHOUT the flag, into an ordinary topology *)

Inductive out :=
| RUnit (r : res unit)
| RNum (r : res N)
| RName (r : res (list N))
| RTargets (r : res (N * list (N * N)))
| RInits (r : res (N * list (iloc * N)))
| RBestT (r : res (N * N))
| RBestI (r : res (iloc * N))
| RNodes (r : res (N * list N))
| RSet (r : res bset).

(* hwloc_topology_allow: it changes topology->allowed_cpuset/allowed_nodeset only; nothing in
   memattrs.c reads them (the refresh intersects cpuset initiators with the ROOT cpuset), so the
   memory-attribute state is untouched.  The topology here is never "this system". *)
Definition root_nodeset (t : topo) : bset := fold_right (fun n s => bs_add (o_os n) s) bs_empty (numa_nodes t).
Definition allow_result (t : topo) (incl : bool) (cpuset nodeset : option bset) (flags : N) : res unit :=
  if negb incl then Err EINVAL
  else if negb (N.ldiff flags (N.lor HWLOC_ALLOW_FLAG_ALL (N.lor HWLOC_ALLOW_FLAG_LOCAL_RESTRICTIONS HWLOC_ALLOW_FLAG_CUSTOM)) =? 0) then Err EINVAL
  else if flags =? HWLOC_ALLOW_FLAG_ALL then
    match cpuset, nodeset with None, None => Ok tt | _, _ => Err EINVAL end
  else if flags =? HWLOC_ALLOW_FLAG_LOCAL_RESTRICTIONS then Err EINVAL    (* sets given, or not this system *)
  else if flags =? HWLOC_ALLOW_FLAG_CUSTOM then
    if match cpuset with Some c => negb (bs_intersects (t_root t) c) | None => false end then Err EINVAL
    else if match nodeset with Some n => negb (bs_intersects (root_nodeset t) n) | None => false end then Err EINVAL
    else Ok tt
  else Err EINVAL.

Definition step (s : mstate) (o : op) : mstate * out :=
  match o with
  | ORegister n f => let (s', r) := register s n f in (s', RNum r)
  | OGetByName n => (s, RNum (get_by_name s n))
  | OGetName id => (s, RName (get_name s id))
  | OGetFlags id => (s, RNum (get_flags s id))
  | OSet id t i f v => let (s', r) := set_value s id t i f v in (s', RUnit r)
  | OISet id ty gp os il v =>
      if (id =? HWLOC_MEMATTR_ID_CAPACITY) || (id =? HWLOC_MEMATTR_ID_LOCALITY) then (s, RUnit (Err EINVAL))
      else let (s', r) := set_core true false s id ty gp os il v in (s', RUnit r)
  | OGet id t i f => let (s', r) := get_value s id t i f in (s', RNum r)
  | OTargets id i f m tn => let (s', r) := get_targets s id i f m tn in (s', RTargets r)
  | OInits id t f m n => let (s', r) := get_initiators s id t f m n in (s', RInits r)
  | OBestT id i f => let (s', r) := get_best_target s id i f in (s', RBestT r)
  | OBestI id t f => let (s', r) := get_best_initiator s id t f in (s', RBestI r)
  | OLocal l f m n => (s, RNodes (local_numanodes s l f m n))
  | ODefNodes f => (s, RSet (default_nodeset s f))
  | ORetopo t' => (retopo s t', RUnit (Ok tt))
  | ODup => (dup_switch s, RUnit (Ok tt))
  | OXml t' => (xml_switch s t', RUnit (Ok tt))
  | ORegisterNull _ => (s, RNum (Err EINVAL))   (* flag checks and the NULL test all end in EINVAL *)
  | OAllow incl c n f => (s, RUnit (allow_result (m_topo s) incl c n f))
  | OXmlNoMem t' => (init_state_nomem t', RUnit (Ok tt))   (* hwloc__xml_import_memattr ignores every attribute *)
  | OXmlFromNoMem t' => (xml_switch_from false s t', RUnit (Ok tt))
  end.

Definition run (s : mstate) (ops : list op) : mstate := fold_left (fun s o => fst (step s o)) ops s.
