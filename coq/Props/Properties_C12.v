(* C12 — hwloc_topology_dup yields an equivalent, fully independent topology.
   Model: Topo/Heap.v (trees of blocks, allocator, heap), Topo/Dup.v (hwloc__topology_dup field by field).
   A topology in memory is a laid-out tree [at0] stored in a heap [h]; the dup runs under ANY allocator
   meeting the contract [alloc_spec] (malloc, or the two allocators of shmem.c). *)
From Coq Require Import List NArith Bool.
From HV Require Import Gen.Tables Topo.Heap Topo.Dup Topo.DupProofs.
Import ListNotations.
Local Open Scope N_scope.

(* the raw tree of the copy is [dup_tree] of the original's (every field of every block: values, rebuilt links,
   invalidated caches, shared userdata/callbacks); the copy is stored, and the original is still stored unchanged *)
Theorem dup_abs_equal :
  forall al owns, alloc_spec al owns -> forall h at0 s,
    stored h at0 -> (forall x, In x (addrs at0) -> owns (fst s) x) -> model_wf (dup_tree (erase at0)) = true ->
    forall at1 h1 s1, dup_run ksize al (dup_tree (erase at0)) h s = (at1, h1, s1) ->
      erase at1 = dup_tree (erase at0) /\ stored h1 at1 /\ stored h1 at0.
Proof. exact hw_dup_abs_equal. Qed.
Print Assumptions dup_abs_equal.

(* every block of the copy was returned by the allocator during the call (not in use before, in use after), the blocks
   are pairwise distinct, none is a block of the original, and every pointer held by a block of the copy points to a
   block of the copy (the only other pointers are the HOpq cells: userdata, callbacks) *)
Theorem dup_footprint_fresh :
  forall al owns, alloc_spec al owns -> forall h at0 s,
    (forall x, In x (addrs at0) -> owns (fst s) x) -> model_wf (dup_tree (erase at0)) = true ->
    forall at1 h1 s1, dup_run ksize al (dup_tree (erase at0)) h s = (at1, h1, s1) ->
      NoDup (addrs at1) /\
      (forall x, In x (addrs at1) -> ~ owns (fst s) x /\ owns (fst s1) x /\ ~ In x (addrs at0)) /\
      (forall a b p, In (a, b) (nodes at1) -> In p (hptrs b) -> In p (addrs at1)).
Proof. exact hw_dup_footprint_fresh. Qed.
Print Assumptions dup_footprint_fresh.

(* any heap that differs from the heap after the dup only inside the footprint of one of the two still stores the other *)
Theorem frame :
  forall al owns, alloc_spec al owns -> forall h at0 s,
    stored h at0 -> (forall x, In x (addrs at0) -> owns (fst s) x) -> model_wf (dup_tree (erase at0)) = true ->
    forall at1 h1 s1, dup_run ksize al (dup_tree (erase at0)) h s = (at1, h1, s1) ->
      (forall h2, (forall x, ~ In x (addrs at1) -> h2 x = h1 x) -> stored h2 at0) /\
      (forall h2, (forall x, ~ In x (addrs at0) -> h2 x = h1 x) -> stored h2 at1).
Proof. exact hw_frame. Qed.
Print Assumptions frame.

(* destroying one leaves the other stored; destroying both, in either order, releases every block exactly once *)
Theorem destroy_any_order :
  forall al owns, alloc_spec al owns -> forall h at0 s,
    stored h at0 -> (forall x, In x (addrs at0) -> owns (fst s) x) -> model_wf (dup_tree (erase at0)) = true ->
    forall at1 h1 s1, dup_run ksize al (dup_tree (erase at0)) h s = (at1, h1, s1) ->
      stored (free_addrs (addrs at1) h1) at0 /\ stored (free_addrs (addrs at0) h1) at1 /\
      (NoDup (addrs at0) -> NoDup (addrs at0 ++ addrs at1)) /\
      (forall x, In x (addrs at0 ++ addrs at1) ->
         free_addrs (addrs at0) (free_addrs (addrs at1) h1) x = None /\ free_addrs (addrs at1) (free_addrs (addrs at0) h1) x = None).
Proof. exact hw_destroy_any_order. Qed.
Print Assumptions destroy_any_order.

(* the sequence of requested sizes is a function of the tree alone: two runs under any two allocators, from any
   states, request the same sizes in the same order *)
Theorem alloc_sequence_parametric :
  forall (al1 al2 : allocator) (t : tree) (s1 : rstate al1) (s2 : rstate al2),
    trace al1 (snd (assign ksize al1 t s1)) = trace al1 s1 ++ sizes ksize t /\
    trace al2 (snd (assign ksize al2 t s2)) = trace al2 s2 ++ sizes ksize t.
Proof. exact hw_alloc_sequence_parametric. Qed.
Print Assumptions alloc_sequence_parametric.

(* the order in which the C code issues the requests (c_sizes: root object and level arrays first) is a rearrangement
   of the pre-order: same sum for every per-request cost *)
Theorem c_order_same_total : forall f s, sumf f (c_sizes s) = sumf f (sizes ksize (topo_tree s)).
Proof. exact hw_c_order_same_total. Qed.
Print Assumptions c_order_same_total.

(* the bump allocator of shmem.c meets the allocator contract *)
Theorem bump_allocator_spec : forall A, 0 < A -> alloc_spec (bump A) (fun c x => x < c).
Proof. exact bump_spec. Qed.
Print Assumptions bump_allocator_spec.

(* ---- non-vacuity: a distances structure with a cached objs[] array and a name, laid out at 100.., duplicated by the
   bump allocator from 1000: the hypotheses hold, the cache of the copy is invalid, the name is a fresh block *)
Definition ex_dist : atree :=
  AT 100 K_DIST 1 [AV 7; AV 4; AV 2; AV 5; AV 1; AV 0;
                   AOwn (AT 200 K_STR 4 [AV 6516580]); ANull;
                   AOwn (AT 300 K_U64 2 [AV 0; AV 1]); AOwn (AT 400 K_DOBJS 2 [ALink 3; ALink 4]);
                   AOwn (AT 500 K_U64 4 [AV 10; AV 20; AV 20; AV 10]); ANull].
Definition ex_heap : heap := write_nodes (nodes ex_dist) (fun _ => None).
Definition ex_run := dup_run ksize (bump 8) (dup_tree (erase ex_dist)) ex_heap (1000, []).

Example ex_hyps :
  model_wf (dup_tree (erase ex_dist)) = true /\ (forall x, In x (addrs ex_dist) -> x < 1000) /\ NoDup (addrs ex_dist).
Proof.
  split; [vm_compute; reflexivity|split].
  - intros x H. vm_compute in H. repeat (destruct H as [<-|H]; [reflexivity|]). destruct H.
  - vm_compute. repeat constructor; simpl; intuition discriminate.
Qed.
Example ex_stored : stored ex_heap ex_dist.
Proof.
  intros a b H. vm_compute in H. repeat (destruct H as [E|H]; [inversion E; subst; vm_compute; reflexivity|]). destruct H.
Qed.
Example ex_copy :
  erase (fst (fst ex_run)) =
    T K_DIST 1 [CV 7; CV 4; CV 2; CV 5; CV 0; CV 0; COwn (T K_STR 4 [CV 6516580]); CNull;
                COwn (T K_U64 2 [CV 0; CV 1]); COwn (T K_DOBJS 2 [CNull; CNull]); COwn (T K_U64 4 [CV 10; CV 20; CV 20; CV 10]); CNull]
  /\ addrs (fst (fst ex_run)) = [1000; 1088; 1096; 1112; 1128]
  /\ trace (bump 8) (snd ex_run) = [88; 4; 16; 16; 32].
Proof. vm_compute. repeat split. Qed.
