(* C16 - topology diffs: property theorems only (proofs in Attr/DiffProofs.v).
   Model: Attr/Diff.v (hwloc/diff.c statement by statement).

   H (hypotheses, all executable booleans, see Attr/Diff.v):
     keys_unique T        (depth, logical_index) identifies an object
     vals_u64 T           uint64_t fields hold uint64_t values
     info_names_nodup T   no info name occurs twice in one object / in the topology infos
     forallb entry_u64 d  uint64_t fields of the entries hold uint64_t values
     depths_addressable T every object sits on a level hwloc_get_obj_by_depth addresses
     0 <= t_nbl T         nb_levels is an unsigned count
     slots_distinct n d   no two entries of d address the same attribute               *)
From Coq Require Import List NArith ZArith Bool String Lia.
From HV Require Import Gen.Tables Attr.Diff Attr.DiffProofs.
Import ListNotations.
Local Open Scope N_scope.
Local Open Scope string_scope.

(* ---------------- hwloc_topology_diff_build ---------------- *)

(* for ALL pairs of object trees: hwloc_diff_trees emits nothing iff the trees
   are equal once the fields it never reads are erased (logical_index,
   total_memory, local_memory of non-NUMA objects, attribute bytes of types
   outside its memcmp list) *)
Theorem diff_trees_empty_iff_equal : forall o1 o2, diff_trees o1 o2 = [] <-> erase o1 = erase o2.
Proof. exact diff_trees_nil_iff. Qed.
Print Assumptions diff_trees_empty_iff_equal.

(* for ALL pairs of object trees: no TOO_COMPLEX entry iff the skeletons
   (everything but names, info values, NUMA local memory) are equal *)
Theorem diff_trees_toocomplex_iff_skeleton_differs : forall o1 o2, has_tc (diff_trees o1 o2) = false <-> skel o1 = skel o2.
Proof. exact diff_trees_tc_iff. Qed.
Print Assumptions diff_trees_toocomplex_iff_skeleton_differs.

(* for ALL topologies: 0 with a NULL diff iff nothing a diff can see differs.
   [top_same] is the topology-level comparison as the code does it; its
   distances part is made explicit by dists_compare_exact below (a
   heterogeneous matrix is never "same": build_zero_iff_equal_refuted_hetero). *)
Theorem build_zero_iff_equal : forall A B,
  diff_build 0 A B = BRet 0 [] <-> erase (t_root A) = erase (t_root B) /\ t_infos A = t_infos B /\ top_same A B.
Proof. exact build_zero_iff. Qed.
Print Assumptions build_zero_iff_equal.

Theorem dists_compare_exact : forall l1 l2,
  dists_differ l1 l2 = false <-> l1 = l2 /\ forallb (fun p => negb (fst p)) l1 = true.
Proof. exact dists_differ_spec. Qed.
Print Assumptions dists_compare_exact.

(* for ALL topologies: rc is 0 or 1, and 1 exactly when a TOO_COMPLEX entry is in the list *)
Theorem build_rc_iff_toocomplex_entry : forall A B rc d,
  diff_build 0 A B = BRet rc d -> (rc = 1%Z /\ has_tc d = true) \/ (rc = 0%Z /\ has_tc d = false).
Proof. exact build_rc. Qed.
Print Assumptions build_rc_iff_toocomplex_entry.

(* for ALL topologies: returns 1 exactly when they differ in something a diff
   cannot express (a name set on one side only included), 0 exactly otherwise *)
Theorem build_toocomplex_iff_inexpressible : forall A B,
  ((exists d, diff_build 0 A B = BRet 1 d) <-> ~ expressible A B) /\
  ((exists d, diff_build 0 A B = BRet 0 d) <-> expressible A B).
Proof. exact build_toocomplex_iff'. Qed.
Print Assumptions build_toocomplex_iff_inexpressible.

(* for ALL topologies: the initiator loop of the memory attribute comparison
   stays in bounds (fix ac5e4b1; regression witness: memattr_regression) *)
Theorem build_memattr_in_bounds : forall A B, diff_build 0 A B <> BOverread.
Proof. exact build_never_overreads. Qed.
Print Assumptions build_memattr_in_bounds.

(* every type that has attributes is covered by diff_trees_empty_iff_equal /
   ..._toocomplex_iff_skeleton_differs through [is_memcmp_type] (caches, memory-side
   caches since fix c1b2102, Group, PCI device, bridge, OS device) or as a
   diffable value (NUMA local_memory); regression witness for memory-side caches *)
Example memcache_attributes_compared :
  diff_build 0 (mc_T "size=1MB") (mc_T "size=2MB") = BRet 1 [ETooComplex (-8) 0] /\
  diff_build 0 (mc_T "size=1MB") (mc_T "size=1MB") = BRet 0 [].
Proof. exact memcache_regression. Qed.

(* identical topologies holding a heterogeneous distances matrix: rc = 1 *)
Theorem build_zero_iff_equal_refuted_hetero : exists T, diff_build 0 T T = BRet 1 [ETooComplex 0 0].
Proof. exists het_T. exact hetero_witness. Qed.
Print Assumptions build_zero_iff_equal_refuted_hetero.

(* ---------------- hwloc_topology_diff_apply ---------------- *)

(* for ALL topologies under H and ALL entries: an entry that applies is undone
   by the same entry applied with the opposite direction *)
Theorem entry_apply_then_reverse_restores : forall rev e T T',
  Hkeys T -> Hnames T -> Hu64 T -> entry_u64 e = true ->
  apply_one rev e T = Ok T' -> apply_one (negb rev) e T' = Ok T.
Proof. exact step_inverse. Qed.
Print Assumptions entry_apply_then_reverse_restores.

(* H is an invariant of successful entries *)
Theorem entry_preserves_hypotheses : forall rev e T T',
  Hkeys T -> Hnames T -> Hu64 T -> entry_u64 e = true ->
  apply_one rev e T = Ok T' -> Hkeys T' /\ Hnames T' /\ Hu64 T'.
Proof. exact step_preserves. Qed.
Print Assumptions entry_preserves_hypotheses.

(* for ALL topologies under H, ALL lists and flags: a negative return leaves
   the topology exactly as before the call (cancel loop undoing last to first,
   fix 751402d; regression witness: rollback_regression) *)
Theorem apply_failure_rolls_back : forall flags d T rc T',
  Hkeys T -> Hnames T -> Hu64 T -> forallb entry_u64 d = true ->
  diff_apply flags d T = ARet rc T' -> (rc < 0)%Z -> T' = T.
Proof. exact rollback. Qed.
Print Assumptions apply_failure_rolls_back.

(* APPLY_REVERSE walks the list first-to-last as well: a list that touches one
   attribute twice applies, and its reverse application fails on the result *)
Theorem reverse_restores_refuted :
  exists T d T', keys_unique T && vals_u64 T && info_names_nodup T = true /\
                 diff_apply 0 d T = ARet 0 T' /\
                 diff_apply HWLOC_TOPOLOGY_DIFF_APPLY_REVERSE d T' = ARet (-1) T'.
Proof.
  exists rb_T, (firstn 2 rb_d), (topo1 (Some "m") [("X", "c")]). exact reverse_witness.
Qed.
Print Assumptions reverse_restores_refuted.

(* two infos with one name in an object, no (name, value) pair duplicated on
   either side: apply(A, build(A,B)) succeeds and is not B *)
Theorem dup_info_refuted :
  exists A B d T', H_diff_weak A && H_diff_weak B = true /\ diff_build 0 A B = BRet 0 d /\
                   diff_apply 0 d A = ARet 0 T' /\ erase (t_root T') <> erase (t_root B).
Proof.
  destruct dup_info_witness as [H1 (d & H2 & H3)].
  exists di_A, di_B, d, (topo1 (Some "m") [("X", "c"); ("X", "b")]). repeat split; try assumption.
  intros E. discriminate E.
Qed.
Print Assumptions dup_info_refuted.

(* for ALL topologies A under H (unique keys, no info name twice in an object,
   addressable depths) and ALL B: if build(A,B) returns 0 with the list d then
   apply(A,d) succeeds, and the result A' is indistinguishable from B for
   diff_build (empty diff), equal to B on every attribute a diff may carry
   (erase = names, info values, NUMA local memory, everything build reads),
   has the topology infos of B, and keeps every other field of every object *)
Theorem apply_build : forall A B d,
  Hkeys A -> Hnames A -> Hdepths A -> (0 <= t_nbl A)%Z ->
  diff_build 0 A B = BRet 0 d ->
  exists A', diff_apply 0 d A = ARet 0 A' /\ diff_build 0 A' B = BRet 0 [] /\
             erase (t_root A') = erase (t_root B) /\ t_infos A' = t_infos B /\
             map fxp (attrs A') = map fxp (attrs A).
Proof. exact apply_build_then_build. Qed.
Print Assumptions apply_build.

(* for ALL A under H with uint64 values and ALL B with uint64 local memories:
   build, apply, then apply with APPLY_REVERSE gives A back exactly *)
Theorem reverse_restores : forall A B d,
  Hkeys A -> Hnames A -> Hdepths A -> Hu64 A -> (0 <= t_nbl A)%Z ->
  (forall b, In b (oattrs (t_root B)) -> a_lmem b < U64) ->
  diff_build 0 A B = BRet 0 d ->
  exists A', diff_apply 0 d A = ARet 0 A' /\ diff_build 0 A' B = BRet 0 [] /\
             diff_apply HWLOC_TOPOLOGY_DIFF_APPLY_REVERSE d A' = ARet 0 A.
Proof. exact build_apply_reverse. Qed.
Print Assumptions reverse_restores.

(* the list built by diff_build addresses every attribute at most once *)
Theorem build_diff_slots_distinct : forall A B d,
  Hkeys A -> Hnames A -> Hdepths A -> (0 <= t_nbl A)%Z ->
  diff_build 0 A B = BRet 0 d -> slots_distinct (t_nbl A) d = true.
Proof. exact build_slots_distinct. Qed.
Print Assumptions build_diff_slots_distinct.

(* for ALL topologies, lists and flags: whatever diff_apply returns (success or
   rollback), H still holds and total_memory is still the uint64 sum of the
   local memories of the NUMA nodes at or below each object *)
Theorem apply_preserves_total_memory_invariant : forall flags d T rc T',
  Inv T -> forallb entry_u64 d = true -> diff_apply flags d T = ARet rc T' -> Inv T'.
Proof. exact apply_preserves_invariants. Qed.
Print Assumptions apply_preserves_total_memory_invariant.

(* for ALL topologies under H and ALL lists whose entries address pairwise
   different attributes: a list that applies is undone by the same list applied
   with HWLOC_TOPOLOGY_DIFF_APPLY_REVERSE, and conversely (the hypothesis
   slots_distinct excludes exactly the class of reverse_restores_refuted) *)
Theorem reverse_restores_partial : forall d T T1,
  Hkeys T -> Hnames T -> Hu64 T -> (0 <= t_nbl T)%Z -> forallb entry_u64 d = true ->
  slots_distinct (t_nbl T) d = true ->
  (diff_apply 0 d T = ARet 0 T1 -> diff_apply HWLOC_TOPOLOGY_DIFF_APPLY_REVERSE d T1 = ARet 0 T) /\
  (diff_apply HWLOC_TOPOLOGY_DIFF_APPLY_REVERSE d T = ARet 0 T1 -> diff_apply 0 d T1 = ARet 0 T).
Proof. exact reverse_restores_distinct. Qed.
Print Assumptions reverse_restores_partial.

(* entries on different attributes commute (for ALL topologies, entries, directions) *)
Theorem entries_on_different_attributes_commute : forall b1 e1 b2 e2 T T1 T12,
  (0 <= t_nbl T)%Z -> slot_eqb (slot_of (t_nbl T) e1) (slot_of (t_nbl T) e2) = false ->
  apply_one b1 e1 T = Ok T1 -> apply_one b2 e2 T1 = Ok T12 ->
  exists T2, apply_one b2 e2 T = Ok T2 /\ apply_one b1 e1 T2 = Ok T12.
Proof. exact step_commute. Qed.
Print Assumptions entries_on_different_attributes_commute.

(* ... and the rollback is not exact on such an object: the hypothesis Hnames of
   apply_failure_rolls_back excludes exactly this class *)
Theorem apply_failure_rolls_back_refuted_dup_info :
  exists T d T', keys_unique T && vals_u64 T && info_pairs_nodup T = true /\
                 diff_apply 0 d T = ARet (-2) T' /\ T' <> T.
Proof.
  exists di_R, [EAttr 0 0 (DInfo "Y" "b" "a"); EAttr 0 0 (DInfo "Z" "a" "b")], (topo1 (Some "m") [("Y", "b"); ("Y", "a")]).
  destruct dup_info_rollback_witness as [H1 H2]. split; [exact H1|]. split; [exact H2|]. intros E. discriminate E.
Qed.
Print Assumptions apply_failure_rolls_back_refuted_dup_info.

(* ---------------- non-vacuity ---------------- *)

Definition ex_T := topo2 "p0" "p1" 1000 2000 [("X", "a"); ("Y", "b")] [] [("T", "1")].
Definition ex_d := [EAttr 1 0 (DInfo "X" "a" "b"); EAttr (-3) 1 (DSize 0 2000 (2 ^ 64 - 1)); EAttr 1 0 (DName (Some "p0") (Some "q"));
                    EAttr 3 0 (DInfo "T" "1" "2"); EAttr 1 0 (DInfo "X" "b" "c"); EAttr 2 5 (DName (Some "pu") (Some "x"))].

(* a 2-package topology with NUMA nodes satisfies H; a 6-entry list touching a
   name, a size (wrapping total_memory), an object info twice and a topology
   info fails at its 6th entry and the topology is restored (the cancel loop
   before fix 751402d left X=b) *)
Example hypotheses_met :
  Hkeys ex_T /\ Hnames ex_T /\ Hu64 ex_T /\ Hdepths ex_T /\ (0 <= t_nbl ex_T)%Z /\
  forallb entry_u64 ex_d = true /\ slots_distinct (t_nbl ex_T) (firstn 4 ex_d) = true /\ tmem_consistent ex_T = true /\
  (exists T', diff_apply_forward_cancel 0 ex_d ex_T = ARet (-6) T' /\ T' <> ex_T) /\
  diff_apply 0 ex_d ex_T = ARet (-6) ex_T.
Proof.
  split; [apply keys_unique_Hkeys; vm_compute; reflexivity|].
  split; [apply info_names_nodup_Hnames; vm_compute; reflexivity|].
  split; [apply vals_u64_Hu64; vm_compute; reflexivity|].
  split; [apply depths_addressable_Hdepths; vm_compute; reflexivity|]. split; [vm_compute; discriminate|].
  split; [vm_compute; reflexivity|]. split; [vm_compute; reflexivity|]. split; [vm_compute; reflexivity|]. split.
  - eexists. split; [vm_compute; reflexivity|]. intros E. discriminate E.
  - vm_compute. reflexivity.
Qed.

(* a pair that differs in a name, an info value, a local memory and a topology
   info: build returns 0 with 4 entries, apply gives B exactly (total_memory
   included), reverse apply gives A back; both satisfy the total_memory invariant *)
Definition ex_B := topo2 "q0" "p1" 1000 5 [("X", "z"); ("Y", "b")] [] [("T", "2")].
Example build_apply_reverse_example :
  exists d, diff_build 0 ex_T ex_B = BRet 0 d /\ List.length d = 4%nat /\
            diff_apply 0 d ex_T = ARet 0 ex_B /\ diff_apply HWLOC_TOPOLOGY_DIFF_APPLY_REVERSE d ex_B = ARet 0 ex_T /\
            ~ expressible ex_T (topo1 None []) /\ Inv ex_T /\ Inv ex_B.
Proof.
  eexists. split; [vm_compute; reflexivity|]. split; [reflexivity|]. split; [vm_compute; reflexivity|].
  split; [vm_compute; reflexivity|]. split; [intros [E _]; discriminate E|].
  split; (split; [apply keys_unique_Hkeys; vm_compute; reflexivity|];
          split; [apply info_names_nodup_Hnames; vm_compute; reflexivity|];
          split; [apply vals_u64_Hu64; vm_compute; reflexivity|apply tmem_consistent_Htmem; vm_compute; reflexivity]).
Qed.
